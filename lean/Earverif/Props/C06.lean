/-
C06 — Item selection returns exactly the items implied by the document structure.

Model: `Earverif/Model/Adm.lean`, `Earverif/Model/SelectItems.lean` (transliteration of
`select_rendering_items`).  This file: the declarative comprehension (`specStates`,
`specItem`, `specSelect`) and the property theorems.  Helper lemmas: `Proofs/C06.lean`, `Proofs/C06Spec.lean`,
`Proofs/C06WF.lean`; link to the C14 model of `validate_structure`: `Proofs/C06Doc.lean`.

Headlines: `select_eq_decl_validated`, `select_ok_iff` (validated documents: what is returned, and when),
`select_eq_decl` (the items, declaratively), `select_perm_*` / `select_renumber_*` (declaration order).
-/
import Earverif.Proofs.C06
import Earverif.Proofs.C06Spec
import Earverif.Proofs.C06WF
import Earverif.Props.C07
import Earverif.Props.C20
import Earverif.Proofs.C14Empty
import Earverif.Proofs.C06Doc
import Earverif.Proofs.C06Acyclic
import Earverif.Model.SelectValidated

namespace Earverif.Adm

/-! ## The specification: a comprehension over the document structure -/

/-- no ignored (non-selected complementary) object on the path. -/
def notIgnored (ign : List Nat) (p : List Nat) : Bool := !p.any (ign.contains ·)

/-- the object paths from `r` that avoid ignored objects. -/
def specPaths (a : Adm) (ign : List Nat) (r : Nat) : List (List Nat) :=
  (objectPathsFrom a r).filter (notIgnored ign)

/-- `[ (prog, content, path) | content ∈ prog.contents, root ∈ content.objects, path ∈ paths(root),
no ignored object on path ]`; all root objects when there is no programme; the single
CHNA-only state when there are neither programmes nor objects. -/
def specStates (a : Adm) (prog : Option Nat) (ign : List Nat) : List State :=
  if a.programmes = [] ∧ a.objects = [] then [⟨none, none, none⟩]
  else
    match prog with
    | some p =>
      (a.prog p).contents.flatMap fun c => (a.cont c).objects.flatMap fun r =>
        (specPaths a ign r).map fun path => ⟨some p, some c, some path⟩
    | none =>
      (rootObjects a).flatMap fun r => (specPaths a ign r).map fun path => ⟨none, none, some path⟩

/-- the item of one channel: every field is a function of the item's own state
(programme, content, object path), pack path `pp`, channel/track `ct` and the
absoluteDistance `ad` found along `pp`. -/
def specItem (a : Adm) (st : State) (ty : Nat) (pp : List Nat) (ct : Nat × TSpec)
    (ad : Option Rat) : Item :=
  { kind := ty, tracks := [ct.2], channels := [ct.1],
    programme := st.programme, content := st.content, objPath := st.objPath,
    packPaths := [pp], extra := extraOf a st (some ct.1) ad,
    importances := [getImportance a st pp], blocks := (a.fmt.chan ct.1).blocks, hoa := none }

/-- `items adm = [ item(path, pack, ch) | state ∈ specStates, (pack, alloc) ∈ theAllocation(path.last), ch ∈ alloc ]`
(in `Except`: the first error in iteration order is the result, as in Python). -/
def specSelect (a : Adm) (given : Option Nat) (sel : List Nat) : Except Err (List Item) :=
  match wrappedPacks a.fmt with
  | .error e => .error e
  | .ok _ =>
    match selectComplementary a sel with
    | .error e => .error e
    | .ok ign =>
      flatMapE (fun st =>
        match selectPackMapping a st with
        | .error e => .error e
        | .ok packs => flatMapE (itemsOfPack a st) packs)
        (specStates a (selectProgramme a given) ign)

/-! ## select_eq_spec -/

theorem flatMap_onlySelected_map (ign : List Nat) (mk : List Nat → State)
    (hmk : ∀ p, (mk p).objPath = some p) (l : List (List Nat)) :
    (l.map mk).flatMap (onlySelected ign) = (l.filter (notIgnored ign)).map mk := by
  induction l with
  | nil => rfl
  | cons p ps ih =>
    have hq : notIgnored ign p = !(p.any fun x => ign.contains x) := rfl
    simp only [List.map_cons, List.flatMap_cons, ih, List.filter_cons, onlySelected, hmk]
    cases h : (p.any fun x => ign.contains x) with
    | false =>
      have hq' : notIgnored ign p = true := by rw [hq, h]; rfl
      simp [hq']
    | true =>
      have hq' : notIgnored ign p = false := by rw [hq, h]; rfl
      simp [hq']

/-- the generator pipeline `_select_programme_content_objects` + `_select_only_selected_complementary`
yields exactly the comprehension. -/
theorem selectStates_eq_spec (a : Adm) (given : Option Nat) (ign : List Nat) :
    selectStates a given ign = specStates a (selectProgramme a given) ign := by
  unfold selectStates selectPCO specStates
  by_cases h : a.programmes = [] ∧ a.objects = []
  · have : ¬ (a.programmes ≠ [] ∨ a.objects ≠ []) := by simp [h.1, h.2]
    simp [h, onlySelected]
  · have h' : a.programmes ≠ [] ∨ a.objects ≠ [] := by
      by_cases hp : a.programmes = []
      · right; intro ho; exact h ⟨hp, ho⟩
      · left; exact hp
    simp only [h', h, if_true, if_false]
    cases selectProgramme a given with
    | none =>
      simp only [selectContent, List.flatMap_cons, List.flatMap_nil, List.append_nil,
        selectObjectPaths, selectRootObjects, List.flatMap_assoc, specPaths]
      congr 1; funext r
      exact flatMap_onlySelected_map ign (fun p => ⟨none, none, some p⟩) (fun _ => rfl) _
    | some p =>
      simp only [selectContent, List.flatMap_map, selectObjectPaths, selectRootObjects,
        List.flatMap_assoc, specPaths]
      congr 1; funext c
      congr 1; funext r
      have := flatMap_onlySelected_map ign (fun q => ⟨some p, some c, some q⟩) (fun _ => rfl)
        (objectPathsFrom a r)
      rw [List.flatMap_map] at this
      exact this

/-- **select_eq_spec**: the transliterated, generator-style selection equals the comprehension
(as values of `Except`, i.e. including which documents are rejected). -/
theorem select_eq_spec (a : Adm) (given : Option Nat) (sel : List Nat) :
    selectRenderingItems a given sel = specSelect a given sel := by
  unfold selectRenderingItems specSelect
  cases wrappedPacks a.fmt with
  | error e => rfl
  | ok wps =>
    cases selectComplementary a sel with
    | error e => rfl
    | ok ign =>
      simp only [selectStates_eq_spec]
      rfl

/-- the items of an Objects/DirectSpeakers channel are the declarative `specItem`. -/
theorem singleItem_spec {a : Adm} {st : State} {ty p : Nat} {ct : Nat × TSpec} {it : Item}
    (h : singleItem a st ty p ct = .ok it) :
    ∃ pp ad, getPackFormatPath a.fmt p ct.1 = .ok pp ∧
      getPathParam (pp.map fun q => (a.fmt.pack q).absDist) = .ok ad ∧
      it = specItem a st ty pp ct ad := by
  unfold singleItem at h
  cases hpp : getPackFormatPath a.fmt p ct.1 with
  | error e => simp [hpp] at h
  | ok pp =>
    simp only [hpp, getExtraData, getSingleParam, checkPairs] at h
    cases had : getPathParam (pp.map fun q => (a.fmt.pack q).absDist) with
    | error e => simp [had] at h
    | ok ad =>
      simp only [had] at h
      exact ⟨pp, ad, rfl, had, (Except.ok.inj h).symm⟩

/-! ## items carry their own state; extra data / importance from the item's own paths -/

/-- the item was generated from state `st` (its own programme, content and object path). -/
def Item.fromState (it : Item) (st : State) : Prop :=
  it.programme = st.programme ∧ it.content = st.content ∧ it.objPath = st.objPath

/-- the state an item names. -/
def Item.state (it : Item) : State := ⟨it.programme, it.content, it.objPath⟩

theorem Item.fromState_iff (it : Item) (st : State) : it.fromState st ↔ it.state = st := by
  cases st; simp [Item.fromState, Item.state]

/-- the channel whose frequency an item carries (none for HOA items). -/
def Item.freqChannel (it : Item) : Option Nat := if it.kind = 4 then none else it.channels.head?

/-- what every item satisfies w.r.t. the state it was generated from: extra data is
`_get_extra_data` of its own (state, pack paths, channel), importances are those of its own
object path and pack paths. -/
def Item.OwnData (a : Adm) (it : Item) (st : State) : Prop :=
  it.fromState st ∧
  getExtraData a st (it.packPaths.zip it.channels) it.freqChannel = .ok it.extra ∧
  it.importances = it.packPaths.map (getImportance a st)

theorem zip_map_fst_snd {α β : Type} (l : List (α × β)) : (l.map (·.1)).zip (l.map (·.2)) = l := by
  induction l with
  | nil => rfl
  | cons x xs ih => simp [ih]

theorem singleItem_own {a : Adm} {st : State} {ty p : Nat} {ct : Nat × TSpec} {it : Item}
    (hty : ty ≠ 4) (h : singleItem a st ty p ct = .ok it) : it.OwnData a st := by
  obtain ⟨pp, ad, _, had, rfl⟩ := singleItem_spec h
  refine ⟨⟨rfl, rfl, rfl⟩, ?_, rfl⟩
  simp [specItem, Item.freqChannel, hty, getExtraData, getSingleParam, checkPairs, had]

theorem hoaItem_own {a : Adm} {st : State} {ap : AllocPack} {it : Item}
    (h : hoaItem a st ap = .ok it) : it.OwnData a st ∧ it.kind = 4 := by
  unfold hoaItem at h
  split at h
  · cases h
  · rename_i ppc _
    split at h
    · cases h
    · split at h
      · cases h
      · rename_i ex hex
        cases h
        refine ⟨⟨⟨rfl, rfl, rfl⟩, ?_, ?_⟩, rfl⟩
        · simp only [zip_map_fst_snd, Item.freqChannel, if_true]
          exact hex
        · simp [List.map_map]

theorem itemsOfPack_own {a : Adm} {st : State} {ap : AllocPack} {its : List Item}
    (h : itemsOfPack a st ap = .ok its) : ∀ it ∈ its, it.OwnData a st := by
  unfold itemsOfPack at h
  dsimp only at h
  intro it hit
  split at h
  · rename_i hty
    obtain ⟨ct, _, hct⟩ := mapE_mem h hit
    refine singleItem_own ?_ hct
    rcases hty with h3 | h1 <;> omega
  · split at h
    · cases hh : hoaItem a st ap with
      | error e => simp [hh] at h
      | ok it' =>
        simp only [hh, Except.ok.injEq] at h
        subst h
        simp only [List.mem_singleton] at hit
        subst hit
        exact (hoaItem_own hh).1
    · cases h

theorem itemsOfState_own {a : Adm} {st : State} {its : List Item}
    (h : itemsOfState a st = .ok its) : ∀ it ∈ its, it.OwnData a st := by
  unfold itemsOfState at h
  split at h
  · cases h
  · intro it hit
    obtain ⟨ap, _, zs, hzs, hmem⟩ := flatMapE_mem h hit
    exact itemsOfPack_own hzs it hmem

/-- every selected item comes from one of the states of the comprehension. -/
theorem items_from_states {a : Adm} {given : Option Nat} {sel : List Nat} {items : List Item}
    (h : selectRenderingItems a given sel = .ok items) :
    ∃ ign, selectComplementary a sel = .ok ign ∧
      ∀ it ∈ items, ∃ st ∈ specStates a (selectProgramme a given) ign, it.OwnData a st := by
  unfold selectRenderingItems at h
  split at h
  · cases h
  · cases hc : selectComplementary a sel with
    | error e => simp [hc] at h
    | ok ign =>
      simp only [hc] at h
      refine ⟨ign, rfl, fun it hit => ?_⟩
      obtain ⟨st, hst, zs, hzs, hmem⟩ := flatMapE_mem h hit
      rw [selectStates_eq_spec] at hst
      exact ⟨st, hst, itemsOfState_own hzs it hmem⟩

/-! ## select_excludes_ignored -/

theorem specStates_objPath {a : Adm} {prog : Option Nat} {ign : List Nat} {st : State}
    (h : st ∈ specStates a prog ign) {p : List Nat} (hp : st.objPath = some p) :
    notIgnored ign p = true ∧ ∃ r, p ∈ objectPathsFrom a r := by
  unfold specStates at h
  split at h
  · simp only [List.mem_singleton] at h; subst h; cases hp
  · cases prog with
    | none =>
      simp only [List.mem_flatMap, List.mem_map, specPaths, List.mem_filter] at h
      obtain ⟨r, _, q, ⟨hq, hn⟩, rfl⟩ := h
      cases hp
      exact ⟨hn, r, hq⟩
    | some pr =>
      simp only [List.mem_flatMap, List.mem_map, specPaths, List.mem_filter] at h
      obtain ⟨c, _, r, _, q, ⟨hq, hn⟩, rfl⟩ := h
      cases hp
      exact ⟨hn, r, hq⟩

/-- the ignored objects are exactly the non-selected members of complementary groups. -/
theorem mem_ignored_iff {a : Adm} {sel ign : List Nat} (h : selectComplementary a sel = .ok ign) (o : Nat) :
    o ∈ ign ↔ ∃ r ∈ compRoots a, o ∈ compGroup a r ∧ o ∉ compAllSelected a sel := by
  unfold selectComplementary at h
  dsimp only at h
  split at h
  · cases h
  · split at h
    · cases h
    · cases h
      simp [List.mem_flatMap, List.mem_filter]

/-- when selection succeeds, at most one member of each complementary group is selected
(two explicitly selected members are rejected with `multipleSelected`). -/
theorem comp_at_most_one_selected {a : Adm} {sel ign : List Nat} (h : selectComplementary a sel = .ok ign) :
    ∀ r ∈ compRoots a, ((compGroup a r).filter ((compAllSelected a sel).contains ·)).length ≤ 1 := by
  unfold selectComplementary at h
  dsimp only at h
  split at h
  · cases h
  · split at h
    · cases h
    · rename_i hm
      intro r hr
      simp only [List.any_eq_true, not_exists, not_and] at hm
      have := hm r hr
      simpa using this

/-- **select_excludes_ignored**: no selected item lies on an object path through a
non-selected member of a complementary group. -/
theorem select_excludes_ignored {a : Adm} {given : Option Nat} {sel : List Nat} {items : List Item}
    (h : selectRenderingItems a given sel = .ok items) :
    ∃ ign, selectComplementary a sel = .ok ign ∧
      ∀ it ∈ items, ∀ p, it.objPath = some p → ∀ o ∈ p, o ∉ ign := by
  obtain ⟨ign, hign, hall⟩ := items_from_states h
  refine ⟨ign, hign, fun it hit p hp o ho hoi => ?_⟩
  obtain ⟨st, hst, hown, _⟩ := hall it hit
  have := (specStates_objPath hst (hown.2.2 ▸ hp)).1
  simp only [notIgnored, Bool.not_eq_true', List.any_eq_false, List.contains_iff_mem] at this
  exact this o ho (by simpa using hoi)

/-! ## select_once_per_path -/

/-- reference lists contain no duplicates (BS.2076 documents reference an element once). -/
structure NoDupRefs (a : Adm) : Prop where
  contents : ∀ p, (a.prog p).contents.Nodup
  objects : ∀ c, (a.cont c).objects.Nodup
  subs : ∀ o, (a.subs o).Nodup

/-- no loops in the audioObject nesting (`_validate_object_loops`), stated with a rank that
decreases along sub-object references. -/
def Acyclic (a : Adm) : Prop :=
  ∃ rank : Nat → Nat, (∀ o c, c ∈ a.subs o → rank c < rank o) ∧
    ∀ o, o < a.objects.length → rank o < a.objects.length

/-- with fuel = number of objects, `object_paths_from` enumerates exactly the chains of
sub-object references. -/
theorem mem_objectPathsFrom_iff {a : Adm} (hac : Acyclic a) {r : Nat} (hr : r < a.objects.length)
    (p : List Nat) : p ∈ objectPathsFrom a r ↔ Chain a.subs r p := by
  obtain ⟨rank, hdec, hbound⟩ := hac
  constructor
  · exact chain_of_mem_pathsFrom _ _ _
  · intro h
    have := h.length_le hdec
    have := hbound r hr
    exact mem_pathsFrom_of_chain h _ (by omega)

theorem objectPathsFrom_nodup {a : Adm} (hnd : NoDupRefs a) (r : Nat) : (objectPathsFrom a r).Nodup :=
  pathsFrom_nodup hnd.subs _ _

theorem objectPathsFrom_head {a : Adm} {r : Nat} {p : List Nat} (h : p ∈ objectPathsFrom a r) :
    p.head? = some r := (chain_of_mem_pathsFrom _ _ _ h).head

theorem rootObjects_nodup (a : Adm) : (rootObjects a).Nodup := nodup_filter _ List.nodup_range

theorem rootPaths_nodup {a : Adm} (hnd : NoDupRefs a) (ign : List Nat) (mk : List Nat → State)
    (hmk : ∀ x y, mk x = mk y → x = y) {l : List Nat} (hl : l.Nodup) :
    (l.flatMap fun r => (specPaths a ign r).map mk).Nodup := by
  refine nodup_flatMap_of hl (fun r _ => nodup_map_of_inj (nodup_filter _ (objectPathsFrom_nodup hnd r)) hmk) ?_
  intro r _ r' _ hne b hb hb'
  simp only [List.mem_map, specPaths, List.mem_filter] at hb hb'
  obtain ⟨q, ⟨hq, _⟩, rfl⟩ := hb
  obtain ⟨q', ⟨hq', _⟩, he⟩ := hb'
  have := hmk _ _ he
  subst this
  have h1 := objectPathsFrom_head hq
  rw [objectPathsFrom_head hq'] at h1
  exact hne (Option.some.inj h1).symm

/-- the states of the comprehension are pairwise distinct: each (content, object path) occurs once. -/
theorem specStates_nodup {a : Adm} (hnd : NoDupRefs a) (prog : Option Nat) (ign : List Nat) :
    (specStates a prog ign).Nodup := by
  unfold specStates
  split
  · simp
  · cases prog with
    | none =>
      exact rootPaths_nodup hnd ign _ (fun x y h => by simpa using h) (rootObjects_nodup a)
    | some p =>
      refine nodup_flatMap_of (hnd.contents p) (fun c _ => ?_) ?_
      · exact rootPaths_nodup hnd ign _ (fun x y h => by simpa using h) (hnd.objects c)
      · intro c _ c' _ hne b hb hb'
        simp only [List.mem_flatMap, List.mem_map] at hb hb'
        obtain ⟨_, _, _, _, rfl⟩ := hb
        obtain ⟨_, _, _, _, he⟩ := hb'
        simp only [State.mk.injEq, Option.some.injEq, true_and] at he
        exact hne he.1.symm

theorem getD_mem_or_default {α : Type} (l : List α) (i : Nat) (d : α) : l.getD i d ∈ l ∨ l.getD i d = d := by
  by_cases h : i < l.length
  · left; simp [List.getD_eq_getElem?_getD, List.getElem?_eq_getElem h]
  · right; simp [List.getD_eq_getElem?_getD, List.getElem?_eq_none (Nat.le_of_not_lt h)]

/-- the references of the content part into the audioObject list are in range. -/
structure ObjRefsOK (a : Adm) : Prop where
  cont : ∀ c, ∀ r ∈ (a.cont c).objects, r < a.objects.length
  subs : ∀ o, ∀ x ∈ a.subs o, x < a.objects.length
  comps : ∀ o, ∀ x ∈ (a.obj o).complementary, x < a.objects.length

theorem objRefsOK_of_refsInRange {a : Adm} (h : a.refsInRange = true) : ObjRefsOK a := by
  unfold Adm.refsInRange at h
  simp only [Bool.and_eq_true, List.all_eq_true, decide_eq_true_eq] at h
  obtain ⟨⟨⟨⟨⟨⟨⟨_, hc⟩, ho⟩, _⟩, _⟩, _⟩, _⟩, _⟩ := h
  refine ⟨fun c r hr => ?_, fun o x hx => ?_, fun o x hx => ?_⟩
  · unfold Adm.cont at hr
    rcases getD_mem_or_default a.contents c default with hm | hd
    · exact hc _ hm r hr
    · rw [hd] at hr; cases hr
  · unfold Adm.subs Adm.obj at hx
    rcases getD_mem_or_default a.objects o default with hm | hd
    · exact (ho _ hm).1.2 x hx
    · rw [hd] at hx; cases hx
  · unfold Adm.obj at hx
    rcases getD_mem_or_default a.objects o default with hm | hd
    · exact (ho _ hm).2 x hx
    · rw [hd] at hx; cases hx

/-- which states there are (programme case): one per content of the programme, root object of the
content and chain of sub-objects from that root that avoids ignored objects. -/
theorem mem_specStates_iff {a : Adm} (hac : Acyclic a) (hrange : a.refsInRange = true)
    (hne : ¬ (a.programmes = [] ∧ a.objects = [])) (q : Nat) (ign : List Nat) (st : State) :
    st ∈ specStates a (some q) ign ↔
      ∃ c ∈ (a.prog q).contents, ∃ r ∈ (a.cont c).objects, ∃ path, Chain a.subs r path ∧
        notIgnored ign path = true ∧ st = ⟨some q, some c, some path⟩ := by
  have hr := (objRefsOK_of_refsInRange hrange).cont
  unfold specStates
  simp only [hne, if_false, List.mem_flatMap, List.mem_map, specPaths, List.mem_filter]
  constructor
  · rintro ⟨c, hc, r, hrc, path, ⟨hp, hn⟩, rfl⟩
    exact ⟨c, hc, r, hrc, path, (mem_objectPathsFrom_iff hac (hr c r hrc) path).1 hp, hn, rfl⟩
  · rintro ⟨c, hc, r, hrc, path, hp, hn, rfl⟩
    exact ⟨c, hc, r, hrc, path, ⟨(mem_objectPathsFrom_iff hac (hr c r hrc) path).2 hp, hn⟩, rfl⟩

/-- `validate_structure` runs `_validate_object_loops` (second step of the C14 model's `validateStructure`) -/
theorem validateObjectLoops_of_validate {d : AdmV.Doc} (hv : Validate.validateStructure d = .ok ()) :
    Validate.validateObjectLoops d = .ok () := by
  unfold Validate.validateStructure at hv
  obtain ⟨_, _, h⟩ := Validate.bind_ok hv
  obtain ⟨_, h2, _⟩ := Validate.bind_ok h
  exact h2

/-- **acyclic_of_validate**: `Acyclic a` — the hypothesis of `mem_objectPathsFrom_iff` / `mem_specStates_iff` that
makes the fuel of `objectPathsFrom` sufficient — is DERIVED from C14's object-loop validator
(`Validate.objLoopDfs`, run by `validateStructure` on `toDoc a`): a dfs that returned without the loop error from
every object visited only duplicate-free chains (`objLoopDfs_chains`), so chains have at most `a.objects.length`
entries (pigeonhole) and the longest-chain length is a rank (`rank_of_chains_short`).  `refsInRange` stays a
hypothesis (dangling indices cannot be written in Python; the driver checks it before running the model). -/
theorem acyclic_of_validate {a : Adm} (hrange : a.refsInRange = true)
    (hv : Validate.validateStructure (toDoc a) = .ok ()) : Acyclic a := by
  have hsubs := (objRefsOK_of_refsInRange hrange).subs
  have hl := validateObjectLoops_of_validate hv
  have hch : ∀ o c, o < (toDoc a).objects.length → c ∈ ((toDoc a).obj o).objects → c < (toDoc a).objects.length := by
    intro o c _ hc
    rw [toDoc_obj_objects] at hc
    rw [toDoc_nobjects]
    exact hsubs o c hc
  have hfun : (fun i => ((toDoc a).obj i).objects) = a.subs := funext (toDoc_obj_objects a)
  refine rank_of_chains_short a.subs a.objects.length (fun o c _ hc => hsubs o c hc) ?_ ?_
  · intro o ho
    unfold Adm.subs Adm.obj
    simp [List.getD_eq_getElem?_getD, List.getElem?_eq_none ho]
    rfl
  · intro r hr p hp
    have := chains_short_of_loops (toDoc a) hch hl (r := r) (by rw [toDoc_nobjects]; exact hr) (p := p)
      (by rw [hfun]; exact hp)
    rwa [toDoc_nobjects] at this

/-- **select_once_per_path**: the selected items that name a given (programme, content, object
path) are exactly the items of that one state, once — and nothing when the state is not in the
comprehension.  Together with `specStates_nodup` / `mem_specStates_iff`: the multiplicity of an
item is the number of distinct object paths reaching it. -/
theorem select_once_per_path {a : Adm} (hnd : NoDupRefs a) {given : Option Nat} {sel : List Nat}
    {items : List Item} (h : selectRenderingItems a given sel = .ok items) :
    ∃ ign, selectComplementary a sel = .ok ign ∧ ∀ st : State,
      items.filter (fun it => decide (it.state = st)) =
        if st ∈ specStates a (selectProgramme a given) ign then okVal (itemsOfState a) st else [] := by
  unfold selectRenderingItems at h
  split at h
  · cases h
  · cases hc : selectComplementary a sel with
    | error e => simp [hc] at h
    | ok ign =>
      simp only [hc, selectStates_eq_spec] at h
      refine ⟨ign, rfl, fun st => ?_⟩
      obtain ⟨hall, rfl⟩ := (flatMapE_ok_iff _ _ _).1 h
      refine filter_flatMap_key (specStates_nodup hnd _ ign) _ Item.state ?_ st
      intro s hs it hit
      obtain ⟨zs, hzs⟩ := hall s hs
      have hmem : it ∈ zs := by simpa [okVal, hzs] using hit
      exact (Item.fromState_iff it s).1 (itemsOfState_own hzs it hmem).1

/-! ## extra_data_from_own_path -/

/-- **extra_data_from_own_path**: the extra data of every selected item is `_get_extra_data`
evaluated on the item's *own* programme/content/object path, pack paths and channel — nothing
else of the document enters. -/
theorem extra_data_from_own_path {a : Adm} {given : Option Nat} {sel : List Nat} {items : List Item}
    (h : selectRenderingItems a given sel = .ok items) :
    ∀ it ∈ items,
      getExtraData a it.state (it.packPaths.zip it.channels) it.freqChannel = .ok it.extra := by
  obtain ⟨ign, _, hall⟩ := items_from_states h
  intro it hit
  obtain ⟨st, _, hown⟩ := hall it hit
  rw [(Item.fromState_iff it st).1 hown.1]
  exact hown.2.1

/-- **importance_from_own_path**: (object importance, pack importance) of every channel of an item
is the minimum along the item's own object path and that channel's pack path. -/
theorem importance_from_own_path {a : Adm} {given : Option Nat} {sel : List Nat} {items : List Item}
    (h : selectRenderingItems a given sel = .ok items) :
    ∀ it ∈ items, it.importances = it.packPaths.map (getImportance a it.state) := by
  obtain ⟨ign, _, hall⟩ := items_from_states h
  intro it hit
  obtain ⟨st, _, hown⟩ := hall it hit
  rw [(Item.fromState_iff it st).1 hown.1]
  exact hown.2.2

/-- `_get_extra_data` only fails or returns `extraOf` with the absoluteDistance found on the pack paths. -/
theorem getExtraData_eq {a : Adm} {st : State} {ppc : List (List Nat × Nat)} {ch : Option Nat} {e : Extra}
    (h : getExtraData a st ppc ch = .ok e) : ∃ ad, e = extraOf a st ch ad := by
  unfold getExtraData at h
  split at h
  · cases h
  · rename_i ad _
    exact ⟨ad, (Except.ok.inj h).symm⟩

/-! one lemma per field of `extraOf` (how the code combines the values along the path: the
leaf object's own values, overridden by the referenced alternativeValueSet; object parameters
of non-leaf objects are rejected by validation, so nothing is accumulated along the path). -/

theorem extraOf_objectStart (a : Adm) (st : State) (ch : Option Nat) (ad : Option Rat) :
    (extraOf a st ch ad).objectStart = (st.leaf a).bind (·.start) := by
  unfold extraOf
  dsimp only
  repeat' split
  all_goals simp_all

theorem extraOf_objectDuration (a : Adm) (st : State) (ch : Option Nat) (ad : Option Rat) :
    (extraOf a st ch ad).objectDuration = (st.leaf a).bind (·.duration) := by
  unfold extraOf
  dsimp only
  repeat' split
  all_goals simp_all

/-- reference screen: the item's own programme's, `default_screen` without a programme. -/
theorem extraOf_screen (a : Adm) (st : State) (ch : Option Nat) (ad : Option Rat) :
    (extraOf a st ch ad).screen =
      match st.programme with
      | some p => (a.prog p).screen
      | none => some 0 := by
  unfold extraOf
  dsimp only
  repeat' split
  all_goals simp_all

theorem extraOf_frequency (a : Adm) (st : State) (ch : Option Nat) (ad : Option Rat) :
    (extraOf a st ch ad).lowPass = ch.bind (fun c => (a.fmt.chan c).lowPass) ∧
    (extraOf a st ch ad).highPass = ch.bind (fun c => (a.fmt.chan c).highPass) := by
  unfold extraOf
  dsimp only
  repeat' split
  all_goals simp_all

theorem extraOf_absDist (a : Adm) (st : State) (ch : Option Nat) (ad : Option Rat) :
    (extraOf a st ch ad).absDist = ad := by
  unfold extraOf
  dsimp only
  repeat' split
  all_goals simp_all

/-- gain: the referenced alternativeValueSet's gain if it has one, else the leaf object's gain
(1 in CHNA-only mode). -/
theorem extraOf_gain (a : Adm) (st : State) (ch : Option Nat) (ad : Option Rat) :
    (extraOf a st ch ad).gain =
      match (getAvs a st).bind (·.gain), st.leaf a with
      | some g, _ => g
      | none, some o => o.gain
      | none, none => 1 := by
  unfold extraOf
  dsimp only
  repeat' split
  all_goals simp_all

theorem extraOf_mute (a : Adm) (st : State) (ch : Option Nat) (ad : Option Rat) :
    (extraOf a st ch ad).mute =
      match (getAvs a st).bind (·.mute), st.leaf a with
      | some m, _ => m
      | none, some o => o.mute
      | none, none => false := by
  unfold extraOf
  dsimp only
  repeat' split
  all_goals simp_all

theorem extraOf_posOff (a : Adm) (st : State) (ch : Option Nat) (ad : Option Rat) :
    (extraOf a st ch ad).posOff =
      match (getAvs a st).bind (·.posOff), st.leaf a with
      | some o, _ => some o
      | none, some o => o.posOff
      | none, none => none := by
  unfold extraOf
  dsimp only
  repeat' split
  all_goals simp_all

/-! ## chna_only_all_tracks, no_programme_all_roots -/

theorem flatMapE_singleton {α β : Type} (f : α → Except Err (List β)) (x : α) :
    flatMapE f [x] = f x := by
  unfold flatMapE mapE mapE
  cases f x <;> simp

theorem selectComplementary_no_objects {a : Adm} (ho : a.objects = []) :
    selectComplementary a [] = .ok [] := by
  simp [selectComplementary, compRoots, ho, compAllSelected]

/-- **chna_only_all_tracks**: without programmes and objects, selection is the items of the single
CHNA-only state: *all* audioTrackUIDs of the document are allocated (`chna_only_problem`: no pack
references, no silent tracks), every allocated pack is rendered, and no programme / content /
object is attached to the items. -/
theorem chna_only_all_tracks {a : Adm} (hp : a.programmes = []) (ho : a.objects = []) (given : Option Nat) :
    selectRenderingItems a given [] =
      match wrappedPacks a.fmt with
      | .error e => .error e
      | .ok _ => itemsOfState a ⟨none, none, none⟩ := by
  rw [select_eq_spec]
  unfold specSelect
  cases wrappedPacks a.fmt with
  | error e => rfl
  | ok wps =>
    simp only [selectComplementary_no_objects ho, specStates, hp, ho, and_self, if_true, flatMapE_singleton]
    rfl

/-- the allocation problem of the CHNA-only state: every audioTrackUID, in declaration order,
`pack_refs = None`, `num_silent_tracks = 0`. -/
theorem chna_only_problem (a : Adm) (wps : List WPack) :
    (allocProblem a ⟨none, none, none⟩ wps).2 = List.range a.fmt.trackUIDs.length ∧
    (allocProblem a ⟨none, none, none⟩ wps).1.packRefs = none ∧
    (allocProblem a ⟨none, none, none⟩ wps).1.numSilent = 0 ∧
    (allocProblem a ⟨none, none, none⟩ wps).1.tracks.length = a.fmt.trackUIDs.length := by
  simp [allocProblem]

theorem selectProgramme_none (a : Adm) : selectProgramme a none = minById a.programmes := by
  unfold selectProgramme
  match a.programmes with
  | [] => rfl
  | [_] => rfl
  | _ :: _ :: _ => rfl

/-- **no_programme_all_roots**: without programmes (but with objects) the selected states are all
object paths from all root objects (objects that are nobody's sub-object), minus ignored ones. -/
theorem no_programme_all_roots {a : Adm} (hp : a.programmes = []) (ho : a.objects ≠ []) (ign : List Nat) :
    selectStates a none ign =
      (rootObjects a).flatMap fun r => (specPaths a ign r).map fun path => ⟨none, none, some path⟩ := by
  rw [selectStates_eq_spec, selectProgramme_none, hp]
  unfold specStates
  simp [hp, ho, minById, minByIdGo]

theorem mem_rootObjects (a : Adm) (r : Nat) :
    r ∈ rootObjects a ↔ r < a.objects.length ∧ ∀ o ∈ a.objects, r ∉ o.subObjects := by
  simp [rootObjects, List.mem_filter, List.mem_range, List.mem_flatMap]

/-- which states there are when no programme is selected (documents without audioProgramme): one per root object and
chain of sub-objects from it that avoids ignored objects -/
theorem mem_specStates_none_iff {a : Adm} (hac : Acyclic a)
    (hne : ¬ (a.programmes = [] ∧ a.objects = [])) (ign : List Nat) (st : State) :
    st ∈ specStates a none ign ↔
      ∃ r ∈ rootObjects a, ∃ path, Chain a.subs r path ∧ notIgnored ign path = true ∧
        st = ⟨none, none, some path⟩ := by
  unfold specStates
  simp only [hne, if_false, List.mem_flatMap, List.mem_map, specPaths, List.mem_filter]
  constructor
  · rintro ⟨r, hr, path, ⟨hp, hn⟩, rfl⟩
    exact ⟨r, hr, path, (mem_objectPathsFrom_iff hac ((mem_rootObjects a r).1 hr).1 path).1 hp, hn, rfl⟩
  · rintro ⟨r, hr, path, hp, hn, rfl⟩
    exact ⟨r, hr, path, ⟨(mem_objectPathsFrom_iff hac ((mem_rootObjects a r).1 hr).1 path).2 hp, hn⟩, rfl⟩

/-- **select_eq_decl_chain**: on a document that C14's `validate_structure` accepts, the state enumeration
`specStates` that `select_eq_decl` / `select_eq_decl_validated` range over is the declarative set — with no fuel and no
model function in it: a state is enumerated iff it is (chosen programme `q`, one of its contents `c`, a chain of
sub-object references from one of `c`'s objects) — or (no programme: a chain from a root object, i.e. an object that no
object references) — and no object of the chain is ignored.  (`rootObjects` is characterised by `mem_rootObjects`; the
ignored objects by `mem_ignored_iff`; the ORDER and multiplicity of the enumeration by `specStates_nodup` and the
model's iteration order, which is not declarative.) -/
theorem select_eq_decl_chain {a : Adm} (hrange : a.refsInRange = true)
    (hv : Validate.validateStructure (toDoc a) = .ok ()) (hne : ¬ (a.programmes = [] ∧ a.objects = []))
    (ign : List Nat) (st : State) :
    (∀ q, st ∈ specStates a (some q) ign ↔
      ∃ c ∈ (a.prog q).contents, ∃ r ∈ (a.cont c).objects, ∃ path, Chain a.subs r path ∧
        notIgnored ign path = true ∧ st = ⟨some q, some c, some path⟩) ∧
    (st ∈ specStates a none ign ↔
      ∃ r, (r < a.objects.length ∧ ∀ o ∈ a.objects, r ∉ o.subObjects) ∧ ∃ path, Chain a.subs r path ∧
        notIgnored ign path = true ∧ st = ⟨none, none, some path⟩) := by
  have hac := acyclic_of_validate hrange hv
  refine ⟨fun q => mem_specStates_iff hac hrange hne q ign st, ?_⟩
  rw [mem_specStates_none_iff hac hne]
  constructor
  · rintro ⟨r, hr, rest⟩; exact ⟨r, (mem_rootObjects a r).1 hr, rest⟩
  · rintro ⟨r, hr, rest⟩; exact ⟨r, (mem_rootObjects a r).2 hr, rest⟩

/-! ## select_perm (declaration order of reference lists) -/

/-- the document with every child reference list of the content part emptied: what the
per-state item functions can see besides the state itself. -/
def Adm.strip (a : Adm) : Adm :=
  { programmes := a.programmes.map fun p => { p with contents := [] },
    contents := a.contents.map fun c => { c with objects := [] },
    objects := a.objects.map fun o => { o with subObjects := [], complementary := [] },
    fmt := a.fmt }

theorem getD_map_default {α β : Type} (f : α → β) (l : List α) (i : Nat) (d : α) :
    (l.map f).getD i (f d) = f (l.getD i d) := by
  simp only [List.getD_eq_getElem?_getD, List.getElem?_map]
  cases l[i]? <;> rfl

theorem strip_obj (a : Adm) (i : Nat) :
    a.strip.obj i = { a.obj i with subObjects := [], complementary := [] } := by
  unfold Adm.obj Adm.strip
  exact getD_map_default (fun o : Obj => { o with subObjects := [], complementary := [] }) a.objects i default

theorem strip_prog (a : Adm) (i : Nat) : a.strip.prog i = { a.prog i with contents := [] } := by
  unfold Adm.prog Adm.strip
  exact getD_map_default (fun p : Programme => { p with contents := [] }) a.programmes i default

theorem strip_cont (a : Adm) (i : Nat) : a.strip.cont i = { a.cont i with objects := [] } := by
  unfold Adm.cont Adm.strip
  exact getD_map_default (fun c : Content => { c with objects := [] }) a.contents i default

theorem strip_fmt (a : Adm) : a.strip.fmt = a.fmt := rfl

/-- the items of a state do not depend on any child reference list of the content part. -/
theorem itemsOfState_strip (a : Adm) (st : State) : itemsOfState a.strip st = itemsOfState a st := by
  have hleaf : ∀ st : State, st.leaf a.strip =
      (st.leaf a).map fun o => { o with subObjects := [], complementary := [] } := by
    intro st; unfold State.leaf; cases st.objPath <;> simp [strip_obj]
  have havs : ∀ st, getAvs a.strip st = getAvs a st := by
    intro st
    unfold getAvs
    rw [hleaf]
    cases st.leaf a <;> cases st.programme <;> cases st.content <;> simp [strip_prog, strip_cont]
  have hextra : ∀ st ch ad, extraOf a.strip st ch ad = extraOf a st ch ad := by
    intro st ch ad
    unfold extraOf
    rw [havs, hleaf]
    cases st.leaf a <;> cases st.programme <;> simp [strip_prog, strip_fmt]
  have hged : ∀ st ppc ch, getExtraData a.strip st ppc ch = getExtraData a st ppc ch := by
    intro st ppc ch; unfold getExtraData; simp only [strip_fmt, hextra]
  have himp : ∀ st pp, getImportance a.strip st pp = getImportance a st pp := by
    intro st pp; unfold getImportance; cases st.objPath <;> simp [strip_obj, strip_fmt]
  have hsingle : ∀ st ty p ct, singleItem a.strip st ty p ct = singleItem a st ty p ct := by
    intro st ty p ct; unfold singleItem; simp only [strip_fmt, hged, himp]
  have hhoa : ∀ st ap, hoaItem a.strip st ap = hoaItem a st ap := by
    intro st ap; unfold hoaItem; simp only [strip_fmt, hged, himp]
  have hpack : ∀ st ap, itemsOfPack a.strip st ap = itemsOfPack a st ap := by
    intro st ap; unfold itemsOfPack
    simp only [strip_fmt, hhoa,
      show ∀ ty p, singleItem a.strip st ty p = singleItem a st ty p from fun ty p => funext (hsingle st ty p)]
  have hprob : ∀ wps, allocProblem a.strip st wps = allocProblem a st wps := by
    intro wps; unfold allocProblem; cases st.objPath <;> simp [strip_obj, strip_fmt]
  have hmap : selectPackMapping a.strip st = selectPackMapping a st := by
    unfold selectPackMapping; simp only [strip_fmt, hprob]
  unfold itemsOfState
  rw [hmap]
  cases selectPackMapping a st with
  | error e => rfl
  | ok packs =>
    simp only
    congr 1
    funext ap
    exact hpack st ap

theorem minByIdGo_congr : ∀ (ps qs : List Programme) (i : Nat) (b : Option (Nat × Nat)),
    ps.map (·.idKey) = qs.map (·.idKey) → minByIdGo ps i b = minByIdGo qs i b
  | [], [], _, _, _ => rfl
  | [], _ :: _, _, _, h => by simp at h
  | _ :: _, [], _, _, h => by simp at h
  | p :: ps, q :: qs, i, b, h => by
    simp only [List.map_cons, List.cons.injEq] at h
    cases b with
    | none => simp only [minByIdGo, h.1]; exact minByIdGo_congr ps qs _ _ h.2
    | some bb =>
      obtain ⟨bi, bk⟩ := bb
      simp only [minByIdGo, h.1]
      split <;> exact minByIdGo_congr ps qs _ _ h.2

/-- the chosen programme only depends on the ids, in declaration order. -/
theorem selectProgramme_congr {a a' : Adm} (h : a'.programmes.map (·.idKey) = a.programmes.map (·.idKey))
    (given : Option Nat) : selectProgramme a' given = selectProgramme a given := by
  cases given with
  | some p => rfl
  | none =>
    rw [selectProgramme_none, selectProgramme_none]
    unfold minById
    rw [minByIdGo_congr _ _ _ _ h]

theorem pathsFrom_perm {ch ch' : Nat → List Nat} (h : ∀ o, (ch' o).Perm (ch o)) :
    ∀ fuel r, (pathsFrom ch' fuel r).Perm (pathsFrom ch fuel r)
  | 0, _ => .refl _
  | fuel + 1, r => by
    simp only [pathsFrom]
    refine List.Perm.cons _ (perm_flatMap_congr (h r) fun s _ => ?_)
    exact (pathsFrom_perm h fuel s).map _

/-- `a'` is `a` with the reference lists programme→contents, content→objects and
object→sub-objects re-ordered (everything else, including complementary references, unchanged). -/
structure ChildPerm (a a' : Adm) : Prop where
  strip : a'.strip = a.strip
  contents : ∀ p, (a'.prog p).contents.Perm (a.prog p).contents
  objects : ∀ c, (a'.cont c).objects.Perm (a.cont c).objects
  subs : ∀ o, (a'.subs o).Perm (a.subs o)
  comps : ∀ o, (a'.obj o).complementary = (a.obj o).complementary

theorem ChildPerm.nobj {a a' : Adm} (h : ChildPerm a a') : a'.objects.length = a.objects.length := by
  have := congrArg (fun x => x.objects.length) h.strip
  simpa [Adm.strip] using this

theorem ChildPerm.keys {a a' : Adm} (h : ChildPerm a a') :
    a'.programmes.map (·.idKey) = a.programmes.map (·.idKey) := by
  have := congrArg (fun x => x.programmes.map (·.idKey)) h.strip
  simpa [Adm.strip, List.map_map, Function.comp_def] using this

theorem ChildPerm.nprog {a a' : Adm} (h : ChildPerm a a') : a'.programmes = [] ↔ a.programmes = [] := by
  have := congrArg List.length h.keys
  simp only [List.length_map] at this
  rw [← List.length_eq_zero_iff, ← List.length_eq_zero_iff, this]

theorem mem_nonRoot (a : Adm) (x : Nat) :
    x ∈ a.objects.flatMap (·.subObjects) ↔ ∃ o, o < a.objects.length ∧ x ∈ a.subs o := by
  simp only [List.mem_flatMap, Adm.subs, Adm.obj]
  constructor
  · rintro ⟨ob, hob, hx⟩
    obtain ⟨i, hi, rfl⟩ := List.mem_iff_getElem.1 hob
    exact ⟨i, hi, by simpa [List.getD_eq_getElem?_getD, List.getElem?_eq_getElem hi] using hx⟩
  · rintro ⟨o, ho, hx⟩
    refine ⟨a.objects[o], List.getElem_mem ho, ?_⟩
    simpa [List.getD_eq_getElem?_getD, List.getElem?_eq_getElem ho] using hx

theorem ChildPerm.rootObjects {a a' : Adm} (h : ChildPerm a a') : rootObjects a' = rootObjects a := by
  unfold Earverif.Adm.rootObjects
  simp only [h.nobj]
  apply List.filter_congr
  intro i _
  congr 1
  rw [Bool.eq_iff_iff]
  simp only [List.contains_iff_mem, mem_nonRoot, h.nobj]
  exact ⟨fun ⟨o, ho, hx⟩ => ⟨o, ho, (h.subs o).mem_iff.1 hx⟩, fun ⟨o, ho, hx⟩ => ⟨o, ho, (h.subs o).mem_iff.2 hx⟩⟩

theorem ChildPerm.specPaths {a a' : Adm} (h : ChildPerm a a') (ign : List Nat) (r : Nat) :
    (specPaths a' ign r).Perm (specPaths a ign r) := by
  unfold Earverif.Adm.specPaths objectPathsFrom
  rw [h.nobj]
  exact (pathsFrom_perm h.subs _ _).filter _

theorem ChildPerm.specStates {a a' : Adm} (h : ChildPerm a a') (prog : Option Nat) (ign : List Nat) :
    (specStates a' prog ign).Perm (specStates a prog ign) := by
  unfold Earverif.Adm.specStates
  have hno : a'.objects = [] ↔ a.objects = [] := by
    rw [← List.length_eq_zero_iff, ← List.length_eq_zero_iff, h.nobj]
  simp only [h.nprog, hno]
  split
  · exact .refl _
  · cases prog with
    | none =>
      rw [h.rootObjects]
      exact perm_flatMap_congr (.refl _) fun r _ => (h.specPaths ign r).map _
    | some p =>
      exact perm_flatMap_congr (h.contents p) fun c _ =>
        perm_flatMap_congr (h.objects c) fun r _ => (h.specPaths ign r).map _

theorem ChildPerm.selectComplementary {a a' : Adm} (h : ChildPerm a a') (sel : List Nat) :
    selectComplementary a' sel = selectComplementary a sel := by
  have hroots : compRoots a' = compRoots a := by
    unfold compRoots; simp only [h.nobj, h.comps]
  have hgroup : ∀ r, compGroup a' r = compGroup a r := by
    intro r; unfold compGroup; rw [h.comps]
  have hg : compGroup a' = compGroup a := funext hgroup
  unfold Earverif.Adm.selectComplementary compAllSelected
  simp only [hroots, hg]

/-- **select_perm_partial** (reference-list order): re-ordering the contents of programmes, the
objects of contents and the sub-objects of objects permutes the selected items (and does not
change whether selection succeeds).
PARTIAL: this theorem covers the child reference lists of the content part only.  The other re-declarations have
their own theorems: `select_perm_objects` (re-numbering audioObjects), `select_perm_own_refs` (an object's pack /
track reference lists), `select_perm_formats` (re-numbering audioPackFormats / audioChannelFormats / audioTrackUIDs),
`select_renumber_contents` / `select_renumber_programmes`, `select_perm_comps` (an object's complementary-object
reference list; `ChildPerm.comps` here demands EQUALITY of those lists).  Not covered by any of them (tied to the code
by the correspondence and searched by the direct predicate only): re-ordering the sub-pack reference list of an
audioPackFormat; the channel-reference list of a non-HOA audioPackFormat; the alternativeValueSet lists (`getAvs`
takes the LAST match); a Matrix block's `coeffs` and a pack's `encodePacks`.  Direction and composition: the perm
theorems are one-directional (success of `a` ⇒ success of `a'` with permuted items) except `select_perm_formats` and
`select_perm_comps` (equality); they cannot be chained into one statement about an arbitrary re-declaration, because
the hypotheses of the next theorem (`refsInRange` / `multitreeOK` / `NoDupRefs` of the permuted document) are not
proved to be preserved by the previous one. -/
theorem select_perm_partial {a a' : Adm} (h : ChildPerm a a') (given : Option Nat) (sel : List Nat)
    {items : List Item} (hs : selectRenderingItems a given sel = .ok items) :
    ∃ items', selectRenderingItems a' given sel = .ok items' ∧ items.Perm items' := by
  rw [select_eq_spec] at hs ⊢
  unfold specSelect at hs ⊢
  have hfmt : a'.fmt = a.fmt := by
    have := congrArg Adm.fmt h.strip
    exact this
  rw [hfmt, h.selectComplementary, selectProgramme_congr h.keys]
  cases hw : wrappedPacks a.fmt with
  | error e => simp [hw] at hs
  | ok wps =>
    simp only [hw] at hs ⊢
    cases hc : Earverif.Adm.selectComplementary a sel with
    | error e => simp [hc] at hs
    | ok ign =>
      simp only [hc] at hs ⊢
      have hfun : (fun st => match selectPackMapping a' st with
            | .error e => .error e
            | .ok packs => flatMapE (itemsOfPack a' st) packs) = itemsOfState a := by
        funext st
        have := itemsOfState_strip a' st
        rw [h.strip, itemsOfState_strip] at this
        show itemsOfState a' st = itemsOfState a st
        exact this.symm
      rw [hfun]
      exact flatMapE_perm (itemsOfState a) (h.specStates _ ign).symm hs

/-! ## re-ordering the complementary-object reference list of an audioObject -/

/-- `a'` is `a` with the `audioComplementaryObjectIDRef` lists of its audioObjects re-ordered; everything else,
including the other child reference lists, unchanged. -/
structure CompPerm (a a' : Adm) : Prop where
  strip : a'.strip = a.strip
  contents : ∀ p, (a'.prog p).contents = (a.prog p).contents
  objects : ∀ c, (a'.cont c).objects = (a.cont c).objects
  subs : ∀ o, a'.subs o = a.subs o
  comps : ∀ o, ((a'.obj o).complementary).Perm ((a.obj o).complementary)

theorem CompPerm.nobj {a a' : Adm} (h : CompPerm a a') : a'.objects.length = a.objects.length := by
  have := congrArg (fun x => x.objects.length) h.strip
  simpa [Adm.strip] using this

theorem CompPerm.keys {a a' : Adm} (h : CompPerm a a') :
    a'.programmes.map (·.idKey) = a.programmes.map (·.idKey) := by
  have := congrArg (fun x => x.programmes.map (·.idKey)) h.strip
  simpa [Adm.strip, List.map_map, Function.comp_def] using this

theorem CompPerm.nprog {a a' : Adm} (h : CompPerm a a') : a'.programmes = [] ↔ a.programmes = [] := by
  have := congrArg List.length h.keys
  simp only [List.length_map] at this
  rw [← List.length_eq_zero_iff, ← List.length_eq_zero_iff, this]

theorem CompPerm.rootObjects {a a' : Adm} (h : CompPerm a a') : rootObjects a' = rootObjects a := by
  unfold Earverif.Adm.rootObjects
  simp only [h.nobj]
  apply List.filter_congr
  intro i _
  congr 1
  rw [Bool.eq_iff_iff]
  simp only [List.contains_iff_mem, mem_nonRoot, h.nobj, h.subs]

theorem notIgnored_congr {ign ign' : List Nat} (hm : ∀ x, x ∈ ign' ↔ x ∈ ign) (p : List Nat) :
    notIgnored ign' p = notIgnored ign p := by
  unfold notIgnored
  congr 2
  funext x
  rw [Bool.eq_iff_iff]
  simp only [List.contains_iff_mem, hm]

theorem CompPerm.specStates {a a' : Adm} (h : CompPerm a a') (prog : Option Nat) {ign ign' : List Nat}
    (hm : ∀ x, x ∈ ign' ↔ x ∈ ign) : specStates a' prog ign' = specStates a prog ign := by
  have hno : a'.objects = [] ↔ a.objects = [] := by
    rw [← List.length_eq_zero_iff, ← List.length_eq_zero_iff, h.nobj]
  have hsp : ∀ r, specPaths a' ign' r = specPaths a ign r := by
    intro r
    unfold Earverif.Adm.specPaths objectPathsFrom
    rw [h.nobj, funext h.subs, funext (notIgnored_congr hm)]
  unfold Earverif.Adm.specStates
  simp only [h.nprog, hno, h.rootObjects, h.contents, h.objects, hsp]

/-- the complementary selection of the re-ordered document fails with the same error, or ignores the same SET of
objects: `_select_complementary_objects` looks at a group only through membership tests and a count. -/
theorem CompPerm.selectComplementary {a a' : Adm} (h : CompPerm a a') (sel : List Nat) :
    match selectComplementary a sel with
    | .error e => selectComplementary a' sel = .error e
    | .ok ign => ∃ ign', selectComplementary a' sel = .ok ign' ∧ ∀ x, x ∈ ign' ↔ x ∈ ign := by
  have hroots : compRoots a' = compRoots a := by
    unfold compRoots
    rw [h.nobj]
    apply List.filter_congr
    intro i _
    have := h.comps i
    by_cases hc : (a.obj i).complementary = []
    · rw [hc] at this; simp [hc, this.eq_nil]
    · have hc' : (a'.obj i).complementary ≠ [] := fun e => hc (by rw [e] at this; exact this.symm.eq_nil)
      simp [hc, hc']
  have hgroup : ∀ r, (compGroup a' r).Perm (compGroup a r) := fun r => (h.comps r).cons r
  have hall : ∀ s, ((compRoots a).flatMap (compGroup a')).contains s = ((compRoots a).flatMap (compGroup a)).contains s := by
    intro s
    rw [Bool.eq_iff_iff]
    simp only [List.contains_iff_mem]
    exact (perm_flatMap_congr (.refl _) fun r _ => hgroup r).mem_iff
  have hsel : compAllSelected a' sel = compAllSelected a sel := by
    unfold compAllSelected
    rw [hroots]
    congr 1
    apply List.filter_congr
    intro r _
    rw [(hgroup r).any_eq]
  have hlen : ∀ r (q : Nat → Bool), ((compGroup a' r).filter q).length = ((compGroup a r).filter q).length :=
    fun r q => ((hgroup r).filter q).length_eq
  unfold Earverif.Adm.selectComplementary
  simp only [hroots, hsel, hall, hlen]
  by_cases h1 : (sel.any fun s => !((compRoots a).flatMap (compGroup a)).contains s) = true
  · simp only [h1, if_true]
  · by_cases h2 : ((compRoots a).any fun r =>
        decide (((compGroup a r).filter fun x => (compAllSelected a sel).contains x).length > 1)) = true
    · simp only [h1, h2, if_true, if_false, Bool.false_eq_true]
    · simp only [h1, h2, if_false, Bool.false_eq_true]
      refine ⟨_, rfl, fun x => ?_⟩
      exact (perm_flatMap_congr (.refl _) fun r _ => (hgroup r).filter _).mem_iff

/-- **select_perm_comps** (order of the complementary-object references of an audioObject): the selection of the
re-ordered document is EQUAL to the selection of the original — same items in the same order, same error.  Both
directions (the relation is symmetric: `CompPerm.symm`). -/
theorem select_perm_comps {a a' : Adm} (h : CompPerm a a') (given : Option Nat) (sel : List Nat) :
    selectRenderingItems a' given sel = selectRenderingItems a given sel := by
  rw [select_eq_spec, select_eq_spec]
  unfold specSelect
  have hfmt : a'.fmt = a.fmt := by
    have := congrArg Adm.fmt h.strip
    exact this
  have hfun : itemsOfState a' = itemsOfState a := by
    funext st
    have := itemsOfState_strip a' st
    rw [h.strip, itemsOfState_strip] at this
    exact this.symm
  have hc := h.selectComplementary sel
  rw [hfmt, selectProgramme_congr h.keys]
  cases hw : wrappedPacks a.fmt with
  | error e => rfl
  | ok wps =>
    cases hs : Earverif.Adm.selectComplementary a sel with
    | error e => rw [hs] at hc; simp only [hc]
    | ok ign =>
      rw [hs] at hc
      obtain ⟨ign', hc', hm⟩ := hc
      simp only [hc', h.specStates _ hm]
      show flatMapE (itemsOfState a') _ = flatMapE (itemsOfState a) _
      rw [hfun]

theorem CompPerm.symm {a a' : Adm} (h : CompPerm a a') : CompPerm a' a :=
  ⟨h.strip.symm, fun p => (h.contents p).symm, fun c => (h.objects c).symm, fun o => (h.subs o).symm,
    fun o => (h.comps o).symm⟩

/-! ## the programme chosen: lowest id, independent of declaration order -/

theorem minByIdGo_spec : ∀ (ps : List Programme) (i : Nat) (b : Option (Nat × Nat)) (ri rk : Nat),
    minByIdGo ps i b = some (ri, rk) →
      (∀ p ∈ ps, rk ≤ p.idKey) ∧ (∀ bi bk, b = some (bi, bk) → rk ≤ bk) ∧
      (b = some (ri, rk) ∨ ∃ j, j < ps.length ∧ ri = i + j ∧ (ps[j]?).map (·.idKey) = some rk)
  | [], i, b, ri, rk, h => by
    simp only [minByIdGo] at h
    subst h
    refine ⟨by simp, ?_, Or.inl rfl⟩
    intro bi bk hb; cases hb; exact Nat.le_refl _
  | p :: rest, i, none, ri, rk, h => by
    simp only [minByIdGo] at h
    obtain ⟨h1, h2, h3⟩ := minByIdGo_spec rest (i + 1) _ ri rk h
    have hp := h2 i p.idKey rfl
    refine ⟨?_, ?_, Or.inr ?_⟩
    · intro q hq
      rcases List.mem_cons.1 hq with rfl | hq
      · exact hp
      · exact h1 q hq
    · intro _ _ hb; cases hb
    · rcases h3 with h3 | ⟨j, hj, hri, hk⟩
      · cases h3; exact ⟨0, by simp, rfl, rfl⟩
      · exact ⟨j + 1, by simpa using hj, by omega, by simpa using hk⟩
  | p :: rest, i, some (bi, bk), ri, rk, h => by
    simp only [minByIdGo] at h
    split at h
    · rename_i hlt
      obtain ⟨h1, h2, h3⟩ := minByIdGo_spec rest (i + 1) _ ri rk h
      have hp := h2 i p.idKey rfl
      refine ⟨?_, ?_, Or.inr ?_⟩
      · intro q hq
        rcases List.mem_cons.1 hq with rfl | hq
        · exact hp
        · exact h1 q hq
      · intro bi' bk' hb; cases hb; omega
      · rcases h3 with h3 | ⟨j, hj, hri, hk⟩
        · cases h3; exact ⟨0, by simp, rfl, rfl⟩
        · exact ⟨j + 1, by simpa using hj, by omega, by simpa using hk⟩
    · rename_i hge
      obtain ⟨h1, h2, h3⟩ := minByIdGo_spec rest (i + 1) _ ri rk h
      have hb := h2 bi bk rfl
      refine ⟨?_, ?_, ?_⟩
      · intro q hq
        rcases List.mem_cons.1 hq with rfl | hq
        · omega
        · exact h1 q hq
      · intro bi' bk' hb'; cases hb'; exact hb
      · rcases h3 with h3 | ⟨j, hj, hri, hk⟩
        · exact Or.inl h3
        · exact Or.inr ⟨j + 1, by simpa using hj, by omega, by simpa using hk⟩

/-- **select_programme_lowest_id**: without a given programme, the chosen programme exists and
no programme has a lower id. -/
theorem select_programme_lowest_id {a : Adm} {i : Nat} (h : selectProgramme a none = some i) :
    i < a.programmes.length ∧ ∀ p ∈ a.programmes, (a.prog i).idKey ≤ p.idKey := by
  rw [selectProgramme_none] at h
  unfold minById at h
  cases hm : minByIdGo a.programmes 0 none with
  | none => simp [hm] at h
  | some r =>
    obtain ⟨ri, rk⟩ := r
    simp only [hm, Option.map_some, Option.some.injEq] at h
    subst h
    obtain ⟨h1, _, h3⟩ := minByIdGo_spec _ _ _ _ _ hm
    rcases h3 with h3 | ⟨j, hj, hri, hk⟩
    · cases h3
    · have : ri = j := by omega
      subst this
      refine ⟨hj, ?_⟩
      have hk' : (a.prog ri).idKey = rk := by
        unfold Adm.prog
        simp only [List.getD_eq_getElem?_getD, List.getElem?_eq_getElem hj, Option.getD_some]
        simpa [List.getElem?_eq_getElem hj] using hk
      rw [hk']
      exact h1

theorem eq_of_nodup_map {α β : Type} {f : α → β} : ∀ {l : List α}, (l.map f).Nodup →
    ∀ {x y}, x ∈ l → y ∈ l → f x = f y → x = y
  | [], _, _, _, hx, _, _ => by cases hx
  | a :: l, h, x, y, hx, hy, hxy => by
    simp only [List.map_cons, List.nodup_cons, List.mem_map, not_exists, not_and] at h
    rcases List.mem_cons.1 hx with hxa | hxl <;> rcases List.mem_cons.1 hy with hya | hyl
    · rw [hxa, hya]
    · rw [hxa] at hxy; exact absurd hxy.symm (h.1 y hyl)
    · rw [hya] at hxy; exact absurd hxy (h.1 x hxl)
    · exact eq_of_nodup_map h.2 hxl hyl hxy

theorem prog_mem {a : Adm} {i : Nat} (h : i < a.programmes.length) : a.prog i ∈ a.programmes := by
  unfold Adm.prog
  simp [List.getD_eq_getElem?_getD, List.getElem?_eq_getElem h]

/-- **select_programme_order_independent**: with distinct ids, re-declaring the audioProgrammes in
another order selects the same programme (the one with the lowest id, not the first declared). -/
theorem select_programme_order_independent {a a' : Adm} (hp : a'.programmes.Perm a.programmes)
    (hnd : (a.programmes.map (·.idKey)).Nodup) {i i' : Nat}
    (h : selectProgramme a none = some i) (h' : selectProgramme a' none = some i') :
    a'.prog i' = a.prog i := by
  obtain ⟨hi, hmin⟩ := select_programme_lowest_id h
  obtain ⟨hi', hmin'⟩ := select_programme_lowest_id h'
  have m1 : a.prog i ∈ a.programmes := prog_mem hi
  have m2 : a'.prog i' ∈ a.programmes := hp.mem_iff.1 (prog_mem hi')
  have k1 := hmin _ m2
  have k2 := hmin' _ (hp.mem_iff.2 m1)
  exact eq_of_nodup_map hnd m2 m1 (by omega)

/-! ## select_perm for re-numbering the audioObjects (declaration order) -/

theorem Chain.all_lt {ch : Nat → List Nat} {n : Nat} (hlt : ∀ i, i < n → ∀ x ∈ ch i, x < n) {r p}
    (h : Chain ch r p) (hr : r < n) : ∀ o ∈ p, o < n := by
  induction h with
  | single r => intro o ho; simp at ho; omega
  | cons r s p hs _ ih =>
    intro o ho
    rcases List.mem_cons.1 ho with rfl | ho
    · exact hr
    · exact ih (hlt r hr s hs) o ho

theorem pathsFrom_rename {ch ch' : Nat → List Nat} {ρ : Nat → Nat} {n : Nat}
    (hch : ∀ i, i < n → ch' (ρ i) = (ch i).map ρ) (hlt : ∀ i, i < n → ∀ x ∈ ch i, x < n) :
    ∀ fuel r, r < n → pathsFrom ch' fuel (ρ r) = (pathsFrom ch fuel r).map (List.map ρ)
  | 0, _, _ => rfl
  | fuel + 1, r, hr => by
    simp only [pathsFrom, hch r hr, List.flatMap_map, List.map_cons, List.map_nil, List.map_flatMap,
      List.map_map]
    congr 1
    apply flatMap_congr'
    intro s hs
    rw [pathsFrom_rename hch hlt fuel s (hlt r hr s hs), List.map_map]
    rfl

theorem notIgnored_rename {ρ : Nat → Nat} {n : Nat} {ign ign' : List Nat}
    (hign : ∀ o, o < n → (ρ o ∈ ign' ↔ o ∈ ign)) :
    ∀ p : List Nat, (∀ o ∈ p, o < n) → notIgnored ign' (p.map ρ) = notIgnored ign p
  | [], _ => rfl
  | x :: xs, h => by
    have ih := notIgnored_rename hign xs (fun o ho => h o (List.mem_cons_of_mem _ ho))
    have hx := hign x (h x (List.mem_cons_self ..))
    unfold notIgnored at ih ⊢
    simp only [List.map_cons, List.any_cons, Bool.not_or] at ih ⊢
    rw [ih]
    congr 1
    rw [Bool.eq_iff_iff]
    simp [hx]


/-! ### re-numbering the audioObjects -/

/-- an audioObject with its object references renamed. -/
def renObj (ρ : Nat → Nat) (o : Obj) : Obj :=
  { o with subObjects := o.subObjects.map ρ, complementary := o.complementary.map ρ }

/-- `a'` is `a` with the audioObjects declared in another order: object `i` of `a` is object
`ρ i` of `a'`, and every reference to an audioObject is remapped through `ρ`. -/
structure ObjRenamed (ρ : Nat → Nat) (a a' : Adm) : Prop where
  fmt : a'.fmt = a.fmt
  programmes : a'.programmes = a.programmes
  contents : a'.contents = a.contents.map fun c => { c with objects := c.objects.map ρ }
  nobj : a'.objects.length = a.objects.length
  obj : ∀ i, i < a.objects.length → a'.obj (ρ i) = renObj ρ (a.obj i)
  perm : ((List.range a.objects.length).map ρ).Perm (List.range a.objects.length)

namespace ObjRenamed
variable {ρ : Nat → Nat} {a a' : Adm}

theorem lt (h : ObjRenamed ρ a a') {i : Nat} (hi : i < a.objects.length) : ρ i < a.objects.length := by
  have : ρ i ∈ (List.range a.objects.length).map ρ := List.mem_map.2 ⟨i, List.mem_range.2 hi, rfl⟩
  exact List.mem_range.1 (h.perm.mem_iff.1 this)

theorem inj (h : ObjRenamed ρ a a') {i j : Nat} (hi : i < a.objects.length) (hj : j < a.objects.length)
    (hij : ρ i = ρ j) : i = j :=
  eq_of_nodup_map (h.perm.nodup_iff.2 List.nodup_range) (List.mem_range.2 hi) (List.mem_range.2 hj) hij

theorem surj (h : ObjRenamed ρ a a') {j : Nat} (hj : j < a.objects.length) :
    ∃ i, i < a.objects.length ∧ ρ i = j := by
  obtain ⟨i, hi, rfl⟩ := List.mem_map.1 (h.perm.mem_iff.2 (List.mem_range.2 hj))
  exact ⟨i, List.mem_range.1 hi, rfl⟩

theorem mem_map_iff (h : ObjRenamed ρ a a') {x : Nat} {l : List Nat} (hx : x < a.objects.length)
    (hl : ∀ y ∈ l, y < a.objects.length) : ρ x ∈ l.map ρ ↔ x ∈ l := by
  constructor
  · intro hm
    obtain ⟨y, hy, hxy⟩ := List.mem_map.1 hm
    rw [← h.inj (hl y hy) hx hxy]; exact hy
  · exact fun hm => List.mem_map.2 ⟨x, hm, rfl⟩

theorem subs (h : ObjRenamed ρ a a') {i : Nat} (hi : i < a.objects.length) :
    a'.subs (ρ i) = (a.subs i).map ρ := by
  unfold Adm.subs; rw [h.obj i hi]; rfl

theorem comps (h : ObjRenamed ρ a a') {i : Nat} (hi : i < a.objects.length) :
    (a'.obj (ρ i)).complementary = (a.obj i).complementary.map ρ := by
  rw [h.obj i hi]; rfl

theorem cont (h : ObjRenamed ρ a a') (c : Nat) :
    a'.cont c = { a.cont c with objects := (a.cont c).objects.map ρ } := by
  unfold Adm.cont
  rw [h.contents]
  exact getD_map_default (fun c : Content => { c with objects := c.objects.map ρ }) a.contents c default

theorem prog (h : ObjRenamed ρ a a') (p : Nat) : a'.prog p = a.prog p := by
  unfold Adm.prog; rw [h.programmes]

theorem specPaths (h : ObjRenamed ρ a a') (hok : ObjRefsOK a) {ign ign' : List Nat}
    (hign : ∀ o, o < a.objects.length → (ρ o ∈ ign' ↔ o ∈ ign)) {r : Nat} (hr : r < a.objects.length) :
    specPaths a' ign' (ρ r) = (specPaths a ign r).map (List.map ρ) := by
  unfold Earverif.Adm.specPaths objectPathsFrom
  rw [h.nobj, pathsFrom_rename (fun i hi => h.subs hi) (fun i _ => hok.subs i) _ r hr, List.filter_map]
  congr 1
  apply List.filter_congr
  intro p hp
  exact notIgnored_rename hign p
    ((chain_of_mem_pathsFrom _ _ _ hp).all_lt (fun i _ => hok.subs i) hr)

theorem rootObjects (h : ObjRenamed ρ a a') (hok : ObjRefsOK a) :
    (rootObjects a').Perm ((rootObjects a).map ρ) := by
  unfold Earverif.Adm.rootObjects
  rw [h.nobj]
  dsimp only
  refine List.Perm.trans (h.perm.symm.filter _) ?_
  rw [List.filter_map]
  apply List.Perm.of_eq
  congr 1
  apply List.filter_congr
  intro i hi
  have hi := List.mem_range.1 hi
  simp only [Function.comp]
  congr 1
  rw [Bool.eq_iff_iff]
  simp only [List.contains_iff_mem, mem_nonRoot, h.nobj]
  constructor
  · rintro ⟨o', ho', hx⟩
    obtain ⟨o, ho, rfl⟩ := h.surj ho'
    rw [h.subs ho] at hx
    exact ⟨o, ho, (h.mem_map_iff hi (hok.subs o)).1 hx⟩
  · rintro ⟨o, ho, hx⟩
    exact ⟨ρ o, h.lt ho, by rw [h.subs ho]; exact List.mem_map.2 ⟨i, hx, rfl⟩⟩

end ObjRenamed

/-- a state with its object path renamed. -/
def renState (ρ : Nat → Nat) (st : State) : State := { st with objPath := st.objPath.map (List.map ρ) }

theorem ObjRenamed.specStates {ρ : Nat → Nat} {a a' : Adm} (h : ObjRenamed ρ a a') (hok : ObjRefsOK a)
    {ign ign' : List Nat} (hign : ∀ o, o < a.objects.length → (ρ o ∈ ign' ↔ o ∈ ign)) (prog : Option Nat) :
    (specStates a' prog ign').Perm ((specStates a prog ign).map (renState ρ)) := by
  unfold Earverif.Adm.specStates
  have hno : a'.objects = [] ↔ a.objects = [] := by
    rw [← List.length_eq_zero_iff, ← List.length_eq_zero_iff, h.nobj]
  simp only [h.programmes, hno]
  split
  · exact .refl _
  · cases prog with
    | none =>
      simp only [List.map_flatMap, List.map_map]
      refine List.Perm.trans (List.Perm.flatMap_right _ (h.rootObjects hok)) ?_
      rw [List.flatMap_map]
      apply List.Perm.of_eq
      apply flatMap_congr'
      intro r hr
      have hr : r < a.objects.length := by
        simp only [Earverif.Adm.rootObjects, List.mem_filter, List.mem_range] at hr; exact hr.1
      rw [h.specPaths hok hign hr, List.map_map]
      rfl
    | some p =>
      apply List.Perm.of_eq
      simp only [List.map_flatMap, List.map_map, h.prog, h.cont, List.flatMap_map]
      apply flatMap_congr'
      intro c _
      apply flatMap_congr'
      intro r hr
      rw [h.specPaths hok hign (hok.cont c r hr), List.map_map]
      rfl


/-! ### items of a renamed state -/

/-- an item with its object path renamed. -/
def renItem (ρ : Nat → Nat) (it : Item) : Item := { it with objPath := it.objPath.map (List.map ρ) }

theorem mapE_map_comm {α β : Type} {f f' : α → Except Err β} {g : β → β} :
    ∀ {l : List α}, (∀ x ∈ l, f' x = (f x).map g) → mapE f' l = (mapE f l).map (List.map g)
  | [], _ => rfl
  | x :: xs, h => by
    have ih := mapE_map_comm (f := f) (f' := f') (g := g) (l := xs) fun y hy => h y (List.mem_cons_of_mem _ hy)
    simp only [mapE, h x (List.mem_cons_self ..), ih]
    cases f x <;> simp only [Except.map]
    cases mapE f xs <;> simp

theorem flatMapE_map_comm {α β : Type} {f f' : α → Except Err (List β)} {g : β → β} {l : List α}
    (h : ∀ x ∈ l, f' x = (f x).map (List.map g)) : flatMapE f' l = (flatMapE f l).map (List.map g) := by
  unfold flatMapE
  rw [mapE_map_comm h]
  cases mapE f l <;> simp [Except.map, List.map_flatten]

theorem getLastD_map {α β : Type} (f : α → β) : ∀ (l : List α) (a : α), (l.map f).getLastD (f a) = f (l.getLastD a)
  | [], _ => rfl
  | x :: xs, a => by simp only [List.map_cons, List.getLastD_cons]; exact getLastD_map f xs x

theorem getLastD_mem {α : Type} : ∀ (l : List α) (a : α), l.getLastD a = a ∨ l.getLastD a ∈ l
  | [], _ => Or.inl rfl
  | x :: xs, a => by
    simp only [List.getLastD_cons]
    rcases getLastD_mem xs x with h | h
    · right; rw [h]; exact List.mem_cons_self ..
    · right; exact List.mem_cons_of_mem _ h

theorem getLastD_map_ne_nil {ρ : Nat → Nat} {p : List Nat} (hp : p ≠ []) :
    (p.map ρ).getLastD 0 = ρ (p.getLastD 0) ∧ p.getLastD 0 ∈ p := by
  cases p with
  | nil => exact absurd rfl hp
  | cons x xs =>
    simp only [List.map_cons, List.getLastD_cons]
    refine ⟨getLastD_map ρ xs x, ?_⟩
    rcases getLastD_mem xs x with h | h
    · rw [h]; exact List.mem_cons_self ..
    · exact List.mem_cons_of_mem _ h

/-- the items of a state whose object path is renamed, in a document whose objects are looked
up through the renaming, are the renamed items. -/
theorem itemsOfState_rename {b b' : Adm} {ρ : Nat → Nat} {n : Nat} (hfmt : b'.fmt = b.fmt)
    (hprog : ∀ p, b'.prog p = b.prog p) (hcont : ∀ c, b'.cont c = b.cont c)
    (hobj : ∀ i, i < n → b'.obj (ρ i) = b.obj i) (st : State) {p : List Nat} (hp : st.objPath = some p)
    (hne : p ≠ []) (hlt : ∀ o ∈ p, o < n) :
    itemsOfState b' (renState ρ st) = (itemsOfState b st).map (List.map (renItem ρ)) := by
  obtain ⟨pr, co, op⟩ := st
  simp only at hp
  subst hp
  have hlast := getLastD_map_ne_nil (ρ := ρ) hne
  have hleafobj : b'.obj ((p.map ρ).getLastD 0) = b.obj (p.getLastD 0) := by
    rw [hlast.1]; exact hobj _ (hlt _ hlast.2)
  have hleaf : State.leaf b' (renState ρ ⟨pr, co, some p⟩) = State.leaf b ⟨pr, co, some p⟩ := by
    show some (b'.obj ((p.map ρ).getLastD 0)) = some (b.obj (p.getLastD 0))
    rw [hleafobj]
  have havs : getAvs b' (renState ρ ⟨pr, co, some p⟩) = getAvs b ⟨pr, co, some p⟩ := by
    unfold getAvs; rw [hleaf]; simp only [renState, hprog, hcont]
  have hextra : ∀ ch ad, extraOf b' (renState ρ ⟨pr, co, some p⟩) ch ad = extraOf b ⟨pr, co, some p⟩ ch ad := by
    intro ch ad; unfold extraOf; rw [havs, hleaf]; simp only [renState, hprog, hfmt]
  have hged : ∀ ppc ch, getExtraData b' (renState ρ ⟨pr, co, some p⟩) ppc ch = getExtraData b ⟨pr, co, some p⟩ ppc ch := by
    intro ppc ch; unfold getExtraData; simp only [hfmt, hextra]
  have himp : ∀ pp, getImportance b' (renState ρ ⟨pr, co, some p⟩) pp = getImportance b ⟨pr, co, some p⟩ pp := by
    intro pp
    unfold getImportance
    simp only [renState, Option.map_some, List.map_map, hfmt]
    congr 2
    apply List.map_congr_left
    intro o ho
    exact congrArg Obj.importance (hobj o (hlt o ho))
  have hsingle : ∀ ty q ct, singleItem b' (renState ρ ⟨pr, co, some p⟩) ty q ct =
      (singleItem b ⟨pr, co, some p⟩ ty q ct).map (renItem ρ) := by
    intro ty q ct
    unfold singleItem
    simp only [hfmt, hged, himp]
    split
    · rfl
    · split <;> rfl
  have hhoa : ∀ ap, hoaItem b' (renState ρ ⟨pr, co, some p⟩) ap = (hoaItem b ⟨pr, co, some p⟩ ap).map (renItem ρ) := by
    intro ap
    unfold hoaItem
    simp only [hfmt, hged, himp]
    repeat' split
    all_goals rfl
  have hpack : ∀ ap, itemsOfPack b' (renState ρ ⟨pr, co, some p⟩) ap =
      (itemsOfPack b ⟨pr, co, some p⟩ ap).map (List.map (renItem ρ)) := by
    intro ap
    unfold itemsOfPack
    simp only [hfmt, hhoa]
    split
    · exact mapE_map_comm fun ct _ => hsingle _ _ ct
    · split
      · cases hoaItem b ⟨pr, co, some p⟩ ap <;> rfl
      · rfl
  have hmap : selectPackMapping b' (renState ρ ⟨pr, co, some p⟩) = selectPackMapping b ⟨pr, co, some p⟩ := by
    have hprob : ∀ wps, allocProblem b' (renState ρ ⟨pr, co, some p⟩) wps = allocProblem b ⟨pr, co, some p⟩ wps := by
      intro wps; simp only [allocProblem, renState, Option.map_some, hleafobj, hfmt]
    simp only [selectPackMapping, hfmt, hprob]
  unfold itemsOfState
  rw [hmap]
  cases selectPackMapping b ⟨pr, co, some p⟩ with
  | error e => rfl
  | ok packs => exact flatMapE_map_comm fun ap _ => hpack ap


/-! ### complementary-object selection under re-numbering -/

theorem selectComplementary_ok_iff (a : Adm) (sel : List Nat) :
    (∃ ign, selectComplementary a sel = .ok ign) ↔
      (∀ s ∈ sel, s ∈ (compRoots a).flatMap (compGroup a)) ∧
      (∀ r ∈ compRoots a, ((compGroup a r).filter ((compAllSelected a sel).contains ·)).length ≤ 1) := by
  unfold selectComplementary
  dsimp only
  constructor
  · rintro ⟨ign, h⟩
    split at h
    · cases h
    · rename_i h1
      split at h
      · cases h
      · rename_i h2
        simp only [List.any_eq_true, not_exists, not_and, Bool.not_eq_true', decide_eq_true_eq] at h1 h2
        refine ⟨fun s hs => by simpa using h1 s hs, fun r hr => ?_⟩
        have := h2 r hr
        omega
  · rintro ⟨h1, h2⟩
    have c1 : ¬ (sel.any fun s => !((compRoots a).flatMap (compGroup a)).contains s) = true := by
      simp only [List.any_eq_true, not_exists, not_and, Bool.not_eq_true']
      intro s hs; simpa using h1 s hs
    have c2 : ¬ ((compRoots a).any fun r =>
        decide (((compGroup a r).filter ((compAllSelected a sel).contains ·)).length > 1)) = true := by
      simp only [List.any_eq_true, not_exists, not_and, decide_eq_true_eq]
      intro r hr; have := h2 r hr; omega
    simp only [c1, c2]
    exact ⟨_, rfl⟩

namespace ObjRenamed
variable {ρ : Nat → Nat} {a a' : Adm}

theorem compRoots_perm (h : ObjRenamed ρ a a') : (compRoots a').Perm ((compRoots a).map ρ) := by
  unfold compRoots
  rw [h.nobj]
  refine List.Perm.trans (h.perm.symm.filter _) ?_
  rw [List.filter_map]
  apply List.Perm.of_eq
  congr 1
  apply List.filter_congr
  intro i hi
  simp only [Function.comp, h.comps (List.mem_range.1 hi)]
  cases (a.obj i).complementary <;> simp

theorem compRoots_lt (a : Adm) {r : Nat} (hr : r ∈ compRoots a) : r < a.objects.length := by
  simp only [compRoots, List.mem_filter, List.mem_range] at hr; exact hr.1

theorem mem_compRoots (h : ObjRenamed ρ a a') {r' : Nat} :
    r' ∈ compRoots a' ↔ ∃ r ∈ compRoots a, ρ r = r' := by
  rw [h.compRoots_perm.mem_iff, List.mem_map]

theorem compGroup (h : ObjRenamed ρ a a') {r : Nat} (hr : r < a.objects.length) :
    compGroup a' (ρ r) = (compGroup a r).map ρ := by
  unfold Earverif.Adm.compGroup; rw [h.comps hr]; rfl

theorem compGroup_lt (hok : ObjRefsOK a) {r : Nat} (hr : r < a.objects.length) :
    ∀ x ∈ Earverif.Adm.compGroup a r, x < a.objects.length := by
  intro x hx
  rcases List.mem_cons.1 hx with rfl | hx
  · exact hr
  · exact hok.comps r x hx

theorem mem_allComp (h : ObjRenamed ρ a a') (hok : ObjRefsOK a) {x : Nat} (hx : x < a.objects.length) :
    ρ x ∈ (compRoots a').flatMap (Earverif.Adm.compGroup a') ↔ x ∈ (compRoots a).flatMap (Earverif.Adm.compGroup a) := by
  simp only [List.mem_flatMap, h.mem_compRoots]
  constructor
  · rintro ⟨_, ⟨r, hr, rfl⟩, hm⟩
    have hrl := compRoots_lt a hr
    rw [h.compGroup hrl] at hm
    exact ⟨r, hr, (h.mem_map_iff hx (compGroup_lt hok hrl)).1 hm⟩
  · rintro ⟨r, hr, hm⟩
    refine ⟨ρ r, ⟨r, hr, rfl⟩, ?_⟩
    rw [h.compGroup (compRoots_lt a hr)]
    exact List.mem_map.2 ⟨x, hm, rfl⟩

theorem groupHit (h : ObjRenamed ρ a a') (hok : ObjRefsOK a) {sel : List Nat}
    (hsel : ∀ s ∈ sel, s < a.objects.length) {r : Nat} (hr : r < a.objects.length) :
    ((Earverif.Adm.compGroup a' (ρ r)).any fun x => (sel.map ρ).contains x) =
      ((Earverif.Adm.compGroup a r).any fun x => sel.contains x) := by
  rw [h.compGroup hr, List.any_map, Bool.eq_iff_iff]
  simp only [List.any_eq_true, Function.comp, List.contains_iff_mem]
  constructor
  · rintro ⟨x, hx, hm⟩; exact ⟨x, hx, (h.mem_map_iff (compGroup_lt hok hr x hx) hsel).1 hm⟩
  · rintro ⟨x, hx, hm⟩; exact ⟨x, hx, List.mem_map.2 ⟨x, hm, rfl⟩⟩

theorem mem_allSelected (h : ObjRenamed ρ a a') (hok : ObjRefsOK a) {sel : List Nat}
    (hsel : ∀ s ∈ sel, s < a.objects.length) {x : Nat} (hx : x < a.objects.length) :
    ρ x ∈ compAllSelected a' (sel.map ρ) ↔ x ∈ compAllSelected a sel := by
  unfold compAllSelected
  simp only [List.mem_append, List.mem_filter, h.mem_compRoots]
  constructor
  · rintro (hm | ⟨⟨r, hr, hrx⟩, hn⟩)
    · exact Or.inl ((h.mem_map_iff hx hsel).1 hm)
    · have hrl := compRoots_lt a hr
      have := h.inj hrl hx hrx
      subst this
      rw [h.groupHit hok hsel hrl] at hn
      exact Or.inr ⟨hr, hn⟩
  · rintro (hm | ⟨hr, hn⟩)
    · exact Or.inl (List.mem_map.2 ⟨x, hm, rfl⟩)
    · refine Or.inr ⟨⟨x, hr, rfl⟩, ?_⟩
      rw [h.groupHit hok hsel hx]; exact hn

/-- complementary-object selection commutes with re-numbering the audioObjects: it succeeds
for the same selections, and ignores the renamed objects. -/
theorem selectComplementary (h : ObjRenamed ρ a a') (hok : ObjRefsOK a) {sel ign : List Nat}
    (hsel : ∀ s ∈ sel, s < a.objects.length) (hs : Earverif.Adm.selectComplementary a sel = .ok ign) :
    ∃ ign', Earverif.Adm.selectComplementary a' (sel.map ρ) = .ok ign' ∧
      ∀ o, o < a.objects.length → (ρ o ∈ ign' ↔ o ∈ ign) := by
  obtain ⟨h1, h2⟩ := (selectComplementary_ok_iff a sel).1 ⟨ign, hs⟩
  have hex : ∃ ign', Earverif.Adm.selectComplementary a' (sel.map ρ) = .ok ign' := by
    rw [selectComplementary_ok_iff]
    constructor
    · intro s' hs'
      obtain ⟨s, hs, rfl⟩ := List.mem_map.1 hs'
      exact (h.mem_allComp hok (hsel s hs)).2 (h1 s hs)
    · intro r' hr'
      obtain ⟨r, hr, rfl⟩ := h.mem_compRoots.1 hr'
      have hrl := compRoots_lt a hr
      rw [h.compGroup hrl, List.filter_map, List.length_map]
      have : (Earverif.Adm.compGroup a r).filter ((fun x => (compAllSelected a' (sel.map ρ)).contains x) ∘ ρ) =
          (Earverif.Adm.compGroup a r).filter ((compAllSelected a sel).contains ·) := by
        apply List.filter_congr
        intro x hx
        rw [Bool.eq_iff_iff]
        simp only [Function.comp, List.contains_iff_mem]
        exact h.mem_allSelected hok hsel (compGroup_lt hok hrl x hx)
      rw [this]
      exact h2 r hr
  obtain ⟨ign', hs'⟩ := hex
  refine ⟨ign', hs', fun o ho => ?_⟩
  rw [mem_ignored_iff hs', mem_ignored_iff hs]
  constructor
  · rintro ⟨r', hr', hm, hn⟩
    obtain ⟨r, hr, rfl⟩ := h.mem_compRoots.1 hr'
    have hrl := compRoots_lt a hr
    rw [h.compGroup hrl] at hm
    exact ⟨r, hr, (h.mem_map_iff ho (compGroup_lt hok hrl)).1 hm,
      fun hc => hn ((h.mem_allSelected hok hsel ho).2 hc)⟩
  · rintro ⟨r, hr, hm, hn⟩
    refine ⟨ρ r, h.mem_compRoots.2 ⟨r, hr, rfl⟩, ?_, fun hc => hn ((h.mem_allSelected hok hsel ho).1 hc)⟩
    rw [h.compGroup (compRoots_lt a hr)]
    exact List.mem_map.2 ⟨o, hm, rfl⟩

end ObjRenamed


/-! ### select_perm_objects -/

theorem mapE_map {α β γ : Type} (f : β → Except Err γ) (g : α → β) :
    ∀ l : List α, mapE f (l.map g) = mapE (fun x => f (g x)) l
  | [] => rfl
  | x :: xs => by simp only [List.map_cons, mapE, mapE_map f g xs]

theorem flatMapE_map {α β γ : Type} (f : β → Except Err (List γ)) (g : α → β) (l : List α) :
    flatMapE f (l.map g) = flatMapE (fun x => f (g x)) l := by
  unfold flatMapE; rw [mapE_map]

/-- the object paths of the selected states are non-empty and stay inside the object list. -/
theorem specStates_path_lt {a : Adm} (hok : ObjRefsOK a) {prog : Option Nat} {ign : List Nat} {st : State}
    (h : st ∈ specStates a prog ign) {p : List Nat} (hp : st.objPath = some p) :
    p ≠ [] ∧ ∀ o ∈ p, o < a.objects.length := by
  have key : ∀ r, r < a.objects.length → ∀ q, q ∈ specPaths a ign r →
      q ≠ [] ∧ ∀ o ∈ q, o < a.objects.length := by
    intro r hr q hq
    simp only [specPaths, List.mem_filter] at hq
    have hc := chain_of_mem_pathsFrom _ _ _ hq.1
    exact ⟨hc.ne_nil, hc.all_lt (fun i _ => hok.subs i) hr⟩
  unfold specStates at h
  split at h
  · simp only [List.mem_singleton] at h; subst h; cases hp
  · cases prog with
    | none =>
      simp only [List.mem_flatMap, List.mem_map] at h
      obtain ⟨r, hr, q, hq, rfl⟩ := h
      have hq' : q = p := by simpa using hp
      rw [← hq']
      have hr : r < a.objects.length := by
        simp only [rootObjects, List.mem_filter, List.mem_range] at hr; exact hr.1
      exact key r hr q hq
    | some pr =>
      simp only [List.mem_flatMap, List.mem_map] at h
      obtain ⟨c, _, r, hr, q, hq, rfl⟩ := h
      have hq' : q = p := by simpa using hp
      rw [← hq']
      exact key r (hok.cont c r hr) q hq

theorem renItem_of_none {ρ : Nat → Nat} {it : Item} (h : it.objPath = none) : renItem ρ it = it := by
  cases it; simp only at h; subst h; rfl

theorem ObjRenamed.itemsOfState {ρ : Nat → Nat} {a a' : Adm} (h : ObjRenamed ρ a a') (hok : ObjRefsOK a)
    {prog : Option Nat} {ign : List Nat} {st : State} (hst : st ∈ Earverif.Adm.specStates a prog ign) :
    Earverif.Adm.itemsOfState a' (renState ρ st) = (Earverif.Adm.itemsOfState a st).map (List.map (renItem ρ)) := by
  cases hp : st.objPath with
  | none =>
    -- CHNA-only state: there are no objects at all
    have hno : a.programmes = [] ∧ a.objects = [] := by
      unfold Earverif.Adm.specStates at hst
      split at hst
      · assumption
      · exfalso
        cases prog with
        | none =>
          simp only [List.mem_flatMap, List.mem_map] at hst
          obtain ⟨_, _, _, _, rfl⟩ := hst; cases hp
        | some pr =>
          simp only [List.mem_flatMap, List.mem_map] at hst
          obtain ⟨_, _, _, _, _, _, rfl⟩ := hst; cases hp
    have hst' : renState ρ st = st := by cases st; simp only at hp; subst hp; rfl
    have hobj' : a'.objects = [] := by
      rw [← List.length_eq_zero_iff, h.nobj, hno.2]; rfl
    have hstrip : a'.strip = a.strip := by
      unfold Adm.strip
      rw [h.fmt, h.programmes, h.contents, hobj', hno.2, List.map_map]
      rfl
    rw [hst', ← itemsOfState_strip a', hstrip, itemsOfState_strip]
    cases hi : Earverif.Adm.itemsOfState a st with
    | error e => rfl
    | ok its =>
      simp only [Except.map]
      congr 1
      symm
      rw [List.map_congr_left (g := id)]
      · simp
      · intro it hit
        have := (itemsOfState_own hi it hit).1.2.2
        exact renItem_of_none (this.trans hp)
  | some p =>
    obtain ⟨hne, hlt⟩ := specStates_path_lt hok hst hp
    rw [← itemsOfState_strip a', ← itemsOfState_strip a]
    refine itemsOfState_rename (b := a.strip) (b' := a'.strip) (ρ := ρ) (n := a.objects.length)
      (show a'.strip.fmt = a.strip.fmt from h.fmt) ?_ ?_ ?_ st hp hne hlt
    · intro q; rw [strip_prog, strip_prog, h.prog]
    · intro c; rw [strip_cont, strip_cont, h.cont]
    · intro i hi; rw [strip_obj, strip_obj, h.obj i hi]; rfl

/-- **select_perm_objects**: re-numbering the audioObjects (declaring them in another order, all
references to audioObjects remapped, the selected complementary objects renamed accordingly)
gives a permutation of the same items, with the object paths renamed. -/
theorem select_perm_objects {ρ : Nat → Nat} {a a' : Adm} (h : ObjRenamed ρ a a') (hwf : a.refsInRange = true)
    (given : Option Nat) {sel : List Nat} (hsel : ∀ s ∈ sel, s < a.objects.length) {items : List Item}
    (hs : selectRenderingItems a given sel = .ok items) :
    ∃ items', selectRenderingItems a' given (sel.map ρ) = .ok items' ∧
      items'.Perm (items.map (renItem ρ)) := by
  have hok := objRefsOK_of_refsInRange hwf
  unfold selectRenderingItems at hs ⊢
  rw [h.fmt]
  cases hw : wrappedPacks a.fmt with
  | error e => simp [hw] at hs
  | ok wps =>
    simp only [hw] at hs ⊢
    cases hc : selectComplementary a sel with
    | error e => simp [hc] at hs
    | ok ign =>
      obtain ⟨ign', hc', hign⟩ := h.selectComplementary hok hsel hc
      simp only [hc, hc', selectStates_eq_spec] at hs ⊢
      have hprog : selectProgramme a' given = selectProgramme a given :=
        selectProgramme_congr (by rw [h.programmes]) given
      rw [hprog]
      have hperm := h.specStates hok hign (selectProgramme a given)
      have hmapped : flatMapE (Earverif.Adm.itemsOfState a') ((specStates a (selectProgramme a given) ign).map (renState ρ))
          = .ok (items.map (renItem ρ)) := by
        rw [flatMapE_map, flatMapE_map_comm (f := Earverif.Adm.itemsOfState a) (g := renItem ρ)
          (fun st hst => h.itemsOfState hok hst), hs]
        rfl
      obtain ⟨zs, hzs, hp⟩ := flatMapE_perm _ hperm.symm hmapped
      exact ⟨zs, hzs, hp.symm⟩


/-- the document with its audioObjects re-declared in the order given by `ρ` (`ρinv` its inverse
on the object indices) and every reference to an audioObject remapped. -/
def renameObjects (ρ ρinv : Nat → Nat) (a : Adm) : Adm :=
  { a with
    contents := a.contents.map fun c => { c with objects := c.objects.map ρ },
    objects := (List.range a.objects.length).map fun j => renObj ρ (a.obj (ρinv j)) }

theorem renameObjects_renamed {ρ ρinv : Nat → Nat} {a : Adm}
    (hperm : ((List.range a.objects.length).map ρ).Perm (List.range a.objects.length))
    (hinv : ∀ i, i < a.objects.length → ρinv (ρ i) = i) : ObjRenamed ρ a (renameObjects ρ ρinv a) := by
  refine ⟨rfl, rfl, rfl, by simp [renameObjects], fun i hi => ?_, hperm⟩
  have hlt : ρ i < a.objects.length :=
    List.mem_range.1 (hperm.mem_iff.1 (List.mem_map.2 ⟨i, List.mem_range.2 hi, rfl⟩))
  unfold Adm.obj renameObjects
  simp only [List.getD_eq_getElem?_getD, List.getElem?_map, List.getElem?_range hlt, Option.map_some,
    Option.getD_some, hinv i hi]
  simp [Adm.obj, List.getD_eq_getElem?_getD]

/-- **select_perm_objects** in `rename` form. -/
theorem select_perm_objects_rename {ρ ρinv : Nat → Nat} {a : Adm} (hwf : a.refsInRange = true)
    (hperm : ((List.range a.objects.length).map ρ).Perm (List.range a.objects.length))
    (hinv : ∀ i, i < a.objects.length → ρinv (ρ i) = i)
    (given : Option Nat) {sel : List Nat} (hsel : ∀ s ∈ sel, s < a.objects.length) {items : List Item}
    (hs : selectRenderingItems a given sel = .ok items) :
    ∃ items', selectRenderingItems (renameObjects ρ ρinv a) given (sel.map ρ) = .ok items' ∧
      items'.Perm (items.map (renItem ρ)) :=
  select_perm_objects (renameObjects_renamed hperm hinv) hwf given hsel hs

/-! ## re-numbering the format part (audioPackFormats, audioChannelFormats, audioTrackUIDs) -/

/-- renaming maps for audioPackFormat, audioChannelFormat and audioTrackUID indices. -/
structure FmtMaps where
  σP : Nat → Nat
  σC : Nat → Nat
  σU : Nat → Nat

def renPack (m : FmtMaps) (p : Pack) : Pack :=
  { p with channels := p.channels.map m.σC, subPacks := p.subPacks.map m.σP,
           inputPack := p.inputPack.map m.σP, outputPack := p.outputPack.map m.σP,
           encodePacks := p.encodePacks.map m.σP }

def renChan (m : FmtMaps) (c : Channel) : Channel :=
  { c with matrix := { c.matrix with outputChannel := c.matrix.outputChannel.map m.σC,
                                     coeffs := c.matrix.coeffs.map fun k => { k with input := m.σC k.input } } }

/-- references inside the format part are in range. -/
structure FmtRefsOK (f : Formats) : Prop where
  subs : ∀ p, ∀ x ∈ (f.pack p).subPacks, x < f.packs.length
  chans : ∀ p, ∀ x ∈ (f.pack p).channels, x < f.channels.length
  inp : ∀ p q, (f.pack p).inputPack = some q → q < f.packs.length
  outp : ∀ p q, (f.pack p).outputPack = some q → q < f.packs.length
  enc : ∀ p, ∀ x ∈ (f.pack p).encodePacks, x < f.packs.length
  mout : ∀ c q, (f.chan c).matrix.outputChannel = some q → q < f.channels.length
  coeff : ∀ c, ∀ k ∈ (f.chan c).matrix.coeffs, k.input < f.channels.length

/-- `a'` is `a` with the audioPackFormats, audioChannelFormats and audioTrackUIDs (and, through
`trackChannel`, the stream/track formats) declared in another order, all references remapped. -/
structure FmtRenamed (m : FmtMaps) (a a' : Adm) : Prop where
  programmes : a'.programmes = a.programmes
  contents : a'.contents = a.contents
  objects : a'.objects = a.objects.map fun o =>
    { o with packs := o.packs.map m.σP, tracks := o.tracks.map (Option.map m.σU) }
  npacks : a'.fmt.packs.length = a.fmt.packs.length
  nchans : a'.fmt.channels.length = a.fmt.channels.length
  nuids : a'.fmt.trackUIDs.length = a.fmt.trackUIDs.length
  pack : ∀ p, p < a.fmt.packs.length → a'.fmt.pack (m.σP p) = renPack m (a.fmt.pack p)
  chan : ∀ c, c < a.fmt.channels.length → a'.fmt.chan (m.σC c) = renChan m (a.fmt.chan c)
  uidIndex : ∀ u, u < a.fmt.trackUIDs.length → (a'.fmt.uid (m.σU u)).trackIndex = (a.fmt.uid u).trackIndex
  uidPack : ∀ u, u < a.fmt.trackUIDs.length → (a'.fmt.uid (m.σU u)).pack = m.σP (a.fmt.uid u).pack
  uidChan : ∀ u, u < a.fmt.trackUIDs.length → trackChannel a'.fmt (m.σU u) = m.σC (trackChannel a.fmt u)
  permP : ((List.range a.fmt.packs.length).map m.σP).Perm (List.range a.fmt.packs.length)
  permC : ((List.range a.fmt.channels.length).map m.σC).Perm (List.range a.fmt.channels.length)

/-- facts about a map that permutes `range n`. -/
theorem perm_lt {σ : Nat → Nat} {n : Nat} (h : ((List.range n).map σ).Perm (List.range n)) {i : Nat}
    (hi : i < n) : σ i < n :=
  List.mem_range.1 (h.mem_iff.1 (List.mem_map.2 ⟨i, List.mem_range.2 hi, rfl⟩))

theorem perm_inj {σ : Nat → Nat} {n : Nat} (h : ((List.range n).map σ).Perm (List.range n)) {i j : Nat}
    (hi : i < n) (hj : j < n) (hij : σ i = σ j) : i = j :=
  eq_of_nodup_map (h.nodup_iff.2 List.nodup_range) (List.mem_range.2 hi) (List.mem_range.2 hj) hij

theorem perm_mem_map {σ : Nat → Nat} {n : Nat} (h : ((List.range n).map σ).Perm (List.range n)) {x : Nat}
    {l : List Nat} (hx : x < n) (hl : ∀ y ∈ l, y < n) : σ x ∈ l.map σ ↔ x ∈ l := by
  constructor
  · intro hm
    obtain ⟨y, hy, hxy⟩ := List.mem_map.1 hm
    rw [← perm_inj h (hl y hy) hx hxy]; exact hy
  · exact fun hm => List.mem_map.2 ⟨x, hm, rfl⟩

namespace FmtRenamed
variable {m : FmtMaps} {a a' : Adm}

theorem packSubs (h : FmtRenamed m a a') {p : Nat} (hp : p < a.fmt.packs.length) :
    a'.fmt.packSubs (m.σP p) = (a.fmt.packSubs p).map m.σP := by
  unfold Formats.packSubs; rw [h.pack p hp]; rfl

theorem packPaths (h : FmtRenamed m a a') (hok : FmtRefsOK a.fmt) {p : Nat} (hp : p < a.fmt.packs.length) :
    packPathsFrom a'.fmt (m.σP p) = (packPathsFrom a.fmt p).map (List.map m.σP) := by
  unfold packPathsFrom
  rw [h.npacks]
  exact pathsFrom_rename (fun i hi => h.packSubs hi) (fun i _ => hok.subs i) _ p hp

theorem packPaths_lt (hok : FmtRefsOK a.fmt) {p : Nat} (hp : p < a.fmt.packs.length) {path : List Nat}
    (hpath : path ∈ packPathsFrom a.fmt p) : path ≠ [] ∧ ∀ q ∈ path, q < a.fmt.packs.length := by
  have hc := chain_of_mem_pathsFrom _ _ _ hpath
  exact ⟨hc.ne_nil, hc.all_lt (fun i _ => hok.subs i) hp⟩

theorem slots (h : FmtRenamed m a a') (hok : FmtRefsOK a.fmt) {p : Nat} (hp : p < a.fmt.packs.length) :
    slots a'.fmt (m.σP p) = (Earverif.Adm.slots a.fmt p).map fun s => (s.1.map m.σP, m.σC s.2) := by
  unfold Earverif.Adm.slots
  rw [h.packPaths hok hp, List.flatMap_map, List.map_flatMap]
  apply flatMap_congr'
  intro path hpath
  obtain ⟨hne, hlt⟩ := packPaths_lt hok hp hpath
  obtain ⟨hl1, hl2⟩ := getLastD_map_ne_nil (ρ := m.σP) hne
  rw [hl1, h.pack _ (hlt _ hl2)]
  simp [renPack, List.map_map]


end FmtRenamed

def renCh (m : FmtMaps) (c : PackAlloc.Channel) : PackAlloc.Channel := ⟨m.σC c.cf, c.pfs.map m.σP⟩

/-- the identity of a wrapped pack (`3 * root + variant`) under renaming of the root. -/
def renWid (m : FmtMaps) (i : Nat) : Nat := 3 * m.σP (i / 3) + i % 3

def renW (m : FmtMaps) (w : WPack) : WPack :=
  ⟨renWid m w.id, w.kind, m.σP w.root, w.channels.map (renCh m)⟩

namespace FmtRenamed
variable {m : FmtMaps} {a a' : Adm}

theorem wrapOne (h : FmtRenamed m a a') (hok : FmtRefsOK a.fmt) {p : Nat} (hp : p < a.fmt.packs.length) :
    wrapOne a'.fmt (m.σP p) = (Earverif.Adm.wrapOne a.fmt p).map (List.map (renW m)) := by
  have hid : ∀ v, v < 3 → renWid m (3 * p + v) = 3 * m.σP p + v := by
    intro v hv
    unfold renWid
    have h1 : (3 * p + v) / 3 = p := by omega
    have h2 : (3 * p + v) % 3 = v := by omega
    rw [h1, h2]
  have hid0 : renWid m (3 * p) = 3 * m.σP p := by simpa using hid 0 (by omega)
  have hflat : ∀ q fixed, q < a.fmt.packs.length →
      (Earverif.Adm.slots a'.fmt (m.σP q)).map (fun s => (⟨s.2, [m.σP fixed]⟩ : PackAlloc.Channel)) =
        ((Earverif.Adm.slots a.fmt q).map fun s => (⟨s.2, [fixed]⟩ : PackAlloc.Channel)).map (renCh m) := by
    intro q fixed hq
    rw [h.slots hok hq, List.map_map, List.map_map]
    rfl
  have hreg : (Earverif.Adm.slots a'.fmt (m.σP p)).map (fun s => (⟨s.2, s.1⟩ : PackAlloc.Channel)) =
      ((Earverif.Adm.slots a.fmt p).map fun s => (⟨s.2, s.1⟩ : PackAlloc.Channel)).map (renCh m) := by
    rw [h.slots hok hp, List.map_map, List.map_map]
    rfl
  unfold Earverif.Adm.wrapOne wrapMatrix
  simp only [h.pack p hp]
  have hty : (renPack m (a.fmt.pack p)).type = (a.fmt.pack p).type := rfl
  rw [hty]
  split
  · simp only [Except.map, List.map_cons, List.map_nil, wrapRegular, renW, hid0, hreg]
  · simp only [renPack]
    cases hi : (a.fmt.pack p).inputPack with
    | some i =>
      have hil := hok.inp p i hi
      cases ho : (a.fmt.pack p).outputPack with
      | some o =>
        simp only [Option.map_some, Except.map, List.map_cons, List.map_nil, renW, hid0, hid 1 (by omega),
          hreg, hflat i p hil]
      | none => simp [Except.map]
    | none =>
      cases ho : (a.fmt.pack p).outputPack with
      | none => simp [Except.map]
      | some o =>
        simp only [Option.map_none, Option.map_some]
        match he : (a.fmt.pack p).encodePacks with
        | [] => simp [Except.map]
        | e :: e2 :: rest => simp [Except.map]
        | [e] =>
          have hel : e < a.fmt.packs.length := hok.enc p e (by rw [he]; simp)
          simp only [List.map_cons, List.map_nil, h.pack e hel, renPack]
          cases hei : (a.fmt.pack e).inputPack with
          | none => simp [Except.map]
          | some ei =>
            have heil := hok.inp e ei hei
            simp only [Option.map_some, Except.map, List.map_cons, List.map_nil, renW, hid0, hid 1 (by omega),
              hid 2 (by omega), hreg, hflat e p hel, hflat ei e heil]


/-- the `AllocationPack`s of the re-numbered document are those of the original, renamed, in
another order. -/
theorem wrappedPacks (h : FmtRenamed m a a') (hok : FmtRefsOK a.fmt) {wps : List WPack}
    (hw : wrappedPacks a.fmt = .ok wps) :
    ∃ wps', Earverif.Adm.wrappedPacks a'.fmt = .ok wps' ∧ wps'.Perm (wps.map (renW m)) := by
  rw [wrappedPacks_eq] at hw ⊢
  rw [h.npacks]
  have h1 : flatMapE (Earverif.Adm.wrapOne a'.fmt) ((List.range a.fmt.packs.length).map m.σP) =
      .ok (wps.map (renW m)) := by
    rw [flatMapE_map, flatMapE_map_comm (f := Earverif.Adm.wrapOne a.fmt) (g := renW m)
      (fun p hp => h.wrapOne hok (List.mem_range.1 hp)), hw]
    rfl
  obtain ⟨zs, hzs, hp⟩ := flatMapE_perm _ h.permP h1
  exact ⟨zs, hzs, hp.symm⟩

end FmtRenamed

/-! ### the allocation problem under re-numbering: valid allocations correspond -/

open PackAlloc in
def renAPack (m : FmtMaps) (p : PackAlloc.Pack) : PackAlloc.Pack :=
  ⟨renWid m p.id, m.σP p.root, p.channels.map (renCh m)⟩

def renTrack (m : FmtMaps) (t : PackAlloc.Track) : PackAlloc.Track := ⟨t.id, m.σC t.cf, m.σP t.pf⟩

def renSlot (m : FmtMaps) (s : PackAlloc.Slot) : PackAlloc.Slot := s.map (Option.map (renTrack m))

def renAllocated (m : FmtMaps) (al : PackAlloc.Allocated) : PackAlloc.Allocated :=
  ⟨renAPack m al.pack, al.allocation.map fun cs => (renCh m cs.1, renSlot m cs.2)⟩

theorem slots_renSol (m : FmtMaps) (sol : PackAlloc.Sol) :
    PackAlloc.slots (sol.map (renAllocated m)) =
      (PackAlloc.slots sol).map fun cs => (renCh m cs.1, renSlot m cs.2) := by
  simp [PackAlloc.slots, List.flatMap_map, List.map_flatMap, renAllocated]

theorem filled_renSol (m : FmtMaps) (sol : PackAlloc.Sol) :
    PackAlloc.filled (sol.map (renAllocated m)) = (PackAlloc.filled sol).map (Option.map (renTrack m)) := by
  unfold PackAlloc.filled
  rw [slots_renSol]
  generalize PackAlloc.slots sol = l
  induction l with
  | nil => rfl
  | cons cs rest ih =>
    obtain ⟨c, s⟩ := cs
    simp only [List.map_cons, List.filterMap_cons]
    cases s with
    | none => exact ih
    | some t => exact congrArg (Option.map (renTrack m) t :: ·) ih

theorem filterMap_id_map {α β : Type} (g : α → β) : ∀ l : List (Option α),
    (l.map (Option.map g)).filterMap id = (l.filterMap id).map g
  | [] => rfl
  | none :: xs => filterMap_id_map g xs
  | some x :: xs => congrArg (g x :: ·) (filterMap_id_map g xs)

theorem realTracks_renSol (m : FmtMaps) (sol : PackAlloc.Sol) :
    PackAlloc.realTracks (sol.map (renAllocated m)) = (PackAlloc.realTracks sol).map (renTrack m) := by
  unfold PackAlloc.realTracks
  rw [filled_renSol]
  exact filterMap_id_map _ _

theorem numSilentIn_renSol (m : FmtMaps) (sol : PackAlloc.Sol) :
    PackAlloc.numSilentIn (sol.map (renAllocated m)) = PackAlloc.numSilentIn sol := by
  unfold PackAlloc.numSilentIn
  rw [filled_renSol]
  generalize PackAlloc.filled sol = l
  induction l with
  | nil => rfl
  | cons t rest ih => cases t <;> simp [ih]

/-- a valid allocation of a problem, renamed, is a valid allocation of the renamed problem (whatever
the order of its `packs`). -/
theorem valid_rename (m : FmtMaps) {prob prob' : PackAlloc.Problem}
    (hp : prob'.packs.Perm (prob.packs.map (renAPack m)))
    (ht : prob'.tracks = prob.tracks.map (renTrack m))
    (hr : prob'.packRefs = prob.packRefs.map (List.map m.σP))
    (hn : prob'.numSilent = prob.numSilent) {sol : PackAlloc.Sol} (hv : PackAlloc.Valid prob sol) :
    PackAlloc.Valid prob' (sol.map (renAllocated m)) := by
  refine ⟨?_, ?_, ?_, ?_, ?_, ?_, ?_⟩
  · intro al hal
    obtain ⟨al0, hal0, rfl⟩ := List.mem_map.1 hal
    exact hp.mem_iff.2 (List.mem_map.2 ⟨al0.pack, hv.packs_mem al0 hal0, rfl⟩)
  · intro al hal
    obtain ⟨al0, hal0, rfl⟩ := List.mem_map.1 hal
    simp only [renAllocated, renAPack, List.map_map]
    rw [← hv.channels al0 hal0, List.map_map]
    rfl
  · intro cs hcs
    rw [slots_renSol] at hcs
    obtain ⟨cs0, hcs0, rfl⟩ := List.mem_map.1 hcs
    have := hv.complete cs0 hcs0
    cases h : cs0.2 with
    | none => exact absurd h this
    | some t => simp [renSlot]
  · rw [realTracks_renSol, ht]
    exact hv.tracks.map _
  · rw [numSilentIn_renSol, hn]; exact hv.silent
  · intro cs hcs t hts
    rw [slots_renSol] at hcs
    obtain ⟨cs0, hcs0, rfl⟩ := List.mem_map.1 hcs
    simp only [renSlot] at hts
    cases h0 : cs0.2 with
    | none => simp [h0] at hts
    | some o =>
      cases o with
      | none => simp [h0] at hts
      | some t0 =>
        simp only [h0, Option.map_some, Option.some.injEq] at hts
        subst hts
        obtain ⟨h1, h2⟩ := hv.compat cs0 hcs0 t0 h0
        exact ⟨by simp [renTrack, renCh, h1], List.mem_map.2 ⟨t0.pf, h2, rfl⟩⟩
  · rw [hr]
    have := hv.refs
    cases hpr : prob.packRefs with
    | none => trivial
    | some r =>
      rw [hpr] at this
      simp only [Option.map_some, PackAlloc.RefsOK, List.map_map] at this ⊢
      have := this.map m.σP
      simpa [List.map_map, renAllocated, renAPack, Function.comp_def] using this


/-! ### output packs and track specs under re-numbering -/

/-- an allocated output pack with pack and channel indices renamed (track specs do not mention
indices of the document). -/
def renAP (m : FmtMaps) (ap : AllocPack) : AllocPack :=
  ⟨m.σP ap.pack, ap.alloc.map fun cs => (m.σC cs.1, cs.2)⟩

theorem mapE_comm2 {α α' β β' : Type} {f : α → Except Err β} {f' : α' → Except Err β'} {g : α → α'} {r : β → β'} :
    ∀ {l : List α}, (∀ x ∈ l, f' (g x) = (f x).map r) → mapE f' (l.map g) = (mapE f l).map (List.map r)
  | [], _ => rfl
  | x :: xs, h => by
    have ih := mapE_comm2 (f := f) (f' := f') (g := g) (r := r) (l := xs) fun y hy => h y (List.mem_cons_of_mem _ hy)
    simp only [List.map_cons, mapE, h x (List.mem_cons_self ..), ih]
    cases f x <;> simp only [Except.map]
    cases mapE f xs <;> simp

theorem mapE_congr {α β : Type} {f g : α → Except Err β} : ∀ {l : List α}, (∀ x ∈ l, f x = g x) → mapE f l = mapE g l
  | [], _ => rfl
  | x :: xs, h => by
    simp only [mapE, h x (List.mem_cons_self ..),
      mapE_congr (l := xs) fun y hy => h y (List.mem_cons_of_mem _ hy)]

theorem find?_congr' {α : Type} {p q : α → Bool} : ∀ {l : List α}, (∀ x ∈ l, p x = q x) → l.find? p = l.find? q
  | [], _ => rfl
  | x :: xs, h => by
    simp only [List.find?_cons, h x (List.mem_cons_self ..)]
    rw [find?_congr' (l := xs) fun y hy => h y (List.mem_cons_of_mem _ hy)]

namespace FmtRenamed
variable {m : FmtMaps} {a a' : Adm}

theorem chanType (h : FmtRenamed m a a') {c : Nat} (hc : c < a.fmt.channels.length) :
    (a'.fmt.chan (m.σC c)).type = (a.fmt.chan c).type := by rw [h.chan c hc]; rfl

theorem slotSpec (h : FmtRenamed m a a') {uids : List Nat} (hu : ∀ u ∈ uids, u < a.fmt.trackUIDs.length)
    (s : PackAlloc.Slot) : slotSpec a'.fmt (uids.map m.σU) (renSlot m s) = Earverif.Adm.slotSpec a.fmt uids s := by
  cases s with
  | none => rfl
  | some o =>
    cases o with
    | none => rfl
    | some t =>
      simp only [renSlot, Option.map_some, Earverif.Adm.slotSpec, renTrack, List.getElem?_map]
      cases hg : uids[t.id]? with
      | none => rfl
      | some u =>
        have hmem : u ∈ uids := List.mem_of_getElem? hg
        simp only [Option.map_some, h.uidIndex u (hu u hmem)]

/-- `get_track_spec` inside `output_channel_allocation` only follows channel references. -/
theorem matrixSpec (h : FmtRenamed m a a') (hok : FmtRefsOK a.fmt) {inputs : List (Nat × TSpec)}
    (hin : ∀ cs ∈ inputs, cs.1 < a.fmt.channels.length) :
    ∀ fuel ch, ch < a.fmt.channels.length →
      matrixSpec a'.fmt (inputs.map fun cs => (m.σC cs.1, cs.2)) fuel (m.σC ch) =
        Earverif.Adm.matrixSpec a.fmt inputs fuel ch
  | 0, _, _ => rfl
  | fuel + 1, ch, hch => by
    have hfind : (inputs.map fun cs => (m.σC cs.1, cs.2)).find? (·.1 == m.σC ch) =
        (inputs.find? (·.1 == ch)).map fun cs => (m.σC cs.1, cs.2) := by
      rw [List.find?_map]
      congr 1
      apply find?_congr'
      intro cs hcs
      simp only [Function.comp]
      rw [Bool.eq_iff_iff]
      simp only [beq_iff_eq]
      exact ⟨fun e => perm_inj h.permC (hin cs hcs) hch e, fun e => by rw [e]⟩
    unfold Earverif.Adm.matrixSpec
    rw [hfind]
    cases inputs.find? (·.1 == ch) with
    | some s => rfl
    | none =>
      simp only [Option.map_none, h.chanType hch]
      split
      · rfl
      · rw [h.chan ch hch]
        simp only [renChan]
        rw [mapE_map]
        congr 1
        apply mapE_congr
        intro k hk
        simp only [matrixSpec h hok hin fuel k.input (hok.coeff ch k hk)]


theorem slotEntry (h : FmtRenamed m a a') {uids : List Nat} (hu : ∀ u ∈ uids, u < a.fmt.trackUIDs.length)
    (cs : PackAlloc.Channel × PackAlloc.Slot) :
    slotEntry a'.fmt (uids.map m.σU) (renCh m cs.1, renSlot m cs.2) =
      (Earverif.Adm.slotEntry a.fmt uids cs).map fun x => (m.σC x.1, x.2) := by
  unfold Earverif.Adm.slotEntry
  simp only [h.slotSpec hu cs.2, renCh]
  cases Earverif.Adm.slotSpec a.fmt uids cs.2 <;> rfl

theorem matrixEntry (h : FmtRenamed m a a') (hok : FmtRefsOK a.fmt) {inputs : List (Nat × TSpec)}
    (hin : ∀ cs ∈ inputs, cs.1 < a.fmt.channels.length) {mc : Nat} (hmc : mc < a.fmt.channels.length) :
    matrixEntry a'.fmt (inputs.map fun cs => (m.σC cs.1, cs.2)) (m.σC mc) =
      (Earverif.Adm.matrixEntry a.fmt inputs mc).map fun x => (m.σC x.1, x.2) := by
  unfold Earverif.Adm.matrixEntry
  rw [h.chan mc hmc, h.nchans, h.matrixSpec hok hin _ mc hmc]
  simp only [renChan]
  cases (a.fmt.chan mc).matrix.outputChannel with
  | none => rfl
  | some oc =>
    simp only [Option.map_some]
    cases Earverif.Adm.matrixSpec a.fmt inputs (a.fmt.channels.length + 1) mc <;> rfl

theorem outputOf (h : FmtRenamed m a a') (hok : FmtRefsOK a.fmt) {uids : List Nat}
    (hu : ∀ u ∈ uids, u < a.fmt.trackUIDs.length) (al : PackAlloc.Allocated)
    (hroot : al.pack.root < a.fmt.packs.length)
    (hch : ∀ cs ∈ al.allocation, cs.1.cf < a.fmt.channels.length) :
    outputOf a'.fmt (uids.map m.σU) (renAllocated m al) =
      (Earverif.Adm.outputOf a.fmt uids al).map (renAP m) := by
  unfold Earverif.Adm.outputOf
  simp only [renAllocated, renAPack]
  rw [mapE_comm2 (f := Earverif.Adm.slotEntry a.fmt uids) (r := fun x => (m.σC x.1, x.2))
    (fun cs _ => h.slotEntry hu cs)]
  cases hi : mapE (Earverif.Adm.slotEntry a.fmt uids) al.allocation with
  | error e => rfl
  | ok inputs =>
    have hin : ∀ cs ∈ inputs, cs.1 < a.fmt.channels.length := by
      intro cs hcs
      obtain ⟨x, hx, hfx⟩ := mapE_mem hi hcs
      unfold Earverif.Adm.slotEntry at hfx
      cases hs : Earverif.Adm.slotSpec a.fmt uids x.2 with
      | error e => simp [hs] at hfx
      | ok sp =>
        simp only [hs, Except.ok.injEq] at hfx
        rw [← hfx]
        exact hch x hx
    simp only [Except.map, h.pack _ hroot]
    have hty : (renPack m (a.fmt.pack al.pack.root)).type = (a.fmt.pack al.pack.root).type := rfl
    rw [hty]
    split
    · rfl
    · simp only [renPack]
      cases ho : (a.fmt.pack al.pack.root).outputPack with
      | none => rfl
      | some out =>
        simp only [Option.map_some]
        rw [mapE_comm2 (f := Earverif.Adm.matrixEntry a.fmt inputs) (r := fun x => (m.σC x.1, x.2))
          (fun mc hmc => h.matrixEntry hok hin (hok.chans _ mc hmc))]
        cases mapE (Earverif.Adm.matrixEntry a.fmt inputs) (a.fmt.pack al.pack.root).channels <;> rfl


end FmtRenamed

/-! ### items of an allocated pack under re-numbering of the format part -/

/-- an item with its channel and pack indices renamed. -/
def renItemF (m : FmtMaps) (it : Item) : Item :=
  { it with channels := it.channels.map m.σC, packPaths := it.packPaths.map (List.map m.σP) }

theorem checkPairs_map {α α' β : Type} [DecidableEq β] {f : α → Except Err β} {f' : α' → Except Err β} {g : α → α'} :
    ∀ {l : List α}, (∀ x ∈ l, f' (g x) = f x) → checkPairs f' (l.map g) = checkPairs f l
  | [], _ => rfl
  | [_], _ => rfl
  | x :: y :: rest, h => by
    have ih := checkPairs_map (f := f) (f' := f') (g := g) (l := y :: rest)
      fun z hz => h z (List.mem_cons_of_mem _ hz)
    simp only [List.map_cons] at ih ⊢
    simp only [checkPairs, h x (List.mem_cons_self ..), h y (List.mem_cons_of_mem _ (List.mem_cons_self ..)), ih]

theorem getSingleParam_map {α α' β : Type} [DecidableEq β] {f : α → Except Err β} {f' : α' → Except Err β}
    {g : α → α'} {l : List α} (h : ∀ x ∈ l, f' (g x) = f x) :
    getSingleParam (l.map g) f' = getSingleParam l f := by
  unfold getSingleParam
  rw [checkPairs_map h]
  cases l with
  | nil => rfl
  | cons x xs => simp only [List.map_cons, h x (List.mem_cons_self ..)]

namespace FmtRenamed
variable {m : FmtMaps} {a a' : Adm}

theorem obj (h : FmtRenamed m a a') (i : Nat) :
    a'.obj i = { a.obj i with packs := (a.obj i).packs.map m.σP, tracks := (a.obj i).tracks.map (Option.map m.σU) } := by
  unfold Adm.obj
  rw [h.objects]
  exact getD_map_default (fun o : Obj => { o with packs := o.packs.map m.σP, tracks := o.tracks.map (Option.map m.σU) })
    a.objects i default

theorem prog (h : FmtRenamed m a a') (p : Nat) : a'.prog p = a.prog p := by unfold Adm.prog; rw [h.programmes]
theorem cont (h : FmtRenamed m a a') (c : Nat) : a'.cont c = a.cont c := by unfold Adm.cont; rw [h.contents]

theorem getAvs (h : FmtRenamed m a a') (st : State) : getAvs a' st = Earverif.Adm.getAvs a st := by
  unfold Earverif.Adm.getAvs State.leaf
  cases st.objPath <;> simp [h.obj, h.prog, h.cont]

theorem extraOf (h : FmtRenamed m a a') (st : State) (ch : Option Nat)
    (hch : ∀ c, ch = some c → c < a.fmt.channels.length) (ad : Option Rat) :
    extraOf a' st (ch.map m.σC) ad = Earverif.Adm.extraOf a st ch ad := by
  unfold Earverif.Adm.extraOf
  rw [h.getAvs]
  have hleaf : State.leaf a' st = (State.leaf a st).map fun o =>
      { o with packs := o.packs.map m.σP, tracks := o.tracks.map (Option.map m.σU) } := by
    unfold State.leaf; cases st.objPath <;> simp [h.obj]
  rw [hleaf]
  cases ch with
  | none => cases State.leaf a st <;> cases st.programme <;> simp [h.prog]
  | some c =>
    have := h.chan c (hch c rfl)
    cases State.leaf a st <;> cases st.programme <;> simp [h.prog, this, renChan]

theorem getImportance (h : FmtRenamed m a a') (st : State) {pp : List Nat}
    (hpp : ∀ q ∈ pp, q < a.fmt.packs.length) :
    getImportance a' st (pp.map m.σP) = Earverif.Adm.getImportance a st pp := by
  unfold Earverif.Adm.getImportance
  have h1 : (pp.map m.σP).map (fun p => (a'.fmt.pack p).importance) = pp.map fun p => (a.fmt.pack p).importance := by
    rw [List.map_map]
    apply List.map_congr_left
    intro q hq
    simp only [Function.comp, h.pack q (hpp q hq)]
    rfl
  rw [h1]
  cases st.objPath <;> simp [h.obj]

theorem absDist (h : FmtRenamed m a a') {pp : List Nat} (hpp : ∀ q ∈ pp, q < a.fmt.packs.length) :
    (pp.map m.σP).map (fun p => (a'.fmt.pack p).absDist) = pp.map fun p => (a.fmt.pack p).absDist := by
  rw [List.map_map]
  apply List.map_congr_left
  intro q hq
  simp only [Function.comp, h.pack q (hpp q hq)]
  rfl

theorem getExtraData (h : FmtRenamed m a a') (st : State) {ppc : List (List Nat × Nat)}
    (hppc : ∀ pc ∈ ppc, ∀ q ∈ pc.1, q < a.fmt.packs.length) (ch : Option Nat)
    (hch : ∀ c, ch = some c → c < a.fmt.channels.length) :
    getExtraData a' st (ppc.map fun pc => (pc.1.map m.σP, m.σC pc.2)) (ch.map m.σC) =
      Earverif.Adm.getExtraData a st ppc ch := by
  unfold Earverif.Adm.getExtraData
  rw [getSingleParam_map (f := fun pc => getPathParam (pc.1.map fun p => (a.fmt.pack p).absDist))
    (fun pc hpc => by simp only [h.absDist (hppc pc hpc)])]
  cases getSingleParam ppc fun pc => getPathParam (pc.1.map fun p => (a.fmt.pack p).absDist) with
  | error e => rfl
  | ok ad => simp only [h.extraOf st ch hch]


theorem getPackFormatPath (h : FmtRenamed m a a') (hok : FmtRefsOK a.fmt) {p ch : Nat}
    (hp : p < a.fmt.packs.length) (hch : ch < a.fmt.channels.length) :
    getPackFormatPath a'.fmt (m.σP p) (m.σC ch) =
      (Earverif.Adm.getPackFormatPath a.fmt p ch).map (List.map m.σP) := by
  unfold Earverif.Adm.getPackFormatPath
  rw [h.packPaths hok hp, List.filter_map]
  have hf : (packPathsFrom a.fmt p).filter
        ((fun path => (a'.fmt.pack (path.getLastD 0)).channels.contains (m.σC ch)) ∘ List.map m.σP) =
      (packPathsFrom a.fmt p).filter fun path => (a.fmt.pack (path.getLastD 0)).channels.contains ch := by
    apply List.filter_congr
    intro path hpath
    obtain ⟨hne, hlt⟩ := packPaths_lt hok hp hpath
    obtain ⟨hl1, hl2⟩ := getLastD_map_ne_nil (ρ := m.σP) hne
    simp only [Function.comp, hl1, h.pack _ (hlt _ hl2), renPack]
    rw [Bool.eq_iff_iff]
    simp only [List.contains_iff_mem]
    exact perm_mem_map h.permC hch (hok.chans _)
  rw [hf]
  generalize (packPathsFrom a.fmt p).filter (fun path => (a.fmt.pack (path.getLastD 0)).channels.contains ch) = l
  match l with
  | [] => rfl
  | [_] => rfl
  | _ :: _ :: _ => rfl

theorem getPackFormatPath_lt (hok : FmtRefsOK a.fmt) {p ch : Nat} (hp : p < a.fmt.packs.length)
    {pp : List Nat} (hpp : Earverif.Adm.getPackFormatPath a.fmt p ch = .ok pp) :
    ∀ q ∈ pp, q < a.fmt.packs.length := by
  unfold Earverif.Adm.getPackFormatPath at hpp
  split at hpp
  · rename_i path hl
    cases hpp
    have : pp ∈ (packPathsFrom a.fmt p).filter fun path => (a.fmt.pack (path.getLastD 0)).channels.contains ch := by
      rw [hl]; exact List.mem_singleton.2 rfl
    exact (packPaths_lt hok hp (List.mem_filter.1 this).1).2
  · cases hpp

theorem singleItem (h : FmtRenamed m a a') (hok : FmtRefsOK a.fmt) (st : State) (ty : Nat) {p : Nat}
    (hp : p < a.fmt.packs.length) {ct : Nat × TSpec} (hct : ct.1 < a.fmt.channels.length) :
    singleItem a' st ty (m.σP p) (m.σC ct.1, ct.2) =
      (Earverif.Adm.singleItem a st ty p ct).map (renItemF m) := by
  unfold Earverif.Adm.singleItem
  simp only [h.getPackFormatPath hok hp hct]
  cases hpp : Earverif.Adm.getPackFormatPath a.fmt p ct.1 with
  | error e => rfl
  | ok pp =>
    have hlt := getPackFormatPath_lt hok hp hpp
    have hged := h.getExtraData st (ppc := [(pp, ct.1)])
      (by intro pc hpc; simp only [List.mem_singleton] at hpc; subst hpc; exact hlt)
      (some ct.1) (by intro c hc; cases hc; exact hct)
    simp only [List.map_cons, List.map_nil, Option.map_some] at hged
    simp only [Except.map, hged, h.getImportance st hlt]
    cases Earverif.Adm.getExtraData a st [(pp, ct.1)] (some ct.1) with
    | error e => rfl
    | ok ex =>
      simp only [renItemF, List.map_cons, List.map_nil, h.chan _ hct, renChan]


theorem hoaBlock (h : FmtRenamed m a a') {c : Nat} (hc : c < a.fmt.channels.length) :
    (a'.fmt.chan (m.σC c)).hoa = (a.fmt.chan c).hoa := by rw [h.chan c hc]; rfl

theorem hoaPackParam (h : FmtRenamed m a a') {β : Type} [DecidableEq β] (ps : Pack → Option β)
    (hps : ∀ p, ps (renPack m p) = ps p) (bs : HoaBlock → Option β) {pc : List Nat × Nat}
    (hpc : ∀ q ∈ pc.1, q < a.fmt.packs.length) (hc : pc.2 < a.fmt.channels.length) :
    hoaPackParam a'.fmt ps bs (pc.1.map m.σP, m.σC pc.2) = Earverif.Adm.hoaPackParam a.fmt ps bs pc := by
  unfold Earverif.Adm.hoaPackParam
  simp only [h.hoaBlock hc, List.map_map]
  congr 2
  apply List.map_congr_left
  intro q hq
  simp only [Function.comp, h.pack q (hpc q hq), hps]

theorem hoaMetaOf (h : FmtRenamed m a a') {ppc : List (List Nat × Nat)}
    (hppc : ∀ pc ∈ ppc, (∀ q ∈ pc.1, q < a.fmt.packs.length) ∧ pc.2 < a.fmt.channels.length) :
    hoaMetaOf a'.fmt (ppc.map fun pc => (pc.1.map m.σP, m.σC pc.2)) = Earverif.Adm.hoaMetaOf a.fmt ppc := by
  unfold Earverif.Adm.hoaMetaOf
  dsimp only
  have hblk : ∀ pc ∈ ppc, (a'.fmt.chan (m.σC pc.2)).hoa = (a.fmt.chan pc.2).hoa :=
    fun pc hpc => h.hoaBlock (hppc pc hpc).2
  let G : List Nat × Nat → List Nat × Nat := fun pc => (pc.1.map m.σP, m.σC pc.2)
  have e1 : getSingleParam (ppc.map G) (fun pc => (.ok ((a'.fmt.chan pc.2).hoa).rtime : Except Err (Option Rat))) =
      getSingleParam ppc (fun pc => (.ok ((a.fmt.chan pc.2).hoa).rtime : Except Err (Option Rat))) :=
    getSingleParam_map (fun pc hpc => by simp only [G, hblk pc hpc])
  have e2 : getSingleParam (ppc.map G) (fun pc => (.ok ((a'.fmt.chan pc.2).hoa).duration : Except Err (Option Rat))) =
      getSingleParam ppc (fun pc => (.ok ((a.fmt.chan pc.2).hoa).duration : Except Err (Option Rat))) :=
    getSingleParam_map (fun pc hpc => by simp only [G, hblk pc hpc])
  have e3 : getSingleParam (ppc.map G) (hoaNorm a'.fmt) = getSingleParam ppc (hoaNorm a.fmt) :=
    getSingleParam_map (fun pc hpc => by
      simp only [G]; unfold hoaNorm; rw [h.hoaPackParam _ (fun _ => rfl) _ (hppc pc hpc).1 (hppc pc hpc).2])
  have e4 : getSingleParam (ppc.map G) (hoaNfc a'.fmt) = getSingleParam ppc (hoaNfc a.fmt) :=
    getSingleParam_map (fun pc hpc => by
      simp only [G]; unfold hoaNfc; rw [h.hoaPackParam _ (fun _ => rfl) _ (hppc pc hpc).1 (hppc pc hpc).2])
  have e5 : getSingleParam (ppc.map G) (hoaSref a'.fmt) = getSingleParam ppc (hoaSref a.fmt) :=
    getSingleParam_map (fun pc hpc => by
      simp only [G]; unfold hoaSref; rw [h.hoaPackParam _ (fun _ => rfl) _ (hppc pc hpc).1 (hppc pc hpc).2])
  have hm : ∀ {γ : Type} (g : HoaBlock → γ), (ppc.map G).map (fun pc => g (a'.fmt.chan pc.2).hoa)
      = ppc.map fun pc => g (a.fmt.chan pc.2).hoa := by
    intro γ g; rw [List.map_map]; apply List.map_congr_left; intro pc hpc; simp only [Function.comp, G, hblk pc hpc]
  rw [e1, e2, e3, e4, e5, hm (·.order), hm (·.degree), hm (·.importance), hm (·.gain)]


theorem hoaPathOf (h : FmtRenamed m a a') (hok : FmtRefsOK a.fmt) {p : Nat} (hp : p < a.fmt.packs.length)
    {ct : Nat × TSpec} (hct : ct.1 < a.fmt.channels.length) :
    hoaPathOf a'.fmt (m.σP p) (m.σC ct.1, ct.2) =
      (Earverif.Adm.hoaPathOf a.fmt p ct).map fun pc => (pc.1.map m.σP, m.σC pc.2) := by
  unfold Earverif.Adm.hoaPathOf
  simp only [h.getPackFormatPath hok hp hct]
  cases Earverif.Adm.getPackFormatPath a.fmt p ct.1 <;> rfl

theorem hoaItem (h : FmtRenamed m a a') (hok : FmtRefsOK a.fmt) (st : State) {ap : AllocPack}
    (hp : ap.pack < a.fmt.packs.length) (hal : ∀ ct ∈ ap.alloc, ct.1 < a.fmt.channels.length) :
    hoaItem a' st (renAP m ap) = (Earverif.Adm.hoaItem a st ap).map (renItemF m) := by
  unfold Earverif.Adm.hoaItem
  simp only [renAP]
  rw [mapE_comm2 (f := Earverif.Adm.hoaPathOf a.fmt ap.pack) (r := fun pc => (pc.1.map m.σP, m.σC pc.2))
    (fun ct hct => h.hoaPathOf hok hp (hal ct hct))]
  cases hm : mapE (Earverif.Adm.hoaPathOf a.fmt ap.pack) ap.alloc with
  | error e => rfl
  | ok ppc =>
    have hppc : ∀ pc ∈ ppc, (∀ q ∈ pc.1, q < a.fmt.packs.length) ∧ pc.2 < a.fmt.channels.length := by
      intro pc hpc
      obtain ⟨ct, hct, hf⟩ := mapE_mem hm hpc
      unfold Earverif.Adm.hoaPathOf at hf
      cases hg : Earverif.Adm.getPackFormatPath a.fmt ap.pack ct.1 with
      | error e => simp [hg] at hf
      | ok pp =>
        simp only [hg, Except.ok.injEq] at hf
        subst hf
        exact ⟨getPackFormatPath_lt hok hp hg, hal ct hct⟩
    have hged := h.getExtraData st (ppc := ppc) (fun pc hpc => (hppc pc hpc).1) none (by intro c hc; cases hc)
    simp only [Option.map_none] at hged
    simp only [Except.map, h.hoaMetaOf hppc, hged]
    cases Earverif.Adm.hoaMetaOf a.fmt ppc with
    | error e => rfl
    | ok hmeta =>
      cases Earverif.Adm.getExtraData a st ppc none with
      | error e => rfl
      | ok ex =>
        simp only [renItemF, List.map_map, Except.ok.injEq]
        have himp : ppc.map ((fun pc => Earverif.Adm.getImportance a' st pc.1) ∘ fun pc => (pc.1.map m.σP, m.σC pc.2)) =
            ppc.map fun pc => Earverif.Adm.getImportance a st pc.1 := by
          apply List.map_congr_left
          intro pc hpc
          simp only [Function.comp, h.getImportance st (hppc pc hpc).1]
        rw [himp]
        rfl

theorem itemsOfPack (h : FmtRenamed m a a') (hok : FmtRefsOK a.fmt) (st : State) {ap : AllocPack}
    (hp : ap.pack < a.fmt.packs.length) (hal : ∀ ct ∈ ap.alloc, ct.1 < a.fmt.channels.length) :
    itemsOfPack a' st (renAP m ap) = (Earverif.Adm.itemsOfPack a st ap).map (List.map (renItemF m)) := by
  unfold Earverif.Adm.itemsOfPack
  have hty : (a'.fmt.pack (renAP m ap).pack).type = (a.fmt.pack ap.pack).type := by
    simp only [renAP, h.pack _ hp]; rfl
  simp only [hty, h.hoaItem hok st hp hal]
  split
  · simp only [renAP]
    exact mapE_comm2 (f := Earverif.Adm.singleItem a st _ ap.pack) (r := renItemF m)
      (fun ct hct => h.singleItem hok st _ hp (hal ct hct))
  · split
    · cases Earverif.Adm.hoaItem a st ap <;> rfl
    · rfl


end FmtRenamed

/-! ### bounds: allocated packs and channels are elements of the document -/

theorem slots_bounds {f : Formats} (hok : FmtRefsOK f) {p : Nat} (_hp : p < f.packs.length) :
    ∀ s ∈ slots f p, s.2 < f.channels.length := by
  intro s hs
  simp only [slots, List.mem_flatMap, List.mem_map] at hs
  obtain ⟨path, _, ch, hch, rfl⟩ := hs
  exact hok.chans _ ch hch

theorem wrapOne_bounds {f : Formats} (hok : FmtRefsOK f) {p : Nat} (hp : p < f.packs.length) {ws : List WPack}
    (h : wrapOne f p = .ok ws) :
    ∀ w ∈ ws, w.root < f.packs.length ∧ ∀ c ∈ w.channels, c.cf < f.channels.length := by
  have hs : ∀ q, q < f.packs.length → ∀ (g : List Nat × Nat → PackAlloc.Channel), (∀ s, (g s).cf = s.2) →
      ∀ c ∈ (slots f q).map g, c.cf < f.channels.length := by
    intro q hq g hg c hc
    obtain ⟨s, hs, rfl⟩ := List.mem_map.1 hc
    rw [hg]; exact slots_bounds hok hq s hs
  unfold wrapOne at h
  split at h
  · cases h
    intro w hw
    simp only [List.mem_singleton] at hw
    subst hw
    exact ⟨hp, hs p hp _ (fun _ => rfl)⟩
  · unfold wrapMatrix at h
    dsimp only at h
    split at h
    · rename_i i o hi ho
      cases h
      intro w hw
      simp only [List.mem_cons, List.not_mem_nil, or_false] at hw
      rcases hw with rfl | rfl
      · exact ⟨hp, hs i (hok.inp p i hi) _ (fun _ => rfl)⟩
      · exact ⟨hp, hs p hp _ (fun _ => rfl)⟩
    · cases h; intro w hw; cases hw
    · split at h
      · rename_i e he
        have hel : e < f.packs.length := hok.enc p e (by rw [he]; simp)
        split at h
        · rename_i ei hei
          cases h
          intro w hw
          simp only [List.mem_cons, List.not_mem_nil, or_false] at hw
          rcases hw with rfl | rfl | rfl
          · exact ⟨hp, hs e hel _ (fun _ => rfl)⟩
          · exact ⟨hp, hs p hp _ (fun _ => rfl)⟩
          · exact ⟨hp, hs ei (hok.inp e ei hei) _ (fun _ => rfl)⟩
        · cases h
      · cases h
    · cases h

theorem wrappedPacks_bounds {f : Formats} (hok : FmtRefsOK f) {wps : List WPack} (h : wrappedPacks f = .ok wps) :
    ∀ w ∈ wps, w.root < f.packs.length ∧ ∀ c ∈ w.channels, c.cf < f.channels.length := by
  rw [wrappedPacks_eq] at h
  intro w hw
  obtain ⟨p, hp, ws, hws, hmem⟩ := flatMapE_mem h hw
  exact wrapOne_bounds hok (List.mem_range.1 hp) hws w hmem

theorem outputOf_bounds {f : Formats} (hok : FmtRefsOK f) {uids : List Nat} {al : PackAlloc.Allocated}
    (hroot : al.pack.root < f.packs.length) (hch : ∀ cs ∈ al.allocation, cs.1.cf < f.channels.length)
    {ap : AllocPack} (h : outputOf f uids al = .ok ap) :
    ap.pack < f.packs.length ∧ ∀ ct ∈ ap.alloc, ct.1 < f.channels.length := by
  unfold outputOf at h
  dsimp only at h
  split at h
  · cases h
  · rename_i inputs hi
    split at h
    · cases h
      refine ⟨hroot, fun ct hct => ?_⟩
      obtain ⟨x, hx, hfx⟩ := mapE_mem hi hct
      unfold slotEntry at hfx
      split at hfx
      · cases hfx
      · cases hfx; exact hch x hx
    · split at h
      · cases h
      · rename_i out ho
        split at h
        · cases h
        · rename_i al' hal'
          cases h
          refine ⟨hok.outp _ out ho, fun ct hct => ?_⟩
          obtain ⟨mc, _, hf⟩ := mapE_mem hal' hct
          unfold matrixEntry at hf
          split at hf
          · cases hf
          · rename_i oc hoc
            split at hf
            · cases hf
            · cases hf; exact hok.mout mc oc hoc


/-! ### the allocation problem of a state under re-numbering -/

/-- track references of audioObjects are in range. -/
def ObjTracksOK (a : Adm) : Prop := ∀ i u, some u ∈ (a.obj i).tracks → u < a.fmt.trackUIDs.length

theorem FmtRenamed.allocProblem {m : FmtMaps} {a a' : Adm} (h : FmtRenamed m a a') (hto : ObjTracksOK a)
    (st : State) {p : List Nat} (hp : st.objPath = some p) {wps wps' : List WPack}
    (hw : wps'.Perm (wps.map (renW m))) :
    (allocProblem a' st wps').1.packs.Perm ((allocProblem a st wps).1.packs.map (renAPack m)) ∧
    (allocProblem a' st wps').1.tracks = (allocProblem a st wps).1.tracks.map (renTrack m) ∧
    (allocProblem a' st wps').1.packRefs = (allocProblem a st wps).1.packRefs.map (List.map m.σP) ∧
    (allocProblem a' st wps').1.numSilent = (allocProblem a st wps).1.numSilent ∧
    (allocProblem a' st wps').2 = (allocProblem a st wps).2.map m.σU ∧
    ∀ u ∈ (allocProblem a st wps).2, u < a.fmt.trackUIDs.length := by
  have hreal : ∀ u ∈ (a.obj (p.getLastD 0)).tracks.filterMap id, u < a.fmt.trackUIDs.length := by
    intro u hu
    simp only [List.mem_filterMap, id] at hu
    obtain ⟨x, hx, rfl⟩ := hu
    exact hto _ u hx
  unfold Earverif.Adm.allocProblem
  simp only [hp, h.obj, filterMap_id_map, List.length_map]
  refine ⟨?_, ?_, ?_, ?_, ?_, hreal⟩
  rotate_left 2
  · first | trivial | rfl
  · first | trivial | rfl
  · first | trivial | rfl
  · refine (hw.map _).trans ?_
    simp only [List.map_map]
    exact .refl _
  · rw [List.zipIdx_map, List.map_map, List.map_map]
    apply List.map_congr_left
    intro ui hui
    have hu : ui.1 < a.fmt.trackUIDs.length := hreal ui.1 (List.mem_zipIdx hui |>.2.2 ▸ List.getElem_mem _)
    simp only [Function.comp, Prod.map, id, renTrack, h.uidChan _ hu, h.uidPack _ hu]


/-! ### select_perm for the format part -/

theorem mapE_perm {α β : Type} [Inhabited β] (f : α → Except Err β) {l₁ l₂ : List α} (hp : l₁.Perm l₂)
    {ys : List β} (h : mapE f l₁ = .ok ys) : ∃ zs, mapE f l₂ = .ok zs ∧ ys.Perm zs := by
  obtain ⟨hall, rfl⟩ := (mapE_ok_iff f l₁ ys).1 h
  exact ⟨l₂.map (okVal f), (mapE_ok_iff f l₂ _).2 ⟨fun x hx => hall x (hp.mem_iff.2 hx), rfl⟩, hp.map _⟩

/-- the allocation problems of the document are well-formed in the sense of C07 (`PackAlloc.WF`:
distinct `AllocationPack`s and tracks, every pack has a channel, no channel format twice in a pack —
consequences of `validate_structure`'s pack/channel multitree check). -/
def AllocWF (a : Adm) : Prop :=
  ∀ wps st, wrappedPacks a.fmt = .ok wps → PackAlloc.WF (allocProblem a st wps).1

/-- per state: the allocated output packs of the re-numbered document are those of the original,
renamed, up to order (uniqueness of the valid allocation, C07 `select_accepted_unique`). -/
theorem fmtRenamed_selectPackMapping {m : FmtMaps} {a a' : Adm} (h : FmtRenamed m a a') (hok : FmtRefsOK a.fmt)
    (hto : ObjTracksOK a) (hwf' : AllocWF a') (st : State) {p : List Nat} (hp : st.objPath = some p)
    {aps aps' : List AllocPack} (hs : selectPackMapping a st = .ok aps)
    (hs' : selectPackMapping a' st = .ok aps') :
    aps'.Perm (aps.map (renAP m)) ∧
      ∀ ap ∈ aps, ap.pack < a.fmt.packs.length ∧ ∀ ct ∈ ap.alloc, ct.1 < a.fmt.channels.length := by
  unfold selectPackMapping at hs hs'
  cases hw : wrappedPacks a.fmt with
  | error e => simp [hw] at hs
  | ok wps =>
    obtain ⟨wps', hw', hwp⟩ := h.wrappedPacks hok hw
    simp only [hw] at hs
    simp only [hw'] at hs'
    obtain ⟨hpk, htr, hrf, hns, hu', hul⟩ := h.allocProblem hto st hp hwp
    cases hsel : PackAlloc.selectPackMapping (allocProblem a st wps).1 with
    | conflicting => simp [hsel] at hs
    | ambiguous => simp [hsel] at hs
    | accepted s =>
      cases hsel' : PackAlloc.selectPackMapping (allocProblem a' st wps').1 with
      | conflicting => simp [hsel'] at hs'
      | ambiguous => simp [hsel'] at hs'
      | accepted s' =>
        simp only [hsel] at hs
        simp only [hsel', hu'] at hs'
        have hv := PackAlloc.select_accepted_valid _ s hsel
        have hv' := valid_rename m hpk htr hrf hns hv
        have hperm : s'.Perm (s.map (renAllocated m)) :=
          (PackAlloc.select_accepted_unique _ (hwf' wps' st hw') s' hsel').2 _ hv'
        -- bounds of the allocated packs of the original document
        have hwb := wrappedPacks_bounds hok hw
        have hal : ∀ al ∈ s, al.pack.root < a.fmt.packs.length ∧
            ∀ cs ∈ al.allocation, cs.1.cf < a.fmt.channels.length := by
          intro al hal
          have hmem := hv.packs_mem al hal
          simp only [Earverif.Adm.allocProblem, List.mem_map] at hmem
          obtain ⟨w, hwm, hwe⟩ := hmem
          have hb := hwb w hwm
          refine ⟨by rw [← hwe]; exact hb.1, fun cs hcs => ?_⟩
          have hch := hv.channels al hal
          have : cs.1 ∈ al.pack.channels := by
            rw [← hch]; exact List.mem_map.2 ⟨cs, hcs, rfl⟩
          rw [← hwe] at this
          exact hb.2 _ this
        have hmapped : mapE (outputOf a'.fmt ((allocProblem a st wps).2.map m.σU)) (s.map (renAllocated m)) =
            .ok (aps.map (renAP m)) := by
          rw [mapE_comm2 (f := outputOf a.fmt (allocProblem a st wps).2) (r := renAP m)
            (fun al hal' => h.outputOf hok hul al (hal al hal').1 (hal al hal').2), hs]
          rfl
        obtain ⟨zs, hzs, hpz⟩ := mapE_perm _ hperm.symm hmapped
        rw [hs'] at hzs
        cases hzs
        refine ⟨hpz.symm, fun ap hap => ?_⟩
        obtain ⟨al, halm, hout⟩ := mapE_mem hs hap
        exact outputOf_bounds hok (hal al halm).1 (hal al halm).2 hout


theorem fmtRefsOK_of_refsInRange {a : Adm} (h : a.refsInRange = true) : FmtRefsOK a.fmt := by
  unfold Adm.refsInRange at h
  simp only [Bool.and_eq_true, List.all_eq_true, decide_eq_true_eq] at h
  obtain ⟨⟨⟨⟨⟨⟨⟨_, _⟩, _⟩, hpk⟩, hcn⟩, _⟩, _⟩, _⟩ := h
  have hp : ∀ p, a.fmt.pack p ∈ a.fmt.packs ∨ a.fmt.pack p = default := fun p => getD_mem_or_default _ _ _
  have hc : ∀ c, a.fmt.chan c ∈ a.fmt.channels ∨ a.fmt.chan c = default := fun c => getD_mem_or_default _ _ _
  refine ⟨?_, ?_, ?_, ?_, ?_, ?_, ?_⟩
  · intro p x hx
    rcases hp p with hm | hd
    · exact (hpk _ hm).1.1.1.2 x hx
    · rw [hd] at hx; cases hx
  · intro p x hx
    rcases hp p with hm | hd
    · exact (hpk _ hm).1.1.1.1 x hx
    · rw [hd] at hx; cases hx
  · intro p q hq
    rcases hp p with hm | hd
    · have := (hpk _ hm).1.2; rw [hq] at this; simpa using this
    · rw [hd] at hq; cases hq
  · intro p q hq
    rcases hp p with hm | hd
    · have := (hpk _ hm).2; rw [hq] at this; simpa using this
    · rw [hd] at hq; cases hq
  · intro p x hx
    rcases hp p with hm | hd
    · exact (hpk _ hm).1.1.2 x hx
    · rw [hd] at hx; cases hx
  · intro c q hq
    rcases hc c with hm | hd
    · have := (hcn _ hm).1; rw [hq] at this; simpa using this
    · rw [hd] at hq; cases hq
  · intro c k hk
    rcases hc c with hm | hd
    · exact (hcn _ hm).2 k hk
    · rw [hd] at hk; cases hk

theorem objTracksOK_of_refsInRange {a : Adm} (h : a.refsInRange = true) : ObjTracksOK a := by
  unfold Adm.refsInRange at h
  simp only [Bool.and_eq_true, List.all_eq_true, decide_eq_true_eq] at h
  obtain ⟨⟨⟨⟨⟨⟨⟨_, _⟩, ho⟩, _⟩, _⟩, _⟩, _⟩, _⟩ := h
  intro i u hu
  unfold Adm.obj at hu
  rcases getD_mem_or_default a.objects i default with hm | hd
  · have := (ho _ hm).1.1.2 (some u) hu
    simpa using this
  · rw [hd] at hu; cases hu

namespace FmtRenamed
variable {m : FmtMaps} {a a' : Adm}

theorem nobj (h : FmtRenamed m a a') : a'.objects.length = a.objects.length := by
  rw [h.objects, List.length_map]

theorem subs_eq (h : FmtRenamed m a a') : a'.subs = a.subs := by
  funext i; unfold Adm.subs; rw [h.obj]

theorem specStates_eq (h : FmtRenamed m a a') (prog : Option Nat) (ign : List Nat) :
    specStates a' prog ign = specStates a prog ign := by
  have hroot : rootObjects a' = rootObjects a := by
    unfold rootObjects
    rw [h.nobj, h.objects, List.flatMap_map]
  have hpaths : ∀ r, specPaths a' ign r = specPaths a ign r := by
    intro r; unfold specPaths objectPathsFrom; rw [h.subs_eq, h.nobj]
  have hno : a'.objects = [] ↔ a.objects = [] := by
    rw [← List.length_eq_zero_iff, ← List.length_eq_zero_iff, h.nobj]
  unfold Earverif.Adm.specStates
  simp only [h.programmes, hno, hroot, hpaths, h.prog, h.cont]

theorem selectComplementary_eq (h : FmtRenamed m a a') (sel : List Nat) :
    selectComplementary a' sel = selectComplementary a sel := by
  have hroots : compRoots a' = compRoots a := by
    unfold compRoots; simp only [h.nobj, h.obj]
  have hg : compGroup a' = compGroup a := by
    funext r; unfold compGroup; rw [h.obj]
  unfold Earverif.Adm.selectComplementary compAllSelected
  simp only [hroots, hg]

end FmtRenamed

theorem specStates_some_path {a : Adm} (hne : ¬ (a.programmes = [] ∧ a.objects = [])) {prog : Option Nat}
    {ign : List Nat} {st : State} (h : st ∈ specStates a prog ign) : ∃ p, st.objPath = some p := by
  unfold specStates at h
  simp only [hne, if_false] at h
  cases prog with
  | none =>
    simp only [List.mem_flatMap, List.mem_map] at h
    obtain ⟨_, _, q, _, rfl⟩ := h
    exact ⟨q, rfl⟩
  | some pr =>
    simp only [List.mem_flatMap, List.mem_map] at h
    obtain ⟨_, _, _, _, q, _, rfl⟩ := h
    exact ⟨q, rfl⟩

/-- per state: the items of the re-numbered document are a permutation of the renamed items. -/
theorem fmtRenamed_itemsOfState {m : FmtMaps} {a a' : Adm} (h : FmtRenamed m a a') (hok : FmtRefsOK a.fmt)
    (hto : ObjTracksOK a) (hwf' : AllocWF a') (st : State) {p : List Nat} (hp : st.objPath = some p)
    {its its' : List Item} (hs : itemsOfState a st = .ok its) (hs' : itemsOfState a' st = .ok its') :
    its'.Perm (its.map (renItemF m)) := by
  unfold itemsOfState at hs hs'
  cases hm : selectPackMapping a st with
  | error e => simp [hm] at hs
  | ok aps =>
    cases hm' : selectPackMapping a' st with
    | error e => simp [hm'] at hs'
    | ok aps' =>
      simp only [hm] at hs
      simp only [hm'] at hs'
      obtain ⟨hperm, hb⟩ := fmtRenamed_selectPackMapping h hok hto hwf' st hp hm hm'
      have hmapped : flatMapE (itemsOfPack a' st) (aps.map (renAP m)) = .ok (its.map (renItemF m)) := by
        rw [flatMapE_map, flatMapE_map_comm (f := itemsOfPack a st) (g := renItemF m)
          (fun ap hap => h.itemsOfPack hok st (hb ap hap).1 (hb ap hap).2), hs]
        rfl
      obtain ⟨zs, hzs, hpz⟩ := flatMapE_perm _ hperm.symm hmapped
      rw [hs'] at hzs
      cases hzs
      exact hpz.symm

/-! (the headline theorems `select_perm_formats` / `select_perm_formats_rename` — success in both directions, CHNA-only
mode included — are further down, after the lemmas on re-ordered track lists they use.) -/


/-! ### `rename` form and the well-formedness hypothesis made checkable -/

/-- the part of `PackAlloc.WF` that depends on the `AllocationPack`s only (decidable on a concrete
document). -/
def PacksWF (wps : List WPack) : Prop :=
  (wps.map fun w => (⟨w.id, w.root, w.channels⟩ : PackAlloc.Pack)).Nodup ∧
  (∀ w ∈ wps, w.channels ≠ []) ∧ ∀ w ∈ wps, (w.channels.map (·.cf)).Nodup

instance (wps : List WPack) : Decidable (PacksWF wps) := by unfold PacksWF; exact inferInstance

theorem allocWF_of_packsWF {a : Adm} (h : ∀ wps, wrappedPacks a.fmt = .ok wps → PacksWF wps) : AllocWF a := by
  intro wps st hw
  obtain ⟨h1, h2, h3⟩ := h wps hw
  refine ⟨h1, ?_, ?_, ?_⟩
  · apply nodup_of_nodup_map (·.id)
    simp only [allocProblem, List.map_map]
    have : ∀ l : List Nat, (l.zipIdx.map ((fun (t : PackAlloc.Track) => t.id) ∘ fun ui =>
        (⟨ui.2, trackChannel a.fmt ui.1, (a.fmt.uid ui.1).pack⟩ : PackAlloc.Track))) = List.range' 0 l.length := by
      intro l
      rw [← List.zipIdx_map_snd 0 l]
      rfl
    rw [this]
    exact List.nodup_range' 1
  · intro p hp
    simp only [allocProblem, List.mem_map] at hp
    obtain ⟨w, hw, rfl⟩ := hp
    exact h2 w hw
  · intro p hp
    simp only [allocProblem, List.mem_map] at hp
    obtain ⟨w, hw, rfl⟩ := hp
    exact h3 w hw

def renRef (m : FmtMaps) : TrackRef → TrackRef
  | .channel c => .channel (m.σC c)
  | .trackFormat t => .trackFormat t

def renUid (m : FmtMaps) (u : TrackUID) : TrackUID := { u with pack := m.σP u.pack, ref := renRef m u.ref }

/-- the format part re-declared in the order given by `m` (`mi` = inverse maps), references remapped. -/
def renameFormats (m mi : FmtMaps) (a : Adm) : Adm :=
  let f := a.fmt
  { a with
    objects := a.objects.map fun o =>
      { o with packs := o.packs.map m.σP, tracks := o.tracks.map (Option.map m.σU) },
    fmt := {
      packs := (List.range f.packs.length).map fun j => renPack m (f.pack (mi.σP j)),
      channels := (List.range f.channels.length).map fun j => renChan m (f.chan (mi.σC j)),
      streamFormats := f.streamFormats.map m.σC,
      trackFormats := f.trackFormats,
      trackUIDs := (List.range f.trackUIDs.length).map fun j => renUid m (f.uid (mi.σU j)) } }

theorem getD_range_map {β : Type} (g : Nat → β) (d : β) {n i : Nat} (hi : i < n) :
    ((List.range n).map g).getD i d = g i := by
  simp [List.getD_eq_getElem?_getD, List.getElem?_map, List.getElem?_range hi]

theorem renameFormats_renamed {m mi : FmtMaps} {a : Adm} (hwf : a.refsInRange = true)
    (hP : ((List.range a.fmt.packs.length).map m.σP).Perm (List.range a.fmt.packs.length))
    (hC : ((List.range a.fmt.channels.length).map m.σC).Perm (List.range a.fmt.channels.length))
    (hU : ((List.range a.fmt.trackUIDs.length).map m.σU).Perm (List.range a.fmt.trackUIDs.length))
    (hiP : ∀ i, i < a.fmt.packs.length → mi.σP (m.σP i) = i)
    (hiC : ∀ i, i < a.fmt.channels.length → mi.σC (m.σC i) = i)
    (hiU : ∀ i, i < a.fmt.trackUIDs.length → mi.σU (m.σU i) = i) :
    FmtRenamed m a (renameFormats m mi a) := by
  refine ⟨rfl, rfl, rfl, by simp [renameFormats], by simp [renameFormats], by simp [renameFormats],
    ?_, ?_, ?_, ?_, ?_, hP, hC⟩
  · intro p hp
    unfold Formats.pack renameFormats
    simp only
    rw [getD_range_map _ _ (perm_lt hP hp), hiP p hp]
    rfl
  · intro c hc
    unfold Formats.chan renameFormats
    simp only
    rw [getD_range_map _ _ (perm_lt hC hc), hiC c hc]
    rfl
  · intro u hu
    unfold Formats.uid renameFormats
    simp only
    rw [getD_range_map _ _ (perm_lt hU hu), hiU u hu]
    rfl
  · intro u hu
    unfold Formats.uid renameFormats
    simp only
    rw [getD_range_map _ _ (perm_lt hU hu), hiU u hu]
    rfl
  · intro u hu
    have hr : (renameFormats m mi a).fmt.uid (m.σU u) = renUid m (a.fmt.uid u) := by
      unfold Formats.uid renameFormats
      simp only
      rw [getD_range_map _ _ (perm_lt hU hu), hiU u hu]
      rfl
    unfold trackChannel
    rw [hr]
    simp only [renUid]
    cases href : (a.fmt.uid u).ref with
    | channel c => rfl
    | trackFormat t =>
      simp only [renRef, renameFormats]
      -- the referenced track/stream formats are in range
      unfold Adm.refsInRange at hwf
      simp only [Bool.and_eq_true, List.all_eq_true, decide_eq_true_eq] at hwf
      obtain ⟨⟨⟨_, _⟩, htf⟩, huid⟩ := hwf
      have hmem : a.fmt.uid u ∈ a.fmt.trackUIDs := by
        unfold Formats.uid
        simp [List.getD_eq_getElem?_getD, List.getElem?_eq_getElem hu]
      have ht := (huid _ hmem).2
      rw [href] at ht
      simp only [decide_eq_true_eq] at ht
      have hs : a.fmt.trackFormats.getD t 0 < a.fmt.streamFormats.length := by
        have : a.fmt.trackFormats.getD t 0 ∈ a.fmt.trackFormats := by
          simp [List.getD_eq_getElem?_getD, List.getElem?_eq_getElem ht]
        exact htf _ this
      rw [List.getD_eq_getElem?_getD] at hs
      simp only [List.getD_eq_getElem?_getD, List.getElem?_map, List.getElem?_eq_getElem hs,
        Option.map_some, Option.getD_some]


/-- decidable form of `AllocWF`. -/
def allocWFCheck (a : Adm) : Bool :=
  match wrappedPacks a.fmt with
  | .ok wps => decide (PacksWF wps)
  | .error _ => true

theorem allocWF_of_check {a : Adm} (h : allocWFCheck a = true) : AllocWF a := by
  apply allocWF_of_packsWF
  intro wps hw
  unfold allocWFCheck at h
  rw [hw] at h
  exact of_decide_eq_true h

section Declarative
open Earverif.TrackSpec (MChan packSpec meaning vsum delayOpt scaleOpt)

/-! ## C07's well-formedness of the allocation problems, derived from the multitree check -/

/-- the `AllocationTrackUID`s of a state are distinct objects (identified by their position). -/
theorem allocProblem_tracks_nodup (a : Adm) (st : State) (wps : List WPack) :
    (allocProblem a st wps).1.tracks.Nodup := by
  apply nodup_of_nodup_map (·.id)
  simp only [allocProblem, List.map_map]
  have : ∀ l : List Nat, (l.zipIdx.map ((fun (t : PackAlloc.Track) => t.id) ∘ fun ui =>
      (⟨ui.2, trackChannel a.fmt ui.1, (a.fmt.uid ui.1).pack⟩ : PackAlloc.Track))) = List.range' 0 l.length := by
    intro l
    rw [← List.zipIdx_map_snd 0 l]
    rfl
  rw [this]
  exact List.nodup_range' 1

theorem allocProblem_packs (a : Adm) (st : State) (wps : List WPack) :
    (allocProblem a st wps).1.packs = wps.map fun w => (⟨w.id, w.root, w.channels⟩ : PackAlloc.Pack) := rfl

/-- **packsWF_of_multitree**: the `AllocationPack` part of C07's `WF`, from the multitree check
(`cf_nodup`), by construction (`packs_nodup`) and from `wrappedNonempty` (`nonempty`; this one is NOT
established by `validate_structure`). -/
theorem packsWF_of_multitree {f : Formats} (hmt : multitreeOK f = true) (hne : wrappedNonempty f = true)
    {wps : List WPack} (hw : wrappedPacks f = .ok wps) : PacksWF wps := by
  refine ⟨?_, (wrappedNonempty_iff hw).1 hne, wrappedPacks_cf_nodup hmt hw⟩
  apply nodup_of_nodup_map (·.id)
  rw [List.map_map]
  exact wrappedPacks_ids_nodup hw

/-- **allocWF_of_multitree**: C07's well-formedness of every allocation problem of the document
(`AllocWF`, the hypothesis of `select_perm_formats_partial` and of C07's completeness / uniqueness
theorems) follows from `multitreeOK` (what `_validate_pack_channel_multitree` checks) and
`wrappedNonempty`. -/
theorem allocWF_of_multitree {a : Adm} (hmt : multitreeOK a.fmt = true) (hne : wrappedNonempty a.fmt = true) :
    AllocWF a :=
  allocWF_of_packsWF fun _ hw => packsWF_of_multitree hmt hne hw

theorem allocWFCheck_of_multitree {a : Adm} (hmt : multitreeOK a.fmt = true) (hne : wrappedNonempty a.fmt = true) :
    allocWFCheck a = true := by
  unfold allocWFCheck
  cases hw : wrappedPacks a.fmt with
  | error e => rfl
  | ok wps => exact decide_eq_true (packsWF_of_multitree hmt hne hw)

/-- C07's `WF` of the problems the allocator effectively solves: `allocate_packs` never allocates an
`AllocationPack` without channels (`PackAlloc.selectPackMapping_dropEmpty`, Proofs/C14Empty.lean), so these
can be dropped from the problem. -/
def AllocWF0 (a : Adm) : Prop :=
  ∀ wps st, wrappedPacks a.fmt = .ok wps → PackAlloc.WF (PackAlloc.dropEmpty (allocProblem a st wps).1)

/-- **allocWF0_of_multitree**: without any hypothesis besides the multitree check. -/
theorem allocWF0_of_multitree {a : Adm} (hmt : multitreeOK a.fmt = true) : AllocWF0 a := by
  intro wps st hw
  have hmem : ∀ p ∈ (PackAlloc.dropEmpty (allocProblem a st wps).1).packs,
      PackAlloc.hasChannels p = true ∧ ∃ w ∈ wps, p = ⟨w.id, w.root, w.channels⟩ := by
    intro p hp
    simp only [PackAlloc.dropEmpty, List.mem_filter, allocProblem_packs, List.mem_map] at hp
    obtain ⟨⟨w, hwm, rfl⟩, hc⟩ := hp
    exact ⟨hc, w, hwm, rfl⟩
  refine ⟨?_, allocProblem_tracks_nodup a st wps, ?_, ?_⟩
  · refine nodup_filter _ ?_
    rw [allocProblem_packs]
    apply nodup_of_nodup_map (·.id)
    rw [List.map_map]
    exact wrappedPacks_ids_nodup hw
  · intro p hp hnil
    have := (hmem p hp).1
    simp [PackAlloc.hasChannels, hnil] at this
  · intro p hp
    obtain ⟨_, w, hwm, rfl⟩ := hmem p hp
    exact wrappedPacks_cf_nodup hmt hw w hwm

theorem allocWF0_of_allocWF {a : Adm} (h : AllocWF a) : AllocWF0 a := by
  intro wps st hw
  obtain ⟨h1, h2, h3, h4⟩ := h wps st hw
  exact ⟨nodup_filter _ h1, h2, fun p hp => h3 p (List.mem_filter.1 hp).1, fun p hp => h4 p (List.mem_filter.1 hp).1⟩

/-- valid allocations of the reduced problem = valid allocations that use no `AllocationPack` without
channels. -/
theorem valid_dropEmpty_iff' (prob : PackAlloc.Problem) (sol : PackAlloc.Sol) :
    PackAlloc.Valid (PackAlloc.dropEmpty prob) sol ↔
      PackAlloc.Valid prob sol ∧ ∀ al ∈ sol, al.pack.channels ≠ [] := by
  constructor
  · intro h
    refine ⟨⟨fun al ha => (List.mem_filter.mp (h.packs_mem al ha)).1, h.channels, h.complete, h.tracks, h.silent,
      h.compat, h.refs⟩, ?_⟩
    intro al ha hnil
    have := (List.mem_filter.mp (h.packs_mem al ha)).2
    simp [PackAlloc.hasChannels, hnil] at this
  · rintro ⟨h, hne⟩
    refine ⟨fun al ha => List.mem_filter.mpr ⟨h.packs_mem al ha, ?_⟩, h.channels, h.complete, h.tracks, h.silent,
      h.compat, h.refs⟩
    have := hne al ha
    simpa [PackAlloc.hasChannels] using this

/-! ## the items of a state, declaratively (valid + unique allocation, track / silence / matrix sum) -/

/-- the items of a state, given the allocation `sol`: for every allocated pack its declarative output pack
and channel allocation (`declOutput`: regular pack → itself with each channel's track or silence; matrix
pack → its outputPackFormat with the matrix sums), and for that one item per channel / one HOA item
(`declItems`). -/
def declItemsOfSol (a : Adm) (st : State) (uids : List Nat) (sol : PackAlloc.Sol) : List Item :=
  sol.flatMap fun al => declItems a st (declOutput a.fmt uids al)

/-- the declarative per-channel item is the `specItem` of the comprehension `specSelect`, at the channel's
unique pack path and the absoluteDistance set along it. -/
theorem declSingle_eq_specItem (a : Adm) (st : State) (p : Nat) (ct : Nat × TSpec) :
    declSingle a st p ct =
      specItem a st (a.fmt.pack p).type (thePackPath a.fmt p ct.1) ct
        (firstSome (absDistAlong a.fmt (thePackPath a.fmt p ct.1))) := rfl

/-- for a regular (non-matrix) allocated pack, spelled out: one `specItem` per `(channel, slot)` entry of the
allocation, with track `direct (trackIndex − 1)` of the slot's audioTrackUID or `silent`. -/
theorem declItems_regular (a : Adm) (st : State) (uids : List Nat) (al : PackAlloc.Allocated)
    (hty : (a.fmt.pack al.pack.root).type = 1 ∨ (a.fmt.pack al.pack.root).type = 3) :
    declItems a st (declOutput a.fmt uids al) =
      al.allocation.map fun cs =>
        specItem a st (a.fmt.pack al.pack.root).type (thePackPath a.fmt al.pack.root cs.1.cf)
          (cs.1.cf, slotTrack a.fmt uids cs.2)
          (firstSome (absDistAlong a.fmt (thePackPath a.fmt al.pack.root cs.1.cf))) := by
  have h2 : (a.fmt.pack al.pack.root).type ≠ 2 := by rcases hty with h | h <;> omega
  have h4 : (a.fmt.pack al.pack.root).type ≠ 4 := by rcases hty with h | h <;> omega
  unfold declOutput declItems
  rw [if_pos h2]
  simp only [h4, if_false, inputAlloc, List.map_map]
  rfl

/-- **itemsOfState_spec**: when the per-state pipeline `select_pack_mapping` → `_get_rendering_items`
succeeds, there is a valid allocation (C07 `Valid`) of the state's tracks to the `AllocationPack`s, it is
the only one up to `≈` among the allocations that use no channel-less `AllocationPack`, every entry of it
is usable (`OutputOK`), and the items are the declarative items of that allocation. -/
theorem itemsOfState_spec {a : Adm} {st : State} {its : List Item} (h : itemsOfState a st = .ok its)
    (hwf : AllocWF0 a) :
    ∃ wps sol, wrappedPacks a.fmt = .ok wps ∧
      PackAlloc.Valid (allocProblem a st wps).1 sol ∧ (∀ al ∈ sol, al.pack.channels ≠ []) ∧
      (∀ sol', PackAlloc.Valid (allocProblem a st wps).1 sol' → (∀ al ∈ sol', al.pack.channels ≠ []) →
        PackAlloc.SolEquiv sol sol') ∧
      (∀ al ∈ sol, OutputOK a.fmt (allocProblem a st wps).2 al) ∧
      its = declItemsOfSol a st (allocProblem a st wps).2 sol := by
  unfold itemsOfState at h
  cases hm : selectPackMapping a st with
  | error e => simp [hm] at h
  | ok packs =>
    simp only [hm] at h
    unfold selectPackMapping at hm
    cases hw : wrappedPacks a.fmt with
    | error e => simp [hw] at hm
    | ok wps =>
      simp only [hw] at hm
      cases hsel : PackAlloc.selectPackMapping (allocProblem a st wps).1 with
      | conflicting => simp [hsel] at hm
      | ambiguous => simp [hsel] at hm
      | accepted sol =>
        simp only [hsel] at hm
        have hsel' := hsel
        rw [← PackAlloc.selectPackMapping_dropEmpty] at hsel'
        obtain ⟨hv, hu⟩ := PackAlloc.select_accepted_unique _ (hwf wps st hw) sol hsel'
        obtain ⟨hv1, hv2⟩ := (valid_dropEmpty_iff' _ _).1 hv
        obtain ⟨hok, rfl⟩ := (mapE_ok_iff_of_pointwise (outputOf_ok_iff a.fmt (allocProblem a st wps).2) sol packs).1 hm
        refine ⟨wps, sol, rfl, hv1, hv2, fun sol' hv' hne' => hu sol' ((valid_dropEmpty_iff' _ _).2 ⟨hv', hne'⟩),
          hok, ?_⟩
        obtain ⟨hall, rfl⟩ := (flatMapE_ok_iff _ _ _).1 h
        unfold declItemsOfSol
        rw [List.flatMap_map]
        refine flatMap_congr' fun al hal => ?_
        obtain ⟨zs, hzs⟩ := hall _ (List.mem_map.2 ⟨al, hal, rfl⟩)
        simp only [okVal, hzs]
        exact (itemsOfPack_eq_decl hzs).1

/-- with C07's full well-formedness (`AllocWF`, i.e. also no channel-less `AllocationPack`): the valid
allocation is unique up to `≈` among all valid allocations. -/
theorem itemsOfState_spec_wf {a : Adm} {st : State} {its : List Item} (h : itemsOfState a st = .ok its)
    (hwf : AllocWF a) :
    ∃ wps sol, wrappedPacks a.fmt = .ok wps ∧
      PackAlloc.Valid (allocProblem a st wps).1 sol ∧
      (∀ sol', PackAlloc.Valid (allocProblem a st wps).1 sol' → PackAlloc.SolEquiv sol sol') ∧
      (∀ al ∈ sol, OutputOK a.fmt (allocProblem a st wps).2 al) ∧
      its = declItemsOfSol a st (allocProblem a st wps).2 sol := by
  obtain ⟨wps, sol, hw, hv, _, hu, hok, hits⟩ := itemsOfState_spec h (allocWF0_of_allocWF hwf)
  refine ⟨wps, sol, hw, hv, fun sol' hv' => hu sol' hv' fun al hal => ?_, hok, hits⟩
  exact (hwf wps st hw).nonempty _ (hv'.packs_mem al hal)

/-- the items do not depend on which valid allocation is taken, up to order. -/
theorem declItemsOfSol_perm (a : Adm) (st : State) (uids : List Nat) {sol sol' : PackAlloc.Sol}
    (h : PackAlloc.SolEquiv sol sol') : (declItemsOfSol a st uids sol).Perm (declItemsOfSol a st uids sol') :=
  List.Perm.flatMap_right _ h

/-! ## the whole selection, declaratively -/

/-- the audioTrackUIDs a state selects: the real tracks of the leaf object, in the order of its
audioTrackUIDRef list; all audioTrackUIDs of the document in CHNA-only mode. -/
def stateUids (a : Adm) (st : State) : List Nat :=
  match st.objPath with
  | some p => (a.obj (p.getLastD 0)).tracks.filterMap id
  | none => List.range a.fmt.trackUIDs.length

theorem allocProblem_uids (a : Adm) (st : State) (wps : List WPack) :
    (allocProblem a st wps).2 = stateUids a st := by
  unfold allocProblem stateUids
  cases st.objPath <;> rfl

theorem length_sub_filterMap_id {α : Type} [DecidableEq α] (l : List (Option α)) :
    l.length - (l.filterMap id).length = l.count none := by
  induction l with
  | nil => rfl
  | cons x xs ih =>
    have hle : (xs.filterMap id).length ≤ xs.length := List.length_filterMap_le _ _
    cases x with
    | none =>
      have e : (none :: xs).filterMap id = xs.filterMap id := by simp
      rw [e, List.count_cons_self, List.length_cons]
      omega
    | some u =>
      have e : (some u :: xs).filterMap id = u :: xs.filterMap id := by simp
      have c : List.count none (some u :: xs) = List.count none xs := by rw [List.count_cons]; simp
      rw [e, c, List.length_cons, List.length_cons]
      omega

/-- the allocation problem of a state, field by field (`get_selected_packs_tracks_silent`): the
`AllocationPack`s of the document; one `AllocationTrackUID` per selected audioTrackUID with its channel
format and referenced pack; the leaf object's pack references and number of silent tracks (none in
CHNA-only mode). -/
theorem allocProblem_fields (a : Adm) (st : State) (wps : List WPack) :
    (allocProblem a st wps).1.packs = wps.map (fun w => (⟨w.id, w.root, w.channels⟩ : PackAlloc.Pack)) ∧
    (allocProblem a st wps).1.tracks = (stateUids a st).zipIdx.map
      (fun ui => (⟨ui.2, trackChannel a.fmt ui.1, (a.fmt.uid ui.1).pack⟩ : PackAlloc.Track)) ∧
    (allocProblem a st wps).1.packRefs = (st.leaf a).map (·.packs) ∧
    (allocProblem a st wps).1.numSilent = ((st.leaf a).map fun o => o.tracks.count none).getD 0 := by
  unfold allocProblem stateUids State.leaf
  cases st.objPath with
  | none => exact ⟨rfl, rfl, rfl, rfl⟩
  | some p =>
    refine ⟨rfl, rfl, rfl, ?_⟩
    simp only [Option.map_some, Option.getD_some]
    exact length_sub_filterMap_id _

theorem exists_fun_of_forall_mem {α β : Type} [Inhabited β] {l : List α} {P : α → β → Prop}
    (h : ∀ x ∈ l, ∃ y, P x y) : ∃ f : α → β, ∀ x ∈ l, P x (f x) := by
  classical
  refine ⟨fun x => if hx : x ∈ l then Classical.choose (h x hx) else default, fun x hx => ?_⟩
  simp only [hx, dif_pos]
  exact Classical.choose_spec (h x hx)

/-- **select_eq_decl**: on a document that passes the multitree check, whenever
`select_rendering_items` returns, its result is the comprehension
`[ item | state ∈ specStates, allocated pack ∈ the valid allocation of the state, item ∈ declItems ]`
where the state enumeration (`specStates`), "valid allocation" (C07's `Valid`, unique up to `≈`), the
output pack / track specs (`declOutput`: track index − 1, silence, or the matrix sum) and the per-channel
items (`declItems`: `declSingle`, `declHoa`) do not call the model's `selectPackMapping`, `outputOf`, `itemsOfPack`.
What is NOT declarative on the right-hand side (model functions re-used by the "specification"):
* the STATE ENUMERATION `specStates` is `objectPathsFrom` (the model's fuel-cut `pathsFrom`) after the model's
  `selectProgramme` / `selectComplementary`; it is the set of chains only under `Acyclic` + `refsInRange`
  (`mem_objectPathsFrom_iff`, `mem_specStates_iff`), and `Acyclic` follows from validation (`acyclic_of_validate`):
  `select_eq_decl_chain` is the declarative reading, for validated documents only; the ORDER of the states is the
  model's iteration order;
* `declSingle` / `declHoa` contain the model's `extraOf` and `getImportance` (characterised field by field by the
  `extraOf_*` lemmas and `minImp_spec`, not replaced), and `thePackPath` is the head of the model's `packPathsFrom`
  (fuel = number of packs; sufficiency of that fuel under `multitreeOK` is not proved: a pack path longer than the
  fuel would be cut in model and "spec" alike);
* `selectProgramme` is characterised by `select_programme_lowest_id`, `selectComplementary` by `mem_ignored_iff`. -/
theorem select_eq_decl {a : Adm} {given : Option Nat} {sel : List Nat} {items : List Item}
    (h : selectRenderingItems a given sel = .ok items) (hmt : multitreeOK a.fmt = true) :
    ∃ wps ign, wrappedPacks a.fmt = .ok wps ∧ selectComplementary a sel = .ok ign ∧
      ∃ alloc : State → PackAlloc.Sol,
        (∀ st ∈ specStates a (selectProgramme a given) ign,
          PackAlloc.Valid (allocProblem a st wps).1 (alloc st) ∧ (∀ al ∈ alloc st, al.pack.channels ≠ []) ∧
          (∀ sol', PackAlloc.Valid (allocProblem a st wps).1 sol' → (∀ al ∈ sol', al.pack.channels ≠ []) →
            PackAlloc.SolEquiv (alloc st) sol') ∧
          ∀ al ∈ alloc st, OutputOK a.fmt (stateUids a st) al) ∧
        items = (specStates a (selectProgramme a given) ign).flatMap fun st =>
          declItemsOfSol a st (stateUids a st) (alloc st) := by
  rw [select_eq_spec] at h
  unfold specSelect at h
  cases hw : wrappedPacks a.fmt with
  | error e => simp [hw] at h
  | ok wps =>
    cases hc : selectComplementary a sel with
    | error e => simp [hw, hc] at h
    | ok ign =>
      simp only [hw, hc] at h
      have h' : flatMapE (itemsOfState a) (specStates a (selectProgramme a given) ign) = .ok items := h
      obtain ⟨hall, rfl⟩ := (flatMapE_ok_iff _ _ _).1 h'
      have key : ∀ st ∈ specStates a (selectProgramme a given) ign, ∃ sol : PackAlloc.Sol,
          (PackAlloc.Valid (allocProblem a st wps).1 sol ∧ (∀ al ∈ sol, al.pack.channels ≠ []) ∧
          (∀ sol', PackAlloc.Valid (allocProblem a st wps).1 sol' → (∀ al ∈ sol', al.pack.channels ≠ []) →
            PackAlloc.SolEquiv sol sol') ∧
          ∀ al ∈ sol, OutputOK a.fmt (stateUids a st) al) ∧
          okVal (itemsOfState a) st = declItemsOfSol a st (stateUids a st) sol := by
        intro st hst
        obtain ⟨its, hits⟩ := hall st hst
        obtain ⟨wps', sol, hw', hv, hne, hu, hok, rfl⟩ := itemsOfState_spec hits (allocWF0_of_multitree hmt)
        rw [hw] at hw'
        cases hw'
        rw [allocProblem_uids] at hok
        refine ⟨sol, ⟨hv, hne, hu, hok⟩, ?_⟩
        simp [okVal, hits, allocProblem_uids]
      obtain ⟨alloc, halloc⟩ := exists_fun_of_forall_mem key
      refine ⟨wps, ign, rfl, rfl, alloc, fun st hst => (halloc st hst).1, ?_⟩
      exact flatMap_congr' fun st hst => (halloc st hst).2

/-! ## the audio of the track spec of a matrix item (C20's `matrix_pack_spec_meaning`) -/

/-- a matrix channel that is itself in the input allocation (matrix already applied: "pre-applied" use)
is fed by its own track. -/
theorem matrixTrack_input {f : Formats} {inputs : List (Nat × TSpec)} {mc : Nat} {x : Nat × TSpec}
    (h : inputs.find? (·.1 == mc) = some x) : matrixTrack f inputs mc = x.2 := by
  unfold matrixTrack
  rw [toMChan_input h]
  exact packSpec_input _

/-- **matrixTrack_meaning**: the audio (C20 `meaning`) of the track spec of a matrix channel that is not
in the input allocation is the matrix sum: over the coefficients of its block format, the audio of the
coefficient's input channel (recursively `packSpec` of its tree), scaled by the coefficient gain and
delayed by the coefficient delay, all scaled by the block format gain — C20's
`matrix_pack_spec_meaning`, applied to the spec the C06 model builds. -/
theorem matrixTrack_meaning {f : Formats} {inputs : List (Nat × TSpec)} {mc : Nat}
    (hin : inputs.find? (·.1 == mc) = none)
    (hsome : (toMChan f inputs (f.channels.length + 1) mc).isSome = true) (fs : Int) (nch : Nat)
    (x : List (List Rat)) :
    ∃ cs, mapO (coeffMChan f inputs f.channels.length) (f.chan mc).matrix.coeffs = some cs ∧
      meaning fs nch (matrixTrack f inputs mc) x =
        (vsum x.length (cs.map fun c =>
          delayOpt fs c.2.2 (scaleOpt c.2.1 (meaning fs nch (packSpec c.1) x)))).map (· * (f.chan mc).matrix.gain) := by
  obtain ⟨m, hm⟩ := Option.isSome_iff_exists.1 hsome
  obtain ⟨_, cs, hcs, rfl⟩ := toMChan_matrix hm hin
  refine ⟨cs, hcs, ?_⟩
  unfold matrixTrack
  rw [hm]
  exact Earverif.TrackSpec.matrix_pack_spec_meaning fs nch cs _ x

/-- **matrix_item_spec_meaning**: every channel of the output pack of an allocated matrix pack is the
`outputChannelFormat` of a channel `mc` of the matrix pack, fed by that channel's track (if the tracks
carry the matrix channels) or by the matrix sum over the input allocation. -/
theorem matrix_item_spec_meaning {f : Formats} {uids : List Nat} {al : PackAlloc.Allocated} {ap : AllocPack}
    (h : outputOf f uids al = .ok ap) (hty : (f.pack al.pack.root).type = 2) :
    ∀ ct ∈ ap.alloc, ∃ mc ∈ (f.pack al.pack.root).channels,
      ct = (matrixOut f mc, matrixTrack f (inputAlloc f uids al) mc) ∧
      ((∃ x, (inputAlloc f uids al).find? (·.1 == mc) = some x ∧ ct.2 = x.2) ∨
       ((inputAlloc f uids al).find? (·.1 == mc) = none ∧ ∀ (fs : Int) (nch : Nat) (x : List (List Rat)),
          ∃ cs, mapO (coeffMChan f (inputAlloc f uids al) f.channels.length) (f.chan mc).matrix.coeffs = some cs ∧
            meaning fs nch ct.2 x =
              (vsum x.length (cs.map fun c =>
                delayOpt fs c.2.2 (scaleOpt c.2.1 (meaning fs nch (packSpec c.1) x)))).map
                  (· * (f.chan mc).matrix.gain))) := by
  obtain ⟨hok, rfl⟩ := (outputOf_ok_iff f uids al ap).1 h
  have hne : ¬ (f.pack al.pack.root).type ≠ 2 := by omega
  intro ct hct
  unfold declOutput at hct
  rw [if_neg hne] at hct
  obtain ⟨mc, hmc, rfl⟩ := List.mem_map.1 hct
  refine ⟨mc, hmc, rfl, ?_⟩
  cases hfind : (inputAlloc f uids al).find? (·.1 == mc) with
  | some x => exact Or.inl ⟨x, rfl, matrixTrack_input hfind⟩
  | none =>
    exact Or.inr ⟨rfl, fun fs nch x => matrixTrack_meaning hfind ((hok.2 hty).2 mc hmc).2 fs nch x⟩

/-! ## side facts: the declarative items are well defined -/

/-- whenever `_get_rendering_items` returns for an allocated output pack: every allocated channel lies on
exactly one pack path below the pack (`thePackPath` is THE path), the absoluteDistance values set along
that path agree, and for HOA the merged parameters exist (`hoaMetaOf_ok_iff`: all channels agree). -/
theorem itemsOfPack_ok_facts {a : Adm} {st : State} {ap : AllocPack} {its : List Item}
    (h : itemsOfPack a st ap = .ok its) :
    (∀ ct ∈ ap.alloc,
      thePackPath a.fmt ap.pack ct.1 ∈ packPathsFrom a.fmt ap.pack ∧
      ct.1 ∈ (a.fmt.pack ((thePackPath a.fmt ap.pack ct.1).getLastD 0)).channels ∧
      (∀ q ∈ packPathsFrom a.fmt ap.pack, ct.1 ∈ (a.fmt.pack (q.getLastD 0)).channels →
        q = thePackPath a.fmt ap.pack ct.1) ∧
      ∀ x, some x ∈ absDistAlong a.fmt (thePackPath a.fmt ap.pack ct.1) →
        firstSome (absDistAlong a.fmt (thePackPath a.fmt ap.pack ct.1)) = some x) ∧
    ((a.fmt.pack ap.pack).type = 4 →
      ∃ hm ad, hoaMetaOf a.fmt (packPathsChannels a.fmt ap) = .ok hm ∧
        ap.alloc ≠ [] ∧ ∀ ct ∈ ap.alloc, getPathParam (absDistAlong a.fmt (thePackPath a.fmt ap.pack ct.1)) = .ok ad) := by
  have hpath : ∀ {ct : Nat × TSpec} {pp : List Nat}, getPackFormatPath a.fmt ap.pack ct.1 = .ok pp →
      thePackPath a.fmt ap.pack ct.1 ∈ packPathsFrom a.fmt ap.pack ∧
      ct.1 ∈ (a.fmt.pack ((thePackPath a.fmt ap.pack ct.1).getLastD 0)).channels ∧
      (∀ q ∈ packPathsFrom a.fmt ap.pack, ct.1 ∈ (a.fmt.pack (q.getLastD 0)).channels →
        q = thePackPath a.fmt ap.pack ct.1) := by
    intro ct pp hpp
    obtain ⟨e, h1, h2, h3⟩ := getPackFormatPath_eq hpp
    subst e
    exact ⟨h1, h2, h3⟩
  have hagree : ∀ {pp : List Nat} {ad : Option Rat}, getPathParam (absDistAlong a.fmt pp) = .ok ad →
      ∀ x, some x ∈ absDistAlong a.fmt pp → firstSome (absDistAlong a.fmt pp) = some x := by
    intro pp ad had x hx
    rw [← getPathParam_eq_firstSome had]
    exact ((getPathParam_ok_iff _ _).1 had).1 x hx
  unfold itemsOfPack at h
  dsimp only at h
  split at h
  · rename_i hty
    refine ⟨fun ct hct => ?_, fun h4 => by rcases hty with h3 | h1 <;> omega⟩
    obtain ⟨hall, _⟩ := (mapE_ok_iff _ _ _).1 h
    obtain ⟨it, hit⟩ := hall ct hct
    obtain ⟨_, ⟨pp, hpp⟩, ad, had⟩ := singleItem_eq_decl (p := ap.pack) hit
    obtain ⟨h1, h2, h3⟩ := hpath hpp
    exact ⟨h1, h2, h3, hagree had⟩
  · split at h
    · rename_i hty
      cases hh : hoaItem a st ap with
      | error e => simp [hh] at h
      | ok it =>
        obtain ⟨hp, hm, ex, hmeta, hex, _⟩ := (hoaItem_ok_iff a st ap it).1 hh
        obtain ⟨ad, had, _⟩ := (getExtraData_ok_iff _ _ _ _ _).1 hex
        obtain ⟨hne, hall⟩ := (getSingleParam_ok_iff _ _ _).1 had
        have hall' : ∀ ct ∈ ap.alloc, getPathParam (absDistAlong a.fmt (thePackPath a.fmt ap.pack ct.1)) = .ok ad :=
          fun ct hct => hall _ (List.mem_map.2 ⟨ct, hct, rfl⟩)
        refine ⟨fun ct hct => ?_, fun _ => ⟨hm, ad, hmeta, ?_, hall'⟩⟩
        · obtain ⟨pp, hpp⟩ := hp ct hct
          obtain ⟨h1, h2, h3⟩ := hpath hpp
          exact ⟨h1, h2, h3, hagree (hall' ct hct)⟩
        · intro hnil
          apply hne
          simp [packPathsChannels, hnil]
    · cases h

/-- for a channel of a regular `AllocationPack` the pack path of its item is the `pack_formats` of that
`AllocationChannel` (what the track's pack reference was matched against). -/
theorem regular_item_path {f : Formats} {p : Nat} {c : PackAlloc.Channel} (hc : c ∈ (wrapRegular f p).channels)
    {pp : List Nat} (h : getPackFormatPath f p c.cf = .ok pp) : pp = c.pfs := by
  simp only [wrapRegular, List.mem_map] at hc
  obtain ⟨s, hs, rfl⟩ := hc
  exact getPackFormatPath_of_slot hs h

end Declarative

/-! ## re-ordering an object's own audioPackFormat / audioTrackUID reference lists -/

/-- a permutation of a list is a re-indexing: position `i` of `l` is position `g i` of `l'`, and `k` is
the inverse re-indexing. -/
theorem perm_index_maps {α : Type} {l l' : List α} (h : l.Perm l') :
    ∃ g k : Nat → Nat,
      ((List.range l.length).map g).Perm (List.range l'.length) ∧
      ((List.range l'.length).map k).Perm (List.range l.length) ∧
      (∀ i, i < l.length → l'[g i]? = l[i]?) ∧ (∀ j, j < l'.length → l[k j]? = l'[j]?) ∧
      (∀ i, i < l.length → k (g i) = i) ∧ (∀ j, j < l'.length → g (k j) = j) := by
  induction h with
  | nil => exact ⟨id, id, by simp, by simp, fun i hi => by simp at hi, fun i hi => by simp at hi,
      fun _ _ => rfl, fun _ _ => rfl⟩
  | @cons x l l' _ ih =>
    obtain ⟨g, k, hg, hk, hgi, hki, hkg, hgk⟩ := ih
    have shift : ∀ (u : Nat → Nat) (n m : Nat), ((List.range n).map u).Perm (List.range m) →
        ((List.range (n + 1)).map (fun i => match i with | 0 => 0 | i + 1 => u i + 1)).Perm (List.range (m + 1)) := by
      intro u n m hu
      simp only [List.range_succ_eq_map, List.map_cons, List.map_map]
      refine List.Perm.cons _ ?_
      have : ((fun i => match i with | 0 => 0 | i + 1 => u i + 1) ∘ Nat.succ) = Nat.succ ∘ u := by
        funext i; rfl
      rw [this, ← List.map_map]
      exact hu.map _
    refine ⟨fun i => match i with | 0 => 0 | i + 1 => g i + 1, fun i => match i with | 0 => 0 | i + 1 => k i + 1,
      shift g _ _ hg, shift k _ _ hk, ?_, ?_, ?_, ?_⟩
    · intro i hlt
      cases i with
      | zero => rfl
      | succ j => simp only [List.getElem?_cons_succ]; exact hgi j (by simpa using hlt)
    · intro i hlt
      cases i with
      | zero => rfl
      | succ j => simp only [List.getElem?_cons_succ]; exact hki j (by simpa using hlt)
    · intro i hlt
      cases i with
      | zero => rfl
      | succ j => simp only; rw [hkg j (by simpa using hlt)]
    · intro i hlt
      cases i with
      | zero => rfl
      | succ j => simp only; rw [hgk j (by simpa using hlt)]
  | swap x y l =>
    have sw : ((List.range (l.length + 1 + 1)).map (fun i => match i with | 0 => 1 | 1 => 0 | i + 2 => i + 2)).Perm
        (List.range (l.length + 1 + 1)) := by
      simp only [List.range_succ_eq_map, List.map_cons, List.map_map]
      refine (List.Perm.swap _ _ _).trans ?_
      refine List.Perm.cons _ (List.Perm.cons _ ?_)
      exact List.Perm.of_eq (List.map_congr_left fun i _ => rfl)
    refine ⟨fun i => match i with | 0 => 1 | 1 => 0 | i + 2 => i + 2,
      fun i => match i with | 0 => 1 | 1 => 0 | i + 2 => i + 2, sw, sw, ?_, ?_, ?_, ?_⟩
    all_goals
      intro i hlt
      match i with
      | 0 => rfl
      | 1 => rfl
      | j + 2 => rfl
  | @trans l₁ l₂ l₃ _ _ ih₁ ih₂ =>
    obtain ⟨g₁, k₁, hg₁, hk₁, hgi₁, hki₁, hkg₁, hgk₁⟩ := ih₁
    obtain ⟨g₂, k₂, hg₂, hk₂, hgi₂, hki₂, hkg₂, hgk₂⟩ := ih₂
    have m1 : ∀ i, i < l₁.length → g₁ i < l₂.length := fun i hlt =>
      List.mem_range.1 (hg₁.mem_iff.1 (List.mem_map.2 ⟨i, List.mem_range.2 hlt, rfl⟩))
    have m2 : ∀ j, j < l₃.length → k₂ j < l₂.length := fun j hlt =>
      List.mem_range.1 (hk₂.mem_iff.1 (List.mem_map.2 ⟨j, List.mem_range.2 hlt, rfl⟩))
    refine ⟨g₂ ∘ g₁, k₁ ∘ k₂, ?_, ?_, ?_, ?_, ?_, ?_⟩
    · rw [← List.map_map]; exact (hg₁.map g₂).trans hg₂
    · rw [← List.map_map]; exact (hk₂.map k₁).trans hk₁
    · intro i hlt
      simp only [Function.comp]
      rw [hgi₂ _ (m1 i hlt), hgi₁ i hlt]
    · intro j hlt
      simp only [Function.comp]
      rw [hki₁ _ (m2 j hlt), hki₂ j hlt]
    · intro i hlt
      simp only [Function.comp]
      rw [hkg₂ _ (m1 i hlt), hkg₁ i hlt]
    · intro j hlt
      simp only [Function.comp]
      rw [hgk₁ _ (m2 j hlt), hgk₂ j hlt]

theorem perm_index_map {α : Type} {l l' : List α} (h : l.Perm l') :
    ∃ g : Nat → Nat, ((List.range l.length).map g).Perm (List.range l'.length) ∧
      ∀ i, i < l.length → l'[g i]? = l[i]? := by
  obtain ⟨g, _, hg, _, hgi, _⟩ := perm_index_maps h
  exact ⟨g, hg, hgi⟩

/-- an `AllocationTrackUID` moved to another position of the selected-track list. -/
def reTrack (g : Nat → Nat) (t : PackAlloc.Track) : PackAlloc.Track := { t with id := g t.id }

def reSlot (g : Nat → Nat) (s : PackAlloc.Slot) : PackAlloc.Slot := s.map (Option.map (reTrack g))

def reAllocated (g : Nat → Nat) (al : PackAlloc.Allocated) : PackAlloc.Allocated :=
  ⟨al.pack, al.allocation.map fun cs => (cs.1, reSlot g cs.2)⟩

theorem slots_reSol (g : Nat → Nat) (sol : PackAlloc.Sol) :
    PackAlloc.slots (sol.map (reAllocated g)) = (PackAlloc.slots sol).map fun cs => (cs.1, reSlot g cs.2) := by
  simp [PackAlloc.slots, List.flatMap_map, List.map_flatMap, reAllocated]

theorem filled_reSol (g : Nat → Nat) (sol : PackAlloc.Sol) :
    PackAlloc.filled (sol.map (reAllocated g)) = (PackAlloc.filled sol).map (Option.map (reTrack g)) := by
  unfold PackAlloc.filled
  rw [slots_reSol]
  generalize PackAlloc.slots sol = l
  induction l with
  | nil => rfl
  | cons cs rest ih =>
    obtain ⟨c, s⟩ := cs
    simp only [List.map_cons, List.filterMap_cons]
    cases s with
    | none => exact ih
    | some t => exact congrArg (Option.map (reTrack g) t :: ·) ih

theorem realTracks_reSol (g : Nat → Nat) (sol : PackAlloc.Sol) :
    PackAlloc.realTracks (sol.map (reAllocated g)) = (PackAlloc.realTracks sol).map (reTrack g) := by
  unfold PackAlloc.realTracks
  rw [filled_reSol]
  exact filterMap_id_map _ _

theorem numSilentIn_reSol (g : Nat → Nat) (sol : PackAlloc.Sol) :
    PackAlloc.numSilentIn (sol.map (reAllocated g)) = PackAlloc.numSilentIn sol := by
  unfold PackAlloc.numSilentIn
  rw [filled_reSol]
  generalize PackAlloc.filled sol = l
  induction l with
  | nil => rfl
  | cons t rest ih => cases t <;> simp [ih]

/-- a valid allocation stays valid when the selected tracks are listed in another order (their identities
moved along) and the pack references are listed in another order. -/
theorem valid_retrack (g : Nat → Nat) {prob prob' : PackAlloc.Problem}
    (hp : prob'.packs = prob.packs)
    (ht : (prob.tracks.map (reTrack g)).Perm prob'.tracks)
    (hr : match prob.packRefs, prob'.packRefs with
          | none, none => True
          | some r, some r' => r.Perm r'
          | _, _ => False)
    (hn : prob'.numSilent = prob.numSilent) {sol : PackAlloc.Sol} (hv : PackAlloc.Valid prob sol) :
    PackAlloc.Valid prob' (sol.map (reAllocated g)) := by
  refine ⟨?_, ?_, ?_, ?_, ?_, ?_, ?_⟩
  · intro al hal
    obtain ⟨al0, hal0, rfl⟩ := List.mem_map.1 hal
    rw [hp]
    exact hv.packs_mem al0 hal0
  · intro al hal
    obtain ⟨al0, hal0, rfl⟩ := List.mem_map.1 hal
    simp only [reAllocated, List.map_map]
    rw [← hv.channels al0 hal0]
    rfl
  · intro cs hcs
    rw [slots_reSol] at hcs
    obtain ⟨cs0, hcs0, rfl⟩ := List.mem_map.1 hcs
    have := hv.complete cs0 hcs0
    cases h : cs0.2 with
    | none => exact absurd h this
    | some t => simp [reSlot]
  · rw [realTracks_reSol]
    exact (hv.tracks.map _).trans ht
  · rw [numSilentIn_reSol, hn]; exact hv.silent
  · intro cs hcs t hts
    rw [slots_reSol] at hcs
    obtain ⟨cs0, hcs0, rfl⟩ := List.mem_map.1 hcs
    simp only [reSlot] at hts
    cases h0 : cs0.2 with
    | none => simp [h0] at hts
    | some o =>
      cases o with
      | none => simp [h0] at hts
      | some t0 =>
        simp only [h0, Option.map_some, Option.some.injEq] at hts
        subst hts
        exact hv.compat cs0 hcs0 t0 h0
  · have := hv.refs
    have hroots : (sol.map (reAllocated g)).map (·.pack.root) = sol.map (·.pack.root) := by
      simp [List.map_map, reAllocated, Function.comp_def]
    rw [hroots]
    cases hpr : prob.packRefs with
    | none =>
      cases hpr' : prob'.packRefs with
      | none => trivial
      | some r' => rw [hpr, hpr'] at hr; exact hr.elim
    | some r =>
      cases hpr' : prob'.packRefs with
      | none => rw [hpr, hpr'] at hr; exact hr.elim
      | some r' =>
        rw [hpr, hpr'] at hr
        rw [hpr] at this
        exact List.Perm.trans this hr

/-- everything of an audioObject that item selection reads besides its own pack / track reference lists. -/
def Obj.core (o : Obj) : Obj := { o with packs := [], tracks := [] }

/-- `a'` is `a` with the audioPackFormat and audioTrackUID reference lists of every audioObject re-ordered
(silent tracks included); everything else unchanged. -/
structure OwnRefsPerm (a a' : Adm) : Prop where
  programmes : a'.programmes = a.programmes
  contents : a'.contents = a.contents
  fmt : a'.fmt = a.fmt
  nobj : a'.objects.length = a.objects.length
  core : ∀ i, (a'.obj i).core = (a.obj i).core
  packs : ∀ i, (a.obj i).packs.Perm (a'.obj i).packs
  tracks : ∀ i, (a.obj i).tracks.Perm (a'.obj i).tracks

namespace OwnRefsPerm
variable {a a' : Adm}

theorem fields (h : OwnRefsPerm a a') (i : Nat) :
    (a'.obj i).subObjects = (a.obj i).subObjects ∧ (a'.obj i).complementary = (a.obj i).complementary ∧
    (a'.obj i).start = (a.obj i).start ∧ (a'.obj i).duration = (a.obj i).duration ∧
    (a'.obj i).gain = (a.obj i).gain ∧ (a'.obj i).mute = (a.obj i).mute ∧
    (a'.obj i).posOff = (a.obj i).posOff ∧ (a'.obj i).importance = (a.obj i).importance ∧
    (a'.obj i).avs = (a.obj i).avs := by
  have := h.core i
  generalize a'.obj i = o' at this
  generalize a.obj i = o at this
  cases o; cases o'
  simp only [Obj.core, Obj.mk.injEq, true_and] at this
  obtain ⟨h1, h2, h3, h4, h5, h6, h7, h8, h9⟩ := this
  exact ⟨h1, h2, h3, h4, h5, h6, h7, h8, h9⟩

theorem prog (h : OwnRefsPerm a a') (p : Nat) : a'.prog p = a.prog p := by unfold Adm.prog; rw [h.programmes]
theorem cont (h : OwnRefsPerm a a') (c : Nat) : a'.cont c = a.cont c := by unfold Adm.cont; rw [h.contents]

theorem subs_eq (h : OwnRefsPerm a a') : a'.subs = a.subs := by
  funext i; unfold Adm.subs; exact (h.fields i).1

theorem rootObjects_eq (h : OwnRefsPerm a a') : rootObjects a' = rootObjects a := by
  unfold rootObjects
  simp only [h.nobj]
  apply List.filter_congr
  intro i _
  congr 1
  rw [Bool.eq_iff_iff]
  simp only [List.contains_iff_mem, mem_nonRoot, h.nobj, h.subs_eq]

theorem specStates_eq (h : OwnRefsPerm a a') (prog : Option Nat) (ign : List Nat) :
    specStates a' prog ign = specStates a prog ign := by
  have hpaths : ∀ r, specPaths a' ign r = specPaths a ign r := by
    intro r; unfold specPaths objectPathsFrom; rw [h.subs_eq, h.nobj]
  have hno : a'.objects = [] ↔ a.objects = [] := by
    rw [← List.length_eq_zero_iff, ← List.length_eq_zero_iff, h.nobj]
  unfold specStates
  simp only [h.programmes, hno, h.rootObjects_eq, hpaths, h.prog, h.cont]

theorem selectComplementary_eq (h : OwnRefsPerm a a') (sel : List Nat) :
    selectComplementary a' sel = selectComplementary a sel := by
  have hc : ∀ i, (a'.obj i).complementary = (a.obj i).complementary := fun i => (h.fields i).2.1
  have hroots : compRoots a' = compRoots a := by
    unfold compRoots; simp only [h.nobj, hc]
  have hg : compGroup a' = compGroup a := by
    funext r; unfold compGroup; rw [hc]
  unfold Earverif.Adm.selectComplementary compAllSelected
  simp only [hroots, hg]

theorem getAvs_eq (h : OwnRefsPerm a a') (st : State) : getAvs a' st = getAvs a st := by
  unfold getAvs State.leaf
  cases st.objPath with
  | none => rfl
  | some p =>
    simp only [Option.map_some, h.prog, h.cont, (h.fields _).2.2.2.2.2.2.2.2]

theorem extraOf_eq (h : OwnRefsPerm a a') (st : State) (ch : Option Nat) (ad : Option Rat) :
    extraOf a' st ch ad = extraOf a st ch ad := by
  unfold extraOf
  rw [h.getAvs_eq, h.fmt]
  unfold State.leaf
  cases st.objPath with
  | none => simp only [Option.map_none, h.prog]
  | some p =>
    obtain ⟨_, _, h3, h4, h5, h6, h7, _, _⟩ := h.fields (p.getLastD 0)
    simp only [Option.map_some, h.prog, h3, h4, h5, h6, h7]

theorem getImportance_eq (h : OwnRefsPerm a a') (st : State) (pp : List Nat) :
    getImportance a' st pp = getImportance a st pp := by
  unfold getImportance
  rw [h.fmt]
  cases st.objPath with
  | none => rfl
  | some p =>
    have : (p.map fun o => (a'.obj o).importance) = p.map fun o => (a.obj o).importance :=
      List.map_congr_left fun o _ => (h.fields o).2.2.2.2.2.2.2.1
    simp only [this]

theorem declItems_eq (h : OwnRefsPerm a a') (st : State) (ap : AllocPack) :
    declItems a' st ap = declItems a st ap := by
  unfold declItems declSingle declHoa
  simp only [h.fmt, h.extraOf_eq, h.getImportance_eq]

theorem stateUids_perm (h : OwnRefsPerm a a') (st : State) : (stateUids a st).Perm (stateUids a' st) := by
  unfold stateUids
  cases st.objPath with
  | none => rw [h.fmt]
  | some p => exact (h.tracks _).filterMap _

end OwnRefsPerm

theorem zipIdx_map_eq_range_map {β : Type} (l : List Nat) (k : Nat × Nat → β) :
    l.zipIdx.map k = (List.range l.length).map fun i => k (l.getD i 0, i) := by
  apply List.ext_getElem
  · simp
  · intro i h1 h2
    simp only [List.length_map, List.length_zipIdx] at h1
    simp [List.getD_eq_getElem?_getD, List.getElem?_eq_getElem h1]

theorem slotTrack_reSlot {f : Formats} {uids uids' : List Nat} {g : Nat → Nat}
    (hg : ∀ i, i < uids.length → uids'[g i]? = uids[i]?) {s : PackAlloc.Slot} (hs : SlotOK uids s) :
    slotTrack f uids' (reSlot g s) = slotTrack f uids s := by
  cases s with
  | none => exact hs.elim
  | some x =>
    cases x with
    | none => rfl
    | some t =>
      simp only [reSlot, Option.map_some, slotTrack, reTrack, List.getD_eq_getElem?_getD, hg t.id hs]

theorem declOutput_reAllocated {f : Formats} {uids uids' : List Nat} {g : Nat → Nat}
    (hg : ∀ i, i < uids.length → uids'[g i]? = uids[i]?) {al : PackAlloc.Allocated}
    (hok : ∀ cs ∈ al.allocation, SlotOK uids cs.2) :
    declOutput f uids' (reAllocated g al) = declOutput f uids al := by
  have hin : inputAlloc f uids' (reAllocated g al) = inputAlloc f uids al := by
    simp only [inputAlloc, reAllocated, List.map_map]
    exact List.map_congr_left fun cs hcs => by simp [slotTrack_reSlot hg (hok cs hcs)]
  unfold declOutput
  rw [hin]
  rfl

theorem OwnRefsPerm.symm {a a' : Adm} (h : OwnRefsPerm a a') : OwnRefsPerm a' a :=
  ⟨h.programmes.symm, h.contents.symm, h.fmt.symm, h.nobj.symm, fun i => (h.core i).symm,
    fun i => (h.packs i).symm, fun i => (h.tracks i).symm⟩

/-- valid allocations of a state correspond when the object's reference lists are re-ordered: `g` sends the
position of a selected track in the old order to its position in the new one. -/
theorem ownRefs_valid {a a' : Adm} (h : OwnRefsPerm a a') (st : State) (wps : List WPack) {g : Nat → Nat}
    (hgp : ((List.range (stateUids a st).length).map g).Perm (List.range (stateUids a' st).length))
    (hgi : ∀ i, i < (stateUids a st).length → (stateUids a' st)[g i]? = (stateUids a st)[i]?)
    {sol : PackAlloc.Sol} (hv : PackAlloc.Valid (allocProblem a st wps).1 sol) :
    PackAlloc.Valid (allocProblem a' st wps).1 (sol.map (reAllocated g)) := by
  obtain ⟨f1, f2, f3, f4⟩ := allocProblem_fields a st wps
  obtain ⟨f1', f2', f3', f4'⟩ := allocProblem_fields a' st wps
  have hleafP : ∀ o o', st.leaf a = some o → st.leaf a' = some o' → o.packs.Perm o'.packs ∧ o.tracks.Perm o'.tracks := by
    intro o o' ho ho'
    unfold State.leaf at ho ho'
    cases hp : st.objPath with
    | none => simp [hp] at ho
    | some p =>
      simp only [hp, Option.map_some, Option.some.injEq] at ho ho'
      subst ho; subst ho'
      exact ⟨h.packs _, h.tracks _⟩
  have hleafN : st.leaf a = none ↔ st.leaf a' = none := by
    unfold State.leaf; cases st.objPath <;> simp
  refine valid_retrack g (by rw [f1, f1']) ?_ ?_ ?_ hv
  · rw [f2, f2', h.fmt, List.map_map, zipIdx_map_eq_range_map, zipIdx_map_eq_range_map]
    have : (fun i => ((reTrack g) ∘ fun (ui : Nat × Nat) =>
          (⟨ui.2, trackChannel a.fmt ui.1, (a.fmt.uid ui.1).pack⟩ : PackAlloc.Track)) ((stateUids a st).getD i 0, i)) =
        fun i => (⟨g i, trackChannel a.fmt ((stateUids a st).getD i 0),
          (a.fmt.uid ((stateUids a st).getD i 0)).pack⟩ : PackAlloc.Track) := rfl
    rw [this]
    have e : (List.range (stateUids a st).length).map (fun i => (⟨g i, trackChannel a.fmt ((stateUids a st).getD i 0),
          (a.fmt.uid ((stateUids a st).getD i 0)).pack⟩ : PackAlloc.Track)) =
        ((List.range (stateUids a st).length).map g).map (fun j => (⟨j, trackChannel a.fmt ((stateUids a' st).getD j 0),
          (a.fmt.uid ((stateUids a' st).getD j 0)).pack⟩ : PackAlloc.Track)) := by
      rw [List.map_map]
      refine List.map_congr_left fun i hi => ?_
      have := hgi i (List.mem_range.1 hi)
      simp only [Function.comp, List.getD_eq_getElem?_getD, this]
    rw [e]
    exact hgp.map _
  · rw [f3, f3']
    cases ho : st.leaf a with
    | none => rw [hleafN.1 ho]; trivial
    | some o =>
      cases ho' : st.leaf a' with
      | none => rw [hleafN.2 ho'] at ho; cases ho
      | some o' => exact (hleafP o o' ho ho').1
  · rw [f4, f4']
    cases ho : st.leaf a with
    | none => rw [hleafN.1 ho]
    | some o =>
      cases ho' : st.leaf a' with
      | none => rw [hleafN.2 ho'] at ho; cases ho
      | some o' => simp only [Option.map_some, Option.getD_some]; exact ((hleafP o o' ho ho').2.count_eq none).symm

theorem reAllocated_pack (g : Nat → Nat) (al : PackAlloc.Allocated) : (reAllocated g al).pack = al.pack := rfl

theorem ownRefs_valid_dropEmpty {a a' : Adm} (h : OwnRefsPerm a a') (st : State) (wps : List WPack) {g : Nat → Nat}
    (hgp : ((List.range (stateUids a st).length).map g).Perm (List.range (stateUids a' st).length))
    (hgi : ∀ i, i < (stateUids a st).length → (stateUids a' st)[g i]? = (stateUids a st)[i]?)
    {sol : PackAlloc.Sol} (hv : PackAlloc.Valid (PackAlloc.dropEmpty (allocProblem a st wps).1) sol) :
    PackAlloc.Valid (PackAlloc.dropEmpty (allocProblem a' st wps).1) (sol.map (reAllocated g)) := by
  obtain ⟨hv1, hv2⟩ := (valid_dropEmpty_iff' _ _).1 hv
  refine (valid_dropEmpty_iff' _ _).2 ⟨ownRefs_valid h st wps hgp hgi hv1, fun al hal => ?_⟩
  obtain ⟨al0, hal0, rfl⟩ := List.mem_map.1 hal
  exact hv2 al0 hal0

/-- moving the tracks there and back gives the allocation back. -/
theorem reAllocated_inv {g k : Nat → Nat} {al : PackAlloc.Allocated}
    (h : ∀ cs ∈ al.allocation, ∀ t, cs.2 = some (some t) → g (k t.id) = t.id) :
    reAllocated g (reAllocated k al) = al := by
  obtain ⟨pk, allocation⟩ := al
  simp only [reAllocated, List.map_map, PackAlloc.Allocated.mk.injEq, true_and]
  simp only at h
  conv => rhs; rw [← List.map_id allocation]
  refine List.map_congr_left fun cs hcs => ?_
  obtain ⟨c, s⟩ := cs
  cases s with
  | none => rfl
  | some x =>
    cases x with
    | none => rfl
    | some t =>
      have := h _ hcs t rfl
      simp only [Function.comp, reSlot, Option.map_some, reTrack, this, id]

/-- the identities of the real tracks of a valid allocation are positions of the selected-track list. -/
theorem valid_track_id_lt {a : Adm} {st : State} {wps : List WPack} {sol : PackAlloc.Sol}
    (hv : PackAlloc.Valid (allocProblem a st wps).1 sol) {al : PackAlloc.Allocated} (hal : al ∈ sol)
    {cs : PackAlloc.Channel × PackAlloc.Slot} (hcs : cs ∈ al.allocation) {t : PackAlloc.Track}
    (ht : cs.2 = some (some t)) : t.id < (stateUids a st).length := by
  have hmem : t ∈ PackAlloc.realTracks sol := by
    simp only [PackAlloc.realTracks, PackAlloc.filled, PackAlloc.slots, List.mem_filterMap, List.mem_flatMap, id]
    exact ⟨some t, ⟨cs, ⟨al, hal, hcs⟩, ht⟩, rfl⟩
  have := hv.tracks.mem_iff.1 hmem
  rw [(allocProblem_fields a st wps).2.1] at this
  obtain ⟨ui, hui, rfl⟩ := List.mem_map.1 this
  have := (List.mem_zipIdx hui).2.1
  simpa using this

theorem inputAlloc_reAllocated {f : Formats} {uids uids' : List Nat} {g : Nat → Nat}
    (hg : ∀ i, i < uids.length → uids'[g i]? = uids[i]?) {al : PackAlloc.Allocated}
    (hok : ∀ cs ∈ al.allocation, SlotOK uids cs.2) :
    inputAlloc f uids' (reAllocated g al) = inputAlloc f uids al := by
  simp only [inputAlloc, reAllocated, List.map_map]
  exact List.map_congr_left fun cs hcs => by simp [slotTrack_reSlot hg (hok cs hcs)]

theorem outputOK_reAllocated {f : Formats} {uids uids' : List Nat} {g : Nat → Nat}
    (hg : ∀ i, i < uids.length → uids'[g i]? = uids[i]?) (hlt : ∀ i, i < uids.length → g i < uids'.length)
    {al : PackAlloc.Allocated} (hok : OutputOK f uids al) : OutputOK f uids' (reAllocated g al) := by
  refine ⟨?_, ?_⟩
  · intro cs hcs
    simp only [reAllocated, List.mem_map] at hcs
    obtain ⟨cs0, hcs0, rfl⟩ := hcs
    have := hok.1 cs0 hcs0
    cases hs : cs0.2 with
    | none => rw [hs] at this; exact this.elim
    | some x =>
      cases x with
      | none => trivial
      | some t => rw [hs] at this; exact hlt _ this
  · rw [inputAlloc_reAllocated hg hok.1]
    exact hok.2

theorem OwnRefsPerm.itemsOfPack_eq {a a' : Adm} (h : OwnRefsPerm a a') (st : State) (ap : AllocPack) :
    itemsOfPack a' st ap = itemsOfPack a st ap := by
  have hged : ∀ ppc ch, getExtraData a' st ppc ch = getExtraData a st ppc ch := by
    intro ppc ch; unfold getExtraData; simp only [h.fmt, h.extraOf_eq]
  have hsingle : ∀ ty p, singleItem a' st ty p = singleItem a st ty p := by
    intro ty p; funext ct; unfold singleItem; simp only [h.fmt, hged, h.getImportance_eq]
  have hhoa : hoaItem a' st ap = hoaItem a st ap := by
    unfold hoaItem; simp only [h.fmt, hged, h.getImportance_eq]
  unfold itemsOfPack
  simp only [h.fmt, hhoa, hsingle]

/-- per state: the per-state pipeline succeeds on the re-ordered document whenever it does on the original,
and the items are a permutation. -/
theorem ownRefsPerm_itemsOfState {a a' : Adm} (h : OwnRefsPerm a a') (hmt : multitreeOK a.fmt = true) {st : State}
    {its : List Item} (hs : itemsOfState a st = .ok its) :
    ∃ its', itemsOfState a' st = .ok its' ∧ its.Perm its' := by
  have hmt' : multitreeOK a'.fmt = true := by rw [h.fmt]; exact hmt
  obtain ⟨g, k, hgp, hkp, hgi, hki, _, hgk⟩ := perm_index_maps (h.stateUids_perm st)
  have hglt : ∀ i, i < (stateUids a st).length → g i < (stateUids a' st).length := fun i hlt =>
    List.mem_range.1 (hgp.mem_iff.1 (List.mem_map.2 ⟨i, List.mem_range.2 hlt, rfl⟩))
  -- the model's pipeline on `a`
  have hs0 := hs
  unfold itemsOfState at hs
  cases hm : selectPackMapping a st with
  | error e => simp [hm] at hs
  | ok packs =>
    simp only [hm] at hs
    unfold selectPackMapping at hm
    cases hw : wrappedPacks a.fmt with
    | error e => simp [hw] at hm
    | ok wps =>
      simp only [hw] at hm
      cases hsel : PackAlloc.selectPackMapping (allocProblem a st wps).1 with
      | conflicting => simp [hsel] at hm
      | ambiguous => simp [hsel] at hm
      | accepted sol =>
        simp only [hsel, allocProblem_uids] at hm
        obtain ⟨hok, rfl⟩ := (mapE_ok_iff_of_pointwise (outputOf_ok_iff a.fmt (stateUids a st)) sol packs).1 hm
        have hselD := hsel
        rw [← PackAlloc.selectPackMapping_dropEmpty] at hselD
        obtain ⟨hvD, huD⟩ := PackAlloc.select_accepted_unique _ (allocWF0_of_multitree hmt wps st hw) sol hselD
        -- acceptance on `a'`
        have hw' : wrappedPacks a'.fmt = .ok wps := by rw [h.fmt]; exact hw
        have hwf' := allocWF0_of_multitree hmt' wps st hw'
        have hvD' := ownRefs_valid_dropEmpty h st wps hgp hgi hvD
        have huniq : ∀ s'', PackAlloc.Valid (PackAlloc.dropEmpty (allocProblem a' st wps).1) s'' →
            PackAlloc.SolEquiv (sol.map (reAllocated g)) s'' := by
          intro s'' hv''
          have hvk := ownRefs_valid_dropEmpty h.symm st wps hkp hki hv''
          have heq : PackAlloc.SolEquiv sol (s''.map (reAllocated k)) := huD _ hvk
          have hback : (s''.map (reAllocated k)).map (reAllocated g) = s'' := by
            rw [List.map_map]
            conv => rhs; rw [← List.map_id s'']
            refine List.map_congr_left fun al hal => ?_
            refine reAllocated_inv fun cs hcs t ht => hgk _ ?_
            exact valid_track_id_lt ((valid_dropEmpty_iff' _ _).1 hv'').1 hal hcs ht
          have := List.Perm.map (reAllocated g) heq
          rw [hback] at this
          exact this
        obtain ⟨s', hs'⟩ := (PackAlloc.select_accepted_iff_unique_valid _ hwf').2 ⟨_, hvD', huniq⟩
        have hequiv : PackAlloc.SolEquiv s' (sol.map (reAllocated g)) :=
          (PackAlloc.select_accepted_unique _ hwf' s' hs').2 _ hvD'
        rw [PackAlloc.selectPackMapping_dropEmpty] at hs'
        -- outputs and items on `a'`
        have hmemS : ∀ al' ∈ s', ∃ al ∈ sol, al' = reAllocated g al := by
          intro al' hal'
          obtain ⟨al, hal, e⟩ := List.mem_map.1 (hequiv.mem_iff.1 hal')
          exact ⟨al, hal, e.symm⟩
        have hout : mapE (outputOf a'.fmt (stateUids a' st)) s' =
            .ok (s'.map (declOutput a'.fmt (stateUids a' st))) := by
          refine (mapE_ok_iff_of_pointwise (outputOf_ok_iff a'.fmt (stateUids a' st)) s' _).2 ⟨fun al' hal' => ?_, rfl⟩
          obtain ⟨al, hal, rfl⟩ := hmemS al' hal'
          rw [h.fmt]
          exact outputOK_reAllocated hgi hglt (hok al hal)
        obtain ⟨hall, rfl⟩ := (flatMapE_ok_iff _ _ _).1 hs
        have hitems : ∀ ap' ∈ s'.map (declOutput a'.fmt (stateUids a' st)),
            ∃ al ∈ sol, ap' = declOutput a.fmt (stateUids a st) al ∧
              ∃ zs, itemsOfPack a' st ap' = .ok zs := by
          intro ap' hap'
          obtain ⟨al', hal', rfl⟩ := List.mem_map.1 hap'
          obtain ⟨al, hal, rfl⟩ := hmemS al' hal'
          have e : declOutput a'.fmt (stateUids a' st) (reAllocated g al) = declOutput a.fmt (stateUids a st) al := by
            rw [h.fmt]; exact declOutput_reAllocated hgi (hok al hal).1
          refine ⟨al, hal, e, ?_⟩
          rw [e, h.itemsOfPack_eq]
          exact hall _ (List.mem_map.2 ⟨al, hal, rfl⟩)
        have hs'2 : itemsOfState a' st =
            .ok ((s'.map (declOutput a'.fmt (stateUids a' st))).flatMap (okVal (itemsOfPack a' st))) := by
          unfold itemsOfState selectPackMapping
          simp only [hw', hs', allocProblem_uids, hout]
          exact (flatMapE_ok_iff _ _ _).2 ⟨fun ap' hap' => by
            obtain ⟨_, _, _, hz⟩ := hitems ap' hap'
            exact hz, rfl⟩
        refine ⟨_, hs'2, ?_⟩
        -- the items
        have hfun : okVal (itemsOfPack a' st) = okVal (itemsOfPack a st) := by
          funext ap; simp only [okVal, h.itemsOfPack_eq]
        rw [hfun]
        have hmapped : (sol.map (reAllocated g)).map (declOutput a'.fmt (stateUids a' st)) =
            sol.map (declOutput a.fmt (stateUids a st)) := by
          rw [List.map_map]
          refine List.map_congr_left fun al hal => ?_
          simp only [Function.comp, h.fmt]
          exact declOutput_reAllocated hgi (hok al hal).1
        rw [← hmapped]
        exact ((hequiv.map _).flatMap_right _).symm

/-- **select_perm_own_refs**: re-ordering the audioPackFormat references and the audioTrackUID references
(silent ones included) inside audioObjects does not change whether selection succeeds, and permutes the
selected items: the items do not depend on the order in which an object lists its packs and tracks. -/
theorem select_perm_own_refs {a a' : Adm} (h : OwnRefsPerm a a') (hmt : multitreeOK a.fmt = true)
    (given : Option Nat) (sel : List Nat) {items : List Item}
    (hs : selectRenderingItems a given sel = .ok items) :
    ∃ items', selectRenderingItems a' given sel = .ok items' ∧ items.Perm items' := by
  rw [select_eq_spec] at hs ⊢
  unfold specSelect at hs ⊢
  rw [h.selectComplementary_eq, selectProgramme_congr (a := a) (a' := a') (by rw [h.programmes]) given, h.fmt]
  cases hw : wrappedPacks a.fmt with
  | error e => simp [hw] at hs
  | ok wps =>
    simp only [hw] at hs ⊢
    cases hc : selectComplementary a sel with
    | error e => simp [hc] at hs
    | ok ign =>
      simp only [hc, h.specStates_eq] at hs ⊢
      have hs1 : flatMapE (itemsOfState a) (specStates a (selectProgramme a given) ign) = .ok items := hs
      show ∃ items', flatMapE (itemsOfState a') (specStates a (selectProgramme a given) ign) = .ok items' ∧ _
      obtain ⟨hall, rfl⟩ := (flatMapE_ok_iff _ _ _).1 hs1
      have hall' : ∀ st ∈ specStates a (selectProgramme a given) ign, ∃ its', itemsOfState a' st = .ok its' := by
        intro st hst
        obtain ⟨its, hits⟩ := hall st hst
        obtain ⟨its', hits', _⟩ := ownRefsPerm_itemsOfState h hmt hits
        exact ⟨its', hits'⟩
      refine ⟨_, (flatMapE_ok_iff _ _ _).2 ⟨hall', rfl⟩, ?_⟩
      refine perm_flatMap_congr (.refl _) fun st hst => ?_
      obtain ⟨its, hits⟩ := hall st hst
      obtain ⟨its', hits', hperm⟩ := ownRefsPerm_itemsOfState h hmt hits
      simpa [okVal, hits, hits'] using hperm

/-! ## re-numbering the audioContents (declaration order) -/

/-- `a'` is `a` with the audioContents re-declared in another order: content `c` of `a` is content `ρ c` of
`a'`, the audioProgrammes' content references remapped; everything else unchanged. -/
structure ContRenamed (ρ : Nat → Nat) (a a' : Adm) : Prop where
  objects : a'.objects = a.objects
  fmt : a'.fmt = a.fmt
  programmes : a'.programmes = a.programmes.map fun p => { p with contents := p.contents.map ρ }
  cont : ∀ c, c < a.contents.length → a'.cont (ρ c) = a.cont c
  refs : ∀ p ∈ a.programmes, ∀ c ∈ p.contents, c < a.contents.length

def renStateC (ρ : Nat → Nat) (st : State) : State := { st with content := st.content.map ρ }
def renItemC (ρ : Nat → Nat) (it : Item) : Item := { it with content := it.content.map ρ }

namespace ContRenamed
variable {ρ : Nat → Nat} {a a' : Adm}

theorem obj (h : ContRenamed ρ a a') (i : Nat) : a'.obj i = a.obj i := by unfold Adm.obj; rw [h.objects]

theorem prog (h : ContRenamed ρ a a') (p : Nat) :
    a'.prog p = { a.prog p with contents := (a.prog p).contents.map ρ } := by
  unfold Adm.prog
  rw [h.programmes]
  exact getD_map_default (fun p : Programme => { p with contents := p.contents.map ρ }) a.programmes p default

theorem prog_refs (h : ContRenamed ρ a a') (p : Nat) : ∀ c ∈ (a.prog p).contents, c < a.contents.length := by
  intro c hc
  unfold Adm.prog at hc
  rcases getD_mem_or_default a.programmes p default with hm | hd
  · exact h.refs _ hm c hc
  · rw [hd] at hc; cases hc

theorem keys (h : ContRenamed ρ a a') : a'.programmes.map (·.idKey) = a.programmes.map (·.idKey) := by
  rw [h.programmes, List.map_map]; rfl

theorem selectComplementary_eq (h : ContRenamed ρ a a') (sel : List Nat) :
    selectComplementary a' sel = selectComplementary a sel := by
  have hroots : compRoots a' = compRoots a := by
    unfold compRoots; simp only [h.objects, h.obj]
  have hg : compGroup a' = compGroup a := by
    funext r; unfold compGroup; rw [h.obj]
  unfold Earverif.Adm.selectComplementary compAllSelected
  simp only [hroots, hg]

theorem specPaths_eq (h : ContRenamed ρ a a') (ign : List Nat) (r : Nat) : specPaths a' ign r = specPaths a ign r := by
  have : a'.subs = a.subs := by funext i; unfold Adm.subs; rw [h.obj]
  unfold specPaths objectPathsFrom; rw [this, h.objects]

theorem specStates_eq (h : ContRenamed ρ a a') (prog : Option Nat) (ign : List Nat) :
    specStates a' prog ign = (specStates a prog ign).map (renStateC ρ) := by
  have hroot : rootObjects a' = rootObjects a := by unfold rootObjects; rw [h.objects]
  have hnp : a'.programmes = [] ↔ a.programmes = [] := by
    rw [h.programmes]; exact List.map_eq_nil_iff
  unfold specStates
  simp only [hnp, h.objects]
  split
  · rfl
  · cases prog with
    | none =>
      simp only [hroot, h.specPaths_eq, List.map_flatMap, List.map_map]
      rfl
    | some p =>
      simp only [h.prog, List.flatMap_map, List.map_flatMap, List.map_map, h.specPaths_eq]
      refine flatMap_congr' fun c hc => ?_
      rw [h.cont c (h.prog_refs p c hc)]
      rfl

theorem getAvs_eq (h : ContRenamed ρ a a') {st : State} (hc : ∀ c, st.content = some c → c < a.contents.length) :
    getAvs a' (renStateC ρ st) = getAvs a st := by
  have hleaf : (renStateC ρ st).leaf a' = st.leaf a := by
    unfold State.leaf renStateC; simp only [h.obj]
  unfold getAvs
  rw [hleaf]
  cases st.leaf a with
  | none => rfl
  | some o =>
    obtain ⟨pr, co, op⟩ := st
    cases co with
    | none => cases pr <;> simp only [renStateC, Option.map_none, h.prog]
    | some c =>
      have hcc := h.cont c (hc c rfl)
      cases pr <;> simp only [renStateC, Option.map_some, h.prog, hcc]

theorem extraOf_eq (h : ContRenamed ρ a a') {st : State} (hc : ∀ c, st.content = some c → c < a.contents.length)
    (ch : Option Nat) (ad : Option Rat) : extraOf a' (renStateC ρ st) ch ad = extraOf a st ch ad := by
  have hleaf : (renStateC ρ st).leaf a' = st.leaf a := by
    unfold State.leaf renStateC; simp only [h.obj]
  unfold extraOf
  rw [h.getAvs_eq hc, hleaf, h.fmt]
  have : (renStateC ρ st).programme = st.programme := rfl
  rw [this]
  cases st.programme <;> simp only [h.prog]

theorem getImportance_eq (h : ContRenamed ρ a a') (st : State) (pp : List Nat) :
    getImportance a' (renStateC ρ st) pp = getImportance a st pp := by
  unfold getImportance renStateC
  simp only [h.fmt, h.obj]

theorem itemsOfPack (h : ContRenamed ρ a a') {st : State} (hc : ∀ c, st.content = some c → c < a.contents.length)
    (ap : AllocPack) :
    itemsOfPack a' (renStateC ρ st) ap = (itemsOfPack a st ap).map (List.map (renItemC ρ)) := by
  have hged : ∀ ppc ch, getExtraData a' (renStateC ρ st) ppc ch = getExtraData a st ppc ch := by
    intro ppc ch; unfold getExtraData; simp only [h.fmt, h.extraOf_eq hc]
  have hsingle : ∀ ty p ct, singleItem a' (renStateC ρ st) ty p ct = (singleItem a st ty p ct).map (renItemC ρ) := by
    intro ty p ct
    unfold singleItem
    simp only [h.fmt, hged, h.getImportance_eq]
    cases getPackFormatPath a.fmt p ct.1 with
    | error e => rfl
    | ok pp =>
      simp only
      cases getExtraData a st [(pp, ct.1)] (some ct.1) with
      | error e => rfl
      | ok ex => rfl
  have hhoa : hoaItem a' (renStateC ρ st) ap = (hoaItem a st ap).map (renItemC ρ) := by
    unfold hoaItem
    simp only [h.fmt, hged, h.getImportance_eq]
    cases mapE (hoaPathOf a.fmt ap.pack) ap.alloc with
    | error e => rfl
    | ok ppc =>
      simp only
      cases hoaMetaOf a.fmt ppc with
      | error e => rfl
      | ok hm =>
        simp only
        cases getExtraData a st ppc none with
        | error e => rfl
        | ok ex => rfl
  unfold Earverif.Adm.itemsOfPack
  simp only [h.fmt]
  split
  · exact mapE_map_comm fun ct _ => hsingle _ _ ct
  · split
    · rw [hhoa]
      cases hoaItem a st ap <;> rfl
    · rfl

theorem itemsOfState (h : ContRenamed ρ a a') {st : State} (hc : ∀ c, st.content = some c → c < a.contents.length) :
    itemsOfState a' (renStateC ρ st) = (itemsOfState a st).map (List.map (renItemC ρ)) := by
  have hprob : ∀ wps, allocProblem a' (renStateC ρ st) wps = allocProblem a st wps := by
    intro wps; unfold allocProblem renStateC; simp only [h.fmt, h.obj]
  have hmap : selectPackMapping a' (renStateC ρ st) = selectPackMapping a st := by
    unfold selectPackMapping; simp only [h.fmt, hprob]
  unfold Earverif.Adm.itemsOfState
  rw [hmap]
  cases selectPackMapping a st with
  | error e => rfl
  | ok packs => exact flatMapE_map_comm fun ap _ => h.itemsOfPack hc ap

end ContRenamed

theorem specStates_content_lt {a : Adm} {ρ : Nat → Nat} {a' : Adm} (h : ContRenamed ρ a a') {prog : Option Nat}
    {ign : List Nat} {st : State} (hst : st ∈ specStates a prog ign) :
    ∀ c, st.content = some c → c < a.contents.length := by
  unfold specStates at hst
  split at hst
  · simp only [List.mem_singleton] at hst; subst hst; intro c hc; cases hc
  · cases prog with
    | none =>
      simp only [List.mem_flatMap, List.mem_map] at hst
      obtain ⟨_, _, _, _, rfl⟩ := hst
      intro c hc; cases hc
    | some p =>
      simp only [List.mem_flatMap, List.mem_map] at hst
      obtain ⟨c0, hc0, _, _, _, _, rfl⟩ := hst
      intro c hc
      cases hc
      exact h.prog_refs p c0 hc0

/-- **select_renumber_contents**: re-declaring the audioContents in another order (references remapped)
gives the same result — the same items in the same order with the content index renamed, or the same
error. -/
theorem select_renumber_contents {ρ : Nat → Nat} {a a' : Adm} (h : ContRenamed ρ a a') (given : Option Nat)
    (sel : List Nat) :
    selectRenderingItems a' given sel = (selectRenderingItems a given sel).map (List.map (renItemC ρ)) := by
  rw [select_eq_spec, select_eq_spec]
  unfold specSelect
  rw [h.fmt, h.selectComplementary_eq, selectProgramme_congr h.keys]
  cases wrappedPacks a.fmt with
  | error e => rfl
  | ok wps =>
    simp only
    cases selectComplementary a sel with
    | error e => rfl
    | ok ign =>
      simp only
      rw [h.specStates_eq]
      show flatMapE (itemsOfState a') ((specStates a (selectProgramme a given) ign).map (renStateC ρ)) =
        (flatMapE (itemsOfState a) (specStates a (selectProgramme a given) ign)).map (List.map (renItemC ρ))
      rw [flatMapE_map]
      exact flatMapE_map_comm fun st hst => h.itemsOfState (specStates_content_lt h hst)

/-! ## re-numbering the audioProgrammes (declaration order) -/

/-- `a'` is `a` with the audioProgrammes re-declared in another order: programme `p` of `a` is programme
`ρ p` of `a'`; everything else unchanged. -/
structure ProgRenamed (ρ : Nat → Nat) (a a' : Adm) : Prop where
  objects : a'.objects = a.objects
  contents : a'.contents = a.contents
  fmt : a'.fmt = a.fmt
  perm : a'.programmes.Perm a.programmes
  prog : ∀ p, p < a.programmes.length → a'.prog (ρ p) = a.prog p
  lt : ∀ p, p < a.programmes.length → ρ p < a.programmes.length
  /-- audioProgramme ids are distinct -/
  ids : (a.programmes.map (·.idKey)).Nodup

def renStateP (ρ : Nat → Nat) (st : State) : State := { st with programme := st.programme.map ρ }
def renItemP (ρ : Nat → Nat) (it : Item) : Item := { it with programme := it.programme.map ρ }

namespace ProgRenamed
variable {ρ : Nat → Nat} {a a' : Adm}

theorem obj (h : ProgRenamed ρ a a') (i : Nat) : a'.obj i = a.obj i := by unfold Adm.obj; rw [h.objects]
theorem cont (h : ProgRenamed ρ a a') (c : Nat) : a'.cont c = a.cont c := by unfold Adm.cont; rw [h.contents]
theorem nprog (h : ProgRenamed ρ a a') : a'.programmes.length = a.programmes.length := h.perm.length_eq

theorem selectComplementary_eq (h : ProgRenamed ρ a a') (sel : List Nat) :
    selectComplementary a' sel = selectComplementary a sel := by
  have hroots : compRoots a' = compRoots a := by
    unfold compRoots; simp only [h.objects, h.obj]
  have hg : compGroup a' = compGroup a := by
    funext r; unfold compGroup; rw [h.obj]
  unfold Earverif.Adm.selectComplementary compAllSelected
  simp only [hroots, hg]

theorem minByIdGo_some_ne_none : ∀ (l : List Programme) (i : Nat) (b : Nat × Nat), minByIdGo l i (some b) ≠ none := by
  intro l
  induction l with
  | nil => intro i b; simp [minByIdGo]
  | cons x xs ih => intro i b; obtain ⟨bi, bk⟩ := b; simp only [minByIdGo]; split <;> exact ih _ _

theorem selectProgramme_none_eq_none_iff (a : Adm) : selectProgramme a none = none ↔ a.programmes = [] := by
  rw [Earverif.Adm.selectProgramme_none]
  unfold minById
  cases a.programmes with
  | nil => simp [minByIdGo]
  | cons p ps =>
    have : minByIdGo (p :: ps) 0 none = minByIdGo ps (0 + 1) (some (0, p.idKey)) := rfl
    rw [this]
    simp only [Option.map_eq_none_iff, reduceCtorEq, iff_false]
    exact minByIdGo_some_ne_none _ _ _

/-- the programme chosen without an explicit choice is the same element (lowest id), at its new position. -/
theorem selectProgramme_none (h : ProgRenamed ρ a a') :
    selectProgramme a' none = (selectProgramme a none).map ρ := by
  have hids' : (a'.programmes.map (·.idKey)).Nodup := (h.perm.map _).nodup_iff.2 h.ids
  cases hs : selectProgramme a none with
  | none =>
    have hnil := (selectProgramme_none_eq_none_iff a).1 hs
    have hnil' : a'.programmes = [] := List.length_eq_zero_iff.1 (by rw [h.nprog, hnil]; rfl)
    exact (selectProgramme_none_eq_none_iff a').2 hnil'
  | some i =>
    obtain ⟨hi, _⟩ := select_programme_lowest_id hs
    cases hs' : selectProgramme a' none with
    | none =>
      exfalso
      have hnil' := (selectProgramme_none_eq_none_iff a').1 hs'
      have := h.nprog
      rw [hnil'] at this
      simp only [List.length_nil] at this
      omega
    | some i' =>
      obtain ⟨hi', _⟩ := select_programme_lowest_id hs'
      have he := select_programme_order_independent h.perm h.ids hs hs'
      have he2 := h.prog i hi
      simp only [Option.map_some, Option.some.injEq]
      have hlt : ρ i < a'.programmes.length := by rw [h.nprog]; exact h.lt i hi
      have hkey : (a'.programmes.map (·.idKey))[i']? = (a'.programmes.map (·.idKey))[ρ i]? := by
        have e1 : a'.programmes[i']? = some (a'.prog i') := by
          unfold Adm.prog; simp [List.getD_eq_getElem?_getD, List.getElem?_eq_getElem hi']
        have e2 : a'.programmes[ρ i]? = some (a'.prog (ρ i)) := by
          unfold Adm.prog; simp [List.getD_eq_getElem?_getD, List.getElem?_eq_getElem hlt]
        simp only [List.getElem?_map, e1, e2, he, he2]
      have hi'' : i' < (a'.programmes.map (·.idKey)).length := by simpa using hi'
      exact (List.getElem?_inj hi'' hids').1 hkey

theorem selectProgramme_eq (h : ProgRenamed ρ a a') (given : Option Nat) :
    selectProgramme a' (given.map ρ) = (selectProgramme a given).map ρ := by
  cases given with
  | none => exact h.selectProgramme_none
  | some p => rfl

theorem specPaths_eq (h : ProgRenamed ρ a a') (ign : List Nat) (r : Nat) : specPaths a' ign r = specPaths a ign r := by
  have : a'.subs = a.subs := by funext i; unfold Adm.subs; rw [h.obj]
  unfold specPaths objectPathsFrom; rw [this, h.objects]

theorem specStates_eq (h : ProgRenamed ρ a a') {prog : Option Nat} (hp : ∀ p, prog = some p → p < a.programmes.length)
    (ign : List Nat) : specStates a' (prog.map ρ) ign = (specStates a prog ign).map (renStateP ρ) := by
  have hroot : rootObjects a' = rootObjects a := by unfold rootObjects; rw [h.objects]
  have hnp : a'.programmes = [] ↔ a.programmes = [] := by
    rw [← List.length_eq_zero_iff, ← List.length_eq_zero_iff, h.nprog]
  unfold specStates
  simp only [hnp, h.objects]
  split
  · rfl
  · cases prog with
    | none =>
      simp only [Option.map_none, hroot, h.specPaths_eq, List.map_flatMap, List.map_map]
      rfl
    | some p =>
      simp only [Option.map_some, h.prog p (hp p rfl), h.cont, List.map_flatMap, List.map_map, h.specPaths_eq]
      rfl

theorem getAvs_eq (h : ProgRenamed ρ a a') {st : State} (hp : ∀ p, st.programme = some p → p < a.programmes.length) :
    getAvs a' (renStateP ρ st) = getAvs a st := by
  have hleaf : (renStateP ρ st).leaf a' = st.leaf a := by
    unfold State.leaf renStateP; simp only [h.obj]
  unfold getAvs
  rw [hleaf]
  cases st.leaf a with
  | none => rfl
  | some o =>
    obtain ⟨pr, co, op⟩ := st
    cases pr with
    | none => cases co <;> simp only [renStateP, Option.map_none, h.cont]
    | some p =>
      have hpp := h.prog p (hp p rfl)
      cases co <;> simp only [renStateP, Option.map_some, h.cont, hpp]

theorem extraOf_eq (h : ProgRenamed ρ a a') {st : State} (hp : ∀ p, st.programme = some p → p < a.programmes.length)
    (ch : Option Nat) (ad : Option Rat) : extraOf a' (renStateP ρ st) ch ad = extraOf a st ch ad := by
  have hleaf : (renStateP ρ st).leaf a' = st.leaf a := by
    unfold State.leaf renStateP; simp only [h.obj]
  unfold extraOf
  rw [h.getAvs_eq hp, hleaf, h.fmt]
  obtain ⟨pr, co, op⟩ := st
  cases pr with
  | none => rfl
  | some p => simp only [renStateP, Option.map_some, h.prog p (hp p rfl)]

theorem getImportance_eq (h : ProgRenamed ρ a a') (st : State) (pp : List Nat) :
    getImportance a' (renStateP ρ st) pp = getImportance a st pp := by
  unfold getImportance renStateP
  simp only [h.fmt, h.obj]

theorem itemsOfPack (h : ProgRenamed ρ a a') {st : State} (hp : ∀ p, st.programme = some p → p < a.programmes.length)
    (ap : AllocPack) :
    itemsOfPack a' (renStateP ρ st) ap = (itemsOfPack a st ap).map (List.map (renItemP ρ)) := by
  have hged : ∀ ppc ch, getExtraData a' (renStateP ρ st) ppc ch = getExtraData a st ppc ch := by
    intro ppc ch; unfold getExtraData; simp only [h.fmt, h.extraOf_eq hp]
  have hsingle : ∀ ty p ct, singleItem a' (renStateP ρ st) ty p ct = (singleItem a st ty p ct).map (renItemP ρ) := by
    intro ty p ct
    unfold singleItem
    simp only [h.fmt, hged, h.getImportance_eq]
    cases getPackFormatPath a.fmt p ct.1 with
    | error e => rfl
    | ok pp =>
      simp only
      cases getExtraData a st [(pp, ct.1)] (some ct.1) with
      | error e => rfl
      | ok ex => rfl
  have hhoa : hoaItem a' (renStateP ρ st) ap = (hoaItem a st ap).map (renItemP ρ) := by
    unfold hoaItem
    simp only [h.fmt, hged, h.getImportance_eq]
    cases mapE (hoaPathOf a.fmt ap.pack) ap.alloc with
    | error e => rfl
    | ok ppc =>
      simp only
      cases hoaMetaOf a.fmt ppc with
      | error e => rfl
      | ok hm =>
        simp only
        cases getExtraData a st ppc none with
        | error e => rfl
        | ok ex => rfl
  unfold Earverif.Adm.itemsOfPack
  simp only [h.fmt]
  split
  · exact mapE_map_comm fun ct _ => hsingle _ _ ct
  · split
    · rw [hhoa]
      cases hoaItem a st ap <;> rfl
    · rfl

theorem itemsOfState (h : ProgRenamed ρ a a') {st : State} (hp : ∀ p, st.programme = some p → p < a.programmes.length) :
    itemsOfState a' (renStateP ρ st) = (itemsOfState a st).map (List.map (renItemP ρ)) := by
  have hprob : ∀ wps, allocProblem a' (renStateP ρ st) wps = allocProblem a st wps := by
    intro wps; unfold allocProblem renStateP; simp only [h.fmt, h.obj]
  have hmap : selectPackMapping a' (renStateP ρ st) = selectPackMapping a st := by
    unfold selectPackMapping; simp only [h.fmt, hprob]
  unfold Earverif.Adm.itemsOfState
  rw [hmap]
  cases selectPackMapping a st with
  | error e => rfl
  | ok packs => exact flatMapE_map_comm fun ap _ => h.itemsOfPack hp ap

end ProgRenamed
theorem specStates_programme {a : Adm} {prog : Option Nat} {ign : List Nat} {st : State}
    (hst : st ∈ specStates a prog ign) : st.programme = none ∨ st.programme = prog := by
  unfold specStates at hst
  split at hst
  · simp only [List.mem_singleton] at hst; subst hst; exact Or.inl rfl
  · cases prog with
    | none =>
      simp only [List.mem_flatMap, List.mem_map] at hst
      obtain ⟨_, _, _, _, rfl⟩ := hst
      exact Or.inl rfl
    | some p =>
      simp only [List.mem_flatMap, List.mem_map] at hst
      obtain ⟨_, _, _, _, _, _, rfl⟩ := hst
      exact Or.inr rfl

/-- **select_renumber_programmes**: re-declaring the audioProgrammes in another order (distinct ids; the
explicitly chosen programme, if any, named by its new position) gives the same result — the same items in
the same order with the programme index renamed, or the same error. -/
theorem select_renumber_programmes {ρ : Nat → Nat} {a a' : Adm} (h : ProgRenamed ρ a a') (given : Option Nat)
    (hgiven : ∀ p, given = some p → p < a.programmes.length) (sel : List Nat) :
    selectRenderingItems a' (given.map ρ) sel =
      (selectRenderingItems a given sel).map (List.map (renItemP ρ)) := by
  have hsel : ∀ p, selectProgramme a given = some p → p < a.programmes.length := by
    intro p hp
    cases given with
    | none => exact (select_programme_lowest_id hp).1
    | some q => cases hp; exact hgiven _ rfl
  rw [select_eq_spec, select_eq_spec]
  unfold specSelect
  rw [h.fmt, h.selectComplementary_eq, h.selectProgramme_eq]
  cases wrappedPacks a.fmt with
  | error e => rfl
  | ok wps =>
    simp only
    cases selectComplementary a sel with
    | error e => rfl
    | ok ign =>
      simp only
      rw [h.specStates_eq hsel]
      show flatMapE (itemsOfState a') ((specStates a (selectProgramme a given) ign).map (renStateP ρ)) =
        (flatMapE (itemsOfState a) (specStates a (selectProgramme a given) ign)).map (List.map (renItemP ρ))
      rw [flatMapE_map]
      refine flatMapE_map_comm fun st hst => h.itemsOfState fun p hp => ?_
      rcases specStates_programme hst with hn | hs
      · rw [hn] at hp; cases hp
      · rw [hs] at hp; exact hsel p hp


/-! ### `rename` forms and non-vacuity -/

/-- the audioContents re-declared in the order given by `ρ` (`ρinv` its inverse), programme references remapped. -/
def renameContents (ρ ρinv : Nat → Nat) (a : Adm) : Adm :=
  { a with
    programmes := a.programmes.map fun p => { p with contents := p.contents.map ρ },
    contents := (List.range a.contents.length).map fun j => a.cont (ρinv j) }

theorem renameContents_renamed {ρ ρinv : Nat → Nat} {a : Adm} (hwf : a.refsInRange = true)
    (hρ : ((List.range a.contents.length).map ρ).Perm (List.range a.contents.length))
    (hinv : ∀ i, i < a.contents.length → ρinv (ρ i) = i) : ContRenamed ρ a (renameContents ρ ρinv a) := by
  refine ⟨rfl, rfl, rfl, fun c hc => ?_, ?_⟩
  · unfold Adm.cont renameContents
    simp only
    rw [getD_range_map _ _ (perm_lt hρ hc), hinv c hc]
    rfl
  · unfold Adm.refsInRange at hwf
    simp only [Bool.and_eq_true, List.all_eq_true, decide_eq_true_eq] at hwf
    obtain ⟨⟨⟨⟨⟨⟨⟨hp, _⟩, _⟩, _⟩, _⟩, _⟩, _⟩, _⟩ := hwf
    exact hp

/-- the audioProgrammes re-declared in the order given by `ρ` (`ρinv` its inverse). -/
def renameProgrammes (ρinv : Nat → Nat) (a : Adm) : Adm :=
  { a with programmes := (List.range a.programmes.length).map fun j => a.prog (ρinv j) }

theorem range_map_getD {α : Type} (l : List α) (d : α) : (List.range l.length).map (fun i => l.getD i d) = l := by
  apply List.ext_getElem
  · simp
  · intro i h1 h2
    simp only [List.length_map, List.length_range] at h1
    simp [List.getD_eq_getElem?_getD, List.getElem?_eq_getElem h1]

theorem renameProgrammes_renamed {ρ ρinv : Nat → Nat} {a : Adm}
    (hρ : ((List.range a.programmes.length).map ρ).Perm (List.range a.programmes.length))
    (hρinv : ((List.range a.programmes.length).map ρinv).Perm (List.range a.programmes.length))
    (hinv : ∀ i, i < a.programmes.length → ρinv (ρ i) = i)
    (hids : (a.programmes.map (·.idKey)).Nodup) : ProgRenamed ρ a (renameProgrammes ρinv a) := by
  refine ⟨rfl, rfl, rfl, ?_, fun p hp => ?_, fun p hp => perm_lt hρ hp, hids⟩
  · have e : (renameProgrammes ρinv a).programmes = ((List.range a.programmes.length).map ρinv).map a.prog := by
      simp [renameProgrammes, List.map_map, Function.comp_def]
    rw [e]
    refine (hρinv.map _).trans (List.Perm.of_eq ?_)
    unfold Adm.prog
    exact range_map_getD _ _
  · unfold Adm.prog renameProgrammes
    simp only
    rw [getD_range_map _ _ (perm_lt hρ hp), hinv p hp]
    rfl

/-- **select_renumber_contents / _programmes** in `rename` form. -/
theorem select_renumber_contents_rename {ρ ρinv : Nat → Nat} {a : Adm} (hwf : a.refsInRange = true)
    (hρ : ((List.range a.contents.length).map ρ).Perm (List.range a.contents.length))
    (hinv : ∀ i, i < a.contents.length → ρinv (ρ i) = i) (given : Option Nat) (sel : List Nat) :
    selectRenderingItems (renameContents ρ ρinv a) given sel =
      (selectRenderingItems a given sel).map (List.map (renItemC ρ)) :=
  select_renumber_contents (renameContents_renamed hwf hρ hinv) given sel

theorem select_renumber_programmes_rename {ρ ρinv : Nat → Nat} {a : Adm}
    (hρ : ((List.range a.programmes.length).map ρ).Perm (List.range a.programmes.length))
    (hρinv : ((List.range a.programmes.length).map ρinv).Perm (List.range a.programmes.length))
    (hinv : ∀ i, i < a.programmes.length → ρinv (ρ i) = i)
    (hids : (a.programmes.map (·.idKey)).Nodup) (given : Option Nat)
    (hgiven : ∀ p, given = some p → p < a.programmes.length) (sel : List Nat) :
    selectRenderingItems (renameProgrammes ρinv a) (given.map ρ) sel =
      (selectRenderingItems a given sel).map (List.map (renItemP ρ)) :=
  select_renumber_programmes (renameProgrammes_renamed hρ hρinv hinv hids) given hgiven sel

section FmtSuccess
open PackAlloc (Problem Sol Valid WF SolEquiv dropEmpty)

/-! ## re-numbering the format part: success is preserved in both directions -/

/-- a node of the pack/channel graph, renamed. -/
def renNode (m : FmtMaps) : PNode → PNode
  | .pack i => .pack (m.σP i)
  | .chan c => .chan (m.σC c)

theorem nodup_map_of_inj_on {α β : Type} {l : List α} {f : α → β} (hl : l.Nodup)
    (hf : ∀ x ∈ l, ∀ y ∈ l, f x = f y → x = y) : (l.map f).Nodup := by
  unfold List.Nodup at *
  rw [List.pairwise_map]
  exact hl.imp_of_mem (fun hx hy hne h' => hne (hf _ hx _ hy h'))

theorem mtVisit_bounds {f : Formats} (hok : FmtRefsOK f) : ∀ fuel p, p < f.packs.length →
    ∀ n ∈ mtVisit f fuel p, (∀ i, n = .pack i → i < f.packs.length) ∧ (∀ c, n = .chan c → c < f.channels.length)
  | 0, _, _, n, hn => by simp [mtVisit] at hn
  | fuel + 1, p, hp, n, hn => by
    simp only [mtVisit, List.mem_cons, List.mem_append, List.mem_flatMap, List.mem_map] at hn
    rcases hn with rfl | ⟨s, hs, hn⟩ | ⟨c, hc, rfl⟩
    · exact ⟨fun i hi => (by cases hi; exact hp), fun c hc => (by cases hc)⟩
    · exact mtVisit_bounds hok fuel s (hok.subs p s hs) n hn
    · exact ⟨fun i hi => (by cases hi), fun c' hc' => (by cases hc'; exact hok.chans p c hc)⟩

theorem FmtRenamed.mtVisit {m : FmtMaps} {a a' : Adm} (h : FmtRenamed m a a') (hok : FmtRefsOK a.fmt) :
    ∀ fuel p, p < a.fmt.packs.length →
      mtVisit a'.fmt fuel (m.σP p) = (Earverif.Adm.mtVisit a.fmt fuel p).map (renNode m)
  | 0, _, _ => rfl
  | fuel + 1, p, hp => by
    simp only [Earverif.Adm.mtVisit, h.pack p hp, renPack, List.map_cons, List.map_append, List.map_map,
      List.flatMap_map, List.map_flatMap, renNode]
    congr 2
    · exact flatMap_congr' fun s hs => FmtRenamed.mtVisit h hok fuel s (hok.subs p s hs)

/-- the multitree check is invariant under re-numbering of the format part. -/
theorem FmtRenamed.multitreeOK {m : FmtMaps} {a a' : Adm} (h : FmtRenamed m a a') (hok : FmtRefsOK a.fmt)
    (hmt : multitreeOK a.fmt = true) : multitreeOK a'.fmt = true := by
  unfold Earverif.Adm.multitreeOK at hmt ⊢
  simp only [List.all_eq_true, List.mem_range, decide_eq_true_eq] at hmt ⊢
  intro p' hp'
  rw [h.npacks] at hp'
  obtain ⟨p, hpm, rfl⟩ := List.mem_map.1 (h.permP.mem_iff.2 (List.mem_range.2 hp'))
  have hp := List.mem_range.1 hpm
  rw [h.npacks, h.mtVisit hok _ p hp]
  refine nodup_map_of_inj_on (hmt p hp) ?_
  intro x hx y hy hxy
  have bx := mtVisit_bounds hok _ p hp x hx
  have b_y := mtVisit_bounds hok _ p hp y hy
  cases x with
  | pack i =>
    cases y with
    | pack j =>
      simp only [renNode, PNode.pack.injEq] at hxy
      rw [perm_inj h.permP (bx.1 i rfl) (b_y.1 j rfl) hxy]
    | chan c => simp [renNode] at hxy
  | chan c =>
    cases y with
    | pack j => simp [renNode] at hxy
    | chan c' =>
      simp only [renNode, PNode.chan.injEq] at hxy
      rw [perm_inj h.permC (bx.2 c rfl) (b_y.2 c' rfl) hxy]


/-! ### allocation problems that correspond under a renaming with an inverse -/

/-- renaming of indices (`m`) followed by a move of the track identities (`g`). -/
def rrTrack (m : FmtMaps) (g : Nat → Nat) (t : PackAlloc.Track) : PackAlloc.Track := reTrack g (renTrack m t)

def rrAllocated (m : FmtMaps) (g : Nat → Nat) (al : PackAlloc.Allocated) : PackAlloc.Allocated :=
  reAllocated g (renAllocated m al)

/-- `prob'` is `prob` with pack/channel indices renamed by `m` and track identities moved by `g`, the
`AllocationPack`s and tracks listed in any order; `mi`, `k` undo `m`, `g` on everything `prob` mentions. -/
structure ProbIso (m mi : FmtMaps) (g k : Nat → Nat) (prob prob' : Problem) : Prop where
  packs : prob'.packs.Perm (prob.packs.map (renAPack m))
  tracks : (prob.tracks.map (rrTrack m g)).Perm prob'.tracks
  refs : prob'.packRefs = prob.packRefs.map (List.map m.σP)
  silent : prob'.numSilent = prob.numSilent
  invP : ∀ p ∈ prob.packs, renAPack mi (renAPack m p) = p
  invT : ∀ t ∈ prob.tracks, rrTrack mi k (rrTrack m g t) = t
  invR : ∀ r, prob.packRefs = some r → r.map (fun x => mi.σP (m.σP x)) = r

theorem map_eq_self_of {α : Type} {f : α → α} : ∀ {l : List α}, (∀ x ∈ l, f x = x) → l.map f = l
  | [], _ => rfl
  | x :: xs, h => by
    rw [List.map_cons, h x (List.mem_cons_self ..), map_eq_self_of fun y hy => h y (List.mem_cons_of_mem _ hy)]

theorem mem_of_map_eq_self {α : Type} {f : α → α} : ∀ {l : List α}, l.map f = l → ∀ x ∈ l, f x = x
  | [], _, _, hx => by cases hx
  | y :: ys, h, x, hx => by
    simp only [List.map_cons, List.cons.injEq] at h
    rcases List.mem_cons.1 hx with rfl | hx
    · exact h.1
    · exact mem_of_map_eq_self h.2 x hx

namespace ProbIso
variable {m mi : FmtMaps} {g k : Nat → Nat} {prob prob' : Problem}

theorem symm (h : ProbIso m mi g k prob prob') : ProbIso mi m k g prob' prob := by
  have hpk : ∀ p' ∈ prob'.packs, ∃ p ∈ prob.packs, p' = renAPack m p := by
    intro p' hp'
    obtain ⟨p, hp, e⟩ := List.mem_map.1 (h.packs.mem_iff.1 hp')
    exact ⟨p, hp, e.symm⟩
  have htr : ∀ t' ∈ prob'.tracks, ∃ t ∈ prob.tracks, t' = rrTrack m g t := by
    intro t' ht'
    obtain ⟨t, ht, e⟩ := List.mem_map.1 (h.tracks.mem_iff.2 ht')
    exact ⟨t, ht, e.symm⟩
  refine ⟨?_, ?_, ?_, h.silent.symm, ?_, ?_, ?_⟩
  · have := (h.packs.map (renAPack mi)).symm
    rw [List.map_map, map_eq_self_of (f := renAPack mi ∘ renAPack m) (fun p hp => h.invP p hp)] at this
    exact this
  · have := (h.tracks.map (rrTrack mi k)).symm
    rw [List.map_map, map_eq_self_of (f := rrTrack mi k ∘ rrTrack m g) (fun t ht => h.invT t ht)] at this
    exact this
  · rw [h.refs]
    cases hr : prob.packRefs with
    | none => rfl
    | some r =>
      simp only [Option.map_some, List.map_map, Option.some.injEq]
      exact (h.invR r hr).symm
  · intro p' hp'
    obtain ⟨p, hp, rfl⟩ := hpk p' hp'
    rw [h.invP p hp]
  · intro t' ht'
    obtain ⟨t, ht, rfl⟩ := htr t' ht'
    rw [h.invT t ht]
  · intro r' hr'
    rw [h.refs] at hr'
    cases hr : prob.packRefs with
    | none => rw [hr] at hr'; cases hr'
    | some r =>
      rw [hr] at hr'
      simp only [Option.map_some, Option.some.injEq] at hr'
      subst hr'
      rw [List.map_map]
      refine List.map_congr_left fun x hx => ?_
      have := mem_of_map_eq_self (h.invR r hr) x hx
      simp only [Function.comp, this]

/-- a valid allocation of `prob`, renamed, is a valid allocation of `prob'`. -/
theorem valid (h : ProbIso m mi g k prob prob') {sol : Sol} (hv : Valid prob sol) :
    Valid prob' (sol.map (rrAllocated m g)) := by
  let prob1 : Problem := ⟨prob'.packs, prob.tracks.map (renTrack m), prob'.packRefs, prob'.numSilent⟩
  have h1 : Valid prob1 (sol.map (renAllocated m)) := valid_rename m (prob := prob) (prob' := prob1) h.packs rfl h.refs h.silent hv
  have h2 : Valid prob' ((sol.map (renAllocated m)).map (reAllocated g)) := by
    refine valid_retrack g (prob := prob1) (prob' := prob') rfl ?_ ?_ rfl h1
    · show ((prob.tracks.map (renTrack m)).map (reTrack g)).Perm prob'.tracks
      rw [List.map_map]; exact h.tracks
    · show match prob'.packRefs, prob'.packRefs with
        | none, none => True
        | some r, some r' => r.Perm r'
        | _, _ => False
      cases prob'.packRefs with
      | none => trivial
      | some r => exact .refl _
  rw [List.map_map] at h2
  exact h2

theorem rrAllocated_inv (h : ProbIso m mi g k prob prob') {sol : Sol} (hv : Valid prob sol)
    {al : PackAlloc.Allocated} (hal : al ∈ sol) : rrAllocated mi k (rrAllocated m g al) = al := by
  have hpk := h.invP _ (hv.packs_mem al hal)
  have hch : ∀ c ∈ al.pack.channels, renCh mi (renCh m c) = c := by
    have : al.pack.channels.map (renCh mi ∘ renCh m) = al.pack.channels := by
      have := congrArg PackAlloc.Pack.channels hpk
      simpa [renAPack, List.map_map] using this
    exact mem_of_map_eq_self this
  have hchan := hv.channels al hal
  obtain ⟨pk, allocation⟩ := al
  simp only [rrAllocated, reAllocated, renAllocated, List.map_map, PackAlloc.Allocated.mk.injEq]
  simp only at hpk hch hchan
  refine ⟨hpk, ?_⟩
  refine map_eq_self_of fun cs hcs => ?_
  obtain ⟨c, s⟩ := cs
  have hc : c ∈ pk.channels := by rw [← hchan]; exact List.mem_map.2 ⟨(c, s), hcs, rfl⟩
  simp only [Function.comp, Prod.mk.injEq]
  refine ⟨hch c hc, ?_⟩
  cases s with
  | none => rfl
  | some x =>
    cases x with
    | none => rfl
    | some t =>
      have hmem : t ∈ PackAlloc.realTracks sol := by
        simp only [PackAlloc.realTracks, PackAlloc.filled, PackAlloc.slots, List.mem_filterMap, List.mem_flatMap, id]
        exact ⟨some t, ⟨(c, some (some t)), ⟨⟨pk, allocation⟩, hal, hcs⟩, rfl⟩, rfl⟩
      have := h.invT t (hv.tracks.mem_iff.1 hmem)
      simp only [rrTrack] at this
      simp only [reSlot, renSlot, Option.map_some, this]

theorem roundtrip (h : ProbIso m mi g k prob prob') {sol : Sol} (hv : Valid prob sol) :
    (sol.map (rrAllocated m g)).map (rrAllocated mi k) = sol := by
  rw [List.map_map]
  exact map_eq_self_of fun al hal => h.rrAllocated_inv hv hal

/-- `select_pack_mapping` accepts `prob'` whenever it accepts `prob`, with the renamed allocation
(C07 `accept_iff_unique`: validity and uniqueness transfer there and back). -/
theorem accepted (h : ProbIso m mi g k prob prob') (hwf : WF prob) (hwf' : WF prob') {sol : Sol}
    (hs : PackAlloc.selectPackMapping prob = .accepted sol) :
    ∃ sol', PackAlloc.selectPackMapping prob' = .accepted sol' ∧ SolEquiv sol' (sol.map (rrAllocated m g)) := by
  obtain ⟨hv, hu⟩ := PackAlloc.select_accepted_unique prob hwf sol hs
  have hv' := h.valid hv
  have huniq : ∀ s'', Valid prob' s'' → SolEquiv (sol.map (rrAllocated m g)) s'' := by
    intro s'' hv''
    have hback := h.symm.valid hv''
    have := (hu _ hback).map (rrAllocated m g)
    rw [h.symm.roundtrip hv''] at this
    exact this
  obtain ⟨s', hs'⟩ := (PackAlloc.select_accepted_iff_unique_valid prob' hwf').2 ⟨_, hv', huniq⟩
  exact ⟨s', hs', (PackAlloc.select_accepted_unique prob' hwf' s' hs').2 _ hv'⟩

theorem hasChannels_ren (p : PackAlloc.Pack) : PackAlloc.hasChannels (renAPack m p) = PackAlloc.hasChannels p := by
  simp [PackAlloc.hasChannels, renAPack]

/-- the correspondence restricts to the problems without channel-less `AllocationPack`s. -/
theorem dropEmpty (h : ProbIso m mi g k prob prob') : ProbIso m mi g k (dropEmpty prob) (dropEmpty prob') := by
  refine ⟨?_, h.tracks, h.refs, h.silent, fun p hp => h.invP p (List.mem_filter.1 hp).1, h.invT, h.invR⟩
  show (prob'.packs.filter PackAlloc.hasChannels).Perm ((prob.packs.filter PackAlloc.hasChannels).map (renAPack m))
  have := h.packs.filter PackAlloc.hasChannels
  rw [List.filter_map] at this
  have e : (PackAlloc.hasChannels ∘ renAPack m) = PackAlloc.hasChannels := funext fun p => hasChannels_ren p
  rw [e] at this
  exact this

end ProbIso

theorem slots_pfs_bounds {f : Formats} (hok : FmtRefsOK f) {p : Nat} (hp : p < f.packs.length) :
    ∀ s ∈ slots f p, ∀ q ∈ s.1, q < f.packs.length := by
  intro s hs
  simp only [slots, List.mem_flatMap, List.mem_map] at hs
  obtain ⟨path, hpath, ch, _, rfl⟩ := hs
  exact (chain_of_mem_pathsFrom _ _ _ hpath).all_lt (fun i _ => hok.subs i) hp

theorem wrapOne_pfs_bounds {f : Formats} (hok : FmtRefsOK f) {p : Nat} (hp : p < f.packs.length) {ws : List WPack}
    (h : wrapOne f p = .ok ws) : ∀ w ∈ ws, ∀ c ∈ w.channels, ∀ q ∈ c.pfs, q < f.packs.length := by
  have hreg : ∀ q, q < f.packs.length →
      ∀ c ∈ (slots f q).map (fun s => (⟨s.2, s.1⟩ : PackAlloc.Channel)), ∀ x ∈ c.pfs, x < f.packs.length := by
    intro q hq c hc
    obtain ⟨s, hs, rfl⟩ := List.mem_map.1 hc
    exact slots_pfs_bounds hok hq s hs
  have hflat : ∀ q fixed, fixed < f.packs.length →
      ∀ c ∈ (slots f q).map (fun s => (⟨s.2, [fixed]⟩ : PackAlloc.Channel)), ∀ x ∈ c.pfs, x < f.packs.length := by
    intro q fixed hfx c hc x hx
    obtain ⟨s, _, rfl⟩ := List.mem_map.1 hc
    simp only [List.mem_singleton] at hx
    subst hx; exact hfx
  unfold wrapOne at h
  split at h
  · cases h
    intro w hw
    simp only [List.mem_singleton] at hw
    subst hw
    exact hreg p hp
  · unfold wrapMatrix at h
    dsimp only at h
    split at h
    · cases h
      intro w hw
      simp only [List.mem_cons, List.not_mem_nil, or_false] at hw
      rcases hw with rfl | rfl
      · exact hflat _ p hp
      · exact hreg p hp
    · cases h; intro w hw; cases hw
    · split at h
      · rename_i e he
        have hel : e < f.packs.length := hok.enc p e (by rw [he]; simp)
        split at h
        · cases h
          intro w hw
          simp only [List.mem_cons, List.not_mem_nil, or_false] at hw
          rcases hw with rfl | rfl | rfl
          · exact hflat _ p hp
          · exact hreg p hp
          · exact hflat _ e hel
        · cases h
      · cases h
    · cases h

/-- everything an `AllocationPack` of the document mentions is an element of the document. -/
theorem wrappedPacks_all_bounds {f : Formats} (hok : FmtRefsOK f) {wps : List WPack} (h : wrappedPacks f = .ok wps) :
    ∀ w ∈ wps, w.id / 3 < f.packs.length ∧ w.root < f.packs.length ∧
      ∀ c ∈ w.channels, c.cf < f.channels.length ∧ ∀ q ∈ c.pfs, q < f.packs.length := by
  intro w hw
  have hb := wrappedPacks_bounds hok h w hw
  rw [wrappedPacks_eq] at h
  obtain ⟨p, hp, ws, hws, hmem⟩ := flatMapE_mem h hw
  have hp' := List.mem_range.1 hp
  have hsh := (wrapOne_shape hws).1 w hmem
  refine ⟨by rw [hsh.2.1]; exact hp', hb.1, fun c hc => ⟨hb.2 c hc, wrapOne_pfs_bounds hok hp' hws w hmem c hc⟩⟩

theorem renWid_inv {m mi : FmtMaps} {n : Nat} (hi : ∀ i, i < n → mi.σP (m.σP i) = i) {i : Nat} (h : i / 3 < n) :
    renWid mi (renWid m i) = i := by
  unfold renWid
  have h1 : (3 * m.σP (i / 3) + i % 3) / 3 = m.σP (i / 3) := by omega
  have h2 : (3 * m.σP (i / 3) + i % 3) % 3 = i % 3 := by omega
  rw [h1, h2, hi _ h]
  omega

/-- what `refsInRange` says about the references item selection follows into the format part. -/
theorem uidPack_lt {a : Adm} (hwf : a.refsInRange = true) {u : Nat} (hu : u < a.fmt.trackUIDs.length) :
    (a.fmt.uid u).pack < a.fmt.packs.length := by
  unfold Adm.refsInRange at hwf
  simp only [Bool.and_eq_true, List.all_eq_true, decide_eq_true_eq] at hwf
  obtain ⟨_, huid⟩ := hwf
  exact (huid _ (getD_mem_of_lt hu _)).1

theorem objPacks_lt {a : Adm} (hwf : a.refsInRange = true) (i : Nat) : ∀ p ∈ (a.obj i).packs, p < a.fmt.packs.length := by
  unfold Adm.refsInRange at hwf
  simp only [Bool.and_eq_true, List.all_eq_true, decide_eq_true_eq] at hwf
  obtain ⟨⟨⟨⟨⟨⟨⟨_, _⟩, ho⟩, _⟩, _⟩, _⟩, _⟩, _⟩ := hwf
  intro p hp
  unfold Adm.obj at hp
  rcases getD_mem_or_default a.objects i default with hm | hd
  · exact (ho _ hm).1.1.1 p hp
  · rw [hd] at hp; cases hp

/-- the inverse renaming maps: `mi` undoes `m` on the indices of the document. -/
structure FmtInv (m mi : FmtMaps) (f : Formats) : Prop where
  permU : ((List.range f.trackUIDs.length).map m.σU).Perm (List.range f.trackUIDs.length)
  invP : ∀ i, i < f.packs.length → mi.σP (m.σP i) = i
  invC : ∀ i, i < f.channels.length → mi.σC (m.σC i) = i
  invU : ∀ i, i < f.trackUIDs.length → mi.σU (m.σU i) = i

theorem stateUids_lt {a : Adm} (hwf : a.refsInRange = true) (st : State) :
    ∀ u ∈ stateUids a st, u < a.fmt.trackUIDs.length := by
  unfold stateUids
  cases st.objPath with
  | none => intro u hu; exact List.mem_range.1 hu
  | some p =>
    intro u hu
    simp only [List.mem_filterMap, id] at hu
    obtain ⟨x, hx, rfl⟩ := hu
    exact objTracksOK_of_refsInRange hwf _ u hx

theorem allocProblem_tracks_eq (a : Adm) (st : State) (wps : List WPack) :
    (allocProblem a st wps).1.tracks = (List.range (stateUids a st).length).map fun i =>
      (⟨i, trackChannel a.fmt ((stateUids a st).getD i 0), (a.fmt.uid ((stateUids a st).getD i 0)).pack⟩ : PackAlloc.Track) := by
  rw [(allocProblem_fields a st wps).2.1, zipIdx_map_eq_range_map]

/-- per state: the allocation problem of the re-numbered document corresponds to that of the original
(`g` = where the identity of a selected track moves: nowhere for the tracks of an audioObject, to the new
position of the audioTrackUID in CHNA-only mode). -/
theorem fmtRenamed_stateIso {m mi : FmtMaps} {a a' : Adm} (h : FmtRenamed m a a') (hinv : FmtInv m mi a.fmt)
    (hwf : a.refsInRange = true) (st : State) {wps wps' : List WPack} (hw : wrappedPacks a.fmt = .ok wps)
    (hwp : wps'.Perm (wps.map (renW m))) :
    ∃ g k : Nat → Nat,
      ProbIso m mi g k (allocProblem a st wps).1 (allocProblem a' st wps').1 ∧
      (∀ i, i < (stateUids a st).length → g i < (stateUids a' st).length ∧
        (stateUids a' st)[g i]? = ((stateUids a st).map m.σU)[i]?) := by
  have hok := fmtRefsOK_of_refsInRange hwf
  have hul := stateUids_lt hwf st
  -- the `AllocationPack`s
  have hpacks : (allocProblem a' st wps').1.packs.Perm ((allocProblem a st wps).1.packs.map (renAPack m)) := by
    rw [allocProblem_packs, allocProblem_packs]
    refine (hwp.map _).trans ?_
    simp only [List.map_map]
    exact .refl _
  have hinvP : ∀ p ∈ (allocProblem a st wps).1.packs, renAPack mi (renAPack m p) = p := by
    intro p hp
    rw [allocProblem_packs] at hp
    obtain ⟨w, hwm, rfl⟩ := List.mem_map.1 hp
    obtain ⟨b1, b2, b3⟩ := wrappedPacks_all_bounds hok hw w hwm
    simp only [renAPack, List.map_map, PackAlloc.Pack.mk.injEq]
    refine ⟨renWid_inv hinv.invP b1, hinv.invP _ b2, map_eq_self_of fun c hc => ?_⟩
    obtain ⟨cf, pfs⟩ := c
    obtain ⟨c1, c2⟩ := b3 _ hc
    simp only [Function.comp, renCh, List.map_map, PackAlloc.Channel.mk.injEq]
    exact ⟨hinv.invC _ c1, map_eq_self_of fun q hq => hinv.invP q (c2 q hq)⟩
  have hinvR : ∀ r, (allocProblem a st wps).1.packRefs = some r → r.map (fun x => mi.σP (m.σP x)) = r := by
    intro r hr
    rw [(allocProblem_fields a st wps).2.2.1] at hr
    unfold State.leaf at hr
    cases hp : st.objPath with
    | none => simp [hp] at hr
    | some p =>
      simp only [hp, Option.map_some, Option.some.injEq] at hr
      subst hr
      exact map_eq_self_of fun q hq => hinv.invP q (objPacks_lt hwf _ q hq)
  have hinvT : ∀ (g k : Nat → Nat), (∀ i, i < (stateUids a st).length → k (g i) = i) →
      ∀ t ∈ (allocProblem a st wps).1.tracks, rrTrack mi k (rrTrack m g t) = t := by
    intro g k hkg t ht
    rw [allocProblem_tracks_eq] at ht
    obtain ⟨i, hi, rfl⟩ := List.mem_map.1 ht
    have hi' := List.mem_range.1 hi
    have hu : (stateUids a st).getD i 0 < a.fmt.trackUIDs.length := hul _ (getD_mem_of_lt hi' 0)
    simp only [rrTrack, reTrack, renTrack, PackAlloc.Track.mk.injEq]
    exact ⟨hkg i hi', hinv.invC _ (trackChannel_lt hwf hu), hinv.invP _ (uidPack_lt hwf hu)⟩
  cases hp : st.objPath with
  | some p =>
    obtain ⟨_, htr, hrf, hns, hu', _⟩ := h.allocProblem (objTracksOK_of_refsInRange hwf) st hp hwp
    rw [allocProblem_uids, allocProblem_uids] at hu'
    refine ⟨id, id, ⟨hpacks, ?_, hrf, hns, hinvP, hinvT id id (fun _ _ => rfl), hinvR⟩, fun i hi => ?_⟩
    · rw [htr]
      exact .refl _
    · rw [hu']
      exact ⟨by simpa using hi, rfl⟩
  | none =>
    have hu1 : stateUids a st = List.range a.fmt.trackUIDs.length := by simp [stateUids, hp]
    have hu2 : stateUids a' st = List.range a.fmt.trackUIDs.length := by simp [stateUids, hp, h.nuids]
    refine ⟨m.σU, mi.σU, ⟨hpacks, ?_, ?_, ?_, hinvP, hinvT m.σU mi.σU (fun i hi => hinv.invU i (by simpa [hu1] using hi)),
      hinvR⟩, fun i hi => ?_⟩
    · rw [allocProblem_tracks_eq, allocProblem_tracks_eq, hu1, hu2, List.map_map, List.length_range]
      have e : (List.range a.fmt.trackUIDs.length).map (rrTrack m m.σU ∘ fun i =>
            (⟨i, trackChannel a.fmt ((List.range a.fmt.trackUIDs.length).getD i 0),
              (a.fmt.uid ((List.range a.fmt.trackUIDs.length).getD i 0)).pack⟩ : PackAlloc.Track)) =
          ((List.range a.fmt.trackUIDs.length).map m.σU).map fun j =>
            (⟨j, trackChannel a'.fmt ((List.range a.fmt.trackUIDs.length).getD j 0),
              (a'.fmt.uid ((List.range a.fmt.trackUIDs.length).getD j 0)).pack⟩ : PackAlloc.Track) := by
        rw [List.map_map]
        refine List.map_congr_left fun i hi => ?_
        have hi' := List.mem_range.1 hi
        have h1 : (List.range a.fmt.trackUIDs.length).getD i 0 = i := by
          simp [List.getD_eq_getElem?_getD, List.getElem?_range hi']
        have h2 : (List.range a.fmt.trackUIDs.length).getD (m.σU i) 0 = m.σU i := by
          simp [List.getD_eq_getElem?_getD, List.getElem?_range (perm_lt hinv.permU hi')]
        simp only [Function.comp, rrTrack, reTrack, renTrack, h1, h2, h.uidChan i hi', h.uidPack i hi']
      rw [e]
      exact hinv.permU.map _
    · simp [allocProblem, hp]
    · simp [allocProblem, hp]
    · rw [hu1, List.length_range] at hi
      rw [hu2, hu1]
      have := perm_lt hinv.permU hi
      simp [this, hi]


theorem slotSpec_reSlot {f : Formats} {uids' uids'' : List Nat} {g : Nat → Nat} {s : PackAlloc.Slot}
    (hs : ∀ t, s = some (some t) → uids'[g t.id]? = uids''[t.id]?) :
    slotSpec f uids' (reSlot g s) = slotSpec f uids'' s := by
  cases s with
  | none => rfl
  | some x =>
    cases x with
    | none => rfl
    | some t => simp only [reSlot, Option.map_some, slotSpec, reTrack, hs t rfl]

/-- moving the track identities and re-listing the selected audioTrackUIDs accordingly does not change the
output pack / channel allocation. -/
theorem outputOf_reAllocated {f : Formats} {uids' uids'' : List Nat} {g : Nat → Nat} {al : PackAlloc.Allocated}
    (h : ∀ cs ∈ al.allocation, ∀ t, cs.2 = some (some t) → uids'[g t.id]? = uids''[t.id]?) :
    outputOf f uids' (reAllocated g al) = outputOf f uids'' al := by
  have e : mapE (slotEntry f uids') (reAllocated g al).allocation = mapE (slotEntry f uids'') al.allocation := by
    simp only [reAllocated]
    rw [mapE_map]
    refine mapE_congr fun cs hcs => ?_
    simp only [slotEntry, slotSpec_reSlot (h cs hcs)]
  unfold outputOf
  rw [e]
  rfl

theorem except_map_ok {α β : Type} {x : Except Err α} {f : α → β} {y : β} (h : x.map f = .ok y) :
    ∃ z, x = .ok z ∧ y = f z := by
  cases x with
  | error e => cases h
  | ok z => exact ⟨z, rfl, (Except.ok.inj h).symm⟩

theorem FmtRenamed.wrappedPacks_back {m : FmtMaps} {a a' : Adm} (h : FmtRenamed m a a') (hok : FmtRefsOK a.fmt)
    {wps' : List WPack} (hw' : Earverif.Adm.wrappedPacks a'.fmt = .ok wps') :
    ∃ wps, Earverif.Adm.wrappedPacks a.fmt = .ok wps := by
  rw [wrappedPacks_eq] at hw' ⊢
  obtain ⟨hall, _⟩ := (flatMapE_ok_iff _ _ _).1 hw'
  refine ⟨_, (flatMapE_ok_iff _ _ _).2 ⟨fun p hp => ?_, rfl⟩⟩
  have hp' := List.mem_range.1 hp
  obtain ⟨ws', hws'⟩ := hall (m.σP p) (List.mem_range.2 (by rw [h.npacks]; exact perm_lt h.permP hp'))
  rw [h.wrapOne hok hp'] at hws'
  obtain ⟨ws, hws, _⟩ := except_map_ok hws'
  exact ⟨ws, hws⟩

/-- per state: the pipeline `select_pack_mapping` → `_get_rendering_items` succeeds on the re-numbered
document exactly when it does on the original, and then the items are a permutation of the renamed items. -/
theorem fmtRenamed_itemsOfState_iff {m mi : FmtMaps} {a a' : Adm} (h : FmtRenamed m a a')
    (hinv : FmtInv m mi a.fmt) (hwf : a.refsInRange = true) (hmt : multitreeOK a.fmt = true) (st : State) :
    (∀ its, itemsOfState a st = .ok its →
      ∃ its', itemsOfState a' st = .ok its' ∧ its'.Perm (its.map (renItemF m))) ∧
    (∀ its', itemsOfState a' st = .ok its' → ∃ its, itemsOfState a st = .ok its) := by
  have hok := fmtRefsOK_of_refsInRange hwf
  have hmt' := h.multitreeOK hok hmt
  cases hw : wrappedPacks a.fmt with
  | error e =>
    refine ⟨fun its hs => ?_, fun its' hs' => ?_⟩
    · simp [itemsOfState, selectPackMapping, hw] at hs
    · exfalso
      unfold itemsOfState selectPackMapping at hs'
      cases hw' : wrappedPacks a'.fmt with
      | error e' => simp [hw'] at hs'
      | ok wps' =>
        obtain ⟨wps, hwps⟩ := h.wrappedPacks_back hok hw'
        rw [hw] at hwps; cases hwps
  | ok wps =>
    obtain ⟨wps', hw', hwp⟩ := h.wrappedPacks hok hw
    obtain ⟨g, k, iso, huids⟩ := fmtRenamed_stateIso h hinv hwf st hw hwp
    have iso0 := iso.dropEmpty
    have hwf0 := allocWF0_of_multitree hmt wps st hw
    have hwf0' := allocWF0_of_multitree hmt' wps' st hw'
    have hul := stateUids_lt hwf st
    have hwb := wrappedPacks_bounds hok hw
    -- facts about a valid allocation of the original problem
    have hal : ∀ {sol : Sol}, Valid (allocProblem a st wps).1 sol → ∀ al ∈ sol,
        al.pack.root < a.fmt.packs.length ∧ ∀ cs ∈ al.allocation, cs.1.cf < a.fmt.channels.length := by
      intro sol hv al hal
      have hmem := hv.packs_mem al hal
      rw [allocProblem_packs] at hmem
      obtain ⟨w, hwm, hwe⟩ := List.mem_map.1 hmem
      have hb := hwb w hwm
      refine ⟨by rw [← hwe]; exact hb.1, fun cs hcs => ?_⟩
      have : cs.1 ∈ al.pack.channels := by
        rw [← hv.channels al hal]; exact List.mem_map.2 ⟨cs, hcs, rfl⟩
      rw [← hwe] at this
      exact hb.2 _ this
    have hout : ∀ {sol : Sol}, Valid (allocProblem a st wps).1 sol → ∀ al ∈ sol,
        outputOf a'.fmt (stateUids a' st) (rrAllocated m g al) =
          (outputOf a.fmt (stateUids a st) al).map (renAP m) := by
      intro sol hv al halm
      rw [← h.outputOf hok hul al (hal hv al halm).1 (hal hv al halm).2]
      refine outputOf_reAllocated fun cs hcs t ht => ?_
      simp only [renAllocated, List.mem_map] at hcs
      obtain ⟨cs0, hcs0, rfl⟩ := hcs
      simp only [renSlot] at ht
      cases h0 : cs0.2 with
      | none => simp [h0] at ht
      | some o =>
        cases o with
        | none => simp [h0] at ht
        | some t0 =>
          simp only [h0, Option.map_some, Option.some.injEq] at ht
          subst ht
          exact (huids t0.id (valid_track_id_lt hv halm hcs0 h0)).2
    -- from an accepted allocation of the original problem to the outputs on `a'`
    have hmap : ∀ {sol sol' : Sol}, Valid (allocProblem a st wps).1 sol → SolEquiv sol' (sol.map (rrAllocated m g)) →
        ∀ {aps : List AllocPack}, mapE (outputOf a.fmt (stateUids a st)) sol = .ok aps →
          ∃ zs, mapE (outputOf a'.fmt (stateUids a' st)) sol' = .ok zs ∧ (aps.map (renAP m)).Perm zs := by
      intro sol sol' hv hequiv aps hm
      have hmapped : mapE (outputOf a'.fmt (stateUids a' st)) (sol.map (rrAllocated m g)) = .ok (aps.map (renAP m)) := by
        rw [mapE_comm2 (f := outputOf a.fmt (stateUids a st)) (r := renAP m) (fun al hal' => hout hv al hal'), hm]
        rfl
      exact mapE_perm _ hequiv.symm hmapped
    have hitems : ∀ {sol : Sol}, Valid (allocProblem a st wps).1 sol →
        ∀ {aps : List AllocPack}, mapE (outputOf a.fmt (stateUids a st)) sol = .ok aps → ∀ ap ∈ aps,
          itemsOfPack a' st (renAP m ap) = (itemsOfPack a st ap).map (List.map (renItemF m)) := by
      intro sol hv aps hm ap hap
      obtain ⟨al, halm, ho⟩ := mapE_mem hm hap
      have hb := outputOf_bounds hok (hal hv al halm).1 (hal hv al halm).2 ho
      exact h.itemsOfPack hok st hb.1 hb.2
    refine ⟨fun its hs => ?_, fun its' hs' => ?_⟩
    · -- forward
      unfold itemsOfState at hs
      cases hm : selectPackMapping a st with
      | error e => simp [hm] at hs
      | ok aps =>
        simp only [hm] at hs
        unfold selectPackMapping at hm
        simp only [hw] at hm
        cases hsel : PackAlloc.selectPackMapping (allocProblem a st wps).1 with
        | conflicting => simp [hsel] at hm
        | ambiguous => simp [hsel] at hm
        | accepted sol =>
          simp only [hsel, allocProblem_uids] at hm
          have hv := PackAlloc.select_accepted_valid _ sol hsel
          have hselD := hsel
          rw [← PackAlloc.selectPackMapping_dropEmpty] at hselD
          obtain ⟨sol', hs', hequiv⟩ := iso0.accepted hwf0 hwf0' hselD
          rw [PackAlloc.selectPackMapping_dropEmpty] at hs'
          obtain ⟨zs, hzs, hpz⟩ := hmap hv hequiv hm
          have hsm' : selectPackMapping a' st = .ok zs := by
            unfold selectPackMapping
            simp only [hw', hs', allocProblem_uids, hzs]
          have hmapped : flatMapE (itemsOfPack a' st) (aps.map (renAP m)) = .ok (its.map (renItemF m)) := by
            rw [flatMapE_map, flatMapE_map_comm (f := itemsOfPack a st) (g := renItemF m)
              (fun ap hap => hitems hv hm ap hap), hs]
            rfl
          obtain ⟨its', hits', hpi⟩ := flatMapE_perm _ hpz hmapped
          refine ⟨its', ?_, hpi.symm⟩
          unfold itemsOfState
          simp only [hsm', hits']
    · -- backward
      unfold itemsOfState at hs'
      cases hm' : selectPackMapping a' st with
      | error e => simp [hm'] at hs'
      | ok aps' =>
        simp only [hm'] at hs'
        unfold selectPackMapping at hm'
        simp only [hw'] at hm'
        cases hsel' : PackAlloc.selectPackMapping (allocProblem a' st wps').1 with
        | conflicting => simp [hsel'] at hm'
        | ambiguous => simp [hsel'] at hm'
        | accepted sol' =>
          simp only [hsel', allocProblem_uids] at hm'
          have hselD' := hsel'
          rw [← PackAlloc.selectPackMapping_dropEmpty] at hselD'
          obtain ⟨sol, hsD, _⟩ := iso0.symm.accepted hwf0' hwf0 hselD'
          obtain ⟨sol'', hs'', hequiv⟩ := iso0.accepted hwf0 hwf0' hsD
          rw [hselD'] at hs''
          cases hs''
          rw [PackAlloc.selectPackMapping_dropEmpty] at hsD
          have hv := PackAlloc.select_accepted_valid _ sol hsD
          -- outputs on `a`
          obtain ⟨hall', _⟩ := (mapE_ok_iff _ _ _).1 hm'
          have hallo : ∀ al ∈ sol, ∃ ap, outputOf a.fmt (stateUids a st) al = .ok ap := by
            intro al halm
            obtain ⟨ap', hap'⟩ := hall' _ (hequiv.mem_iff.2 (List.mem_map.2 ⟨al, halm, rfl⟩))
            rw [hout hv al halm] at hap'
            obtain ⟨ap, hap, _⟩ := except_map_ok hap'
            exact ⟨ap, hap⟩
          have hm := mapE_ok_of_all _ _ hallo
          obtain ⟨zs, hzs, hpz⟩ := hmap hv hequiv hm
          rw [hm'] at hzs
          cases hzs
          -- items on `a`
          obtain ⟨halli', _⟩ := (flatMapE_ok_iff _ _ _).1 hs'
          have halli : ∀ ap ∈ sol.map (okVal (outputOf a.fmt (stateUids a st))), ∃ zs, itemsOfPack a st ap = .ok zs := by
            intro ap hap
            obtain ⟨zs', hzs'⟩ := halli' _ (hpz.mem_iff.1 (List.mem_map.2 ⟨ap, hap, rfl⟩))
            rw [hitems hv hm ap hap] at hzs'
            obtain ⟨zs, hz, _⟩ := except_map_ok hzs'
            exact ⟨zs, hz⟩
          refine ⟨(sol.map (okVal (outputOf a.fmt (stateUids a st)))).flatMap (okVal (itemsOfPack a st)), ?_⟩
          unfold itemsOfState selectPackMapping
          simp only [hw, hsD, allocProblem_uids, hm]
          exact (flatMapE_ok_iff _ _ _).2 ⟨halli, rfl⟩


/-- **select_perm_formats**: re-numbering the audioPackFormats, audioChannelFormats and audioTrackUIDs (and,
through `trackChannel`, the stream/track formats) — i.e. declaring them in another order with every reference
remapped — does not change whether `select_rendering_items` succeeds (in either direction), and permutes the
selected items, pack and channel indices renamed.  CHNA-only mode included (there the allocator identifies a
track by its position in the audioTrackUID list, which moves along).  Hypotheses: references in range, the
multitree check on the original document (it carries over: `FmtRenamed.multitreeOK`), and inverse maps `mi`
(`FmtInv`; they exist for every permutation, `renameFormats` takes them as its argument).
Success transfers through C07's `accept_iff_unique`: valid allocations correspond there and back
(`ProbIso.valid`, `ProbIso.symm`, `ProbIso.roundtrip`), so "exactly one valid allocation" is invariant. -/
theorem select_perm_formats {m mi : FmtMaps} {a a' : Adm} (h : FmtRenamed m a a') (hinv : FmtInv m mi a.fmt)
    (hwf : a.refsInRange = true) (hmt : multitreeOK a.fmt = true) (given : Option Nat) (sel : List Nat) :
    (∀ items, selectRenderingItems a given sel = .ok items →
      ∃ items', selectRenderingItems a' given sel = .ok items' ∧ items'.Perm (items.map (renItemF m))) ∧
    (∀ items', selectRenderingItems a' given sel = .ok items' →
      ∃ items, selectRenderingItems a given sel = .ok items) := by
  have hok := fmtRefsOK_of_refsInRange hwf
  have hprog : selectProgramme a' given = selectProgramme a given :=
    selectProgramme_congr (a := a) (a' := a') (by rw [h.programmes]) given
  have hst := fun st => fmtRenamed_itemsOfState_iff h hinv hwf hmt st
  refine ⟨fun items hs => ?_, fun items' hs' => ?_⟩
  · rw [select_eq_spec] at hs ⊢
    unfold specSelect at hs ⊢
    rw [h.selectComplementary_eq, hprog]
    cases hw : wrappedPacks a.fmt with
    | error e => simp [hw] at hs
    | ok wps =>
      obtain ⟨wps', hw', _⟩ := h.wrappedPacks hok hw
      simp only [hw] at hs
      simp only [hw']
      cases hc : selectComplementary a sel with
      | error e => simp [hc] at hs
      | ok ign =>
        simp only [hc, h.specStates_eq] at hs ⊢
        have hs1 : flatMapE (itemsOfState a) (specStates a (selectProgramme a given) ign) = .ok items := hs
        show ∃ items', flatMapE (itemsOfState a') (specStates a (selectProgramme a given) ign) = .ok items' ∧ _
        obtain ⟨hall, rfl⟩ := (flatMapE_ok_iff _ _ _).1 hs1
        have hall' : ∀ st ∈ specStates a (selectProgramme a given) ign, ∃ its', itemsOfState a' st = .ok its' := by
          intro st hstm
          obtain ⟨its, hits⟩ := hall st hstm
          obtain ⟨its', hits', _⟩ := (hst st).1 its hits
          exact ⟨its', hits'⟩
        refine ⟨_, (flatMapE_ok_iff _ _ _).2 ⟨hall', rfl⟩, ?_⟩
        rw [List.map_flatMap]
        refine perm_flatMap_congr (.refl _) fun st hstm => ?_
        obtain ⟨its, hits⟩ := hall st hstm
        obtain ⟨its', hits', hperm⟩ := (hst st).1 its hits
        simpa [okVal, hits, hits'] using hperm
  · rw [select_eq_spec] at hs' ⊢
    unfold specSelect at hs' ⊢
    rw [h.selectComplementary_eq, hprog] at hs'
    cases hw' : wrappedPacks a'.fmt with
    | error e => simp [hw'] at hs'
    | ok wps' =>
      obtain ⟨wps, hw⟩ := h.wrappedPacks_back hok hw'
      simp only [hw'] at hs'
      simp only [hw]
      cases hc : selectComplementary a sel with
      | error e => simp [hc] at hs'
      | ok ign =>
        simp only [hc, h.specStates_eq] at hs' ⊢
        have hs1 : flatMapE (itemsOfState a') (specStates a (selectProgramme a given) ign) = .ok items' := hs'
        show ∃ items, flatMapE (itemsOfState a) (specStates a (selectProgramme a given) ign) = .ok items
        obtain ⟨hall', _⟩ := (flatMapE_ok_iff _ _ _).1 hs1
        refine ⟨_, (flatMapE_ok_iff _ _ _).2 ⟨fun st hstm => ?_, rfl⟩⟩
        obtain ⟨its', hits'⟩ := hall' st hstm
        exact (hst st).2 its' hits'

/-- **select_perm_formats** in `rename` form: `renameFormats m mi a` is the document with the format part
re-declared in the order given by the permutations `m` (inverse `mi`). -/
theorem select_perm_formats_rename {m mi : FmtMaps} {a : Adm} (hwf : a.refsInRange = true)
    (hmt : multitreeOK a.fmt = true)
    (hP : ((List.range a.fmt.packs.length).map m.σP).Perm (List.range a.fmt.packs.length))
    (hC : ((List.range a.fmt.channels.length).map m.σC).Perm (List.range a.fmt.channels.length))
    (hU : ((List.range a.fmt.trackUIDs.length).map m.σU).Perm (List.range a.fmt.trackUIDs.length))
    (hiP : ∀ i, i < a.fmt.packs.length → mi.σP (m.σP i) = i)
    (hiC : ∀ i, i < a.fmt.channels.length → mi.σC (m.σC i) = i)
    (hiU : ∀ i, i < a.fmt.trackUIDs.length → mi.σU (m.σU i) = i)
    (given : Option Nat) (sel : List Nat) :
    (∀ items, selectRenderingItems a given sel = .ok items →
      ∃ items', selectRenderingItems (renameFormats m mi a) given sel = .ok items' ∧
        items'.Perm (items.map (renItemF m))) ∧
    (∀ items', selectRenderingItems (renameFormats m mi a) given sel = .ok items' →
      ∃ items, selectRenderingItems a given sel = .ok items) :=
  select_perm_formats (renameFormats_renamed hwf hP hC hU hiP hiC hiU) ⟨hU, hiP, hiC, hiU⟩ hwf hmt given sel

end FmtSuccess

section Success
open PackAlloc (Problem Sol Valid WF SolEquiv dropEmpty)

/-! ## when does selection succeed: a single characterisation -/

theorem mapE_error_mem {α β : Type} {f : α → Except Err β} {e : Err} : ∀ {l : List α}, mapE f l = .error e →
    ∃ x ∈ l, f x = .error e
  | [], h => by cases h
  | x :: xs, h => by
    unfold mapE at h
    cases hx : f x with
    | error e' =>
      rw [hx] at h
      cases h
      exact ⟨x, List.mem_cons_self .., hx⟩
    | ok y =>
      rw [hx] at h
      dsimp only at h
      cases hxs : mapE f xs with
      | error e' =>
        rw [hxs] at h
        cases h
        obtain ⟨z, hz, hfz⟩ := mapE_error_mem hxs
        exact ⟨z, List.mem_cons_of_mem _ hz, hfz⟩
      | ok ys => rw [hxs] at h; cases h

/-- the error of nested loops is the error of one of the iterations (the first failing one). -/
theorem flatMapE_error_mem {α β : Type} {f : α → Except Err (List β)} {e : Err} {l : List α}
    (h : flatMapE f l = .error e) : ∃ x ∈ l, f x = .error e := by
  unfold flatMapE at h
  cases hm : mapE f l with
  | error e' =>
    rw [hm] at h
    cases h
    exact mapE_error_mem hm
  | ok ys => rw [hm] at h; cases h

/-- **PackItemsOK** — NOT derived from validation and NOT declarative: it is literally "the model's
`getPackFormatPath` / `getPathParam` / `hoaMetaOf` / `getSingleParam` return `.ok`" on the allocated pack (each of them
has an `_ok_iff` characterisation, named below, but `select_ok_iff` / `select_eq_decl_validated` do not unfold them),
so the `PackItemsOK` half of `StateAllocOK` in `select_ok_iff` is an unfolding of the model, not a consequence of
`validate_structure` (which by itself would have to establish e.g. agreeing absoluteDistance values and HOA
parameters: it does check the latter, the link is not proved here).
The per-item parameter merges of an allocated output pack exist — the pack is of a
renderable type (Objects / DirectSpeakers: one item per channel; HOA: one item), every allocated channel lies on
exactly one pack path below the pack (`getPackFormatPath_ok_iff`), the absoluteDistance values along that path agree
(`getPathParam_ok_iff`), and for HOA the merged parameters exist (`hoaMetaOf_ok_iff`: all channels agree on
rtime/duration/normalization/nfcRefDist/screenRef) and all channels give the same absoluteDistance
(`getSingleParam_ok_iff`). -/
def PackItemsOK (f : Formats) (ap : AllocPack) : Prop :=
  (((f.pack ap.pack).type = 3 ∨ (f.pack ap.pack).type = 1) ∧
    ∀ ct ∈ ap.alloc, (∃ pp, getPackFormatPath f ap.pack ct.1 = .ok pp) ∧
      ∃ ad, getPathParam (absDistAlong f (thePackPath f ap.pack ct.1)) = .ok ad) ∨
  ((f.pack ap.pack).type = 4 ∧ (∀ ct ∈ ap.alloc, ∃ pp, getPackFormatPath f ap.pack ct.1 = .ok pp) ∧
    (∃ hm, hoaMetaOf f (packPathsChannels f ap) = .ok hm) ∧
    ∃ ad, getSingleParam (packPathsChannels f ap) (fun pc => getPathParam (absDistAlong f pc.1)) = .ok ad)

theorem singleItem_ok_iff (a : Adm) (st : State) (ty p : Nat) (ct : Nat × TSpec) :
    (∃ it, singleItem a st ty p ct = .ok it) ↔
      (∃ pp, getPackFormatPath a.fmt p ct.1 = .ok pp) ∧
        ∃ ad, getPathParam (absDistAlong a.fmt (thePackPath a.fmt p ct.1)) = .ok ad := by
  unfold singleItem
  cases hpp : getPackFormatPath a.fmt p ct.1 with
  | error e => simp
  | ok pp =>
    have hpe := (getPackFormatPath_eq hpp).1
    subst hpe
    simp only [Except.ok.injEq, exists_eq', true_and]
    have hged := getExtraData_ok_iff a st [(thePackPath a.fmt p ct.1, ct.1)] (some ct.1)
    constructor
    · rintro ⟨it, h⟩
      cases hex : getExtraData a st [(thePackPath a.fmt p ct.1, ct.1)] (some ct.1) with
      | error e => simp [hex] at h
      | ok ex =>
        obtain ⟨ad, had, _⟩ := (hged ex).1 hex
        exact ⟨ad, ((getSingleParam_ok_iff _ _ _).1 had).2 _ (List.mem_singleton.2 rfl)⟩
    · rintro ⟨ad, had⟩
      have : getExtraData a st [(thePackPath a.fmt p ct.1, ct.1)] (some ct.1) = .ok (extraOf a st (some ct.1) ad) := by
        refine (hged _).2 ⟨ad, (getSingleParam_ok_iff _ _ _).2 ⟨by simp, fun x hx => ?_⟩, rfl⟩
        rw [List.mem_singleton.1 hx]
        exact had
      rw [this]
      exact ⟨_, rfl⟩

/-- **itemsOfPack_ok_iff**: `_get_rendering_items` returns for an allocated output pack exactly when
`PackItemsOK` (whatever the state: the state's own data never fails). -/
theorem itemsOfPack_ok_iff (a : Adm) (st : State) (ap : AllocPack) :
    (∃ its, itemsOfPack a st ap = .ok its) ↔ PackItemsOK a.fmt ap := by
  unfold itemsOfPack PackItemsOK
  dsimp only
  by_cases h31 : (a.fmt.pack ap.pack).type = 3 ∨ (a.fmt.pack ap.pack).type = 1
  · have h4 : (a.fmt.pack ap.pack).type ≠ 4 := by rcases h31 with h | h <;> omega
    simp only [h31, if_true, true_and, h4, false_and, or_false]
    constructor
    · rintro ⟨its, h⟩ ct hct
      obtain ⟨hall, _⟩ := (mapE_ok_iff _ _ _).1 h
      exact (singleItem_ok_iff a st _ ap.pack ct).1 (hall ct hct)
    · intro hall
      exact ⟨_, mapE_ok_of_all _ _ fun ct hct => (singleItem_ok_iff a st _ ap.pack ct).2 (hall ct hct)⟩
  · simp only [h31, if_false, false_and, false_or]
    by_cases h4 : (a.fmt.pack ap.pack).type = 4
    · simp only [h4, if_true, true_and]
      constructor
      · rintro ⟨its, h⟩
        cases hh : hoaItem a st ap with
        | error e => simp [hh] at h
        | ok it =>
          obtain ⟨hp, hm, ex, hmeta, hex, _⟩ := (hoaItem_ok_iff a st ap it).1 hh
          obtain ⟨ad, had, _⟩ := (getExtraData_ok_iff _ _ _ _ _).1 hex
          exact ⟨hp, ⟨hm, hmeta⟩, ad, had⟩
      · rintro ⟨hp, ⟨hm, hmeta⟩, ad, had⟩
        have hex := (getExtraData_ok_iff a st (packPathsChannels a.fmt ap) none _).2 ⟨ad, had, rfl⟩
        have := (hoaItem_ok_iff a st ap _).2 ⟨hp, hm, _, hmeta, hex, rfl⟩
        rw [this]
        exact ⟨_, rfl⟩
    · simp [h4]

/-- a valid allocation (C07 `Valid`) that uses no channel-less `AllocationPack`. -/
def ValidNE (prob : PackAlloc.Problem) (sol : PackAlloc.Sol) : Prop :=
  PackAlloc.Valid prob sol ∧ ∀ al ∈ sol, al.pack.channels ≠ []

theorem validNE_iff (prob : PackAlloc.Problem) (sol : PackAlloc.Sol) :
    ValidNE prob sol ↔ PackAlloc.Valid (PackAlloc.dropEmpty prob) sol := (valid_dropEmpty_iff' prob sol).symm

/-- **StateAllocOK**: the allocation problem of the state has exactly one valid allocation up to `≈` (C07
`accept_iff_unique`), every allocated pack of it has a usable output (`OutputOK`, `outputOf_ok_iff`) and the
per-item parameter merges exist (`PackItemsOK`). -/
def StateAllocOK (a : Adm) (st : State) (wps : List WPack) : Prop :=
  ∃ sol, ValidNE (allocProblem a st wps).1 sol ∧
    (∀ sol', ValidNE (allocProblem a st wps).1 sol' → PackAlloc.SolEquiv sol sol') ∧
    ∀ al ∈ sol, OutputOK a.fmt (stateUids a st) al ∧ PackItemsOK a.fmt (declOutput a.fmt (stateUids a st) al)

/-- the pipeline of a state, given the accepted allocation. -/
theorem itemsOfState_of_accepted {a : Adm} {st : State} {wps : List WPack} (hw : wrappedPacks a.fmt = .ok wps)
    {sol : PackAlloc.Sol} (hs : PackAlloc.selectPackMapping (allocProblem a st wps).1 = .accepted sol) :
    itemsOfState a st =
      match mapE (outputOf a.fmt (stateUids a st)) sol with
      | .error e => .error e
      | .ok packs => flatMapE (itemsOfPack a st) packs := by
  unfold itemsOfState selectPackMapping
  simp only [hw, hs, allocProblem_uids]
  cases mapE (outputOf a.fmt (stateUids a st)) sol <;> rfl

theorem itemsOfState_accepted_ok_iff {a : Adm} {st : State} {wps : List WPack} (hw : wrappedPacks a.fmt = .ok wps)
    {sol : PackAlloc.Sol} (hs : PackAlloc.selectPackMapping (allocProblem a st wps).1 = .accepted sol) :
    (∃ its, itemsOfState a st = .ok its) ↔
      ∀ al ∈ sol, OutputOK a.fmt (stateUids a st) al ∧ PackItemsOK a.fmt (declOutput a.fmt (stateUids a st) al) := by
  rw [itemsOfState_of_accepted hw hs]
  have hpt := mapE_ok_iff_of_pointwise (outputOf_ok_iff a.fmt (stateUids a st)) sol
  constructor
  · rintro ⟨its, h⟩ al hal
    cases hm : mapE (outputOf a.fmt (stateUids a st)) sol with
    | error e => simp [hm] at h
    | ok packs =>
      simp only [hm] at h
      obtain ⟨hok, rfl⟩ := (hpt packs).1 hm
      obtain ⟨hall, _⟩ := (flatMapE_ok_iff _ _ _).1 h
      exact ⟨hok al hal, (itemsOfPack_ok_iff a st _).1 (hall _ (List.mem_map.2 ⟨al, hal, rfl⟩))⟩
  · intro hall
    have hm := (hpt _).2 ⟨fun al hal => (hall al hal).1, rfl⟩
    rw [hm]
    refine ⟨_, (flatMapE_ok_iff _ _ _).2 ⟨fun ap hap => ?_, rfl⟩⟩
    obtain ⟨al, hal, rfl⟩ := List.mem_map.1 hap
    exact (itemsOfPack_ok_iff a st _).2 (hall al hal).2

/-- **itemsOfState_ok_iff**: the per-state pipeline succeeds exactly when `StateAllocOK`. -/
theorem itemsOfState_ok_iff {a : Adm} (hwf : AllocWF0 a) (st : State) {wps : List WPack}
    (hw : wrappedPacks a.fmt = .ok wps) :
    (∃ its, itemsOfState a st = .ok its) ↔ StateAllocOK a st wps := by
  have hwf0 := hwf wps st hw
  constructor
  · rintro ⟨its, h⟩
    cases hsel : PackAlloc.selectPackMapping (allocProblem a st wps).1 with
    | conflicting => simp [itemsOfState, selectPackMapping, hw, hsel] at h
    | ambiguous => simp [itemsOfState, selectPackMapping, hw, hsel] at h
    | accepted sol =>
      have hselD := hsel
      rw [← PackAlloc.selectPackMapping_dropEmpty] at hselD
      obtain ⟨hv, hu⟩ := PackAlloc.select_accepted_unique _ hwf0 sol hselD
      exact ⟨sol, (validNE_iff _ _).2 hv, fun sol' hv' => hu sol' ((validNE_iff _ _).1 hv'),
        (itemsOfState_accepted_ok_iff hw hsel).1 ⟨its, h⟩⟩
  · rintro ⟨sol, hv, hu, hall⟩
    obtain ⟨s', hs'⟩ := (PackAlloc.select_accepted_iff_unique_valid _ hwf0).2
      ⟨sol, (validNE_iff _ _).1 hv, fun sol' hv' => hu sol' ((validNE_iff _ _).2 hv')⟩
    have hequiv : PackAlloc.SolEquiv s' sol :=
      (PackAlloc.select_accepted_unique _ hwf0 s' hs').2 _ ((validNE_iff _ _).1 hv)
    rw [PackAlloc.selectPackMapping_dropEmpty] at hs'
    exact (itemsOfState_accepted_ok_iff hw hs').2 fun al hal => hall al (hequiv.mem_iff.1 hal)

/-- what an error of the per-state pipeline means: "Conflicting format references" exactly when no allocation is
valid, "Ambiguous format references" exactly when two inequivalent ones are (C07 `accept_iff_unique`); any other
error only when the unique valid allocation has a pack without usable output or without the per-item merges. -/
theorem itemsOfState_error_cases {a : Adm} (hwf : AllocWF0 a) (st : State) {wps : List WPack}
    (hw : wrappedPacks a.fmt = .ok wps) {e : Err} (h : itemsOfState a st = .error e) :
    (e = .conflicting ∧ ¬ ∃ sol, ValidNE (allocProblem a st wps).1 sol) ∨
    (e = .ambiguous ∧ ∃ s1 s2, ValidNE (allocProblem a st wps).1 s1 ∧ ValidNE (allocProblem a st wps).1 s2 ∧
      ¬ PackAlloc.SolEquiv s1 s2) ∨
    (∃ sol, ValidNE (allocProblem a st wps).1 sol ∧
      (∀ sol', ValidNE (allocProblem a st wps).1 sol' → PackAlloc.SolEquiv sol sol') ∧
      ¬ ∀ al ∈ sol, OutputOK a.fmt (stateUids a st) al ∧ PackItemsOK a.fmt (declOutput a.fmt (stateUids a st) al)) := by
  have hwf0 := hwf wps st hw
  cases hsel : PackAlloc.selectPackMapping (allocProblem a st wps).1 with
  | conflicting =>
    left
    have he : e = .conflicting := by
      simp [itemsOfState, selectPackMapping, hw, hsel] at h; exact h.symm
    refine ⟨he, ?_⟩
    rw [← PackAlloc.selectPackMapping_dropEmpty] at hsel
    rintro ⟨sol, hv⟩
    exact (PackAlloc.select_conflicting_iff_none_valid _ hwf0).1 hsel ⟨sol, (validNE_iff _ _).1 hv⟩
  | ambiguous =>
    right; left
    have he : e = .ambiguous := by
      simp [itemsOfState, selectPackMapping, hw, hsel] at h; exact h.symm
    refine ⟨he, ?_⟩
    rw [← PackAlloc.selectPackMapping_dropEmpty] at hsel
    obtain ⟨s1, s2, h1, h2, hne⟩ := (PackAlloc.select_ambiguous_iff_two_valid _ hwf0).1 hsel
    exact ⟨s1, s2, (validNE_iff _ _).2 h1, (validNE_iff _ _).2 h2, hne⟩
  | accepted sol =>
    right; right
    have hselD := hsel
    rw [← PackAlloc.selectPackMapping_dropEmpty] at hselD
    obtain ⟨hv, hu⟩ := PackAlloc.select_accepted_unique _ hwf0 sol hselD
    refine ⟨sol, (validNE_iff _ _).2 hv, fun sol' hv' => hu sol' ((validNE_iff _ _).1 hv'), fun hall => ?_⟩
    obtain ⟨its, hits⟩ := (itemsOfState_accepted_ok_iff hw hsel).2 hall
    rw [hits] at h
    cases h

/-- **select_ok_iff_of_multitree**: on a document that passes the multitree check, `select_rendering_items`
returns items exactly when the `AllocationPack`s can be built, the complementary-object selection is consistent
(`selectComplementary_ok_iff`) and every state of the comprehension satisfies `StateAllocOK`. -/
theorem select_ok_iff_of_multitree {a : Adm} (hmt : multitreeOK a.fmt = true) (given : Option Nat) (sel : List Nat) :
    (∃ items, selectRenderingItems a given sel = .ok items) ↔
      ∃ wps ign, wrappedPacks a.fmt = .ok wps ∧ selectComplementary a sel = .ok ign ∧
        ∀ st ∈ specStates a (selectProgramme a given) ign, StateAllocOK a st wps := by
  have hwf := allocWF0_of_multitree hmt
  rw [select_eq_spec]
  unfold specSelect
  cases hw : wrappedPacks a.fmt with
  | error e => simp
  | ok wps =>
    cases hc : selectComplementary a sel with
    | error e => simp
    | ok ign =>
      simp only [Except.ok.injEq, exists_and_left, exists_eq_left']
      have e : (∃ items, flatMapE (fun st =>
            match selectPackMapping a st with
            | .error e => .error e
            | .ok packs => flatMapE (itemsOfPack a st) packs) (specStates a (selectProgramme a given) ign) = .ok items) ↔
          ∃ items, flatMapE (itemsOfState a) (specStates a (selectProgramme a given) ign) = .ok items := Iff.rfl
      refine Iff.trans e ?_
      constructor
      · rintro ⟨items, h⟩ st hst
        obtain ⟨hall, _⟩ := (flatMapE_ok_iff _ _ _).1 h
        exact (itemsOfState_ok_iff hwf st hw).1 (hall st hst)
      · intro hall
        exact ⟨_, (flatMapE_ok_iff _ _ _).2 ⟨fun st hst => (itemsOfState_ok_iff hwf st hw).2 (hall st hst), rfl⟩⟩

/-! ## the headline on validated documents (link to the C14 model of `validate_structure`) -/

/-- the `AllocationPack`s of the document (`_PackAllocator(adm).packs`; `[]` when they cannot be built, which
does not happen on validated documents: `wrappedPacks_ok_of_validate`). -/
def thePacks (f : Formats) : List WPack :=
  match wrappedPacks f with
  | .ok wps => wps
  | .error _ => []

theorem thePacks_eq {f : Formats} {wps : List WPack} (h : wrappedPacks f = .ok wps) : thePacks f = wps := by
  unfold thePacks; rw [h]

/-! `selectValidated` (`select_rendering_items` as the real function runs it: `validate_structure(adm)` first — the C14
model `Validate.validateStructure` on the document graph `toDoc a` — then the selection proper) is defined in
`Model/SelectValidated.lean`, so that the C06 driver executes it for every `R` request. -/

/-- decidable form of "`validate_structure` accepts the document" (for concrete documents). -/
def validatedB (a : Adm) : Bool :=
  match Validate.validateStructure (toDoc a) with
  | .ok _ => true
  | .error _ => false

theorem validatedB_iff {a : Adm} : validatedB a = true ↔ Validate.validateStructure (toDoc a) = .ok () := by
  unfold validatedB
  cases Validate.validateStructure (toDoc a) with
  | error e => simp
  | ok u => cases u; simp

/-- **select_ok_iff**: `select_rendering_items` returns items exactly when (1) `validate_structure` accepts the
document, (2) the complementary-object selection is consistent (`selectComplementary_ok_iff`: every selected object
is in a group, at most one member per group selected) and (3) for every state of the comprehension (programme
content / root object / object path avoiding ignored objects) the allocation problem has exactly one valid
allocation up to `≈` (C07 `accept_iff_unique`), every allocated pack of it has a usable output (`OutputOK`) and the
per-item parameter merges exist (`PackItemsOK`).  That the `AllocationPack`s can be built is not a separate
condition: it follows from (1).  PARTIAL in this sense: the `PackItemsOK` conjunct of (3) says "the model's
`getPackFormatPath` / `getPathParam` / `hoaMetaOf` / `getSingleParam` return `.ok`" — that half of the iff is an
unfolding of the model, not derived from validation; the states are the model's `specStates` (declaratively:
`select_eq_decl_chain`, using `acyclic_of_validate`). -/
theorem select_ok_iff (a : Adm) (given : Option Nat) (sel : List Nat) :
    (∃ items, selectValidated a given sel = .ok items) ↔
      Validate.validateStructure (toDoc a) = .ok () ∧
      ∃ ign, selectComplementary a sel = .ok ign ∧
        ∀ st ∈ specStates a (selectProgramme a given) ign, StateAllocOK a st (thePacks a.fmt) := by
  unfold selectValidated
  cases hv : Validate.validateStructure (toDoc a) with
  | error e => simp
  | ok u =>
    cases u
    have hmt := multitreeOK_of_validate hv
    obtain ⟨wps, hw⟩ := wrappedPacks_ok_of_validate hv
    rw [thePacks_eq hw]
    have key := select_ok_iff_of_multitree hmt given sel
    simp only [true_and]
    constructor
    · rintro ⟨items, h⟩
      cases hs : selectRenderingItems a given sel with
      | error e => simp [hs] at h
      | ok its =>
        obtain ⟨wps', ign, hw', hc, hall⟩ := key.1 ⟨its, hs⟩
        rw [hw] at hw'; cases hw'
        exact ⟨ign, hc, hall⟩
    · rintro ⟨ign, hc, hall⟩
      obtain ⟨items, hs⟩ := key.2 ⟨wps, ign, hw, hc, hall⟩
      exact ⟨items, by rw [hs]⟩

/-- **select_eq_decl_validated**: on a document that `validate_structure` accepts, `select_rendering_items`
either returns exactly the declarative items — `[ item | state ∈ specStates, allocated pack ∈ THE valid
allocation of the state, item ∈ declItems ]`, every state satisfying `StateAllocOK` with that allocation — or fails
with the error of the complementary-object selection, or with the error of one state of the comprehension, which is
"Conflicting format references" exactly when that state has no valid allocation, "Ambiguous format references"
exactly when it has two inequivalent ones, and anything else only when its unique valid allocation contains a pack
without usable output or without the per-item merges.  Building the `AllocationPack`s never fails.
The third error disjunct leaves `e` FREE: it names the situation (unique valid allocation, some allocated pack fails
`OutputOK` or `PackItemsOK`) but says nothing about which error value is returned (it is whatever `itemsOfState a st`
returned: an unsupported type, a failed parameter merge, …); these non-allocation errors on validated documents are
named, not excluded. -/
theorem select_eq_decl_validated {a : Adm} (hv : Validate.validateStructure (toDoc a) = .ok ())
    (given : Option Nat) (sel : List Nat) :
    match selectRenderingItems a given sel with
    | .ok items =>
      ∃ ign, selectComplementary a sel = .ok ign ∧
        ∃ alloc : State → PackAlloc.Sol,
          (∀ st ∈ specStates a (selectProgramme a given) ign,
            ValidNE (allocProblem a st (thePacks a.fmt)).1 (alloc st) ∧
            (∀ sol', ValidNE (allocProblem a st (thePacks a.fmt)).1 sol' → PackAlloc.SolEquiv (alloc st) sol') ∧
            ∀ al ∈ alloc st, OutputOK a.fmt (stateUids a st) al ∧
              PackItemsOK a.fmt (declOutput a.fmt (stateUids a st) al)) ∧
          items = (specStates a (selectProgramme a given) ign).flatMap fun st =>
            declItemsOfSol a st (stateUids a st) (alloc st)
    | .error e =>
      selectComplementary a sel = .error e ∨
      ∃ ign, selectComplementary a sel = .ok ign ∧
        ∃ st ∈ specStates a (selectProgramme a given) ign, itemsOfState a st = .error e ∧
          ((e = .conflicting ∧ ¬ ∃ sol, ValidNE (allocProblem a st (thePacks a.fmt)).1 sol) ∨
           (e = .ambiguous ∧ ∃ s1 s2, ValidNE (allocProblem a st (thePacks a.fmt)).1 s1 ∧
              ValidNE (allocProblem a st (thePacks a.fmt)).1 s2 ∧ ¬ PackAlloc.SolEquiv s1 s2) ∨
           (∃ sol, ValidNE (allocProblem a st (thePacks a.fmt)).1 sol ∧
              (∀ sol', ValidNE (allocProblem a st (thePacks a.fmt)).1 sol' → PackAlloc.SolEquiv sol sol') ∧
              ¬ ∀ al ∈ sol, OutputOK a.fmt (stateUids a st) al ∧
                PackItemsOK a.fmt (declOutput a.fmt (stateUids a st) al))) := by
  have hmt := multitreeOK_of_validate hv
  have hwf := allocWF0_of_multitree hmt
  obtain ⟨wps, hw⟩ := wrappedPacks_ok_of_validate hv
  rw [thePacks_eq hw]
  cases hs : selectRenderingItems a given sel with
  | ok items =>
    simp only
    rw [select_eq_spec] at hs
    unfold specSelect at hs
    simp only [hw] at hs
    cases hc : selectComplementary a sel with
    | error e => simp [hc] at hs
    | ok ign =>
      simp only [hc] at hs
      have h' : flatMapE (itemsOfState a) (specStates a (selectProgramme a given) ign) = .ok items := hs
      obtain ⟨hall, rfl⟩ := (flatMapE_ok_iff _ _ _).1 h'
      have key : ∀ st ∈ specStates a (selectProgramme a given) ign, ∃ sol : PackAlloc.Sol,
          (ValidNE (allocProblem a st wps).1 sol ∧
            (∀ sol', ValidNE (allocProblem a st wps).1 sol' → PackAlloc.SolEquiv sol sol') ∧
            ∀ al ∈ sol, OutputOK a.fmt (stateUids a st) al ∧
              PackItemsOK a.fmt (declOutput a.fmt (stateUids a st) al)) ∧
          okVal (itemsOfState a) st = declItemsOfSol a st (stateUids a st) sol := by
        intro st hst
        obtain ⟨its, hits⟩ := hall st hst
        obtain ⟨wps', sol, hw', hv1, hne, hu, _, rfl⟩ := itemsOfState_spec hits hwf
        rw [hw] at hw'
        cases hw'
        obtain ⟨sol2, _, hu2, hall2⟩ := (itemsOfState_ok_iff hwf st hw).1 ⟨_, hits⟩
        have heq : PackAlloc.SolEquiv sol2 sol := hu2 sol ⟨hv1, hne⟩
        refine ⟨sol, ⟨⟨hv1, hne⟩, fun sol' hv' => hu sol' hv'.1 hv'.2, fun al hal => hall2 al (heq.mem_iff.2 hal)⟩, ?_⟩
        simp [okVal, hits, allocProblem_uids]
      obtain ⟨alloc, halloc⟩ := exists_fun_of_forall_mem key
      exact ⟨ign, rfl, alloc, fun st hst => (halloc st hst).1, flatMap_congr' fun st hst => (halloc st hst).2⟩
  | error e =>
    simp only
    rw [select_eq_spec] at hs
    unfold specSelect at hs
    simp only [hw] at hs
    cases hc : selectComplementary a sel with
    | error e' =>
      simp only [hc, Except.error.injEq] at hs
      left; rw [hs]
    | ok ign =>
      right
      simp only [hc] at hs
      have h' : flatMapE (itemsOfState a) (specStates a (selectProgramme a given) ign) = .error e := hs
      obtain ⟨st, hst, hste⟩ := flatMapE_error_mem h'
      exact ⟨ign, rfl, st, hst, hste, itemsOfState_error_cases hwf st hw hste⟩

end Success

/-! ## Non-vacuity: a concrete document satisfying the hypotheses -/

/-- One programme, one content `[o0, o4, o5]`; `o0 → {o1, o2}`, `o1 → o3`, `o2 → o3` (the shared
sub-object `o3` is reached by two object paths); `o3` plays a stereo DirectSpeakers pack with one
real and one *silent* track; `o4`/`o5` form a complementary group (root `o4`). -/
def exDoc : Adm :=
  let mkObj (packs : List Nat) (tracks : List (Option Nat)) (subs comps : List Nat) : Obj :=
    { packs := packs, tracks := tracks, subObjects := subs, complementary := comps, start := none,
      duration := none, gain := 1, mute := false, posOff := none, importance := none, avs := [] }
  { programmes := [⟨0x1001, [0], some 0, []⟩],
    contents := [⟨[0, 4, 5], []⟩],
    objects := [mkObj [] [] [1, 2] [], mkObj [] [] [3] [], mkObj [] [] [3] [],
                mkObj [1] [some 1, none] [] [], mkObj [0] [some 0] [] [5], mkObj [0] [some 0] [] []],
    fmt := {
      packs := [{ type := 3, channels := [0], subPacks := [], importance := none, absDist := none,
                  normalization := none, nfcRefDist := none, screenRef := none },
                { type := 1, channels := [1, 2], subPacks := [], importance := none, absDist := none,
                  normalization := none, nfcRefDist := none, screenRef := none }],
      channels := [{ type := 3, lowPass := none, highPass := none, blocks := [0], hoa := default },
                   { type := 1, lowPass := none, highPass := none, blocks := [1], hoa := default },
                   { type := 1, lowPass := none, highPass := none, blocks := [2], hoa := default }],
      streamFormats := [], trackFormats := [],
      trackUIDs := [⟨1, .channel 0, 0⟩, ⟨2, .channel 1, 1⟩] } }

/-- canonical view of an item for the examples: (object path, channel, track or silence). -/
def specBrief : TSpec → Option Int
  | .direct i => some i
  | .silent => none
  | _ => some (-1)

def Item.brief (it : Item) : Option (List Nat) × List Nat × List (Option Int) :=
  (it.objPath, it.channels, it.tracks.map specBrief)

def briefs : Except Err (List Item) → Option (List (Option (List Nat) × List Nat × List (Option Int)))
  | .ok l => some (l.map Item.brief)
  | .error _ => none

/-- the shared sub-object `o3` is rendered once per path (`[0,1,3]` and `[0,2,3]`), its second
channel from a silent track; the non-selected complementary member `o5` is excluded. -/
example : briefs (selectRenderingItems exDoc none []) =
    some [(some [0, 1, 3], [1], [some 1]), (some [0, 1, 3], [2], [none]),
          (some [0, 2, 3], [1], [some 1]), (some [0, 2, 3], [2], [none]),
          (some [4], [0], [some 0])] := by decide

/-- selecting the other member of the complementary group. -/
example : briefs (selectRenderingItems exDoc none [5]) =
    some [(some [0, 1, 3], [1], [some 1]), (some [0, 1, 3], [2], [none]),
          (some [0, 2, 3], [1], [some 1]), (some [0, 2, 3], [2], [none]),
          (some [5], [0], [some 0])] := by decide

/-- the error cases of `_select_complementary_objects` are not totalised away. -/
def errOf {α : Type} : Except Err α → Option Err
  | .ok _ => none
  | .error e => some e

example : errOf (selectRenderingItems exDoc none [4, 5]) = some .multipleSelected := by decide
example : errOf (selectRenderingItems exDoc none [3]) = some .notComplementary := by decide

example : NoDupRefs exDoc := by
  refine ⟨fun p => ?_, fun c => ?_, fun o => ?_⟩
  · match p with
    | 0 => decide
    | _ + 1 => exact List.nodup_nil
  · match c with
    | 0 => decide
    | _ + 1 => exact List.nodup_nil
  · match o with
    | 0 => decide
    | 1 => decide
    | 2 => decide
    | 3 => exact List.nodup_nil
    | 4 => exact List.nodup_nil
    | 5 => exact List.nodup_nil
    | _ + 6 => exact List.nodup_nil

example : Acyclic exDoc := by
  refine ⟨fun o => if o = 0 then 2 else if o = 1 ∨ o = 2 then 1 else 0, ?_, ?_⟩
  · intro o c hc
    match o with
    | 0 => simp [Adm.subs, Adm.obj, exDoc] at hc; rcases hc with rfl | rfl <;> decide
    | 1 => simp [Adm.subs, Adm.obj, exDoc] at hc; subst hc; decide
    | 2 => simp [Adm.subs, Adm.obj, exDoc] at hc; subst hc; decide
    | 3 => simp [Adm.subs, Adm.obj, exDoc] at hc
    | 4 => simp [Adm.subs, Adm.obj, exDoc] at hc
    | 5 => simp [Adm.subs, Adm.obj, exDoc] at hc
    | _ + 6 => simp [Adm.subs, Adm.obj, exDoc] at hc; cases hc
  · intro o ho
    have : exDoc.objects.length = 6 := rfl
    rw [this] at ho ⊢
    dsimp only
    split
    · omega
    · split <;> omega

/-- two programmes declared in the other order than their ids: the lowest id is chosen. -/
example : selectProgramme { exDoc with programmes := [⟨0x1005, [0], some 0, []⟩, ⟨0x1002, [], none, []⟩] } none
    = some 1 := by decide

/-- `exDoc` with the sub-objects of `o0` and the objects of the content re-ordered. -/
def exDoc' : Adm :=
  { exDoc with
    contents := [⟨[5, 0, 4], []⟩],
    objects := exDoc.objects.set 0 { exDoc.obj 0 with subObjects := [2, 1] } }

example : briefs (selectRenderingItems exDoc' none []) =
    some [(some [0, 2, 3], [1], [some 1]), (some [0, 2, 3], [2], [none]),
          (some [0, 1, 3], [1], [some 1]), (some [0, 1, 3], [2], [none]),
          (some [4], [0], [some 0])] := by decide

/-- `exDoc` with its audioObjects re-declared in a rotated order (object `i` becomes object
`(i+2) mod 6`), all references remapped: hypotheses of `select_perm_objects_rename` hold, and the
selected items are the renamed ones. -/
def exRho (i : Nat) : Nat := (i + 2) % 6
def exRhoInv (j : Nat) : Nat := (j + 4) % 6

example : ((List.range exDoc.objects.length).map exRho).Perm (List.range exDoc.objects.length) := by decide
example : ∀ i, i < exDoc.objects.length → exRhoInv (exRho i) = i := by
  intro i hi
  have : exDoc.objects.length = 6 := rfl
  unfold exRho exRhoInv; omega
example : exDoc.refsInRange = true := by decide

example : briefs (selectRenderingItems (renameObjects exRho exRhoInv exDoc) none []) =
    some [(some [2, 3, 5], [1], [some 1]), (some [2, 3, 5], [2], [none]),
          (some [2, 4, 5], [1], [some 1]), (some [2, 4, 5], [2], [none]),
          (some [0], [0], [some 0])] := by decide

/-- `exDoc` with packs 0/1 swapped, channels rotated and the two audioTrackUIDs swapped (references
remapped): the hypotheses of `select_perm_formats_rename_partial` hold and selection returns the
renamed items. -/
def exM : FmtMaps :=
  ⟨fun p => if p = 0 then 1 else if p = 1 then 0 else p, fun c => (c + 1) % 3,
   fun u => if u = 0 then 1 else if u = 1 then 0 else u⟩
def exMi : FmtMaps :=
  ⟨fun p => if p = 0 then 1 else if p = 1 then 0 else p, fun c => (c + 2) % 3,
   fun u => if u = 0 then 1 else if u = 1 then 0 else u⟩

example : ((List.range exDoc.fmt.packs.length).map exM.σP).Perm (List.range exDoc.fmt.packs.length) := by decide
example : ((List.range exDoc.fmt.channels.length).map exM.σC).Perm (List.range exDoc.fmt.channels.length) := by decide
example : ((List.range exDoc.fmt.trackUIDs.length).map exM.σU).Perm (List.range exDoc.fmt.trackUIDs.length) := by decide
theorem exInvP : ∀ i, i < exDoc.fmt.packs.length → exMi.σP (exM.σP i) = i := by
  intro i hi
  have : exDoc.fmt.packs.length = 2 := rfl
  match i with
  | 0 => rfl
  | 1 => rfl
  | _ + 2 => omega
theorem exInvC : ∀ i, i < exDoc.fmt.channels.length → exMi.σC (exM.σC i) = i := by
  intro i hi
  have : exDoc.fmt.channels.length = 3 := rfl
  show ((i + 1) % 3 + 2) % 3 = i
  omega
theorem exInvU : ∀ i, i < exDoc.fmt.trackUIDs.length → exMi.σU (exM.σU i) = i := by
  intro i hi
  have : exDoc.fmt.trackUIDs.length = 2 := rfl
  match i with
  | 0 => rfl
  | 1 => rfl
  | _ + 2 => omega
example : allocWFCheck (renameFormats exM exMi exDoc) = true := by decide
example : ¬ (exDoc.programmes = [] ∧ exDoc.objects = []) := by decide

/-- channels `1, 2` of the stereo pack became `2, 0`; pack indices swapped. -/
example : briefs (selectRenderingItems (renameFormats exM exMi exDoc) none []) =
    some [(some [0, 1, 3], [2], [some 1]), (some [0, 1, 3], [0], [none]),
          (some [0, 2, 3], [2], [some 1]), (some [0, 2, 3], [0], [none]),
          (some [4], [1], [some 0])] := by decide

section NonVacuity2
open Earverif.TrackSpec (meaning)

/-! ### non-vacuity of the hypotheses of the declarative theorems -/

example : multitreeOK exDoc.fmt = true := by decide
example : wrappedNonempty exDoc.fmt = true := by decide
example : AllocWF exDoc := allocWF_of_multitree (by decide) (by decide)
example : AllocWF0 exDoc := allocWF0_of_multitree (by decide)

/-- a channel listed twice in a pack, and a channel reachable through two pack paths, fail the multitree
predicate (as they fail `_validate_pack_channel_multitree`); a pack loop too. -/
def exPack (chs subs : List Nat) : Pack :=
  { type := 1, channels := chs, subPacks := subs, importance := none, absDist := none,
    normalization := none, nfcRefDist := none, screenRef := none }

example : multitreeOK { exDoc.fmt with packs := [exPack [1, 1] []] } = false := by decide
example : multitreeOK { exDoc.fmt with packs := [exPack [1] [1], exPack [1] []] } = false := by decide
example : multitreeOK { exDoc.fmt with packs := [exPack [1] [1], exPack [2] [0]] } = false := by decide
/-- a pack without channels passes the multitree predicate but not `wrappedNonempty`. -/
example : multitreeOK { exDoc.fmt with packs := [exPack [] []] } = true ∧
    wrappedNonempty { exDoc.fmt with packs := [exPack [] []] } = false := by decide

/-- `itemsOfState_spec` applies: the per-state pipeline succeeds on the state of the shared sub-object. -/
example : errOf (itemsOfState exDoc ⟨some 0, some 0, some [0, 1, 3]⟩) = none := by decide

/-- A direct Matrix pack (pack 2: input pack 0 = channels 0, 1; output pack 1 = channel 2; one matrix channel 3
with `outputChannelFormat` 2, gain 2 and coefficients `0.5 * ch0` and `ch1 delayed by 0 ms`), used by one
object whose two tracks carry the input channels: `matrix_item_spec_meaning` / `select_eq_decl` apply. -/
def exMat : Adm :=
  { programmes := [], contents := [],
    objects := [{ packs := [2], tracks := [some 0, some 1], subObjects := [], complementary := [], start := none,
                  duration := none, gain := 1, mute := false, posOff := none, importance := none, avs := [] }],
    fmt := {
      packs := [exPack [0, 1] [], exPack [2] [],
                { exPack [3] [] with type := 2, inputPack := some 0, outputPack := some 1 }],
      channels := [{ type := 1, lowPass := none, highPass := none, blocks := [0], hoa := default },
                   { type := 1, lowPass := none, highPass := none, blocks := [1], hoa := default },
                   { type := 1, lowPass := none, highPass := none, blocks := [2], hoa := default },
                   { type := 2, lowPass := none, highPass := none, blocks := [3], hoa := default,
                     matrix := ⟨some 2, 2, [⟨0, some (1/2), none⟩, ⟨1, none, some 0⟩]⟩ }],
      streamFormats := [], trackFormats := [],
      trackUIDs := [⟨1, .channel 0, 2⟩, ⟨2, .channel 1, 2⟩] } }

example : exMat.refsInRange = true := by decide
example : multitreeOK exMat.fmt = true := by decide

/-- the one selected item renders channel 2 of the output pack; the audio of its track spec on the two-frame
input `[[1, 2], [3, 4]]` is `2 * (0.5 * track0 + track1)` = `[5, 11]`. -/
example : (match selectRenderingItems exMat none [] with
    | .ok [it] => it.kind == 1 && it.channels == [2] && it.packPaths == [[1]] &&
        it.tracks.map (fun s => meaning 48000 2 s [[1, 2], [3, 4]]) == [[5, 11]]
    | _ => false) = true := by decide +kernel

/-- `exDoc` with the two track references of `o3` (one real, one silent) listed in the other order:
`select_perm_own_refs` applies. -/
def exDocT : Adm :=
  { exDoc with objects := exDoc.objects.set 3 { exDoc.obj 3 with tracks := [none, some 1] } }

example : OwnRefsPerm exDoc exDocT := by
  refine ⟨rfl, rfl, rfl, rfl, fun i => ?_, fun i => ?_, fun i => ?_⟩
  all_goals
    match i with
    | 0 => decide
    | 1 => decide
    | 2 => decide
    | 3 => decide
    | 4 => decide
    | 5 => decide
    | _ + 6 => simp [Adm.obj, exDoc, exDocT]

example : briefs (selectRenderingItems exDocT none []) = briefs (selectRenderingItems exDoc none []) := by decide

/-- `exDoc` with two contents and two programmes (ids not in declaration order). -/
def exDoc2 : Adm :=
  { exDoc with
    programmes := [⟨0x1005, [1], some 0, []⟩, ⟨0x1002, [0, 1], none, []⟩],
    contents := [⟨[0], []⟩, ⟨[4, 5], []⟩] }

def exSwap (i : Nat) : Nat := if i = 0 then 1 else if i = 1 then 0 else i

example : exDoc2.refsInRange = true := by decide
example : ((List.range exDoc2.contents.length).map exSwap).Perm (List.range exDoc2.contents.length) := by decide
example : ((List.range exDoc2.programmes.length).map exSwap).Perm (List.range exDoc2.programmes.length) := by decide
example : ∀ i, i < 2 → exSwap (exSwap i) = i := by decide
example : (exDoc2.programmes.map (·.idKey)).Nodup := by decide

/-- programme 1 (lowest id) is chosen: contents 0 and 1; after swapping the contents the same items come
out with the content index renamed; after swapping the programmes with the programme index renamed. -/
example : (match selectRenderingItems exDoc2 none [] with
    | .ok items => items.map (fun it => (it.programme, it.content, it.objPath))
    | .error _ => []) =
    [(some 1, some 0, some [0, 1, 3]), (some 1, some 0, some [0, 1, 3]), (some 1, some 0, some [0, 2, 3]),
     (some 1, some 0, some [0, 2, 3]), (some 1, some 1, some [4])] := by decide +kernel
example : (match selectRenderingItems (renameContents exSwap exSwap exDoc2) none [] with
    | .ok items => items.map (fun it => (it.programme, it.content, it.objPath))
    | .error _ => []) =
    [(some 1, some 1, some [0, 1, 3]), (some 1, some 1, some [0, 1, 3]), (some 1, some 1, some [0, 2, 3]),
     (some 1, some 1, some [0, 2, 3]), (some 1, some 0, some [4])] := by decide +kernel
example : (match selectRenderingItems (renameProgrammes exSwap exDoc2) none [] with
    | .ok items => items.map (fun it => (it.programme, it.content, it.objPath))
    | .error _ => []) =
    [(some 0, some 0, some [0, 1, 3]), (some 0, some 0, some [0, 1, 3]), (some 0, some 0, some [0, 2, 3]),
     (some 0, some 0, some [0, 2, 3]), (some 0, some 1, some [4])] := by decide +kernel

/-- `exDoc` where `o4` has an alternativeValueSet (label 7: gain 3) referenced from the programme: the
hypothesis of `getAvs_unique` holds for the state of `o4`, and the item of `o4` carries gain 3. -/
def exAvs : Adm :=
  { exDoc with
    programmes := [⟨0x1001, [0], some 0, [7]⟩],
    objects := exDoc.objects.set 4 { exDoc.obj 4 with avs := [⟨7, some 3, none, none⟩] } }

example : (avsRefs exAvs ⟨some 0, some 0, some [4]⟩).filterMap
    (fun l => (exAvs.obj 4).avs.find? (·.label == l)) = [⟨7, some 3, none, none⟩] := by decide
example : getAvs exAvs ⟨some 0, some 0, some [4]⟩ = some ⟨7, some 3, none, none⟩ := by decide
example : (match selectRenderingItems exAvs none [] with
    | .ok items => items.map (fun it => (it.objPath, it.extra.gain))
    | .error _ => []) =
    [(some [0, 1, 3], 1), (some [0, 1, 3], 1), (some [0, 2, 3], 1), (some [0, 2, 3], 1), (some [4], 3)] := by
  decide +kernel

/-- `minImp`: `None` loses against every number; the first of equal minima is returned. -/
example : minImp [none, some 5, some 2, none, some 2] = some 2 ∧ minImp [none, none] = none ∧ minImp [] = none := by
  decide

end NonVacuity2

/-! ### non-vacuity: `select_perm_formats` (hypotheses hold for the example; CHNA-only mode) -/

example : FmtInv exM exMi exDoc.fmt := ⟨by decide, exInvP, exInvC, exInvU⟩

/-- the hypotheses of `select_perm_formats_rename` hold for `exDoc`, so selection succeeds on the re-numbered
document because it does on the original (the result is the one computed above). -/
example : ∃ items', selectRenderingItems (renameFormats exM exMi exDoc) none [] = .ok items' := by
  have h := (select_perm_formats_rename (m := exM) (mi := exMi) (a := exDoc) (by decide) (by decide) (by decide)
    (by decide) (by decide) exInvP exInvC exInvU none []).1
  have hn : errOf (selectRenderingItems exDoc none []) = none := by decide
  cases hs : selectRenderingItems exDoc none [] with
  | error e => simp [hs, errOf] at hn
  | ok items =>
    obtain ⟨items', h', _⟩ := h items hs
    exact ⟨items', h'⟩

/-- a CHNA-only document: no programmes, contents or objects; all three audioTrackUIDs are allocated. -/
def exChna : Adm :=
  { programmes := [], contents := [], objects := [],
    fmt := { exDoc.fmt with trackUIDs := exDoc.fmt.trackUIDs ++ [⟨3, .channel 2, 1⟩] } }

example : exChna.refsInRange = true ∧ multitreeOK exChna.fmt = true := by decide

example : FmtInv exM exMi exChna.fmt := by
  refine ⟨by decide, exInvP, exInvC, ?_⟩
  intro i hi
  have : exChna.fmt.trackUIDs.length = 3 := rfl
  match i with
  | 0 => rfl
  | 1 => rfl
  | 2 => rfl
  | _ + 3 => omega

example : briefs (selectRenderingItems exChna none []) =
    some [(none, [0], [some 0]), (none, [1], [some 1]), (none, [2], [some 2])] := by decide

/-- CHNA-only mode, format part re-numbered (audioTrackUIDs 0 and 1 swapped, channels rotated): the same tracks on
the renamed channels. -/
example : briefs (selectRenderingItems (renameFormats exM exMi exChna) none []) =
    some [(none, [2], [some 1]), (none, [0], [some 2]), (none, [1], [some 0])] := by decide

/-! ### non-vacuity: validated documents (`select_ok_iff`, `select_eq_decl_validated`) -/

/-- the C14 model of `validate_structure` accepts the example documents (also the one with Matrix packs). -/
example : validatedB exDoc = true ∧ validatedB exChna = true ∧ validatedB exMat = true := by decide

example : Validate.validateStructure (toDoc exDoc) = .ok () := validatedB_iff.1 (by decide)

example : multitreeOK exDoc.fmt = true := multitreeOK_of_validate (validatedB_iff.1 (by decide))

/-- `select_ok_iff`, left-hand side: validation + selection succeed on the example. -/
example : ∃ items, selectValidated exDoc none [] = .ok items := by
  have hv : Validate.validateStructure (toDoc exDoc) = .ok () := validatedB_iff.1 (by decide)
  have hn : errOf (selectRenderingItems exDoc none []) = none := by decide
  cases hs : selectRenderingItems exDoc none [] with
  | error e => simp [hs, errOf] at hn
  | ok items => exact ⟨items, by unfold selectValidated; rw [hv, hs]⟩

/-- `validate_structure` does NOT establish `wrappedNonempty`: a document with an audioPackFormat without channels and
sub-packs is accepted by validation (and selection works: the channel-less `AllocationPack` is never allocated). -/
def exEmptyPackDoc : Adm :=
  { exChna with fmt := { exChna.fmt with packs := exChna.fmt.packs ++ [{ exPack [] [] with type := 3 }] } }

example : validatedB exEmptyPackDoc = true ∧ wrappedNonempty exEmptyPackDoc.fmt = false ∧
    briefs (selectRenderingItems exEmptyPackDoc none []) =
      some [(none, [0], [some 0]), (none, [1], [some 1]), (none, [2], [some 2])] := by decide

/-- the error branch of `select_eq_decl_validated`: a validated document on which one state has no valid allocation
(the object references the Objects pack but its track belongs to the DirectSpeakers pack). -/
def exConf : Adm :=
  { exDoc with objects := exDoc.objects.map fun o => if o.packs = [1] then { o with packs := [0] } else o }

example : validatedB exConf = true ∧ errOf (selectRenderingItems exConf none []) = some .conflicting := by decide

/-- a document that validation rejects (pack loop): `selectValidated` fails in the validation stage. -/
example : validatedB { exDoc with fmt := { exDoc.fmt with packs := [exPack [1] [1], exPack [2] [0]] } } = false := by
  decide

/-! ### non-vacuity: `acyclic_of_validate`, `select_eq_decl_chain`, `select_perm_comps` -/

/-- `Acyclic` of the example obtained from the C14 loop validator instead of a hand-made rank -/
example : Acyclic exDoc := acyclic_of_validate (by decide) (validatedB_iff.1 (by decide))

/-- the state `(programme 0, content 0, path o0 → o2 → o3)` is enumerated because it is a chain from an object of the
content that avoids the ignored `o5` -/
example : (⟨some 0, some 0, some [0, 2, 3]⟩ : State) ∈ specStates exDoc (some 0) [5] :=
  ((select_eq_decl_chain (by decide) (validatedB_iff.1 (by decide)) (by decide) [5] _).1 0).2
    ⟨0, by decide, 0, by decide, [0, 2, 3],
      .cons 0 2 _ (by decide) (.cons 2 3 _ (by decide) (.single 3)), by decide, rfl⟩

/-- an object loop `o3 → o0` is rejected by the validator (so the hypothesis of `acyclic_of_validate` is not
trivially true) -/
example : validatedB { exDoc with objects := exDoc.objects.map fun o =>
    if o.packs = [1] then { o with subObjects := [0] } else o } = false := by decide

/-- `exDoc` with a complementary group of three (`o4`: members `o5`, `o3`) and the same group declared in the other
order -/
def exComp (comps : List Nat) : Adm :=
  { exDoc with objects := exDoc.objects.map fun o => if o.complementary = [5] then { o with complementary := comps } else o }

example : CompPerm (exComp [5, 3]) (exComp [3, 5]) := by
  refine ⟨by decide, fun _ => rfl, fun _ => rfl, fun o => ?_, fun o => ?_⟩
  · match o with
    | 0 | 1 | 2 | 3 | 4 | 5 => rfl
    | _ + 6 => rfl
  · match o with
    | 0 | 1 | 2 | 3 | 5 => exact .refl _
    | 4 => exact List.Perm.swap _ _ _
    | _ + 6 => exact .refl _

example : briefs (selectRenderingItems (exComp [3, 5]) none [5]) = briefs (selectRenderingItems (exComp [5, 3]) none [5]) ∧
    (briefs (selectRenderingItems (exComp [5, 3]) none [5])).map List.length = some 1 := by decide

/-! ### non-vacuity: an HOA pack nested in a pack, BS.2076-1 track references (`hoaItem_ok_iff`, `trackChannel`) -/

def exHb (o d : Int) : HoaBlock :=
  { order := o, degree := d, rtime := none, duration := none, gain := 1, importance := 10,
    normalization := some 0, nfcRefDist := none, screenRef := none }

def exHoaObj : Obj :=
  { packs := [0], tracks := [some 0, some 1], subObjects := [], complementary := [], start := none,
    duration := none, gain := 1, mute := false, posOff := none, importance := none, avs := [] }

/-- one object referencing the outer HOA pack `p0` (no channels, sub-pack `p1` with the two HOA channels); the two
audioTrackUIDs reach their channels through audioTrackFormat → audioStreamFormat (non-identity tables:
`uid0 → tf1 → stream0 → ch0`, `uid1 → tf0 → stream1 → ch1`), so the `TrackRef.trackFormat` branch of `trackChannel`
and non-empty `streamFormats` / `trackFormats` are exercised -/
def exHoa : Adm :=
  { programmes := [⟨0x1001, [0], none, []⟩],
    contents := [⟨[0], []⟩],
    objects := [exHoaObj],
    fmt := {
      packs := [{ type := 4, channels := [], subPacks := [1], importance := none, absDist := none,
                  normalization := none, nfcRefDist := none, screenRef := none },
                { type := 4, channels := [0, 1], subPacks := [], importance := none, absDist := none,
                  normalization := none, nfcRefDist := none, screenRef := none }],
      channels := [{ type := 4, lowPass := none, highPass := none, blocks := [0], hoa := exHb 0 0 },
                   { type := 4, lowPass := none, highPass := none, blocks := [1], hoa := exHb 1 (-1) }],
      streamFormats := [0, 1], trackFormats := [1, 0],
      trackUIDs := [⟨1, .trackFormat 1, 0⟩, ⟨2, .trackFormat 0, 0⟩] } }

example : exHoa.refsInRange = true ∧ validatedB exHoa = true ∧
    trackChannel exHoa.fmt 0 = 0 ∧ trackChannel exHoa.fmt 1 = 1 := by decide

/-- one HOA item for the pack: both tracks, both channels, each channel on the nested pack path `[p0, p1]` -/
example : (match selectRenderingItems exHoa none [] with
    | .ok l => l.map fun (it : Item) => (it.kind, it.tracks.map specBrief, it.channels, it.packPaths)
    | .error _ => []) = [(4, [some 0, some 1], [0, 1], [[0, 1], [0, 1]])] := by decide

/-- an instance of `hoaItem_ok_iff`: the HOA item of the allocated pack exists, hence (left to right) every allocated
channel lies on exactly one pack path and the merged HOA parameters / extra data exist -/
example : ∃ hm ex, hoaMetaOf exHoa.fmt (packPathsChannels exHoa.fmt ⟨0, [(0, .direct 0), (1, .direct 1)]⟩) = .ok hm ∧
    getExtraData exHoa ⟨some 0, some 0, some [0]⟩
      (packPathsChannels exHoa.fmt ⟨0, [(0, .direct 0), (1, .direct 1)]⟩) none = .ok ex := by
  have hn : errOf (hoaItem exHoa ⟨some 0, some 0, some [0]⟩ ⟨0, [(0, .direct 0), (1, .direct 1)]⟩) = none := by decide
  cases hs : hoaItem exHoa ⟨some 0, some 0, some [0]⟩ ⟨0, [(0, .direct 0), (1, .direct 1)]⟩ with
  | error e => simp [hs, errOf] at hn
  | ok it =>
    obtain ⟨_, hm, ex, h1, h2, _⟩ := (hoaItem_ok_iff _ _ _ _).1 hs
    exact ⟨hm, ex, h1, h2⟩

end Earverif.Adm
