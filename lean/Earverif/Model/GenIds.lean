/-
Model of `ear.fileio.adm.generate_ids.generate_ids`.  Core Lean only.

Only what determines the ID strings is kept of the document: how many elements of each kind
there are (common-definition elements are skipped by `non_common` in the real code and are
therefore not part of the input), the `typeDefinition` value of packs / channels / streams, the
number of alternativeValueSets per audioObject, of audioBlockFormats per audioChannelFormat and
of (linked) audioTrackFormats per audioStreamFormat.

`"{:04X}".format(n)` is a *minimum* width: the 61 440th element of a kind gets five digits.
-/
import Earverif.Model.C08Digits

namespace Earverif.GenIds
open Earverif.Digits

/-- `enumerate(xs, start)` -/
def enumFrom {α} (start : Nat) : List α → List (Nat × α)
  | [] => []
  | x :: xs => (start, x) :: enumFrom (start + 1) xs

structure Input where
  nProgrammes : Nat
  nContents : Nat
  /-- one entry per audioObject: number of alternativeValueSets -/
  objects : List Nat
  /-- one entry per non-common audioPackFormat: `type.value` -/
  packs : List Nat
  /-- one entry per non-common audioChannelFormat: (`type.value`, number of block formats) -/
  channels : List (Nat × Nat)
  /-- one entry per non-common audioStreamFormat: (`type.value` of the linked channel or pack
  format, number of non-common audioTrackFormats whose `audioStreamFormat` is this one) -/
  streams : List (Nat × Nat)
  /-- non-common audioTrackFormats linked to no audioStreamFormat (→ `AssertionError`) -/
  unlinkedTracks : Nat
  nTrackUIDs : Nat
  deriving Repr

structure Output where
  programmes : List (List Char)
  contents : List (List Char)
  objects : List (List Char)
  /-- per audioObject -/
  avs : List (List (List Char))
  packs : List (List Char)
  channels : List (List Char)
  /-- per audioChannelFormat -/
  blocks : List (List (List Char))
  streams : List (List Char)
  /-- per audioStreamFormat -/
  tracks : List (List (List Char))
  trackUIDs : List (List Char)
  deriving Repr

def aprId (i : Nat) : List Char := "APR_".toList ++ hexPad 4 i
def acoId (i : Nat) : List Char := "ACO_".toList ++ hexPad 4 i
def aoId (i : Nat) : List Char := "AO_".toList ++ hexPad 4 i
def avsId (i j : Nat) : List Char := "AVS_".toList ++ hexPad 4 i ++ '_' :: hexPad 4 j
def apId (t i : Nat) : List Char := "AP_".toList ++ hexPad 4 t ++ hexPad 4 i
def acId (t i : Nat) : List Char := "AC_".toList ++ hexPad 4 t ++ hexPad 4 i
def abId (t i b : Nat) : List Char := "AB_".toList ++ hexPad 4 t ++ hexPad 4 i ++ '_' :: hexPad 8 b
def asId (t i : Nat) : List Char := "AS_".toList ++ hexPad 4 t ++ hexPad 4 i
def atId (t i k : Nat) : List Char := "AT_".toList ++ hexPad 4 t ++ hexPad 4 i ++ '_' :: hexPad 2 k
def atuId (i : Nat) : List Char := "ATU_".toList ++ hexPad 8 i

/-- first id of the top-level counters (`enumerate(..., 0x1001)`) -/
def firstId : Nat := 0x1001

/-- `generate_ids(adm)`; `none` = the final assertion fails (an audioTrackFormat is not linked
to any audioStreamFormat). -/
def generateIds (x : Input) : Option Output :=
  if x.unlinkedTracks ≠ 0 then none else
  some {
    programmes := (List.range' firstId x.nProgrammes).map aprId
    contents := (List.range' firstId x.nContents).map acoId
    objects := (enumFrom firstId x.objects).map fun p => aoId p.1
    avs := (enumFrom firstId x.objects).map fun p => (List.range' 1 p.2).map (avsId p.1)
    packs := (enumFrom firstId x.packs).map fun p => apId p.2 p.1
    channels := (enumFrom firstId x.channels).map fun p => acId p.2.1 p.1
    blocks := (enumFrom firstId x.channels).map fun p => (List.range' 1 p.2.2).map (abId p.2.1 p.1)
    streams := (enumFrom firstId x.streams).map fun p => asId p.2.1 p.1
    tracks := (enumFrom firstId x.streams).map fun p => (List.range' 1 p.2.2).map (atId p.2.1 p.1)
    trackUIDs := (List.range' 1 x.nTrackUIDs).map atuId
  }

/-- the reserved silent-track UID -/
def silentUID : List Char := "ATU_00000000".toList

/-! ### ID syntax (BS.2076 section 6): prefix, then `_`-separated fields of fixed numbers of
upper-case hex digits -/

def hexField (w : Nat) (cs : List Char) : Bool := cs.length == w && cs.all isHexUpper

def fields : List Nat → List Char → Bool
  | [], _ => false
  | [w], cs => hexField w cs
  | w :: ws, cs => hexField w (cs.take w) && (cs.drop w).head? == some '_' && fields ws (cs.drop (w + 1))

def wfId (pre : String) (ws : List Nat) (s : List Char) : Bool :=
  pre.toList.isPrefixOf s && fields ws (s.drop pre.toList.length)

def wfAPR := wfId "APR_" [4]
def wfACO := wfId "ACO_" [4]
def wfAO := wfId "AO_" [4]
def wfAVS := wfId "AVS_" [4, 4]
def wfAP := wfId "AP_" [8]
def wfAC := wfId "AC_" [8]
def wfAB := wfId "AB_" [8, 8]
def wfAS := wfId "AS_" [8]
def wfAT := wfId "AT_" [8, 2]
def wfATU := wfId "ATU_" [8]

end Earverif.GenIds
