/-
C04 composed with C02: the output file of `OfflineRenderDriver.run` has exactly as many frames as the
input file, for every accepted session and every way the reader splits the input into blocks.

`FileRender.run` (glue model, C04) takes the blocks the renderer returned; `Renderer.renderAll`
(renderer model, C02/C03) is what the renderer returns (all `render` calls plus `get_tail`, concatenated).
-/
import Earverif.Props.C04
import Earverif.Props.C02

namespace Earverif.FileRender
open Earverif.Renderer

/-- A renderer output row as the list of samples the glue model works on. -/
def rowList {n : Nat} (r : Earverif.Stream.Frame n) : List Rat := r.v.toList

/-- **Frames out = frames in**, end to end on the two models: whatever the blocking of the input
(`parts`, as produced by `iter_sample_blocks(8192)`), if the session is accepted (`SessionOK`), the
renderer succeeds and the file written from its output has exactly `parts.flatten.length` frames, each
with `nChannels` samples when the layout has `n` channels. -/
theorem file_frames_eq_input {n : Nat} (c : Cfg (Earverif.Stream.Frame n))
    (objs : List (ObjItem (Earverif.Stream.Frame n))) (dss : List (DsItem (Earverif.Stream.Frame n)))
    (hoas : List (HoaItem (Earverif.Stream.Frame n)))
    (hok : SessionOK c objs dss hoas) (parts : List (List (List Rat)))
    (chans : List String) (hn : chans.length = n) (speakers gain f M) :
    ∃ out, renderAll c objs dss hoas parts = .ok out ∧
      (run chans speakers gain f M [out.map rowList]).frames.length = parts.flatten.length ∧
      ∀ fr ∈ (run chans speakers gain f M [out.map rowList]).frames,
        fr.length = (run chans speakers gain f M [out.map rowList]).nChannels := by
  obtain ⟨out, hout, hlen, -⟩ := C02_length_and_origin c objs dss hoas hok parts
  refine ⟨out, hout, ?_, ?_⟩
  · rw [run_frame_count]; simp [hlen]
  · apply run_channel_count
    intro b hb fr hfr
    simp only [List.mem_singleton] at hb
    subst hb
    simp only [List.mem_map] at hfr
    obtain ⟨r, -, rfl⟩ := hfr
    simp [rowList, hn]

end Earverif.FileRender
