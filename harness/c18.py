"""C18 — Bw64Reader seek/read/tell/iter vs the Lean cursor model and the list-plus-cursor spec."""
import io
import itertools

import numpy as np

from .common import Spec, Driver


def make_file(bitdepth, channels, frames, forceBw64=False, axml=None):
    from ear.fileio.bw64 import Bw64Reader, Bw64Writer
    from ear.fileio.bw64.chunks import FormatInfoChunk

    f = io.BytesIO()
    fmt = FormatInfoChunk(formatTag=1, channelCount=channels, sampleRate=48000, bitsPerSample=bitdepth)
    w = Bw64Writer(f, fmt, axml=axml, forceBw64=forceBw64)
    scale = float(2 ** (bitdepth - 1) - 1)
    # frame i, channel j holds code i*channels + j + 1 (unique, small)
    codes = np.arange(1, frames * channels + 1, dtype=float).reshape(frames, channels)
    if frames:
        w.write(codes / scale)
    w.close()
    return f.getvalue()


class Real:
    """The real reader on a generated file, observed only through its public API."""

    def __init__(self, data, bitdepth, channels, frames):
        from ear.fileio.bw64 import Bw64Reader

        self.r = Bw64Reader(io.BytesIO(data))
        self.bitdepth, self.channels, self.frames = bitdepth, channels, frames
        self.scale = float(2 ** (bitdepth - 1) - 1)
        self.A = channels * bitdepth // 8
        self.data_off = data.find(b"data", 12) + 8  # harness-side knowledge of its own file

    def _range(self, block):
        block = np.asarray(block)
        k = block.shape[0]
        if k == 0:
            return ("-", 0)
        codes = np.rint(block * self.scale).astype(int)
        first = (codes[0, 0] - 1) // self.channels
        exp = np.arange(first * self.channels + 1, (first + k) * self.channels + 1).reshape(k, self.channels)
        if block.shape[1] != self.channels or not np.array_equal(codes, exp):
            return ("garbled", k)
        return (first, k)

    def op(self, op):
        """Return canonical output: ('u',) ('E',) ('p',c) ('b',first,count) ('B',[(first,count)..]) or ('X',exc type)."""
        try:
            if op[0] == "s":
                try:
                    self.r.seek(op[1], op[2])
                except ValueError:
                    return ("E",)
                return ("u",)
            if op[0] == "t":
                return ("p", int(self.r.tell()))
            if op[0] == "r":
                return ("b",) + self._range(self.r.read(op[1]))
            if op[0] == "i":
                out = []
                for n, b in enumerate(self.r.iter_sample_blocks(op[1])):
                    out.append(self._range(b))
                    if n > self.frames + 2:
                        return ("X", "iter-does-not-terminate")
                return ("B", out)
        except Exception as e:  # anything else escaping is an observable failure
            return ("X", type(e).__name__)
        raise AssertionError(op)


def spec_run(N, ops):
    """Independent list-plus-cursor specification (written from the property text)."""
    c, outs = 0, []
    clamp = lambda x: max(0, min(N, x))
    for op in ops:
        if op[0] == "s":
            if op[2] == 0:
                c = clamp(op[1]); outs.append(("u",))
            elif op[2] == 1:
                c = clamp(c + op[1]); outs.append(("u",))
            elif op[2] == 2:
                c = clamp(N + op[1]); outs.append(("u",))
            else:
                outs.append(("E",))
        elif op[0] == "t":
            outs.append(("p", c))
        elif op[0] == "r":
            e = min(c + op[1], N)
            outs.append(("b", c if e > c else "-", e - c)); c = e
        elif op[0] == "i":
            blocks = []
            while c != N:
                e = min(c + op[1], N)
                blocks.append((c, e - c)); c = e
            outs.append(("B", blocks))
    return outs, c


def op_line(cfg, ops):
    parts = ["%d %d %d %d" % cfg]
    for op in ops:
        parts.append(" ".join(str(x) for x in op))
    return " ; ".join(parts)


def parse_model(line, data_off, A):
    """Model output (byte ranges) -> canonical frame-level outputs."""
    body, pos = line.rsplit("|", 1)
    outs = []
    def fr(s, g):
        s, g = int(s), int(g)
        if g == 0:
            return ("-", 0)
        if (s - data_off) % A or g % A:
            return ("unaligned:%d,%d" % (s, g), 0)
        return ((s - data_off) // A, g // A)
    for tok in body.split(";"):
        w = tok.split()
        if not w:
            continue
        if w[0] == "u": outs.append(("u",))
        elif w[0] == "E": outs.append(("E",))
        elif w[0] == "p": outs.append(("p", int(w[1])))
        elif w[0] == "b": outs.append(("b",) + fr(w[1], w[2]))
        elif w[0] == "B": outs.append(("B", [fr(*x.split(",")) for x in w[1:]]))
    return outs, int(pos)


def alphabet(N):
    offs = sorted({-N - 1, -1, 0, 1, N, N + 1})
    ops = [("s", o, w) for o in offs for w in (0, 1, 2)] + [("s", 0, 3)]
    ops += [("t",)]
    ops += [("r", n) for n in sorted({0, 1, 2, N + 1})]
    ops += [("i", b) for b in sorted({1, 2, N + 1})]
    return ops


def random_ops(rng, N, length):
    ops = []
    for _ in range(length):
        k = rng.random()
        if k < 0.45:
            ops.append(("s", rng.randint(-N - 3, N + 3), rng.choice([0, 0, 1, 1, 2, 2, rng.randint(3, 9)])))
        elif k < 0.6:
            ops.append(("t",))
        elif k < 0.9:
            ops.append(("r", rng.choice([0, 1, 2, 3, rng.randint(0, N + 2)])))
        else:
            ops.append(("i", rng.randint(1, N + 2)))
        ops.append(("t",))
    return ops


class C18(Spec):
    pid = "C18"
    lean_targets = ("Earverif.Props.C18", "c18driver")
    props_module = "Earverif.Props.C18"
    theorems = tuple(
        "Earverif.Cursor." + t
        for t in ("tell_spec", "seek_spec", "read_spec", "iter_refines", "specIter_tiles", "ops_refine", "open_at_zero")
    )
    trusted_base = (
        "model Earverif/Model/Bw64Cursor.lean is a hand transliteration of Bw64Reader.seek/tell/read/__len__/"
        "iter_sample_blocks; BytesIO.seek/read/tell semantics are assumed as modelled by bufRead",
        "PCM decoding of the bytes read is C16's subject; here a read is identified with the byte range handed to the decoder",
    )
    assumptions = (
        "operations within the quantifier: read(n) with n >= 0, iter_sample_blocks(bs) with bs >= 1 "
        "(bs = 0 does not terminate in the real code; negative n reads to the end of the file)",
        "data chunk size is a whole number of frames (true of every file the writer produces)",
    )
    rule = (
        "op sequences over generated files (bit depth x channels x frame count x RIFF/BW64): exhaustive over a "
        "boundary alphabet up to a length bound, then seeded random longer sequences; a case is one (file, op "
        "sequence); non-trivial = contains at least one seek and one read/iter; distinct by (file params, ops)"
    )

    def files(self, ctx):
        fs = []
        for bd, ch, n, bw in [(16, 1, 0, False), (16, 2, 3, False), (24, 1, 1, False), (24, 3, 2, True),
                              (32, 2, 4, False), (16, 1, 2, True)]:
            fs.append((bd, ch, n, bw))
        return fs

    def _compare(self, ctx, driver, batch):
        """batch: list of (fileparams, data, ops)."""
        lines, metas = [], []
        for (bd, ch, n, bw), data, ops in batch:
            real = Real(data, bd, ch, n)
            cfg = (real.data_off, real.A, n * real.A, len(data))
            lines.append(op_line(cfg, ops))
            metas.append((real, cfg))
        outs = driver.run(lines)
        for ((fp, data, ops), (real, cfg), line) in zip(batch, metas, outs):
            model_outs, model_pos = parse_model(line, cfg[0], cfg[1])
            real_outs = [real.op(op) for op in ops]
            real_pos = cfg[0] + cfg[1] * int(real.r.tell())
            nontriv = any(o[0] == "s" for o in ops) and any(o[0] in "ri" for o in ops)
            ctx.case((fp, ops), nontriv, sample={"file": fp, "ops": ops, "outputs": real_outs} if nontriv else None)
            for o in ops:
                ctx.count("op:" + o[0])
            if model_outs != real_outs or model_pos != real_pos:
                ctx.disagree("Bw64Reader vs Earverif.Cursor.run", {"file": fp, "ops": ops},
                             (model_outs, model_pos), (real_outs, real_pos))
            else:
                ctx.validated()
            # the direct predicate (spec written from the property text) on the real outputs
            self._predicate(ctx, fp, ops, real_outs)

    def _predicate(self, ctx, fp, ops, real_outs):
        ok_ops = all(not (o[0] == "r" and o[1] < 0) and not (o[0] == "i" and o[1] < 1) for o in ops)
        if not ok_ops:
            return
        want, _ = spec_run(fp[2], ops)
        if want != real_outs:
            i = next(i for i, (a, b) in enumerate(zip(want, real_outs)) if a != b)
            tags = []
            if real_outs[i] == ("X", "AttributeError") and ops[i][0] == "s":
                tags.append("seek-past-end-attributeerror")
            ctx.hit("reader output differs from cursor spec", {"file": fp, "ops": ops[: i + 1]},
                    {"expected": want[i], "got": real_outs[i], "op_index": i}, tags)

    def correspond(self, ctx):
        driver = Driver("c18driver", "Earverif.Driver.C18")
        maxlen = 2 if ctx.quick else 3
        batch = []
        for fp in self.files(ctx):
            data = make_file(*fp)
            alpha = alphabet(fp[2])
            for L in range(1, maxlen + 1):
                for ops in itertools.product(alpha, repeat=L):
                    # observe the cursor after every sequence
                    batch.append((fp, data, tuple(ops) + (("t",),)))
        nrand = 300 if ctx.quick else 6000
        for i in range(nrand):
            bd = ctx.rng.choice([16, 24, 32]); ch = ctx.rng.randint(1, 4); n = ctx.rng.randint(0, 40)
            fp = (bd, ch, n, ctx.rng.random() < 0.3)
            data = make_file(*fp)
            batch.append((fp, data, tuple(random_ops(ctx.rng, n, ctx.rng.randint(3, 40 if ctx.quick else 400)))))
        # large files and large requests (more than one 8192-frame library block per read / iteration block)
        big = [(16, 1, 20000, False), (24, 2, 17000, True), (32, 3, 8193, False), (24, 2, 16384, False)]
        sizes = [8191, 8192, 8193, 11000, 12000, 16384, 16385, 20000]
        for fp in (big if not ctx.quick else [big[ctx.seed % len(big)], big[(ctx.seed + 1) % len(big)]]):
            data = make_file(*fp)
            N = fp[2]
            for _ in range(12 if ctx.quick else 80):
                ops = []
                for _ in range(ctx.rng.randint(2, 6)):
                    k = ctx.rng.random()
                    if k < 0.35:
                        ops.append(("s", ctx.rng.choice([0, 500, 5000, N - 9000, N - 1, -3, -8193, -9000]), ctx.rng.choice([0, 1, 2])))
                    elif k < 0.75:
                        ops.append(("r", ctx.rng.choice(sizes + [1, 100])))
                    else:
                        ops.append(("i", ctx.rng.choice(sizes)))
                    ops.append(("t",))
                batch.append((fp, data, tuple(ops)))
                ctx.count("large-file-case")
        for i in range(0, len(batch), 20000):
            self._compare(ctx, driver, batch[i:i + 20000])

    def search(self, ctx, deep):
        # the predicate already ran on every correspondence case; when something broke (or thorough),
        # run it on a further boundary-directed stream that does not need the Lean driver
        if not deep:
            return
        for fp in self.files(ctx):
            data = make_file(*fp)
            alpha = alphabet(fp[2])
            for ops in itertools.product(alpha, repeat=2):
                ops = tuple(ops) + (("t",),)
                real = Real(data, fp[0], fp[1], fp[2])
                outs = [real.op(o) for o in ops]
                ctx.case(("search", fp, ops), True)
                self._predicate(ctx, fp, ops, outs)


SPEC = C18()

REGISTRY = dict(
    text="FULL: Lean theorems (Earverif.Cursor.ops_refine, seek_spec, read_spec, tell_spec, iter_refines, "
    "specIter_tiles) prove for every operation sequence, file size and cursor that the byte-level model of "
    "Bw64Reader.seek/tell/read/iter_sample_blocks refines a list-plus-cursor specification; the model is tied to "
    "the code on every run by driving the real reader and the Lean model with the same generated operation "
    "sequences (exhaustive over a boundary alphabet up to a length bound, then random) and diffing outputs.",
    note="Trusted: Lean kernel, hand transliteration of the reader's cursor arithmetic + correspondence harness, "
    "BytesIO semantics as modelled. Quantifier limits: read(n>=0), iter block size >= 1 (0 hangs in the real code).",
    technique="Lean 4 refinement proof (induction over operation sequences) + differential correspondence with the real reader",
    design_ref="DESIGN.md section 4, C18",
)
