/-
Round trip of the declarative XML combinators (`Model/XmlCodec.lean`): if every field codec round-trips
on the value it carries, handler keys and argument names are pairwise distinct, elided defaults agree with
the constructor defaults and the hand-written handlers (parameters) leave the declarative arguments alone,
then parsing what `to_xml` wrote gives the object back.  Core Lean only.
-/
import Earverif.Model.XmlCodec

set_option linter.unusedSectionVars false

namespace Earverif.XmlCodec

variable {V : Type} [DecidableEq V]

/-! ### generic list lemmas -/

theorem findSome?_unique {α β} {f : α → Option β} {p : α} {b : β} :
    ∀ {l : List α}, p ∈ l → f p = some b → (∀ q ∈ l, (f q).isSome → q = p) → l.findSome? f = some b := by
  intro l
  induction l with
  | nil => intro h; cases h
  | cons x xs ih =>
    intro hp hf hu
    rw [List.findSome?_cons]
    cases hx : f x with
    | some y =>
      have := hu x (by simp) (by simp [hx])
      subst this
      rw [hx] at hf; simpa using hf
    | none =>
      simp only
      rcases List.mem_cons.mp hp with rfl | hp'
      · rw [hf] at hx; cases hx
      · exact ih hp' hf (fun q hq => hu q (by simp [hq]))

theorem findSome?_none {α β} {f : α → Option β} {l : List α} (h : ∀ q ∈ l, f q = none) :
    l.findSome? f = none := by
  induction l with
  | nil => rfl
  | cons x xs ih =>
    rw [List.findSome?_cons, h x (by simp)]
    exact ih (fun q hq => h q (by simp [hq]))

theorem nodup_flatMap_unique {α β} {f : α → List β} :
    ∀ {l : List α}, (l.flatMap f).Nodup → ∀ p ∈ l, ∀ q ∈ l, ∀ k, k ∈ f p → k ∈ f q → p = q := by
  intro l
  induction l with
  | nil => intro _ p hp; cases hp
  | cons x xs ih =>
    intro h p hp q hq k hkp hkq
    rw [List.flatMap_cons, List.nodup_append] at h
    obtain ⟨_, h2, h3⟩ := h
    rcases List.mem_cons.mp hp with rfl | hp' <;> rcases List.mem_cons.mp hq with rfl | hq'
    · rfl
    · exact absurd rfl (h3 k hkp k (List.mem_flatMap.mpr ⟨q, hq', hkq⟩))
    · exact absurd rfl (h3 k hkq k (List.mem_flatMap.mpr ⟨p, hp', hkp⟩))
    · exact ih h2 p hp' q hq' k hkp hkq

theorem nodup_filterMap_unique {α β} {f : α → Option β} :
    ∀ {l : List α}, (l.filterMap f).Nodup → ∀ p ∈ l, ∀ q ∈ l, ∀ a, f p = some a → f q = some a → p = q := by
  intro l
  induction l with
  | nil => intro _ p hp; cases hp
  | cons x xs ih =>
    intro h p hp q hq a hfp hfq
    rcases List.mem_cons.mp hp with rfl | hp' <;> rcases List.mem_cons.mp hq with rfl | hq'
    · rfl
    · rw [List.filterMap_cons, hfp, List.nodup_cons] at h
      exact absurd (List.mem_filterMap.mpr ⟨q, hq', hfq⟩) h.1
    · rw [List.filterMap_cons, hfq, List.nodup_cons] at h
      exact absurd (List.mem_filterMap.mpr ⟨p, hp', hfp⟩) h.1
    · have h' : (xs.filterMap f).Nodup := by
        rw [List.filterMap_cons] at h
        cases hx : f x with
        | none => rw [hx] at h; exact h
        | some y => rw [hx, List.nodup_cons] at h; exact h.2
      exact ih h' p hp' q hq' a hfp hfq

theorem findSome?_owner' {α β} {f : α → Option β} {p : α} {l : List α} (hp : p ∈ l)
    (hu : ∀ q ∈ l, (f q).isSome → q = p) : l.findSome? f = f p := by
  cases hf : f p with
  | some b => exact findSome?_unique hp hf hu
  | none =>
    apply findSome?_none
    intro q hq
    cases hq' : f q with
    | none => rfl
    | some y => have := hu q hq (by simp [hq']); subst this; rw [hf] at hq'; cases hq'

/-! ### handler lookup -/

omit [DecidableEq V] in
theorem matchesName_outName (adm : String) : matchesName (outName adm) adm = true := by
  simp [matchesName, outName, namespaces, defaultNs]

omit [DecidableEq V] in
theorem matchesName_name {key : QName} {adm : String} (h : matchesName key adm = true) : key.name = adm := by
  simp only [matchesName, Bool.and_eq_true, beq_iff_eq] at h
  exact h.1

theorem attrHandler_isSome_mem {p : Property V} {key : String} (h : (p.attrHandler? key).isSome) :
    key ∈ p.attrKeys := by
  cases p <;> simp only [Property.attrHandler?, Property.attrKeys] at h ⊢ <;> try (cases h)
  · split at h
    · simp [*]
    · cases h
  · split at h
    · simp [*]
    · split at h
      · simp [*]
      · cases h

theorem elemHandler_isSome_mem {p : Property V} {key : QName} (h : (p.elemHandler? key).isSome) :
    key.name ∈ p.elemNames := by
  cases p <;> simp only [Property.elemHandler?, Property.elemNames] at h ⊢ <;> try (cases h)
  all_goals
    split at h
    · rename_i hm; simp [matchesName_name hm]
    · cases h

/-- key uniqueness (the obligation checked on the extracted tables) -/
structure KeysOK (ps : List (Property V)) : Prop where
  attrs : (ps.flatMap (·.attrKeys)).Nodup
  elems : (ps.flatMap (·.elemNames)).Nodup
  args : (allArgs ps).Nodup
  text : (ps.filterMap (·.textHandler?)).length ≤ 1

theorem lookupAttr_of_mem {ps : List (Property V)} (hk : KeysOK ps) {p : Property V} (hp : p ∈ ps)
    {key : String} {h : Kw V → String → Option (Kw V)} (hh : p.attrHandler? key = some h) :
    lookupAttr ps key = some h := by
  unfold lookupAttr
  refine findSome?_unique (List.mem_reverse.mpr hp) hh ?_
  intro q hq hs
  have hq' := List.mem_reverse.mp hq
  exact nodup_flatMap_unique hk.attrs q hq' p hp key (attrHandler_isSome_mem hs)
    (attrHandler_isSome_mem (by simp [hh]))

theorem lookupElem_of_mem {ps : List (Property V)} (hk : KeysOK ps) {p : Property V} (hp : p ∈ ps)
    {key : QName} {h : Kw V → Xml → Option (Kw V)} (hh : p.elemHandler? key = some h) :
    lookupElem ps key = some h := by
  unfold lookupElem
  refine findSome?_unique (List.mem_reverse.mpr hp) hh ?_
  intro q hq hs
  have hq' := List.mem_reverse.mp hq
  exact nodup_flatMap_unique hk.elems q hq' p hp key.name (elemHandler_isSome_mem hs)
    (elemHandler_isSome_mem (by simp [hh]))

/-! ### the loops -/

theorem parseAttrs_append (ps : List (Property V)) (xs ys : List (String × String)) (kw : Kw V) :
    parseAttrs ps (xs ++ ys) kw = (parseAttrs ps xs kw).bind (parseAttrs ps ys) := by
  induction xs generalizing kw with
  | nil => simp [parseAttrs]
  | cons x xs ih =>
    obtain ⟨k, v⟩ := x
    simp only [List.cons_append, parseAttrs]
    cases lookupAttr ps k with
    | none => exact ih kw
    | some h =>
      simp only
      cases h kw v with
      | none => rfl
      | some kw2 => simp only [Option.bind_some]; exact ih kw2

theorem parseChildren_append (ps : List (Property V)) (xs ys : List Xml) (kw : Kw V) :
    parseChildren ps (xs ++ ys) kw = (parseChildren ps xs kw).bind (parseChildren ps ys) := by
  induction xs generalizing kw with
  | nil => simp [parseChildren]
  | cons x xs ih =>
    simp only [List.cons_append, parseChildren]
    cases lookupElem ps x.tag with
    | none => exact ih kw
    | some h =>
      simp only
      cases h kw x with
      | none => rfl
      | some kw2 => simp only [Option.bind_some]; exact ih kw2

theorem parseAttrs_unhandled (ps : List (Property V)) (xs : List (String × String)) (kw : Kw V)
    (h : ∀ kv ∈ xs, lookupAttr ps kv.1 = none) : parseAttrs ps xs kw = some kw := by
  induction xs with
  | nil => rfl
  | cons x xs ih =>
    obtain ⟨k, v⟩ := x
    simp only [parseAttrs, h (k, v) (by simp)]
    exact ih (fun kv hkv => h kv (by simp [hkv]))

theorem parseChildren_unhandled (ps : List (Property V)) (xs : List Xml) (kw : Kw V)
    (h : ∀ x ∈ xs, lookupElem ps x.tag = none) : parseChildren ps xs kw = some kw := by
  induction xs with
  | nil => rfl
  | cons x xs ih =>
    simp only [parseChildren, h x (by simp)]
    exact ih (fun y hy => h y (by simp [hy]))

omit [DecidableEq V] in
theorem Kw.set_same (kw : Kw V) (a : String) (x : Val V) : (kw.set a x) a = some x := by
  simp [Kw.set]

omit [DecidableEq V] in
theorem Kw.set_other (kw : Kw V) {a b : String} (x : Val V) (h : b ≠ a) : (kw.set a x) b = kw b := by
  simp [Kw.set, h]

/-! ### hypotheses on the fields -/

/-- what the attribute pass stores under argument `a` because of property `p` -/
def attrEff (o : Obj V) (a : String) : Property V → Option (Val V)
  | .attr _ arg _ _ dflt =>
    if arg = a then (match o arg with | .one v => if v ≠ dflt then some (.one v) else none | .many _ => none)
    else none
  | .typeAttribute _ _ arg _ _ _ =>
    if arg = a then (match o arg with | .one v => some (.one v) | .many _ => none) else none
  | _ => none

/-- the state during the child-element pass: whatever the attribute pass stored is still there (this is what
a hand-written element handler may rely on, e.g. `kwargs["type"]` in the audioBlockFormat handler) -/
def AttrCtx (ps : List (Property V)) (o : Obj V) (kw : Kw V) : Prop :=
  ∀ a v, ps.findSome? (attrEff o a) = some v → kw a = some v

/-- a hand-written handler run on its own output, from a state in which its arguments are not yet set:
succeeds, stores exactly `eff` under its own arguments and leaves every other argument alone -/
def RunOK (o : Obj V) (impl : CustomImpl V) (run : Kw V → Option (Kw V)) : Prop :=
  ∀ kw, (∀ a ∈ impl.own, kw a = none) →
    ∃ kw', run kw = some kw' ∧ (∀ a ∈ impl.own, kw' a = impl.eff o a) ∧ (∀ b, b ∉ impl.own → kw' b = kw b)

/-- the same, for states that satisfy a context condition `C` -/
def RunOKC (C : Kw V → Prop) (o : Obj V) (impl : CustomImpl V) (run : Kw V → Option (Kw V)) : Prop :=
  ∀ kw, C kw → (∀ a ∈ impl.own, kw a = none) →
    ∃ kw', run kw = some kw' ∧ (∀ a ∈ impl.own, kw' a = impl.eff o a) ∧ (∀ b, b ∉ impl.own → kw' b = kw b)

theorem RunOK.ctx {C : Kw V → Prop} {o : Obj V} {impl : CustomImpl V} {run : Kw V → Option (Kw V)}
    (h : RunOK o impl run) : RunOKC C o impl run := fun kw _ hn => h kw hn

/-- a scalar field: the object holds a scalar that its codec round-trips (needed only when it is written, i.e.
differs from the elided default); an optional field elides exactly the constructor default, a required field
never holds the elided value -/
def ScalarOK (o cd : Obj V) (arg : String) (c : Codec V) (req : Bool) (dflt : V) : Prop :=
  ∃ v, o arg = .one v ∧ (v ≠ dflt → c.loads (c.dumps v) = some v) ∧ (if req then v ≠ dflt else cd arg = .one dflt)

/-- hypotheses per property; `e` is the whole element written by `to_xml` (what a `GenericElement` handler is
given).  For the hand-written handlers: their output is routed to their own handler (`CustomElement`) or to
nobody (`GenericElement`, extra attributes), they behave as `RunOK` says, and a required argument is one
they own and deliver. -/
def FieldOK (ps : List (Property V)) (e : Xml) (o cd : Obj V) : Property V → Prop
  | .attr _ arg c req dflt => ScalarOK o cd arg c req dflt
  | .attrElement _ arg c req dflt po => (po = true ∧ req = false) ∨ (po = false ∧ ScalarOK o cd arg c req dflt)
  | .listElement _ arg c req po =>
    (po = true ∧ req = false) ∨ po = false ∧ ∃ vs, o arg = .many vs ∧ (∀ v ∈ vs, c.loads (c.dumps v) = some v) ∧
      (vs = [] → req = false ∧ cd arg = .many [])
  | .handleText arg c => ∃ v, o arg = .one v ∧ c.loads (c.dumps v) = some v
  | .typeAttribute _ _ arg cD cL _ =>
    ∃ v, o arg = .one v ∧ cD.loads (cD.dumps v) = some v ∧ cL.loads (cL.dumps v) = some v
  | .customElement adm arg req impl =>
    (∀ x ∈ impl.childrenOut o, matchesName x.tag adm = true) ∧
    (∀ kv ∈ impl.attrsOut o, lookupAttr ps kv.1 = none) ∧
    RunOKC (AttrCtx ps o) o impl (fun kw => (impl.childrenOut o).foldlM impl.handle kw) ∧
    (req = true → ∀ a, arg = some a → a ∈ impl.own ∧ (impl.eff o a).isSome)
  | .genericElement arg req impl =>
    (∀ x ∈ impl.childrenOut o, lookupElem ps x.tag = none) ∧
    (∀ kv ∈ impl.attrsOut o, lookupAttr ps kv.1 = none) ∧
    RunOK o impl (fun kw => impl.handle kw e) ∧
    (req = true → ∀ a, arg = some a → a ∈ impl.own ∧ (impl.eff o a).isSome)

/-! ### what each pass contributes to an argument -/

def childEff (o : Obj V) (a : String) : Property V → Option (Val V)
  | .attrElement _ arg _ _ dflt po =>
    if po then none else
    if arg = a then (match o arg with | .one v => if v ≠ dflt then some (.one v) else none | .many _ => none)
    else none
  | .listElement _ arg _ _ po =>
    if po then none else
    if arg = a then (match o arg with | .many vs => if vs = [] then none else some (.many vs) | .one _ => none)
    else none
  | .customElement _ _ _ impl => if a ∈ impl.own then impl.eff o a else none
  | _ => none

def textEff (o : Obj V) (a : String) : Property V → Option (Val V)
  | .handleText arg _ => if arg = a then (match o arg with | .one v => some (.one v) | .many _ => none) else none
  | _ => none

def genEff (o : Obj V) (a : String) : Property V → Option (Val V)
  | .genericElement _ _ impl => if a ∈ impl.own then impl.eff o a else none
  | _ => none

theorem attrEff_own {o : Obj V} {a : String} {p : Property V} (h : (attrEff o a p).isSome) : a ∈ p.ownArgs := by
  cases p <;> simp only [attrEff, Property.ownArgs] at h ⊢ <;> try (cases h)
  all_goals
    split at h
    · simp [*]
    · cases h

theorem childEff_own {o : Obj V} {a : String} {p : Property V} (h : (childEff o a p).isSome) : a ∈ p.ownArgs := by
  cases p <;> simp only [childEff, Property.ownArgs] at h ⊢ <;> try (cases h)
  · split at h
    · cases h
    · split at h
      · simp [*]
      · cases h
  · split at h
    · cases h
    · split at h
      · simp [*]
      · cases h
  · split at h
    · assumption
    · cases h

theorem textEff_own {o : Obj V} {a : String} {p : Property V} (h : (textEff o a p).isSome) : a ∈ p.ownArgs := by
  cases p <;> simp only [textEff, Property.ownArgs] at h ⊢ <;> try (cases h)
  split at h
  · simp [*]
  · cases h

theorem genEff_own {o : Obj V} {a : String} {p : Property V} (h : (genEff o a p).isSome) : a ∈ p.ownArgs := by
  cases p <;> simp only [genEff, Property.ownArgs] at h ⊢ <;> try (cases h)
  split at h
  · assumption
  · cases h

theorem attrEff_some_childEff {o : Obj V} {a : String} {p : Property V} (h : (attrEff o a p).isSome) :
    childEff o a p = none := by
  cases p <;> simp only [attrEff, childEff] at h ⊢ <;> first | rfl | cases h

omit [DecidableEq V] in
theorem allArgs_tail_nodup {p : Property V} {l : List (Property V)} (h : (allArgs (p :: l)).Nodup) :
    (allArgs l).Nodup := by
  unfold allArgs at h ⊢
  rw [List.flatMap_cons, List.nodup_append] at h
  exact h.2.1

omit [DecidableEq V] in
/-- the head's arguments are not arguments of the tail -/
theorem own_head_notin {p : Property V} {l : List (Property V)} {a : String}
    (h : (allArgs (p :: l)).Nodup) (hp : a ∈ p.ownArgs) : ∀ q ∈ l, a ∉ q.ownArgs := by
  intro q hq hqa
  unfold allArgs at h
  rw [List.flatMap_cons, List.nodup_append] at h
  exact h.2.2 a hp a (List.mem_flatMap.mpr ⟨q, hq, hqa⟩) rfl

omit [DecidableEq V] in
theorem mem_allArgs {ps : List (Property V)} {p : Property V} {a : String} (hp : p ∈ ps)
    (ha : a ∈ p.ownArgs) : a ∈ allArgs ps :=
  List.mem_flatMap.mpr ⟨p, hp, ha⟩

omit [DecidableEq V] in
theorem declArg_own {p : Property V} {a : String} (h : p.declArg? = some a) : a ∈ p.ownArgs := by
  cases p <;> simp only [Property.declArg?, Property.ownArgs] at h ⊢
  · simp_all
  · split at h <;> simp_all
  · split at h <;> simp_all
  · simp_all
  · simp_all
  · cases h
  · cases h

/-- a pass over a tail `l` of the property list in which the head either does nothing or stores values
under (some of) its own arguments: the common induction step -/
theorem pass_step {α} (run : List α → Kw V → Option (Kw V)) (eff : String → Property V → Option (Val V))
    (p : Property V) (l : List (Property V)) (kw kw2 : Kw V) (out : Property V → List α)
    (happ : ∀ xs ys kw, run (xs ++ ys) kw = (run xs kw).bind (run ys))
    (heffown : ∀ a q, (eff a q).isSome → a ∈ q.ownArgs)
    (hnd : (allArgs (p :: l)).Nodup)
    (hrun : run (out p) kw = some kw2)
    (hset : ∀ a ∈ p.ownArgs, kw2 a = (eff a p).or (kw a))
    (hoth : ∀ b, b ∉ p.ownArgs → kw2 b = kw b)
    (ih : ∃ kw', run (l.flatMap out) kw2 = some kw' ∧ ∀ a, kw' a = (l.findSome? (eff a)).or (kw2 a)) :
    ∃ kw', run ((p :: l).flatMap out) kw = some kw' ∧ ∀ a, kw' a = ((p :: l).findSome? (eff a)).or (kw a) := by
  obtain ⟨kw', h3, h4⟩ := ih
  refine ⟨kw', by rw [List.flatMap_cons, happ, hrun]; simpa using h3, fun a => ?_⟩
  rw [List.findSome?_cons, h4 a]
  by_cases ha : a ∈ p.ownArgs
  · have hnot := own_head_notin hnd ha
    have : l.findSome? (eff a) = none :=
      findSome?_none (fun q hq => by
        cases hq' : eff a q with
        | none => rfl
        | some y => exact absurd (heffown a q (by rw [hq']; rfl)) (hnot q hq))
    rw [this, hset a ha]
    cases eff a p <;> simp
  · have : eff a p = none := by
      cases hq' : eff a p with
      | none => rfl
      | some y => exact absurd (heffown a p (by rw [hq']; rfl)) ha
    rw [this, hoth a ha]

/-! ### the attribute pass -/

theorem attrs_loop (ps : List (Property V)) (hk : KeysOK ps) (e : Xml) (o cd : Obj V) :
    ∀ (l : List (Property V)), (∀ p ∈ l, p ∈ ps ∧ FieldOK ps e o cd p) → (allArgs l).Nodup → ∀ kw : Kw V,
      (∀ p ∈ l, ∀ a ∈ p.ownArgs, kw a = none) →
      ∃ kw', parseAttrs ps (l.flatMap (·.attrsOut o)) kw = some kw' ∧
        ∀ a, kw' a = (l.findSome? (attrEff o a)).or (kw a) := by
  intro l
  induction l with
  | nil => intro _ _ kw _; exact ⟨kw, rfl, fun a => by simp⟩
  | cons p l ih =>
    intro hl hnd kw hinv
    have hp : p ∈ ps := (hl p (by simp)).1
    have hfield := (hl p (by simp)).2
    have hl' : ∀ q ∈ l, q ∈ ps ∧ FieldOK ps e o cd q := fun q hq => hl q (by simp [hq])
    have hnd' := allArgs_tail_nodup hnd
    -- the general step
    have step : ∀ kw2, parseAttrs ps (p.attrsOut o) kw = some kw2 →
        (∀ a ∈ p.ownArgs, kw2 a = (attrEff o a p).or (kw a)) → (∀ b, b ∉ p.ownArgs → kw2 b = kw b) →
        ∃ kw', parseAttrs ps ((p :: l).flatMap (·.attrsOut o)) kw = some kw' ∧
          ∀ a, kw' a = ((p :: l).findSome? (attrEff o a)).or (kw a) := by
      intro kw2 hrun hset hoth
      refine pass_step (parseAttrs ps) (attrEff o) p l kw kw2 (·.attrsOut o) (parseAttrs_append ps)
        (fun a q h => attrEff_own h) hnd hrun hset hoth ?_
      apply ih hl' hnd' kw2
      intro q hq a ha
      have : a ∉ p.ownArgs := fun h => own_head_notin hnd h q hq ha
      rw [hoth a this]; exact hinv q (by simp [hq]) a ha
    have idle : parseAttrs ps (p.attrsOut o) kw = some kw → (∀ a, attrEff o a p = none) →
        ∃ kw', parseAttrs ps ((p :: l).flatMap (·.attrsOut o)) kw = some kw' ∧
          ∀ a, kw' a = ((p :: l).findSome? (attrEff o a)).or (kw a) := by
      intro h1 h2
      exact step kw h1 (fun a _ => by simp [h2 a]) (fun _ _ => rfl)
    have stores : ∀ (arg : String) (v : V), p.ownArgs = [arg] → o arg = .one v →
        parseAttrs ps (p.attrsOut o) kw = some (kw.set arg (.one v)) →
        (∀ a, attrEff o a p = if arg = a then some (.one v) else none) →
        ∃ kw', parseAttrs ps ((p :: l).flatMap (·.attrsOut o)) kw = some kw' ∧
          ∀ a, kw' a = ((p :: l).findSome? (attrEff o a)).or (kw a) := by
      intro arg v hown hov hrun heff
      refine step _ hrun ?_ ?_
      · intro a ha
        rw [hown] at ha; simp only [List.mem_singleton] at ha; subst ha
        simp [heff, Kw.set_same]
      · intro b hb
        rw [hown] at hb; simp only [List.mem_singleton] at hb
        exact Kw.set_other _ _ hb
    cases p with
    | attr adm arg c req dflt =>
      obtain ⟨v, hov, hrt, _⟩ := hfield
      by_cases hvd : v = dflt
      · exact idle (by simp [Property.attrsOut, hov, hvd, parseAttrs]) (fun a => by simp [attrEff, hov, hvd])
      · refine stores arg v rfl hov ?_ (fun a => by simp [attrEff, hov, hvd])
        have hlk := lookupAttr_of_mem hk hp (key := adm)
          (h := fun kw v => (c.loads v).map fun x => kw.set arg (.one x)) (by simp [Property.attrHandler?])
        simp [Property.attrsOut, hov, hvd, parseAttrs, hlk, hrt hvd]
    | typeAttribute d l' arg cD cL req =>
      obtain ⟨v, hov, hrtD, hrtL⟩ := hfield
      refine stores arg v rfl hov ?_ (fun a => by simp [attrEff, hov])
      have hdl : d ≠ l' := by
        have := hk.attrs
        intro hdl; subst hdl
        have hsub : List.Sublist [d, d] (ps.flatMap (·.attrKeys)) := by
          obtain ⟨s, t, hst⟩ := List.append_of_mem hp
          rw [hst, List.flatMap_append, List.flatMap_cons]
          exact List.Sublist.trans (List.sublist_append_left _ _) (List.sublist_append_right _ _)
        have := List.Nodup.sublist hsub this
        simp at this
      have hlkL := lookupAttr_of_mem hk hp (key := l') (h := typeHandler arg cL) (by simp [Property.attrHandler?])
      have hlkD := lookupAttr_of_mem hk hp (key := d) (h := typeHandler arg cD)
        (by simp [Property.attrHandler?, hdl])
      have hnone : kw arg = none := hinv (Property.typeAttribute d l' arg cD cL req) (by simp) arg (by simp [Property.ownArgs])
      have h1 : typeHandler arg cL kw (cL.dumps v) = some (kw.set arg (.one v)) := by
        simp [typeHandler, hrtL, hnone]
      have h2 : typeHandler arg cD (kw.set arg (.one v)) (cD.dumps v) = some (kw.set arg (.one v)) := by
        simp only [typeHandler, hrtD, Kw.set_same, if_true]
        congr 1; funext b; by_cases hb : b = arg <;> simp [Kw.set, hb]
      simp [Property.attrsOut, hov, parseAttrs, hlkL, hlkD, h1, h2]
    | attrElement adm arg c req dflt po => exact idle rfl (fun a => rfl)
    | listElement adm arg c req po => exact idle rfl (fun a => rfl)
    | handleText arg c => exact idle rfl (fun a => rfl)
    | customElement adm arg req impl =>
      exact idle (parseAttrs_unhandled ps _ kw hfield.2.1) (fun a => rfl)
    | genericElement arg req impl =>
      exact idle (parseAttrs_unhandled ps _ kw hfield.2.1) (fun a => rfl)

/-! ### the child-element pass -/

/-- children written by a `CustomElement` all go to its own handler -/
theorem custom_children (ps : List (Property V)) (hk : KeysOK ps) (o : Obj V)
    (adm : String) (arg : Option String) (req : Bool) (impl : CustomImpl V)
    (hp : Property.customElement adm arg req impl ∈ ps) :
    ∀ xs : List Xml, (∀ x ∈ xs, matchesName x.tag adm = true) → ∀ kw : Kw V,
      parseChildren ps xs kw = xs.foldlM impl.handle kw := by
  intro xs
  induction xs with
  | nil => intro _ kw; rfl
  | cons x xs ih =>
    intro hx kw
    have hlk := lookupElem_of_mem hk hp (key := x.tag) (h := impl.handle)
      (by simp [Property.elemHandler?, hx x (by simp)])
    simp only [parseChildren, hlk, List.foldlM_cons]
    cases impl.handle kw x with
    | none => rfl
    | some kw2 => simpa using ih (fun y hy => hx y (by simp [hy])) kw2

/-- the elements written by a `ListElement` are appended one by one -/
theorem list_loop (ps : List (Property V)) (hk : KeysOK ps)
    (adm arg : String) (c : Codec V) (req po : Bool)
    (hp : Property.listElement adm arg c req po ∈ ps) :
    ∀ (vs acc : List V) (kw : Kw V), (∀ v ∈ vs, c.loads (c.dumps v) = some v) → kw arg = some (.many acc) →
      ∃ kw', parseChildren ps (vs.map fun v => leafElem adm (c.dumps v)) kw = some kw' ∧
        kw' arg = some (.many (acc ++ vs)) ∧ ∀ b, b ≠ arg → kw' b = kw b := by
  have hlk := lookupElem_of_mem hk hp (key := outName adm) (h := listElementHandler arg c)
    (by simp [Property.elemHandler?, matchesName_outName])
  intro vs
  induction vs with
  | nil => intro acc kw _ h; exact ⟨kw, rfl, by simpa using h, fun _ _ => rfl⟩
  | cons v vs ih =>
    intro acc kw hrt hkw
    obtain ⟨kw', h1, h2, h3⟩ := ih (acc ++ [v]) (kw.set arg (.many (acc ++ [v])))
      (fun w hw => hrt w (by simp [hw])) (Kw.set_same _ _ _)
    refine ⟨kw', ?_, by simpa using h2, fun b hb => by rw [h3 b hb, Kw.set_other _ _ hb]⟩
    simp only [List.map_cons, parseChildren]
    have : (leafElem adm (c.dumps v)).tag = outName adm := rfl
    rw [this, hlk]
    have hh : listElementHandler arg c kw (leafElem adm (c.dumps v)) = some (kw.set arg (.many (acc ++ [v]))) := by
      simp [listElementHandler, leafElem, Xml.text, hrt v (by simp), hkw]
    simp only [hh, Option.bind_some]
    exact h1

/-- the arguments a property may write in the child-element pass -/
def Property.childOwn : Property V → List String
  | .attrElement _ arg _ _ _ po => if po then [] else [arg]
  | .listElement _ arg _ _ po => if po then [] else [arg]
  | .customElement _ _ _ impl => impl.own
  | _ => []

omit [DecidableEq V] in
theorem childOwn_own {p : Property V} {a : String} (h : a ∈ p.childOwn) : a ∈ p.ownArgs := by
  cases p <;> simp only [Property.childOwn, Property.ownArgs] at h ⊢ <;> first | exact h | cases h

theorem children_loop (ps : List (Property V)) (hk : KeysOK ps) (e : Xml) (o cd : Obj V) :
    ∀ (l : List (Property V)), (∀ p ∈ l, p ∈ ps ∧ FieldOK ps e o cd p) → (allArgs l).Nodup → ∀ kw : Kw V,
      AttrCtx ps o kw → (∀ p ∈ l, ∀ a ∈ p.childOwn, kw a = none) →
      ∃ kw', parseChildren ps (l.flatMap (·.childrenOut o)) kw = some kw' ∧
        ∀ a, kw' a = (l.findSome? (childEff o a)).or (kw a) := by
  intro l
  induction l with
  | nil => intro _ _ kw _ _; exact ⟨kw, rfl, fun a => by simp⟩
  | cons p l ih =>
    intro hl hnd kw hctx hinv
    have hp : p ∈ ps := (hl p (by simp)).1
    have hfield := (hl p (by simp)).2
    have hl' : ∀ q ∈ l, q ∈ ps ∧ FieldOK ps e o cd q := fun q hq => hl q (by simp [hq])
    have hnd' := allArgs_tail_nodup hnd
    have step : ∀ kw2, parseChildren ps (p.childrenOut o) kw = some kw2 →
        (∀ a ∈ p.ownArgs, kw2 a = (childEff o a p).or (kw a)) → (∀ b, b ∉ p.ownArgs → kw2 b = kw b) →
        ∃ kw', parseChildren ps ((p :: l).flatMap (·.childrenOut o)) kw = some kw' ∧
          ∀ a, kw' a = ((p :: l).findSome? (childEff o a)).or (kw a) := by
      intro kw2 hrun hset hoth
      refine pass_step (parseChildren ps) (childEff o) p l kw kw2 (·.childrenOut o) (parseChildren_append ps)
        (fun a q h => childEff_own h) hnd hrun hset hoth ?_
      have hctx2 : AttrCtx ps o kw2 := by
        intro a v hv
        by_cases ha : a ∈ p.ownArgs
        · have hown : ps.findSome? (attrEff o a) = attrEff o a p :=
            findSome?_owner' hp (fun q hq hs => nodup_flatMap_unique hk.args q hq p hp a (attrEff_own hs) ha)
          rw [hown] at hv
          rw [hset a ha, attrEff_some_childEff (by rw [hv]; rfl)]
          simpa using hctx a v (by rw [hown]; exact hv)
        · rw [hoth a ha]; exact hctx a v hv
      apply ih hl' hnd' kw2 hctx2
      intro q hq a ha
      have : a ∉ p.ownArgs := fun h => own_head_notin hnd h q hq (childOwn_own ha)
      rw [hoth a this]; exact hinv q (by simp [hq]) a ha
    have idle : parseChildren ps (p.childrenOut o) kw = some kw → (∀ a, childEff o a p = none) →
        ∃ kw', parseChildren ps ((p :: l).flatMap (·.childrenOut o)) kw = some kw' ∧
          ∀ a, kw' a = ((p :: l).findSome? (childEff o a)).or (kw a) := by
      intro h1 h2
      exact step kw h1 (fun a _ => by simp [h2 a]) (fun _ _ => rfl)
    have stores : ∀ (arg : String) (x : Val V), p.ownArgs = [arg] →
        (∃ kw2, parseChildren ps (p.childrenOut o) kw = some kw2 ∧ kw2 arg = some x ∧ ∀ b, b ≠ arg → kw2 b = kw b) →
        (∀ a, childEff o a p = if arg = a then some x else none) →
        ∃ kw', parseChildren ps ((p :: l).flatMap (·.childrenOut o)) kw = some kw' ∧
          ∀ a, kw' a = ((p :: l).findSome? (childEff o a)).or (kw a) := by
      intro arg x hown ⟨kw2, hrun, hset, hoth⟩ heff
      refine step kw2 hrun ?_ ?_
      · intro a ha
        rw [hown] at ha; simp only [List.mem_singleton] at ha; subst ha
        simp [heff, hset]
      · intro b hb
        rw [hown] at hb; simp only [List.mem_singleton] at hb
        exact hoth b hb
    cases p with
    | attr adm arg c req dflt => exact idle rfl (fun a => rfl)
    | typeAttribute d l' arg cD cL req => exact idle rfl (fun a => rfl)
    | handleText arg c => exact idle rfl (fun a => rfl)
    | attrElement adm arg c req dflt po =>
      cases po with
      | true => exact idle (by simp [Property.childrenOut, parseChildren]) (fun a => by simp [childEff])
      | false =>
        rcases hfield with h | ⟨_, v, hov, hrt, _⟩
        · cases h.1
        by_cases hvd : v = dflt
        · exact idle (by simp [Property.childrenOut, hov, hvd, parseChildren])
            (fun a => by simp [childEff, hov, hvd])
        · refine stores arg (.one v) (by simp [Property.ownArgs]) ?_ (fun a => by simp [childEff, hov, hvd])
          have hlk := lookupElem_of_mem hk hp (key := outName adm) (h := attrElementHandler arg c)
            (by simp [Property.elemHandler?, matchesName_outName])
          have hnone : kw arg = none :=
            hinv (Property.attrElement adm arg c req dflt false) (by simp) arg (by simp [Property.childOwn])
          refine ⟨kw.set arg (.one v), ?_, Kw.set_same _ _ _, fun b hb => Kw.set_other _ _ hb⟩
          have : (leafElem adm (c.dumps v)).tag = outName adm := rfl
          have hh : attrElementHandler arg c kw (leafElem adm (c.dumps v)) = some (kw.set arg (.one v)) := by
            simp [attrElementHandler, hnone, leafElem, Xml.text, hrt hvd]
          have hout : (Property.attrElement adm arg c req dflt false).childrenOut o = [leafElem adm (c.dumps v)] := by
            simp [Property.childrenOut, hov, hvd]
          rw [hout]
          simp only [parseChildren, this, hlk, hh, Option.bind_some]
    | listElement adm arg c req po =>
      cases po with
      | true => exact idle (by simp [Property.childrenOut, parseChildren]) (fun a => by simp [childEff])
      | false =>
        rcases hfield with h | ⟨_, vs, hov, hrt, _⟩
        · cases h.1
        cases vs with
        | nil => exact idle (by simp [Property.childrenOut, hov, parseChildren]) (fun a => by simp [childEff, hov])
        | cons v vs =>
          refine stores arg (.many (v :: vs)) (by simp [Property.ownArgs]) ?_ (fun a => by simp [childEff, hov])
          have hlk := lookupElem_of_mem hk hp (key := outName adm) (h := listElementHandler arg c)
            (by simp [Property.elemHandler?, matchesName_outName])
          have hnone : kw arg = none :=
            hinv (Property.listElement adm arg c req false) (by simp) arg (by simp [Property.childOwn])
          obtain ⟨kw2, h1, h2, h3⟩ := list_loop ps hk adm arg c req false hp vs [v] (kw.set arg (.many [v]))
            (fun w hw => hrt w (by simp [hw])) (Kw.set_same _ _ _)
          refine ⟨kw2, ?_, by simpa using h2, fun b hb => by rw [h3 b hb, Kw.set_other _ _ hb]⟩
          have : (leafElem adm (c.dumps v)).tag = outName adm := rfl
          have hh : listElementHandler arg c kw (leafElem adm (c.dumps v)) = some (kw.set arg (.many [v])) := by
            simp [listElementHandler, leafElem, Xml.text, hrt v (by simp), hnone]
          simp only [Property.childrenOut, hov, List.map_cons, parseChildren, this, hlk, hh, Option.bind_some,
            Bool.false_eq_true, if_false]
          exact h1
    | customElement adm arg req impl =>
      obtain ⟨htags, _, hrun, _⟩ := hfield
      obtain ⟨kw2, h2, hset, hoth⟩ := hrun kw hctx
        (fun a ha => hinv (Property.customElement adm arg req impl) (by simp) a (by simpa [Property.childOwn] using ha))
      refine step kw2 ?_ ?_ ?_
      · show parseChildren ps (impl.childrenOut o) kw = some kw2
        rw [custom_children ps hk o adm arg req impl hp _ htags kw]; exact h2
      · intro a ha
        have ha' : a ∈ impl.own := by simpa [Property.ownArgs] using ha
        have hnone : kw a = none :=
          hinv (Property.customElement adm arg req impl) (by simp) a (by simpa [Property.childOwn] using ha')
        simp [childEff, ha', hset a ha', hnone]
      · intro b hb
        exact hoth b (by simpa [Property.ownArgs] using hb)
    | genericElement arg req impl =>
      exact idle (parseChildren_unhandled ps _ kw hfield.1) (fun a => rfl)

/-! ### text, generic handlers, assembly -/

theorem findSome?_owner {α β} {f : α → Option β} {p : α} {l : List α} (hp : p ∈ l)
    (hu : ∀ q ∈ l, (f q).isSome → q = p) : l.findSome? f = f p := by
  cases hf : f p with
  | some b => exact findSome?_unique hp hf hu
  | none =>
    apply findSome?_none
    intro q hq
    cases hq' : f q with
    | none => rfl
    | some y => have := hu q hq (by simp [hq']); subst this; rw [hf] at hq'; cases hq'

theorem length_le_one_eq {α} {l : List α} (h : l.length ≤ 1) {x y : α} (hx : x ∈ l) (hy : y ∈ l) : x = y := by
  match l, h with
  | [], _ => cases hx
  | [z], _ => simp at hx hy; rw [hx, hy]
  | _ :: _ :: _, h => simp at h

/-- the generic handlers, in property order -/
theorem generics_loop (ps : List (Property V)) (e : Xml) (o cd : Obj V) :
    ∀ (l : List (Property V)), (∀ p ∈ l, p ∈ ps ∧ FieldOK ps e o cd p) → (allArgs l).Nodup → ∀ kw : Kw V,
      (∀ p ∈ l, p.generic?.isSome → ∀ a ∈ p.ownArgs, kw a = none) →
      ∃ kw', parseGenerics e (l.filterMap (·.generic?)) kw = some kw' ∧
        ∀ a, kw' a = (l.findSome? (genEff o a)).or (kw a) := by
  intro l
  induction l with
  | nil => intro _ _ kw _; exact ⟨kw, rfl, fun a => by simp⟩
  | cons p l ih =>
    intro hl hnd kw hinv
    have hfield := (hl p (by simp)).2
    have hl' : ∀ q ∈ l, q ∈ ps ∧ FieldOK ps e o cd q := fun q hq => hl q (by simp [hq])
    have hnd' := allArgs_tail_nodup hnd
    have idle : p.generic? = none → (∀ a, genEff o a p = none) →
        ∃ kw', parseGenerics e ((p :: l).filterMap (·.generic?)) kw = some kw' ∧
          ∀ a, kw' a = ((p :: l).findSome? (genEff o a)).or (kw a) := by
      intro h1 h2
      obtain ⟨kw', h3, h4⟩ := ih hl' hnd' kw (fun q hq => hinv q (by simp [hq]))
      refine ⟨kw', by rw [List.filterMap_cons, h1]; exact h3, fun a => ?_⟩
      rw [List.findSome?_cons, h2 a]; exact h4 a
    cases p with
    | genericElement arg req impl =>
      obtain ⟨_, _, hrun, _⟩ := hfield
      have hnone : ∀ a ∈ impl.own, kw a = none := fun a ha =>
        hinv (Property.genericElement arg req impl) (by simp) (by simp [Property.generic?]) a
          (by simpa [Property.ownArgs] using ha)
      obtain ⟨kw2, h2, hset, hoth⟩ := hrun kw hnone
      obtain ⟨kw', h3, h4⟩ := ih hl' hnd' kw2 (by
        intro q hq hc a ha
        have : a ∉ impl.own := fun h =>
          own_head_notin hnd (p := Property.genericElement arg req impl) (by simpa [Property.ownArgs] using h) q hq ha
        rw [hoth a this]; exact hinv q (by simp [hq]) hc a ha)
      refine ⟨kw', ?_, fun a => ?_⟩
      · rw [List.filterMap_cons]
        show parseGenerics e (impl :: l.filterMap (·.generic?)) kw = some kw'
        simp only [parseGenerics, h2, Option.bind_some]; exact h3
      rw [List.findSome?_cons, h4 a]
      by_cases ha : a ∈ impl.own
      · have hnot := own_head_notin hnd (p := Property.genericElement arg req impl)
          (by simpa [Property.ownArgs] using ha)
        have : l.findSome? (genEff o a) = none :=
          findSome?_none (fun q hq => by
            cases hq' : genEff o a q with
            | none => rfl
            | some y => exact absurd (genEff_own (o := o) (a := a) (p := q) (by rw [hq']; rfl)) (hnot q hq))
        rw [this, hset a ha, hnone a ha]
        simp only [genEff, ha, if_true]
        cases impl.eff o a <;> simp
      · simp [genEff, ha, hoth a ha]
    | attr adm arg c req dflt => exact idle rfl (fun a => rfl)
    | attrElement adm arg c req dflt po => exact idle rfl (fun a => rfl)
    | listElement adm arg c req po => exact idle rfl (fun a => rfl)
    | handleText arg c => exact idle rfl (fun a => rfl)
    | typeAttribute d l' arg cD cL req => exact idle rfl (fun a => rfl)
    | customElement adm arg req impl => exact idle rfl (fun a => rfl)

/-- the hypotheses of the round-trip theorem; `e` is the element under consideration (`toXml ps name o`) -/
structure WF (ps : List (Property V)) (e : Xml) (o cd : Obj V) : Prop where
  keys : KeysOK ps
  fields : ∀ p ∈ ps, FieldOK ps e o cd p

/-- what ends up in `kwargs[a]` because of property `p` -/
def propEff (o : Obj V) (a : String) (p : Property V) : Option (Val V) :=
  (genEff o a p).or ((textEff o a p).or ((childEff o a p).or (attrEff o a p)))

/-- the four passes on what `to_xml` wrote: they succeed, and every argument holds exactly what its owner
stored (nothing if it has no owner or the owner elided it) -/
theorem stages_roundtrip (ps : List (Property V)) (name : String) (o cd : Obj V)
    (h : WF ps (toXml ps name o) o cd) :
    ∃ kw, parseStages ps (toXml ps name o) = some kw ∧
      (∀ p ∈ ps, ∀ a ∈ p.ownArgs, kw a = propEff o a p) ∧
      (∀ a, a ∉ allArgs ps → kw a = none) := by
  obtain ⟨hk, hF⟩ := h
  have hmem : ∀ p ∈ ps, p ∈ ps ∧ FieldOK ps (toXml ps name o) o cd p := fun p hp => ⟨hp, hF p hp⟩
  have owner : ∀ (f : String → Property V → Option (Val V)),
      (∀ a q, (f a q).isSome → a ∈ q.ownArgs) →
      ∀ p ∈ ps, ∀ a ∈ p.ownArgs, ps.findSome? (f a) = f a p := by
    intro f hf p hp a ha
    exact findSome?_owner hp (fun q hq hs => nodup_flatMap_unique hk.args q hq p hp a (hf a q hs) ha)
  have noowner : ∀ (f : String → Property V → Option (Val V)),
      (∀ a q, (f a q).isSome → a ∈ q.ownArgs) →
      ∀ a, a ∉ allArgs ps → ps.findSome? (f a) = none := by
    intro f hf a ha
    apply findSome?_none
    intro q hq
    cases hq' : f a q with
    | none => rfl
    | some y => exact absurd (mem_allArgs hq (hf a q (by simp [hq']))) ha
  have hA := owner (attrEff o) (fun a q hs => attrEff_own hs)
  have hC := owner (childEff o) (fun a q hs => childEff_own hs)
  have hT := owner (textEff o) (fun a q hs => textEff_own hs)
  have hG := owner (genEff o) (fun a q hs => genEff_own hs)
  -- attributes
  obtain ⟨kw1, h1, e1⟩ := attrs_loop ps hk _ o cd ps hmem hk.args Kw.empty (fun _ _ _ _ => rfl)
  -- children
  obtain ⟨kw2, h2, e2⟩ := children_loop ps hk _ o cd ps hmem hk.args kw1
    (by intro a v hv; rw [e1 a, hv]; rfl) (by
    intro p hp a ha
    rw [e1 a, hA p hp a (childOwn_own ha)]
    cases p <;> simp only [Property.childOwn] at ha <;> first | cases ha | simp [attrEff, Kw.empty])
  -- text
  have htext : ∃ kw3, parseText ps (toXml ps name o) kw2 = some kw3 ∧
      ∀ a, kw3 a = (ps.findSome? (textEff o a)).or (kw2 a) := by
    unfold parseText
    cases hfs : ps.findSome? (·.textHandler?) with
    | none =>
      refine ⟨kw2, rfl, fun a => ?_⟩
      have : ps.findSome? (textEff o a) = none := by
        apply findSome?_none
        intro q hq
        have hq' := (List.findSome?_eq_none_iff.mp hfs) q hq
        cases q <;> first | rfl | (simp [Property.textHandler?] at hq')
      simp [this]
    | some t =>
      obtain ⟨arg, c⟩ := t
      obtain ⟨p0, hp0, ht0⟩ := List.exists_of_findSome?_eq_some hfs
      have hp0eq : p0 = .handleText arg c := by
        cases p0 <;> simp [Property.textHandler?] at ht0
        obtain ⟨rfl, rfl⟩ := ht0; rfl
      subst hp0eq
      obtain ⟨v, hov, hrt⟩ := hF _ hp0
      have htxt : (toXml ps name o).text = c.dumps v := by
        simp [toXml, Xml.text, textOut, hfs, hov]
      refine ⟨kw2.set arg (.one v), by simp [htxt, hrt], fun a => ?_⟩
      by_cases haa : a = arg
      · subst haa
        rw [hT _ hp0 a (by simp [Property.ownArgs])]
        simp [textEff, hov, Kw.set_same]
      · have : ps.findSome? (textEff o a) = none := by
          apply findSome?_none
          intro q hq
          cases hq' : textEff o a q with
          | none => rfl
          | some y =>
            exfalso
            cases q <;> simp only [textEff] at hq' <;> try (cases hq')
            rename_i arg' c'
            split at hq'
            · rename_i h'; subst h'
              have m1 : (arg', c') ∈ ps.filterMap (·.textHandler?) :=
                List.mem_filterMap.mpr ⟨_, hq, rfl⟩
              have m2 : (arg, c) ∈ ps.filterMap (·.textHandler?) :=
                List.mem_filterMap.mpr ⟨_, hp0, rfl⟩
              have := length_le_one_eq hk.text m1 m2
              exact haa (congrArg Prod.fst this)
            · cases hq'
        simp [this, Kw.set_other _ _ haa]
  obtain ⟨kw3, h3, e3⟩ := htext
  -- the arguments of a generic handler are untouched by the first three passes
  have before_gen : ∀ p ∈ ps, p.generic?.isSome → ∀ a ∈ p.ownArgs, kw3 a = none := by
    intro p hp hg a ha
    rw [e3 a, e2 a, e1 a, hT p hp a ha, hC p hp a ha, hA p hp a ha]
    cases p <;> simp [Property.generic?] at hg
    simp [textEff, childEff, attrEff, Kw.empty]
  -- generic handlers
  obtain ⟨kw4, h4, e4⟩ := generics_loop ps _ o cd ps hmem hk.args kw3 before_gen
  refine ⟨kw4, ?_, ?_, ?_⟩
  · have ha : (toXml ps name o).attrs = ps.flatMap (·.attrsOut o) := rfl
    have hc : (toXml ps name o).children = ps.flatMap (·.childrenOut o) := rfl
    simp only [parseStages, ha, hc, h1, h2, h3, h4, Option.bind_eq_bind, Option.bind_some]
  · intro p hp a ha
    rw [e4 a, e3 a, e2 a, e1 a, hG p hp a ha, hT p hp a ha, hC p hp a ha, hA p hp a ha]
    simp [propEff, Kw.empty]
  · intro a hna
    rw [e4 a, e3 a, e2 a, e1 a,
      noowner (genEff o) (fun a q hs => genEff_own hs) a hna,
      noowner (textEff o) (fun a q hs => textEff_own hs) a hna,
      noowner (childEff o) (fun a q hs => childEff_own hs) a hna,
      noowner (attrEff o) (fun a q hs => attrEff_own hs) a hna]
    simp [Kw.empty]

omit [DecidableEq V] in
theorem mem_declArgs {ps : List (Property V)} {p : Property V} {a : String} (hp : p ∈ ps)
    (ha : p.declArg? = some a) : a ∈ declArgs ps :=
  List.mem_filterMap.mpr ⟨p, hp, ha⟩

/-- what a hand-written handler stores (its specification `eff`) -/
def Property.customEff : Property V → Obj V → String → Option (Val V)
  | .customElement _ _ _ impl => impl.eff
  | .genericElement _ _ impl => impl.eff
  | _ => fun _ _ => none

theorem propEff_custom (o : Obj V) (p : Property V) (hc : p.isCustom = true) (a : String) (ha : a ∈ p.ownArgs) :
    propEff o a p = p.customEff o a := by
  cases p <;> simp [Property.isCustom] at hc
  · have : a ∈ _ := ha
    simp only [Property.ownArgs] at ha
    simp [propEff, genEff, textEff, childEff, attrEff, ha, Property.customEff]
  · simp only [Property.ownArgs] at ha
    simp [propEff, genEff, textEff, childEff, attrEff, ha, Property.customEff]

/-- the constructor fills in what was elided: a declarative owner's contribution, defaulted, is the object's
value; a required declarative argument is always present -/
theorem declEff_value (ps : List (Property V)) (e : Xml) (o cd : Obj V) (p : Property V)
    (hf : FieldOK ps e o cd p) (hc : p.isCustom = false) (a : String) (ha : a ∈ p.ownArgs) :
    (propEff o a p).getD (cd a) = o a ∧ (p.requiredArg? = some a → (propEff o a p).isSome) := by
  cases p with
  | attr adm arg c req dflt =>
    obtain ⟨v, hov, _, hd⟩ := hf
    simp only [Property.ownArgs, List.mem_singleton] at ha; subst ha
    by_cases hvd : v = dflt
    · cases req with
      | true => simp only [if_true] at hd; exact absurd hvd hd
      | false =>
        simp only [Bool.false_eq_true, if_false] at hd
        simp [propEff, genEff, textEff, childEff, attrEff, hov, hvd, hd, Property.requiredArg?]
    · simp [propEff, genEff, textEff, childEff, attrEff, hov, hvd]
  | attrElement adm arg c req dflt po =>
    cases po with
    | true => simp [Property.ownArgs] at ha
    | false =>
      rcases hf with h | ⟨hpo, v, hov, _, hd⟩
      · cases h.1
      simp only [Property.ownArgs, Bool.false_eq_true, if_false, List.mem_singleton] at ha; subst ha
      by_cases hvd : v = dflt
      · cases req with
        | true => simp only [if_true] at hd; exact absurd hvd hd
        | false =>
          simp only [Bool.false_eq_true, if_false] at hd
          simp [propEff, genEff, textEff, childEff, attrEff, hov, hvd, hd, Property.requiredArg?]
      · simp [propEff, genEff, textEff, childEff, attrEff, hov, hvd]
  | listElement adm arg c req po =>
    cases po with
    | true => simp [Property.ownArgs] at ha
    | false =>
      rcases hf with h | ⟨hpo, vs, hov, _, hd⟩
      · cases h.1
      simp only [Property.ownArgs, Bool.false_eq_true, if_false, List.mem_singleton] at ha; subst ha
      cases vs with
      | nil =>
        obtain ⟨hr, hcd⟩ := hd rfl
        simp [propEff, genEff, textEff, childEff, attrEff, hov, hcd, Property.requiredArg?, hr]
      | cons v vs => simp [propEff, genEff, textEff, childEff, attrEff, hov]
  | handleText arg c =>
    obtain ⟨v, hov, _⟩ := hf
    simp only [Property.ownArgs, List.mem_singleton] at ha; subst ha
    simp [propEff, genEff, textEff, hov]
  | typeAttribute d l arg cD cL req =>
    obtain ⟨v, hov, _⟩ := hf
    simp only [Property.ownArgs, List.mem_singleton] at ha; subst ha
    simp [propEff, genEff, textEff, childEff, attrEff, hov]
  | customElement adm arg req impl => simp [Property.isCustom] at hc
  | genericElement arg req impl => simp [Property.isCustom] at hc

/-- a required argument of a declarative property is the argument it writes (parse-only properties are
never required) -/
theorem requiredArg_own (ps : List (Property V)) (e : Xml) (o cd : Obj V) (p : Property V)
    (hf : FieldOK ps e o cd p) (hc : p.isCustom = false) (a : String) (ha : p.requiredArg? = some a) :
    a ∈ p.ownArgs := by
  cases p with
  | attr adm arg c req dflt => cases req <;> simp_all [Property.requiredArg?, Property.ownArgs]
  | attrElement adm arg c req dflt po =>
    cases po with
    | false => cases req <;> simp_all [Property.requiredArg?, Property.ownArgs]
    | true =>
      rcases hf with h | ⟨hpo, _⟩
      · simp [Property.requiredArg?, h.2] at ha
      · cases hpo
  | listElement adm arg c req po =>
    cases po with
    | false => cases req <;> simp_all [Property.requiredArg?, Property.ownArgs]
    | true =>
      rcases hf with h | ⟨hpo, _⟩
      · simp [Property.requiredArg?, h.2] at ha
      · cases hpo
  | handleText arg c => simp [Property.requiredArg?] at ha
  | typeAttribute d l arg cD cL req => cases req <;> simp_all [Property.requiredArg?, Property.ownArgs]
  | customElement adm arg req impl => simp [Property.isCustom] at hc
  | genericElement arg req impl => simp [Property.isCustom] at hc

/-- **Round trip of `ElementParser.parse ∘ to_xml`.**  Under `WF` (field codecs round-trip on the values
written, handler keys / element names / arguments pairwise distinct, defaults elided symmetrically, the
hand-written handlers behave on their own output as their specification `eff` says and leave the other
arguments alone) parsing what `to_xml` wrote succeeds; the object obtained agrees with the original on every
declarative argument, holds `eff` (defaulted by the constructor) under every argument of a hand-written
handler, and the constructor default everywhere else. -/
theorem codec_roundtrip (ps : List (Property V)) (name : String) (o cd : Obj V)
    (h : WF ps (toXml ps name o) o cd) :
    ∃ o', parse ps cd (toXml ps name o) = some o' ∧
      (∀ p ∈ ps, p.isCustom = false → ∀ a ∈ p.ownArgs, o' a = o a) ∧
      (∀ p ∈ ps, p.isCustom = true → ∀ a ∈ p.ownArgs, o' a = (p.customEff o a).getD (cd a)) ∧
      (∀ a, a ∉ allArgs ps → o' a = cd a) := by
  obtain ⟨kw, hst, hown, hother⟩ := stages_roundtrip ps name o cd h
  have hall : (ps.filterMap (·.requiredArg?)).all (fun a => (kw a).isSome) = true := by
    rw [List.all_eq_true]
    intro a ha
    obtain ⟨p, hp, hpa⟩ := List.mem_filterMap.mp ha
    cases hc : p.isCustom with
    | false =>
      have hd := requiredArg_own ps _ o cd p (h.fields p hp) hc a hpa
      rw [hown p hp a hd]
      exact (declEff_value ps _ o cd p (h.fields p hp) hc a hd).2 hpa
    | true =>
      have hf := h.fields p hp
      cases p <;> simp [Property.isCustom] at hc
      · rename_i adm arg req impl
        cases req <;> simp [Property.requiredArg?] at hpa
        obtain ⟨hmem, hsome⟩ := hf.2.2.2 rfl a hpa
        rw [hown _ hp a (by simpa [Property.ownArgs] using hmem)]
        simpa [propEff, genEff, textEff, childEff, attrEff, hmem] using hsome
      · rename_i arg req impl
        cases req <;> simp [Property.requiredArg?] at hpa
        obtain ⟨hmem, hsome⟩ := hf.2.2.2 rfl a hpa
        rw [hown _ hp a (by simpa [Property.ownArgs] using hmem)]
        simpa [propEff, genEff, textEff, childEff, attrEff, hmem] using hsome
  refine ⟨fun a => (kw a).getD (cd a), ?_, ?_, ?_, ?_⟩
  · unfold parse parseKw
    rw [hst, Option.bind_some, if_pos hall]
    rfl
  · intro p hp hc a ha
    simp only [hown p hp a ha]
    exact (declEff_value ps _ o cd p (h.fields p hp) hc a ha).1
  · intro p hp hc a ha
    simp only [hown p hp a ha, propEff_custom o p hc a ha]
  · intro a hna
    simp [hother a hna]

/-- **Class-level round trip**: if, in addition, every hand-written handler's stored value (defaulted by the
constructor) is the object's value, and the object holds constructor defaults outside the handled arguments,
then the object itself comes back and generating XML from the parsed object reproduces the same tree. -/
theorem codec_roundtrip_full (ps : List (Property V)) (name : String) (o cd : Obj V)
    (h : WF ps (toXml ps name o) o cd)
    (hcustom : ∀ p ∈ ps, p.isCustom = true → ∀ a ∈ p.ownArgs, (p.customEff o a).getD (cd a) = o a)
    (hrest : ∀ a, a ∉ allArgs ps → o a = cd a) :
    parse ps cd (toXml ps name o) = some o ∧
    (parse ps cd (toXml ps name o)).map (toXml ps name) = some (toXml ps name o) := by
  obtain ⟨o', hp, h1, h2, h3⟩ := codec_roundtrip ps name o cd h
  have : o' = o := by
    funext a
    by_cases ha : a ∈ allArgs ps
    · obtain ⟨p, hpm, hpa⟩ := List.mem_flatMap.mp ha
      cases hc : p.isCustom with
      | false => exact h1 p hpm hc a hpa
      | true => rw [h2 p hpm hc a hpa]; exact hcustom p hpm hc a hpa
    · rw [h3 a ha, hrest a ha]
  subst this
  exact ⟨hp, by rw [hp]; rfl⟩

/-- parsers made of declarative properties only -/
theorem codec_roundtrip_pure (ps : List (Property V)) (name : String) (o cd : Obj V)
    (h : WF ps (toXml ps name o) o cd) (hpure : ∀ p ∈ ps, p.isCustom = false)
    (hrest : ∀ a, a ∉ allArgs ps → o a = cd a) :
    parse ps cd (toXml ps name o) = some o ∧
    (parse ps cd (toXml ps name o)).map (toXml ps name) = some (toXml ps name o) :=
  codec_roundtrip_full ps name o cd h (fun p hp hc => by rw [hpure p hp] at hc; cases hc) hrest

/-- what the declarative properties write depends only on the declarative arguments: together with
`codec_roundtrip` this is `to_xml (parse (to_xml obj)) = to_xml obj` for the declarative part of a mixed
parser (attributes, child elements and text written by declarative properties) -/
theorem toXml_decl_congr (ps : List (Property V)) (o o' : Obj V) (h : ∀ a ∈ declArgs ps, o' a = o a) :
    (∀ p ∈ ps, p.isCustom = false → p.attrsOut o' = p.attrsOut o ∧ p.childrenOut o' = p.childrenOut o) ∧
    textOut ps o' = textOut ps o := by
  constructor
  · intro p hp hc
    cases p with
    | attr adm arg c req dflt =>
      have := h arg (mem_declArgs hp rfl)
      simp [Property.attrsOut, Property.childrenOut, this]
    | attrElement adm arg c req dflt po =>
      cases po with
      | true => simp [Property.attrsOut, Property.childrenOut]
      | false =>
        have := h arg (mem_declArgs hp rfl)
        simp [Property.attrsOut, Property.childrenOut, this]
    | listElement adm arg c req po =>
      cases po with
      | true => simp [Property.attrsOut, Property.childrenOut]
      | false =>
        have := h arg (mem_declArgs hp rfl)
        simp [Property.attrsOut, Property.childrenOut, this]
    | handleText arg c => simp [Property.attrsOut, Property.childrenOut]
    | typeAttribute d l arg cD cL req =>
      have := h arg (mem_declArgs hp rfl)
      simp [Property.attrsOut, Property.childrenOut, this]
    | customElement adm arg req impl => simp [Property.isCustom] at hc
    | genericElement arg req impl => simp [Property.isCustom] at hc
  · unfold textOut
    cases hfs : ps.findSome? (·.textHandler?) with
    | none => rfl
    | some t =>
      obtain ⟨arg, c⟩ := t
      obtain ⟨p0, hp0, ht0⟩ := List.exists_of_findSome?_eq_some hfs
      have hp0eq : p0 = .handleText arg c := by
        cases p0 <;> simp [Property.textHandler?] at ht0
        obtain ⟨rfl, rfl⟩ := ht0; rfl
      subst hp0eq
      simp only [h arg (mem_declArgs hp0 rfl)]

end Earverif.XmlCodec
