/-
Transliteration of `ear.core.select_items.select_items.select_rendering_items`
(+ `utils.py`, `hoa.py`) over the index-based document of `Model/Adm.lean`.

Generators become lists in yield order, exceptions become `Except Err`.
`validate_structure` is NOT modelled: the model describes selection on documents
that pass validation (no object loops, pack/channel multitree, object parameters
only in leaves, consistent alternativeValueSet references, ...).

The track allocation is `pack_allocation.allocate_packs` as modelled for C07
(`Model/PackAlloc.lean`, imported): `selectPackMapping` builds the `AllocationPack`s
(`get_wrapped_packs`, including the three usages of Matrix packs), the `AllocationTrackUID`s
and calls `PackAlloc.selectPackMapping`; `outputOf` is `output_pack` /
`output_channel_allocation` (nested track specs for matrix packs, type from `Model/TrackSpec.lean`).
Not modelled: `validate_selected_audioTrackUID` (tracks always have a track index, a pack and a
channel format here).
Core Lean only.
-/
import Earverif.Model.Adm
import Earverif.Model.PackAlloc
import Earverif.Model.TrackSpec
import Earverif.Model.AdmV
namespace Earverif.Adm

inductive Err where
  | notComplementary   -- AdmError "selected audioObject .. is not part of any complementary audioObject group"
  | multipleSelected   -- AdmError "multiple audioObjects selected from complementary object group"
  | conflicting        -- AdmFormatRefError "Conflicting format references"
  | ambiguous          -- AdmFormatRefError "Ambiguous format references"
  | pathParamConflict  -- AdmError "Conflicting .. values in path" (get_path_param)
  | paramMismatch      -- AdmError "All audioChannelFormats in a single audioPackFormat must share .." (get_single_param)
  | notImplemented     -- NotImplementedError in _get_rendering_items
  | internal           -- cannot happen on validated documents (ValueError/IndexError in Python)
  deriving DecidableEq, Repr

/-- `for x in xs: ... f(x)` with exceptions: first error in iteration order wins. -/
def mapE {α β : Type} (f : α → Except Err β) : List α → Except Err (List β)
  | [] => .ok []
  | x :: xs =>
    match f x with
    | .error e => .error e
    | .ok y =>
      match mapE f xs with
      | .error e => .error e
      | .ok ys => .ok (y :: ys)

/-- nested generator loops: `for x in xs: for y in f(x): yield y`. -/
def flatMapE {α β : Type} (f : α → Except Err (List β)) (xs : List α) : Except Err (List β) :=
  match mapE f xs with
  | .error e => .error e
  | .ok ys => .ok ys.flatten

/-- `_ItemSelectionState` after `_select_programme_content_objects`. -/
structure State where
  programme : Option Nat
  content : Option Nat
  objPath : Option (List Nat)
  deriving DecidableEq, Inhabited

/-! ### programme / content / object paths -/

/-- `min(programmes, key=id)`: position of the first programme with the lowest id. -/
def minByIdGo : List Programme → Nat → Option (Nat × Nat) → Option (Nat × Nat)
  | [], _, best => best
  | p :: rest, i, none => minByIdGo rest (i + 1) (some (i, p.idKey))
  | p :: rest, i, some (bi, bk) =>
    if p.idKey < bk then minByIdGo rest (i + 1) (some (i, p.idKey))
    else minByIdGo rest (i + 1) (some (bi, bk))

def minById (ps : List Programme) : Option Nat := (minByIdGo ps 0 none).map (·.1)

/-- `_select_programme` (the `assert in_by_id` on a given programme is the
driver's range check). -/
def selectProgramme (a : Adm) (given : Option Nat) : Option Nat :=
  match given with
  | some p => some p
  | none =>
    match a.programmes with
    | [] => none
    | [_] => some 0
    | ps => minById ps

/-- `_select_content`. -/
def selectContent (a : Adm) (st : State) : List State :=
  match st.programme with
  | some p => (a.prog p).contents.map fun c => { st with content := some c }
  | none => [st]

/-- `_root_objects`. -/
def rootObjects (a : Adm) : List Nat :=
  let nonRoot := a.objects.flatMap (·.subObjects)
  (List.range a.objects.length).filter fun i => !nonRoot.contains i

/-- `_select_root_objects`. -/
def selectRootObjects (a : Adm) (st : State) : List Nat :=
  match st.content with
  | some c => (a.cont c).objects
  | none => rootObjects a

/-- `utils._paths_from` (recursive generator) with fuel. -/
def pathsFrom (children : Nat → List Nat) : Nat → Nat → List (List Nat)
  | 0, _ => []
  | fuel + 1, r => [r] :: (children r).flatMap fun s => (pathsFrom children fuel s).map (r :: ·)

def Adm.subs (a : Adm) (i : Nat) : List Nat := (a.obj i).subObjects

/-- `utils.object_paths_from`; fuel = number of objects (loops are rejected by
validation first). -/
def objectPathsFrom (a : Adm) (r : Nat) : List (List Nat) :=
  pathsFrom a.subs a.objects.length r

/-- `_select_object_paths`. -/
def selectObjectPaths (a : Adm) (st : State) : List State :=
  (selectRootObjects a st).flatMap fun r =>
    (objectPathsFrom a r).map fun p => { st with objPath := some p }

/-- `_select_programme_content_objects`. -/
def selectPCO (a : Adm) (given : Option Nat) : List State :=
  if a.programmes ≠ [] ∨ a.objects ≠ [] then
    let st : State := { programme := selectProgramme a given, content := none, objPath := none }
    (selectContent a st).flatMap (selectObjectPaths a)
  else [{ programme := none, content := none, objPath := none }]

/-! ### complementary objects -/

def compRoots (a : Adm) : List Nat :=
  (List.range a.objects.length).filter fun i => (a.obj i).complementary ≠ []

/-- `objects_in_group`. -/
def compGroup (a : Adm) (r : Nat) : List Nat := r :: (a.obj r).complementary

/-- `all_selected` of `_select_complementary_objects`. -/
def compAllSelected (a : Adm) (sel : List Nat) : List Nat :=
  sel ++ (compRoots a).filter fun r => !(compGroup a r).any (sel.contains ·)

/-- `_select_complementary_objects`: the objects to ignore. -/
def selectComplementary (a : Adm) (sel : List Nat) : Except Err (List Nat) :=
  let roots := compRoots a
  let allComp := roots.flatMap (compGroup a)
  if sel.any (fun s => !allComp.contains s) then .error .notComplementary
  else
    let allSel := compAllSelected a sel
    if roots.any (fun r => ((compGroup a r).filter (allSel.contains ·)).length > 1) then
      .error .multipleSelected
    else .ok (roots.flatMap fun r => (compGroup a r).filter (fun o => !allSel.contains o))

/-- `_select_only_selected_complementary`. -/
def onlySelected (ign : List Nat) (st : State) : List State :=
  match st.objPath with
  | none => [st]
  | some p => if p.any (ign.contains ·) then [] else [st]

/-! ### pack / track allocation: `_PackAllocator` on top of `pack_allocation.allocate_packs` (C07 model) -/

def Formats.packSubs (f : Formats) (i : Nat) : List Nat := (f.pack i).subPacks

/-- `utils.pack_format_paths_from`. -/
def packPathsFrom (f : Formats) (p : Nat) : List (List Nat) :=
  pathsFrom f.packSubs f.packs.length p

/-- `(pack_formats, channel_format) for pack_formats in pack_format_paths_from(p)
for channel_format in pack_formats[-1].audioChannelFormats`. -/
def slots (f : Formats) (p : Nat) : List (List Nat × Nat) :=
  (packPathsFrom f p).flatMap fun path => (f.pack (path.getLastD 0)).channels.map fun ch => (path, ch)

/-- `_PackAllocator.channel_format_for_track_uid`. -/
def trackChannel (f : Formats) (u : Nat) : Nat :=
  match (f.uid u).ref with
  | .trackFormat tf => f.streamFormats.getD (f.trackFormats.getD tf 0) 0
  | .channel c => c

/-- `RegularAllocationPack` / `MatrixAllocationPack`. -/
inductive WKind where
  | regular
  | matrix
  deriving DecidableEq, Inhabited

/-- an `OutputAllocationPack`: `root_pack` and the `AllocationChannel`s to match.  `id` stands for
the identity of the Python object: `3 * root + variant` (variant 0: regular pack or direct/decode
matrix use, 1: pre-applied matrix use, 2: encode-then-decode use), distinct for distinct objects. -/
structure WPack where
  id : Nat
  kind : WKind
  root : Nat
  channels : List PackAlloc.Channel
  deriving DecidableEq, Inhabited

/-- `wrap_non_matrix_pack`. -/
def wrapRegular (f : Formats) (p : Nat) : WPack :=
  ⟨3 * p, .regular, p, (slots f p).map fun s => ⟨s.2, s.1⟩⟩

/-- `wrap_matrix_pack` (`matrix.type_of`, `matrix.input_pack_format`): direct / decode use,
pre-applied use, and for decode matrices encode-then-decode use; encode matrices are not wrapped. -/
def wrapMatrix (f : Formats) (p : Nat) : Except Err (List WPack) :=
  let pk := f.pack p
  let flat (q fixed : Nat) : List PackAlloc.Channel := (slots f q).map fun s => ⟨s.2, [fixed]⟩
  let preApplied : WPack := ⟨3 * p + 1, .matrix, p, (slots f p).map fun s => ⟨s.2, s.1⟩⟩
  match pk.inputPack, pk.outputPack with
  | some i, some _ => .ok [⟨3 * p, .matrix, p, flat i p⟩, preApplied]     -- DIRECT
  | some _, none => .ok []                                                -- ENCODE
  | none, some _ =>                                                       -- DECODE
    match pk.encodePacks with
    | [e] =>
      match (f.pack e).inputPack with
      | some ei => .ok [⟨3 * p, .matrix, p, flat e p⟩, preApplied, ⟨3 * p + 2, .matrix, p, flat ei e⟩]
      | none => .error .internal
    | _ => .error .internal
  | none, none => .error .internal

/-- `_PackAllocator.get_wrapped_packs` (= `self.packs`). -/
def wrappedPacks (f : Formats) : Except Err (List WPack) :=
  flatMapE (fun p => if (f.pack p).type ≠ 2 then .ok [wrapRegular f p] else wrapMatrix f p)
    (List.range f.packs.length)

/-- a track specification (`metadata_input.TrackSpec` subclasses; the C20 model's type). -/
abbrev TSpec := Earverif.TrackSpec.Spec Rat

instance : Inhabited TSpec := ⟨.silent⟩

/-- one allocated *output* pack: `output_pack` and `output_channel_allocation`. -/
structure AllocPack where
  pack : Nat
  alloc : List (Nat × TSpec)
  deriving Inhabited

/-- `_PackAllocator.get_track_spec` on an allocation entry (`uids` are the selected track UIDs,
an `AllocationTrackUID` is identified by its position among them). -/
def slotSpec (f : Formats) (uids : List Nat) (s : PackAlloc.Slot) : Except Err TSpec :=
  match s with
  | none => .error .internal                       -- `_EMPTY` never escapes a solution
  | some none => .ok .silent
  | some (some t) =>
    match uids[t.id]? with
    | some u => .ok (.direct (((f.uid u).trackIndex : Int) - 1))
    | none => .error .internal

/-- `get_track_spec(channel_format)` inside `MatrixAllocationPack.output_channel_allocation`:
a channel of the input allocation gives its track; otherwise the channel must be a matrix channel
and its coefficients are applied to the specs of their input channels. -/
def matrixSpec (f : Formats) (inputs : List (Nat × TSpec)) : Nat → Nat → Except Err TSpec
  | 0, _ => .error .internal
  | fuel + 1, ch =>
    match inputs.find? (·.1 == ch) with
    | some s => .ok s.2
    | none =>
      if (f.chan ch).type ≠ 2 then .error .internal
      else
        match mapE (fun (c : Coeff) =>
            match matrixSpec f inputs fuel c.input with
            | .error e => .error e
            | .ok s => .ok (Earverif.TrackSpec.Spec.matrix s c.gain c.delay)) (f.chan ch).matrix.coeffs with
        | .error e => .error e
        | .ok specs => .ok (.gain (.mix specs) (f.chan ch).matrix.gain)

/-- `RegularAllocationPack.output_channel_allocation`: `(channel.channel_format, get_track_spec(track))`. -/
def slotEntry (f : Formats) (uids : List Nat) (cs : PackAlloc.Channel × PackAlloc.Slot) : Except Err (Nat × TSpec) :=
  match slotSpec f uids cs.2 with
  | .error e => .error e
  | .ok s => .ok (cs.1.cf, s)

/-- `get_channel_allocation(matrix_channel)`: `(block_format.outputChannelFormat, get_track_spec(matrix_channel))`. -/
def matrixEntry (f : Formats) (inputs : List (Nat × TSpec)) (mc : Nat) : Except Err (Nat × TSpec) :=
  match (f.chan mc).matrix.outputChannel with
  | none => .error .internal
  | some oc =>
    match matrixSpec f inputs (f.channels.length + 1) mc with
    | .error e => .error e
    | .ok s => .ok (oc, s)

/-- `pack.pack.output_pack`, `pack.pack.output_channel_allocation(pack.allocation)`.  The class of
the `OutputAllocationPack` (`RegularAllocationPack` / `MatrixAllocationPack`) was fixed in
`get_wrapped_packs` by the type of its `root_pack`, so it is read off the root pack here. -/
def outputOf (f : Formats) (uids : List Nat) (al : PackAlloc.Allocated) : Except Err AllocPack :=
  let root := al.pack.root
  match mapE (slotEntry f uids) al.allocation with
  | .error e => .error e
  | .ok inputs =>
    if (f.pack root).type ≠ 2 then .ok ⟨root, inputs⟩
    else
      match (f.pack root).outputPack with
      | none => .error .internal
      | some out =>
        match mapE (matrixEntry f inputs) (f.pack root).channels with
        | .error e => .error e
        | .ok al' => .ok ⟨out, al'⟩

/-- the `allocate_packs` problem of a state: `get_selected_packs_tracks_silent` and the
`AllocationTrackUID`s; also returns the selected track UIDs. -/
def allocProblem (a : Adm) (st : State) (wps : List WPack) : PackAlloc.Problem × List Nat :=
  let f := a.fmt
  let packs : List PackAlloc.Pack := wps.map fun w => ⟨w.id, w.root, w.channels⟩
  let sel : List Nat × Option (List Nat) × Nat :=
    match st.objPath with
    | some p =>
      let o := a.obj (p.getLastD 0)
      let real := o.tracks.filterMap id
      (real, some o.packs, o.tracks.length - real.length)
    | none => (List.range f.trackUIDs.length, none, 0)
  let tracks : List PackAlloc.Track := sel.1.zipIdx.map fun ui => ⟨ui.2, trackChannel f ui.1, (f.uid ui.1).pack⟩
  (⟨packs, tracks, sel.2.1, sel.2.2⟩, sel.1)

/-- `select_pack_mapping`: exactly one solution of `allocate_packs`, else
"Conflicting"/"Ambiguous format references". -/
def selectPackMapping (a : Adm) (st : State) : Except Err (List AllocPack) :=
  match wrappedPacks a.fmt with
  | .error e => .error e
  | .ok wps =>
    let pu := allocProblem a st wps
    match PackAlloc.selectPackMapping pu.1 with
    | .conflicting => .error .conflicting
    | .ambiguous => .error .ambiguous
    | .accepted sol => mapE (outputOf a.fmt pu.2) sol

/-! ### per-channel data -/

/-- `ExtraData` (`screen = some 0` is `default_screen`). -/
structure Extra where
  objectStart : Option Rat := none
  objectDuration : Option Rat := none
  screen : Option Nat := some 0
  lowPass : Option Rat := none
  highPass : Option Rat := none
  absDist : Option Rat := none
  gain : Rat := 1
  mute : Bool := false
  posOff : Option Nat := none
  deriving DecidableEq, Inhabited

/-- `HOATypeMetadata` without its extra data. -/
structure HoaMeta where
  rtime : Option Rat
  duration : Option Rat
  orders : List Int
  degrees : List Int
  gains : List Rat
  importances : List Int
  normalization : Nat
  nfcRefDist : Option Rat
  screenRef : Bool
  deriving DecidableEq, Inhabited

/-- A rendering item; non-HOA items have singleton `tracks`/`channels`/`packPaths`/`importances`. -/
structure Item where
  kind : Nat
  tracks : List TSpec               -- track specs (DirectTrackSpec / SilentTrackSpec / matrix trees)
  channels : List Nat
  programme : Option Nat
  content : Option Nat
  objPath : Option (List Nat)
  packPaths : List (List Nat)
  extra : Extra
  importances : List (Option Int × Option Int)
  blocks : List Nat
  hoa : Option HoaMeta
  deriving Inhabited

/-- `_get_pack_format_path`. -/
def getPackFormatPath (f : Formats) (p ch : Nat) : Except Err (List Nat) :=
  match (packPathsFrom f p).filter fun path => (f.pack (path.getLastD 0)).channels.contains ch with
  | [path] => .ok path
  | _ => .error .internal

/-- `utils.get_path_param` on the list of attribute values along a path. -/
def getPathParam {β : Type} [DecidableEq β] (vals : List (Option β)) : Except Err (Option β) :=
  match vals.filterMap id with
  | [] => .ok none
  | x :: rest => if rest.any (· != x) then .error .pathParamConflict else .ok (some x)

def checkPairs {α β : Type} [DecidableEq β] (f : α → Except Err β) : List α → Except Err Unit
  | a :: b :: rest =>
    match f a with
    | .error e => .error e
    | .ok x =>
      match f b with
      | .error e => .error e
      | .ok y => if x ≠ y then .error .paramMismatch else checkPairs f (b :: rest)
  | _ => .ok ()

/-- `utils.get_single_param`. -/
def getSingleParam {α β : Type} [DecidableEq β] (ppc : List α) (f : α → Except Err β) : Except Err β :=
  match checkPairs f ppc with
  | .error e => .error e
  | .ok () =>
    match ppc with
    | [] => .error .internal
    | a :: _ => f a

/-- the leaf object of a state (`state.audioObject`). -/
def State.leaf (a : Adm) (st : State) : Option Obj := st.objPath.map fun p => a.obj (p.getLastD 0)

/-- `_get_alternativeValueSet`: the last alternativeValueSet referenced from
the programme, then the content, that belongs to the leaf object. -/
def getAvs (a : Adm) (st : State) : Option Avs :=
  match st.leaf a with
  | none => none
  | some o =>
    let refs := (match st.programme with | some q => (a.prog q).avs | none => []) ++
                (match st.content with | some c => (a.cont c).avs | none => [])
    (refs.filterMap fun l => o.avs.find? (·.label == l)).getLast?

/-- the part of `_get_extra_data` that cannot fail. -/
def extraOf (a : Adm) (st : State) (chan : Option Nat) (absDist : Option Rat) : Extra :=
  let e : Extra := {}
  let e := match st.programme with | some p => { e with screen := (a.prog p).screen } | none => e
  let e := match chan with
    | some c => { e with lowPass := (a.fmt.chan c).lowPass, highPass := (a.fmt.chan c).highPass }
    | none => e
  let e := { e with absDist := absDist }
  let e := match st.leaf a with
    | some o => { e with objectStart := o.start, objectDuration := o.duration, gain := o.gain,
                         mute := o.mute, posOff := o.posOff }
    | none => e
  match getAvs a st with
  | none => e
  | some v =>
    let e := match v.gain with | some g => { e with gain := g } | none => e
    let e := match v.mute with | some m => { e with mute := m } | none => e
    match v.posOff with | some o => { e with posOff := some o } | none => e

/-- `_get_extra_data`. -/
def getExtraData (a : Adm) (st : State) (ppc : List (List Nat × Nat)) (chan : Option Nat) :
    Except Err Extra :=
  match getSingleParam ppc (fun pc => getPathParam (pc.1.map fun p => (a.fmt.pack p).absDist)) with
  | .error e => .error e
  | .ok ad => .ok (extraOf a st chan ad)

def impLt : Option Int → Option Int → Bool
  | some x, some y => x < y
  | some _, none => true
  | none, _ => false

/-- `min(values, key=None -> inf)`: first minimal element. -/
def minImp : List (Option Int) → Option Int
  | [] => none
  | x :: xs => xs.foldl (fun best y => if impLt y best then y else best) x

/-- `_get_importance`. -/
def getImportance (a : Adm) (st : State) (packPath : List Nat) : Option Int × Option Int :=
  ((match st.objPath with
    | some p => minImp (p.map fun o => (a.obj o).importance)
    | none => none),
   minImp (packPath.map fun p => (a.fmt.pack p).importance))

/-- `_get_RenderingItems_Objects` / `_DirectSpeakers`: one item per allocated channel. -/
def singleItem (a : Adm) (st : State) (ty p : Nat) (ct : Nat × TSpec) : Except Err Item :=
  match getPackFormatPath a.fmt p ct.1 with
  | .error e => .error e
  | .ok pp =>
    match getExtraData a st [(pp, ct.1)] (some ct.1) with
    | .error e => .error e
    | .ok ex => .ok {
        kind := ty, tracks := [ct.2], channels := [ct.1],
        programme := st.programme, content := st.content, objPath := st.objPath,
        packPaths := [pp], extra := ex, importances := [getImportance a st pp],
        blocks := (a.fmt.chan ct.1).blocks, hoa := none }

/-- `hoa._get_pack_param`: a parameter that may sit on any pack of the path or on the block. -/
def hoaPackParam {β : Type} [DecidableEq β] (f : Formats) (ps : Pack → Option β) (bs : HoaBlock → Option β)
    (pc : List Nat × Nat) : Except Err (Option β) :=
  getPathParam (pc.1.map (fun p => ps (f.pack p)) ++ [bs (f.chan pc.2).hoa])

/-- `_select_single_channel` for the HOA case: `(audioPackFormat_path, audioChannelFormat)`. -/
def hoaPathOf (f : Formats) (p : Nat) (ct : Nat × TSpec) : Except Err (List Nat × Nat) :=
  match getPackFormatPath f p ct.1 with
  | .error e => .error e
  | .ok pp => .ok (pp, ct.1)

/-- `hoa.get_normalization` (default "SN3D" = label 0). -/
def hoaNorm (f : Formats) (pc : List Nat × Nat) : Except Err Nat :=
  match hoaPackParam f (·.normalization) (·.normalization) pc with
  | .error e => .error e
  | .ok v => .ok (v.getD 0)

/-- `hoa.get_nfcRefDist` (0.0 means "not set"). -/
def hoaNfc (f : Formats) (pc : List Nat × Nat) : Except Err (Option Rat) :=
  match hoaPackParam f (·.nfcRefDist) (·.nfcRefDist) pc with
  | .error e => .error e
  | .ok v => .ok (if v = some 0 then none else v)

/-- `hoa.get_screenRef` (default False). -/
def hoaSref (f : Formats) (pc : List Nat × Nat) : Except Err Bool :=
  match hoaPackParam f (·.screenRef) (·.screenRef) pc with
  | .error e => .error e
  | .ok v => .ok (v.getD false)

/-- the `HOATypeMetadata` parameters of `_get_RenderingItems_HOA`, in evaluation order. -/
def hoaMetaOf (f : Formats) (ppc : List (List Nat × Nat)) : Except Err HoaMeta :=
  let blk (c : Nat) := (f.chan c).hoa
  match getSingleParam ppc (fun pc => (.ok (blk pc.2).rtime : Except Err (Option Rat))) with
  | .error e => .error e
  | .ok rtime =>
  match getSingleParam ppc (fun pc => (.ok (blk pc.2).duration : Except Err (Option Rat))) with
  | .error e => .error e
  | .ok duration =>
  match getSingleParam ppc (hoaNorm f) with
  | .error e => .error e
  | .ok norm =>
  match getSingleParam ppc (hoaNfc f) with
  | .error e => .error e
  | .ok nfc =>
  match getSingleParam ppc (hoaSref f) with
  | .error e => .error e
  | .ok sref => .ok {
      rtime := rtime, duration := duration,
      orders := ppc.map fun pc => (blk pc.2).order,
      degrees := ppc.map fun pc => (blk pc.2).degree,
      gains := ppc.map fun pc => (blk pc.2).gain,
      importances := ppc.map fun pc => (blk pc.2).importance,
      normalization := norm, nfcRefDist := nfc, screenRef := sref }

/-- `_get_RenderingItems_HOA`: one item per allocated pack. -/
def hoaItem (a : Adm) (st : State) (ap : AllocPack) : Except Err Item :=
  match mapE (hoaPathOf a.fmt ap.pack) ap.alloc with
  | .error e => .error e
  | .ok ppc =>
    match hoaMetaOf a.fmt ppc with
    | .error e => .error e
    | .ok hm =>
      match getExtraData a st ppc none with
      | .error e => .error e
      | .ok ex => .ok {
          kind := 4, tracks := ap.alloc.map (·.2), channels := ppc.map (·.2),
          programme := st.programme, content := st.content, objPath := st.objPath,
          packPaths := ppc.map (·.1), extra := ex,
          importances := ppc.map fun pc => getImportance a st pc.1,
          blocks := [], hoa := some hm }

/-- `_get_rendering_items`. -/
def itemsOfPack (a : Adm) (st : State) (ap : AllocPack) : Except Err (List Item) :=
  let ty := (a.fmt.pack ap.pack).type
  if ty = 3 ∨ ty = 1 then mapE (singleItem a st ty ap.pack) ap.alloc
  else if ty = 4 then
    match hoaItem a st ap with
    | .error e => .error e
    | .ok it => .ok [it]
  else .error .notImplemented

/-- items of one selected state: `select_pack_mapping` then `_get_rendering_items`. -/
def itemsOfState (a : Adm) (st : State) : Except Err (List Item) :=
  match selectPackMapping a st with
  | .error e => .error e
  | .ok packs => flatMapE (itemsOfPack a st) packs

/-- the selected states: `_select_programme_content_objects` filtered by
`_select_only_selected_complementary`. -/
def selectStates (a : Adm) (given : Option Nat) (ign : List Nat) : List State :=
  (selectPCO a given).flatMap (onlySelected ign)

/-- `select_rendering_items(adm, audio_programme, selected_complementary_objects)`
on a document that passed `validate_structure`. -/
def selectRenderingItems (a : Adm) (given : Option Nat) (sel : List Nat) : Except Err (List Item) :=
  match wrappedPacks a.fmt with          -- `_PackAllocator(adm)` is built first
  | .error e => .error e
  | .ok _ =>
    match selectComplementary a sel with
    | .error e => .error e
    | .ok ign => flatMapE (itemsOfState a) (selectStates a given ign)

/-! ### what `validate_structure` establishes about the pack/channel graph

Decidable predicates on the document, evaluated by the C06 driver (`W` request) on the documents the
harness generates and compared there with the real `_validate_pack_channel_multitree`; the C06 theorems
take them as hypotheses (`Props/C06.lean`: `allocWF_of_multitree`). -/

/-- a node of the audioPackFormat → audioPackFormat / audioChannelFormat reference graph. -/
inductive PNode where
  | pack (i : Nat)
  | chan (i : Nat)
  deriving DecidableEq, Repr

/-- the nodes that `dfs(audioPackFormat p, {}, ())` of `validate._validate_pack_channel_multitree` visits,
in visiting order (`get_children(node)` = `node.audioPackFormats + node.audioChannelFormats`), cut below
depth `fuel`. -/
def mtVisit (f : Formats) : Nat → Nat → List PNode
  | 0, _ => []
  | fuel + 1, p =>
    .pack p :: ((f.pack p).subPacks.flatMap (mtVisit f fuel) ++ (f.pack p).channels.map .chan)

/-- `_validate_pack_channel_multitree` passes: starting from no audioPackFormat is a node visited twice
(the `paths` dict of the dfs holds the nodes visited so far; a second visit raises the loop or the
"included more than once" exception).  Depth `len(audioPackFormats) + 1` shows every loop. -/
def multitreeOK (f : Formats) : Bool :=
  (List.range f.packs.length).all fun p => decide (mtVisit f (f.packs.length + 1) p).Nodup

/-- every `AllocationPack` built by `get_wrapped_packs` has at least one channel.  NOT established by
`validate_structure` (an audioPackFormat without channels and sub-packs passes it); `allocate_packs` never
allocates such a pack. -/
def wrappedNonempty (f : Formats) : Bool :=
  match wrappedPacks f with
  | .ok wps => wps.all fun w => !w.channels.isEmpty
  | .error _ => true

/-! ### the document as `validate_structure` sees it (link to the C14 model)

`toDoc a` is the document graph of the C14 model (`Model/AdmV.lean`, `Model/Validate.lean`) that the same real
ADM document serialises to, on the part of the document both models carry: all references, element types,
which object parameters are set, the HOA / Matrix block attributes validation reads.  Values that the C14 model
only compares for equality are tokens there; rationals are mapped to tokens by an injective encoding
(`ratTok`, 0 ↦ 0).  What the selection model does not carry is filled with the value a valid document has
(`cartMismatch`, `equation`, `badVar` = false; `v2Allowed` = true; every audioTrackUID has a track index). -/

/-- `TypeDefinition` of a numeric type code (1 DirectSpeakers, 2 Matrix, 3 Objects, 4 HOA, 5 Binaural). -/
def tdType : Nat → AdmV.TypeDef
  | 2 => .matrix
  | 3 => .objects
  | 4 => .hoa
  | 5 => .binaural
  | _ => .directSpeakers

/-- injective token of a rational (0 ↦ 0): Cantor pairing of the zig-zag numerator and the denominator. -/
def ratTok (q : Rat) : Nat :=
  if q = 0 then 0
  else
    let n : Nat := if q.num < 0 then 2 * q.num.natAbs - 1 else 2 * q.num.natAbs
    (n + q.den) * (n + q.den + 1) / 2 + q.den + 1

def boolTok (b : Bool) : Nat := if b then 1 else 0

def tdPack (p : Pack) : AdmV.Pack :=
  { type := tdType p.type, channels := p.channels, packs := p.subPacks, encodePacks := p.encodePacks,
    input := p.inputPack, output := p.outputPack, norm := p.normalization, scr := p.screenRef.map boolTok,
    nfc := p.nfcRefDist.map ratTok, absDist := p.absDist.map ratTok }

/-- the audioBlockFormats of a channel: the single HOA / Matrix block with the attributes validation reads, else
one attribute-less block per block label. -/
def tdBlocks (c : Channel) : List AdmV.Block :=
  if c.type = 4 ∧ c.blocks.length = 1 then
    [{ order := some c.hoa.order, degree := some c.hoa.degree, norm := c.hoa.normalization,
       scr := c.hoa.screenRef.map boolTok, rtime := c.hoa.rtime.map ratTok,
       duration := c.hoa.duration.map ratTok, nfc := c.hoa.nfcRefDist.map ratTok }]
  else if c.type = 2 ∧ c.blocks.length = 1 then
    [{ outCh := c.matrix.outputChannel,
       coeffs := c.matrix.coeffs.map fun k =>
         { input := some k.input, negDelay := match k.delay with | some d => decide (d < 0) | none => false } }]
  else c.blocks.map fun _ => {}

def tdChan (c : Channel) : AdmV.Channel :=
  { type := tdType c.type, freq := c.lowPass.isSome || c.highPass.isSome, blocks := tdBlocks c }

def tdObj (o : Obj) : AdmV.Obj :=
  { objects := o.subObjects, packs := o.packs, tracks := o.tracks, comps := o.complementary,
    pstart := o.start.isSome, pdur := o.duration.isSome, pgain := o.gain != 1, pmute := o.mute,
    poffset := o.posOff.isSome, avs := o.avs.map (·.label) }

def tdUid (u : TrackUID) : AdmV.TrackUID :=
  match u.ref with
  | .trackFormat t => { trackIndex := some u.trackIndex, pack := some u.pack, trackFormat := some t }
  | .channel c => { trackIndex := some u.trackIndex, pack := some u.pack, channel := some c }

/-- the C14 document graph of an index-based document. -/
def toDoc (a : Adm) : AdmV.Doc :=
  { v2Allowed := true,
    programmes := a.programmes.map fun p => { contents := p.contents, avs := p.avs },
    contents := a.contents.map fun c => { objects := c.objects, avs := c.avs },
    objects := a.objects.map tdObj,
    packs := a.fmt.packs.map tdPack,
    channels := a.fmt.channels.map tdChan,
    streams := a.fmt.streamFormats.map fun c => { channel := some c },
    trackFormats := a.fmt.trackFormats.map fun s => { stream := some s },
    trackUIDs := a.fmt.trackUIDs.map tdUid }

end Earverif.Adm
