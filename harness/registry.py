"""Which properties are claimed. The manifest text for a claimed property lives in its harness module
(`harness/cxx.py: REGISTRY = dict(text=, note=, technique=, design_ref=)`); tools/mk_manifest.py writes
MANIFEST.json from this; a property without a built check is listed under not_applicable with the reason."""
import importlib

ALL = ["C%02d" % i for i in range(1, 21)]

CLAIMED_IDS = ["C%02d" % i for i in range(1, 21)]

NOT_YET = ("no Lean model/correspondence built for this property yet in this session (planned in DESIGN.md "
           "section 4); not claimed rather than claimed with another technique")


def entry(pid):
    return importlib.import_module("harness." + pid.lower()).REGISTRY


CLAIMED = {pid: None for pid in CLAIMED_IDS}
