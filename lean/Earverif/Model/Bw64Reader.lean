/-
Model of `ear.fileio.bw64.reader.Bw64Reader.__init__` and the chunk accessors on a
`BytesIO` (C09 / C17).  Exceptions are `Err` values, `warnings.warn` calls are collected
in a list.  The sample-level part at the end (`openReader`, `framesAt`, `readSamples`) joins this
model with the cursor model (`Model/Bw64Cursor.lean`) and the PCM model (`Model/Pcm.lean`).
Core Lean only.
-/
import Earverif.Model.Bw64Writer
import Earverif.Model.Bw64Cursor

namespace Earverif.Bw64

/-- which `raise` (or failing `struct.unpack`) ended the constructor -/
inductive Err where
  | struct        -- struct.error: a short read handed to struct.unpack
  | notRiff       -- RuntimeError('not a riff, rf64 or bw64 file')
  | notWave       -- RuntimeError('not a wave file')
  | missingDs64   -- RuntimeError('malformed rf64 or bw64 file: missing ds64 chunk')
  | badId         -- ValueError('found chunk header with invalid ID ...')
  | chunkEnd      -- ValueError('... chunk ends after the end of the file ...')
  | dataPlaceholder -- ValueError('data chunk size has not been set; the file was not closed properly')
  | missingChunk  -- ValueError('required chunk "..." not found')
  | fmtSize       -- ValueError('illegal format chunk size')
  | cbSize        -- ValueError('fmt chunk not big enough for cbSize' / 'invalid cbSize ...')
  | fmtInvalid    -- FormatInfoChunk(...) constructor rejects the fields
  | chnaTracks    -- ValueError('numTracks in CHNA ... does not match ...')
  | unsupported   -- WAVE_FORMAT_EXTENSIBLE extra data (cbSize == 22): outside this model
  | fuel          -- model artefact: loop fuel exhausted (proved unreachable with fuel = len + 1)
  deriving DecidableEq, Repr

inductive Warn where
  | dataPad   -- "data chunk is missing padding byte"
  | chnaRef   -- "CHNA trackRef is expected to have format AC_xxxxxxxx_00 ..."
  deriving DecidableEq, Repr

/-- `DataSize64Chunk` as far as the reader uses it. -/
structure Ds64 where
  riffSize : Nat
  dataSize : Nat
  table : List (Bytes × Nat)   -- insertion order; `dict` semantics = last entry for an id wins
  deriving Repr

def Ds64.lookup (d : Ds64) (id : Bytes) : Option Nat :=
  (d.table.reverse.find? (fun e => e.1 == id)).map (·.2)

/-- `self._chunks`: most recent entry first, so that the first match is the `dict` value.
An entry is `(id, (size, position of the chunk id))`. -/
abbrev Table := List (Bytes × Nat × Nat)

def tlookup (t : Table) (id : Bytes) : Option (Nat × Nat) :=
  match t with
  | [] => none
  | e :: t => if e.1 = id then some e.2 else tlookup t id

/-- `_read_riff_chunk`: file format id. -/
def readRiff (f : Bytes) : Except Err Bytes :=
  let d := readAt f 0 8
  if d.length ≠ 8 then .error .struct else
  let id := d.take 4
  if id ≠ idRIFF ∧ id ≠ idRF64 ∧ id ≠ idBW64 then .error .notRiff else
  let t := readAt f 8 4
  if t.length ≠ 4 then .error .struct else
  if t ≠ idWAVE then .error .notWave else
  .ok id

/-- the table loop of `_read_ds64_chunk` -/
def readDs64Table (tablePart : Bytes) : Nat → Nat → List (Bytes × Nat) → Except Err (List (Bytes × Nat))
  | 0, _, acc => .ok acc
  | n + 1, i, acc =>
    let e := (tablePart.drop (i * 12)).take 12
    if e.length ≠ 12 then .error .struct else
    readDs64Table tablePart n (i + 1) (acc ++ [(e.take 4, fromLE (e.drop 4))])

/-- `_read_ds64_chunk` (buffer at offset 12): the chunk and the buffer position afterwards. -/
def readDs64 (f : Bytes) : Except Err (Ds64 × Nat) :=
  let d := readAt f 12 8
  if d.length ≠ 8 then .error .struct else
  if d.take 4 ≠ idDs64 then .error .missingDs64 else
  let size := fromLE (d.drop 4)
  let data := readAt f 20 size
  let fixed := data.take 28
  if fixed.length ≠ 28 then .error .struct else
  let riffSize := fromLE (fixed.take 8)
  let dataSize := fromLE ((fixed.drop 8).take 8)
  let tableLength := fromLE ((fixed.drop 24).take 4)
  match readDs64Table (data.drop 28) tableLength 0 [] with
  | .error e => .error e
  | .ok table => .ok (⟨riffSize, dataSize, table⟩, 20 + data.length)

/-- result of `_read_chunk_header` -/
inductive Hdr where
  | eof                              -- `return None`
  | badId                            -- `raise ValueError("found chunk header with invalid ID ...")`
  | placeholder                      -- `raise ValueError("data chunk size has not been set; ...")`
  | hdr (id : Bytes) (size : Nat)
  deriving Repr

/-- "correct chunkSize for rf64 and bw64 files": the size `_read_chunk_header` reports for a chunk whose
header says `sz0`; `ds` is `some` for RF64/BW64 files. -/
def hdrSize (ds : Option Ds64) (id : Bytes) (sz0 : Nat) : Nat :=
  match ds with
  | none => sz0
  | some d64 => if id = idData then d64.dataSize else (d64.lookup id).getD sz0

/-- the `elif` of the size correction in `_read_chunk_header`: in a plain RIFF file (no ds64 chunk, i.e.
`self.fileFormat not in [b'RF64', b'BW64']`) a `data` header whose size field is `0xFFFFFFFF` — the
placeholder `Bw64Writer` leaves until `close()` — is rejected. -/
def isPlaceholder (ds : Option Ds64) (id : Bytes) (sz0 : Nat) : Bool :=
  match ds with
  | some _ => false
  | none => id = idData && sz0 = 4294967295

/-- `_read_chunk_header` with the buffer at `pos`.  `ds` is `some` for RF64/BW64 files. -/
def readChunkHeader (f : Bytes) (ds : Option Ds64) (pos : Nat) : Hdr :=
  let d := readAt f pos 8
  if d.length ≠ 8 then .eof else                               -- EOF
  let id := d.take 4
  let sz0 := fromLE (d.drop 4)
  if !validId id then .badId else
  -- correct chunkSize for rf64 and bw64 files / reject the unset data size of a plain RIFF file
  if isPlaceholder ds id sz0 then .placeholder else
  .hdr id (hdrSize ds id sz0)

/-- `_read_chunks`.  Every iteration that does not return advances the position by at least 8, so
`fuel = len(file) + 1` is never exhausted. -/
def readChunks (f : Bytes) (ds : Option Ds64) : Nat → Nat → Table → List Warn → Except Err (Table × List Warn)
  | 0, _, _, _ => .error .fuel
  | fuel + 1, pos, t, w =>
    match readChunkHeader f ds pos with
    | .eof => .ok (t, w)
    | .badId => .error .badId
    | .placeholder => .error .dataPlaceholder
    | .hdr id sz =>
      let t' : Table := (id, sz, pos) :: t
      let e := pos + 8 + (sz + sz % 2)                          -- always skip an even number of bytes
      if e > f.length then
        if sz % 2 = 1 ∧ id = idData ∧ e = f.length + 1 then
          readChunks f ds fuel e t' (w ++ [.dataPad])
        else .error .chunkEnd
      else readChunks f ds fuel e t' w

/-- Fields of the `FormatInfoChunk` the reader builds (`cbSize == 0` path). -/
structure RFmt where
  formatTag : Nat
  channels : Nat
  rate : Nat
  bits : Nat
  deriving DecidableEq, Repr

/-- `_read_fmt_chunk` followed by the checks in `FormatInfoChunk.__init__`. -/
def readFmt (f : Bytes) (size pos : Nat) : Except Err RFmt :=
  if size < 16 then .error .fmtSize else
  let d := readAt f (pos + 8) 16
  if d.length ≠ 16 then .error .struct else
  let tag := fromLE (d.take 2)
  let ch := fromLE ((d.drop 2).take 2)
  let rate := fromLE ((d.drop 4).take 4)
  let bps := fromLE ((d.drop 8).take 4)
  let ba := fromLE ((d.drop 12).take 2)
  let bits := fromLE ((d.drop 14).take 2)
  let left := size - 16
  let cb : Except Err (Nat × Nat) :=
    if left > 2 then
      let c := readAt f (pos + 24) 2
      if c.length ≠ 2 then .error .struct else .ok (fromLE c, left - 2)
    else .ok (0, left)
  match cb with
  | .error e => .error e
  | .ok (cbSize, left) =>
    if cbSize > left then .error .cbSize else
    if cbSize = 22 then .error .unsupported else
    if cbSize ≠ 0 then .error .cbSize else
    -- FormatInfoChunk.__init__ (extraData is None here)
    if tag ≠ 1 ∧ tag ≠ 3 ∧ tag ≠ 65534 then .error .fmtInvalid else
    if tag = 65534 then .error .fmtInvalid else
    if ch < 1 then .error .fmtInvalid else
    if rate < 1 then .error .fmtInvalid else
    if bits ≠ 16 ∧ bits ≠ 24 ∧ bits ≠ 32 then .error .fmtInvalid else
    if bps ≠ 0 ∧ bps ≠ rate * (ch * bits / 8) then .error .fmtInvalid else
    if ba ≠ 0 ∧ ba ≠ ch * bits / 8 then .error .fmtInvalid else
    .ok ⟨tag, ch, rate, bits⟩

/-- `AC_` -/
def acPrefix : Bytes := [65, 67, 95]
/-- `_00` -/
def suffix00 : Bytes := [95, 48, 48]

/-- the entry loop of `_read_chna_chunk`: 40 bytes per entry read consecutively from the
buffer (not bounded by the chunk size). -/
def readChnaEntries (f : Bytes) : Nat → Nat → List ChnaEntry → List Warn → Except Err (List ChnaEntry × List Warn)
  | 0, _, acc, w => .ok (acc, w)
  | n + 1, pos, acc, w =>
    let d := readAt f pos 40
    if d.length ≠ 40 then .error .struct else
    let tf := (d.drop 14).take 14
    let w' := if tf.take 3 = acPrefix ∧ tf.drop 11 ≠ suffix00 then w ++ [.chnaRef] else w
    readChnaEntries f n (pos + 40) (acc ++ [⟨fromLE (d.take 2), d.drop 2⟩]) w'

/-- `_read_chna_chunk` for a chunk whose id is at `pos`. -/
def readChna (f : Bytes) (pos : Nat) : Except Err (List ChnaEntry × List Warn) :=
  let h := readAt f (pos + 8) 4
  if h.length ≠ 4 then .error .struct else
  let nTracks := fromLE (h.take 2)
  let nUIDs := fromLE (h.drop 2)
  match readChnaEntries f nUIDs (pos + 12) [] [] with
  | .error e => .error e
  | .ok (es, w) => if numTracks es ≠ nTracks then .error .chnaTracks else .ok (es, w)

/-- What a client can observe of a successfully opened reader. -/
structure Parsed where
  fileFormat : Bytes
  fmt : RFmt
  frames : Nat                       -- `len(reader)`
  data : Bytes                       -- the bytes `read(len(reader))` hands to the PCM decoder
  chna : Option (List ChnaEntry)     -- `reader.chna.audioIDs`
  axml : Option Bytes                -- `reader.axml`
  bext : Option Bytes                -- `reader.bext`
  deriving DecidableEq, Repr

/-- `reader.axml` / `reader.bext`: `buffer.seek(position.data); buffer.read(size)`. -/
def chunkData (f : Bytes) (t : Table) (id : Bytes) : Option Bytes :=
  (tlookup t id).map (fun e => readAt f (e.2 + 8) e.1)

/-- the byte count `__len__` divides by the block alignment: `self._ds64.dataSize` if there is a ds64
chunk, else `self._chunks[b'data'].size` -/
def lenBytes (ds : Option Ds64) (dsz : Nat) : Nat :=
  match ds with
  | some d => d.dataSize
  | none => dsz

/-- The rest of `__init__` after `_read_chunks` (`_check_chunks`, `_read_fmt_chunk`, `_read_chna_chunk`,
`seek(0)`), then the accessors, for file format id `ff`, ds64 chunk `ds`, chunk table `t` and the
warnings `w` raised so far. -/
def finishRead (f : Bytes) (ff : Bytes) (ds : Option Ds64) (t : Table) (w : List Warn) :
    Except Err (Parsed × List Warn) :=
  -- _check_chunks
  match tlookup t idFmt, tlookup t idData with
  | some (fsz, fpos), some (dsz, dpos) =>
    match readFmt f fsz fpos with
    | .error e => .error e
    | .ok fm =>
      let chnaR : Except Err (Option (List ChnaEntry) × List Warn) :=
        match tlookup t idChna with
        | none => .ok (none, [])
        | some (_, cpos) =>
          match readChna f cpos with
          | .error e => .error e
          | .ok (es, w) => .ok (some es, w)
      match chnaR with
      | .error e => .error e
      | .ok (chna, w2) =>
        let ba := fm.channels * fm.bits / 8
        -- __len__
        let frames := lenBytes ds dsz / ba
        .ok (⟨ff, fm, frames, readAt f (dpos + 8) (frames * ba), chna,
              chunkData f t idAxml, chunkData f t idBext⟩, w ++ w2)
  | _, _ => .error .missingChunk

/-- `_read_riff_chunk` and, for RF64/BW64, `_read_ds64_chunk`: format id, ds64 chunk, position of the
first ordinary chunk header. -/
def readHead (f : Bytes) : Except Err (Bytes × Option Ds64 × Nat) :=
  match readRiff f with
  | .error e => .error e
  | .ok ff =>
    if ff = idRF64 ∨ ff = idBW64 then
      match readDs64 f with
      | .error e => .error e
      | .ok (d, p) => .ok (ff, some d, p)
    else .ok (ff, none, 12)

/-- `Bw64Reader(BytesIO(f))`, then the accessors. -/
def readFile (f : Bytes) : Except Err (Parsed × List Warn) :=
  match readHead f with
  | .error e => .error e
  | .ok (ff, ds, p) =>
    match readChunks f ds (f.length + 1) p [] [] with
    | .error e => .error e
    | .ok (t, w) => finishRead f ff ds t w

/-! ### the opened reader: parse result plus the constants its cursor methods use -/

/-- `Bw64Reader(BytesIO(f))`: the parse result of `readFile` together with the constants `seek`/`tell`/
`read`/`__len__` consult afterwards (`Cursor.Cfg`): `_chunks[b'data'].position.data`,
`formatInfo.blockAlignment`, `_chunks[b'data'].size` (for RF64/BW64 `_read_chunk_header` has already
replaced it by `ds64.dataSize`, which is also what `__len__` divides) and `_file_len`.
The buffer is left at `position.data` (`self.seek(0)`). -/
def openReader (f : Bytes) : Except Err (Parsed × Cursor.Cfg × List Warn) :=
  match readHead f with
  | .error e => .error e
  | .ok (ff, ds, p) =>
    match readChunks f ds (f.length + 1) p [] [] with
    | .error e => .error e
    | .ok (t, w) =>
      match finishRead f ff ds t w with
      | .error e => .error e
      | .ok (pr, w') =>
        match tlookup t idData with
        | some (dsz, dpos) =>
          .ok (pr, ⟨((dpos + 8 : Nat) : Int), ((pr.fmt.channels * pr.fmt.bits / 8 : Nat) : Int), (dsz : Int),
                    (f.length : Int)⟩, w')
        | none => .error .missingChunk

/-- `deinterleave(decode_pcm_samples(rawData, bitdepth), channels)` for the `count` bytes at offset
`start`; `none` = numpy raises. -/
def framesAt (f : Bytes) (bits ch : Nat) (start count : Nat) : Option (List (List Rat)) :=
  (Pcm.decodeBytes bits (readAt f start count)).bind (Pcm.deinterleave ch)

/-- `Bw64Reader.read(n)` with the buffer at `pos`: the new buffer position (`Cursor.read`) and the
sample block returned. -/
def readSamples (f : Bytes) (fm : RFmt) (k : Cursor.Cfg) (pos n : Int) : Int × Option (List (List Rat)) :=
  let r := Cursor.read k pos n
  (r.1, framesAt f fm.bits fm.channels r.2.1.toNat r.2.2.toNat)

end Earverif.Bw64
