/-
C10 — `DirectSpeakersPanner.handle` with NOTHING captured: the position glue and both fallback panners are inside
the model (`handleC`).  Core Lean only; written once over a scalar type (run over `Float` by the driver, proved over
`ℝ` in `Props/C10.lean`).

`Model/DirectSpeakers.lean` + `Model/DirectSpeakersGeom.lean` keep three things as inputs: the Cartesian vector of the
shifted position, the Cartesian screen-edge-lock result and the gains of the fallback panner.  Here they are computed,
by import of the models other checks own (imported, not edited):
  * `position.as_cartesian_array()` for a polar position = `common.cart`   `Earverif.GainCalc.cart`          (C01)
  * `ScreenEdgeLockHandler.handle_vector(..., cartesian=True)`:
      `point_cart_to_polar` / `point_polar_to_cart`                        `Earverif.Conv.pointCartToPolar`, `pointPolarToCart` (C19)
      `compensate_position`                                                `Earverif.CartLock.compensatePosition` (C13)
      `lock_to_screen_edge`                                                `lockEdgeC` (here; the polar one is `lockToScreenEdge`)
  * `self.psp = point_source.configure(layout.without_lfe)`, `.handle`     `Earverif.GainCalc.pspHandle` on the C05 table
                                                                           (`Model/PointSource.lean`, `Gen/C05_Tables.lean`,
                                                                           `np.roots` = closed form `quadRoot`, see GainCalcConcrete)
  * `self.allo_psp = configure_allocentric(layout.without_lfe)`, `.handle` `Earverif.CartLock.speakerTree` (C13) +
                                                                           `Earverif.GainCalc.alloHandle` (C01)
and with own transliterations (over the scalar type, square roots as the code takes them) of
  * `channels_within_bounds` (Cartesian) after the lock                    `cartWithinC`
  * `closest_channel_index` (`np.linalg.norm`, `argmin`, `count_nonzero(abs(min - d) < tol) == 1`)   `closestIndexC`
  * the exits after the label match, `pv[~is_lfe] = psp.handle(position)`, `× gain × object gain`    `lateExitC`, `scatterC`, `scaleC`
What is reused unchanged from the rational model: the two early exits (`earlyExit`: mapping rules, label match; they do
not look at the position), `is_lfe_channel`, the polar `channels_within_bounds` with the polar screen edge lock
(`polarWithin`, `applySelPolar`: every quantity there is a float64 of the block or of the regenerated table, compared
exactly), the LFE-class mask `candidates`.

Which panner with which position (as `_handle_without_gain` does):
  polar block      →  `self.psp.handle(cart(az', el', 1.0))`        with (az', el') after the POLAR screen edge lock
  Cartesian block  →  `self.allo_psp.handle([X', Y', Z'])`          with (X', Y', Z') after the CARTESIAN screen edge lock
the lock is applied BEFORE `channels_within_bounds`, `closest_channel_index` and the panner; the panner result goes to
the non-LFE slots only.

Not a literal copy: `psp.handle` returning `None` makes numpy write NaN into the non-LFE slots (`pv[mask] = None`), and
makes `StereoPanDownmix.handle` (0+2+0) raise TypeError: both are the error `pspNone` here (the harness maps it).

Distance 0 (no validator forbids it: `BoundCoordinate.value` is only `finite_float`): `cart(az, el, 0)` is the zero
vector, for which `configure(layout).handle` computes `0 / 0` (NaN gains).  Since /repo 1404dee the polar branch of
`_handle_without_gain` therefore hands the panner `cart(az', el', 1.0)` — the direction at unit distance — and keeps
`shifted_position.as_cartesian_array()` (with the block's distance) for `closest_channel_index` only: `Shifted.pan` versus
`Shifted.cart` below.  The distance is also used, legitimately, by the polar `channels_within_bounds`.
-/
import Earverif.Model.DirectSpeakersGeom
import Earverif.Model.GainCalcConcrete

namespace Earverif.DS
open Earverif.GainCalc (V3 k)

/-! ### own glue, over the C01 scalar class only -/

section glue
variable {α : Type} [GainCalc.Scalar α]

/-- a rational gain vector (early exits, unit vectors) as scalars -/
def castV (v : List Rat) : List α := v.map k

/-- a table position (exact rational of the float64) as scalars -/
def cast3 (p : Vec3) : V3 α := (k p.1, k p.2.1, k p.2.2)

/-- `np.linalg.norm(positions[i] - cart_position)` -/
def distC (p q : V3 α) : α := GainCalc.norm3 (GainCalc.vsub p q)

/-- `np.argmin`: index of the first minimum (finite entries). -/
def argminFirstC : List α → Option Nat
  | [] => none
  | x :: xs =>
    match argminFirstC xs with
    | none => some 0
    | some j => if xs.getD j GainCalc.zero < x then some (j + 1) else some 0

/-- `np.abs(min_dist - d) < tol` -/
def closeToC (m tol d : α) : Bool :=
  let x := m - d
  decide ((if x < GainCalc.zero then -x else x) < tol)

/-- `closest_channel_index(positions, position, candidates, tol)` with `cart = position.as_cartesian_array()`. -/
def closestIndexC (positions : List (V3 α)) (cart : V3 α) (cands : List Bool) (tol : α) : Option Nat :=
  let idxs := flatnonzero cands
  let ds := idxs.map fun i => distC (positions.getD i (GainCalc.zero, GainCalc.zero, GainCalc.zero)) cart
  match argminFirstC ds with
  | none => none
  | some mi =>
    let m := ds.getD mi GainCalc.zero
    if ds.countP (closeToC m tol) = 1 then idxs[mi]? else none

/-- `BoundCoordinate` whose `value` has been replaced by the screen edge lock (min / max are the block's). -/
structure BoundC (α : Type) where
  value : α
  min : Option Rat
  max : Option Rat

/-- `bound.min if bound.min is not None else bound.value` -/
def BoundC.lo (b : BoundC α) : α := (b.min.map k).getD b.value
/-- `bound.max if bound.max is not None else bound.value` -/
def BoundC.hi (b : BoundC α) : α := (b.max.map k).getD b.value

/-- `np.all(allo + tol >= bounds_min) & np.all(allo - tol <= bounds_max)` for one channel. -/
def cartWithin1C (x y z : BoundC α) (tol : α) (p : V3 α) : Bool :=
  (decide (x.lo ≤ p.1 + tol) && decide (y.lo ≤ p.2.1 + tol) && decide (z.lo ≤ p.2.2 + tol)) &&
    (decide (p.1 - tol ≤ x.hi) && decide (p.2.1 - tol ≤ y.hi) && decide (p.2.2 - tol ≤ z.hi))

/-- `channels_within_bounds(DirectSpeakerCartesianPosition, tol)` -/
def cartWithinC (allo : List (V3 α)) (x y z : BoundC α) (tol : α) : List Bool :=
  allo.map (cartWithin1C x y z tol)

/-- `ScreenEdgeLockHandler.lock_to_screen_edge` with the table's `rep_screen_edges`. -/
def lockEdgeC (e : ScreenEdges) (az el : α) (sel : ScreenEdgeLock) : α × α :=
  let az := if sel.horizontal = some "left" then k e.left else az
  let az := if sel.horizontal = some "right" then k e.right else az
  let el := if sel.vertical = some "top" then k e.top else el
  let el := if sel.vertical = some "bottom" then k e.bottom else el
  (az, el)

/-- `pv = zeros(n); pv[~is_lfe] = gains` (numpy raises on a wrong number of gains: `none`). -/
def scatterC : List Bool → List α → Option (List α)
  | [], [] => some []
  | [], _ :: _ => none
  | true :: m, ps => (scatterC m ps).map (GainCalc.zero :: ·)
  | false :: _, [] => none
  | false :: m, p :: ps => (scatterC m ps).map (p :: ·)

/-- `pvs * block_format.gain * get_object_gain(type_metadata)` -/
def scaleC (b : Block) (pv : List α) : List α := pv.map fun x => x * k b.gain * k (objectGainOf b)

/-- What escapes `handle` (or, for `pspNone` on a layout other than 0+2+0, comes back as NaN gains). -/
inductive CError
  /-- the errors of the decision structure (`Model/DirectSpeakers.lean`) -/
  | ds (e : DsError)
  /-- the fallback panner has no result for the position -/
  | pspNone
  /-- the Cartesian screen edge lock fails (`_find_sector` / `_find_cart_sector` hit `assert False`) -/
  | edgeLock
  /-- `AllocentricPanner._speaker_tree` fails in the constructor (duplicate positions) -/
  | speakerTree
deriving DecidableEq, Repr

/-- The exits after the label match: closest loudspeaker within bounds, LFE fallback, panner fallback
    (the same decision structure as `lateExit`, with the panner called only where the code calls it). -/
def lateExitC (L : Layout) (lfe : Bool) (wb : List Bool) (closest : Option Nat)
    (fallback : Unit → Except CError (List α)) : Except CError (Exit × List α) :=
  let n := L.names.length
  let cand := candidates L lfe wb
  match (if cand.any id then closest else none) with
  | some c => .ok (.closest, castV (unitVec n c))
  | none =>
    if lfe then
      if L.names.contains "LFE1" then .ok (.lfeToLfe1, castV (unitVec n (L.names.idxOf "LFE1")))
      else .ok (.lfeDiscarded, castV (zeros n))
    else
      match fallback () with
      | .error e => .error e
      | .ok g =>
        match scatterC L.isLfe g with
        | some pv => .ok (.pointSource, pv)
        | none => .error (.ds .pspShape)

end glue

/-! ### the block's position, the per-layout data -/

/-- `block_format.position` as given (screen edge lock not yet applied). -/
inductive PositionC
  | polar (az el dist : Bound) (sel : ScreenEdgeLock)
  | cart (x y z : Bound) (sel : ScreenEdgeLock)
deriving Repr

/-- What `DirectSpeakersPanner.__init__` keeps of the layout, from the regenerated tables. -/
structure CEnv where
  /-- `layout.name`, `channel_names`, `is_lfe` (Gen/C10_Tables `layouts`) -/
  L : Layout
  /-- nominal polar / Cartesian / allocentric positions of all channels, screen edges (Gen/C10_Tables `geoms`) -/
  G : LayoutGeom
  /-- `self.psp = point_source.configure(layout.without_lfe)` (Gen/C05_Tables) -/
  psp : PointSource.RawLayout
  /-- `self.allo_psp.positions` = `allocentric.positions_for_layout(layout.without_lfe)` (Gen/C10_Tables `alloPsp`) -/
  alloPsp : List Vec3
  /-- `"U+045" in layout.channel_names` (`compensate_position`) -/
  hasU045 : Bool

section concrete
variable {α : Type} [GainCalc.Scalar α] [Zone.ScalarSqrt α] [Conv.Scalar α] [PointSource.Scalar α] [PointSource.OfF2 α]

/-- `ScreenEdgeLockHandler.handle_vector(position, screen_edge_lock, cartesian=True)`; `none` where the Python
    conversion asserts. -/
def handleVectorCart (E : CEnv) (P : Conv.Params α) (p : V3 α) (sel : ScreenEdgeLock) : Option (V3 α) :=
  match E.G.edges with
  | none => some p
  | some e =>
    if sel.horizontal.isSome || sel.vertical.isSome then
      match Conv.pointCartToPolar P p.1 p.2.1 p.2.2 with
      | none => none
      | some ((az, el, d), _) =>
        let l := lockEdgeC e az el sel
        let c := CartLock.compensatePosition E.hasU045 l.1 l.2
        (Conv.pointPolarToCart P c.1 c.2 d).map (·.1)
    else some p

/-- What `_handle_without_gain` knows after `apply_screen_edge_lock` and `channels_within_bounds`. -/
structure Shifted (α : Type) where
  /-- `channels_within_bounds(shifted_position, tol)` before the LFE-class mask -/
  wb : List Bool
  /-- `shifted_position.as_cartesian_array()` (what `closest_channel_index` measures distances from) -/
  cart : V3 α
  /-- the position handed to the fallback panner: polar `cart(shifted.azimuth, shifted.elevation, 1.0)`, Cartesian
      `shifted_position.as_cartesian_array()` -/
  pan : V3 α
  /-- `self.positions` (polar) / `self.allo_positions` (Cartesian) -/
  positions : List (V3 α)
  /-- polar block: `psp = self.psp`; Cartesian block: `psp = self.allo_psp` -/
  polar : Bool

/-- `shifted_position = apply_screen_edge_lock(position)`; `within_bounds = channels_within_bounds(shifted_position, tol)`. -/
def shift (E : CEnv) (P : Conv.Params α) (pos : PositionC) (tol : Rat) : Except CError (Shifted α) :=
  match pos with
  | .polar az el dist sel =>
    let s := applySelPolar E.G az el sel
    .ok { wb := polarWithin E.G s.1 s.2 dist tol,
          cart := GainCalc.cart (k s.1.value) (k s.2.value) (k dist.value),
          pan := GainCalc.cart (k s.1.value) (k s.2.value) (k 1),
          positions := E.G.pos.map cast3, polar := true }
  | .cart x y z sel =>
    match handleVectorCart E P (k x.value, k y.value, k z.value) sel with
    | none => .error .edgeLock
    | some q =>
      .ok { wb := cartWithinC (E.G.allo.map cast3) ⟨q.1, x.min, x.max⟩ ⟨q.2.1, y.min, y.max⟩ ⟨q.2.2, z.min, z.max⟩ (k tol),
            cart := q, pan := q, positions := E.G.allo.map cast3, polar := false }

/-- `psp.handle(position)` with `psp = self.psp` / `self.allo_psp` and `position = Shifted.pan`. -/
def fallbackC (E : CEnv) (s : Shifted α) : Except CError (List α) :=
  if s.polar then
    match GainCalc.pspHandle E.psp s.pan with
    | none => .error .pspNone
    | some g => .ok g
  else
    let sub : List (Zone.P3 α) := E.alloPsp.map fun p => GainCalc.toP3 (cast3 p)
    match CartLock.speakerTree sub with
    | none => .error .speakerTree
    | some st =>
      match GainCalc.alloHandle sub.length st s.pan.1 s.pan.2.1 s.pan.2.2 with
      | none => .error .pspNone
      | some g => .ok g

/-- `DirectSpeakersPanner._handle_without_gain`, nothing captured. -/
def handleNoGainC (R : List MappingRule) (ituPacks : List (String × String)) (E : CEnv) (P : Conv.Params α)
    (b : Block) (pos : PositionC) (tol : Rat) : Except CError (Exit × List α) :=
  if b.hasPositionOffset then .error (.ds .positionOffset)
  else
    match earlyExit R ituPacks E.L b with
    | .error e => .error (.ds e)
    | .ok (some r) => .ok (r.1, castV r.2)
    | .ok none =>
      match shift E P pos tol with
      | .error e => .error e
      | .ok s =>
        let lfe := isLfeChannel b
        lateExitC E.L lfe s.wb (closestIndexC s.positions s.cart (candidates E.L lfe s.wb) (k tol))
          (fun _ => fallbackC E s)

/-- `DirectSpeakersPanner.handle`, nothing captured. -/
def handleC (R : List MappingRule) (ituPacks : List (String × String)) (E : CEnv) (P : Conv.Params α)
    (b : Block) (pos : PositionC) (tol : Rat) : Except CError (Exit × List α) :=
  match handleNoGainC R ituPacks E P b pos tol with
  | .error e => .error e
  | .ok (e, pv) => .ok (e, scaleC b pv)

end concrete

/-! ### the environment of a layout from the regenerated tables -/

/-- Look the layout up in the C10 tables (`layouts`, `geoms`, `alloPsp`) and the C05 table. -/
def mkEnv (layouts : List Layout) (geoms : List (String × LayoutGeom)) (alloPsp : List (String × List Vec3))
    (pspTables : List PointSource.RawLayout) (name : String) : Option CEnv := do
  let L ← layouts.find? (fun L => L.name == name)
  let G ← geoms.lookup name
  let a ← alloPsp.lookup name
  let T ← pspTables.find? (fun T => T.name == name)
  some { L := L, G := G, psp := T, alloPsp := a, hasU045 := L.names.contains "U+045" }

end Earverif.DS
