/-
Round trips of the exactly modelled hand-written handlers (`Model/XmlCustom.lean`), with the points at
which the real code does not round-trip stated as theorems.
-/
import Earverif.Model.XmlCustom
import Earverif.Proofs.C08Leaf

namespace Earverif.XmlCustom
open Earverif.XmlCodec

/-! ### frequency -/

/-- every `Frequency` value (both, one or no limit) survives `frequency_to_xml` + `handle_frequency` -/
theorem frequency_roundtrip (f : Frequency) : parseFrequency (frequencyToXml f) = some f := by
  obtain ⟨lo, hi⟩ := f
  cases lo <;> cases hi <;>
    simp [parseFrequency, frequencyToXml, handleFrequency, attr?, elem, Xml.attrs, Xml.text, loadsNum_dumpsNum]

/-! ### jumpPosition -/

/-- `jumpPosition` round-trips whenever the flag is set or there is no interpolationLength -/
theorem jumpPosition_roundtrip (j : JumpPosition) (h : j.flag = true ∨ j.interpolationLength = none) :
    parseJumpPosition (jumpPositionToXml j) = some j := by
  obtain ⟨flag, il⟩ := j
  cases flag <;> cases il <;> simp at h <;>
    simp [parseJumpPosition, jumpPositionToXml, handleJumpPosition, attr?, elem, Xml.attrs, Xml.text, boolCodec,
      loadsNum_dumpsNum]

/-- the excluded point (also evaluated on the real code by the harness): with the flag unset
`jump_position_to_xml` writes nothing, so an interpolationLength is lost -/
theorem jumpPosition_excluded (k : Int) :
    parseJumpPosition (jumpPositionToXml ⟨false, some k⟩) = some ⟨false, none⟩ := by
  simp [parseJumpPosition, jumpPositionToXml]

/-! ### DirectSpeakers position -/

theorem Dict.get?_append_new {α} (d : Dict α) (k : String) (v : α) (h : d.any (·.1 == k) = false) :
    Dict.get? (d ++ [(k, v)]) k = some v := by
  unfold Dict.get?
  rw [List.find?_append]
  have : d.find? (·.1 == k) = none := by
    rw [List.find?_eq_none]
    intro x hx
    have := List.any_eq_false.mp h x hx
    simpa using this
  simp [this]

theorem Dict.set_new {α} (d : Dict α) (k : String) (v : α) (h : d.any (·.1 == k) = false) :
    Dict.set d k v = d ++ [(k, v)] := by
  simp [Dict.set, h]

theorem Dict.set_append_last {α} (d : Dict α) (k : String) (v v' : α) (h : d.any (·.1 == k) = false) :
    Dict.set (d ++ [(k, v)]) k v' = d ++ [(k, v')] := by
  unfold Dict.set
  have hany : (d ++ [(k, v)]).any (·.1 == k) = true := by simp
  rw [hany, if_pos rfl, List.map_append]
  congr 1
  · calc d.map (fun e => if (e.1 == k) = true then (k, v') else e) = d.map id := by
          apply List.map_congr_left
          intro x hx
          have := List.any_eq_false.mp h x hx
          simp only [Bool.not_eq_true] at this
          simp [this]
      _ = d := List.map_id d
  · simp

theorem Dict.any_append_other {α} (d : Dict α) (k k' : String) (v : α) (h : d.any (·.1 == k') = false)
    (hk : k ≠ k') : (d ++ [(k, v)]).any (·.1 == k') = false := by
  simp [h, hk]

/-- the dictionary `position[coordinate]` after the elements written by `dump_bound` -/
def dictOf (b : Bound) : Dict Int :=
  [("value", b.value)] ++ (match b.max with | some v => [("max", v)] | none => []) ++
    (match b.min with | some v => [("min", v)] | none => [])

theorem boundOf_dictOf (b : Bound) : boundOf (dictOf b) = some b := by
  obtain ⟨v, mn, mx⟩ := b
  cases mn <;> cases mx <;> simp [boundOf, dictOf, Dict.get?]

/-- how the screenEdgeLock attribute of the value element updates the state -/
def selAfter (sel : ScreenEdgeLock) (horizontal : Bool) : Option String → ScreenEdgeLock
  | none => sel
  | some s => if horizontal then { sel with horizontal := some s } else { sel with vertical := some s }

/-- validity of a lock for a coordinate -/
def lockOK (coordinate : String) (horizontal : Bool) : Option String → Prop
  | none => True
  | some s =>
    if horizontal then (coordinate = "azimuth" ∨ coordinate = "X") ∧ (s = "left" ∨ s = "right")
    else (coordinate = "elevation" ∨ coordinate = "Z") ∧ (s = "top" ∨ s = "bottom")

theorem foldlM_append' {α β} (f : β → α → Option β) (xs ys : List α) (b : β) :
    (xs ++ ys).foldlM f b = (xs.foldlM f b).bind (ys.foldlM f) := by
  induction xs generalizing b with
  | nil => simp
  | cons x xs ih =>
    simp only [List.cons_append, List.foldlM_cons, Option.bind_eq_bind]
    cases f b x with
    | none => rfl
    | some b' => simpa using ih b'

/-- the elements written by `dump_bound` for a coordinate that has not been seen yet -/
theorem dumpBound_steps (st : PosState) (coordinate : String) (b : Bound) (horizontal : Bool)
    (lock : Option String) (hnew : st.position.any (·.1 == coordinate) = false)
    (hlock : lockOK coordinate horizontal lock)
    (hnotboth : horizontal = false → lock ≠ none → ¬ (coordinate = "azimuth" ∨ coordinate = "X")) :
    (dumpBound coordinate b lock).foldlM speakerStep st
      = some ⟨st.position ++ [(coordinate, dictOf b)], selAfter st.sel horizontal lock⟩ := by
  obtain ⟨pos, sel⟩ := st
  obtain ⟨v, mn, mx⟩ := b
  simp only at hnew
  have hget0 : Dict.get? pos coordinate = none := by
    unfold Dict.get?
    have : pos.find? (·.1 == coordinate) = none := by
      rw [List.find?_eq_none]; intro x hx
      have := List.any_eq_false.mp hnew x hx; simpa using this
    simp [this]
  -- first element: the value, possibly with a lock
  have first : speakerStep ⟨pos, sel⟩
      (elem "position" (("coordinate", coordinate) :: lockAttrs lock) (dumpsNum v))
      = some ⟨pos ++ [(coordinate, [("value", v)])], selAfter sel horizontal lock⟩ := by
    cases lock with
    | none =>
      simp [speakerStep, attr?, elem, Xml.attrs, Xml.text, loadsNum_dumpsNum, hget0, Dict.set, hnew, selAfter, lockAttrs]
    | some s =>
      cases horizontal with
      | true =>
        simp only [lockOK, if_true] at hlock
        simp [speakerStep, attr?, elem, Xml.attrs, Xml.text, loadsNum_dumpsNum, hget0, Dict.set, hnew, selAfter,
          lockAttrs, hlock.1, hlock.2]
      | false =>
        simp only [lockOK, Bool.false_eq_true, if_false] at hlock
        have hn := hnotboth rfl (by simp)
        simp [speakerStep, attr?, elem, Xml.attrs, Xml.text, loadsNum_dumpsNum, hget0, Dict.set, hnew, selAfter,
          lockAttrs, hlock.1, hlock.2, hn]
  -- a later element with a bound
  have later : ∀ (d : Dict Int) (sel' : ScreenEdgeLock) (bound : String) (w : Int),
      speakerStep ⟨pos ++ [(coordinate, d)], sel'⟩
        (elem "position" [("coordinate", coordinate), ("bound", bound)] (dumpsNum w))
      = some ⟨pos ++ [(coordinate, Dict.set d bound w)], sel'⟩ := by
    intro d sel' bound w
    simp [speakerStep, attr?, elem, Xml.attrs, Xml.text, loadsNum_dumpsNum, Dict.get?_append_new pos coordinate d hnew,
      Dict.set_append_last pos coordinate d _ hnew]
  cases mn <;> cases mx <;>
    simp [dumpBound, first, later, dictOf, Dict.set]

def SelOK (sel : ScreenEdgeLock) : Prop :=
  (sel.horizontal = none ∨ sel.horizontal = some "left" ∨ sel.horizontal = some "right") ∧
  (sel.vertical = none ∨ sel.vertical = some "top" ∨ sel.vertical = some "bottom")

def SpeakerPosition.sel : SpeakerPosition → ScreenEdgeLock
  | .polar _ _ _ s => s
  | .cartesian _ _ _ s => s

theorem selAfter_both (h v : Option String) :
    selAfter (selAfter ⟨none, none⟩ true h) false v = ⟨h, v⟩ := by
  cases h <;> cases v <;> rfl

theorem selAfter_none (s : ScreenEdgeLock) (b : Bool) : selAfter s b none = s := rfl

theorem lockOK_h (c : String) (hc : c = "azimuth" ∨ c = "X") (h : Option String)
    (hh : h = none ∨ h = some "left" ∨ h = some "right") : lockOK c true h := by
  rcases hh with rfl | rfl | rfl <;> simp [lockOK, hc]

theorem lockOK_v (c : String) (hc : c = "elevation" ∨ c = "Z") (v : Option String)
    (hv : v = none ∨ v = some "top" ∨ v = some "bottom") : lockOK c false v := by
  rcases hv with rfl | rfl | rfl <;> simp [lockOK, hc]

/-- **DirectSpeakers position round trip**: every polar or Cartesian speaker position — with any
combination of `min` / `max` bounds on the three coordinates, with or without screen edge locks (valid
ones: `left`/`right` on azimuth or X, `top`/`bottom` on elevation or Z), with the polar distance elided when it
is the default `BoundCoordinate(1.0)` — is read back exactly from the `position` elements written for it. -/
theorem speakerPosition_roundtrip (p : SpeakerPosition) (h : SelOK p.sel) :
    parseSpeakerPosition (speakerPositionToXml p) = some p := by
  cases p with
  | polar az el di sel =>
    obtain ⟨hh, hv⟩ := h
    obtain ⟨sh, sv⟩ := sel
    simp only [SpeakerPosition.sel] at hh hv
    have s1 := dumpBound_steps ⟨[], ⟨none, none⟩⟩ "azimuth" az true sh rfl
      (lockOK_h _ (Or.inl rfl) sh hh) (fun hf => by cases hf)
    have s2 := dumpBound_steps ⟨[("azimuth", dictOf az)], selAfter ⟨none, none⟩ true sh⟩ "elevation" el false sv
      (by simp) (lockOK_v _ (Or.inl rfl) sv hv) (fun _ _ => by decide)
    simp only [List.nil_append, List.cons_append] at s1 s2
    unfold parseSpeakerPosition speakerPositionToXml
    by_cases hd : di = ⟨100000, none, none⟩
    · subst hd
      simp only [ne_eq, not_true_eq_false, if_false, List.append_nil, foldlM_append', s1, s2, Option.bind_some,
        selAfter_both]
      simp [speakerFinish, sameKeys, Dict.get?, boundOf_dictOf]
    · have s3 := dumpBound_steps
        ⟨[("azimuth", dictOf az), ("elevation", dictOf el)], selAfter (selAfter ⟨none, none⟩ true sh) false sv⟩
        "distance" di true none (by simp) trivial (fun hf => by cases hf)
      simp only [List.nil_append, List.cons_append] at s3
      simp only [ne_eq, hd, not_false_eq_true, if_true, foldlM_append', s1, s2, s3, Option.bind_some]
      simp only [selAfter_none, selAfter_both]
      simp [speakerFinish, sameKeys, Dict.get?, boundOf_dictOf]
  | cartesian x y z sel =>
    obtain ⟨hh, hv⟩ := h
    obtain ⟨sh, sv⟩ := sel
    simp only [SpeakerPosition.sel] at hh hv
    have s1 := dumpBound_steps ⟨[], ⟨none, none⟩⟩ "X" x true sh rfl
      (lockOK_h _ (Or.inr rfl) sh hh) (fun hf => by cases hf)
    have s2 := dumpBound_steps ⟨[("X", dictOf x)], selAfter ⟨none, none⟩ true sh⟩ "Y" y true none
      (by simp) trivial (fun hf => by cases hf)
    have s3 := dumpBound_steps ⟨[("X", dictOf x), ("Y", dictOf y)], selAfter ⟨none, none⟩ true sh⟩ "Z" z false sv
      (by simp) (lockOK_v _ (Or.inr rfl) sv hv) (fun _ _ => by decide)
    simp only [List.nil_append, List.cons_append, selAfter_none] at s1 s2 s3
    unfold parseSpeakerPosition speakerPositionToXml
    simp only [foldlM_append', s1, s2, s3, Option.bind_some, selAfter_both]
    simp [speakerFinish, sameKeys, Dict.get?, boundOf_dictOf]

/-- non-vacuity / concrete instance: a polar position with bounds on the distance (the case the seeded
change of round 1 broke) -/
example : parseSpeakerPosition (speakerPositionToXml
    (.polar ⟨3000000, none, none⟩ ⟨0, some (-500000), some 500000⟩ ⟨100000, some 50000, some 200000⟩
      ⟨some "left", none⟩))
    = some (.polar ⟨3000000, none, none⟩ ⟨0, some (-500000), some 500000⟩ ⟨100000, some 50000, some 200000⟩
      ⟨some "left", none⟩) :=
  speakerPosition_roundtrip _ ⟨Or.inr (Or.inl rfl), Or.inl rfl⟩

/-- an invalid lock (e.g. `top` stored as horizontal) is written but refused by the parser: outside `SelOK` -/
theorem speakerPosition_bad_lock (az el di : Bound) :
    parseSpeakerPosition (speakerPositionToXml (.polar az el di ⟨some "top", none⟩)) = none := by
  unfold parseSpeakerPosition speakerPositionToXml
  simp [dumpBound, lockAttrs, speakerStep, attr?, elem, Xml.attrs, Xml.text, loadsNum_dumpsNum]

/-! ### Objects position -/

def ObjectPosition.sel : ObjectPosition → ScreenEdgeLock
  | .polar _ _ _ s => s
  | .cartesian _ _ _ s => s

/-- the values the constructor of `ObjectPolarPosition` accepts (Cartesian positions are not range-checked) -/
def ObjectPosition.inRange : ObjectPosition → Prop
  | .polar az el di _ => -18000000 ≤ az ∧ az ≤ 18000000 ∧ -9000000 ≤ el ∧ el ≤ 9000000 ∧ 0 ≤ di
  | .cartesian _ _ _ _ => True

/-- **Objects position round trip**: polar (distance elided when 1.0) and Cartesian (Z elided when 0.0 and
not locked) positions with valid screen edge locks are read back exactly. -/
theorem objectPosition_roundtrip (p : ObjectPosition) (hs : SelOK p.sel) (hr : p.inRange) :
    parseObjectPosition (objectPositionToXml p) = some p := by
  cases p with
  | polar az el di sel =>
    obtain ⟨sh, sv⟩ := sel
    obtain ⟨hh, hv⟩ := hs
    simp only [ObjectPosition.sel] at hh hv
    simp only [ObjectPosition.inRange] at hr
    by_cases hd : di = 100000
    · subst hd
      rcases hh with rfl | rfl | rfl <;> rcases hv with rfl | rfl | rfl <;>
        simp [parseObjectPosition, objectPositionToXml, dumpCoordinate, lockAttrs, objectStep, objectFinish,
          attr?, elem, Xml.attrs, Xml.text, loadsNum_dumpsNum, sameKeys, Dict.get?, hr]
    · rcases hh with rfl | rfl | rfl <;> rcases hv with rfl | rfl | rfl <;>
        simp [parseObjectPosition, objectPositionToXml, dumpCoordinate, lockAttrs, objectStep, objectFinish,
          attr?, elem, Xml.attrs, Xml.text, loadsNum_dumpsNum, sameKeys, Dict.get?, hr, hd]
  | cartesian x y z sel =>
    obtain ⟨sh, sv⟩ := sel
    obtain ⟨hh, hv⟩ := hs
    simp only [ObjectPosition.sel] at hh hv
    by_cases hz : z = 0
    · subst hz
      rcases hh with rfl | rfl | rfl <;> rcases hv with rfl | rfl | rfl <;>
        simp [parseObjectPosition, objectPositionToXml, dumpCoordinate, lockAttrs, objectStep, objectFinish,
          attr?, elem, Xml.attrs, Xml.text, loadsNum_dumpsNum, sameKeys, Dict.get?]
    · rcases hh with rfl | rfl | rfl <;> rcases hv with rfl | rfl | rfl <;>
        simp [parseObjectPosition, objectPositionToXml, dumpCoordinate, lockAttrs, objectStep, objectFinish,
          attr?, elem, Xml.attrs, Xml.text, loadsNum_dumpsNum, sameKeys, Dict.get?, hz]

/-- outside the range the constructor refuses what was written (e.g. azimuth 181°) -/
theorem objectPosition_out_of_range :
    parseObjectPosition (objectPositionToXml (.polar 18100000 0 100000 ⟨none, none⟩)) = none := by
  simp [parseObjectPosition, objectPositionToXml, dumpCoordinate, lockAttrs, objectStep, objectFinish,
    attr?, elem, Xml.attrs, Xml.text, loadsNum_dumpsNum, sameKeys, Dict.get?]

/-! ### gain -/

/-- gain sub-element (both versions): the value comes back, `1.0` through the constructor default -/
theorem gainElement_roundtrip (v2 : Bool) (k : Int) :
    parseGainElements v2 (gainToXml k) = some (if k = 100000 then none else some (.linear k)) := by
  by_cases h : k = 100000
  · simp [parseGainElements, gainToXml, h]
  · cases v2 <;>
      simp [parseGainElements, gainToXml, h, handleGainElement, parseGain, attr?, elem, Xml.attrs, Xml.text,
        loadsNum_dumpsNum]

/-- optional gain (alternativeValueSet): `None` stays `None` -/
theorem optionalGain_roundtrip (g : Option Int) :
    parseGainElements true (optionalGainToXml g) = some (g.map .linear) := by
  cases g <;>
    simp [parseGainElements, optionalGainToXml, handleGainElement, parseGain, attr?, elem, Xml.attrs, Xml.text,
      loadsNum_dumpsNum]

/-- gain attribute of a matrix coefficient (both versions), on any element carrying the written attributes
first (other attributes named differently do not matter) -/
theorem gainAttribute_roundtrip (v2 : Bool) (g : Option Int) (tag : QName) (cs : List Xml) (text : String) :
    handleGainAttribute v2 (.node tag (gainAttributeToXml g) cs text) = some (g.map .linear) := by
  cases g <;> cases v2 <;>
    simp [handleGainAttribute, gainAttributeToXml, parseGain, attr?, Xml.attrs, loadsNum_dumpsNum]

/-- a gain given in dB is accepted by the BS.2076-2 parser and refused by the BS.2076-1 one; `to_xml` never
writes a unit, so a dB gain comes back as a linear value after one round trip (value `10 ** (g/20)`, not on
the printable grid: outside the property's quantifier) -/
theorem gain_dB_versions (k : Int) :
    handleGainElement true false (elem "gain" [("gainUnit", "dB")] (dumpsNum k)) = some (.dB k) ∧
    handleGainElement false false (elem "gain" [("gainUnit", "dB")] (dumpsNum k)) = none := by
  simp [handleGainElement, parseGain, attr?, elem, Xml.attrs, Xml.text, loadsNum_dumpsNum]

/-! ### channelLock, objectDivergence -/

theorem channelLock_roundtrip (c : Option ChannelLock) : parseChannelLock (channelLockToXml c) = some c := by
  cases c with
  | none => simp [parseChannelLock, channelLockToXml]
  | some c =>
    obtain ⟨m⟩ := c
    cases m <;>
      simp [parseChannelLock, channelLockToXml, handleChannelLock, attr?, elem, Xml.attrs, Xml.text,
        loadsNum_dumpsNum]

theorem divergence_roundtrip (d : Option ObjectDivergence) : parseDivergence (divergenceToXml d) = some d := by
  cases d with
  | none => simp [parseDivergence, divergenceToXml]
  | some d =>
    obtain ⟨v, a, p⟩ := d
    cases a <;> cases p <;>
      simp [parseDivergence, divergenceToXml, handleDivergence, optNum, attr?, elem, Xml.attrs, Xml.text,
        loadsNum_dumpsNum]

/-! ### zoneExclusion -/

theorem parseZone_zoneToXml (z : Zone) : parseZone (zoneToXml z) = some z := by
  cases z <;>
    simp [parseZone, zoneToXml, cartKeys, polarKeys, hasKey, attr?, elem, Xml.attrs, loadsNum_dumpsNum]

theorem zoneToXml_tag (z : Zone) : (zoneToXml z).tag = outName "zone" := by
  cases z <;> rfl

theorem mapM_parseZone (zs : List Zone) : (zs.map zoneToXml).mapM parseZone = some zs := by
  induction zs with
  | nil => rfl
  | cons z zs ih => simp [List.mapM_cons, parseZone_zoneToXml, ih]

theorem mapM_parseZone' (zs : List Zone) : zs.mapM (parseZone ∘ zoneToXml) = some zs := by
  induction zs with
  | nil => rfl
  | cons z zs ih => simp [List.mapM_cons, parseZone_zoneToXml, ih]

/-- any list of Cartesian / polar zones comes back; the empty list is elided and restored by the constructor
default `[]` -/
theorem zoneExclusion_roundtrip (zs : List Zone) :
    parseZoneExclusion (zoneExclusionToXml zs) = some (if zs = [] then none else some zs) := by
  by_cases h : zs = []
  · simp [parseZoneExclusion, zoneExclusionToXml, h]
  · have hf : (zs.map zoneToXml).filter (fun c => matchesName c.tag "zone") = zs.map zoneToXml := by
      apply List.filter_eq_self.mpr
      intro c hc
      obtain ⟨z, _, rfl⟩ := List.mem_map.mp hc
      rw [zoneToXml_tag]; exact matchesName_outName "zone"
    simp [parseZoneExclusion, zoneExclusionToXml, h, parseZoneExclusionElement, Xml.children, hf, mapM_parseZone']

/-! ### positionOffset -/

def PositionOffset.nonzero : PositionOffset → Prop
  | .polar a e d => a ≠ 0 ∨ e ≠ 0 ∨ d ≠ 0
  | .cartesian x y z => x ≠ 0 ∨ y ≠ 0 ∨ z ≠ 0

theorem positionOffset_roundtrip (p : Option PositionOffset) (h : ∀ q, p = some q → q.nonzero) :
    parsePositionOffset (positionOffsetToXml p) = some p := by
  cases p with
  | none => simp [parsePositionOffset, positionOffsetToXml, offsetFinish]
  | some q =>
    have hq := h q rfl
    cases q with
    | polar a e d =>
      simp only [PositionOffset.nonzero] at hq
      by_cases ha : a = 0 <;> by_cases he : e = 0 <;> by_cases hd : d = 0 <;>
        simp [parsePositionOffset, positionOffsetToXml, dumpOffset, offsetStep, offsetFinish, subsetKeys, attr?, elem,
          Xml.attrs, Xml.text, loadsNum_dumpsNum, Dict.get?, ha, he, hd] <;> simp_all
    | cartesian a e d =>
      simp only [PositionOffset.nonzero] at hq
      by_cases ha : a = 0 <;> by_cases he : e = 0 <;> by_cases hd : d = 0 <;>
        simp [parsePositionOffset, positionOffsetToXml, dumpOffset, offsetStep, offsetFinish, subsetKeys, attr?, elem,
          Xml.attrs, Xml.text, loadsNum_dumpsNum, Dict.get?, ha, he, hd] <;> simp_all

/-- the excluded point (also evaluated on the real code by the harness): an all-zero offset writes nothing and
comes back as `None` -/
theorem positionOffset_zero_excluded :
    parsePositionOffset (positionOffsetToXml (some (.polar 0 0 0))) = some none ∧
    parsePositionOffset (positionOffsetToXml (some (.cartesian 0 0 0))) = some none := by
  constructor <;> simp [parsePositionOffset, positionOffsetToXml, dumpOffset, offsetFinish]

example : PositionOffset.nonzero (.polar 0 (-1050000) 0) := Or.inr (Or.inl (by decide))

/-! ### reference screen -/

/-- the values `PolarPosition` accepts (a Cartesian centre position is not range-checked) -/
def CentrePosition.inRange : CentrePosition → Prop
  | .polar az el di => -18000000 ≤ az ∧ az ≤ 18000000 ∧ -9000000 ≤ el ∧ el ≤ 9000000 ∧ 0 ≤ di
  | .cartesian _ _ _ => True

theorem centrePosition_roundtrip (c : CentrePosition) (h : c.inRange) (cur : Option String)
    (hcur : cur = none ∨ cur = some c.kind) :
    handleCentrePosition cur (centrePositionToXml c) = some (c, c.kind) := by
  cases c with
  | polar az el di =>
    simp only [CentrePosition.inRange] at h
    rcases hcur with rfl | rfl <;>
      simp [handleCentrePosition, centrePositionToXml, hasKey, attrNum?, attr?, elem, Xml.attrs, loadsNum_dumpsNum,
        handleScreenType, CentrePosition.kind, h]
  | cartesian x y z =>
    rcases hcur with rfl | rfl <;>
      simp [handleCentrePosition, centrePositionToXml, hasKey, attrNum?, attr?, elem, Xml.attrs, loadsNum_dumpsNum,
        handleScreenType, CentrePosition.kind]

/-- a polar centre position outside the ranges of `PolarPosition` is written but refused on reading -/
theorem centrePosition_out_of_range :
    handleCentrePosition none (centrePositionToXml (.polar 18100000 0 100000)) = none := by
  simp [handleCentrePosition, centrePositionToXml, hasKey, attrNum?, attr?, elem, Xml.attrs, loadsNum_dumpsNum]

def widthKind (cartesian : Bool) : String := if cartesian then "cartesian" else "polar"

theorem screenWidth_roundtrip (cartesian : Bool) (w : Int) (cur : Option String)
    (hcur : cur = none ∨ cur = some (widthKind cartesian)) :
    handleScreenWidth cur (screenWidthToXml cartesian w) = some (w, widthKind cartesian) := by
  cases cartesian <;> rcases hcur with rfl | rfl <;>
    simp [handleScreenWidth, screenWidthToXml, hasKey, attrNum?, attr?, elem, Xml.attrs, loadsNum_dumpsNum,
      handleScreenType, widthKind]

/-- centre position and width of different kinds are refused ("Expected … screen data") -/
theorem screen_kind_mismatch (w : Int) :
    handleScreenWidth (some "polar") (screenWidthToXml true w) = none := by
  simp [handleScreenWidth, screenWidthToXml, hasKey, attrNum?, attr?, elem, Xml.attrs, loadsNum_dumpsNum,
    handleScreenType]

/-! ### interaction ranges -/

def linRange (mn mx : Option Int) : GainRange := ⟨mn.map .linear, mx.map .linear⟩

/-- gainInteractionRange (either version): a range with at least one bound, linear gains on the grid -/
theorem gainRange_roundtrip (v2 : Bool) (mn mx : Option Int) (h : mn.isSome ∨ mx.isSome) :
    parseGainRange v2 (gainRangeToXml (some (linRange mn mx))) = some (some (linRange mn mx)) := by
  cases mn <;> cases mx <;> simp at h <;> cases v2 <;>
    simp [parseGainRange, gainRangeToXml, linRange, linear?, gainRangeStep, parseGainEl, parseGain, attr?, elem,
      Xml.attrs, Xml.text, loadsNum_dumpsNum, Dict.get?]

theorem gainRange_none (v2 : Bool) : parseGainRange v2 (gainRangeToXml none) = some none := by
  simp [parseGainRange, gainRangeToXml]

/-- the excluded point: `InteractionRange()` without bounds writes nothing and comes back as `None` -/
theorem gainRange_empty_excluded (v2 : Bool) :
    parseGainRange v2 (gainRangeToXml (some ⟨none, none⟩)) = some none := by
  simp [parseGainRange, gainRangeToXml, linear?]

def IRange.isEmpty (r : IRange) : Bool := r.min.isNone && r.max.isNone

def dictOfIRange (r : IRange) : Dict Int :=
  (match r.min with | some k => [("min", k)] | none => []) ++ (match r.max with | some k => [("max", k)] | none => [])

theorem irange_of_dict (r : IRange) : (⟨(dictOfIRange r).get? "min", (dictOfIRange r).get? "max"⟩ : IRange) = r := by
  obtain ⟨mn, mx⟩ := r
  cases mn <;> cases mx <;> simp [dictOfIRange, Dict.get?]

/-- the elements written for one coordinate that has not been seen yet -/
theorem dumpIRange_steps (st : Dict (Dict Int)) (c : String) (r : IRange) (hnew : st.any (·.1 == c) = false) :
    (dumpIRange c r).foldlM posRangeStep st = some (if r.isEmpty then st else st ++ [(c, dictOfIRange r)]) := by
  obtain ⟨mn, mx⟩ := r
  have hget0 : Dict.get? st c = none := by
    unfold Dict.get?
    have : st.find? (·.1 == c) = none := by
      rw [List.find?_eq_none]; intro x hx
      have := List.any_eq_false.mp hnew x hx; simpa using this
    simp [this]
  cases mn <;> cases mx <;>
    simp [dumpIRange, posRangeStep, attr?, elem, Xml.attrs, Xml.text, loadsNum_dumpsNum, hget0, Dict.set_new, hnew,
      IRange.isEmpty, dictOfIRange, Dict.get?_append_new, Dict.set_append_last]

def PosRange.nonempty : PosRange → Prop
  | .polar a e d => a.isEmpty = false ∨ e.isEmpty = false ∨ d.isEmpty = false
  | .cartesian x y z => x.isEmpty = false ∨ y.isEmpty = false ∨ z.isEmpty = false

theorem irangeOf_absent (st : Dict (Dict Int)) (c : String) (h : st.any (·.1 == c) = false) :
    irangeOf st c = ⟨none, none⟩ := by
  unfold irangeOf Dict.get?
  have : st.find? (·.1 == c) = none := by
    rw [List.find?_eq_none]; intro x hx
    have := List.any_eq_false.mp h x hx; simpa using this
  simp [this]

theorem isEmpty_eq (r : IRange) (h : r.isEmpty = true) : r = ⟨none, none⟩ := by
  obtain ⟨mn, mx⟩ := r
  cases mn <;> cases mx <;> simp [IRange.isEmpty] at h ⊢

theorem irangeOf_cons_same (c : String) (r : IRange) (rest : Dict (Dict Int)) :
    irangeOf ((c, dictOfIRange r) :: rest) c = r := by
  simp only [irangeOf, Dict.get?, List.find?_cons, beq_self_eq_true, Option.map_some]
  exact irange_of_dict r

theorem irangeOf_cons_other (c c' : String) (d : Dict Int) (rest : Dict (Dict Int)) (h : (c' == c) = false) :
    irangeOf ((c', d) :: rest) c = irangeOf rest c := by
  simp [irangeOf, Dict.get?, h]

theorem irangeOf_nil (c : String) : irangeOf [] c = ⟨none, none⟩ := rfl

/-- the state after the elements of three distinct coordinates -/
theorem posRange_steps (c1 c2 c3 : String) (a e d : IRange) (h12 : (c1 == c2) = false) (h13 : (c1 == c3) = false)
    (h23 : (c2 == c3) = false) :
    (dumpIRange c1 a ++ dumpIRange c2 e ++ dumpIRange c3 d).foldlM posRangeStep [] =
      some ((if a.isEmpty then [] else [(c1, dictOfIRange a)]) ++ (if e.isEmpty then [] else [(c2, dictOfIRange e)]) ++
        (if d.isEmpty then [] else [(c3, dictOfIRange d)])) := by
  rw [foldlM_append', foldlM_append', dumpIRange_steps [] c1 a rfl]
  simp only [Option.bind_some]
  rw [dumpIRange_steps _ c2 e (by cases a.isEmpty <;> simp [h12])]
  simp only [Option.bind_some]
  rw [dumpIRange_steps _ c3 d (by cases a.isEmpty <;> cases e.isEmpty <;> simp [h13, h23])]
  cases a.isEmpty <;> cases e.isEmpty <;> cases d.isEmpty <;> simp

/-- positionInteractionRange: polar or Cartesian, any subset of the six bounds as long as one is present -/
theorem posRange_roundtrip (p : PosRange) (h : p.nonempty) :
    parsePosRange (posRangeToXml (some p)) = some (some p) := by
  cases p with
  | polar a e d =>
    simp only [PosRange.nonempty] at h
    unfold parsePosRange posRangeToXml
    rw [posRange_steps "azimuth" "elevation" "distance" a e d (by decide) (by decide) (by decide)]
    cases ha : a.isEmpty <;> cases he : e.isEmpty <;> cases hd : d.isEmpty <;> simp only [ha, he, hd] at h <;>
      (try (simp at h)) <;>
      (try (have := isEmpty_eq a ha; subst this)) <;> (try (have := isEmpty_eq e he; subst this)) <;>
      (try (have := isEmpty_eq d hd; subst this)) <;>
      simp [posRangeFinish, subsetKeys, irangeOf_cons_same, irangeOf_cons_other, irangeOf_nil]
  | cartesian a e d =>
    simp only [PosRange.nonempty] at h
    unfold parsePosRange posRangeToXml
    rw [posRange_steps "X" "Y" "Z" a e d (by decide) (by decide) (by decide)]
    cases ha : a.isEmpty <;> cases he : e.isEmpty <;> cases hd : d.isEmpty <;> simp only [ha, he, hd] at h <;>
      (try (simp at h)) <;>
      (try (have := isEmpty_eq a ha; subst this)) <;> (try (have := isEmpty_eq e he; subst this)) <;>
      (try (have := isEmpty_eq d hd; subst this)) <;>
      simp [posRangeFinish, subsetKeys, irangeOf_cons_same, irangeOf_cons_other, irangeOf_nil]

theorem posRange_none : parsePosRange (posRangeToXml none) = some none := by
  simp [parsePosRange, posRangeToXml, posRangeFinish, subsetKeys]

/-- the excluded point: a range object without any bound writes nothing and comes back as `None` -/
theorem posRange_empty_excluded :
    parsePosRange (posRangeToXml (some (.cartesian ⟨none, none⟩ ⟨none, none⟩ ⟨none, none⟩))) = some none := by
  simp [parsePosRange, posRangeToXml, dumpIRange, posRangeFinish, subsetKeys]

end Earverif.XmlCustom
