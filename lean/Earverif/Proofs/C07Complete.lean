/-
C07 — completeness of the pack-allocation search (with pruning, the `obvious` step and
the silent-track canonicalisation): every valid solution of a well-formed problem is
yielded up to `≈`.

Method: fix a target solution, split as `F ++ E` (`F` = the completed versions of the
packs already opened in the partial solution `P`, `E` = the packs still to be opened), and
follow the branch of the search that agrees with the target; the invariant `Inv` below is
preserved by the pruning tests, by one chosen candidate of `candidate_partial_solutions`
and by `_allocate_packs_impl_obvious`.
-/
import Earverif.Model.PackAlloc
import Earverif.Proofs.C07Sound

namespace Earverif.PackAlloc
open List

/-! ### the target relation -/

/-- Contents the target `fl` puts where `al` still has `_EMPTY`. -/
def newSlots : List (Channel × Slot) → List (Channel × Slot) → List TrackRef
  | (_, s) :: al, (_, s') :: fl => (if s.isNone then s'.toList else []) ++ newSlots al fl
  | _, _ => []

/-- `fl` is `al` with (some of) its `_EMPTY` entries filled in. -/
def FillsSlots : List (Channel × Slot) → List (Channel × Slot) → Prop
  | [], [] => True
  | (c, s) :: al, (c', s') :: fl => c' = c ∧ (s = none ∨ s' = s) ∧ FillsSlots al fl
  | _, _ => False

def newSol : Sol → Sol → List TrackRef
  | a :: P, f :: F => newSlots a.allocation f.allocation ++ newSol P F
  | _, _ => []

def Fills : Sol → Sol → Prop
  | [], [] => True
  | a :: P, f :: F => (f.pack = a.pack ∧ FillsSlots a.allocation f.allocation) ∧ Fills P F
  | _, _ => False

/-- A target `AllocatedPack`: complete, compatible, channel formats distinct. -/
def TargetOK (a : Allocated) : Prop :=
  (∀ cs ∈ a.allocation, ∃ x, cs.2 = some x ∧ isCompatible x cs.1 = true) ∧
    (a.allocation.map (·.1.cf)).Nodup

/-- Silent tracks come last. -/
def SilentLast (tracks : List TrackRef) : Prop := tracks.Pairwise (fun a b => a = none → b = none)

def RefsLeft : Option (List Nat) → List Nat → Prop
  | none, _ => True
  | some r, rootsE => rootsE ~ r

structure Inv (packs : List Pack) (tracks : List TrackRef) (refs : Option (List Nat))
    (P F E : Sol) : Prop where
  fills : Fills P F
  extra : ∀ e ∈ E, e.pack ∈ packs ∧ e.allocation.map (·.1) = e.pack.channels ∧ e.allocation ≠ []
  targetF : ∀ a ∈ F, TargetOK a
  targetE : ∀ a ∈ E, TargetOK a
  acct : newSol P F ++ filled E ~ tracks
  refs : RefsLeft refs (roots E)
  silentLast : SilentLast tracks

/-! ### basic facts -/

theorem silentLast_all_none {tracks : List TrackRef} (h : SilentLast (none :: tracks)) :
    ∀ x ∈ (none :: tracks), x = none := by
  intro x hx
  simp only [mem_cons] at hx
  rcases hx with rfl | hx
  · rfl
  · exact (pairwise_cons.1 h).1 x hx rfl

theorem SilentLast.tail {t : TrackRef} {tracks : List TrackRef} (h : SilentLast (t :: tracks)) :
    SilentLast tracks := (pairwise_cons.1 h).2

theorem fillsSlots_refl_of_full : ∀ (al fl : List (Channel × Slot)), FillsSlots al fl →
    newSlots al fl = [] → (∀ cs ∈ fl, cs.2 ≠ none) → al = fl
  | [], [], _, _, _ => rfl
  | [], _ :: _, h, _, _ => by simp [FillsSlots] at h
  | _ :: _, [], h, _, _ => by simp [FillsSlots] at h
  | (c, s) :: al, (c', s') :: fl, h, hn, hf => by
    simp only [FillsSlots] at h
    obtain ⟨rfl, hs, hrest⟩ := h
    simp only [newSlots, append_eq_nil_iff] at hn
    have ih := fillsSlots_refl_of_full al fl hrest hn.2 (fun cs hcs => hf cs (by simp [hcs]))
    rcases hs with rfl | rfl
    · have h1 := hn.1
      have h2 := hf (c', s') (by simp)
      cases s' with
      | none => exact absurd rfl h2
      | some x => simp at h1
    · rw [ih]

theorem fills_refl_of_full : ∀ (P F : Sol), Fills P F → newSol P F = [] →
    (∀ a ∈ F, ∀ cs ∈ a.allocation, cs.2 ≠ none) → P = F
  | [], [], _, _, _ => rfl
  | [], _ :: _, h, _, _ => by simp [Fills] at h
  | _ :: _, [], h, _, _ => by simp [Fills] at h
  | a :: P, f :: F, h, hn, hf => by
    simp only [Fills] at h
    obtain ⟨⟨hp, hs⟩, hrest⟩ := h
    simp only [newSol, append_eq_nil_iff] at hn
    have ih := fills_refl_of_full P F hrest hn.2 (fun x hx => hf x (by simp [hx]))
    have e := fillsSlots_refl_of_full _ _ hs hn.1 (hf f (by simp))
    have : a = f := by
      cases a; cases f; simp_all
    rw [this, ih]

theorem newSlots_length_le : ∀ (al fl : List (Channel × Slot)),
    (newSlots al fl).length ≤ al.countP (fun cs => cs.2.isNone)
  | [], _ => by simp [newSlots]
  | _ :: _, [] => by simp [newSlots]
  | (c, s) :: al, (c', s') :: fl => by
    have ih := newSlots_length_le al fl
    simp only [newSlots, length_append, countP_cons]
    cases s <;> cases s' <;> simp <;> omega

theorem newSlots_length : ∀ (al fl : List (Channel × Slot)), FillsSlots al fl →
    (∀ cs ∈ fl, cs.2 ≠ none) → (newSlots al fl).length = al.countP (fun cs => cs.2.isNone)
  | [], [], _, _ => by simp [newSlots]
  | [], _ :: _, h, _ => by simp [FillsSlots] at h
  | _ :: _, [], h, _ => by simp [FillsSlots] at h
  | (c, s) :: al, (c', s') :: fl, h, hf => by
    simp only [FillsSlots] at h
    have ih := newSlots_length al fl h.2.2 (fun cs hcs => hf cs (by simp [hcs]))
    have h2 := hf (c', s') (by simp)
    simp only [newSlots, length_append, countP_cons, ih]
    cases s <;> cases s' <;> simp_all <;> omega

theorem newSol_length : ∀ (P F : Sol), Fills P F →
    (∀ a ∈ F, ∀ cs ∈ a.allocation, cs.2 ≠ none) → (newSol P F).length = countEmpty P
  | [], [], _, _ => by simp [newSol, countEmpty, slots]
  | [], _ :: _, h, _ => by simp [Fills] at h
  | _ :: _, [], h, _ => by simp [Fills] at h
  | a :: P, f :: F, h, hf => by
    simp only [Fills] at h
    have ih := newSol_length P F h.2 (fun x hx => hf x (by simp [hx]))
    have e := newSlots_length _ _ h.1.2 (hf f (by simp))
    simp only [countEmpty] at ih
    simp only [newSol, length_append, countEmpty, slots_cons, countP_append, e, ih]

theorem targetOK_complete {a : Allocated} (h : TargetOK a) : ∀ cs ∈ a.allocation, cs.2 ≠ none := by
  intro cs hcs he
  obtain ⟨x, hx, _⟩ := h.1 cs hcs
  rw [he] at hx
  cases hx

theorem filledSlots_length_of_complete (al : List (Channel × Slot)) (h : ∀ cs ∈ al, cs.2 ≠ none) :
    (filledSlots al).length = al.length := by
  induction al with
  | nil => rfl
  | cons cs rest ih =>
    obtain ⟨c, s⟩ := cs
    have := h (c, s) (by simp)
    cases s with
    | none => exact absurd rfl this
    | some x =>
      have ih' := ih (fun cs hcs => h cs (by simp [hcs]))
      simp only [filledSlots] at ih' ⊢
      simp [ih']

/-! ### `try_allocate` follows the target -/

theorem tryAllocateSlots_target (t : TrackRef) : ∀ (al fl : List (Channel × Slot)),
    FillsSlots al fl →
    (∀ cs ∈ fl, ∃ x, cs.2 = some x ∧ isCompatible x cs.1 = true) →
    t ∈ newSlots al fl →
    (t ≠ none → (fl.map (·.1.cf)).Nodup) →
    (t = none → ∀ y ∈ newSlots al fl, y = none) →
    ∃ al', tryAllocateSlots t al = some al' ∧ FillsSlots al' fl ∧
      newSlots al fl ~ t :: newSlots al' fl
  | [], _, _, _, ht, _, _ => by simp [newSlots] at ht
  | _ :: _, [], h, _, _, _, _ => by simp [FillsSlots] at h
  | (c, s) :: al, (c', s') :: fl, h, hcomp, ht, hnd, hsil => by
    simp only [FillsSlots] at h
    obtain ⟨rfl, hs, hrest⟩ := h
    obtain ⟨x, hx, hxc⟩ := hcomp (c', s') (by simp)
    simp only at hx hxc
    subst hx
    have hcomp' : ∀ cs ∈ fl, ∃ x, cs.2 = some x ∧ isCompatible x cs.1 = true :=
      fun cs hcs => hcomp cs (by simp [hcs])
    simp only [tryAllocateSlots]
    by_cases hcond : (s.isNone && isCompatible t c') = true
    · -- the code fills this entry; the target must have `t` here
      simp only [hcond, if_true]
      simp only [Bool.and_eq_true, Option.isNone_iff_eq_none] at hcond
      obtain ⟨rfl, htc⟩ := hcond
      have hxt : x = t := by
        cases t with
        | none =>
          exact hsil rfl x (by simp [newSlots])
        | some tr =>
          simp only [newSlots, Option.isNone_none, if_true, Option.toList_some, singleton_append,
            mem_cons] at ht
          rcases ht with ht | ht
          · exact ht.symm
          · -- `tr` also fits a later channel: two channels with the same channel format
            exfalso
            have hnd' := hnd (by simp)
            simp only [map_cons, nodup_cons] at hnd'
            apply hnd'.1
            -- find the later entry
            have : ∀ (al fl : List (Channel × Slot)), some tr ∈ newSlots al fl →
                (∀ cs ∈ fl, ∃ x, cs.2 = some x ∧ isCompatible x cs.1 = true) →
                tr.cf ∈ fl.map (·.1.cf) := by
              intro al
              induction al with
              | nil => intro fl h _; simp [newSlots] at h
              | cons a al ih =>
                intro fl h hc
                cases fl with
                | nil => simp [newSlots] at h
                | cons f fl =>
                  obtain ⟨ca, sa⟩ := a
                  obtain ⟨cf, sf⟩ := f
                  simp only [newSlots, mem_append] at h
                  rcases h with h | h
                  · split at h
                    · obtain ⟨y, hy, hyc⟩ := hc (cf, sf) (by simp)
                      simp only at hy hyc
                      subst hy
                      simp only [Option.toList_some, mem_singleton] at h
                      subst h
                      simp only [isCompatible, Bool.and_eq_true, beq_iff_eq] at hyc
                      simp [hyc.1]
                    · simp at h
                  · have := ih fl h (fun cs hcs => hc cs (by simp [hcs]))
                    simp only [map_cons, mem_cons]
                    right; exact this
            have h2 := this al fl ht hcomp'
            simp only [isCompatible, Bool.and_eq_true, beq_iff_eq] at htc
            rw [← htc.1]
            exact h2
      subst hxt
      refine ⟨_, rfl, ?_, ?_⟩
      · simp only [FillsSlots]
        exact ⟨trivial, Or.inr trivial, hrest⟩
      · simp [newSlots]
    · -- the code moves on; so must the target
      simp only [hcond, Bool.false_eq_true, if_false]
      have ht' : t ∈ newSlots al fl := by
        simp only [newSlots, mem_append] at ht
        rcases ht with ht | ht
        · exfalso
          split at ht
          · rename_i hsn
            simp only [Option.toList_some, mem_singleton] at ht
            subst ht
            simp only [Option.isNone_iff_eq_none] at hsn
            subst hsn
            simp [hxc] at hcond
          · simp at ht
        · exact ht
      have hnd' : t ≠ none → (fl.map (·.1.cf)).Nodup := by
        intro h
        have := hnd h
        simp only [map_cons, nodup_cons] at this
        exact this.2
      have hsil' : t = none → ∀ y ∈ newSlots al fl, y = none := by
        intro h y hy
        exact hsil h y (by simp only [newSlots, mem_append]; right; exact hy)
      obtain ⟨al', e1, e2, e3⟩ := tryAllocateSlots_target t al fl hrest hcomp' ht' hnd' hsil'
      refine ⟨(c', s) :: al', by simp [e1], ?_, ?_⟩
      · simp only [FillsSlots]
        exact ⟨trivial, hs, e2⟩
      · simp only [newSlots]
        refine (Perm.append_left _ e3).trans ?_
        exact perm_middle

theorem tryAllocateSlots_none_of_full : ∀ (al fl : List (Channel × Slot)), FillsSlots al fl →
    (∀ cs ∈ fl, cs.2 ≠ none) → newSlots al fl = [] → ∀ t, tryAllocateSlots t al = none
  | [], _, _, _, _, _ => by simp [tryAllocateSlots]
  | _ :: _, [], h, _, _, _ => by simp [FillsSlots] at h
  | (c, s) :: al, (c', s') :: fl, h, hf, hn, t => by
    simp only [FillsSlots] at h
    simp only [newSlots, append_eq_nil_iff] at hn
    have ih := tryAllocateSlots_none_of_full al fl h.2.2 (fun cs hcs => hf cs (by simp [hcs])) hn.2 t
    have h2 := hf (c', s') (by simp)
    simp only [tryAllocateSlots, ih, Option.map_none]
    cases s with
    | none =>
      cases s' with
      | none => exact absurd rfl h2
      | some x => simp at hn
    | some y => simp

/-- One existing allocation can take `t` as the target says (real track: anywhere in the
list; the result is among the candidates). -/
theorem existingCandidates_target (t : TrackRef) : ∀ (post fpost pre : Sol),
    Fills post fpost → (∀ f ∈ fpost, TargetOK f) → t ∈ newSol post fpost →
    (t = none → ∀ y ∈ newSol post fpost, y = none) →
    ∃ post', pre ++ post' ∈ existingCandidates t pre post ∧ Fills post' fpost ∧
      newSol post fpost ~ t :: newSol post' fpost ∧ roots post' = roots post
  | [], _, _, _, _, ht, _ => by simp [newSol] at ht
  | _ :: _, [], _, h, _, _, _ => by simp [Fills] at h
  | a :: P, f :: F, pre, h, htar, ht, hsil => by
    simp only [Fills] at h
    obtain ⟨⟨hp, hs⟩, hrest⟩ := h
    have htf := htar f (by simp)
    by_cases hmem : t ∈ newSlots a.allocation f.allocation
    · obtain ⟨al', e1, e2, e3⟩ := tryAllocateSlots_target t a.allocation f.allocation hs htf.1 hmem
        (fun _ => htf.2)
        (fun h y hy => hsil h y (by simp only [newSol, mem_append]; left; exact hy))
      refine ⟨{ a with allocation := al' } :: P, ?_, ?_, ?_, ?_⟩
      · simp only [existingCandidates, tryAllocate, e1, Option.map_some]
        simp
      · simp only [Fills]
        exact ⟨⟨hp, e2⟩, hrest⟩
      · simp only [newSol]
        exact (Perm.append_right _ e3)
      · simp [roots]
    · have ht' : t ∈ newSol P F := by
        simp only [newSol, mem_append] at ht
        rcases ht with ht | ht
        · exact absurd ht hmem
        · exact ht
      obtain ⟨post', e1, e2, e3, e4⟩ := existingCandidates_target t P F (pre ++ [a]) hrest
        (fun x hx => htar x (by simp [hx])) ht'
        (fun h y hy => hsil h y (by simp only [newSol, mem_append]; right; exact hy))
      refine ⟨a :: post', ?_, ?_, ?_, ?_⟩
      · have e1' : pre ++ a :: post' ∈ existingCandidates t (pre ++ [a]) P := by
          simpa using e1
        simp only [existingCandidates]
        split
        · simp only [mem_cons]; right; exact e1'
        · exact e1'
      · simp only [Fills]
        exact ⟨⟨hp, hs⟩, e2⟩
      · simp only [newSol]
        exact (Perm.append_left _ e3).trans perm_middle
      · simp only [roots, map_cons] at e4 ⊢
        rw [e4]

/-- Silent track, everything still open is silent: the *first* existing candidate (the
one the code takes before its early `return`) agrees with the target. -/
theorem existingCandidates_head_silent : ∀ (post fpost pre : Sol),
    Fills post fpost → (∀ f ∈ fpost, TargetOK f) → (∀ y ∈ newSol post fpost, y = none) →
    newSol post fpost ≠ [] →
    ∃ post' tl, existingCandidates none pre post = (pre ++ post') :: tl ∧ Fills post' fpost ∧
      newSol post fpost ~ none :: newSol post' fpost ∧ roots post' = roots post
  | [], _, _, _, _, _, hne => by simp [newSol] at hne
  | _ :: _, [], _, h, _, _, _ => by simp [Fills] at h
  | a :: P, f :: F, pre, h, htar, hsil, hne => by
    simp only [Fills] at h
    obtain ⟨⟨hp, hs⟩, hrest⟩ := h
    have htf := htar f (by simp)
    by_cases hnil : newSlots a.allocation f.allocation = []
    · have hno := tryAllocateSlots_none_of_full _ _ hs (targetOK_complete htf) hnil none
      have hne' : newSol P F ≠ [] := by
        simpa [newSol, hnil] using hne
      obtain ⟨post', tl, e1, e2, e3, e4⟩ := existingCandidates_head_silent P F (pre ++ [a]) hrest
        (fun x hx => htar x (by simp [hx]))
        (fun y hy => hsil y (by simp only [newSol, mem_append]; right; exact hy)) hne'
      refine ⟨a :: post', tl, ?_, ?_, ?_, ?_⟩
      · simp only [existingCandidates, tryAllocate, hno, Option.map_none]
        rw [e1]
        simp
      · simp only [Fills]
        exact ⟨⟨hp, hs⟩, e2⟩
      · simp only [newSol, hnil, nil_append]
        exact e3
      · simp only [roots, map_cons] at e4 ⊢
        rw [e4]
    · have hmem : none ∈ newSlots a.allocation f.allocation := by
        cases hl : newSlots a.allocation f.allocation with
        | nil => exact absurd hl hnil
        | cons y ys =>
          have := hsil y (by simp [newSol, hl])
          subst this
          simp
      obtain ⟨al', e1, e2, e3⟩ := tryAllocateSlots_target none a.allocation f.allocation hs htf.1 hmem
        (fun h => absurd rfl h)
        (fun _ y hy => hsil y (by simp only [newSol, mem_append]; left; exact hy))
      refine ⟨{ a with allocation := al' } :: P, existingCandidates none (pre ++ [a]) P, ?_, ?_, ?_, ?_⟩
      · simp only [existingCandidates, tryAllocate, e1, Option.map_some]
      · simp only [Fills]
        exact ⟨⟨hp, e2⟩, hrest⟩
      · simp only [newSol]
        exact (Perm.append_right _ e3)
      · simp [roots]

theorem existingCandidates_nil_of_full (t : TrackRef) : ∀ (post fpost pre : Sol),
    Fills post fpost → (∀ f ∈ fpost, TargetOK f) → newSol post fpost = [] →
    existingCandidates t pre post = []
  | [], _, _, _, _, _ => by simp [existingCandidates]
  | _ :: _, [], _, h, _, _ => by simp [Fills] at h
  | a :: P, f :: F, pre, h, htar, hn => by
    simp only [Fills] at h
    simp only [newSol, append_eq_nil_iff] at hn
    have hno := tryAllocateSlots_none_of_full _ _ h.1.2 (targetOK_complete (htar f (by simp))) hn.1 t
    simp only [existingCandidates, tryAllocate, hno, Option.map_none]
    exact existingCandidates_nil_of_full t P F (pre ++ [a]) h.2 (fun x hx => htar x (by simp [hx])) hn.2

/-! ### opening a new pack as the target says -/

theorem indexById_of_mem : ∀ (l : List Nat) (x : Nat), x ∈ l → ∃ i, indexById x l = some i := by
  intro l x h
  cases hi : indexById x l with
  | none => exact absurd h (indexById_none l x hi)
  | some i => exact ⟨i, rfl⟩

theorem candidateNewPacksAux_mem (t : TrackRef) (refs : Option (List Nat)) (all : List Pack)
    (p : Pack) (post : List Pack) : ∀ (pre : List Pack),
    (refs = none → (p, (if t.isNone then p :: post else all), (none : Option (List Nat))) ∈
      candidateNewPacksAux t refs all (pre ++ p :: post)) ∧
    (∀ r i, refs = some r → indexById p.root r = some i →
      (p, (if t.isNone then p :: post else all), some (r.take i ++ r.drop (i + 1))) ∈
        candidateNewPacksAux t refs all (pre ++ p :: post))
  | [] => by
    constructor
    · intro h; subst h; simp [candidateNewPacksAux]
    · intro r i h hi; subst h; simp [candidateNewPacksAux, hi]
  | q :: pre => by
    obtain ⟨ih1, ih2⟩ := candidateNewPacksAux_mem t refs all p post pre
    constructor
    · intro h
      have := ih1 h
      subst h
      simp only [cons_append, candidateNewPacksAux, mem_cons]
      right; exact this
    · intro r i h hi
      have := ih2 r i h hi
      subst h
      simp only [cons_append, candidateNewPacksAux]
      split
      · simp only [mem_cons]; right; exact this
      · exact this

theorem fillsSlots_empty : ∀ (chs : List Channel) (fl : List (Channel × Slot)),
    fl.map (·.1) = chs → FillsSlots (chs.map (fun c => (c, none))) fl
  | [], [], _ => by simp [FillsSlots]
  | [], _ :: _, h => by simp at h
  | _ :: _, [], h => by simp at h
  | c :: chs, (c', s') :: fl, h => by
    simp only [map_cons, cons.injEq] at h
    simp only [map_cons, FillsSlots]
    exact ⟨h.1, Or.inl trivial, fillsSlots_empty chs fl h.2⟩

theorem newSlots_empty : ∀ (chs : List Channel) (fl : List (Channel × Slot)),
    fl.map (·.1) = chs → newSlots (chs.map (fun c => (c, none))) fl = filledSlots fl
  | [], [], _ => by simp [newSlots, filledSlots]
  | [], _ :: _, h => by simp at h
  | _ :: _, [], h => by simp at h
  | c :: chs, (c', s') :: fl, h => by
    simp only [map_cons, cons.injEq] at h
    simp only [map_cons, newSlots, Option.isNone_none, if_true, filledSlots_cons,
      newSlots_empty chs fl h.2]

theorem fills_snoc : ∀ (P F : Sol) (a f : Allocated), Fills P F →
    f.pack = a.pack → FillsSlots a.allocation f.allocation → Fills (P ++ [a]) (F ++ [f])
  | [], [], a, f, _, h1, h2 => by simp [Fills, h1, h2]
  | [], _ :: _, _, _, h, _, _ => by simp [Fills] at h
  | _ :: _, [], _, _, h, _, _ => by simp [Fills] at h
  | a0 :: P, f0 :: F, a, f, h, h1, h2 => by
    simp only [Fills] at h
    simp only [cons_append, Fills]
    exact ⟨h.1, fills_snoc P F a f h.2 h1 h2⟩

theorem newSol_snoc : ∀ (P F : Sol) (a f : Allocated), Fills P F →
    newSol (P ++ [a]) (F ++ [f]) = newSol P F ++ newSlots a.allocation f.allocation
  | [], [], a, f, _ => by simp [newSol]
  | [], _ :: _, _, _, h => by simp [Fills] at h
  | _ :: _, [], _, _, h => by simp [Fills] at h
  | a0 :: P, f0 :: F, a, f, h => by
    simp only [Fills] at h
    simp only [cons_append, newSol, newSol_snoc P F a f h.2, append_assoc]

theorem filled_perm {A B : Sol} (h : A ~ B) : filled A ~ filled B := by
  simp only [filled, slots]
  exact (Perm.flatMap_right _ h).filterMap _

theorem roots_perm {A B : Sol} (h : A ~ B) : roots A ~ roots B := Perm.map _ h

/-- The first pack of `l` that the target still has to open. -/
theorem first_needed_pack : ∀ (l : List Pack) (E : Sol), E ≠ [] → (∀ e ∈ E, e.pack ∈ l) →
    ∃ pre p post, l = pre ++ p :: post ∧ (∃ e ∈ E, e.pack = p) ∧ ∀ e ∈ E, e.pack ∈ p :: post
  | [], E, hne, h => by
    cases E with
    | nil => exact absurd rfl hne
    | cons e E => exact absurd (h e (by simp)) (by simp)
  | q :: l, E, hne, h => by
    by_cases hq : ∃ e ∈ E, e.pack = q
    · exact ⟨[], q, l, rfl, hq, h⟩
    · have h' : ∀ e ∈ E, e.pack ∈ l := by
        intro e he
        have := h e he
        simp only [mem_cons] at this
        rcases this with this | this
        · exact absurd ⟨e, he, this⟩ hq
        · exact this
      obtain ⟨pre, p, post, e1, e2, e3⟩ := first_needed_pack l E hne h'
      exact ⟨q :: pre, p, post, by simp [e1], e2, e3⟩

/-! ### `_allocate_packs_impl_obvious` follows the target -/

theorem mem_zipIdx_of_mem {α : Type} : ∀ (l : List α) (k : Nat) (x : α), x ∈ l → ∃ i, (x, i) ∈ l.zipIdx k
  | [], _, _, h => by simp at h
  | a :: as, k, x, h => by
    simp only [mem_cons] at h
    rcases h with rfl | h
    · exact ⟨k, by simp⟩
    · obtain ⟨i, hi⟩ := mem_zipIdx_of_mem as (k + 1) x h
      exact ⟨i, by simp only [zipIdx_cons, mem_cons]; right; exact hi⟩

theorem silentLast_zipIdx : ∀ (l : List TrackRef) (k : Nat), SilentLast l →
    (l.zipIdx k).Pairwise (fun a b => a.1 = none → b.1 = none)
  | [], _, _ => by simp
  | a :: as, k, h => by
    simp only [SilentLast, pairwise_cons] at h
    simp only [zipIdx_cons, pairwise_cons]
    refine ⟨?_, silentLast_zipIdx as (k + 1) h.2⟩
    intro b hb ha
    have : b.1 ∈ as := by
      have := zipIdx_map_fst (k + 1) as
      rw [← this]
      exact mem_map_of_mem hb
    exact h.1 b.1 this ha

/-- `ifEmpty s x` = `[x]` when the entry is still `_EMPTY`, else `[]`. -/
def ifEmpty (s : Slot) (x : TrackRef) : List TrackRef := if s.isNone then [x] else []

theorem obviousChannel_target (tracks : List TrackRef) (c : Channel) (s : Slot) (x : TrackRef)
    (hs : s = none ∨ s = some x) (hx : s = none → x ∈ tracks) (hc : isCompatible x c = true)
    (hsl : SilentLast tracks) :
    ∃ s' tracks', obviousChannel tracks c s = some (s', tracks') ∧ (s' = none ∨ s' = some x) ∧
      (s ≠ none → s' = s) ∧ SilentLast tracks' ∧
      ∀ R, tracks ~ ifEmpty s x ++ R → tracks' ~ ifEmpty s' x ++ R := by
  rcases hs with rfl | rfl
  · -- `_EMPTY`
    have hx' := hx rfl
    obtain ⟨j, hj⟩ := mem_zipIdx_of_mem tracks 0 x hx'
    have hmem : (x, j) ∈ tracks.zipIdx.filter (fun ti => isCompatible ti.1 c) := by
      simp only [mem_filter]; exact ⟨hj, hc⟩
    have hpw := (silentLast_zipIdx tracks 0 hsl).filter (fun ti => isCompatible ti.1 c)
    unfold obviousChannel
    simp only
    split
    · rename_i heq
      rw [heq] at hmem
      simp at hmem
    · rename_i t i rest heq
      rw [heq] at hmem hpw
      have hti : (t, i) ∈ tracks.zipIdx.filter (fun ti => isCompatible ti.1 c) := by
        rw [heq]; simp
      simp only [mem_filter] at hti
      obtain ⟨_, hperm⟩ := perm_of_mem_zipIdx tracks 0 i t hti.1
      simp only [Nat.sub_zero] at hperm
      split
      · rename_i hcond
        have hxt : x = t := by
          simp only [mem_cons] at hmem
          rcases hmem with hm | hm
          · exact (Prod.mk.inj hm).1
          · simp only [Bool.or_eq_true, isEmpty_iff, Option.isNone_iff_eq_none] at hcond
            rcases hcond with hcond | hcond
            · subst hcond; simp at hm
            · subst hcond
              have := (pairwise_cons.1 hpw).1 (x, j) hm rfl
              exact this
        subst hxt
        refine ⟨some x, tracks.eraseIdx i, rfl, Or.inr rfl, fun h => absurd rfl h, ?_, ?_⟩
        · exact hsl.sublist (eraseIdx_sublist _ _)
        · intro R hR
          simp only [ifEmpty, Option.isNone_none, if_true, Option.isNone_some, Bool.false_eq_true,
            if_false, nil_append, singleton_append] at hR ⊢
          exact (Perm.cons_inv (hperm.symm.trans hR))
      · refine ⟨none, tracks, rfl, Or.inl rfl, fun h => absurd rfl h, hsl, fun R hR => hR⟩
  · refine ⟨some x, tracks, by simp [obviousChannel], Or.inr rfl, fun _ => rfl, hsl, fun R hR => hR⟩

theorem newSlots_cons (c c' : Channel) (s s' : Slot) (al fl : List (Channel × Slot)) (x : TrackRef)
    (h : s' = some x) :
    newSlots ((c, s) :: al) ((c', s') :: fl) = ifEmpty s x ++ newSlots al fl := by
  subst h
  simp [newSlots, ifEmpty]

theorem obviousSlots_target : ∀ (al fl : List (Channel × Slot)) (tracks R : List TrackRef),
    FillsSlots al fl → (∀ cs ∈ fl, ∃ x, cs.2 = some x ∧ isCompatible x cs.1 = true) →
    tracks ~ newSlots al fl ++ R → SilentLast tracks →
    ∃ al' tracks', obviousSlots tracks al = some (al', tracks') ∧ FillsSlots al' fl ∧
      tracks' ~ newSlots al' fl ++ R ∧ SilentLast tracks'
  | [], [], tracks, R, _, _, hp, hsl => ⟨[], tracks, rfl, by simp [FillsSlots], hp, hsl⟩
  | [], _ :: _, _, _, h, _, _, _ => by simp [FillsSlots] at h
  | _ :: _, [], _, _, h, _, _, _ => by simp [FillsSlots] at h
  | (c, s) :: al, (c', s') :: fl, tracks, R, h, hcomp, hp, hsl => by
    simp only [FillsSlots] at h
    obtain ⟨rfl, hs, hrest⟩ := h
    obtain ⟨x, hx, hxc⟩ := hcomp (c', s') (by simp)
    simp only at hx hxc
    rw [newSlots_cons _ _ _ _ _ _ x hx] at hp
    have hs' : s = none ∨ s = some x := by
      rcases hs with h | h
      · exact Or.inl h
      · exact Or.inr (by rw [← h, hx])
    have hxmem : s = none → x ∈ tracks := by
      intro h
      apply (hp.mem_iff).2
      simp [ifEmpty, h]
    obtain ⟨s1, t1, o1, o2, o3, o4, o5⟩ := obviousChannel_target tracks c' s x hs' hxmem hxc hsl
    have hp1 := o5 (newSlots al fl ++ R) (by simpa [append_assoc] using hp)
    -- t1 ~ ifEmpty s1 x ++ (newSlots al fl ++ R) ~ newSlots al fl ++ (ifEmpty s1 x ++ R)
    have hp2 : t1 ~ newSlots al fl ++ (ifEmpty s1 x ++ R) := by
      refine hp1.trans ?_
      rw [← append_assoc, ← append_assoc]
      exact Perm.append_right _ perm_append_comm
    obtain ⟨al', t2, i1, i2, i3, i4⟩ := obviousSlots_target al fl t1 (ifEmpty s1 x ++ R) hrest
      (fun cs hcs => hcomp cs (by simp [hcs])) hp2 o4
    refine ⟨(c', s1) :: al', t2, by simp [obviousSlots, o1, i1], ?_, ?_, i4⟩
    · simp only [FillsSlots]
      refine ⟨trivial, ?_, i2⟩
      rcases o2 with h | h
      · exact Or.inl h
      · exact Or.inr (by rw [h, hx])
    · rw [newSlots_cons _ _ _ _ _ _ x hx]
      refine i3.trans ?_
      rw [← append_assoc]
      exact Perm.append_right _ perm_append_comm

theorem obviousPacks_target : ∀ (P F : Sol) (tracks R : List TrackRef),
    Fills P F → (∀ f ∈ F, TargetOK f) → tracks ~ newSol P F ++ R → SilentLast tracks →
    ∃ P' tracks', obviousPacks tracks P = some (P', tracks') ∧ Fills P' F ∧
      tracks' ~ newSol P' F ++ R ∧ SilentLast tracks'
  | [], [], tracks, R, _, _, hp, hsl => ⟨[], tracks, rfl, by simp [Fills], hp, hsl⟩
  | [], _ :: _, _, _, h, _, _, _ => by simp [Fills] at h
  | _ :: _, [], _, _, h, _, _, _ => by simp [Fills] at h
  | a :: P, f :: F, tracks, R, h, htar, hp, hsl => by
    simp only [Fills] at h
    obtain ⟨⟨hpk, hs⟩, hrest⟩ := h
    simp only [newSol, append_assoc] at hp
    obtain ⟨al', t1, o1, o2, o3, o4⟩ := obviousSlots_target a.allocation f.allocation tracks
      (newSol P F ++ R) hs (htar f (by simp)).1 hp hsl
    have hp2 : t1 ~ newSol P F ++ (newSlots al' f.allocation ++ R) := by
      refine o3.trans ?_
      rw [← append_assoc, ← append_assoc]
      exact Perm.append_right _ perm_append_comm
    obtain ⟨P', t2, i1, i2, i3, i4⟩ := obviousPacks_target P F t1 (newSlots al' f.allocation ++ R)
      hrest (fun x hx => htar x (by simp [hx])) hp2 o4
    refine ⟨{ a with allocation := al' } :: P', t2, by simp [obviousPacks, o1, i1], ?_, ?_, i4⟩
    · simp only [Fills]
      exact ⟨⟨hpk, o2⟩, i2⟩
    · simp only [newSol, append_assoc]
      refine i3.trans ?_
      rw [← append_assoc, ← append_assoc]
      exact Perm.append_right _ perm_append_comm

/-! ### the pruning tests never cut the branch that leads to the target -/

theorem filled_mem_split {E : Sol} {e : Allocated} (he : e ∈ E) :
    filled E ~ filledSlots e.allocation ++ filled (E.erase e) := by
  have := filled_perm (perm_cons_erase he)
  rwa [filled_cons] at this

theorem filledSlots_mem_iff (al : List (Channel × Slot)) (x : TrackRef) :
    x ∈ filledSlots al ↔ ∃ cs ∈ al, cs.2 = some x := by
  simp [filledSlots]

theorem inv_count {packs tracks refs P F E} (h : Inv packs tracks refs P F E) :
    tracks.length = countEmpty P + (filled E).length := by
  have := h.acct.length_eq
  rw [length_append, newSol_length P F h.fills (fun a ha => targetOK_complete (h.targetF a ha))] at this
  omega

theorem refs_check_false (refs : Option (List Nat)) (rootsE : List Nat) (root : Nat)
    (h : RefsLeft refs rootsE) (hm : root ∈ rootsE) :
    (match refs with
      | some r => !(inById root r)
      | none => false) = false := by
  cases refs with
  | none => rfl
  | some r =>
    simp only [RefsLeft] at h
    simp [(inById_iff _ _).2 ((h.mem_iff).1 hm)]

theorem couldPossiblyAllocate_of_inv {packs tracks refs P F E} (h : Inv packs tracks refs P F E)
    (e : Allocated) (he : e ∈ E) :
    couldPossiblyAllocate tracks refs (countEmpty P) e.pack = true := by
  obtain ⟨hpk, hch, _⟩ := h.extra e he
  have hte := h.targetE e he
  have hlen : e.pack.channels.length ≤ (filled E).length := by
    have := (filled_mem_split he).length_eq
    rw [length_append, filledSlots_length_of_complete _ (targetOK_complete hte)] at this
    rw [← hch, length_map]
    omega
  have hcnt := inv_count h
  have hfound : e.pack.channels.countP (fun c => tracks.any (fun t => isCompatible t c)) =
      e.pack.channels.length := by
    rw [countP_eq_length]
    intro c hc
    rw [← hch] at hc
    simp only [mem_map] at hc
    obtain ⟨cs, hcs, rfl⟩ := hc
    obtain ⟨x, hx, hxc⟩ := hte.1 cs hcs
    have hxt : x ∈ tracks := by
      apply (h.acct.mem_iff).1
      simp only [mem_append]
      right
      apply ((filled_mem_split he).mem_iff).2
      simp only [mem_append]
      left
      exact (filledSlots_mem_iff _ _).2 ⟨cs, hcs, hx⟩
    simp only [any_eq_true]
    exact ⟨x, hxt, hxc⟩
  have hR := h.refs
  have hroot : e.pack.root ∈ roots E := by simp only [roots, mem_map]; exact ⟨e, he, rfl⟩
  clear h
  unfold couldPossiblyAllocate
  rw [if_neg (by omega)]
  cases refs with
  | none => simp [hfound]
  | some r =>
    simp only [RefsLeft] at hR
    simp [(inById_iff _ _).2 ((hR.mem_iff).1 hroot), hfound]

/-! ### one step of `candidate_partial_solutions` towards the target -/

/-- Opening the pack of `e ∈ E` with track `t`, which the target has in `e`. -/
theorem open_pack_step {packs' : List Pack} {t : TrackRef} {rest : List TrackRef}
    {refs : Option (List Nat)} {P F E : Sol} (e : Allocated) (pre post : List Pack)
    (hfill : Fills P F) (he : e ∈ E) (hte : TargetOK e)
    (hch : e.allocation.map (·.1) = e.pack.channels)
    (ht : t ∈ filledSlots e.allocation) (hsil : t = none → ∀ y ∈ filledSlots e.allocation, y = none)
    (hpacks : packs' = pre ++ e.pack :: post)
    (hacct : newSol P F ++ filled E ~ t :: rest) (hrefs : RefsLeft refs (roots E)) :
    ∃ a' rr, (P ++ [a'], (if t.isNone then e.pack :: post else packs'), rr) ∈
        newCandidates t packs' refs P ∧
      Fills (P ++ [a']) (F ++ [e]) ∧
      newSol (P ++ [a']) (F ++ [e]) ++ filled (E.erase e) ~ rest ∧
      RefsLeft rr (roots (E.erase e)) := by
  have hfs := fillsSlots_empty e.pack.channels e.allocation hch
  have hns := newSlots_empty e.pack.channels e.allocation hch
  obtain ⟨al', a1, a2, a3⟩ := tryAllocateSlots_target t _ e.allocation hfs hte.1 (by rw [hns]; exact ht)
    (fun _ => hte.2) (fun h y hy => hsil h y (by rw [hns] at hy; exact hy))
  rw [hns] at a3
  have htry : tryAllocate t (emptyAllocation e.pack) = some ⟨e.pack, al'⟩ := by
    simp [tryAllocate, emptyAllocation, a1]
  -- the remaining refs
  have hroots : roots E ~ e.pack.root :: roots (E.erase e) := by
    have := roots_perm (perm_cons_erase he)
    simpa [roots] using this
  have hcand : ∃ rr, (e.pack, (if t.isNone then e.pack :: post else packs'), rr) ∈
      candidateNewPacks t refs packs' ∧ RefsLeft rr (roots (E.erase e)) := by
    cases hr : refs with
    | none =>
      refine ⟨none, ?_, trivial⟩
      unfold candidateNewPacks
      simp only
      rw [hpacks]
      exact (candidateNewPacksAux_mem t none (pre ++ e.pack :: post) e.pack post pre).1 rfl
    | some r =>
      rw [hr] at hrefs
      simp only [RefsLeft] at hrefs
      have hm : e.pack.root ∈ r := (hrefs.mem_iff).1 ((hroots.mem_iff).2 (by simp))
      obtain ⟨i, hi⟩ := indexById_of_mem r _ hm
      refine ⟨some (r.take i ++ r.drop (i + 1)), ?_, ?_⟩
      · unfold candidateNewPacks
        cases r with
        | nil => simp at hm
        | cons r0 rs =>
          simp only
          rw [hpacks]
          exact (candidateNewPacksAux_mem t (some (r0 :: rs)) (pre ++ e.pack :: post) e.pack post pre).2 _ i rfl hi
      · simp only [RefsLeft]
        have h1 := indexById_some r _ i hi
        exact Perm.cons_inv (hroots.symm.trans (hrefs.trans h1))
  obtain ⟨rr, hc1, hc2⟩ := hcand
  refine ⟨⟨e.pack, al'⟩, rr, ?_, ?_, ?_, hc2⟩
  · simp only [newCandidates, mem_filterMap]
    exact ⟨_, hc1, by simp [htry]⟩
  · exact fills_snoc P F _ e hfill rfl a2
  · rw [newSol_snoc P F _ e hfill]
    simp only
    -- newSol P F ++ filled E ~ t :: rest, filled E ~ (t :: newSlots al' e) ++ filled (E.erase e)
    have h1 : newSol P F ++ filled E ~
        t :: (newSol P F ++ newSlots al' e.allocation ++ filled (E.erase e)) := by
      have : filled E ~ t :: (newSlots al' e.allocation ++ filled (E.erase e)) :=
        (filled_mem_split he).trans (by simpa using Perm.append_right _ a3)
      refine (Perm.append_left _ this).trans ?_
      simp only [append_assoc]
      exact perm_middle
    exact Perm.cons_inv (h1.symm.trans hacct)

/-- The result of following the target for one track. -/
theorem candidate_step {packs : List Pack} {t : TrackRef} {rest : List TrackRef}
    {refs : Option (List Nat)} {P F E : Sol} (h : Inv packs (t :: rest) refs P F E) :
    ∃ c ∈ candidatePartialSolutions t
        (packs.filter (couldPossiblyAllocate (t :: rest) refs (countEmpty P))) refs P,
      ∃ F' E', F' ++ E' ~ F ++ E ∧ Fills c.1 F' ∧
        (∀ e ∈ E', e.pack ∈ c.2.1 ∧ e.allocation.map (·.1) = e.pack.channels ∧ e.allocation ≠ []) ∧
        (∀ a ∈ F', TargetOK a) ∧ (∀ a ∈ E', TargetOK a) ∧
        newSol c.1 F' ++ filled E' ~ rest ∧ RefsLeft c.2.2 (roots E') := by
  have hpk : ∀ e ∈ E, e.pack ∈ packs.filter (couldPossiblyAllocate (t :: rest) refs (countEmpty P)) :=
    fun e he => mem_filter.2 ⟨(h.extra e he).1, couldPossiblyAllocate_of_inv h e he⟩
  have hextra : ∀ e ∈ E, e.pack ∈ packs.filter (couldPossiblyAllocate (t :: rest) refs (countEmpty P)) ∧
      e.allocation.map (·.1) = e.pack.channels ∧ e.allocation ≠ [] :=
    fun e he => ⟨hpk e he, (h.extra e he).2⟩
  have htmem : t ∈ newSol P F ++ filled E := (h.acct.mem_iff).2 (by simp)
  -- staying within the existing allocations
  have stay : ∀ post', newSol P F ~ t :: newSol post' F → newSol post' F ++ filled E ~ rest := by
    intro post' hp
    have : newSol P F ++ filled E ~ t :: (newSol post' F ++ filled E) := by
      simpa using Perm.append_right (filled E) hp
    exact Perm.cons_inv (this.symm.trans h.acct)
  -- opening a new pack
  have openNew : ∀ (e : Allocated) (pre post : List Pack), e ∈ E → t ∈ filledSlots e.allocation →
      (t = none → ∀ y ∈ filledSlots e.allocation, y = none) →
      packs.filter (couldPossiblyAllocate (t :: rest) refs (countEmpty P)) = pre ++ e.pack :: post →
      (∀ e' ∈ E.erase e, e'.pack ∈
        (if t.isNone then e.pack :: post
          else packs.filter (couldPossiblyAllocate (t :: rest) refs (countEmpty P)))) →
      ∃ c ∈ newCandidates t
          (packs.filter (couldPossiblyAllocate (t :: rest) refs (countEmpty P))) refs P,
        ∃ F' E', F' ++ E' ~ F ++ E ∧ Fills c.1 F' ∧
          (∀ e ∈ E', e.pack ∈ c.2.1 ∧ e.allocation.map (·.1) = e.pack.channels ∧ e.allocation ≠ []) ∧
          (∀ a ∈ F', TargetOK a) ∧ (∀ a ∈ E', TargetOK a) ∧
          newSol c.1 F' ++ filled E' ~ rest ∧ RefsLeft c.2.2 (roots E') := by
    intro e pre post he hte hsil hsplit hrem
    obtain ⟨a', rr, o1, o2, o3, o4⟩ := open_pack_step e pre post h.fills he (h.targetE e he)
      (h.extra e he).2.1 hte hsil hsplit h.acct h.refs
    refine ⟨_, o1, F ++ [e], E.erase e, ?_, o2, ?_, ?_, ?_, o3, o4⟩
    · rw [append_assoc]
      exact Perm.append_left _ (by simpa using (perm_cons_erase he).symm)
    · intro e' he'
      exact ⟨hrem e' he', (h.extra e' (mem_of_mem_erase he')).2⟩
    · intro a ha
      simp only [mem_append, mem_singleton] at ha
      rcases ha with ha | rfl
      · exact h.targetF a ha
      · exact h.targetE a he
    · intro a ha
      exact h.targetE a (mem_of_mem_erase ha)
  cases t with
  | some tr =>
    simp only [mem_append] at htmem
    rcases htmem with hm | hm
    · obtain ⟨post', e1, e2, e3, _⟩ := existingCandidates_target (some tr) P F [] h.fills h.targetF hm
        (fun h => by cases h)
      refine ⟨(post', _, refs), ?_, F, E, Perm.refl _, e2, hextra, h.targetF, h.targetE, stay post' e3, h.refs⟩
      simp only [candidatePartialSolutions, Option.isNone_some, Bool.false_eq_true, if_false, mem_append,
        mem_map]
      left
      exact ⟨post', by simpa using e1, rfl⟩
    · -- in a pack still to be opened
      have : ∃ e ∈ E, some tr ∈ filledSlots e.allocation := by
        simp only [filled, slots, mem_filterMap, mem_flatMap] at hm
        obtain ⟨cs, ⟨e, he, hcs⟩, hx⟩ := hm
        exact ⟨e, he, (filledSlots_mem_iff _ _).2 ⟨cs, hcs, hx⟩⟩
      obtain ⟨e, he, hte⟩ := this
      obtain ⟨pre, post, hsplit⟩ := append_of_mem (hpk e he)
      obtain ⟨c, hc, rest'⟩ := openNew e pre post he hte (fun h => by cases h) hsplit
        (by
          intro e' he'
          simp only [Option.isNone_some, Bool.false_eq_true, if_false]
          exact hpk e' (mem_of_mem_erase he'))
      refine ⟨c, ?_, rest'⟩
      simp only [candidatePartialSolutions, Option.isNone_some, Bool.false_eq_true, if_false, mem_append]
      right; exact hc
  | none =>
    have hall := silentLast_all_none h.silentLast
    have hallnew : ∀ y ∈ newSol P F ++ filled E, y = none :=
      fun y hy => hall y ((h.acct.mem_iff).1 hy)
    by_cases hnil : newSol P F = []
    · -- nothing left to fill: a new pack, the first one the target still needs
      have hex := existingCandidates_nil_of_full none P F [] h.fills h.targetF hnil
      have hEne : E ≠ [] := by
        intro hE
        have := h.acct.length_eq
        simp [hnil, hE, filled_nil] at this
      obtain ⟨pre, p, post, hsplit, ⟨e, he, hep⟩, hrem⟩ := first_needed_pack _ E hEne hpk
      subst hep
      have hfe : ∀ y ∈ filledSlots e.allocation, y = none := by
        intro y hy
        apply hallnew y
        simp only [mem_append]
        right
        apply ((filled_mem_split he).mem_iff).2
        simp only [mem_append]
        left; exact hy
      have hne : none ∈ filledSlots e.allocation := by
        have h3 := (h.extra e he).2.2
        have hlen := filledSlots_length_of_complete _ (targetOK_complete (h.targetE e he))
        cases hl : filledSlots e.allocation with
        | nil =>
          rw [hl] at hlen
          simp only [length_nil] at hlen
          exact absurd (length_eq_zero_iff.1 hlen.symm) h3
        | cons y ys =>
          have := hfe y (by rw [hl]; simp)
          subst this
          simp
      obtain ⟨c, hc, rest'⟩ := openNew e pre post he hne (fun _ => hfe) hsplit
        (by
          intro e' he'
          simp only [Option.isNone_none, if_true]
          exact hrem e' (mem_of_mem_erase he'))
      refine ⟨c, ?_, rest'⟩
      simp only [candidatePartialSolutions, Option.isNone_none, if_true, hex, map_nil]
      exact hc
    · obtain ⟨post', tl, e1, e2, e3, _⟩ := existingCandidates_head_silent P F [] h.fills h.targetF
        (fun y hy => hallnew y (by simp only [mem_append]; left; exact hy)) hnil
      refine ⟨(post', _, refs), ?_, F, E, Perm.refl _, e2, hextra, h.targetF, h.targetE, stay post' e3, h.refs⟩
      simp only [candidatePartialSolutions, Option.isNone_none, if_true, e1, map_cons, nil_append,
        mem_singleton]

/-! ### the search reaches the target -/

theorem allocImpl_complete : ∀ (fuel : Nat) (packs : List Pack) (tracks : List TrackRef)
    (refs : Option (List Nat)) (P F E : Sol), tracks.length + 1 ≤ fuel →
    Inv packs tracks refs P F E → ∃ sol ∈ allocImpl fuel packs tracks refs P, sol ~ F ++ E
  | 0, _, _, _, _, _, _, hf, _ => by omega
  | fuel + 1, packs, [], refs, P, F, E, _, h => by
    have hnil := h.acct.length_eq
    simp only [length_append, length_nil] at hnil
    have h1 : newSol P F = [] := length_eq_zero_iff.1 (by omega)
    have h2 : filled E = [] := length_eq_zero_iff.1 (by omega)
    have hE : E = [] := by
      cases E with
      | nil => rfl
      | cons e E =>
        exfalso
        have hl := filledSlots_length_of_complete _ (targetOK_complete (h.targetE e (by simp)))
        rw [filled_cons, append_eq_nil_iff] at h2
        rw [h2.1] at hl
        exact (h.extra e (by simp)).2.2 (length_eq_zero_iff.1 hl.symm)
    subst hE
    have hPF : P = F := fills_refl_of_full P F h.fills h1
      (fun a ha => targetOK_complete (h.targetF a ha))
    subst hPF
    refine ⟨P, ?_, by simp⟩
    simp only [allocImpl]
    have c1 : refsDone refs = true := by
      cases hr : refs with
      | none => rfl
      | some r =>
        have := h.refs
        rw [hr] at this
        simp only [RefsLeft, roots, map_nil] at this
        have := this.length_eq
        simp only [length_nil] at this
        simp [refsDone, length_eq_zero_iff.1 this.symm]
    have c2 : (slots P).all (fun cs => cs.2.isSome) = true := by
      simp only [all_eq_true, slots, mem_flatMap]
      intro cs ⟨a, ha, hcs⟩
      have := targetOK_complete (h.targetF a ha) cs hcs
      cases hs : cs.2 with
      | none => exact absurd hs this
      | some x => rfl
    simp [c1, c2]
  | fuel + 1, packs, t :: rest, refs, P, F, E, hf, h => by
    simp only [allocImpl]
    have hcnt := inv_count h
    rw [if_neg (by omega)]
    obtain ⟨c, hc, F', E', hperm, c1, c2, c3, c4, c5, c6⟩ := candidate_step h
    obtain ⟨np, rp, rr⟩ := c
    simp only at c1 c2 c5 c6
    have hsl := h.silentLast.tail
    have c5' : rest ~ newSol np F' ++ filled E' := c5.symm
    obtain ⟨P', tracks', o1, o2, o3, o4⟩ := obviousPacks_target np F' rest (filled E') c1 c3 c5' hsl
    have hlen := (obviousPacks_spec [] np rest P' tracks' o1).2.2.1
    have hinv : Inv rp tracks' rr P' F' E' := ⟨o2, c2, c3, c4, o3.symm, c6, o4⟩
    simp only [length_cons] at hf
    obtain ⟨sol, hs1, hs2⟩ := allocImpl_complete fuel rp tracks' rr P' F' E' (by omega) hinv
    refine ⟨sol, ?_, hs2.trans hperm⟩
    simp only [mem_flatMap]
    refine ⟨(np, rp, rr), hc, ?_⟩
    simp only [allocObviousWith, o1]
    exact hs1

end Earverif.PackAlloc
