/- C01: from the decidable checks on the regenerated tables (`groupsOk`, `treeOk` in the model file) to the
   hypotheses of the theorems over ℝ (`TreeWF`, duplicate-free groups, totality of the zone downmix). -/
import Earverif.Proofs.C01Allo

namespace Earverif.GainCalc

theorem nodupB_nodup {β : Type} [BEq β] [LawfulBEq β] : ∀ l : List β, nodupB l = true → l.Nodup
  | [], _ => List.nodup_nil
  | x :: xs, h => by
    simp only [nodupB, Bool.and_eq_true, Bool.not_eq_eq_eq_not, Bool.not_true] at h
    refine List.nodup_cons.mpr ⟨?_, nodupB_nodup xs h.2⟩
    intro hm
    have : xs.contains x = true := List.contains_iff_mem.mpr hm
    rw [this] at h
    exact Bool.noConfusion h.1

/-! ### the table's tree over ℝ -/

/-- exact rational coordinates read as reals -/
noncomputable def castLeaf (l : Leaf Rat) : Leaf ℝ := ⟨l.idx, (l.x : ℝ), (l.y : ℝ), (l.z : ℝ)⟩

noncomputable def realTree (t : Tree Rat) : Tree ℝ := t.map fun pl => pl.map fun row => row.map castLeaf

theorem rowY_cast (row : List (Leaf Rat)) : rowY (row.map castLeaf) = (rowY row).map fun (q : Rat) => (q : ℝ) := by
  cases row <;> simp [rowY, castLeaf]

theorem planeZ_cast (pl : List (List (Leaf Rat))) :
    planeZ (pl.map fun row => row.map castLeaf) = (planeZ pl).map fun (q : Rat) => (q : ℝ) := by
  cases pl with
  | nil => simp [planeZ]
  | cons row rest => cases row <;> simp [planeZ, castLeaf]

theorem mapM_eq_filterMap {β γ : Type} (f : β → Option γ) : ∀ (l : List β) (out : List γ), l.mapM f = some out →
    out = l.filterMap f
  | [], out, h => by
    simp only [List.mapM_nil, Option.pure_def, Option.some.injEq] at h
    subst h; rfl
  | b :: l, out, h => by
    rw [List.mapM_cons] at h
    cases hb : f b with
    | none => simp [hb] at h
    | some c =>
      cases hl : l.mapM f with
      | none => simp [hb, hl] at h
      | some cs =>
        simp only [hb, hl, Option.bind_eq_bind, Option.bind_some, Option.pure_def, Option.some.injEq] at h
        subst h
        rw [List.filterMap_cons, hb, ← mapM_eq_filterMap f l cs hl]

theorem filterMap_cast {β β' : Type} (c : β → β') (f : β → Option Rat) (f' : β' → Option ℝ)
    (hc : ∀ b, f' (c b) = (f b).map fun (q : Rat) => (q : ℝ)) :
    ∀ l : List β, (l.map c).filterMap f' = (l.filterMap f).map fun (q : Rat) => (q : ℝ)
  | [] => rfl
  | b :: l => by
    rw [List.map_cons, List.filterMap_cons, List.filterMap_cons, hc b]
    cases f b with
    | none => simpa using filterMap_cast c f f' hc l
    | some q => simpa using filterMap_cast c f f' hc l

theorem nodup_cast {l : List Rat} (h : l.Nodup) : (l.map fun (q : Rat) => (q : ℝ)).Nodup :=
  List.Nodup.map Rat.cast_injective h

theorem disjoint_of_nodup_flatten {L : List (List Nat)} (h : L.flatten.Nodup) {i j : Nat} {a b : List Nat}
    (hij : i ≠ j) (hi : L[i]? = some a) (hj : L[j]? = some b) : ∀ x ∈ a, x ∉ b := by
  have pw := (List.nodup_flatten.mp h).2
  rw [List.pairwise_iff_getElem] at pw
  obtain ⟨hi', rfl⟩ := List.getElem?_eq_some_iff.mp hi
  obtain ⟨hj', rfl⟩ := List.getElem?_eq_some_iff.mp hj
  intro x hx hx'
  rcases Nat.lt_or_gt_of_ne hij with hlt | hgt
  · exact (pw i j hi' hj' hlt) hx hx'
  · exact (pw j i hj' hi' hgt) hx' hx

theorem rowIdx_cast (row : List (Leaf Rat)) : rowIdx (row.map castLeaf) = row.map (·.idx) := by
  simp [rowIdx, castLeaf, List.map_map, Function.comp_def]

theorem planeIdx_cast (pl : List (List (Leaf Rat))) :
    planeIdx (pl.map fun row => row.map castLeaf) = pl.flatten.map (·.idx) := by
  simp only [planeIdx]
  rw [← List.map_flatten, List.map_map]
  simp [castLeaf, Function.comp_def]

theorem rowWF_of_ok (n : Nat) (row : List (Leaf Rat)) (hx : nodupB (row.map (·.x)) = true)
    (hi : nodupB (row.map (·.idx)) = true) (hlt : row.all (·.idx < n) = true) : RowWF n (row.map castLeaf) := by
  refine ⟨?_, ?_, ?_⟩
  · have : (row.map castLeaf).map (·.x) = (row.map (·.x)).map fun (q : Rat) => (q : ℝ) := by
      simp [castLeaf, List.map_map, Function.comp_def]
    rw [this]
    exact nodup_cast (nodupB_nodup _ hx)
  · rw [rowIdx_cast]; exact nodupB_nodup _ hi
  · intro l hl
    simp only [List.mem_map] at hl
    obtain ⟨l0, hl0, rfl⟩ := hl
    simp only [List.all_eq_true, decide_eq_true_eq] at hlt
    exact hlt l0 hl0

theorem planeWF_of_ok (n : Nat) (pl : List (List (Leaf Rat)))
    (hy : nodupB (pl.filterMap rowY) = true)
    (hrows : pl.all (fun row => nodupB (row.map (·.x)) && row.all (·.idx < n)) = true)
    (hd : nodupB ((pl.map fun row => row.map (·.idx)).flatten) = true)
    (hri : pl.all (fun row => nodupB (row.map (·.idx))) = true) :
    PlaneWF n (pl.map fun row => row.map castLeaf) := by
  simp only [List.all_eq_true, Bool.and_eq_true] at hrows hri
  refine ⟨?_, ?_, ?_⟩
  · intro row hr
    simp only [List.mem_map] at hr
    obtain ⟨r0, hr0, rfl⟩ := hr
    exact rowWF_of_ok n r0 (hrows r0 hr0).1 (hri r0 hr0) (by simpa using (hrows r0 hr0).2)
  · intro yc h
    rw [mapM_eq_filterMap _ _ _ h, filterMap_cast (fun row => row.map castLeaf) rowY rowY rowY_cast]
    exact nodup_cast (nodupB_nodup _ hy)
  · intro i j r0 r1 hij h0 h1
    rw [List.getElem?_map] at h0 h1
    obtain ⟨q0, hq0, rfl⟩ := Option.map_eq_some_iff.mp h0
    obtain ⟨q1, hq1, rfl⟩ := Option.map_eq_some_iff.mp h1
    rw [rowIdx_cast, rowIdx_cast]
    refine disjoint_of_nodup_flatten (L := pl.map fun row => row.map (·.idx)) (nodupB_nodup _ hd) hij ?_ ?_
    · rw [List.getElem?_map, hq0]; rfl
    · rw [List.getElem?_map, hq1]; rfl

/-- the decidable check implies the well-formedness hypothesis of `allo_unit_power` -/
theorem treeWF_of_ok (n : Nat) (st : Tree Rat) (h : treeOk n st = true) : TreeWF n (realTree st) := by
  simp only [treeOk, Bool.and_eq_true] at h
  obtain ⟨⟨⟨⟨⟨_, hz⟩, hpl⟩, hd⟩, hpd⟩, hri⟩ := h
  simp only [List.all_eq_true, Bool.and_eq_true] at hpl hpd hri
  refine ⟨?_, ?_, ?_⟩
  · intro pl hp
    simp only [realTree, List.mem_map] at hp
    obtain ⟨p0, hp0, rfl⟩ := hp
    exact planeWF_of_ok n p0 (hpl p0 hp0).1 (by simpa [List.all_eq_true] using (hpl p0 hp0).2) (hpd p0 hp0)
      (by simpa [List.all_eq_true] using hri p0 hp0)
  · intro zc h
    simp only [realTree] at h
    rw [mapM_eq_filterMap _ _ _ h, filterMap_cast (fun pl => pl.map fun row => row.map castLeaf) planeZ planeZ planeZ_cast]
    exact nodup_cast (nodupB_nodup _ hz)
  · intro i j p0 p1 hij h0 h1
    simp only [realTree] at h0 h1
    rw [List.getElem?_map] at h0 h1
    obtain ⟨q0, hq0, rfl⟩ := Option.map_eq_some_iff.mp h0
    obtain ⟨q1, hq1, rfl⟩ := Option.map_eq_some_iff.mp h1
    rw [planeIdx_cast, planeIdx_cast]
    refine disjoint_of_nodup_flatten (L := st.map fun pl => pl.flatten.map (·.idx)) (nodupB_nodup _ hd) hij ?_ ?_
    · rw [List.getElem?_map, hq0]; rfl
    · rw [List.getElem?_map, hq1]; rfl

/-! ### zone groups: duplicate-free, and the downmix never hits its `assert False` -/

theorem groups_nodup_of_ok (n : Nat) (groups : List (List (List Nat))) (h : groupsOk n groups = true) :
    ∀ grps ∈ groups, ∀ grp ∈ grps, grp.Nodup := by
  simp only [groupsOk, Bool.and_eq_true, List.all_eq_true] at h
  intro grps hg grp hgrp
  exact nodupB_nodup _ ((h.2 grps hg).1.1.1 grp hgrp)

/-- a duplicate-free list of `n` numbers below `n` contains every number below `n` -/
theorem mem_of_nodup_full {l : List Nat} {n : Nat} (hn : l.Nodup) (hl : l.length = n) (hb : ∀ x ∈ l, x < n)
    {j : Nat} (hj : j < n) : j ∈ l := by
  have hsub : l.toFinset ⊆ Finset.range n := by
    intro x hx
    simpa using hb x (List.mem_toFinset.mp hx)
  have hcard : l.toFinset.card = (Finset.range n).card := by
    rw [List.toFinset_card_of_nodup hn, hl, Finset.card_range]
  have := Finset.eq_of_subset_of_card_le hsub (by rw [hcard])
  have hj' : j ∈ Finset.range n := Finset.mem_range.mpr hj
  rw [← this] at hj'
  exact List.mem_toFinset.mp hj'

theorem allExcluded_some (excluded : List Bool) : ∀ (grp : List Nat), (∀ j ∈ grp, j < excluded.length) →
    ∃ b, allExcluded excluded grp = some b ∧ (b = true → ∀ j ∈ grp, excluded[j]? = some true)
  | [], _ => ⟨true, rfl, by simp⟩
  | j :: js, h => by
    have hj : j < excluded.length := h j (by simp)
    obtain ⟨b, hb, hall⟩ := allExcluded_some excluded js (fun x hx => h x (by simp [hx]))
    refine ⟨excluded[j] && b, ?_, ?_⟩
    · simp [allExcluded, List.getElem?_eq_getElem hj, hb]
    · intro ht
      simp only [Bool.and_eq_true] at ht
      intro x hx
      simp only [List.mem_cons] at hx
      rcases hx with rfl | hx
      · rw [List.getElem?_eq_getElem hj, ht.1]
      · exact hall ht.2 x hx

theorem firstUsable_some (excluded : List Bool) : ∀ (grps : List (List Nat)),
    (∀ grp ∈ grps, ∀ j ∈ grp, j < excluded.length) → (∃ j ∈ grps.flatten, excluded[j]? = some false) →
    ∃ ne, firstUsable excluded grps = some ne
  | [], _, ⟨j, hj, _⟩ => by simp at hj
  | grp :: rest, hb, ⟨j, hj, hjf⟩ => by
    obtain ⟨b, hbe, hall⟩ := allExcluded_some excluded grp (hb grp (by simp))
    simp only [firstUsable, hbe]
    cases b with
    | false => exact ⟨_, rfl⟩
    | true =>
      simp only
      refine firstUsable_some excluded rest (fun g hg => hb g (by simp [hg])) ⟨j, ?_, hjf⟩
      simp only [List.flatten_cons, List.mem_append] at hj
      rcases hj with hj | hj
      · have := hall rfl j hj
        rw [this] at hjf
        exact absurd hjf (by simp)
      · exact hj

theorem mapM_some_of_forall {β γ : Type} (f : β → Option γ) : ∀ (l : List β), (∀ b ∈ l, ∃ c, f b = some c) →
    ∃ out, l.mapM f = some out
  | [], _ => ⟨[], rfl⟩
  | b :: l, h => by
    obtain ⟨c, hc⟩ := h b (by simp)
    obtain ⟨cs, hcs⟩ := mapM_some_of_forall f l (fun x hx => h x (by simp [hx]))
    exact ⟨c :: cs, by rw [List.mapM_cons, hc, hcs]; rfl⟩

/-- with groups that pass `groupsOk`, `downmix_for_excluded` returns a matrix for every mask of the right length
    (never the `assert False`) -/
theorem downmix_total (n : Nat) (groups : List (List (List Nat))) (h : groupsOk n groups = true)
    (excluded : List Bool) (hl : excluded.length = n) : ∃ D : List (List ℝ), downmixForExcluded groups excluded = some D := by
  have hnd := groups_nodup_of_ok n groups h
  simp only [groupsOk, Bool.and_eq_true, List.all_eq_true, beq_iff_eq, decide_eq_true_eq] at h
  obtain ⟨hlen, hg⟩ := h
  simp only [downmixForExcluded]
  rw [if_neg (by simp [hl, hlen])]
  split
  · exact ⟨_, rfl⟩
  · rename_i hne
    simp only [Bool.or_eq_true, List.all_eq_true, not_or, not_forall] at hne
    obtain ⟨⟨e, he, hef⟩, _⟩ := hne
    have hefalse : e = false := by cases e <;> simp_all
    subst hefalse
    obtain ⟨j, hjl, hj⟩ := List.getElem_of_mem he
    have hj? : excluded[j]? = some false := by rw [List.getElem?_eq_getElem hjl, hj]
    refine mapM_some_of_forall _ groups ?_
    intro grps hgr
    obtain ⟨⟨⟨_, hnf⟩, hfl⟩, hfb⟩ := hg grps hgr
    have hmem : j ∈ grps.flatten := mem_of_nodup_full (nodupB_nodup _ hnf) hfl hfb (by omega)
    obtain ⟨ne, hne'⟩ := firstUsable_some excluded grps
      (fun grp hgrp x hx => by rw [hl]; exact hfb x (List.mem_flatten.mpr ⟨grp, hgrp, hx⟩)) ⟨j, hmem, hj?⟩
    exact ⟨_, by rw [hne']; rfl⟩

theorem length_downmixRow (n : Nat) (ne : List Nat) : (downmixRow n ne : List ℝ).length = n := by
  simp [downmixRow]

/-- shape of the matrix: `n × n` -/
theorem downmix_shape (groups : List (List (List Nat))) (excluded : List Bool) (D : List (List ℝ))
    (h : downmixForExcluded groups excluded = some D) :
    D.length = groups.length ∧ ∀ r ∈ D, r.length = groups.length := by
  simp only [downmixForExcluded] at h
  split at h
  · simp at h
  · split at h
    · simp only [Option.some.injEq] at h
      subst h
      refine ⟨by simp [eye], ?_⟩
      intro r hr
      simp only [eye, List.mem_map] at hr
      obtain ⟨i, _, rfl⟩ := hr
      simp
    · refine ⟨?_, ?_⟩
      · have := mapM_eq_filterMap _ _ _ h
        have hlen : ∀ (l : List (List (List Nat))) (out : List (List ℝ)),
            l.mapM (fun grps => (firstUsable excluded grps).map (downmixRow groups.length)) = some out →
            out.length = l.length := by
          intro l
          induction l with
          | nil => intro out ho; simp at ho; subst ho; rfl
          | cons b l ih =>
            intro out ho
            rw [List.mapM_cons] at ho
            cases hb : (firstUsable excluded b).map (downmixRow groups.length (α := ℝ)) with
            | none => simp [hb] at ho
            | some c =>
              cases hl' : l.mapM (fun grps => (firstUsable excluded grps).map (downmixRow groups.length (α := ℝ))) with
              | none => simp [hb, hl'] at ho
              | some cs =>
                simp only [hb, hl', Option.bind_eq_bind, Option.bind_some, Option.pure_def, Option.some.injEq] at ho
                subst ho
                simp [ih cs hl']
        exact hlen groups D h
      · intro r hr
        obtain ⟨grps, _, hrow⟩ := mapM_some_mem _ groups D h r hr
        simp only [Option.map_eq_some_iff] at hrow
        obtain ⟨ne, _, rfl⟩ := hrow
        exact length_downmixRow _ _

/-! ### `AllocentricPanner.handle` raises no IndexError on a tree without empty planes/rows (any scalar) -/

section total
variable {α : Type} [Scalar α]

theorem findLoop_lt (len : Nat) (v : α) : ∀ (cs : List α) (i : Nat), i + cs.length = len → 0 < len →
    (findLoop len v i cs).1 < len ∧ (findLoop len v i cs).2 < len
  | [], _, _, h0 => by simp only [findLoop]; omega
  | c :: cs, i, h, h0 => by
    simp only [List.length_cons] at h
    simp only [findLoop]
    split
    · simp only; omega
    · split
      · simp only; omega
      · exact findLoop_lt len v cs (i + 1) (by omega) h0

theorem findPair_lt (coords : List α) (v : α) (h : coords ≠ []) :
    (findPair coords v).1 < coords.length ∧ (findPair coords v).2 < coords.length := by
  cases coords with
  | nil => exact absurd rfl h
  | cons c cs =>
    simp only [findPair]
    split
    · simp
    · exact findLoop_lt _ v (c :: cs) 0 (by simp) (by simp)

theorem mapM_some_length {β γ : Type} (f : β → Option γ) : ∀ (l : List β), (∀ b ∈ l, ∃ c, f b = some c) →
    ∃ out, l.mapM f = some out ∧ out.length = l.length
  | [], _ => ⟨[], rfl, rfl⟩
  | b :: l, h => by
    obtain ⟨c, hc⟩ := h b (by simp)
    obtain ⟨cs, hcs, hl⟩ := mapM_some_length f l (fun x hx => h x (by simp [hx]))
    exact ⟨c :: cs, by rw [List.mapM_cons, hc, hcs]; rfl, by simp [hl]⟩

theorem rowWrites_total (row : List (Leaf α)) (px c : α) (h : row ≠ []) : ∃ ws, rowWrites row px c = some ws := by
  have hx : row.map (·.x) ≠ [] := by simpa using h
  obtain ⟨h1, h2⟩ := findPair_lt (row.map (·.x)) px hx
  have h1' : (findPair (row.map (·.x)) px).1 < row.length := by simpa using h1
  have h2' : (findPair (row.map (·.x)) px).2 < row.length := by simpa using h2
  simp only [rowWrites]
  rw [List.getElem?_eq_getElem h1, List.getElem?_eq_getElem h2, List.getElem?_eq_getElem h1',
    List.getElem?_eq_getElem h2']
  exact ⟨_, rfl⟩

theorem planeWrites_total (pl : List (List (Leaf α))) (px py gz : α) (h : pl ≠ []) (hr : ∀ row ∈ pl, row ≠ []) :
    ∃ ws, planeWrites pl px py gz = some ws := by
  obtain ⟨yc, hyc, hlen⟩ := mapM_some_length rowY pl (by
    intro row hrow
    cases row with
    | nil => exact absurd rfl (hr _ hrow)
    | cons l ls => exact ⟨l.y, rfl⟩)
  have hne : yc ≠ [] := by
    intro e; rw [e] at hlen; exact h (List.length_eq_zero_iff.mp hlen.symm)
  obtain ⟨h1, h2⟩ := findPair_lt yc py hne
  have h1' : (findPair yc py).1 < pl.length := by omega
  have h2' : (findPair yc py).2 < pl.length := by omega
  simp only [planeWrites, hyc]
  rw [List.getElem?_eq_getElem h1, List.getElem?_eq_getElem h2, List.getElem?_eq_getElem h1',
    List.getElem?_eq_getElem h2']
  simp only
  obtain ⟨w0, hw0⟩ := rowWrites_total pl[(findPair yc py).1] px
    (gz * (singleBalancePan yc[(findPair yc py).1] yc[(findPair yc py).2] py).1) (hr _ (List.getElem_mem h1'))
  obtain ⟨w1, hw1⟩ := rowWrites_total pl[(findPair yc py).2] px
    (gz * (singleBalancePan yc[(findPair yc py).1] yc[(findPair yc py).2] py).2) (hr _ (List.getElem_mem h2'))
  rw [hw0, hw1]
  exact ⟨_, rfl⟩

/-- **`AllocentricPanner.handle` never raises** on a tree with no empty plane/row — for every scalar type, in
    particular `Float` -/
theorem alloHandle_total (n : Nat) (st : Tree α) (px py pz : α) (h : treeNonempty st = true) :
    ∃ r, alloHandle n st px py pz = some r := by
  simp only [treeNonempty, Bool.and_eq_true, Bool.not_eq_eq_eq_not, Bool.not_true, List.isEmpty_eq_false_iff,
    List.all_eq_true] at h
  obtain ⟨hst, hpl⟩ := h
  have hpl' : ∀ pl ∈ st, pl ≠ [] ∧ ∀ row ∈ pl, row ≠ [] := by
    intro pl hp
    have := hpl pl hp
    exact ⟨this.1, fun row hrow => by simpa using this.2 row hrow⟩
  obtain ⟨zc, hzc, hlen⟩ := mapM_some_length planeZ st (by
    intro pl hp
    obtain ⟨hne, hrows⟩ := hpl' pl hp
    cases pl with
    | nil => exact absurd rfl hne
    | cons row rest =>
      cases row with
      | nil => exact absurd rfl (hrows [] (by simp))
      | cons l ls => exact ⟨l.z, rfl⟩)
  have hne : zc ≠ [] := by
    intro e; rw [e] at hlen; exact hst (List.length_eq_zero_iff.mp hlen.symm)
  obtain ⟨h1, h2⟩ := findPair_lt zc pz hne
  have h1' : (findPair zc pz).1 < st.length := by omega
  have h2' : (findPair zc pz).2 < st.length := by omega
  simp only [alloHandle, alloWrites, hzc]
  rw [List.getElem?_eq_getElem h1, List.getElem?_eq_getElem h2, List.getElem?_eq_getElem h1',
    List.getElem?_eq_getElem h2']
  simp only
  obtain ⟨w0, hw0⟩ := planeWrites_total st[(findPair zc pz).1] px py
    (singleBalancePan zc[(findPair zc pz).1] zc[(findPair zc pz).2] pz).1
    (hpl' _ (List.getElem_mem h1')).1 (hpl' _ (List.getElem_mem h1')).2
  obtain ⟨w1, hw1⟩ := planeWrites_total st[(findPair zc pz).2] px py
    (singleBalancePan zc[(findPair zc pz).1] zc[(findPair zc pz).2] pz).2
    (hpl' _ (List.getElem_mem h2')).1 (hpl' _ (List.getElem_mem h2')).2
  rw [hw0, hw1]
  exact ⟨_, rfl⟩

end total

theorem treeNonempty_real (st : Tree Rat) (h : treeNonempty st = true) : treeNonempty (realTree st) = true := by
  simp only [treeNonempty, Bool.and_eq_true, Bool.not_eq_eq_eq_not, Bool.not_true, List.isEmpty_eq_false_iff,
    List.all_eq_true] at h ⊢
  refine ⟨by simpa [realTree] using h.1, ?_⟩
  intro pl hp
  simp only [realTree, List.mem_map] at hp
  obtain ⟨p0, hp0, rfl⟩ := hp
  refine ⟨by simpa using (h.2 p0 hp0).1, ?_⟩
  intro row hrow
  simp only [List.mem_map] at hrow
  obtain ⟨r0, hr0, rfl⟩ := hrow
  simpa using (h.2 p0 hp0).2 r0 hr0

end Earverif.GainCalc
