#!/bin/sh
# tools/seed_setup.sh <pid> <n>: create the scratch worktree + output dir for a seeding sub-agent
set -e
WT=/tmp/seedwt_$1_$2; OUT=/tmp/seedout_$1_$2
git -C /repo worktree remove --force $WT 2>/dev/null || true
rm -rf $WT $OUT; mkdir -p $OUT
git -C /repo worktree add -q --detach $WT HEAD
echo $WT $OUT
