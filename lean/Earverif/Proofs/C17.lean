/-
Lemmas for C17 (truncated files): prefixes of chunk sequences, the chunk walk over a
prefix, truncated headers.
-/
import Earverif.Props.C09

namespace Earverif.Bw64

/-! ### reads on a truncated file -/

theorem readAt_take_full (f : Bytes) {k p n : Nat} (h : p + n ≤ k) : readAt (f.take k) p n = readAt f p n := by
  simp only [readAt, List.drop_take, List.take_take]
  congr 1; omega

theorem readAt_take_short (f : Bytes) {k p n : Nat} (h : k < p + n) (hn : 0 < n) :
    (readAt (f.take k) p n).length ≠ n :=
  readAt_short (by simp only [List.length_take]; omega) hn

/-! ### prefixes of a chunk sequence -/

/-- A proper prefix of an encoded chunk sequence consists of some complete chunks followed by a proper
prefix of the next chunk. -/
theorem take_encAll (cs : List Chunk) : ∀ m, m < (encAll cs).length →
    ∃ A c B j, cs = A ++ c :: B ∧ j < c.enc.length ∧ m = (encAll A).length + j ∧
      (encAll cs).take m = encAll A ++ c.enc.take j := by
  induction cs with
  | nil => intro m hm; simp at hm
  | cons c cs ih =>
    intro m hm
    by_cases h : m < c.enc.length
    · refine ⟨[], c, cs, m, rfl, h, by simp, ?_⟩
      simp [List.take_append_of_le_length (Nat.le_of_lt h)]
    · simp only [encAll_cons, List.length_append] at hm
      obtain ⟨A, c', B, j, h1, h2, h3, h4⟩ := ih (m - c.enc.length) (by omega)
      refine ⟨c :: A, c', B, j, by simp [h1], h2, by simp; omega, ?_⟩
      simp only [encAll_cons, List.take_append, h4, List.append_assoc]
      rw [List.take_of_length_le (by omega)]

/-! ### the chunk walk over a prefix -/

theorem readChunks_eof {f : Bytes} {ds : Option Ds64} {fuel pos : Nat} {t : Table} {w : List Warn}
    (h : f.length < pos + 8) : readChunks f ds (fuel + 1) pos t w = .ok (t, w) := by
  rw [readChunks, readChunkHeader_eof h]

/-- what `_read_chunks` makes of a file cut `j` bytes into chunk `c` (after the complete chunks `A`) -/
def prefixOutcome (p0 : Nat) (A : List Chunk) (c : Chunk) (j : Nat) : Except Err (Table × List Warn) :=
  if j < 8 then .ok (walkTable p0 A [], [])
  else if c.body.length % 2 = 1 ∧ c.id = idData ∧ j = 8 + c.body.length then
    .ok ((c.id, c.body.length, p0 + (encAll A).length) :: walkTable p0 A [], [.dataPad])
  else .error .chunkEnd

/-- **Chunk walk over a prefix.**  On a file cut inside chunk `c` (`j` bytes of it remain) after the complete
well-formed chunks `A`, `_read_chunks` stops with EOF if the cut is inside the header of `c` (the complete
chunks before it are recorded, nothing else), raises "chunk ends after the end of the file" if the cut is
inside the body or removes the pad byte — except for a `data` chunk that lacks only its pad byte, which is
recorded with a warning. -/
theorem walk_prefix (ds : Option Ds64) (A : List Chunk) (c : Chunk) (hA : ∀ x ∈ A, x.OK ds) (hc : c.OK ds)
    (pre f : Bytes) (j : Nat) (hj : j < c.enc.length) (hf : f = pre ++ (encAll A ++ c.enc.take j))
    (fuel : Nat) (hfuel : A.length + 2 ≤ fuel) :
    readChunks f ds fuel pre.length [] [] = prefixOutcome pre.length A c j := by
  obtain ⟨k, rfl⟩ : ∃ k, fuel = A.length + (k + 2) := ⟨fuel - A.length - 2, by omega⟩
  rw [walk_chunks_then ds A hA pre f (c.enc.take j) (k + 2) [] [] hf]
  have hlen := c.enc_length hc.idLen hc.padLen
  have hfl : f.length = pre.length + (encAll A).length + j := by
    rw [hf]; simp only [List.length_append, List.length_take]; omega
  unfold prefixOutcome
  by_cases h8 : j < 8
  · simp only [h8, ↓reduceIte]
    exact readChunks_eof (by omega)
  · simp only [h8, ↓reduceIte]
    -- the header of `c` is complete
    have htake : c.enc.take j = c.id ++ (le 4 c.szField ++ (c.body ++ c.padB).take (j - 8)) := by
      simp only [Chunk.enc, List.take_append, hc.idLen, le_length]
      rw [List.take_of_length_le (by rw [hc.idLen]; omega), List.take_of_length_le (by rw [le_length]; omega)]
      congr 2
      congr 1; omega
    have hh := readChunkHeader_hdr (f := f) (pre := pre ++ encAll A) (id := c.id) (s4 := le 4 c.szField)
      (rest := (c.body ++ c.padB).take (j - 8)) ds (by rw [hf, htake]; simp) hc.idLen (le_length 4 _) hc.idValid
    have hsz : (match ds with
        | none => fromLE (le 4 c.szField)
        | some d => if c.id = idData then d.dataSize else (d.lookup c.id).getD (fromLE (le 4 c.szField))) =
        c.body.length := by
      have := hc.size
      rw [fromLE_le4 _ hc.szLt]
      cases ds <;> simpa [effSize] using this
    rw [hsz, List.length_append] at hh
    rw [show k + 2 = (k + 1) + 1 from rfl, readChunks, hh]
    have he : pre.length + (encAll A).length + 8 + (c.body.length + c.body.length % 2) > f.length := by omega
    simp only [he, ↓reduceIte]
    by_cases hp : c.body.length % 2 = 1 ∧ c.id = idData ∧ j = 8 + c.body.length
    · have hp' : c.body.length % 2 = 1 ∧ c.id = idData ∧
          pre.length + (encAll A).length + 8 + (c.body.length + c.body.length % 2) = f.length + 1 := by
        refine ⟨hp.1, hp.2.1, ?_⟩; omega
      simp only [hp, hp', and_self, ↓reduceIte]
      rw [readChunks_eof (by omega)]
      simp
    · have hp' : ¬ (c.body.length % 2 = 1 ∧ c.id = idData ∧
          pre.length + (encAll A).length + 8 + (c.body.length + c.body.length % 2) = f.length + 1) := by
        intro h; apply hp; refine ⟨h.1, h.2.1, ?_⟩; omega
      simp only [hp, hp', ↓reduceIte]

end Earverif.Bw64
