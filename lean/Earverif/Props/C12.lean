/- C12 — loudspeaker gains vary continuously with source direction.

   Over ℝ, for every loudspeaker position matrix:
   * piecewise continuity: a triplet's gains are a continuous function of the direction on its acceptance set
     (`triplet_continuousOn`, `triplet_handle_continuousOn`); the stereo wrapper's two outputs are continuous
     functions of the inner gains (`stereo_continuousOn`); the downmix wrapper is continuous in the inner gains
     (`downmix_continuousOn`);
   * agreement on shared edges: on the open arc between two loudspeakers the pair of gains is uniquely determined
     (`edge_unique`, `edge_exists`), a triplet having the two loudspeakers as vertices returns exactly that pair and 0
     for its third loudspeaker (`triplet_on_edge`), hence two triplets sharing an edge agree on it (`edge_agreement`).

   PARTIAL: `C12_partial` is the conjunction.  Global continuity of the composed panner additionally needs (a) the
   regions to cover the sphere (Qhull's facets: extracted, not re-derived), (b) a treatment of the −1e-11 acceptance
   slack, under which two overlapping regions may differ by O(1e-11) — in exact arithmetic the composed function has
   jumps of that order, so the full statement is only true "up to 1e-10" — and (c) the n-gon / quad versions of edge
   agreement (the quad depends on the root selection of np.roots, a parameter of the model).  These are searched
   by harness/c12.py (bisection to 1e-9 rad on the real panner), not proved. -/
import Earverif.Props.C05
import Mathlib.Analysis.SpecialFunctions.Pow.Continuity
import Mathlib.Topology.Algebra.Order.Field
import Mathlib.Tactic.FinCases
import Mathlib.Tactic.FunProp

namespace Earverif.PointSource

/-! ### uniqueness of the gains on an edge -/

/-- the point `s·a + t·b` on the arc between loudspeakers `a` and `b` -/
noncomputable def edgePoint (s t : ℝ) (a b : Vec3 ℝ) : Vec3 ℝ := add3 (smul3 s a) (smul3 t b)

theorem cross_edge (α β s t : ℝ) (a b : Vec3 ℝ) :
    cross3 (edgePoint α β a b) (edgePoint s t a b) = smul3 (α * t - β * s) (cross3 a b) := by
  obtain ⟨a0, a1, a2⟩ := a
  obtain ⟨b0, b1, b2⟩ := b
  simp only [edgePoint, cross3, add3, smul3]
  refine Prod.ext ?_ (Prod.ext ?_ ?_) <;> simp only <;> ring

theorem smul3_eq_zero {k : ℝ} {v : Vec3 ℝ} (h : smul3 k v = (0, 0, 0)) (hv : v ≠ (0, 0, 0)) : k = 0 := by
  obtain ⟨v0, v1, v2⟩ := v
  simp only [smul3, Prod.mk.injEq] at h
  by_contra hk
  apply hv
  rcases h with ⟨h0, h1, h2⟩
  rw [(mul_eq_zero.mp h0).resolve_left hk, (mul_eq_zero.mp h1).resolve_left hk, (mul_eq_zero.mp h2).resolve_left hk]

/-- For independent `a`, `b` and a direction in their open cone there is at most one pair of non-negative gains
    of unit power whose velocity vector `α·a + β·b` is parallel to the direction. -/
theorem edge_unique (a b : Vec3 ℝ) (hab : cross3 a b ≠ (0, 0, 0)) (s t : ℝ) (hs : 0 < s) (ht : 0 < t)
    (α β α' β' : ℝ) (hα : 0 ≤ α) (hβ : 0 ≤ β) (hα' : 0 ≤ α') (hβ' : 0 ≤ β')
    (h1 : α * α + β * β = 1) (h1' : α' * α' + β' * β' = 1)
    (hp : cross3 (edgePoint α β a b) (edgePoint s t a b) = (0, 0, 0))
    (hp' : cross3 (edgePoint α' β' a b) (edgePoint s t a b) = (0, 0, 0)) :
    α = α' ∧ β = β' := by
  rw [cross_edge] at hp hp'
  have e := smul3_eq_zero hp hab
  have e' := smul3_eq_zero hp' hab
  have hst : 0 < s * t := mul_pos hs ht
  have hpar : α * β' = α' * β := by
    have : s * t * (α * β' - α' * β) = 0 := by
      have h3 : α * t = β * s := by linarith
      have h4 : α' * t = β' * s := by linarith
      calc s * t * (α * β' - α' * β) = (α * t) * (β' * s) - (α' * t) * (β * s) := by ring
        _ = (β * s) * (α' * t) - (α' * t) * (β * s) := by rw [h3, ← h4]
        _ = 0 := by ring
    rcases mul_eq_zero.mp this with h | h
    · exact absurd h hst.ne'
    · linarith
  have hαα : α * α = α' * α' := by
    calc α * α = α * α * (α' * α' + β' * β') := by rw [h1', mul_one]
      _ = α * α * (α' * α') + (α * β') * (α * β') := by ring
      _ = α * α * (α' * α') + (α' * β) * (α' * β) := by rw [hpar]
      _ = α' * α' * (α * α + β * β) := by ring
      _ = α' * α' := by rw [h1, mul_one]
  have hββ : β * β = β' * β' := by linarith
  exact ⟨(mul_self_inj hα hα').mp hαα, (mul_self_inj hβ hβ').mp hββ⟩

/-- ... and `(s, t)/‖(s, t)‖` is such a pair. -/
theorem edge_exists (a b : Vec3 ℝ) (s t : ℝ) (hs : 0 < s) (ht : 0 < t) :
    let r := Real.sqrt (s * s + t * t)
    0 ≤ s / r ∧ 0 ≤ t / r ∧ s / r * (s / r) + t / r * (t / r) = 1 ∧
      cross3 (edgePoint (s / r) (t / r) a b) (edgePoint s t a b) = (0, 0, 0) := by
  intro r
  have hpos : 0 < s * s + t * t := by positivity
  have hr : 0 < r := Real.sqrt_pos.mpr hpos
  have hrr : r * r = s * s + t * t := Real.mul_self_sqrt hpos.le
  refine ⟨by positivity, by positivity, ?_, ?_⟩
  · field_simp
    have : r ^ 2 = s ^ 2 + t ^ 2 := by rw [pow_two, hrr]; ring
    linarith
  · rw [cross_edge]
    have : s / r * t - t / r * s = 0 := by field_simp; ring
    rw [this]; simp [smul3]

/-! ### a triplet on one of its edges -/

def row (P : Mat3 ℝ) : Fin 3 → Vec3 ℝ
  | 0 => P.1
  | 1 => P.2.1
  | 2 => P.2.2

def coord (v : Vec3 ℝ) : Fin 3 → ℝ
  | 0 => v.1
  | 1 => v.2.1
  | 2 => v.2.2

theorem comb3_edge (P : Mat3 ℝ) (s t : ℝ) :
    edgePoint s t (row P 0) (row P 1) = comb3 s t 0 P ∧ edgePoint s t (row P 1) (row P 0) = comb3 t s 0 P ∧
    edgePoint s t (row P 0) (row P 2) = comb3 s 0 t P ∧ edgePoint s t (row P 2) (row P 0) = comb3 t 0 s P ∧
    edgePoint s t (row P 1) (row P 2) = comb3 0 s t P ∧ edgePoint s t (row P 2) (row P 1) = comb3 0 t s P := by
  obtain ⟨⟨a0, a1, a2⟩, ⟨b0, b1, b2⟩, ⟨c0, c1, c2⟩⟩ := P
  simp only [edgePoint, comb3, add3, smul3, row]
  refine ⟨?_, ?_, ?_, ?_, ?_, ?_⟩ <;> refine Prod.ext ?_ (Prod.ext ?_ ?_) <;> simp only <;> ring

/-- An invertible triplet with loudspeakers `i ≠ j`: every direction `s·P_i + t·P_j` (s, t ≥ 0, not both 0) is
    accepted and gets the gains `s/√(s²+t²)` on `i`, `t/√(s²+t²)` on `j` and exactly 0 on the third loudspeaker. -/
theorem triplet_on_edge (P : Mat3 ℝ) (hd : det3 P ≠ 0) (i j : Fin 3) (hij : i ≠ j) (s t : ℝ) (hs : 0 ≤ s)
    (ht : 0 ≤ t) (hne : s * s + t * t ≠ 0) :
    ∃ g, Triplet.handle P (edgePoint s t (row P i) (row P j)) = some g ∧
      coord g i = s / Real.sqrt (s * s + t * t) ∧ coord g j = t / Real.sqrt (s * s + t * t) ∧
      ∀ k, k ≠ i → k ≠ j → coord g k = 0 := by
  obtain ⟨e01, e10, e02, e20, e12, e21⟩ := comb3_edge P s t
  have z : (0 : ℝ) ≤ 0 := le_refl _
  fin_cases i <;> fin_cases j <;> simp only [ne_eq, not_true_eq_false, Fin.zero_eta, Fin.mk_one, Fin.reduceFinMk] at hij ⊢
  · have h := triplet_of_comb P hd s t 0 hs ht z (by simpa using hne)
    rw [e01, h]
    refine ⟨_, rfl, by simp [coord], by simp [coord], ?_⟩
    intro k hk0 hk1; fin_cases k <;> simp_all [coord]
  · have h := triplet_of_comb P hd s 0 t hs z ht (by simpa using hne)
    rw [e02, h]
    refine ⟨_, rfl, by simp [coord], by simp [coord], ?_⟩
    intro k hk0 hk1; fin_cases k <;> simp_all [coord]
  · have h := triplet_of_comb P hd t s 0 ht hs z (by simpa [add_comm] using hne)
    rw [e10, h]
    refine ⟨_, rfl, by simp [coord, add_comm], by simp [coord, add_comm], ?_⟩
    intro k hk0 hk1; fin_cases k <;> simp_all [coord]
  · have h := triplet_of_comb P hd 0 s t z hs ht (by simpa using hne)
    rw [e12, h]
    refine ⟨_, rfl, by simp [coord], by simp [coord], ?_⟩
    intro k hk0 hk1; fin_cases k <;> simp_all [coord]
  · have h := triplet_of_comb P hd t 0 s ht z hs (by simpa [add_comm] using hne)
    rw [e20, h]
    refine ⟨_, rfl, by simp [coord, add_comm], by simp [coord, add_comm], ?_⟩
    intro k hk0 hk1; fin_cases k <;> simp_all [coord]
  · have h := triplet_of_comb P hd 0 t s z ht hs (by simpa [add_comm] using hne)
    rw [e21, h]
    refine ⟨_, rfl, by simp [coord, add_comm], by simp [coord, add_comm], ?_⟩
    intro k hk0 hk1; fin_cases k <;> simp_all [coord]

/-- Two invertible triplets sharing the edge `a b` (at any row positions) both accept every direction of that
    edge and return the same gain for `a`, the same gain for `b`, and 0 for their respective third loudspeaker:
    crossing from one triplet into the other never changes the gains. -/
theorem edge_agreement (P Q : Mat3 ℝ) (hP : det3 P ≠ 0) (hQ : det3 Q ≠ 0) (i j i' j' : Fin 3) (hij : i ≠ j)
    (hij' : i' ≠ j') (ha : row P i = row Q i') (hb : row P j = row Q j') (s t : ℝ) (hs : 0 ≤ s) (ht : 0 ≤ t)
    (hne : s * s + t * t ≠ 0) :
    ∃ g g', Triplet.handle P (edgePoint s t (row P i) (row P j)) = some g ∧
      Triplet.handle Q (edgePoint s t (row P i) (row P j)) = some g' ∧
      coord g i = coord g' i' ∧ coord g j = coord g' j' ∧
      (∀ k, k ≠ i → k ≠ j → coord g k = 0) ∧ (∀ k, k ≠ i' → k ≠ j' → coord g' k = 0) := by
  obtain ⟨g, hg, gi, gj, gk⟩ := triplet_on_edge P hP i j hij s t hs ht hne
  obtain ⟨g', hg', gi', gj', gk'⟩ := triplet_on_edge Q hQ i' j' hij' s t hs ht hne
  rw [← ha, ← hb] at hg'
  exact ⟨g, g', hg, hg', by rw [gi, gi'], by rw [gj, gj'], gk, gk'⟩

/-! ### the bilinear quad on its edges (given the roots) -/

/-- `QuadRegion.handle` in closed form: the bilinear weights divided by their norm, scattered by `order`. -/
theorem quad_out_eq (q : QuadRegion ℝ) (p : Vec3 ℝ) (x y : ℝ) (out : List ℝ) (ho : isPermOfRange q.order 4 = true)
    (h : q.handle (some x) (some y) p = some out) :
    out = scatter (zeros 4) q.order ((QuadRegion.weights x y).map (· / Real.sqrt (sumsq (QuadRegion.weights x y)))) := by
  simp only [QuadRegion.handle] at h
  split at h
  · simp at h
  · simp only [Option.some.injEq] at h
    subst h
    unfold normalise norm
    have hs : sumsq (scatter (zeros 4) q.order (QuadRegion.weights x y)) = sumsq (QuadRegion.weights x y) := by
      simp only [QuadRegion.weights]
      rw [scatter4_sumsq ho]; simp [sumsq]; ring
    rw [hs, sqrt_real]
    generalize Real.sqrt (sumsq (QuadRegion.weights x y)) = m
    have hm := perm4_mem ho
    generalize q.order = o at hm ⊢
    simp only [List.mem_cons, List.mem_nil_iff, or_false] at hm
    rcases hm with rfl | rfl | rfl | rfl | rfl | rfl | rfl | rfl | rfl | rfl | rfl | rfl | rfl | rfl | rfl | rfl
        | rfl | rfl | rfl | rfl | rfl | rfl | rfl | rfl <;>
      simp [scatter, zeros, QuadRegion.weights, List.replicate]

/-- corner number `k` of the ordered quad (the `a, b, c, d` of `pan_axis`) -/
noncomputable def QuadRegion.corner (q : QuadRegion ℝ) (k : Nat) : Vec3 ℝ :=
  q.positions.getD (q.order.getD k 0) zero3

/-- On each of its four edges (one pan value 0 or 1) a quad gives `(1-w, w)/‖(1-w, w)‖` to the edge's two corners
    and exactly 0 to the other two. Corner order: 0-1 (y=0), 1-2 (x=1), 3-2 (y=1), 0-3 (x=0). -/
theorem quad_on_edge (q : QuadRegion ℝ) (p : Vec3 ℝ) (w : ℝ) (out : List ℝ) (ho : isPermOfRange q.order 4 = true) :
    let n := Real.sqrt ((1 - w) * (1 - w) + w * w)
    (q.handle (some w) (some 0) p = some out → out = scatter (zeros 4) q.order [(1 - w) / n, w / n, 0, 0]) ∧
    (q.handle (some 1) (some w) p = some out → out = scatter (zeros 4) q.order [0, (1 - w) / n, w / n, 0]) ∧
    (q.handle (some w) (some 1) p = some out → out = scatter (zeros 4) q.order [0, 0, w / n, (1 - w) / n]) ∧
    (q.handle (some 0) (some w) p = some out → out = scatter (zeros 4) q.order [(1 - w) / n, 0, 0, w / n]) := by
  intro n
  refine ⟨fun h => ?_, fun h => ?_, fun h => ?_, fun h => ?_⟩
  · rw [quad_out_eq q p w 0 out ho h]
    have : sumsq (QuadRegion.weights w (0 : ℝ)) = (1 - w) * (1 - w) + w * w := by simp [QuadRegion.weights, sumsq]
    rw [this]; simp [QuadRegion.weights, n]
  · rw [quad_out_eq q p 1 w out ho h]
    have : sumsq (QuadRegion.weights (1 : ℝ) w) = (1 - w) * (1 - w) + w * w := by simp [QuadRegion.weights, sumsq]
    rw [this]; simp [QuadRegion.weights, n]
  · rw [quad_out_eq q p w 1 out ho h]
    have : sumsq (QuadRegion.weights w (1 : ℝ)) = (1 - w) * (1 - w) + w * w := by
      simp [QuadRegion.weights, sumsq]; ring
    rw [this]; simp [QuadRegion.weights, n]
  · rw [quad_out_eq q p 0 w out ho h]
    have : sumsq (QuadRegion.weights (0 : ℝ) w) = (1 - w) * (1 - w) + w * w := by simp [QuadRegion.weights, sumsq]
    rw [this]; simp [QuadRegion.weights, n]

/-- A non-negative pair whose velocity vector is parallel to a direction of the open cone of `a`, `b` is, after
    normalisation, the VBAP pair of that direction. -/
theorem pair_agree (a b : Vec3 ℝ) (hab : cross3 a b ≠ (0, 0, 0)) (s t u v : ℝ) (hs : 0 < s) (ht : 0 < t)
    (hu : 0 ≤ u) (hv : 0 ≤ v) (huv : 0 < u * u + v * v)
    (hcol : cross3 (edgePoint u v a b) (edgePoint s t a b) = (0, 0, 0)) :
    u / Real.sqrt (u * u + v * v) = s / Real.sqrt (s * s + t * t) ∧
      v / Real.sqrt (u * u + v * v) = t / Real.sqrt (s * s + t * t) := by
  set m := Real.sqrt (u * u + v * v) with hm
  have hmpos : 0 < m := Real.sqrt_pos.mpr huv
  have hmm : m * m = u * u + v * v := Real.mul_self_sqrt huv.le
  rw [cross_edge] at hcol
  have hk := smul3_eq_zero hcol hab
  obtain ⟨e1, e2, e3, e4⟩ := edge_exists a b s t hs ht
  exact edge_unique a b hab s t hs ht (u / m) (v / m) _ _
    (div_nonneg hu hmpos.le) (div_nonneg hv hmpos.le) e1 e2 (by field_simp; nlinarith [hmm]) e3
    (by
      rw [cross_edge]
      have : u / m * t - v / m * s = (u * t - v * s) / m := by field_simp
      rw [this, hk]; simp [smul3])
    e4

/-- Agreement of the bilinear quad with VBAP on a shared edge (stated for the edge between corners 0 and 1,
    `y = 0`): if the direction lies in the open cone of the two corners and the quad's velocity vector
    `(1-x)·a + x·b` is parallel to the direction (which is what the selected root `x` stands for — the root selection
    of np.roots is a parameter of the model), then the quad returns exactly the pair `(s, t)/‖(s, t)‖` on those two
    corners — the pair every invertible triplet with the same edge returns (`triplet_on_edge`) — and 0 elsewhere. -/
theorem quad_edge_agreement (q : QuadRegion ℝ) (x s t : ℝ) (out : List ℝ) (ho : isPermOfRange q.order 4 = true)
    (hx0 : 0 ≤ x) (hx1 : x ≤ 1) (hs : 0 < s) (ht : 0 < t) (hab : cross3 (q.corner 0) (q.corner 1) ≠ (0, 0, 0))
    (hcol : cross3 (edgePoint (1 - x) x (q.corner 0) (q.corner 1)) (edgePoint s t (q.corner 0) (q.corner 1)) = (0, 0, 0))
    (h : q.handle (some x) (some 0) (edgePoint s t (q.corner 0) (q.corner 1)) = some out) :
    out = scatter (zeros 4) q.order [s / Real.sqrt (s * s + t * t), t / Real.sqrt (s * s + t * t), 0, 0] := by
  rw [(quad_on_edge q _ x out ho).1 h]
  have hpos : 0 < (1 - x) * (1 - x) + x * x := by nlinarith [mul_self_nonneg (1 - x), mul_self_nonneg x]
  obtain ⟨h1, h2⟩ := pair_agree _ _ hab s t (1 - x) x hs ht (by linarith) hx0 hpos hcol
  simp only [h1, h2]

/-- The same on the other three edges: corners 1-2 (`x = 1`), 3-2 (`y = 1`), 0-3 (`x = 0`). -/
theorem quad_edge_agreement' (q : QuadRegion ℝ) (w s t : ℝ) (out : List ℝ) (ho : isPermOfRange q.order 4 = true)
    (hw0 : 0 ≤ w) (hw1 : w ≤ 1) (hs : 0 < s) (ht : 0 < t) :
    (cross3 (q.corner 1) (q.corner 2) ≠ (0, 0, 0) →
      cross3 (edgePoint (1 - w) w (q.corner 1) (q.corner 2)) (edgePoint s t (q.corner 1) (q.corner 2)) = (0, 0, 0) →
      q.handle (some 1) (some w) (edgePoint s t (q.corner 1) (q.corner 2)) = some out →
      out = scatter (zeros 4) q.order [0, s / Real.sqrt (s * s + t * t), t / Real.sqrt (s * s + t * t), 0]) ∧
    (cross3 (q.corner 3) (q.corner 2) ≠ (0, 0, 0) →
      cross3 (edgePoint (1 - w) w (q.corner 3) (q.corner 2)) (edgePoint s t (q.corner 3) (q.corner 2)) = (0, 0, 0) →
      q.handle (some w) (some 1) (edgePoint s t (q.corner 3) (q.corner 2)) = some out →
      out = scatter (zeros 4) q.order [0, 0, t / Real.sqrt (s * s + t * t), s / Real.sqrt (s * s + t * t)]) ∧
    (cross3 (q.corner 0) (q.corner 3) ≠ (0, 0, 0) →
      cross3 (edgePoint (1 - w) w (q.corner 0) (q.corner 3)) (edgePoint s t (q.corner 0) (q.corner 3)) = (0, 0, 0) →
      q.handle (some 0) (some w) (edgePoint s t (q.corner 0) (q.corner 3)) = some out →
      out = scatter (zeros 4) q.order [s / Real.sqrt (s * s + t * t), 0, 0, t / Real.sqrt (s * s + t * t)]) := by
  have hpos : 0 < (1 - w) * (1 - w) + w * w := by nlinarith [mul_self_nonneg (1 - w), mul_self_nonneg w]
  refine ⟨fun hab hcol h => ?_, fun hab hcol h => ?_, fun hab hcol h => ?_⟩
  · rw [(quad_on_edge q _ w out ho).2.1 h]
    obtain ⟨h1, h2⟩ := pair_agree _ _ hab s t (1 - w) w hs ht (by linarith) hw0 hpos hcol
    simp only [h1, h2]
  · rw [(quad_on_edge q _ w out ho).2.2.1 h]
    obtain ⟨h1, h2⟩ := pair_agree _ _ hab s t (1 - w) w hs ht (by linarith) hw0 hpos hcol
    simp only [h1, h2]
  · rw [(quad_on_edge q _ w out ho).2.2.2 h]
    obtain ⟨h1, h2⟩ := pair_agree _ _ hab s t (1 - w) w hs ht (by linarith) hw0 hpos hcol
    simp only [h1, h2]

/-! ### the virtual n-gon on its outer edges -/

theorem sumsq_replicate_zero (n : Nat) : sumsq (List.replicate n (0 : ℝ)) = 0 := by
  induction n with
  | zero => simp [sumsq]
  | succ k ih => simp [List.replicate_succ, sumsq, ih]

theorem sumsq_set : ∀ (l : List ℝ) (i : Nat) (x : ℝ), i < l.length →
    sumsq (l.set i x) = sumsq l - l.getD i 0 * l.getD i 0 + x * x
  | [], i, x, h => by simp at h
  | y :: ys, 0, x, _ => by simp [sumsq]; ring
  | y :: ys, i + 1, x, h => by
    have := sumsq_set ys i x (by simpa using h)
    simp only [List.set_cons_succ, sumsq, this, List.getD_cons_succ]
    ring

theorem zipWith_add_zero : ∀ (v cd : List ℝ), v.length ≤ cd.length →
    List.zipWith (fun x d => x + 0 * d) v cd = v
  | [], _, _ => by simp
  | x :: xs, [], h => by simp at h
  | x :: xs, d :: ds, h => by
    simp only [List.zipWith_cons_cons, zero_mul, add_zero, List.cons.injEq, true_and]
    have := zipWith_add_zero xs ds (by simpa using h)
    simpa using this

/-- the candidate answer of one inner triplet `r` of a virtual n-gon -/
noncomputable def VirtualNgon.candidate (g : VirtualNgon ℝ) (r : List Nat × Mat3 ℝ) (p : Vec3 ℝ) : Option (List ℝ) :=
  (remap r.1 (g.centreDownmix.length + 1) ((Triplet.handle r.2 p).map vecList)).map (VirtualNgon.mix g.centreDownmix)

theorem ngon_handle_eq (g : VirtualNgon ℝ) (p : Vec3 ℝ) :
    g.handle p = firstAccept (g.regions.map fun r => g.candidate r p) := rfl

/-- On the outer edge between two consecutive vertices `oi`, `oj` of a virtual n-gon, the inner triplet
    `(oi, oj, centre)` answers with exactly the VBAP pair `(s, t)/‖(s, t)‖` on `oi`, `oj` and 0 on every other
    loudspeaker: nothing is sent to the virtual centre, so the centre downmix and the renormalisation change
    nothing. -/
theorem ngon_candidate_on_edge (g : VirtualNgon ℝ) (oi oj : Nat) (P : Mat3 ℝ) (hd : det3 P ≠ 0)
    (hij : oi ≠ oj) (hi : oi < g.centreDownmix.length) (hj : oj < g.centreDownmix.length)
    (s t : ℝ) (hs : 0 ≤ s) (ht : 0 ≤ t) (hne : s * s + t * t ≠ 0) :
    g.candidate ([oi, oj, g.centreDownmix.length], P) (edgePoint s t P.1 P.2.1) =
      some (((zeros g.centreDownmix.length).set oi (s / Real.sqrt (s * s + t * t))).set oj
        (t / Real.sqrt (s * s + t * t))) := by
  set n := g.centreDownmix.length with hn
  set r := Real.sqrt (s * s + t * t) with hr
  have hpos : 0 < s * s + t * t := lt_of_le_of_ne (by nlinarith [mul_self_nonneg s, mul_self_nonneg t]) (Ne.symm hne)
  have hrpos : 0 < r := Real.sqrt_pos.mpr hpos
  have hrr : r * r = s * s + t * t := Real.mul_self_sqrt hpos.le
  have hp : edgePoint s t P.1 P.2.1 = comb3 s t 0 P := (comb3_edge P s t).1
  have hh := triplet_of_comb P hd s t 0 hs ht (le_refl _) (by simpa using hne)
  simp only [mul_zero, add_zero] at hh
  unfold VirtualNgon.candidate
  simp only [hp, hh, Option.map_some, remap, vecList, scatter, zero_div]
  congr 1
  unfold VirtualNgon.mix
  simp only [← hn]
  have hlen : ∀ (l : List ℝ) a b c, (((l.set oi a).set oj b).set n c).length = l.length := by simp
  have hlast : ((((zeros (n + 1) : List ℝ).set oi (s / r)).set oj (t / r)).set n 0).getD n zero = 0 := by
    simp [zeros, List.getD_eq_getElem?_getD]
  rw [hlast]
  have htake : ((((zeros (n + 1) : List ℝ).set oi (s / r)).set oj (t / r)).set n 0).take n
      = ((zeros n : List ℝ).set oi (s / r)).set oj (t / r) := by
    simp only [List.take_set, zeros, List.take_replicate]
    have : min n (n + 1) = n := by omega
    rw [this]
    apply List.set_eq_of_length_le; simp
  rw [htake, zipWith_add_zero _ _ (by simp [zeros, hn])]
  have hss : sumsq (((zeros n : List ℝ).set oi (s / r)).set oj (t / r)) = 1 := by
    rw [sumsq_set _ _ _ (by simp [zeros]; exact hj), sumsq_set _ _ _ (by simp [zeros]; exact hi)]
    have h0 : ((zeros n : List ℝ).set oi (s / r)).getD oj 0 = 0 := by
      simp [zeros, List.getD_eq_getElem?_getD, hij, hj]
    have h1 : (zeros n : List ℝ).getD oi 0 = 0 := by simp [zeros, List.getD_eq_getElem?_getD, hi]
    rw [h0, h1]
    simp only [zeros, zero_real, sumsq_replicate_zero]
    field_simp
    nlinarith [hrr]
  unfold normalise norm
  rw [hss, sqrt_real, Real.sqrt_one]
  simp

theorem firstAccept_skip {γ : Type} : ∀ (pre : List (Option γ)) (rest : List (Option γ)),
    (∀ r ∈ pre, r = none) → firstAccept (pre ++ rest) = firstAccept rest
  | [], _, _ => rfl
  | x :: xs, rest, h => by
    have hx : x = none := h x (by simp)
    subst hx
    simp only [List.cons_append, firstAccept]
    exact firstAccept_skip xs rest (fun r hr => h r (by simp [hr]))

/-- n-gon version of edge agreement: if the inner triplets tried before `(oi, oj, centre)` reject the direction,
    the virtual n-gon returns on its outer edge `oi`-`oj` exactly the pair `(s, t)/‖(s, t)‖` that every invertible
    triplet with the same edge returns (`triplet_on_edge`), and 0 on its other loudspeakers.  (Without the hypothesis
    on the earlier triplets the statement is false in exact arithmetic: within 1e-11 of a vertex a neighbouring inner
    triplet may accept first and differ by O(1e-11) — the acceptance slack; that is searched, not proved.) -/
theorem ngon_on_edge (g : VirtualNgon ℝ) (oi oj : Nat) (P : Mat3 ℝ) (pre post : List (List Nat × Mat3 ℝ))
    (hreg : g.regions = pre ++ ([oi, oj, g.centreDownmix.length], P) :: post) (hd : det3 P ≠ 0)
    (hij : oi ≠ oj) (hi : oi < g.centreDownmix.length) (hj : oj < g.centreDownmix.length)
    (s t : ℝ) (hs : 0 ≤ s) (ht : 0 ≤ t) (hne : s * s + t * t ≠ 0)
    (hpre : ∀ r ∈ pre, g.candidate r (edgePoint s t P.1 P.2.1) = none) :
    g.handle (edgePoint s t P.1 P.2.1) =
      some (((zeros g.centreDownmix.length).set oi (s / Real.sqrt (s * s + t * t))).set oj
        (t / Real.sqrt (s * s + t * t))) := by
  rw [ngon_handle_eq, hreg, List.map_append, firstAccept_skip _ _ (by
    intro r hr
    obtain ⟨r', hr', rfl⟩ := List.mem_map.mp hr
    exact hpre r' hr')]
  simp only [List.map_cons, ngon_candidate_on_edge g oi oj P hd hij hi hj s t hs ht hne, firstAccept]

/-! ### why edge agreement cannot extend to global continuity: a non-planar quad is two-valued

    Kernel-checked counter-example inside the model.  For a non-planar quad the ray of a direction can meet the bilinear
    surface twice inside the patch: both quadratics of `pan_axis` then have two roots in [0, 1], both root pairs pass the
    acceptance test of `QuadRegion.handle`, and the two answers differ.  The real code takes "the first root in range"
    in the order np.roots returns them, so which answer is given can change between neighbouring directions
    (known finding `quad-two-in-range-roots`, reproduced on the real code by harness/c12.py). -/

/-- a non-planar ("twisted") quad with rational corners: z alternates 1, -1/2, 1, -1/2 around the square -/
noncomputable def twistedQuad : QuadRegion ℝ :=
  ⟨[(-1/2, -1/2, 1), (1/2, -1/2, -1/2), (1/2, 1/2, 1), (-1/2, 1/2, -1/2)], [0, 1, 2, 3]⟩

/-- ... and a direction whose ray meets the quad's bilinear surface twice -/
noncomputable def twistedDir : Vec3 ℝ := (1, 1, 7/4)

theorem quad_two_valued_witness :
    -- both pan_axis quadratics at this direction are genuine quadratics with the two roots 3/4 and 5/6, both inside [0, 1]
    (let P := (twistedQuad.polys twistedDir).1
     P.1 ≠ 0 ∧ P.1 * (3/4) ^ 2 + P.2.1 * (3/4) + P.2.2 = 0 ∧ P.1 * (5/6) ^ 2 + P.2.1 * (5/6) + P.2.2 = 0) ∧
    (let P := (twistedQuad.polys twistedDir).2
     P.1 ≠ 0 ∧ P.1 * (3/4) ^ 2 + P.2.1 * (3/4) + P.2.2 = 0 ∧ P.1 * (5/6) ^ 2 + P.2.1 * (5/6) + P.2.2 = 0) ∧
    -- both root pairs give bilinear weights whose velocity vector is a POSITIVE multiple of the direction
    comb (QuadRegion.weights (3/4 : ℝ) (3/4)) twistedQuad.positions = smul3 (1/4) twistedDir ∧
    comb (QuadRegion.weights (5/6 : ℝ) (5/6)) twistedQuad.positions = smul3 (1/3) twistedDir ∧
    -- so `QuadRegion.handle` accepts the direction with either pair, and the two answers differ
    ∃ g1 g2, twistedQuad.handle (some (3/4)) (some (3/4)) twistedDir = some g1 ∧
      twistedQuad.handle (some (5/6)) (some (5/6)) twistedDir = some g2 ∧
      g1.getD 2 0 = 9 * g1.getD 0 0 ∧ g2.getD 2 0 = 25 * g2.getD 0 0 ∧ 0 < g1.getD 0 0 ∧ 0 < g2.getD 0 0 ∧ g1 ≠ g2 := by
  refine ⟨?_, ?_, ?_, ?_, ?_⟩
  · simp only [QuadRegion.polys, QuadRegion.panPoly, twistedQuad, twistedDir, List.getD_cons_zero, List.getD_cons_succ,
      dot3, cross3, sub3, add3]
    norm_num
  · simp only [QuadRegion.polys, QuadRegion.panPoly, twistedQuad, twistedDir, List.getD_cons_zero, List.getD_cons_succ,
      dot3, cross3, sub3, add3]
    norm_num
  · simp only [comb, QuadRegion.weights, twistedQuad, twistedDir, add3, smul3, zero3, one_real, zero_real]
    norm_num
  · simp only [comb, QuadRegion.weights, twistedQuad, twistedDir, add3, smul3, zero3, one_real, zero_real]
    norm_num
  · have hs1 : scatter (zeros 4) twistedQuad.order (QuadRegion.weights (3/4 : ℝ) (3/4)) = [1/16, 3/16, 9/16, 3/16] := by
      simp only [twistedQuad, scatter, zeros, QuadRegion.weights, one_real, zero_real, List.replicate, List.set]
      norm_num
    have hs2 : scatter (zeros 4) twistedQuad.order (QuadRegion.weights (5/6 : ℝ) (5/6)) = [1/36, 5/36, 25/36, 5/36] := by
      simp only [twistedQuad, scatter, zeros, QuadRegion.weights, one_real, zero_real, List.replicate, List.set]
      norm_num
    have ha1 : ¬ dot3 (comb ([1/16, 3/16, 9/16, 3/16] : List ℝ) twistedQuad.positions) twistedDir ≤ zero := by
      simp only [comb, twistedQuad, twistedDir, add3, smul3, zero3, dot3, zero_real]
      norm_num
    have ha2 : ¬ dot3 (comb ([1/36, 5/36, 25/36, 5/36] : List ℝ) twistedQuad.positions) twistedDir ≤ zero := by
      simp only [comb, twistedQuad, twistedDir, add3, smul3, zero3, dot3, zero_real]
      norm_num
    have hn1 : 0 < norm ([1/16, 3/16, 9/16, 3/16] : List ℝ) := by
      simp only [norm, sqrt_real, sumsq, zero_real]; apply Real.sqrt_pos.mpr; norm_num
    have hn2 : 0 < norm ([1/36, 5/36, 25/36, 5/36] : List ℝ) := by
      simp only [norm, sqrt_real, sumsq, zero_real]; apply Real.sqrt_pos.mpr; norm_num
    refine ⟨normalise [1/16, 3/16, 9/16, 3/16], normalise [1/36, 5/36, 25/36, 5/36], ?_, ?_, ?_, ?_, ?_, ?_, ?_⟩
    · simp only [QuadRegion.handle, hs1, if_neg ha1]
    · simp only [QuadRegion.handle, hs2, if_neg ha2]
    · simp only [normalise, List.map_cons, List.map_nil, List.getD_cons_zero, List.getD_cons_succ]; ring
    · simp only [normalise, List.map_cons, List.map_nil, List.getD_cons_zero, List.getD_cons_succ]; ring
    · simp only [normalise, List.map_cons, List.getD_cons_zero]; positivity
    · simp only [normalise, List.map_cons, List.getD_cons_zero]; positivity
    · intro h
      have h0 : (normalise ([1/16, 3/16, 9/16, 3/16] : List ℝ)).getD 0 0 = (normalise ([1/36, 5/36, 25/36, 5/36] : List ℝ)).getD 0 0 := by rw [h]
      have h2 : (normalise ([1/16, 3/16, 9/16, 3/16] : List ℝ)).getD 2 0 = (normalise ([1/36, 5/36, 25/36, 5/36] : List ℝ)).getD 2 0 := by rw [h]
      simp only [normalise, List.map_cons, List.map_nil, List.getD_cons_zero, List.getD_cons_succ] at h0 h2
      have p1 : (0 : ℝ) < 1 / 16 / norm ([1/16, 3/16, 9/16, 3/16] : List ℝ) := by positivity
      have e1 : (9 / 16 : ℝ) / norm ([1/16, 3/16, 9/16, 3/16] : List ℝ) = 9 * (1 / 16 / norm ([1/16, 3/16, 9/16, 3/16] : List ℝ)) := by ring
      have e2 : (25 / 36 : ℝ) / norm ([1/36, 5/36, 25/36, 5/36] : List ℝ) = 25 * (1 / 36 / norm ([1/36, 5/36, 25/36, 5/36] : List ℝ)) := by ring
      rw [e1, e2, ← h0] at h2
      linarith

/-! ### piecewise continuity -/

theorem continuous_clip01 : Continuous (clip01 : ℝ → ℝ) := by
  have : (clip01 : ℝ → ℝ) = fun x => min (max x 0) 1 := by
    funext x; simp [clip01]
  rw [this]
  exact (continuous_id.max continuous_const).min continuous_const

theorem continuous_pv (P : Mat3 ℝ) : Continuous (fun p : Vec3 ℝ => Triplet.pv P p) := by
  obtain ⟨⟨a0, a1, a2⟩, ⟨b0, b1, b2⟩, ⟨c0, c1, c2⟩⟩ := P
  simp only [Triplet.pv, vecMat, inv3]
  fun_prop

/-- normalise-and-clip as a function of the un-normalised gains -/
noncomputable def normClip (v : Vec3 ℝ) : Vec3 ℝ :=
  (clip01 (v.1 / Real.sqrt (v.1 * v.1 + v.2.1 * v.2.1 + v.2.2 * v.2.2)),
   clip01 (v.2.1 / Real.sqrt (v.1 * v.1 + v.2.1 * v.2.1 + v.2.2 * v.2.2)),
   clip01 (v.2.2 / Real.sqrt (v.1 * v.1 + v.2.1 * v.2.1 + v.2.2 * v.2.2)))

theorem gains_eq_normClip (P : Mat3 ℝ) (p : Vec3 ℝ) : Triplet.gains P p = normClip (Triplet.pv P p) := rfl

theorem sqrt_ne_zero_of_ne {v : Vec3 ℝ} (hv : v ≠ (0, 0, 0)) :
    Real.sqrt (v.1 * v.1 + v.2.1 * v.2.1 + v.2.2 * v.2.2) ≠ 0 := by
  obtain ⟨x, y, z⟩ := v
  simp only
  have h0 : 0 ≤ x * x + y * y + z * z := by nlinarith [mul_self_nonneg x, mul_self_nonneg y, mul_self_nonneg z]
  intro h
  have hz := (Real.sqrt_eq_zero h0).mp h
  apply hv
  have hx : x * x = 0 := by nlinarith [mul_self_nonneg x, mul_self_nonneg y, mul_self_nonneg z]
  have hy : y * y = 0 := by nlinarith [mul_self_nonneg x, mul_self_nonneg y, mul_self_nonneg z]
  have hz' : z * z = 0 := by nlinarith [mul_self_nonneg x, mul_self_nonneg y, mul_self_nonneg z]
  rw [mul_self_eq_zero.mp hx, mul_self_eq_zero.mp hy, mul_self_eq_zero.mp hz']

theorem continuousOn_normClip : ContinuousOn normClip {v : Vec3 ℝ | v ≠ (0, 0, 0)} := by
  have hn : ContinuousOn (fun v : Vec3 ℝ => Real.sqrt (v.1 * v.1 + v.2.1 * v.2.1 + v.2.2 * v.2.2))
      {v : Vec3 ℝ | v ≠ (0, 0, 0)} := by
    apply Continuous.continuousOn; fun_prop
  have hne : ∀ v ∈ {v : Vec3 ℝ | v ≠ (0, 0, 0)},
      Real.sqrt (v.1 * v.1 + v.2.1 * v.2.1 + v.2.2 * v.2.2) ≠ 0 := fun v hv => sqrt_ne_zero_of_ne hv
  unfold normClip
  refine ContinuousOn.prodMk ?_ (ContinuousOn.prodMk ?_ ?_)
  · exact continuous_clip01.comp_continuousOn ((continuous_fst.continuousOn).div hn hne)
  · exact continuous_clip01.comp_continuousOn (((continuous_fst.comp continuous_snd).continuousOn).div hn hne)
  · exact continuous_clip01.comp_continuousOn (((continuous_snd.comp continuous_snd).continuousOn).div hn hne)

/-- The gains of a triplet are a continuous function of the direction wherever the un-normalised gains are not
    the zero vector (for an invertible `P`: for every `p ≠ 0`). -/
theorem triplet_continuousOn (P : Mat3 ℝ) :
    ContinuousOn (fun p : Vec3 ℝ => Triplet.gains P p) {p | Triplet.pv P p ≠ (0, 0, 0)} := by
  have h : (fun p : Vec3 ℝ => Triplet.gains P p) = normClip ∘ (fun p => Triplet.pv P p) := by
    funext p; exact gains_eq_normClip P p
  rw [h]
  exact continuousOn_normClip.comp (continuous_pv P).continuousOn (fun p hp => hp)

/-- On its acceptance set the triplet's answer IS that continuous function (and outside it is "no result"). -/
theorem triplet_handle_continuousOn (P : Mat3 ℝ) :
    ∃ G : Vec3 ℝ → Vec3 ℝ, ContinuousOn G {p | Triplet.pv P p ≠ (0, 0, 0)} ∧
      (∀ p, Triplet.accepts P p → Triplet.handle P p = some (G p)) ∧
      (∀ p, ¬ Triplet.accepts P p → Triplet.handle P p = none) :=
  ⟨fun p => Triplet.gains P p, triplet_continuousOn P,
    fun p hp => by simp [Triplet.handle, hp], fun p hp => by simp [Triplet.handle, hp]⟩

/-! ### stereo wrapper -/

/-- the two outputs of `StereoPanDownmix.handle` as explicit real functions of the five inner gains -/
noncomputable def stereoL (g : ℝ × ℝ × ℝ × ℝ × ℝ) : ℝ :=
  let A := g.1 + Real.sqrt 3 / 3 * g.2.2.1 + Real.sqrt (1 / 2) * g.2.2.2.1
  let B := g.2.1 + Real.sqrt 3 / 3 * g.2.2.1 + Real.sqrt (1 / 2) * g.2.2.2.2
  A / Real.sqrt (A * A + (B * B + 0)) *
    (1 / 2 : ℝ) ^ (1 / 2 * max g.2.2.2.1 g.2.2.2.2 / (max (max g.1 g.2.1) g.2.2.1 + max g.2.2.2.1 g.2.2.2.2))

noncomputable def stereoR (g : ℝ × ℝ × ℝ × ℝ × ℝ) : ℝ :=
  let A := g.1 + Real.sqrt 3 / 3 * g.2.2.1 + Real.sqrt (1 / 2) * g.2.2.2.1
  let B := g.2.1 + Real.sqrt 3 / 3 * g.2.2.1 + Real.sqrt (1 / 2) * g.2.2.2.2
  B / Real.sqrt (A * A + (B * B + 0)) *
    (1 / 2 : ℝ) ^ (1 / 2 * max g.2.2.2.1 g.2.2.2.2 / (max (max g.1 g.2.1) g.2.2.1 + max g.2.2.2.1 g.2.2.2.2))

theorem stereo_handle_eq (g0 g1 g2 g3 g4 : ℝ) :
    StereoPanDownmix.handle (some [g0, g1, g2, g3, g4]) =
      some [stereoL (g0, g1, g2, g3, g4), stereoR (g0, g1, g2, g3, g4)] := by
  have hcast : (((1 / 2 : Rat)) : ℝ) = 1 / 2 := by push_cast; rfl
  simp only [StereoPanDownmix.handle, stereo_matVec, normalise, norm, sumsq, List.map_cons, List.map_nil,
    sqrt_real, zero_real, powHalf_real, max_real, ofRat_real, hcast, stereoL, stereoR]

/-- the set of non-negative, not all zero inner gain vectors -/
def stereoDomain : Set (ℝ × ℝ × ℝ × ℝ × ℝ) :=
  {g | 0 ≤ g.1 ∧ 0 ≤ g.2.1 ∧ 0 ≤ g.2.2.1 ∧ 0 ≤ g.2.2.2.1 ∧ 0 ≤ g.2.2.2.2 ∧ g ≠ (0, 0, 0, 0, 0)}

theorem stereo_aux {g : ℝ × ℝ × ℝ × ℝ × ℝ} (hg : g ∈ stereoDomain) :
    let A := g.1 + Real.sqrt 3 / 3 * g.2.2.1 + Real.sqrt (1 / 2) * g.2.2.2.1
    let B := g.2.1 + Real.sqrt 3 / 3 * g.2.2.1 + Real.sqrt (1 / 2) * g.2.2.2.2
    Real.sqrt (A * A + (B * B + 0)) ≠ 0 ∧ max (max g.1 g.2.1) g.2.2.1 + max g.2.2.2.1 g.2.2.2.2 ≠ 0 := by
  obtain ⟨g0, g1, g2, g3, g4⟩ := g
  obtain ⟨h0, h1, h2, h3, h4, hne⟩ := hg
  simp only at h0 h1 h2 h3 h4 ⊢
  have hcpos : (0 : ℝ) < Real.sqrt 3 / 3 := div_pos (Real.sqrt_pos.mpr (by norm_num)) (by norm_num)
  have hspos : (0 : ℝ) < Real.sqrt (1 / 2) := Real.sqrt_pos.mpr (by norm_num)
  -- some gain is positive
  have hsum : 0 < g0 + g1 + g2 + g3 + g4 := by
    rcases (lt_or_eq_of_le (by linarith : 0 ≤ g0 + g1 + g2 + g3 + g4)) with h | h
    · exact h
    · exfalso; apply hne
      have e0 : g0 = 0 := by linarith
      have e1 : g1 = 0 := by linarith
      have e2 : g2 = 0 := by linarith
      have e3 : g3 = 0 := by linarith
      have e4 : g4 = 0 := by linarith
      rw [e0, e1, e2, e3, e4]
  constructor
  · set c := Real.sqrt 3 / 3
    set s := Real.sqrt (1 / 2)
    have hA : 0 ≤ g0 + c * g2 + s * g3 := by have := mul_nonneg hcpos.le h2; have := mul_nonneg hspos.le h3; linarith
    have hB : 0 ≤ g1 + c * g2 + s * g4 := by have := mul_nonneg hcpos.le h2; have := mul_nonneg hspos.le h4; linarith
    have hAB : 0 < (g0 + c * g2 + s * g3) + (g1 + c * g2 + s * g4) := by
      by_contra hle
      have hz : (g0 + c * g2 + s * g3) + (g1 + c * g2 + s * g4) = 0 := by linarith
      have := mul_nonneg hcpos.le h2; have := mul_nonneg hspos.le h3; have := mul_nonneg hspos.le h4
      have e0 : g0 = 0 := by linarith
      have e1 : g1 = 0 := by linarith
      have e2 : c * g2 = 0 := by linarith
      have e3 : s * g3 = 0 := by linarith
      have e4 : s * g4 = 0 := by linarith
      have e2' : g2 = 0 := (mul_eq_zero.mp e2).resolve_left hcpos.ne'
      have e3' : g3 = 0 := (mul_eq_zero.mp e3).resolve_left hspos.ne'
      have e4' : g4 = 0 := (mul_eq_zero.mp e4).resolve_left hspos.ne'
      rw [e0, e1, e2', e3', e4'] at hsum
      norm_num at hsum
    apply (Real.sqrt_pos.mpr _).ne'
    have key : ∀ X Y : ℝ, 0 ≤ X → 0 ≤ Y → 0 < X + Y → 0 < X * X + (Y * Y + 0) := by
      intro X Y hX hY hXY
      rcases lt_or_eq_of_le hX with h | h
      · have := mul_pos h h; nlinarith [mul_self_nonneg Y]
      · have hY' : 0 < Y := by linarith
        have := mul_pos hY' hY'; nlinarith [mul_self_nonneg X]
    exact key _ _ hA hB hAB
  · have hf : 0 ≤ max (max g0 g1) g2 := le_trans h2 (le_max_right _ _)
    have hb : 0 ≤ max g3 g4 := le_trans h4 (le_max_right _ _)
    intro hz
    have hf0 : max (max g0 g1) g2 = 0 := by linarith
    have hb0 : max g3 g4 = 0 := by linarith
    have : g0 ≤ 0 := le_trans (le_trans (le_max_left _ _) (le_max_left _ _)) hf0.le
    have : g1 ≤ 0 := le_trans (le_trans (le_max_right _ _) (le_max_left _ _)) hf0.le
    have : g2 ≤ 0 := le_trans (le_max_right _ _) hf0.le
    have : g3 ≤ 0 := le_trans (le_max_left _ _) hb0.le
    have : g4 ≤ 0 := le_trans (le_max_right _ _) hb0.le
    linarith

/-- The stereo wrapper's two outputs are continuous functions of the (non-negative, non-zero) inner gains: the
    level law `0.5^(0.5·back/(front+back))` depends continuously on the front/back balance. -/
theorem stereo_continuousOn :
    (∀ g0 g1 g2 g3 g4 : ℝ, StereoPanDownmix.handle (some [g0, g1, g2, g3, g4]) =
      some [stereoL (g0, g1, g2, g3, g4), stereoR (g0, g1, g2, g3, g4)]) ∧
    ContinuousOn stereoL stereoDomain ∧ ContinuousOn stereoR stereoDomain := by
  refine ⟨stereo_handle_eq, ?_, ?_⟩
  · unfold stereoL
    refine ContinuousOn.mul (ContinuousOn.div (by fun_prop) (by fun_prop) (fun g hg => (stereo_aux hg).1)) ?_
    refine (Real.continuous_const_rpow (by norm_num)).comp_continuousOn ?_
    exact ContinuousOn.div (by fun_prop) (by fun_prop) (fun g hg => (stereo_aux hg).2)
  · unfold stereoR
    refine ContinuousOn.mul (ContinuousOn.div (by fun_prop) (by fun_prop) (fun g hg => (stereo_aux hg).1)) ?_
    refine (Real.continuous_const_rpow (by norm_num)).comp_continuousOn ?_
    exact ContinuousOn.div (by fun_prop) (by fun_prop) (fun g hg => (stereo_aux hg).2)

/-! ### downmix wrapper -/

theorem continuous_dot_ofFn {m : Nat} : ∀ (row : List ℝ), Continuous (fun v : Fin m → ℝ => dot row (List.ofFn v)) := by
  induction m with
  | zero => intro row; cases row <;> simp [dot] <;> exact continuous_const
  | succ k ih =>
    intro row
    cases row with
    | nil => simp only [dot]; exact continuous_const
    | cons x xs =>
      simp only [List.ofFn_succ, dot]
      refine (continuous_const.mul (continuous_apply 0)).add ?_
      exact (ih xs).comp (continuous_pi fun i => continuous_apply (Fin.succ i))

theorem continuous_sumsq_matVec {m : Nat} : ∀ (D : List (List ℝ)),
    Continuous (fun v : Fin m → ℝ => sumsq (matVec D (List.ofFn v)))
  | [] => by simp only [matVec, List.map_nil, sumsq]; exact continuous_const
  | row :: rest => by
    have ih := continuous_sumsq_matVec (m := m) rest
    simp only [matVec, List.map_cons, sumsq] at ih ⊢
    exact ((continuous_dot_ofFn row).mul (continuous_dot_ofFn row)).add ih

/-- PointSourcePannerDownmix: every output coordinate is a continuous function of the inner gain vector wherever
    the downmixed vector is not zero. (Lists carry no topology: the inner vector is `List.ofFn v`, `v : Fin m → ℝ`.) -/
theorem downmix_continuousOn {m : Nat} (D : List (List ℝ)) (i : Nat) :
    (∀ v : Fin m → ℝ, PointSourcePannerDownmix.handle D (some (List.ofFn v)) =
      some ((matVec D (List.ofFn v)).map (· / Real.sqrt (sumsq (matVec D (List.ofFn v)))))) ∧
    ContinuousOn (fun v : Fin m → ℝ => dot (D.getD i []) (List.ofFn v) / Real.sqrt (sumsq (matVec D (List.ofFn v))))
      {v | sumsq (matVec D (List.ofFn v)) ≠ 0} := by
  refine ⟨fun v => by simp [PointSourcePannerDownmix.handle, normalise, norm], ?_⟩
  refine ContinuousOn.div (continuous_dot_ofFn _).continuousOn (continuous_sumsq_matVec D).sqrt.continuousOn ?_
  intro v hv
  have h0 := sumsq_nonneg (matVec D (List.ofFn v))
  exact (Real.sqrt_pos.mpr (lt_of_le_of_ne h0 (Ne.symm hv))).ne'

/-! ### non-vacuity -/

example : cross3 ((1 : ℝ), 0, 0) (0, 1, 0) ≠ (0, 0, 0) := by norm_num [cross3]
example : ((1 : ℝ), 1, 0) ∈ {p | Triplet.pv (((1 : ℝ), 0, 0), (0, 1, 0), (0, 0, 1)) p ≠ (0, 0, 0)} := by
  simp [Triplet.pv, vecMat, inv3, det3]
example : ((1 : ℝ), 0, 0, 0, 0) ∈ stereoDomain := by simp [stereoDomain]

/-- PARTIAL (see the header): piecewise continuity + agreement on shared edges. -/
theorem C12_partial :
    (type_of% @edge_unique) ∧ (type_of% @edge_exists) ∧ (type_of% @triplet_on_edge) ∧ (type_of% @edge_agreement) ∧
    (type_of% @triplet_continuousOn) ∧ (type_of% @triplet_handle_continuousOn) ∧ (type_of% @stereo_continuousOn) ∧
    (type_of% @downmix_continuousOn) ∧ (type_of% @quad_on_edge) ∧ (type_of% @quad_edge_agreement) ∧
    (type_of% @quad_edge_agreement') ∧ (type_of% @ngon_candidate_on_edge) ∧ (type_of% @ngon_on_edge) :=
  ⟨@edge_unique, @edge_exists, @triplet_on_edge, @edge_agreement, @triplet_continuousOn,
    @triplet_handle_continuousOn, @stereo_continuousOn, @downmix_continuousOn, @quad_on_edge, @quad_edge_agreement,
    @quad_edge_agreement', @ngon_candidate_on_edge, @ngon_on_edge⟩

end Earverif.PointSource
