/-
Reading back what the writer model produced (C09 / C17): the written byte groups as `Chunk`s,
`readFmt` / `readChna` on them, and the reader's result after a successful chunk walk.
-/
import Earverif.Proofs.C09Layout

set_option linter.unusedVariables false

namespace Earverif.Bw64

/-! ### what the writer writes, as chunks -/

def fmtPayload (f : Fmt) : Bytes :=
  le 2 1 ++ le 2 f.channels ++ le 4 f.rate ++ le 4 f.bytesPerSecond ++ le 2 f.blockAlign ++ le 2 f.bits

def junkC : Chunk := ⟨idJUNK, 28, le 8 0 ++ le 8 0 ++ le 8 0 ++ le 4 0, []⟩
def fmtC (f : Fmt) : Chunk := ⟨idFmt, 16, fmtPayload f, []⟩
def chnaC (es : List ChnaEntry) : Chunk := ⟨idChna, (chnaPayload es).length, chnaPayload es, []⟩
def metaC (id v : Bytes) : Chunk := ⟨id, v.length, v, pad v.length⟩
/-- the data chunk; `dp` is the pad actually present (`pad data.length` in a finalised file, nothing in a
file cut right after the last sample byte) -/
def dataC (szField : Nat) (data dp : Bytes) : Chunk := ⟨idData, szField, data, dp⟩

def optChnaC : Option (List ChnaEntry) → List Chunk
  | some es => [chnaC es]
  | none => []

def optMetaC (id : Bytes) : Option Bytes → List Chunk
  | some (x :: xs) => [metaC id (x :: xs)]
  | _ => []

def preC (c0 : Option (List ChnaEntry)) (a0 b0 : Option Bytes) : List Chunk :=
  optChnaC c0 ++ (optMetaC idAxml a0 ++ optMetaC idBext b0)

def lateC (cw aw bw : Bool) (c : Option (List ChnaEntry)) (a b : Option Bytes) : List Chunk :=
  (if cw then [] else optChnaC c) ++ ((if aw then [] else optMetaC idAxml a) ++ (if bw then [] else optMetaC idBext b))

/-- A chna entry the writer can pack and the reader takes back silently: index fits 16 bits, 38 further
bytes, and an `AC_` reference carries the `_00` suffix (always true of `AudioID.asByteArray`). -/
def ChnaEntry.OK (e : ChnaEntry) : Prop :=
  e.trackIndex < 2 ^ 16 ∧ e.rest.length = 38 ∧
    ¬ ((((e.enc.drop 14).take 14).take 3 = acPrefix) ∧ (((e.enc.drop 14).take 14).drop 11 ≠ suffix00))

def ChnaOK : Option (List ChnaEntry) → Prop
  | none => True
  | some es => es.length < 2 ^ 16 ∧ ∀ e ∈ es, e.OK

/-- a bytes-or-None value whose length fits the 32-bit size field -/
def BytesOK : Option Bytes → Prop
  | none => True
  | some v => v.length < 2 ^ 32

theorem ChnaEntry.enc_length {e : ChnaEntry} (h : e.OK) : e.enc.length = 40 := by
  simp [ChnaEntry.enc, le_length, h.2.1]

theorem entries_length (es : List ChnaEntry) (h : ∀ e ∈ es, e.OK) :
    (es.map ChnaEntry.enc).flatten.length = 40 * es.length := by
  induction es with
  | nil => rfl
  | cons e es ih =>
    simp only [List.map_cons, List.flatten_cons, List.length_append, List.length_cons]
    rw [ih (fun x hx => h x (by simp [hx])), ChnaEntry.enc_length (h e (by simp))]; omega

theorem chnaPayload_length (es : List ChnaEntry) (h : ∀ e ∈ es, e.OK) :
    (chnaPayload es).length = 4 + 40 * es.length := by
  simp [chnaPayload, le_length, entries_length es h]; omega

theorem junkChunk_eq : junkChunk = junkC.enc := by decide
theorem fmtChunk_eq (f : Fmt) : fmtChunk f = (fmtC f).enc := by
  simp [fmtChunk, fmtC, Chunk.enc, fmtPayload]
theorem metaChunk_eq (id v : Bytes) : metaChunk id v = (metaC id v).enc := by
  simp [metaChunk, metaC, Chunk.enc]
theorem chnaChunk_eq (es : List ChnaEntry) (h : ∀ e ∈ es, e.OK) : chnaChunk es = (chnaC es).enc := by
  simp [chnaChunk, chnaC, Chunk.enc]

theorem optChnaB_eq {c : Option (List ChnaEntry)} (h : ChnaOK c) : optChnaB c = encAll (optChnaC c) := by
  cases c with
  | none => rfl
  | some es => simp [optChnaB, optChnaC, chnaChunk_eq es h.2]

theorem optMetaB_eq (id : Bytes) (v : Option Bytes) : optMetaB id v = encAll (optMetaC id v) := by
  rcases v with _ | _ | ⟨x, xs⟩ <;> simp [optMetaB, optMetaC, metaChunk_eq]

theorem preB_eq {c0 : Option (List ChnaEntry)} (h : ChnaOK c0) (a0 b0 : Option Bytes) :
    preB c0 a0 b0 = encAll (preC c0 a0 b0) := by
  simp [preB, preC, optChnaB_eq h, optMetaB_eq]

theorem lateB_eq {c : Option (List ChnaEntry)} (h : ChnaOK c) (cw aw bw : Bool) (a b : Option Bytes) :
    lateB cw aw bw c a b = encAll (lateC cw aw bw c a b) := by
  cases cw <;> cases aw <;> cases bw <;> simp [lateB, lateC, optChnaB_eq h, optMetaB_eq]

/-! ### the chunks are well formed -/

theorem countDistinct_le (l : List Nat) : countDistinct l ≤ l.length := by
  induction l with
  | nil => simp [countDistinct]
  | cons x xs ih => simp only [countDistinct, List.length_cons]; split <;> omega

theorem numTracks_le (es : List ChnaEntry) : numTracks es ≤ es.length := by
  have := countDistinct_le (es.map (·.trackIndex)); simpa [numTracks] using this

theorem junkC_ok : junkC.OK none := ⟨by decide, by decide, by decide, by decide, by decide, by decide⟩

/-- a chunk whose id is not `data` is never the unset-data-size header -/
theorem isPlaceholder_of_ne (ds : Option Ds64) {id : Bytes} (sz : Nat) (h : id ≠ idData) :
    isPlaceholder ds id sz = false := by
  cases ds <;> simp [isPlaceholder, h]

theorem fmtC_ok (ds : Option Ds64) (hds : ∀ d, ds = some d → d.table = []) (f : Fmt) : (fmtC f).OK ds := by
  refine ⟨by simp only [fmtC]; decide, by simp only [fmtC]; decide, by simp only [fmtC]; decide, ?_,
    by simp [fmtC, fmtPayload, le_length], isPlaceholder_of_ne ds _ (by simp only [fmtC]; decide)⟩
  cases ds with
  | none => simp [effSize, hdrSize, fmtC, fmtPayload, le_length]
  | some d =>
    have : d.table = [] := hds d rfl
    simp [effSize, hdrSize, fmtC, fmtPayload, le_length, Ds64.lookup, this, idFmt, idData]

theorem metaC_ok (ds : Option Ds64) (hds : ∀ d, ds = some d → d.table = []) {id v : Bytes}
    (hid : id = idAxml ∨ id = idBext) (hv : v.length < 2 ^ 32) : (metaC id v).OK ds := by
  refine ⟨by rcases hid with rfl | rfl <;> simp only [metaC] <;> decide,
    by rcases hid with rfl | rfl <;> simp only [metaC] <;> decide, hv, ?_, by simp [metaC, pad_length],
    isPlaceholder_of_ne ds _ (by rcases hid with rfl | rfl <;> simp only [metaC] <;> decide)⟩
  cases ds with
  | none => simp [effSize, hdrSize, metaC]
  | some d =>
    have : d.table = [] := hds d rfl
    rcases hid with rfl | rfl <;> simp [effSize, hdrSize, metaC, Ds64.lookup, this, idAxml, idBext, idData]

theorem chnaC_ok (ds : Option Ds64) (hds : ∀ d, ds = some d → d.table = []) {es : List ChnaEntry}
    (h : ChnaOK (some es)) : (chnaC es).OK ds := by
  have hl := chnaPayload_length es h.2
  have := h.1
  refine ⟨by simp only [chnaC]; decide, by simp only [chnaC]; decide, by simp only [chnaC]; omega, ?_,
    by simp only [chnaC, hl, List.length_nil]; omega, isPlaceholder_of_ne ds _ (by simp only [chnaC]; decide)⟩
  cases ds with
  | none => simp [effSize, hdrSize, chnaC]
  | some d =>
    have : d.table = [] := hds d rfl
    simp [effSize, hdrSize, chnaC, Ds64.lookup, this, idChna, idData]

theorem optChnaC_ok (ds : Option Ds64) (hds : ∀ d, ds = some d → d.table = []) {c : Option (List ChnaEntry)}
    (h : ChnaOK c) : ∀ x ∈ optChnaC c, x.OK ds := by
  cases c with
  | none => simp [optChnaC]
  | some es => simp [optChnaC]; exact chnaC_ok ds hds h

theorem optMetaC_ok (ds : Option Ds64) (hds : ∀ d, ds = some d → d.table = []) {id : Bytes} {v : Option Bytes}
    (hid : id = idAxml ∨ id = idBext) (hv : BytesOK v) : ∀ x ∈ optMetaC id v, x.OK ds := by
  rcases v with _ | _ | ⟨x, xs⟩
  · simp [optMetaC]
  · simp [optMetaC]
  · simp [optMetaC]; exact metaC_ok ds hds hid hv

/-! ### `_read_fmt_chunk` on a written `fmt ` chunk -/

/-- A format the writer can pack and `FormatInfoChunk` accepts: PCM 16/24/32 bit, at least one channel,
positive rate, every field within its `struct` width. -/
structure FmtOK (f : Fmt) : Prop where
  bits : f.bits = 16 ∨ f.bits = 24 ∨ f.bits = 32
  ch : 1 ≤ f.channels
  rate : 1 ≤ f.rate
  chLt : f.channels < 2 ^ 16
  rateLt : f.rate < 2 ^ 32
  bpsLt : f.bytesPerSecond < 2 ^ 32
  baLt : f.blockAlign < 2 ^ 16

theorem readFmt_spec {f : Bytes} {pos : Nat} {fmt : Fmt} (hok : FmtOK fmt)
    (h : readAt f (pos + 8) 16 = fmtPayload fmt) :
    readFmt f 16 pos = .ok ⟨1, fmt.channels, fmt.rate, fmt.bits⟩ := by
  obtain ⟨hb, hc, hr, hcl, hrl, hbl, hal⟩ := hok
  have e0 : (fmtPayload fmt).length = 16 := by simp [fmtPayload, le_length]
  have e1 : fromLE ((fmtPayload fmt).take 2) = 1 := by simp [fmtPayload, le, fromLE]
  have e2 : fromLE (((fmtPayload fmt).drop 2).take 2) = fmt.channels := by
    simp [fmtPayload, le, fromLE]; omega
  have e3 : fromLE (((fmtPayload fmt).drop 4).take 4) = fmt.rate := by
    simp [fmtPayload, le, fromLE]; omega
  have e4 : fromLE (((fmtPayload fmt).drop 8).take 4) = fmt.bytesPerSecond := by
    simp [fmtPayload, le, fromLE]; omega
  have e5 : fromLE (((fmtPayload fmt).drop 12).take 2) = fmt.blockAlign := by
    simp [fmtPayload, le, fromLE]; omega
  have e6 : fromLE (((fmtPayload fmt).drop 14).take 2) = fmt.bits := by
    simp [fmtPayload, le, fromLE]; omega
  simp only [readFmt, h, e0, e1, e2, e3, e4, e5, e6]
  have hbits : ¬ (fmt.bits ≠ 16 ∧ fmt.bits ≠ 24 ∧ fmt.bits ≠ 32) := by omega
  have hbps : ¬ (fmt.bytesPerSecond ≠ 0 ∧ fmt.bytesPerSecond ≠ fmt.rate * (fmt.channels * fmt.bits / 8)) := by
    simp [Fmt.bytesPerSecond, Fmt.blockAlign]
  have hba : ¬ (fmt.blockAlign ≠ 0 ∧ fmt.blockAlign ≠ fmt.channels * fmt.bits / 8) := by
    simp [Fmt.blockAlign]
  have hch : ¬ (fmt.channels < 1) := by omega
  have hrate : ¬ (fmt.rate < 1) := by omega
  simp [hbits, hbps, hba, hch, hrate]

/-! ### `_read_chna_chunk` on a written `chna` chunk -/

theorem readChnaEntries_spec (f : Bytes) (es : List ChnaEntry) (h : ∀ e ∈ es, e.OK) :
    ∀ (A R : Bytes) (acc : List ChnaEntry) (w : List Warn),
      f = A ++ ((es.map ChnaEntry.enc).flatten ++ R) →
      readChnaEntries f es.length A.length acc w = .ok (acc ++ es, w) := by
  induction es with
  | nil => intro A R acc w _; simp [readChnaEntries]
  | cons e es ih =>
    intro A R acc w hf
    have he := h e (by simp)
    have hd : readAt f A.length 40 = e.enc :=
      readAt_mid (r := (es.map ChnaEntry.enc).flatten ++ R) (by simp [hf]) rfl (ChnaEntry.enc_length he)
    have h2 : e.enc.take 2 = le 2 e.trackIndex := by simp [ChnaEntry.enc, le]
    have h3 : e.enc.drop 2 = e.rest := by simp [ChnaEntry.enc, le]
    have hw := he.2.2
    simp only [List.length_cons, readChnaEntries, hd, ChnaEntry.enc_length he, h2, h3,
      fromLE_le2 _ he.1, hw, ↓reduceIte, ne_eq, not_true_eq_false]
    have := ih (fun x hx => h x (by simp [hx])) (A ++ e.enc) R (acc ++ [e]) w (by simp [hf])
    simp only [List.length_append, ChnaEntry.enc_length he] at this
    rw [this]; simp

theorem readChna_spec {f A R : Bytes} {es : List ChnaEntry} {pos : Nat} (h : ChnaOK (some es))
    (hf : f = A ++ (chnaPayload es ++ R)) (hA : A.length = pos + 8) : readChna f pos = .ok (es, []) := by
  have hn := h.1
  have hnt := numTracks_le es
  have hh : readAt f (pos + 8) 4 = le 2 (numTracks es) ++ le 2 es.length :=
    readAt_mid (r := (es.map ChnaEntry.enc).flatten ++ R) (by simp [hf, chnaPayload]) hA (by simp [le_length])
  have h2 : (le 2 (numTracks es) ++ le 2 es.length).take 2 = le 2 (numTracks es) := by simp [le]
  have h3 : (le 2 (numTracks es) ++ le 2 es.length).drop 2 = le 2 es.length := by simp [le]
  have he := readChnaEntries_spec f es h.2 (A ++ (le 2 (numTracks es) ++ le 2 es.length)) R [] []
    (by simp [hf, chnaPayload])
  have hp : (A ++ (le 2 (numTracks es) ++ le 2 es.length)).length = pos + 12 := by
    simp [le_length, hA]
  rw [hp] at he
  simp only [readChna, hh, h2, h3, fromLE_le2 _ hn, fromLE_le2 (numTracks es) (by omega), he]
  simp [le_length]

/-! ### which ids occur where -/

/-- no chunk of `cs` has id `id` -/
def NoId (id : Bytes) (cs : List Chunk) : Prop := ∀ x ∈ cs, x.id ≠ id

theorem noId_nil (id : Bytes) : NoId id [] := by simp [NoId]
theorem noId_append {id : Bytes} {a b : List Chunk} (ha : NoId id a) (hb : NoId id b) : NoId id (a ++ b) := by
  intro x hx; rcases List.mem_append.1 hx with h | h
  · exact ha x h
  · exact hb x h
theorem noId_cons {id : Bytes} {c : Chunk} {b : List Chunk} (hc : c.id ≠ id) (hb : NoId id b) : NoId id (c :: b) := by
  intro x hx; rcases List.mem_cons.1 hx with h | h
  · rw [h]; exact hc
  · exact hb x h
theorem noId_ite {id : Bytes} {c : Bool} {a b : List Chunk} (ha : NoId id a) (hb : NoId id b) :
    NoId id (if c then a else b) := by cases c <;> simpa
theorem noId_optChnaC {id : Bytes} (h : idChna ≠ id) (c : Option (List ChnaEntry)) : NoId id (optChnaC c) := by
  cases c <;> simp [NoId, optChnaC, chnaC, h]
theorem noId_optMetaC {id id' : Bytes} (h : id' ≠ id) (v : Option Bytes) : NoId id (optMetaC id' v) := by
  rcases v with _ | _ | ⟨x, xs⟩ <;> simp [NoId, optMetaC, metaC, h]
theorem noId_optMetaC_falsy {id id' : Bytes} {v : Option Bytes} (h : truthy v = false) : NoId id (optMetaC id' v) := by
  rcases v with _ | _ | ⟨x, xs⟩ <;> simp_all [NoId, optMetaC, truthy]
theorem noId_junk {id : Bytes} {F : List Chunk} (hF : ∀ x ∈ F, x.id = idJUNK) (h : idJUNK ≠ id) : NoId id F := by
  intro x hx; rw [hF x hx]; exact h

/-- discharge a `NoId` goal over a list built from the writer's chunk groups -/
macro "no_id" : tactic =>
  `(tactic| repeat (first
      | exact noId_nil _
      | apply noId_append
      | apply noId_ite
      | exact noId_optChnaC (by decide) _
      | exact noId_optMetaC (by decide) _
      | (apply noId_cons (by simp only [fmtC, dataC, metaC, chnaC]; decide))
      | (apply noId_junk (by assumption) (by decide))
      | (apply noId_optMetaC_falsy; assumption)))

/-! ### the reader's view of a written chunk sequence -/

/-- what ends up in the file for chna: the constructor's value if given, else the value pending at `close` -/
def effChna (c0 cF : Option (List ChnaEntry)) : Option (List ChnaEntry) := if c0.isSome then c0 else cF

/-- what ends up in the file for axml/bext: the constructor's value if truthy, else the value pending at
`close` if truthy, else nothing -/
def effMeta (v0 vF : Option Bytes) : Option Bytes :=
  if truthy v0 then v0 else if truthy vF then vF else none

/-- the chunks after the fixed header part: `fmt `, constructor chunks, `data`, late chunks -/
def bodyC (fmt : Fmt) (c0 : Option (List ChnaEntry)) (a0 b0 : Option Bytes) (sz : Nat) (data dp : Bytes)
    (cF : Option (List ChnaEntry)) (aF bF : Option Bytes) : List Chunk :=
  fmtC fmt :: (preC c0 a0 b0 ++ dataC sz data dp :: lateC c0.isSome (truthy a0) (truthy b0) cF aF bF)

theorem chunk_found {f pre : Bytes} {A B : List Chunk} {c : Chunk}
    {tail : Bytes} (hf : f = pre ++ (encAll (A ++ c :: B) ++ tail)) (hid : c.id.length = 4) (hB : NoId c.id B)
    (t : Table) :
    tlookup (walkTable pre.length (A ++ c :: B) t) c.id = some (c.body.length, pre.length + (encAll A).length) ∧
    ∃ P R, f = P ++ (c.body ++ R) ∧ P.length = pre.length + (encAll A).length + 8 := by
  refine ⟨tlookup_walkTable_found c B hB A _ _, pre ++ encAll A ++ c.id ++ le 4 c.szField,
    c.padB ++ (encAll B ++ tail), by simp [hf, Chunk.enc], by simp [le_length, hid]; omega⟩

section
variable {f pre : Bytes} {F : List Chunk} {fmt : Fmt} {c0 cF : Option (List ChnaEntry)} {a0 b0 aF bF : Option Bytes}
  {sz : Nat} {data dp tail : Bytes}

theorem optMetaC_falsy {id : Bytes} {v : Option Bytes} (h : truthy v = false) : optMetaC id v = [] := by
  rcases v with _ | _ | ⟨x, xs⟩ <;> simp_all [optMetaC, truthy]

@[simp] theorem truthy_cons (x : Nat) (xs : Bytes) : truthy (some (x :: xs)) = true := rfl

theorem truthy_cases (v : Option Bytes) : truthy v = false ∨ ∃ x xs, v = some (x :: xs) := by
  rcases v with _ | _ | ⟨x, xs⟩ <;> simp [truthy]

theorem read_axml (hf : f = pre ++ (encAll (F ++ bodyC fmt c0 a0 b0 sz data dp cF aF bF) ++ tail))
    (hF : ∀ x ∈ F, x.id = idJUNK) :
    chunkData f (walkTable pre.length (F ++ bodyC fmt c0 a0 b0 sz data dp cF aF bF) []) idAxml = effMeta a0 aF := by
  rcases truthy_cases a0 with h0 | ⟨x, xs, rfl⟩
  · rcases truthy_cases aF with hF' | ⟨y, ys, rfl⟩
    · -- absent
      rw [chunkData_absent]
      · simp [effMeta, h0, hF']
      · show NoId _ _
        simp only [bodyC, preC, lateC, optMetaC_falsy h0, optMetaC_falsy hF']
        no_id
    · -- written by `close`
      have hcs : F ++ bodyC fmt c0 a0 b0 sz data dp cF (some (y :: ys)) bF =
          (F ++ fmtC fmt :: (optChnaC c0 ++ optMetaC idBext b0) ++ dataC sz data dp ::
            (if c0.isSome then [] else optChnaC cF)) ++ metaC idAxml (y :: ys) ::
            (if truthy b0 then [] else optMetaC idBext bF) := by
        simp only [bodyC, preC, lateC, optMetaC_falsy h0, h0]
        simp [optMetaC]
      rw [hcs] at hf ⊢
      refine (chunkData_found hf (c := metaC idAxml (y :: ys)) (by simp only [metaC]; decide)
        (by show NoId idAxml _; no_id) []).trans ?_
      simp [effMeta, metaC, h0]
  · -- written by the constructor
    have hcs : F ++ bodyC fmt c0 (some (x :: xs)) b0 sz data dp cF aF bF =
        (F ++ fmtC fmt :: optChnaC c0) ++ metaC idAxml (x :: xs) ::
          (optMetaC idBext b0 ++ dataC sz data dp ::
            ((if c0.isSome then [] else optChnaC cF) ++ (if truthy b0 then [] else optMetaC idBext bF))) := by
      simp [bodyC, preC, lateC, optMetaC, truthy]
    rw [hcs] at hf ⊢
    refine (chunkData_found hf (c := metaC idAxml (x :: xs)) (by simp only [metaC]; decide)
      (by show NoId idAxml _; no_id) []).trans ?_
    simp [effMeta, truthy, metaC]

theorem read_bext (hf : f = pre ++ (encAll (F ++ bodyC fmt c0 a0 b0 sz data dp cF aF bF) ++ tail))
    (hF : ∀ x ∈ F, x.id = idJUNK) :
    chunkData f (walkTable pre.length (F ++ bodyC fmt c0 a0 b0 sz data dp cF aF bF) []) idBext = effMeta b0 bF := by
  rcases truthy_cases b0 with h0 | ⟨x, xs, rfl⟩
  · rcases truthy_cases bF with hF' | ⟨y, ys, rfl⟩
    · -- absent
      rw [chunkData_absent]
      · simp [effMeta, h0, hF']
      · show NoId _ _
        simp only [bodyC, preC, lateC, optMetaC_falsy h0, optMetaC_falsy hF']
        no_id
    · -- written by `close`
      have hcs : F ++ bodyC fmt c0 a0 b0 sz data dp cF aF (some (y :: ys)) =
          (F ++ fmtC fmt :: (optChnaC c0 ++ optMetaC idAxml a0) ++ dataC sz data dp ::
            ((if c0.isSome then [] else optChnaC cF) ++ (if truthy a0 then [] else optMetaC idAxml aF))) ++
            metaC idBext (y :: ys) :: [] := by
        simp only [bodyC, preC, lateC, optMetaC_falsy h0, h0]
        simp [optMetaC]
      rw [hcs] at hf ⊢
      refine (chunkData_found hf (c := metaC idBext (y :: ys)) (by simp only [metaC]; decide)
        (by show NoId idBext _; no_id) []).trans ?_
      simp [effMeta, metaC, h0]
  · -- written by the constructor
    have hcs : F ++ bodyC fmt c0 a0 (some (x :: xs)) sz data dp cF aF bF =
        (F ++ fmtC fmt :: (optChnaC c0 ++ optMetaC idAxml a0)) ++ metaC idBext (x :: xs) ::
          (dataC sz data dp ::
            ((if c0.isSome then [] else optChnaC cF) ++ (if truthy a0 then [] else optMetaC idAxml aF))) := by
      simp [bodyC, preC, lateC, optMetaC, truthy]
    rw [hcs] at hf ⊢
    refine (chunkData_found hf (c := metaC idBext (x :: xs)) (by simp only [metaC]; decide)
      (by show NoId idBext _; no_id) []).trans ?_
    simp [effMeta, truthy, metaC]

theorem read_chna (hf : f = pre ++ (encAll (F ++ bodyC fmt c0 a0 b0 sz data dp cF aF bF) ++ tail))
    (hF : ∀ x ∈ F, x.id = idJUNK) :
    match effChna c0 cF with
    | none => tlookup (walkTable pre.length (F ++ bodyC fmt c0 a0 b0 sz data dp cF aF bF) []) idChna = none
    | some es => ∃ cpos P R,
        tlookup (walkTable pre.length (F ++ bodyC fmt c0 a0 b0 sz data dp cF aF bF) []) idChna =
          some ((chnaPayload es).length, cpos) ∧ f = P ++ (chnaPayload es ++ R) ∧ P.length = cpos + 8 := by
  cases c0 with
  | some es =>
    have hcs : F ++ bodyC fmt (some es) a0 b0 sz data dp cF aF bF =
        (F ++ [fmtC fmt]) ++ chnaC es :: ((optMetaC idAxml a0 ++ optMetaC idBext b0) ++ dataC sz data dp ::
          ((if truthy a0 then [] else optMetaC idAxml aF) ++ (if truthy b0 then [] else optMetaC idBext bF))) := by
      simp [bodyC, preC, lateC, optChnaC]
    rw [hcs] at hf ⊢
    obtain ⟨h1, P, R, h2, h3⟩ := chunk_found hf (c := chnaC es) (by simp only [chnaC]; decide)
      (by show NoId idChna _; no_id) []
    exact ⟨_, P, R, h1, h2, h3⟩
  | none =>
    cases cF with
    | none =>
      show tlookup _ _ = none
      rw [tlookup_walkTable_absent]
      · rfl
      · show NoId _ _
        simp only [bodyC, preC, lateC, optChnaC]
        no_id
    | some es =>
      have hcs : F ++ bodyC fmt none a0 b0 sz data dp (some es) aF bF =
          (F ++ fmtC fmt :: (optMetaC idAxml a0 ++ optMetaC idBext b0) ++ [dataC sz data dp]) ++ chnaC es ::
            ((if truthy a0 then [] else optMetaC idAxml aF) ++ (if truthy b0 then [] else optMetaC idBext bF)) := by
        simp [bodyC, preC, lateC, optChnaC]
      rw [hcs] at hf ⊢
      obtain ⟨h1, P, R, h2, h3⟩ := chunk_found hf (c := chnaC es) (by simp only [chnaC]; decide)
        (by show NoId idChna _; no_id) []
      exact ⟨_, P, R, h1, h2, h3⟩

theorem read_fmt (hf : f = pre ++ (encAll (F ++ bodyC fmt c0 a0 b0 sz data dp cF aF bF) ++ tail))
    (hF : ∀ x ∈ F, x.id = idJUNK) :
    ∃ fpos, tlookup (walkTable pre.length (F ++ bodyC fmt c0 a0 b0 sz data dp cF aF bF) []) idFmt = some (16, fpos) ∧
      readAt f (fpos + 8) 16 = fmtPayload fmt := by
  have hcs : F ++ bodyC fmt c0 a0 b0 sz data dp cF aF bF =
      F ++ fmtC fmt :: (preC c0 a0 b0 ++ dataC sz data dp :: lateC c0.isSome (truthy a0) (truthy b0) cF aF bF) := rfl
  rw [hcs] at hf ⊢
  obtain ⟨h1, P, R, h2, h3⟩ := chunk_found hf (c := fmtC fmt) (by simp only [fmtC]; decide)
    (by show NoId idFmt _; simp only [preC, lateC]; no_id) []
  have h16 : (fmtC fmt).body.length = 16 := by simp [fmtC, fmtPayload, le_length]
  refine ⟨_, by rw [← h16]; exact h1, ?_⟩
  exact readAt_mid h2 h3 h16

theorem read_data (hf : f = pre ++ (encAll (F ++ bodyC fmt c0 a0 b0 sz data dp cF aF bF) ++ tail))
    (hF : ∀ x ∈ F, x.id = idJUNK) :
    ∃ dpos, tlookup (walkTable pre.length (F ++ bodyC fmt c0 a0 b0 sz data dp cF aF bF) []) idData =
        some (data.length, dpos) ∧ readAt f (dpos + 8) data.length = data := by
  have hcs : F ++ bodyC fmt c0 a0 b0 sz data dp cF aF bF =
      (F ++ fmtC fmt :: preC c0 a0 b0) ++ dataC sz data dp :: lateC c0.isSome (truthy a0) (truthy b0) cF aF bF := by
    simp [bodyC]
  rw [hcs] at hf ⊢
  obtain ⟨h1, P, R, h2, h3⟩ := chunk_found hf (c := dataC sz data dp) (by simp only [dataC]; decide)
    (by show NoId idData _; simp only [lateC]; no_id) []
  exact ⟨_, h1, readAt_mid h2 h3 rfl⟩

/-- **After the walk.** On a file whose chunks are those the writer lays out, the rest of the reader's
constructor succeeds without warnings and the accessors return what was written. -/
theorem finishRead_written {ff : Bytes} {ds : Option Ds64} {w : List Warn} (hfmt : FmtOK fmt) (hc0 : ChnaOK c0) (hcF : ChnaOK cF)
    (hf : f = pre ++ (encAll (F ++ bodyC fmt c0 a0 b0 sz data dp cF aF bF) ++ tail))
    (hF : ∀ x ∈ F, x.id = idJUNK)
    (hds : ∀ d, ds = some d → d.dataSize = data.length)
    (hdata : data.length % fmt.blockAlign = 0) :
    finishRead f ff ds (walkTable pre.length (F ++ bodyC fmt c0 a0 b0 sz data dp cF aF bF) []) w =
      .ok (⟨ff, ⟨1, fmt.channels, fmt.rate, fmt.bits⟩, data.length / fmt.blockAlign, data,
            effChna c0 cF, effMeta a0 aF, effMeta b0 bF⟩, w) := by
  obtain ⟨fpos, hf1, hf2⟩ := read_fmt hf hF
  obtain ⟨dpos, hd1, hd2⟩ := read_data hf hF
  have hax := read_axml hf hF
  have hbx := read_bext hf hF
  have hch := read_chna hf hF
  have hfr : data.length / fmt.blockAlign * fmt.blockAlign = data.length :=
    Nat.div_mul_cancel (Nat.dvd_of_mod_eq_zero hdata)
  have hceff : ChnaOK (effChna c0 cF) := by unfold effChna; split <;> assumption
  unfold finishRead
  simp only [hf1, hd1, readFmt_spec hfmt hf2, hax, hbx]
  simp only [show fmt.channels * fmt.bits / 8 = fmt.blockAlign from rfl]
  have hfrm : lenBytes ds data.length = data.length := by
    cases ds with
    | none => rfl
    | some d => simp [lenBytes, hds d rfl]
  rw [hfrm, hfr, hd2]
  cases he : effChna c0 cF with
  | none =>
    rw [he] at hch
    simp only [hch, List.append_nil]
  | some es =>
    rw [he] at hch hceff
    obtain ⟨cpos, P, R, h1, h2, h3⟩ := hch
    simp only [h1, readChna_spec hceff h2 h3, List.append_nil]

end

end Earverif.Bw64
