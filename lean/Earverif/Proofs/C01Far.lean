/- C01: the point-only regime of `PolarExtentHandler.handle(position, 0, 0, 0)` (`ammount_spread ≤ 1e-10`) is only
   reached at distance > 1/2 (in fact ≥ 1 − 2e-11; 1/2 is all the panner lemma needs): for `0 ≤ d ≤ 1/2`,
   `extent_mod(0, d)` is larger than 10 degrees, hence `ammount_spread = 1`.

   `extent_mod(0, d) = interp(4·deg(atan2(0.2, d)), [0, e1, 360], [0, 0, 360])` with `e1 = 4·deg(atan2(0.2, 1))`.
   Over ℝ `atan2 y x = Complex.arg (x + iy)`; the separation `arg(d + 0.2i) − arg(1 + 0.2i) ≥ 0.09` comes from
   `sin(θ_d − θ_1) = (1 − d) / (5 ‖d + 0.2i‖ ‖1 + 0.2i‖) ≥ 0.09` and `sin x ≤ x`. -/
import Earverif.Proofs.C01Pipe
import Mathlib.Analysis.SpecialFunctions.Trigonometric.Bounds

namespace Earverif.GainCalc

theorem arg_sep (d : ℝ) (h0 : 0 ≤ d) (h1 : d ≤ 1 / 2) :
    Complex.arg ⟨1, 1 / 5⟩ + 9 / 100 ≤ Complex.arg ⟨d, 1 / 5⟩ := by
  set z1 : ℂ := ⟨1, 1 / 5⟩ with hz1
  set zd : ℂ := ⟨d, 1 / 5⟩ with hzd
  have hz1ne : z1 ≠ 0 := by
    intro h; have := congrArg Complex.im h; simp [hz1] at this
  have hzdne : zd ≠ 0 := by
    intro h; have := congrArg Complex.im h; simp [hzd] at this
  have hr1pos : 0 < ‖z1‖ := norm_pos_iff.mpr hz1ne
  have hrdpos : 0 < ‖zd‖ := norm_pos_iff.mpr hzdne
  have hr1sq : ‖z1‖ ^ 2 = 26 / 25 := by
    rw [Complex.sq_norm, Complex.normSq_apply]; simp only [hz1]; norm_num
  have hrdsq : ‖zd‖ ^ 2 = d * d + 1 / 25 := by
    rw [Complex.sq_norm, Complex.normSq_apply]; simp only [hzd]; norm_num
  have hr1le : ‖z1‖ ≤ 102 / 100 := by nlinarith
  have hrdle : ‖zd‖ ≤ 1 := by nlinarith
  have hsin : Real.sin (zd.arg - z1.arg) = (1 - d) / (5 * ‖zd‖ * ‖z1‖) := by
    rw [Real.sin_sub, Complex.sin_arg, Complex.sin_arg, Complex.cos_arg hz1ne, Complex.cos_arg hzdne]
    simp only [hz1, hzd]
    field_simp
  have hge : 9 / 100 ≤ Real.sin (zd.arg - z1.arg) := by
    rw [hsin, le_div_iff₀ (by positivity)]
    nlinarith [mul_pos hrdpos hr1pos, mul_le_mul hrdle hr1le hr1pos.le (by norm_num : (0 : ℝ) ≤ 1)]
  have hθd : 0 ≤ zd.arg := Complex.arg_nonneg_iff.mpr (by simp [hzd])
  have hθ1 : z1.arg < Real.pi / 2 := Complex.arg_lt_pi_div_two_iff.mpr (Or.inl (by simp [hz1]))
  have hnn : 0 ≤ zd.arg - z1.arg := by
    by_contra hneg
    have := Real.sin_neg_of_neg_of_neg_pi_lt (not_le.mp hneg) (by linarith [Real.pi_pos])
    linarith
  linarith [Real.sin_le hnn]

/-- **the point-only regime is far**: if `PolarExtentHandler.handle(position, 0, 0, 0)` has one end distance and its
    `ammount_spread` does not exceed 1e-10, the distance is larger than 1/2 -/
theorem polarPoint_far (d w h : ℝ) (hd : 0 ≤ d) (he : polarExtents d (zero : ℝ) zero zero = [(w, h)])
    (hs : ¬ (k (1 / 10000000000) : ℝ) < amountSpread w h) : 1 / 2 < d := by
  by_contra hcon
  have hd2 : d ≤ 1 / 2 := not_lt.mp hcon
  apply hs
  have hpd : polarDistances d (zero : ℝ) = [d] := by
    simp only [polarDistances]
    rw [if_pos ((eqS_real _ _).mpr rfl)]
  simp only [polarExtents, hpd, List.map_cons, List.map_nil, List.cons.injEq, Prod.mk.injEq, and_true] at he
  obtain ⟨rfl, rfl⟩ := he
  have hsep := arg_sep d hd hd2
  have hθ1 : 0 ≤ Complex.arg ⟨1, 1 / 5⟩ := Complex.arg_nonneg_iff.mpr (by norm_num)
  have hθ1' : Complex.arg ⟨1, 1 / 5⟩ < Real.pi / 2 := Complex.arg_lt_pi_div_two_iff.mpr (Or.inl (by norm_num))
  have hθd : Complex.arg ⟨d, 1 / 5⟩ ≤ Real.pi / 2 := Complex.arg_le_pi_div_two_iff.mpr (Or.inl hd)
  have hpi := Real.pi_pos
  have hpi4 := Real.pi_le_four
  -- the two table abscissae in degrees
  set c : ℝ := 180 / Real.pi with hc
  have hc45 : 45 ≤ c := by rw [hc, le_div_iff₀ hpi]; linarith
  have hcpi : c * Real.pi = 180 := by rw [hc]; field_simp
  set e1 : ℝ := 4 * (Complex.arg ⟨1, 1 / 5⟩ * c) with he1
  set X : ℝ := 4 * (Complex.arg ⟨d, 1 / 5⟩ * c) with hX
  have he10 : 0 ≤ e1 := by rw [he1]; positivity
  have he1lt : e1 < 360 := by
    have : Complex.arg ⟨1, 1 / 5⟩ * c < Real.pi / 2 * c := mul_lt_mul_of_pos_right hθ1' (by linarith)
    rw [he1]; nlinarith
  have hXle : X ≤ 360 := by
    have : Complex.arg ⟨d, 1 / 5⟩ * c ≤ Real.pi / 2 * c := mul_le_mul_of_nonneg_right hθd (by linarith)
    rw [hX]; nlinarith
  have hXe : e1 + 16 ≤ X := by
    have : 9 / 100 * 45 ≤ (Complex.arg ⟨d, 1 / 5⟩ - Complex.arg ⟨1, 1 / 5⟩) * c :=
      mul_le_mul (by linarith) hc45 (by norm_num) (by linarith)
    rw [he1, hX]; nlinarith
  -- extent_mod(0, d) ≥ 16
  have hW : 16 ≤ extentMod (zero : ℝ) d := by
    have h15 : ((1 / 5 : ℚ) : ℝ) = 1 / 5 := by norm_num
    have h360 : ((360 : ℚ) : ℝ) = 360 := by norm_num
    have h180 : ((180 : ℚ) : ℝ) = 180 := by norm_num
    have h4 : ((4 : ℚ) : ℝ) = 4 := by norm_num
    have hsize : interp (0 : ℝ) [0, 360] [((1 / 5 : ℚ) : ℝ), 1] = 1 / 5 := by
      simp only [interp, le_refl, if_true, h15]
    have hat : ∀ y x : ℝ, Scalar.atan2 y x = Complex.arg ⟨x, y⟩ := fun _ _ => rfl
    simp only [extentMod, degrees, k_real, h4, h180, pi_real, zero_real, one_real, h360, hsize, hat]
    show 16 ≤ interp X [0, e1, 360] [0, 0, 360]
    have hX0 : ¬ X ≤ 0 := by linarith
    have hne1 : eqS X e1 = false := by rw [eqS_eq_decide]; simp; linarith
    have hnlt1 : ¬ X < e1 := by linarith
    simp only [interp, hX0, if_false, interp.go, hne1, Bool.false_eq_true, hnlt1]
    split
    · norm_num
    · split
      · have hpos : 0 < 360 - e1 := by linarith
        have : (360 - 0) / (360 - e1) * (X - e1) + 0 = 360 * (X - e1) / (360 - e1) := by ring
        rw [this, le_div_iff₀ hpos]
        nlinarith
      · norm_num
  -- ammount_spread = 1
  set W := extentMod (zero : ℝ) d with hWdef
  have hmax : maxS W W = W := by simp [maxS]
  have h10 : ((10 : ℚ) : ℝ) = 10 := by norm_num
  have hW0 : ¬ W ≤ 0 := by linarith
  have hne10 : eqS W 10 = false := by rw [eqS_eq_decide]; simp; linarith
  have hnlt10 : ¬ W < 10 := by linarith
  have : amountSpread W W = 1 := by
    simp only [amountSpread, hmax, interp, zero_real, one_real, k_real, h10, hW0, if_false, interp.go, hne10,
      Bool.false_eq_true, hnlt10]
  rw [this]
  simp only [k_real]
  norm_num

/-- the point-only class of `PolarExtentHandler.handle(position, 0, 0, 0)`: one end distance and `ammount_spread ≤ 1e-10`
    (exactly the guard of `polarPointPan`) -/
def InPointClass (pos : V3 ℝ) : Prop :=
  ∃ w h, polarExtents (norm3 pos) (zero : ℝ) zero zero = [(w, h)] ∧ ¬ (k (1 / 10000000000) : ℝ) < amountSpread w h

theorem arg_mono (d : ℝ) (h1 : 1 ≤ d) : Complex.arg ⟨d, 1 / 5⟩ ≤ Complex.arg ⟨1, 1 / 5⟩ := by
  set z1 : ℂ := ⟨1, 1 / 5⟩ with hz1
  set zd : ℂ := ⟨d, 1 / 5⟩ with hzd
  have hz1ne : z1 ≠ 0 := by
    intro h; have := congrArg Complex.im h; simp [hz1] at this
  have hzdne : zd ≠ 0 := by
    intro h; have := congrArg Complex.im h; simp [hzd] at this
  have hr1pos : 0 < ‖z1‖ := norm_pos_iff.mpr hz1ne
  have hrdpos : 0 < ‖zd‖ := norm_pos_iff.mpr hzdne
  have hsin : Real.sin (z1.arg - zd.arg) = (d - 1) / (5 * ‖zd‖ * ‖z1‖) := by
    rw [Real.sin_sub, Complex.sin_arg, Complex.sin_arg, Complex.cos_arg hz1ne, Complex.cos_arg hzdne]
    simp only [hz1, hzd]
    field_simp
  have hge : 0 ≤ Real.sin (z1.arg - zd.arg) := by
    rw [hsin]; exact div_nonneg (by linarith) (by positivity)
  have hθd : 0 ≤ zd.arg := Complex.arg_nonneg_iff.mpr (by simp [hzd])
  have hθd' : zd.arg < Real.pi / 2 := Complex.arg_lt_pi_div_two_iff.mpr (Or.inl (by simp [hzd]; linarith))
  have hθ1 : 0 ≤ z1.arg := Complex.arg_nonneg_iff.mpr (by simp [hz1])
  by_contra hcon
  have := Real.sin_neg_of_neg_of_neg_pi_lt (x := z1.arg - zd.arg) (by linarith [not_le.mp hcon]) (by linarith [Real.pi_pos])
  linarith

/-- `extent_mod(0, d) = 0` for every distance `d ≥ 1` -/
theorem extentMod_zero_far (d : ℝ) (h1 : 1 ≤ d) : extentMod (zero : ℝ) d = 0 := by
  have h15 : ((1 / 5 : ℚ) : ℝ) = 1 / 5 := by norm_num
  have h360 : ((360 : ℚ) : ℝ) = 360 := by norm_num
  have h180 : ((180 : ℚ) : ℝ) = 180 := by norm_num
  have h4 : ((4 : ℚ) : ℝ) = 4 := by norm_num
  have hsize : interp (0 : ℝ) [0, 360] [((1 / 5 : ℚ) : ℝ), 1] = 1 / 5 := by
    simp only [interp, le_refl, if_true, h15]
  have hat : ∀ y x : ℝ, Scalar.atan2 y x = Complex.arg ⟨x, y⟩ := fun _ _ => rfl
  simp only [extentMod, degrees, k_real, h4, h180, pi_real, zero_real, one_real, h360, hsize, hat]
  have hm := arg_mono d h1
  have hc : (0 : ℝ) < 180 / Real.pi := div_pos (by norm_num) Real.pi_pos
  have hle : 4 * (Complex.arg ⟨d, 1 / 5⟩ * (180 / Real.pi)) ≤ 4 * (Complex.arg ⟨1, 1 / 5⟩ * (180 / Real.pi)) := by
    have := mul_le_mul_of_nonneg_right hm hc.le
    linarith
  generalize 4 * (Complex.arg ⟨d, 1 / 5⟩ * (180 / Real.pi)) = X at hle
  generalize 4 * (Complex.arg ⟨1, 1 / 5⟩ * (180 / Real.pi)) = e1 at hle
  simp only [interp]
  split
  · rfl
  · simp only [interp.go]
    split
    · rfl
    · split
      · simp
      · rename_i hne hnlt
        exfalso
        rcases lt_or_eq_of_le hle with h | h
        · exact hnlt h
        · exact hne (by rw [(eqS_real X e1).mpr h])

/-- **every position at distance ≥ 1 is in the point-only class** -/
theorem inPointClass_of_far (pos : V3 ℝ) (h : 1 ≤ norm3 pos) : InPointClass pos := by
  have hpd : polarDistances (norm3 pos) (zero : ℝ) = [norm3 pos] := by
    simp only [polarDistances]
    rw [if_pos ((eqS_real _ _).mpr rfl)]
  refine ⟨0, 0, ?_, ?_⟩
  · simp only [polarExtents, hpd, List.map_cons, List.map_nil, extentMod_zero_far _ h]
  · have : amountSpread (0 : ℝ) 0 = 0 := by simp [amountSpread, maxS, interp]
    rw [this]; simp only [k_real]; norm_num

/-- a position in the point-only class is not the origin (it is farther than 1/2) -/
theorem InPointClass.ne_zero {pos : V3 ℝ} (h : InPointClass pos) : pos ≠ (0, 0, 0) := by
  obtain ⟨w, hh, he, hs⟩ := h
  have := polarPoint_far (norm3 pos) w hh (by simp only [norm3, sqrt_real]; exact Real.sqrt_nonneg _) he hs
  intro h0
  rw [h0] at this
  simp [norm3] at this
  linarith

/-- class membership only depends on the distance -/
theorem InPointClass.of_norm_eq {pos pos' : V3 ℝ} (h : InPointClass pos) (hn : norm3 pos' = norm3 pos) : InPointClass pos' := by
  obtain ⟨w, hh, he, hs⟩ := h
  exact ⟨w, hh, by rw [hn]; exact he, hs⟩

end Earverif.GainCalc
