/-
C06 / C14 link: what `validate_structure` — in the C14 model (`Model/Validate.lean`, proofs in `Proofs/C14.lean`,
`Proofs/C14Matrix.lean`) — establishes for the item-selection model (`Model/SelectItems.lean`).

`toDoc a` (Model/SelectItems.lean) is the C14 document graph of an index-based document.  Proved here:
`validateStructure (toDoc a) = ok` implies `multitreeOK a.fmt` (the hypothesis of the C06 theorems; from C14's
`mtDfs_ok`: a successful dfs visits pairwise different nodes) and that `wrappedPacks a.fmt` (building the
`AllocationPack`s) succeeds (from C14's `matrixPackOk_of_struct`, `decode_encode_input`).  `wrappedNonempty` is NOT
implied: an audioPackFormat without channels and sub-packs passes validation (example in `Props/C06.lean`).
Core Lean only.
-/
import Earverif.Proofs.C06WF
import Earverif.Proofs.C14Matrix

namespace Earverif.Adm

open Earverif.AdmV (Doc)
open Earverif.Validate (validateStructure validateMultitree)

/-! ### `validate_structure` (C14 model) ⇒ `multitreeOK` (hypothesis of the C06 theorems) -/

/-- the C14 document `d` has the audioPackFormat → audioPackFormat / audioChannelFormat reference graph of `f`. -/
structure PackGraphSim (f : Formats) (d : Doc) : Prop where
  npacks : d.packs.length = f.packs.length
  subs : ∀ p, (d.pack p).packs = (f.pack p).subPacks
  chans : ∀ p, (d.pack p).channels = (f.pack p).channels

def toNode : PNode → Validate.Node
  | .pack i => .pack i
  | .chan c => .chan c

theorem flatMap_sublist {α β : Type} {f g : α → List β} : ∀ {l : List α}, (∀ x ∈ l, (f x).Sublist (g x)) →
    (l.flatMap f).Sublist (l.flatMap g)
  | [], _ => by simp
  | x :: xs, h => by
    simp only [List.flatMap_cons]
    exact (h x (List.mem_cons_self ..)).append (flatMap_sublist fun y hy => h y (List.mem_cons_of_mem _ hy))

/-- the nodes the C06 predicate looks at are among the nodes the dfs of the C14 model visits, in the same order. -/
theorem mtVisit_sublist {f : Formats} {d : Doc} (h : PackGraphSim f d) : ∀ fuel p,
    ((mtVisit f fuel p).map toNode).Sublist (Validate.visit d (fuel + 1) (.pack p))
  | 0, _ => by simp [mtVisit]
  | fuel + 1, p => by
    have ih := mtVisit_sublist h fuel
    rw [Validate.visit_succ]
    simp only [mtVisit, List.map_cons, toNode, Validate.mtChildren, List.flatMap_append, h.subs, h.chans,
      List.map_append, List.map_map, List.flatMap_map, List.map_flatMap]
    refine List.Sublist.cons_cons _ (List.Sublist.append ?_ ?_)
    · exact flatMap_sublist fun s _ => ih s
    · have e : ∀ l : List Nat, l.flatMap (fun a => Validate.visit d (fuel + 1) (Validate.Node.chan a)) =
          l.map (toNode ∘ PNode.chan) := by
        intro l
        induction l with
        | nil => rfl
        | cons c t ih' => rw [List.flatMap_cons, ih', Validate.visit_chan]; rfl
      rw [e]
      exact List.Sublist.refl _

/-- **multitreeOK_of_validateMultitree**: when `_validate_pack_channel_multitree` (C14 model: `mtDfs`, proved
`mtDfs_ok` there) accepts a document with the pack/channel graph of `f`, the C06 predicate `multitreeOK f` holds. -/
theorem multitreeOK_of_validateMultitree {f : Formats} {d : Doc} (h : PackGraphSim f d)
    (hv : validateMultitree d = .ok ()) : multitreeOK f = true := by
  unfold multitreeOK
  simp only [List.all_eq_true, List.mem_range, decide_eq_true_eq]
  intro p hp
  have hdfs := Validate.forE_ok hv p (List.mem_range.mpr (by rw [h.npacks]; exact hp))
  cases hm : Validate.mtDfs d (d.packs.length + 2) (.pack p) [] [] with
  | error e => rw [hm] at hdfs; cases hdfs
  | ok s' =>
    obtain ⟨hnd, _, _⟩ := Validate.mtDfs_ok d _ _ _ _ _ hm
    rw [h.npacks] at hnd
    exact nodup_of_nodup_map toNode ((mtVisit_sublist h _ p).nodup hnd)

theorem getD_map_default' {α β : Type} (f : α → β) (l : List α) (i : Nat) (d : α) (d' : β) (hd : f d = d') :
    (l.map f).getD i d' = f (l.getD i d) := by
  subst hd
  simp only [List.getD_eq_getElem?_getD, List.getElem?_map]
  cases l[i]? <;> rfl

theorem toDoc_pack (a : Adm) (p : Nat) : (toDoc a).pack p = tdPack (a.fmt.pack p) :=
  getD_map_default' tdPack a.fmt.packs p default default rfl

theorem toDoc_packGraph (a : Adm) : PackGraphSim a.fmt (toDoc a) :=
  ⟨by simp [toDoc], fun p => by rw [toDoc_pack]; rfl, fun p => by rw [toDoc_pack]; rfl⟩

/-- **multitreeOK_of_validate**: if `validate_structure` (the C14 model `validateStructure`, run on the document
graph `toDoc a` of the same document) accepts, the hypothesis `multitreeOK` of the C06 theorems holds. -/
theorem multitreeOK_of_validate {a : Adm} (hv : validateStructure (toDoc a) = .ok ()) :
    multitreeOK a.fmt = true :=
  multitreeOK_of_validateMultitree (toDoc_packGraph a) (Validate.validateStructure_ok hv).multitree

theorem tdType_matrix {n : Nat} : tdType n = .matrix ↔ n = 2 := by
  unfold tdType
  split <;> simp_all

/-- **wrappedPacks_ok_of_validate**: on a document that `validate_structure` accepts, building the
`AllocationPack`s (`_PackAllocator(adm)`: `matrix.type_of`, `[encode_pack] = ...`, `encode_pack.inputPackFormat`)
never fails — C14's `matrixPackOk_of_struct` / `decode_encode_input` read through `toDoc`. -/
theorem wrappedPacks_ok_of_validate {a : Adm} (hv : validateStructure (toDoc a) = .ok ()) :
    ∃ wps, wrappedPacks a.fmt = .ok wps := by
  have hs := Validate.validateStructure_ok hv
  rw [wrappedPacks_eq]
  refine ⟨_, (flatMapE_ok_iff _ _ _).2 ⟨fun p _ => ?_, rfl⟩⟩
  unfold wrapOne
  split
  · exact ⟨_, rfl⟩
  · rename_i hty
    have hty2 : (a.fmt.pack p).type = 2 := by
      by_cases h2 : (a.fmt.pack p).type = 2
      · exact h2
      · exact absurd h2 hty
    have hp : ((toDoc a).pack p).type = .matrix := by rw [toDoc_pack]; exact tdType_matrix.2 hty2
    have hm := Validate.matrixPackOk_of_struct hs hp
    have hin : ((toDoc a).pack p).input = (a.fmt.pack p).inputPack := by rw [toDoc_pack]; rfl
    have hout : ((toDoc a).pack p).output = (a.fmt.pack p).outputPack := by rw [toDoc_pack]; rfl
    have henc : ((toDoc a).pack p).encodePacks = (a.fmt.pack p).encodePacks := by rw [toDoc_pack]; rfl
    unfold wrapMatrix
    dsimp only
    cases hi : (a.fmt.pack p).inputPack with
    | some i =>
      cases ho : (a.fmt.pack p).outputPack with
      | some o => exact ⟨_, rfl⟩
      | none => exact ⟨_, rfl⟩
    | none =>
      cases ho : (a.fmt.pack p).outputPack with
      | none =>
        exfalso
        obtain ⟨t, ht, _⟩ := hm.apf.typed
        unfold Validate.typeOf at ht
        rw [hin, hout, hi, ho] at ht
        cases ht
      | some o =>
        have ht : Validate.typeOf ((toDoc a).pack p) = .ok .decode := by
          unfold Validate.typeOf
          rw [hin, hout, hi, ho]
        obtain ⟨e, ii, he, _, _, _, hii⟩ := Validate.decode_encode_input hm ht
        rw [henc] at he
        have hei : (a.fmt.pack e).inputPack = some ii := by
          rw [toDoc_pack] at hii; exact hii
        simp only [he, hei]
        exact ⟨_, rfl⟩

end Earverif.Adm
