/-
C02 — rendered output is independent of how the input is split into blocks; concatenated output +
tail has exactly the input length, starting at time zero.

Component theorems (each for ALL partitions of the stream, by induction) about the literal state
machines of `Model/Stream.lean`; helper lemmas are in `Proofs/C02{Delay,Vbs}.lean`.
The `BlockProcessingChannel` component is `Earverif.Timeline.bpc_eq_gainAt` in `Props/C03.lean`.
-/
import Earverif.Proofs.C02Vbs
import Earverif.Proofs.C02Laws
import Earverif.Proofs.C02Compose
import Earverif.Proofs.C02Render
import Earverif.Proofs.C02RenderTS
import Earverif.Proofs.C02OverlapSave
import Earverif.Proofs.C02Trace
import Earverif.Props.C20
namespace Earverif.Stream

/-- **`delay_eq`** — `Delay(delay = d)` fed ANY partition `parts` of a stream `x = parts.flatten`
(empty and single-sample blocks included): the concatenated outputs are the first `len(x)` samples of
`zeros(d) ++ x` (i.e. `x` shifted by `d`), the memory afterwards holds the remaining `d` samples, and every
call returns exactly as many samples as it was given. -/
theorem delay_eq {α : Type} (z : α) (d : Nat) (parts : List (List α)) :
    (Delay.run z (Delay.init z d) parts).1.flatten =
        (List.replicate d z ++ parts.flatten).take parts.flatten.length ∧
      (Delay.run z (Delay.init z d) parts).2 =
        (List.replicate d z ++ parts.flatten).drop parts.flatten.length ∧
      (Delay.run z (Delay.init z d) parts).1.map List.length = parts.map List.length :=
  delay_run_eq z parts (List.replicate d z)

/-- C02 for the delay line: two partitions of the same stream give the same concatenated output. -/
theorem delay_block_independent {α : Type} (z : α) (d : Nat) (p q : List (List α)) (h : p.flatten = q.flatten) :
    (Delay.run z (Delay.init z d) p).1.flatten = (Delay.run z (Delay.init z d) q).1.flatten := by
  rw [(delay_eq z d p).1, (delay_eq z d q).1, h]

/-- C02 for the block-size adapter (`vbs_eq` is in `Proofs/C02Vbs.lean`): two partitions of the same
stream give the same concatenated output, whatever the wrapped block function is. -/
theorem vbs_block_independent {σ α : Type} (f : σ → List α → σ × List α) (B : Nat) (z : α) (s0 : σ) (hB : 1 ≤ B)
    (hf : ∀ s blk, blk.length = B → (f s blk).2.length = B) (p q : List (List α)) (h : p.flatten = q.flatten) :
    (Vbs.run f B z (Vbs.init f B z s0) p).1.flatten = (Vbs.run f B z (Vbs.init f B z s0) q).1.flatten := by
  rw [(vbs_eq f B z s0 hB hf p).1, (vbs_eq f B z s0 hB hf q).1, h]

/-- Non-vacuity: a delay of 2 fed `[1,2,3] [] [4]`. -/
example : (Delay.run (0 : Int) (Delay.init 0 2) [[1, 2, 3], [], [4]]).1 = [[0, 0, 1], [], [2]] := by decide

/-- Non-vacuity: the adapter with `block_size = 2` around "negate the block" fed `[1] [2,3,4] [] [5]`. -/
example : (Vbs.run (fun (s : Unit) (b : List Int) => (s, b.map (- ·))) 2 0
    (Vbs.init (fun (s : Unit) (b : List Int) => (s, b.map (- ·))) 2 0 ()) [[1], [2, 3, 4], [], [5]]).1 =
    [[0], [0, -1, -2], [], [-3]] := by decide

/-! ### The partitioned overlap-save FFT convolver (`Model/OverlapSave.lean`, proofs in `Proofs/C02OverlapSave.lean`)

`overlapSave_eq_fir` (any `B ≥ 1`, any non-empty filter, any number of blocks: concatenated `filter_block` outputs = the
linear convolution), `os_step_spec` (the state invariant), `os_fir_sim`, `vbs_overlapSave_run_eq` and
`vbs_overlapSave_eq` are proved there; here the C02 corollary and kernel-evaluated instances. -/

/-- C02 for the decorrelation path as `ObjectRenderer` builds it (the adapter around the overlap-save convolver): two
partitions of the same stream give the same concatenated output. -/
theorem vbs_overlapSave_block_independent {V : Type} [RMod V] [LawfulRMod V] (f : List V) (B : Nat) (hB : 1 ≤ B)
    (hf : f ≠ []) (p q : List (List V)) (h : p.flatten = q.flatten) :
    (Vbs.run OS.step B 0 (Vbs.init OS.step B 0 (OS.init B f)) p).1.flatten =
      (Vbs.run OS.step B 0 (Vbs.init OS.step B 0 (OS.init B f)) q).1.flatten := by
  rw [(vbs_overlapSave_eq f B hB hf p).1, (vbs_overlapSave_eq f B hB hf q).1, h]

/-- Non-vacuity of `overlapSave_eq_fir` (hypotheses `1 ≤ B`, `f ≠ []`, blocks of `B` rows): `B = 2`, a 5-tap filter
(three partitions, the last one short), three blocks; the outputs are the linear convolution. -/
example : (OS.run (OS.init 2 [1, 2, 3, 4, (5 : Rat)]) [[1, 0], [0, 2], [0, 0]]).toOption.map (·.2) =
    some [[1, 2], [3, 6], [9, 6]] := by decide +kernel

example : firAll [1, 2, 3, 4, (5 : Rat)] [1, 0, 0, 2, 0, 0] = [1, 2, 3, 6, 9, 6] := by decide +kernel

/-- A filter shorter than the block (`B = 3`, 2 taps), and the adapter around the convolver over an uneven partition:
the convolution delayed by `B`. -/
example : (Vbs.run OS.step 3 0 (Vbs.init OS.step 3 0 (OS.init 3 [1, (-1 : Rat)])) [[1], [2, 3, 4, 5], [], [6, 7]]).1 =
    [[0], [0, 0, 1, 1], [], [1, 1]] := by decide +kernel

end Earverif.Stream

/-! ### Composition (`Renderer.render` / `get_tail`) — partial -/
namespace Earverif.Renderer
open Earverif.Stream Earverif.Timeline

section
variable {V : Type} [RMod V]

/-- The shifted sum `A[s+D] + B[s] + C[s]` of the three streams the aligner receives. -/
def alignedSum (D : Nat) (rs : List (Nat × List V × List V × List V)) : List V :=
  List.zipWith (· + ·)
    (List.zipWith (· + ·) ((rs.map (·.2.1)).flatten.drop D) (rs.map (·.2.2.1)).flatten)
    (rs.map (·.2.2.2)).flatten

/-- Component fact (4) as a named statement (proved for all rounds by `aligner_eq` below; round 1 carried it as a
hypothesis): for rounds with three equally long blocks at offsets (−D, 0, 0) no assertion of `BlockAligner` fails and
the concatenated `get`s are the shifted sum. -/
def AlignerFact (D : Nat) (rs : List (Nat × List V × List V × List V)) : Prop :=
  ∃ outs al, alignRun D (Aligner.init : Aligner V) 0 rs = .ok (outs, al) ∧ outs.flatten = alignedSum D rs

/-- **`aligner_eq`** — component fact (4), now proved (`Proofs/C02Aligner.lean`): for ANY sequence of rounds whose three
blocks have the length by which `start_sample` advances (empty rounds included), no assertion of `BlockAligner` fails
and the concatenated `get`s are the shifted sum `A[s+D] + B[s] + C[s]`. -/
theorem aligner_eq [LawfulRMod V] (D : Nat) (rs : List (Nat × List V × List V × List V)) (hok : RoundsOK rs) :
    AlignerFact D rs := by
  obtain ⟨outs, al, h1, h2⟩ := aligner_run_eq D rs hok
  exact ⟨outs, al, h1, h2⟩

/-- **`render_refines_spec_partial`** (kept from round 1, the aligner hypothesis now discharged by `aligner_eq`): IF the
three type renderers, each run on its own over the blocks followed by the tail block, succeed with per-call outputs
`o1s/o2s/o3s` as long as the blocks, THEN the whole session succeeds and its concatenated output is the aligned sum
`obj[s + overall_delay] + ds[s] + hoa[s]`.  Superseded by `render_refines_spec` (`Proofs/C02Render.lean`), which also
discharges the three renderer hypotheses, and by `render_refines_spec_os` (`Proofs/C02OverlapSave.lean`). -/
theorem render_refines_spec_partial [LawfulRMod V] (c : Cfg V) (objs : List (ObjItem V)) (dss : List (DsItem V))
    (hoas : List (HoaItem V)) (parts : List (List (List Rat)))
    (obj' : ObjState V) (ds' : List (Nat × DsBpc V)) (hoa' : List (List Nat × HoaBpc V)) (o1s o2s o3s : List (List V))
    (hobj : subRun (fun s S0 b => ObjState.render c s S0 b) (ObjState.init c objs) 0 (parts ++ [tailBlock c]) =
      .ok (obj', o1s))
    (hds : subRun (dsRender c) (dss.map fun it => (it.track, ⟨it.blocks, {}, []⟩)) 0 (parts ++ [tailBlock c]) =
      .ok (ds', o2s))
    (hhoa : subRun (hoaRender c) (hoas.map fun it => (it.tracks, ⟨it.blocks, {}, []⟩)) 0 (parts ++ [tailBlock c]) =
      .ok (hoa', o3s))
    (hl1 : o1s.map List.length = (parts ++ [tailBlock c]).map List.length)
    (hl2 : o2s.map List.length = (parts ++ [tailBlock c]).map List.length)
    (hl3 : o3s.map List.length = (parts ++ [tailBlock c]).map List.length) :
    renderAll c objs dss hoas parts =
      .ok (alignedSum c.overall_delay (rounds (parts ++ [tailBlock c]) o1s o2s o3s)) := by
  obtain ⟨outs, al, hrun, hflat⟩ :=
    aligner_eq c.overall_delay _ (rounds_spec (parts ++ [tailBlock c]) o1s o2s o3s hl1 hl2 hl3).1
  rw [renderAll_eq_run]
  have := run_factor c (parts ++ [tailBlock c]) (RState.init c objs dss hoas) obj' ds' hoa' o1s o2s o3s outs al
    hobj hds hhoa hrun
  rw [this]
  simp only [hflat]

/-- **`C02_block_independent_partial`** (kept from round 1; superseded by `C02_block_independent` and, with the real
convolver structure and the explicit quantifier, by `C02_block_independent_os`) — two blockings `p`,
`q` of the same input: if each type renderer's concatenated output stream is the same for both blockings, the sessions
return the same audio. -/
theorem C02_block_independent_partial [LawfulRMod V] (c : Cfg V) (objs : List (ObjItem V)) (dss : List (DsItem V))
    (hoas : List (HoaItem V)) (p q : List (List (List Rat)))
    (objp objq : ObjState V) (dsp dsq : List (Nat × DsBpc V)) (hoap hoaq : List (List Nat × HoaBpc V))
    (a1 a2 a3 b1 b2 b3 : List (List V))
    (hp1 : subRun (fun s S0 b => ObjState.render c s S0 b) (ObjState.init c objs) 0 (p ++ [tailBlock c]) = .ok (objp, a1))
    (hp2 : subRun (dsRender c) (dss.map fun it => (it.track, ⟨it.blocks, {}, []⟩)) 0 (p ++ [tailBlock c]) = .ok (dsp, a2))
    (hp3 : subRun (hoaRender c) (hoas.map fun it => (it.tracks, ⟨it.blocks, {}, []⟩)) 0 (p ++ [tailBlock c]) = .ok (hoap, a3))
    (hq1 : subRun (fun s S0 b => ObjState.render c s S0 b) (ObjState.init c objs) 0 (q ++ [tailBlock c]) = .ok (objq, b1))
    (hq2 : subRun (dsRender c) (dss.map fun it => (it.track, ⟨it.blocks, {}, []⟩)) 0 (q ++ [tailBlock c]) = .ok (dsq, b2))
    (hq3 : subRun (hoaRender c) (hoas.map fun it => (it.tracks, ⟨it.blocks, {}, []⟩)) 0 (q ++ [tailBlock c]) = .ok (hoaq, b3))
    (hpl1 : a1.map List.length = (p ++ [tailBlock c]).map List.length)
    (hpl2 : a2.map List.length = (p ++ [tailBlock c]).map List.length)
    (hpl3 : a3.map List.length = (p ++ [tailBlock c]).map List.length)
    (hql1 : b1.map List.length = (q ++ [tailBlock c]).map List.length)
    (hql2 : b2.map List.length = (q ++ [tailBlock c]).map List.length)
    (hql3 : b3.map List.length = (q ++ [tailBlock c]).map List.length)
    (hsame : alignedSum c.overall_delay (rounds (p ++ [tailBlock c]) a1 a2 a3) =
      alignedSum c.overall_delay (rounds (q ++ [tailBlock c]) b1 b2 b3)) :
    renderAll c objs dss hoas p = renderAll c objs dss hoas q := by
  rw [render_refines_spec_partial c objs dss hoas p objp dsp hoap a1 a2 a3 hp1 hp2 hp3 hpl1 hpl2 hpl3,
    render_refines_spec_partial c objs dss hoas q objq dsq hoaq b1 b2 b3 hq1 hq2 hq3 hql1 hql2 hql3, hsame]

end

/-! ### The full composition -/

section Full
variable {V : Type} [RMod V] [LawfulRMod V]

/-- **`C02_block_independent`** — for a fixed input and accepted items, the rendered audio (all returned blocks and the
tail, concatenated) does not depend on how the input is divided into `render` calls; every blocking succeeds.
(Statement about the model with the FIR stand-in and totalised indexing, for ALL inputs; the same with the real
convolver structure and the quantifier spelled out is `C02_block_independent_os` below.) -/
theorem C02_block_independent (c : Cfg V) (objs : List (ObjItem V)) (dss : List (DsItem V)) (hoas : List (HoaItem V))
    (hok : SessionOK c objs dss hoas) (p q : List (List (List Rat))) (h : p.flatten = q.flatten) :
    renderAll c objs dss hoas p = renderAll c objs dss hoas q := by
  rw [render_refines_spec c objs dss hoas hok p, render_refines_spec c objs dss hoas hok q, h]

/-- **`C02_length_and_origin`** — every blocking succeeds, the concatenation of all returned blocks and the tail has
exactly as many frames as were fed in, and frame `s` of it is output time `s` (the specified sample `outAt … s`).
(FIR stand-in, totalised indexing; in-quantifier version with the real convolver structure: `C02_length_and_origin_os`.) -/
theorem C02_length_and_origin (c : Cfg V) (objs : List (ObjItem V)) (dss : List (DsItem V)) (hoas : List (HoaItem V))
    (hok : SessionOK c objs dss hoas) (parts : List (List (List Rat))) :
    ∃ out, renderAll c objs dss hoas parts = .ok out ∧ out.length = parts.flatten.length ∧
      ∀ s, s < parts.flatten.length →
        out[s]? = some (RenderSpec.outAt c objs dss hoas parts.flatten s) := by
  refine ⟨_, render_refines_spec c objs dss hoas hok parts, by simp [RenderSpec.out], ?_⟩
  intro s hs
  simp only [RenderSpec.out, List.getElem?_map, List.getElem?_range hs, Option.map_some]

/-- **`C02_block_independent_os`** — the property, for the renderer model with the partitioned overlap-save convolver
inside `ObjectRenderer` and the numpy exceptions of out-of-range tracks / mis-shaped decode matrices
(`Model/OverlapSave.lean`; via `render_refines_spec_os`), inside the static conditions (`SessionWF`: accepted timelines,
`block_size ≥ 1`, tracks inside the input, decode matrices as wide as the item has tracks, a decorrelation filter with
≥ 1 tap): the rendered audio (all returned blocks and the tail, concatenated) does not depend on the blocking; every
blocking succeeds. -/
theorem C02_block_independent_os (c : Cfg V) (objs : List (ObjItem V)) (dss : List (DsItem V)) (hoas : List (HoaItem V))
    (hok : SessionWF c objs dss hoas) (p q : List (List (List Rat))) (h : p.flatten = q.flatten) :
    renderAllOS c objs dss hoas p = renderAllOS c objs dss hoas q := by
  rw [render_refines_spec_os_ok c objs dss hoas hok.ok hok.taps_ne hok.index p,
    render_refines_spec_os_ok c objs dss hoas hok.ok hok.taps_ne hok.index q, h]

/-- **`C02_block_independent_os_of_ok`** — without the static index conditions (accepted timelines only): whenever two
blockings of the same input both return audio, it is the same audio.  (A session outside `IndexOK` may raise; WHICH
numpy exception is raised first can depend on the blocking — e.g. an HOA item whose second decode matrix is mis-shaped,
followed by an item with a track outside the input — so equality of the `Except` values is not claimed there.) -/
theorem C02_block_independent_os_of_ok (c : Cfg V) (objs : List (ObjItem V)) (dss : List (DsItem V))
    (hoas : List (HoaItem V)) (hok : SessionOK c objs dss hoas) (hf : c.taps ≠ []) (p q : List (List (List Rat)))
    (h : p.flatten = q.flatten) (a b : List V) (ha : renderAllOS c objs dss hoas p = .ok a)
    (hb : renderAllOS c objs dss hoas q = .ok b) : a = b := by
  rcases render_refines_spec_os c objs dss hoas hok hf p with h1 | ⟨-, h1⟩
  · rcases render_refines_spec_os c objs dss hoas hok hf q with h2 | ⟨-, h2⟩
    · rw [h1] at ha; rw [h2] at hb; cases ha; cases hb; rw [h]
    · rw [hb] at h2; rcases h2 with h2 | h2 | h2 <;> cases h2
  · rw [ha] at h1; rcases h1 with h1 | h1 | h1 <;> cases h1

/-- **`C02_length_and_origin_os`** — the same for `C02_length_and_origin`: exactly the input's length, frame `s` is
output time `s`. -/
theorem C02_length_and_origin_os (c : Cfg V) (objs : List (ObjItem V)) (dss : List (DsItem V)) (hoas : List (HoaItem V))
    (hok : SessionWF c objs dss hoas) (parts : List (List (List Rat))) :
    ∃ out, renderAllOS c objs dss hoas parts = .ok out ∧ out.length = parts.flatten.length ∧
      ∀ s, s < parts.flatten.length →
        out[s]? = some (RenderSpec.outAt c objs dss hoas parts.flatten s) := by
  refine ⟨_, render_refines_spec_os_ok c objs dss hoas hok.ok hok.taps_ne hok.index parts, by simp [RenderSpec.out], ?_⟩
  intro s hs
  simp only [RenderSpec.out, List.getElem?_map, List.getElem?_range hs, Option.map_some]

end Full

/-- Non-vacuity of `AlignerFact`: two rounds (lengths 2 and 3), delay 1, integer "frames". -/
example : AlignerFact (V := Rat) 1 [(2, [1, 2], [10, 20], [100, 200]), (3, [3, 4, 5], [30, 40, 50], [300, 400, 500])] :=
  ⟨_, _, rfl, by decide +kernel⟩

end Earverif.Renderer

/-! ### The composition with track processors (`Model/RendererTS.lean`): every item's audio comes from
`TrackProcessor(item.track_spec)` / `MultiTrackProcessor(item.track_specs)` (the C20 state machine) -/
namespace Earverif.RendererTS
open Earverif.Stream Earverif.Timeline Earverif.Renderer
open Earverif.TrackSpec (Spec Proc)

section
variable {V : Type} [RMod V] [LawfulRMod V]

/- `render_refines_spec_ts` (in `Proofs/C02RenderTS.lean`, audited with the theorems below): for every
`SessionOKTS` session and every partition, `renderAllTS = .ok ((RenderSpec.out c directItems (itemStreams …
parts.flatten)).take T)` — the C02/C03 specification applied to the per-item streams `meaning(spec)` of C20.
`render_eq_outTS` is the same with the right-hand side written out (`outTS`). -/

/-- **`C02_block_independent_ts`** — with arbitrary well-formed track specs on the items (direct, silent, mix, gain,
matrix coefficient with gain and delay, nested), the rendered audio (all returned blocks and the tail, concatenated)
does not depend on how the input is divided into `render` calls; every blocking succeeds.  In particular the delay
lines inside the track processors carry their samples correctly across every block boundary, and across the tail. -/
theorem C02_block_independent_ts (c : Cfg V) (objs : List (ObjItemTS V)) (dss : List (DsItemTS V))
    (hoas : List (HoaItemTS V)) (hok : SessionOKTS c objs dss hoas) (p q : List (List (List Rat)))
    (h : p.flatten = q.flatten) :
    renderAllTS c objs dss hoas p = renderAllTS c objs dss hoas q := by
  rw [render_eq_outTS c objs dss hoas hok p, render_eq_outTS c objs dss hoas hok q, h]

/-- **`C02_length_and_origin_ts`** — every blocking succeeds, the output has exactly the input's length and frame `s`
is output time `s` (the specified sample `outAtTS … s`). -/
theorem C02_length_and_origin_ts (c : Cfg V) (objs : List (ObjItemTS V)) (dss : List (DsItemTS V))
    (hoas : List (HoaItemTS V)) (hok : SessionOKTS c objs dss hoas) (parts : List (List (List Rat))) :
    ∃ out, renderAllTS c objs dss hoas parts = .ok out ∧ out.length = parts.flatten.length ∧
      ∀ s, s < parts.flatten.length → out[s]? = some (outAtTS c objs dss hoas parts.flatten s) := by
  refine ⟨_, render_eq_outTS c objs dss hoas hok parts, by simp [outTS], ?_⟩
  intro s hs
  simp only [outTS, List.getElem?_map, List.getElem?_range hs, Option.map_some]

/-- **`C02_block_independent_ts_os`** — `C02_block_independent_ts` for the renderer with track processors AND the
partitioned overlap-save convolver AND the `np.dot` exception (`renderAllTSOS`, `Model/OverlapSave.lean`), inside
`SessionWFTS` (decode matrices as wide as the item has track specs). -/
theorem C02_block_independent_ts_os (c : Cfg V) (objs : List (ObjItemTS V)) (dss : List (DsItemTS V))
    (hoas : List (HoaItemTS V)) (hok : SessionWFTS c objs dss hoas) (p q : List (List (List Rat)))
    (h : p.flatten = q.flatten) :
    renderAllTSOS c objs dss hoas p = renderAllTSOS c objs dss hoas q := by
  rw [render_eq_outTS_os_ok c objs dss hoas hok.ok hok.taps_ne hok.hoa_gains p,
    render_eq_outTS_os_ok c objs dss hoas hok.ok hok.taps_ne hok.hoa_gains q, h]

/-- **`C02_length_and_origin_ts_os`** — the same for `C02_length_and_origin_ts`. -/
theorem C02_length_and_origin_ts_os (c : Cfg V) (objs : List (ObjItemTS V)) (dss : List (DsItemTS V))
    (hoas : List (HoaItemTS V)) (hok : SessionWFTS c objs dss hoas) (parts : List (List (List Rat))) :
    ∃ out, renderAllTSOS c objs dss hoas parts = .ok out ∧ out.length = parts.flatten.length ∧
      ∀ s, s < parts.flatten.length → out[s]? = some (outAtTS c objs dss hoas parts.flatten s) := by
  refine ⟨_, render_eq_outTS_os_ok c objs dss hoas hok.ok hok.taps_ne hok.hoa_gains parts, by simp [outTS], ?_⟩
  intro s hs
  simp only [outTS, List.getElem?_map, List.getElem?_range hs, Option.map_some]

end

/-- The stream `meaning(spec)(x ++ tail silence)` the specification reads (`sAt`) is literally what the real
`TrackProcessor(spec)` returns over the calls of a session — C20's `processor_eq_meaning` for the partition
`parts ++ [tail block]`. -/
theorem item_stream_eq_processor_run {V : Type} (c : Cfg V) (spec : Spec Rat)
    (hwf : spec.wf (c.sr : Int) c.n_in = true) (parts : List (List (List Rat))) :
    ∃ outs, TrackSpec.runSpec c.sr c.n_in spec (parts ++ [tailFrames c]) = .ok outs ∧
      outs.flatten = TrackSpec.meaning c.sr c.n_in spec (parts.flatten ++ tailFrames c) := by
  obtain ⟨h1, h2⟩ := TrackSpec.processor_eq_meaning (c.sr : Int) c.n_in spec hwf (parts ++ [tailFrames c])
  refine ⟨_, h1, ?_⟩
  rw [h2]
  simp

end Earverif.RendererTS
