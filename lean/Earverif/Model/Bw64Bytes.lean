/-
Byte-level helpers shared by the BW64 writer and reader models (C09 / C17).

A file (the content of a `BytesIO`) is a `List Nat`; every element stands for one
byte.  Nothing in the models depends on the elements being `< 256` except the
little-endian decoders, so the theorems hold for arbitrary lists and in particular for
real byte strings.  Core Lean only.
-/
namespace Earverif.Bw64

abbrev Bytes := List Nat

/-- `struct.pack('<H' | '<I' | '<Q', n)` for `w = 2 | 4 | 8` (value taken mod `256^w`;
the real `struct.pack` raises for out-of-range values, see `Packable` in the writer). -/
def le : Nat → Nat → Bytes
  | 0, _ => []
  | w + 1, n => (n % 256) :: le w (n / 256)

/-- `struct.unpack` of an unsigned little-endian integer. -/
def fromLE : Bytes → Nat
  | [] => 0
  | b :: bs => b + 256 * fromLE bs

/-- `buffer.seek(pos); buffer.read(n)` on a `BytesIO` holding `f`: up to `n` bytes, fewer
(possibly none) at the end of the file. -/
def readAt (f : Bytes) (pos n : Nat) : Bytes := (f.drop pos).take n

/-- `buffer.seek(off); buffer.write(bs)` on a `BytesIO` holding `buf`, for `off ≤ len(buf)`:
overwrites in place (and extends the buffer if the write runs past the end). -/
def patchAt (buf : Bytes) (off : Nat) (bs : Bytes) : Bytes :=
  buf.take off ++ bs ++ buf.drop (off + bs.length)

/-- the pad byte written after an odd-sized chunk body -/
def pad (n : Nat) : Bytes := if n % 2 = 1 then [0] else []

/-! four-character codes -/
def idRIFF : Bytes := [82, 73, 70, 70]
def idRF64 : Bytes := [82, 70, 54, 52]
def idBW64 : Bytes := [66, 87, 54, 52]
def idWAVE : Bytes := [87, 65, 86, 69]
def idJUNK : Bytes := [74, 85, 78, 75]
def idDs64 : Bytes := [100, 115, 54, 52]
def idFmt : Bytes := [102, 109, 116, 32]
def idData : Bytes := [100, 97, 116, 97]
def idChna : Bytes := [99, 104, 110, 97]
def idAxml : Bytes := [97, 120, 109, 108]
def idBext : Bytes := [98, 101, 120, 116]

/-- `b'\xff\xff\xff\xff'` -/
def ffff : Bytes := [255, 255, 255, 255]

def isAlnum (b : Nat) : Bool :=
  (48 ≤ b && b ≤ 57) || (65 ≤ b && b ≤ 90) || (97 ≤ b && b ≤ 122)

/-- `CHUNK_ID_RE.fullmatch(id) is not None` for `CHUNK_ID_RE = [a-zA-Z0-9]+ *`: one or
more alphanumerics followed only by blanks. -/
def validId (id : Bytes) : Bool :=
  let a := id.takeWhile isAlnum
  !a.isEmpty && (id.drop a.length).all (· == 32)

end Earverif.Bw64
