/-
Text form of floating-point numbers in `ear/fileio/adm/xml.py` (the float leaf of C08).  Core Lean only.

What the Python does that this file mirrors:
* `FloatType   = TypeConvert(float, "{:.5f}".format)` and the bare `float(text)` / `FloatType.dumps(x)` uses of the
  hand-written handlers:
    - `"{:.5f}".format(x)`  ->  `fmt5 x`        (CPython: `PyOS_double_to_string(x, 'f', 5, …)` = David Gay's dtoa in
      mode 3, i.e. the EXACT binary value rounded to five decimals, ties to the even last digit; the sign bit is
      printed even when the digits are all zero: `-0.00000`; `inf` / `-inf` / `nan`);
    - `float(s)` on a `str`  ->  `parseFloat s`   (CPython `PyFloat_FromString`: strip ASCII blanks, underscores only
      between digits, optional sign, `inf` / `infinity` / `nan` in any case, decimal digits with an optional point and
      an optional exponent, correctly rounded to binary64 by dtoa's `strtod` incl. subnormals, overflow to `inf`);
* `SecondsType = TypeConvert(Fraction, lambda t: "{:07.5f}".format(float(t)))` (jumpPosition interpolationLength):
    - `float(Fraction)` = correctly rounded `numerator / denominator` (`floatOfRat`; `OverflowError` -> `none`);
    - `"{:07.5f}"` = the same digits, zero-padded after the sign to a minimum width of 7 (`fmt07_5`) — never
      pads a finite number, since `0.00000` already has seven characters (theorem `fmt07_5_fin`);
    - `Fraction(s)` -> `parseFraction s` (the regular expression `fractions._RATIONAL_FORMAT`).

A finite double is `PyFloat.fin neg mag`: sign bit and exact magnitude (a non-negative rational), so that `-0.0` is
`fin true 0`.  Rounding to binary64 is `Earverif.Ieee.rn53` (53 significant bits, ties to even) inside the normal
range, the fixed grid `2^-1074` below `2^-1022`, overflow at `2^1024` (`rn64`).

Domain: strings of ASCII characters (Python also maps other Unicode decimal digits and blanks to ASCII first);
`parseFraction` additionally does not model `_` digit separators (a string with `_` is rejected by the model).
-/
import Earverif.Model.Ieee
import Earverif.Model.C08Digits

namespace Earverif.FloatText
open Earverif.Ieee Earverif.Digits

/-- a Python `float` -/
inductive PyFloat where
  /-- finite: sign bit, exact magnitude (`0 ≤ mag`) -/
  | fin (neg : Bool) (mag : Rat)
  | inf (neg : Bool)
  | nan
  deriving DecidableEq, Repr

/-- the real number a finite float stands for -/
def PyFloat.val : PyFloat → Rat
  | .fin neg mag => if neg then -mag else mag
  | _ => 0

/-! ### rounding a non-negative exact value to binary64 -/

/-- binary64 round-to-nearest-even of `x ≥ 0` with the exponent range of the format: multiples of `2^-1074` below the
smallest normal number, 53 significant bits above, `none` when the rounded value does not fit (`±inf` / `OverflowError`) -/
def rn64 (x : Rat) : Option Rat :=
  if x < (2 : Rat) ^ (-1022 : Int) then
    some ((roundHalfEven (x / (2 : Rat) ^ (-1074 : Int)) : Rat) * (2 : Rat) ^ (-1074 : Int))
  else
    let y := rn53 x
    if y < (2 : Rat) ^ (1024 : Int) then some y else none

/-! ### printing -/

/-- the digits of `"{:.5f}"` for a magnitude: the exact value times 10^5 rounded half-even, then `intpart.ddddd` -/
def body5 (mag : Rat) : List Char :=
  let n := (roundHalfEven (mag * 100000)).toNat
  decStr (n / 100000) ++ '.' :: decPad 5 (n % 100000)

/-- `"{:.5f}".format(x)` -/
def fmt5 : PyFloat → List Char
  | .fin neg mag => if neg then '-' :: body5 mag else body5 mag
  | .inf neg => if neg then ['-', 'i', 'n', 'f'] else ['i', 'n', 'f']
  | .nan => ['n', 'a', 'n']

/-- `"{:0<w>.5f}".format(x)`: the `0` flag pads with zeros between the sign and the digits -/
def fmtPad5 (w : Nat) (x : PyFloat) : List Char :=
  match fmt5 x with
  | '-' :: body => '-' :: padLeft (w - 1) '0' body
  | body => padLeft w '0' body

/-- `"{:07.5f}".format(x)` -/
def fmt07_5 (x : PyFloat) : List Char := fmtPad5 7 x

/-! ### `float(str)` -/

/-- `Py_ISSPACE` -/
def isSpace (c : Char) : Bool :=
  c == ' ' || c == '\t' || c == '\n' || c == '\r' || c == '\x0b' || c == '\x0c'

/-- `PyFloat_FromString`: strip leading and trailing blanks -/
def strip (cs : List Char) : List Char :=
  ((cs.dropWhile isSpace).reverse.dropWhile isSpace).reverse

/-- `_Py_string_to_number_with_underscores`: underscores are allowed only between two digits; they are removed.
`prev` is the previous character (`none` at the start). -/
def deUnderscore : Option Char → List Char → Option (List Char)
  | prev, [] => if prev == some '_' then none else some []
  | prev, c :: rest =>
    if c == '_' then
      (match prev with
       | some p => if isDec p then deUnderscore (some c) rest else none
       | none => none)
    else if prev == some '_' && !isDec c then none
    else (deUnderscore (some c) rest).map (c :: ·)

def lower (c : Char) : Char := if 'A' ≤ c ∧ c ≤ 'Z' then Char.ofNat (c.toNat + 32) else c

/-- optional sign: (negative?, rest) -/
def takeSign : List Char → Bool × List Char
  | '-' :: r => (true, r)
  | '+' :: r => (false, r)
  | r => (false, r)

/-- exponent part: `none` = malformed; the remaining characters must be exactly `[eE][+-]?digits+` or nothing -/
def parseExp : List Char → Option Int
  | [] => some 0
  | c :: r =>
    if c == 'e' || c == 'E' then
      let (neg, ds) := takeSign r
      if !ds.isEmpty && ds.all isDec then some (if neg then -(decNat ds : Int) else (decNat ds : Int)) else none
    else none

/-- digits, optional point and digits, optional exponent: (integer digits, fraction digits, exponent);
at least one digit in the mantissa -/
def parseDecimal (cs : List Char) : Option (List Char × List Char × Int) :=
  let ip := cs.takeWhile isDec
  let r1 := cs.dropWhile isDec
  let (fp, r2) := match r1 with
    | '.' :: r => (r.takeWhile isDec, r.dropWhile isDec)
    | _ => ([], r1)
  if ip.isEmpty && fp.isEmpty then none
  else (parseExp r2).map fun e => (ip, fp, e)

/-- the exact value `digits(ip ++ fp) * 10^(e - |fp|)` -/
def decimalValue (ip fp : List Char) (e : Int) : Rat :=
  (decNat (ip ++ fp) : Rat) * (10 : Rat) ^ (e - (fp.length : Int))

/-- correctly rounded value of a decimal numeral; numerals that are obviously out of range are decided from the
position of the first non-zero digit, so that `1e999999999` does not build a huge power -/
def roundDecimal (neg : Bool) (ip fp : List Char) (e : Int) : PyFloat :=
  let ds := (ip ++ fp).dropWhile (· == '0')
  if ds.isEmpty then .fin neg 0
  else
    -- the value lies in [10^(e10-1), 10^e10)
    let e10 : Int := e - (fp.length : Int) + (ds.length : Int)
    if 310 < e10 then .inf neg
    else if e10 < -330 then .fin neg 0
    else match rn64 (decimalValue ip fp e) with
      | some m => .fin neg m
      | none => .inf neg

/-- `float(s)` for a `str` of ASCII characters; `none` = `ValueError` -/
def parseFloat (cs : List Char) : Option PyFloat :=
  match deUnderscore none (strip cs) with
  | none => none
  | some s =>
    let (neg, body) := takeSign s
    let name := body.map lower
    if name = ['i', 'n', 'f'] ∨ name = ['i', 'n', 'f', 'i', 'n', 'i', 't', 'y'] then some (.inf neg)
    else if name = ['n', 'a', 'n'] then some .nan
    else (parseDecimal body).map fun (ip, fp, e) => roundDecimal neg ip fp e

/-! ### `SecondsType` -/

/-- `float(Fraction)`: `none` = `OverflowError` -/
def floatOfRat (t : Rat) : Option PyFloat :=
  if t < 0 then (rn64 (-t)).map (.fin true) else (rn64 t).map (.fin false)

/-- `SecondsType.dumps` -/
def secondsDumps (t : Rat) : Option (List Char) := (floatOfRat t).map fmt07_5

/-- `\s` of `re` on ASCII `str` -/
def isReSpace (c : Char) : Bool :=
  isSpace c || c == '\x1c' || c == '\x1d' || c == '\x1e' || c == '\x1f'

/-- `Fraction(str)` (`fractions._RATIONAL_FORMAT`, without `_` separators); `none` = `ValueError` /
`ZeroDivisionError` -/
def parseFraction (cs : List Char) : Option Rat :=
  let (neg, s) := takeSign (cs.dropWhile isReSpace)
  -- lookahead `(?=\d|\.\d)`
  let ahead := match s with
    | c :: r => isDec c || (c == '.' && (match r with | d :: _ => isDec d | [] => false))
    | [] => false
  if !ahead then none else
  let num := s.takeWhile isDec
  let r1 := s.dropWhile isDec
  let sgn (q : Rat) : Rat := if neg then -q else q
  let r1s := r1.dropWhile isReSpace
  match r1s with
  | '/' :: r =>
    let r := r.dropWhile isReSpace
    let den := r.takeWhile isDec
    let r2 := (r.dropWhile isDec).dropWhile isReSpace
    if den.isEmpty || !r2.isEmpty || decNat den = 0 then none
    else some (sgn ((decNat num : Rat) / (decNat den : Rat)))
  | _ =>
    let (fp, r2) := match r1 with
      | '.' :: r => (r.takeWhile isDec, r.dropWhile isDec)
      | _ => ([], r1)
    let (e?, r3) : Option Int × List Char := match r2 with
      | c :: r =>
        if c == 'e' || c == 'E' then
          let (eneg, ds) := takeSign r
          let ed := ds.takeWhile isDec
          if ed.isEmpty then (none, r2)
          else (some (if eneg then -(decNat ed : Int) else (decNat ed : Int)), ds.dropWhile isDec)
        else (some 0, r2)
      | [] => (some 0, [])
    match e? with
    | none => none
    | some e => if (r3.dropWhile isReSpace).isEmpty then some (sgn (decimalValue num fp e)) else none

/-! ### bit patterns (the driver exchanges doubles as 64-bit patterns) -/

/-- the value of a 64-bit pattern -/
def ofBits64 (w : Nat) : PyFloat :=
  let neg : Bool := w / 2 ^ 63 % 2 = 1
  let ex : Nat := w / 2 ^ 52 % 2048
  let fr : Nat := w % 2 ^ 52
  if ex = 2047 then (if fr = 0 then .inf neg else .nan)
  else if ex = 0 then .fin neg ((fr : Rat) * (2 : Rat) ^ (-1074 : Int))
  else .fin neg (((2 ^ 52 + fr : Nat) : Rat) * (2 : Rat) ^ ((ex : Int) - 1075))

/-- the 64-bit pattern of a float (`nan` as the quiet NaN `7ff8…`); `none` if the magnitude is not a binary64 number -/
def toBits64 : PyFloat → Option Nat
  | .nan => some (2047 * 2 ^ 52 + 2 ^ 51)
  | .inf neg => some ((if neg then 2 ^ 63 else 0) + 2047 * 2 ^ 52)
  | .fin neg x =>
    let s := if neg then 2 ^ 63 else 0
    if x < 0 then none
    else if x < (2 : Rat) ^ (-1022 : Int) then
      let m := x / (2 : Rat) ^ (-1074 : Int)
      if m.den = 1 then some (s + m.num.toNat) else none
    else
      let e := ilog2 x
      let m := x / (2 : Rat) ^ (e - 52)
      if m.den = 1 ∧ e ≤ 1023 then some (s + (e + 1023).toNat * 2 ^ 52 + (m.num.toNat - 2 ^ 52)) else none

end Earverif.FloatText
