import Earverif.Model.TrackSpec
namespace Earverif.TrackSpec
end Earverif.TrackSpec
