"""C01 — Object gains are finite, non-negative, LFE-free and power-preserving
(ear.core.objectbased.gain_calc.GainCalc.render and the sub-panners' normalisations)."""
import itertools
import math
import multiprocessing
import os
import random
import struct
import warnings

import numpy as np

from . import c01_gen as G
from .common import Driver, Spec

TOL = 1e-12  # absolute, model (Float) vs real code on the captured intermediates


def enc(x):
    return str(struct.unpack("<Q", struct.pack("<d", float(x)))[0])


def dec(s):
    return struct.unpack("<d", struct.pack("<Q", int(s)))[0]


def encs(v):
    return " ".join(enc(x) for x in np.asarray(v, dtype=float).ravel())


def decs(s):
    return [dec(t) for t in s.split()]


def mask(m):
    return " ".join("1" if b else "0" for b in m)


def f17(v):
    return ["%.17g" % float(x) for x in np.asarray(v, dtype=float).ravel()]


def close_vec(a, b, tol=TOL):
    """lists of floats agree to `tol` absolute; NaN only matches NaN, inf only the same inf."""
    if len(a) != len(b):
        return False
    for x, y in zip(a, b):
        x, y = float(x), float(y)
        if math.isnan(x) or math.isnan(y):
            if not (math.isnan(x) and math.isnan(y)):
                return False
        elif math.isinf(x) or math.isinf(y):
            if x != y:
                return False
        elif abs(x - y) > tol:
            return False
    return True


# --------------------------------------------------------------------------------------
# harness-side capture of what the sub-panners answered inside one GainCalc.render call


class Capture:
    def __init__(self):
        self.d = None  # diverged gains
        self.g = []  # one vector per diverged position (polar: extent_pan result; Cartesian: allocentric_extent_pan)
        self.D = None  # polar: downmix matrix
        self.excluded = None  # Cartesian: allocentric.get_excluded result
        self.zone_excluded = None  # polar: mask handed to downmix_for_excluded


def render_captured(gc, meta):
    """gc.render(meta) with recording wrappers around diverge, the extent panner(s) and the zone downmix.
    Nothing in /repo is modified: module/instance attributes are wrapped for the duration of the call."""
    from ear.core import allocentric
    from ear.core.objectbased import gain_calc as gcmod

    cap = Capture()
    orig_diverge = gcmod.diverge
    orig_aep = gcmod.allocentric_extent_pan
    orig_getex = allocentric.get_excluded
    pep = gc.polar_extent_panner
    zed = gc.zone_exclusion_handler.zed
    orig_handle = pep.handle
    orig_dm = zed.downmix_for_excluded

    def diverge(*a, **kw):
        gains, positions = orig_diverge(*a, **kw)
        cap.d = np.array(gains, dtype=float)
        return gains, positions

    def aep(*a, **kw):
        r = orig_aep(*a, **kw)
        cap.g.append(np.array(r, dtype=float))
        return r

    def handle(*a, **kw):
        r = orig_handle(*a, **kw)
        cap.g.append(np.array(r, dtype=float))
        return r

    def getex(*a, **kw):
        r = orig_getex(*a, **kw)
        cap.excluded = [bool(x) for x in r]
        return r

    def dm(excluded):
        r = orig_dm(excluded)
        cap.zone_excluded = [bool(x) for x in excluded]
        cap.D = np.array(r, dtype=float)
        return r

    gcmod.diverge = diverge
    gcmod.allocentric_extent_pan = aep
    allocentric.get_excluded = getex
    pep.handle = handle
    zed.downmix_for_excluded = dm
    try:
        with warnings.catch_warnings():
            warnings.simplefilter("ignore")
            with np.errstate(all="ignore"):
                r = gc.render(meta)
    finally:
        gcmod.diverge = orig_diverge
        gcmod.allocentric_extent_pan = orig_aep
        allocentric.get_excluded = orig_getex
        del pep.handle
        del zed.downmix_for_excluded
    return r, cap


def render_line(case, gc, cap):
    n = int(np.sum(~gc.is_lfe))
    head = "render C" if case["cartesian"] else "render P"
    z = mask(cap.excluded) if case["cartesian"] else " , ".join(encs(r) for r in cap.D)
    return " ; ".join([
        head, str(n), encs(cap.d), " , ".join(encs(r) for r in cap.g), z,
        "%s %s %s" % (enc(case["gain"]), enc(case["ogain"]), enc(1.0 if case["mute"] else 0.0)),
        mask(gc.is_lfe), enc(case["diffuse"]),
    ])


def parse_pair(ans):
    if not ans.startswith("ok "):
        return None
    a, b = ans[3:].split("|")
    return decs(a), decs(b)


# --------------------------------------------------------------------------------------
# worker: one chunk of cases on one layout (runs in a forked process)


def work(job):
    """job = (layout, real, seed, n_random, with_boundary, capture).  Returns a dict of plain data."""
    layout, real, seed, n_random, with_boundary, capture = job
    rng = random.Random("c01/%s/%r" % (layout, seed))
    res = {"layout": layout, "real": real, "lines": [], "expect": [], "cases": [], "hits": [], "counts": {},
           "capstats": []}

    def count(k, n=1):
        res["counts"][k] = res["counts"].get(k, 0) + n

    try:
        gc, lay = G.gain_calc(layout, real)
    except Exception as e:  # a layout inside the quantifier must be constructible
        res["hits"].append(("GainCalc(layout) raised for an admissible layout", {"layout": layout, "real": real},
                            {"exception": "%s: %s" % (type(e).__name__, str(e)[:300])}, ["c01-exception", "c01-construct"]))
        return res
    cases = [G.gen_case(rng, layout, real, boundary=(i % 4 == 0)) for i in range(n_random)]
    if with_boundary:
        cases += G.boundary_cases(layout, real)
    for case in cases:
        try:
            meta = G.build_meta(case)
        except ValueError as e:
            count("outside-quantifier: element validator rejects")
            continue
        try:
            if capture:
                r, cap = render_captured(gc, meta)
            else:
                with warnings.catch_warnings():
                    warnings.simplefilter("ignore")
                    with np.errstate(all="ignore"):
                        r, cap = gc.render(meta), None
        except ValueError as e:
            msg = str(e)
            if case["offset"] is not None and ("out of range" in msg or "can only apply" in msg):
                # positionOffset moved azimuth/elevation/distance outside the validated range: rejected by design
                count("outside-quantifier: positionOffset leaves the value range (ValueError by design)")
                continue
            res["hits"].append(("render raised", case, {"exception": "ValueError: " + msg[:300]}, ["c01-exception"]))
            continue
        except Exception as e:
            res["hits"].append(("render raised", case, {"exception": "%s: %s" % (type(e).__name__, str(e)[:300])},
                                ["c01-exception"]))
            continue
        direct = np.asarray(r.direct, dtype=float)
        diffuse = np.asarray(r.diffuse, dtype=float)
        p = G.predicate(case, gc.is_lfe.tolist(), direct, diffuse)
        if p is not None:
            what, detail, tags = p
            res["hits"].append((what, case, detail, tags))
        feats = G.features(case)
        count("layout:%s%s" % (layout, ":real" if real else ""))
        count("path:" + feats[0])
        count("features:" + "+".join(feats))
        for b in G.boundary_class(case) or ["interior"]:
            count("boundary:" + b)
        power = float(np.sum(direct ** 2) + np.sum(diffuse ** 2))
        nontrivial = power > 0.0
        res["cases"].append((repr(sorted((k, repr(v)) for k, v in case.items())), nontrivial,
                             {"case": case, "direct": f17(direct), "diffuse": f17(diffuse)} if nontrivial else None))
        if capture:
            res["lines"].append(render_line(case, gc, cap))
            res["expect"].append((case, direct.tolist(), diffuse.tolist()))
            count("captured diverged positions:%d" % len(cap.g))
            if not case["cartesian"]:
                ze = cap.zone_excluded
                count("captured polar downmix:%s" % ("identity(none excluded)" if not any(ze) else
                                                     "identity(all excluded)" if all(ze) else "proper"))
            else:
                count("captured cartesian mask:%s" % ("none excluded" if not any(cap.excluded) else "some excluded"))
            # sub-panner contracts observed on the captured intermediates (evidence only: they are the
            # hypotheses H1/H2 of render_power; their violation would show up in the predicate above)
            for gk in cap.g:
                pw = float(np.sum(gk ** 2))
                if layout == "0+2+0":
                    count("H1 observed (stereo, 1/2 <= power <= 1):%s" % (0.5 - 1e-9 <= pw <= 1 + 1e-9))
                else:
                    count("H1 observed (unit power, >= 0):%s" % (abs(pw - 1) < 1e-9 and bool(np.all(gk >= 0))))
            if cap.D is not None:
                count("H2 observed (rows sum to 1, >= 0):%s"
                      % bool(np.all(np.abs(cap.D.sum(axis=1) - 1) < 1e-12) and np.all(cap.D >= 0)))
    return res


# --------------------------------------------------------------------------------------
# sub-model correspondences (grain ii)


def allo_tree_line(panner, n, pos):
    planes = []
    for pl in panner.st:
        rows = []
        for row in pl:
            rows.append(" ".join("%d %s" % (idx, encs(c)) for idx, c in row))
        planes.append(" / ".join(rows))
    return "allo %d %s ; %s" % (n, encs(pos), " , ".join(planes))


class NpProxy:
    """numpy stand-in for allo_extent that records the vectors handed to np.linalg.norm (safe_norm)."""

    class _LA:
        def __init__(self, rec):
            self._rec = rec

        def norm(self, v, *a, **kw):
            self._rec.append(np.array(v, dtype=float))
            return np.linalg.norm(v, *a, **kw)

        def __getattr__(self, k):
            return getattr(np.linalg, k)

    def __init__(self):
        self.rec = []
        self.linalg = NpProxy._LA(self.rec)

    def __getattr__(self, k):
        return getattr(np, k)


class C01(Spec):
    pid = "C01"
    lean_targets = ("Earverif.Props.C01", "c01driver")
    props_module = "Earverif.Props.C01"
    theorems = tuple(
        "Earverif.GainCalc." + t
        for t in (
            "render_lfe_slot", "render_lfe_zero", "render_nonneg", "render_power_eq", "render_power_bounds",
            "render_power", "render_power_stereo", "render_muted_zero", "diverge_gains_sum_one",
            "diverge_gains_nonneg", "split_power", "downmix_rows_sum_one", "downmix_nonneg", "depthCombine_unit",
            "pvSpread_power", "normalise_unit", "safeNorm_unit", "balancePan_unit", "allo_unit_power",
            "render_power_allocentric", "render_power_polar_extent", "C01_partial",
        )
    )
    trusted_base = (
        "model Earverif/Model/GainCalc.lean is a hand transliteration of GainCalc.render from the point where the "
        "sub-panners have answered (sqrt(dot(d, g^2)), zone downmix in the power domain, nan_to_num, gain, LFE "
        "scatter, direct/diffuse split) and of diverge's gain formula, direct_diffuse_split, get_object_gain, "
        "downmix_for_excluded, the depth RMS, the calc_pv_spread skeleton, the two normalisations and "
        "AllocentricPanner.handle; tied to the code by the capture-based correspondence on every run",
        "the theorems are over the reals: nan_to_num is the identity there; nothing is claimed about NaN/inf or "
        "rounding at the 1e-10 / 1e-16 thresholds",
        "the interiors of the sub-panners (point-source panner regions, extent weight functions, allo_extent's "
        "g_total before the last safe_norm, zone/channel-lock/screen position transforms) are parameters: "
        "arbitrary vectors satisfying the stated contracts",
    )
    assumptions = (
        "H1 every per-position gain vector is non-negative with unit power (on 0+2+0: power in [1/2,1]) — searched",
        "H2 the zone downmix matrix is non-negative with rows summing to one — proved for the model of "
        "downmix_for_excluded whenever it returns a matrix (duplicate-free groups), otherwise searched",
        "0 <= diffuse <= 1, 0 <= divergence value <= 1, gains >= 0 (ADM value ranges)",
        "searched only: the point-source panner never returns 'no result'; the spread weights are not all zero; "
        "allo_extent's vector is longer than 1e-16; finiteness and non-negativity under float arithmetic",
    )
    rule = (
        "Objects metadata blocks (polar/Cartesian position, extent, divergence, zones, channelLock, screenRef with "
        "reference screens, screenEdgeLock, positionOffset, diffuse, block gain, object gain, mute; random inside "
        "the ADM value ranges with boundary values over-weighted, plus a deterministic boundary grid) x the ten "
        "BS.2051 layouts (thorough: plus generated left/right symmetric real-position layouts inside the permitted "
        "ranges); a case is one (block, layout); non-trivial = non-zero output power; distinct by the case dict"
    )

    # ---- plumbing
    def _jobs(self, ctx, n_per_layout, with_boundary, capture, chunks=1, real_layouts=0):
        jobs = []
        for name in G.LAYOUTS:
            for c in range(chunks):
                jobs.append((name, None, (ctx.seed, ctx.tier, capture, c), n_per_layout // chunks,
                             with_boundary and c == 0, capture))
            for r in range(real_layouts):
                real = G.gen_real_layout(ctx.rng, name)
                if real is None:
                    ctx.count("real-layout generator: no freedom (%s)" % name)
                    continue
                jobs.append((name, real, (ctx.seed, ctx.tier, capture, "real", r), max(40, n_per_layout // (4 * chunks)),
                             False, capture))
        return jobs

    def _absorb(self, ctx, res, driver, stage):
        for k, n in res["counts"].items():
            ctx.count(stage + " " + k, n)
        for canon, nontrivial, sample in res["cases"]:
            ctx.case((stage, canon), nontrivial, sample=sample)
        for what, inp, detail, tags in res["hits"]:
            ctx.hit(what, inp, detail, tags)
        if res["lines"]:
            outs = driver.run(res["lines"])
            for line, ans, (case, direct, diffuse) in zip(res["lines"], outs, res["expect"]):
                m = parse_pair(ans)
                if m is None or not close_vec(m[0], direct) or not close_vec(m[1], diffuse):
                    ctx.disagree("GainCalc.render vs Earverif.GainCalc.render on the captured intermediates",
                                 case, ans if m is None else {"direct": f17(m[0]), "diffuse": f17(m[1])},
                                 {"direct": f17(direct), "diffuse": f17(diffuse)})
                else:
                    ctx.validated()

    def _run_jobs(self, ctx, jobs, driver, stage, nproc):
        if nproc <= 1 or len(jobs) < 2:
            for j in jobs:
                self._absorb(ctx, work(j), driver, stage)
            return
        with multiprocessing.get_context("fork").Pool(min(nproc, len(jobs))) as pool:
            for res in pool.imap_unordered(work, jobs):
                self._absorb(ctx, res, driver, stage)

    # ---- correspondence
    def correspond(self, ctx):
        driver = Driver("c01driver", "Earverif.Driver.C01")
        nproc = min(16, os.cpu_count() or 1)
        if ctx.quick:
            jobs = self._jobs(ctx, 200, False, True)
        else:
            jobs = self._jobs(ctx, 1200, True, True, chunks=2, real_layouts=3)
        self._run_jobs(ctx, jobs, driver, "render", nproc)
        self._sub_models(ctx, driver)

    def _cmp(self, ctx, driver, what, items):
        """items: list of (line, expected list(s) of floats or 'assert', input description)."""
        if not items:
            return
        outs = driver.run([it[0] for it in items])
        for (line, exp, desc), ans in zip(items, outs):
            ctx.count("sub-model:" + what)
            ctx.case((what, line), True)
            ok = False
            got = ans
            if exp == "assert":
                ok = ans == "assert"
            elif ans.startswith("ok"):
                body = ans[2:]
                if isinstance(exp, tuple):
                    parts = body.split("|")
                    got = [decs(p) for p in parts]
                    ok = len(parts) == len(exp) and all(close_vec(g, e) for g, e in zip(got, exp))
                elif exp and isinstance(exp[0], list):
                    got = [decs(p) for p in body.split(",")]
                    ok = len(got) == len(exp) and all(close_vec(g, e) for g, e in zip(got, exp))
                else:
                    got = decs(body)
                    ok = close_vec(got, exp)
            if ok:
                ctx.validated()
            else:
                ctx.disagree(what, desc, got, exp)

    def _sub_models(self, ctx, driver):
        from ear.core import allocentric, bs2051, point_source
        from ear.core.metadata_input import ExtraData, ObjectTypeMetadata
        from ear.core.objectbased import allo_extent, gain_calc as gcmod
        from ear.core.objectbased.zone import ZoneExclusionDownmix
        from ear.core.renderer_common import get_object_gain
        from ear.fileio.adm.elements import AudioBlockFormatObjects, ObjectDivergence
        from ear.fileio.adm.elements.version import BS2076Version

        rng = ctx.rng
        quick = ctx.quick
        # diverge gains
        items = []
        vals = [0.0, 0.5, 1.0, 1e-9, 0.25, 1 / 3.0] + [rng.random() for _ in range(40 if quick else 400)]
        for v in vals:
            for cart in (False, True):
                with warnings.catch_warnings():
                    warnings.simplefilter("ignore")
                    g, _p = gcmod.diverge(np.array([0.0, 1.0, 0.0]), ObjectDivergence(v, azimuthRange=30.0, positionRange=0.5),
                                          cart, BS2076Version(2))
                items.append(("div " + enc(v), [float(x) for x in g], {"value": v, "cartesian": cart}))
        g, _p = gcmod.diverge(np.array([0.0, 1.0, 0.0]), None, False, None)
        items.append(("div none", [float(x) for x in g], {"value": None}))
        self._cmp(ctx, driver, "diverge gains", items)
        # direct_diffuse_split, get_object_gain
        items = []
        for _ in range(40 if quick else 400):
            gains = [rng.choice([0.0, 1.0, rng.random(), rng.uniform(0, 4)]) for _ in range(rng.randint(1, 24))]
            x = rng.choice([0.0, 1.0, 0.5, rng.random()])
            r = gcmod.direct_diffuse_split(np.array(gains), x)
            items.append(("split %s ; %s" % (enc(x), encs(gains)), (list(r.direct), list(r.diffuse)),
                          {"gains": gains, "diffuse": x}))
        self._cmp(ctx, driver, "direct_diffuse_split", items)
        items = []
        for mute in (False, True):
            for og in (0.0, 1.0, 0.25, 3.0, rng.uniform(0, 10)):
                bf = AudioBlockFormatObjects(position=dict(azimuth=0.0, elevation=0.0, distance=1.0))
                r = get_object_gain(ObjectTypeMetadata(block_format=bf, extra_data=ExtraData(object_gain=og, object_mute=mute)))
                items.append(("ogain %d %s" % (mute, enc(og)), [float(r)], {"mute": mute, "object_gain": og}))
        self._cmp(ctx, driver, "get_object_gain", items)
        # downmix_for_excluded: all masks for small layouts, sampled above
        items = []
        for name in G.LAYOUTS:
            lay = bs2051.get_layout(name).without_lfe
            zed = ZoneExclusionDownmix(lay)
            n = zed.num_channels
            groups = " , ".join(" / ".join(" ".join(str(int(j)) for j in grp) for grp in grps) for grps in zed.channel_groups)
            limit = 9 if quick else 12
            if n <= limit:
                masks = list(itertools.product([False, True], repeat=n))
            else:
                masks = [tuple(rng.random() < p for _ in range(n)) for p in (0.2, 0.5, 0.8) for _ in range(60 if quick else 1500)]
                masks += [tuple(i == j for i in range(n)) for j in range(n)] + [tuple(i != j for i in range(n)) for j in range(n)]
                masks += [(False,) * n, (True,) * n]
            for m in masks:
                D = zed.downmix_for_excluded(np.array(m))
                items.append(("downmix ; %s ; %s" % (mask(m), groups), [list(map(float, r)) for r in D],
                              {"layout": name, "excluded": list(m)}))
                ctx.count("downmix masks:%s" % name)
        self._cmp(ctx, driver, "downmix_for_excluded", items)
        # hypothesis of downmix_rows_sum_one on the tables the code builds: groups duplicate-free, cover all channels
        bad = []
        for name in G.LAYOUTS:
            zed = ZoneExclusionDownmix(bs2051.get_layout(name).without_lfe)
            for i, grps in enumerate(zed.channel_groups):
                flat = [int(j) for grp in grps for j in grp]
                if any(len(set(map(int, grp))) != len(grp) for grp in grps) or sorted(flat) != list(range(zed.num_channels)):
                    bad.append((name, i))
        ctx.obligation("hypothesis of downmix_rows_sum_one holds for ZoneExclusionDownmix.channel_groups of the ten layouts "
                       "(groups duplicate-free and partition the channels)", not bad, repr(bad[:5]))
        # AllocentricPanner.handle: the layouts' grids, sub-grids (as after exclusion) and random grids
        items = []
        grids = []
        for name in G.LAYOUTS:
            pos = allocentric.positions_for_layout(bs2051.get_layout(name).without_lfe)
            grids.append((name, pos))
            for _ in range(2 if quick else 12):
                keep = [i for i in range(len(pos)) if rng.random() < 0.6] or [0]
                grids.append((name + ":subset", pos[keep]))
        for _ in range(10 if quick else 100):
            pts = {(rng.choice([-1.0, -0.5, 0.0, 0.3, 1.0]), rng.choice([-1.0, 0.0, 0.4, 1.0]), rng.choice([-1.0, 0.0, 1.0]))
                   for _ in range(rng.randint(1, 14))}
            pts = sorted(pts)
            rng.shuffle(pts)
            grids.append(("random-grid", np.array(pts)))
        bad = []
        for name, pos in grids:
            panner = point_source.AllocentricPanner(pos)
            # hypothesis TreeWF of allo_unit_power on the tree the code builds
            idx = [i for pl in panner.st for row in pl for i, _c in row]
            zs = [pl[0][0][1][2] for pl in panner.st]
            wf = sorted(idx) == list(range(len(pos))) and len(set(zs)) == len(zs)
            for pl in panner.st:
                ys = [row[0][1][1] for row in pl]
                wf = wf and len(set(ys)) == len(ys) and all(len({c[0] for _i, c in row}) == len(row) for row in pl)
            if not wf:
                bad.append((name, pos.tolist()))
            coords = [-1.0, 1.0, 0.0] + sorted({float(c) for c in pos.ravel()})
            for _ in range(25 if quick else 150):
                p = [rng.choice([rng.choice(coords), round(rng.uniform(-1, 1), 3), rng.uniform(-1, 1)]) for _ in range(3)]
                r = panner.handle(np.array(p))
                items.append((allo_tree_line(panner, len(pos), p), [float(x) for x in r],
                              {"grid": name, "positions": pos.tolist(), "position": p}))
            ctx.count("allocentric grids:%s" % ("layout" if name in G.LAYOUTS else name.split(":")[-1]))
        self._cmp(ctx, driver, "AllocentricPanner.handle", items)
        ctx.obligation("hypothesis TreeWF of allo_unit_power holds for AllocentricPanner._speaker_tree of the ten layouts' "
                       "grids, their sampled sub-grids and the random grids", not bad, repr(bad[:2]))
        # polar extent: calc_pv_spread skeleton, normalisation, depth RMS  (on three layouts; the code is layout-independent)
        items_pv, items_norm, items_depth = [], [], []
        for name in (["4+5+0"] if quick else ["0+5+0", "4+5+0", "9+10+3", "0+2+0"]):
            gc, _lay = G.gain_calc(name)
            peh = gc.polar_extent_panner
            pep = peh.polar_extent_panner
            sp = pep.spreading_panner
            n = int(np.sum(~gc.is_lfe))
            rec = {}
            orig_pf, orig_pv = pep.panning_func, sp.panning_values_for_weight
            orig_cps = pep.calc_pv_spread

            def pf(position, _o=orig_pf):
                r = _o(position)
                rec["p"] = np.array(r, dtype=float)
                return r

            def pvw(weight_f, _o=orig_pv, _sp=sp):
                r = _o(weight_f)
                rec["s"] = np.array(r, dtype=float)
                rec["total"] = np.dot(weight_f(_sp.panning_positions), _sp.panning_positions_results)
                return r

            def cps(position, width, height, _o=orig_cps):
                r = _o(position, width, height)
                rec.setdefault("pvs", []).append(np.array(r, dtype=float))
                return r

            pep.panning_func = pf
            sp.panning_values_for_weight = pvw
            try:
                from ear.core.geom import cart

                for _ in range(40 if quick else 200):
                    position = cart(rng.uniform(-180, 180), rng.uniform(-90, 90), 1.0)
                    w = rng.choice([0.0, 1e-9, 1.0, 5.0, 9.999999999, 10.0, 25.0, 360.0, rng.uniform(0, 12)])
                    h = rng.choice([0.0, 0.0, 2.0, 5.0, 10.0, rng.uniform(0, 12)])
                    rec.clear()
                    r = orig_cps(position, w, h)
                    a_s = float(np.interp(max(w, h), [0, pep.fade_width], [0, 1]))
                    p = rec.get("p", np.zeros(n))
                    s = rec.get("s", np.zeros(n))
                    items_pv.append(("pvspread %d %s ; %s ; %s" % (n, enc(a_s), encs(p), encs(s)), list(map(float, r)),
                                     {"layout": name, "width": w, "height": h, "position": list(position)}))
                    ctx.count("calc_pv_spread branch:%s" % ("point" if "s" not in rec else "spread" if "p" not in rec else "both"))
                    if "total" in rec:
                        items_norm.append(("normalise ; " + encs(rec["total"]), list(map(float, rec["s"])),
                                           {"layout": name, "width": w, "height": h, "position": list(position)}))
                pep.calc_pv_spread = cps
                for _ in range(15 if quick else 100):
                    dist = rng.choice([1.0, 0.5, 0.0, rng.random()])
                    position = cart(rng.uniform(-180, 180), rng.uniform(-90, 90), dist)
                    w, h = rng.choice([0.0, 20.0, 90.0]), rng.choice([0.0, 5.0, 45.0])
                    depth = rng.choice([1.0, 0.5, 0.1, 2 * dist if dist else 0.3])
                    rec.clear()
                    r = peh.handle(position, w, h, depth)
                    if len(rec.get("pvs", [])) == 2:
                        items_depth.append(("depth ; %s ; %s" % (encs(rec["pvs"][0]), encs(rec["pvs"][1])), list(map(float, r)),
                                            {"layout": name, "position": list(position), "width": w, "height": h, "depth": depth}))
            finally:
                pep.panning_func = orig_pf
                del sp.panning_values_for_weight
                if "calc_pv_spread" in pep.__dict__:
                    del pep.calc_pv_spread
        self._cmp(ctx, driver, "calc_pv_spread skeleton", items_pv)
        self._cmp(ctx, driver, "SpreadingPanner normalisation", items_norm)
        self._cmp(ctx, driver, "PolarExtentHandler depth RMS", items_depth)
        # allo_extent.get_gains: the last safe_norm
        items = []
        proxy = NpProxy()
        orig_np = allo_extent.np
        allo_extent.np = proxy
        try:
            for name in (["0+5+0", "4+5+0"] if quick else G.LAYOUTS):
                pos = allocentric.positions_for_layout(bs2051.get_layout(name).without_lfe)
                for _ in range(6 if quick else 40):
                    p = np.array([rng.choice([-1.0, 0.0, 1.0, rng.uniform(-1, 1)]) for _ in range(3)])
                    sz = [rng.choice([0.0, 0.01, 0.2, 1.0, rng.random()]) for _ in range(3)]
                    if not any(sz):
                        sz[0] = 0.1
                    del proxy.rec[:]
                    with np.errstate(all="ignore"):
                        r = allo_extent.get_gains(pos, p, *sz)
                    if len(proxy.rec) == 3:
                        items.append(("safenorm ; " + encs(proxy.rec[-1]), list(map(float, r)),
                                      {"layout": name, "position": p.tolist(), "size": sz}))
        finally:
            allo_extent.np = orig_np
        self._cmp(ctx, driver, "allo_extent final safe_norm", items)
        # safe_norm threshold branch, directly on the model's two sides (vectors shorter/longer than 1e-16)
        items = []
        for v in ([0.0, 0.0, 0.0], [1e-17, 0.0], [3e-16, 4e-16], [1e-16, 0.0], [3.0, 4.0]):
            l = np.linalg.norm(v)
            exp = (np.array(v) / l if l > 1e-16 else np.zeros(len(v))).tolist()
            items.append(("safenorm ; " + encs(v), exp, {"vector": v}))
        self._cmp(ctx, driver, "safe_norm threshold", items)

    # ---- search
    def search(self, ctx, deep):
        # the predicate already ran on every captured render; here: a further stream on the real code alone
        driver = None
        nproc = min(16, os.cpu_count() or 1)
        if ctx.quick and not deep:
            jobs = self._jobs(ctx, 80, False, False)
        elif ctx.quick:
            jobs = self._jobs(ctx, 200, True, False, chunks=2)
        else:
            jobs = self._jobs(ctx, 3600, True, False, chunks=4, real_layouts=12)
        self._run_jobs(ctx, jobs, driver, "search", nproc)


SPEC = C01()

REGISTRY = dict(
    text="PARTIAL: Lean theorems over the reals (Earverif.GainCalc.render_power, render_power_stereo, render_nonneg, "
    "render_lfe_zero, render_muted_zero, collected in C01_partial) prove that GainCalc.render, from the point where "
    "the sub-panners have answered, yields non-negative gains, exact zeros on LFE slots and summed direct+diffuse "
    "power (block gain x object gain)^2 (0 when muted; within [1/2,1] of it on 0+2+0) whenever each per-position "
    "gain vector is non-negative with unit power (H1), the zone downmix has non-negative rows summing to one (H2) "
    "and diffuse, divergence lie in [0,1]. Discharged in Lean: H2 for the model of downmix_for_excluded "
    "(downmix_rows_sum_one, downmix_nonneg); the divergence gains (diverge_gains_sum_one/_nonneg); split_power; H1 "
    "for the whole allocentric point-source panner on every well-formed grid and position (allo_unit_power; "
    "render_power_allocentric = Cartesian point objects with no panner hypothesis left); the polar extent skeleton "
    "(pvSpread_power, depthCombine_unit, normalise_unit; render_power_polar_extent) and allo_extent's final "
    "safe_norm (safeNorm_unit) given a non-zero pre-normalisation vector. The model is tied to the code on every "
    "run by capturing diverge / extent panner / zone downmix results inside the real GainCalc.render and replaying "
    "them through the Lean model (1e-12 absolute), plus direct sub-model comparisons. NOT proved, only searched on "
    "the real code (generated blocks x ten layouts; thorough: symmetric real-position layouts): that the egocentric "
    "point-source panner never returns no result and has unit power ([1/2,1] on 0+2+0), that spread weights are not "
    "all zero, that allo_extent's vector exceeds 1e-16, and finiteness/non-negativity under float arithmetic.",
    note="Trusted: Lean kernel + Mathlib, hand transliteration of render and the sub-models + capture-based "
    "correspondence harness; reals instead of floats (nan_to_num is the identity over the reals). The full "
    "statement (all ObjectTypeMetadata x all layouts) is described in Props/C01.lean as C01_full and left unproved.",
    technique="Lean 4 proof over a scalar-polymorphic model (run over Float, proved over the reals) + capture-based "
    "differential correspondence with GainCalc.render + direct-predicate search",
    design_ref="DESIGN.md section 4, C01",
)
