/-
C20 — Track specifications yield exactly the audio they describe.

Property theorems about the model `Earverif/Model/TrackSpec.lean` (tied to
`ear/core/track_processor.py`, `ear/core/delay.py` by `harness/c20.py`).
Lemmas are in `Earverif/Proofs/C20.lean`.

Everything is stated for an arbitrary sample/gain type `α` with `+`, `*`, `0`, `1` satisfying
`x + 0 = x`, `0 + x = x`, `x * 1 = x`, `0 * x = 0` (class `Sample`; instances `Rat`, `Int`), i.e. in
exact arithmetic. The hypotheses `Spec.wf fs nch s` (direct indices name a column numpy accepts, delays
round to `≥ 0` samples) describe the specs the real code does not reject; see the examples at the end
for what happens outside.

The headline theorems are also stated against `meaningStrict` (independent, partial: `none` on ragged
input, bad indices, negative delays): `meaning_eq_meaningStrict`, `processor_eq_meaningStrict`.
The ms → samples conversion of `init_delay` is a binary64 computation in the code (`delaySamplesF`);
`processorF_eq_meaningStrict` is the property for the processors run with that conversion, under
`Spec.floatExact`; `float_delay_counterexample` shows that hypothesis cannot be dropped (a genuine,
benign deviation of the code from "nearest sample" within an ulp of a half sample).
-/
import Earverif.Proofs.C20
import Earverif.Proofs.C20Strict
import Earverif.Proofs.C20Float

set_option linter.unusedSimpArgs false

namespace Earverif.TrackSpec

variable {α : Type} [Sample α]

/-! ## `delay.Delay` -/

/- `delay_process_eq` (in Proofs/C20.lean, audited with the theorems below): one `Delay.process` call
returns `((mem ++ inp).take inp.length, (mem ++ inp).drop inp.length)` — the output is the first `n`
samples of `delaymem ++ input`, the new `delaymem` is the rest; for every memory length and block
length (block shorter than, equal to, longer than the delay; empty block; zero delay). -/

/-- **delay_eq.** A `Delay(1, d)` object fed any partition `parts` of an input (empty blocks included)
outputs, block by block, "prepend `d` zeros, drop the last `d`" of the concatenated input; and its
memory ends as the last `d` samples of `zeros d ++ input`. -/
theorem delay_eq (d : Nat) (parts : List (List α)) :
    (delayRun (zeros d) parts).1 = chunks (parts.map List.length) (delayBy d parts.flatten) ∧
    (delayRun (zeros d) parts).1.flatten = delayBy d parts.flatten ∧
    (delayRun (zeros d) parts).2 = (zeros d ++ parts.flatten).drop parts.flatten.length := by
  obtain ⟨h1, h2⟩ := delayRun_eq parts (zeros d : List α)
  refine ⟨h1, ?_, h2⟩
  rw [h1]
  exact chunks_flatten parts _ (by simp)

/-! ## ms → samples -/

/-- **delay_rounding.** `int(ceil(fs·ms/1000 − 0.5))` is the sample nearest to `x = fs·ms/1000`, and an
exact half `x = m + 1/2` goes to the smaller neighbour `m`: `k − 1/2 < x ≤ k + 1/2`. -/
theorem delay_rounding (fs : Int) (ms : Rat) :
    let x : Rat := (fs : Rat) * ms / 1000
    let k : Int := delaySamples fs ms
    (k : Rat) - 1 / 2 < x ∧ x ≤ (k : Rat) + 1 / 2 := by
  intro x k
  have h1 : x - 1 / 2 ≤ ((x - 1 / 2).ceil : Int) := Rat.le_ceil
  have h2 : (((x - 1 / 2).ceil : Int) : Rat) < x - 1 / 2 + 1 := Rat.ceil_lt
  have hk : k = (x - 1 / 2).ceil := rfl
  rw [hk]
  constructor <;> grind

/-- The integer with `j − 1/2 < x ≤ j + 1/2` is unique, so `delay_rounding` determines the result
(in particular it is *not* Python's `round`, which sends 1.5 to 2: see the examples). -/
theorem delay_rounding_unique (fs : Int) (ms : Rat) (j : Int)
    (h1 : (j : Rat) - 1 / 2 < (fs : Rat) * ms / 1000) (h2 : (fs : Rat) * ms / 1000 ≤ (j : Rat) + 1 / 2) :
    j = delaySamples fs ms := by
  have hk : delaySamples fs ms = ((fs : Rat) * ms / 1000 - 1 / 2).ceil := rfl
  generalize (fs : Rat) * ms / 1000 = x at *
  have a : (x - 1 / 2).ceil ≤ j := Rat.ceil_le_iff.mpr (by grind)
  have b : j - 1 < (x - 1 / 2).ceil := Rat.lt_ceil_iff.mpr (by
    have : ((j - 1 : Int) : Rat) = (j : Rat) - 1 := by simp [Rat.intCast_sub]
    rw [this]; grind)
  omega

/-! ## simplification -/

variable [DecidableEq α]

/-- **simplify_preserves_meaning.** `_simplify_track_spec` never changes what a spec means, for every
spec (also outside `wf`), sample rate and input. -/
theorem simplify_preserves_meaning (fs : Int) (nch : Nat) (s : Spec α) (x : List (List α)) :
    meaning fs nch (simplify s) x = meaning fs nch s x :=
  simplify_meaning fs nch s x

/-- The simplified spec has no empty mix, so `MixProcessor`'s assertion never fires in
`TrackProcessor(spec)`; and simplification does not introduce a bad index or a negative delay. -/
theorem simplify_buildable (fs : Int) (nch : Nat) (s : Spec α) :
    (simplify s).buildable = true ∧ (s.wf fs nch = true → (simplify s).wf fs nch = true) :=
  ⟨simplify_buildable' s, simplify_wf fs nch s⟩

/-! ## processors -/

omit [DecidableEq α] in
/-- The processors built by `_track_spec_processor` for *any* spec without an empty mix (simplified
or not), fed any partition of the input, output block by block the literal meaning of the spec on
the whole input. -/
theorem built_processor_eq_meaning (fs : Int) (nch : Nat) (s : Spec α)
    (hb : s.buildable = true) (hwf : s.wf fs nch = true) (parts : List (List (List α))) :
    runBuilt fs nch s parts =
      .ok (chunks (parts.map List.length) (meaning fs nch s parts.flatten)) := by
  have := run_after fs nch s hwf parts false [] (fun _ => rfl)
  simp only [runBuilt, build_eq_after fs nch s hb, this, List.nil_append, List.length_nil, List.drop_zero]

/-- **processor_eq_meaning (C20).** `p = TrackProcessor(spec)` followed by `p.process(fs, b)` for the
blocks `b` of *any* partition `parts` of the input (empty blocks allowed) never raises and returns,
block by block, the literal meaning of `spec` on the concatenated input: the outputs have the lengths of
the blocks and their concatenation is `meaning spec parts.flatten`. -/
theorem processor_eq_meaning (fs : Int) (nch : Nat) (s : Spec α) (hwf : s.wf fs nch = true)
    (parts : List (List (List α))) :
    runSpec fs nch s parts = .ok (chunks (parts.map List.length) (meaning fs nch s parts.flatten)) ∧
    (chunks (parts.map List.length) (meaning fs nch s parts.flatten)).flatten =
      meaning fs nch s parts.flatten := by
  constructor
  · rw [runSpec, built_processor_eq_meaning fs nch (simplify s) (simplify_buildable' s)
      (simplify_wf fs nch s hwf) parts, simplify_meaning]
  · exact chunks_flatten parts _ (meaning_length fs nch s _)

/-- Block-partition independence, as a corollary: two partitions of the same input give the same
concatenated output. -/
theorem partition_independent (fs : Int) (nch : Nat) (s : Spec α) (hwf : s.wf fs nch = true)
    (p q : List (List (List α))) (h : p.flatten = q.flatten) :
    ∃ a b, runSpec fs nch s p = .ok a ∧ runSpec fs nch s q = .ok b ∧ a.flatten = b.flatten := by
  refine ⟨_, _, (processor_eq_meaning fs nch s hwf p).1, (processor_eq_meaning fs nch s hwf q).1, ?_⟩
  rw [(processor_eq_meaning fs nch s hwf p).2, (processor_eq_meaning fs nch s hwf q).2, h]

omit [DecidableEq α] in
/-- The driver's entry point (a sample rate per call) with one rate for all calls is `run`. -/
theorem runR_const (fs : Int) (nch : Nat) (parts : List (List (List α))) : ∀ p : Proc α,
    runR nch p (parts.map fun b => (fs, b)) = run fs nch p parts := by
  induction parts with
  | nil => intro p; rfl
  | cons b rest ih =>
    intro p
    simp only [List.map_cons, runR, run]
    cases step fs nch p b with
    | error e => rfl
    | ok r => simp only [ih]

/-! ## `MultiTrackProcessor` -/

/-- **multi_processor_eq_meaning.** `MultiTrackProcessor(specs)` with at least one spec, fed any partition
of the input, returns for every block the `(n, m)` stack of the corresponding pieces of the `m` specs'
literal meanings on the whole input (every spec has its own processor state). -/
theorem multi_processor_eq_meaning (fs : Int) (nch : Nat) (ss : List (Spec α)) (hne : ss ≠ [])
    (hwf : Spec.wfList fs nch ss = true) (parts : List (List (List α))) :
    runMultiSpec fs nch ss parts =
      .ok (stackRuns (parts.map List.length) (ss.map fun s =>
        chunks (parts.map List.length) (meaning fs nch s parts.flatten))) := by
  have hne' : simplifyList ss ≠ [] := by
    rw [simplifyList_eq_map]; simpa using hne
  have := runMulti_after fs nch (simplifyList ss) (simplifyList_wf fs nch ss hwf) hne' parts false []
    (fun _ => rfl)
  simp only [runMultiSpec, buildMulti_eq fs nch ss, this, List.nil_append, List.length_nil, List.drop_zero]
  congr 2
  rw [simplifyList_eq_map, List.map_map]
  apply List.map_congr_left
  intro s _
  simp only [Function.comp, simplify_meaning]

/-- With no track specs, `np.stack([])` raises `ValueError` on the first `process` call. -/
theorem multi_empty_raises (fs : Int) (nch : Nat) (b : List (List α)) (rest : List (List (List α))) :
    runMultiSpec fs nch ([] : List (Spec α)) (b :: rest) = .error .emptyStack := rfl

/-! ## matrix packs -/

omit [DecidableEq α] in
theorem meaningList_packCoeffs (fs : Int) (nch : Nat) (x : List (List α)) :
    ∀ cs : List (MChan α × Option α × Option Rat),
    meaningList fs nch (packCoeffs cs) x =
      cs.map fun c => delayOpt fs c.2.2 (scaleOpt c.2.1 (meaning fs nch (packSpec c.1) x))
  | [] => rfl
  | (c, g, d) :: cs => by
    simp only [packCoeffs, meaningList, List.map_cons, meaningList_packCoeffs fs nch x cs, meaning, delayOpt]

omit [DecidableEq α] in
/-- **matrix_pack_spec_meaning.** The nested spec `GainTrackSpec(MixTrackSpec([MatrixCoefficientTrackSpec(
get_track_spec(c.inputChannelFormat), c) for c in matrix]), block_format.gain)` built by
`MatrixAllocationPack.output_channel_allocation` for a matrix channel means: the sum over its
coefficients of the (recursively obtained) input channel signal scaled by the coefficient gain and
delayed by the coefficient delay, all scaled by the block format gain.
(That the spec the item-selection model builds, `Adm.matrixSpec`, IS `packSpec` of the channel tree of the
document: `Earverif.Adm.matrixSpec_eq_packSpec`, Proofs/C06Matrix.lean; applied to selected items in
`Earverif.Adm.matrixTrack_meaning` / `matrix_item_spec_meaning`, Props/C06.lean.) -/
theorem matrix_pack_spec_meaning (fs : Int) (nch : Nat) (cs : List (MChan α × Option α × Option Rat)) (g : α)
    (x : List (List α)) :
    meaning fs nch (packSpec (.matrixCh cs g)) x =
      (vsum x.length (cs.map fun c =>
        delayOpt fs c.2.2 (scaleOpt c.2.1 (meaning fs nch (packSpec c.1) x)))).map (· * g) := by
  simp only [packSpec, meaning, meaningList_packCoeffs]

/-! ## Non-vacuity and the cases outside the quantifier (all evaluated by the kernel) -/

section Examples
open Spec

/-- a spec with every node type, a unit gain, a single-input mix, a silent leaf, a sub-sample and a
several-sample delay -/
def exSpec : Spec Rat :=
  .gain (.mix [.matrix (.mix [.direct 0]) (some (1/2)) (some (1/32)),
               .matrix (.gain (.direct 1) 1) none (some (1/128)),
               .silent,
               .matrix (.direct 2) (some 2) (some (1/16))]) 3

/-- `r` is `.ok v` -/
def isOk {β : Type} [BEq β] (r : Except Err β) (v : β) : Bool :=
  match r with
  | .ok o => o == v
  | .error _ => false
/-- `r` raises `e` -/
def isErr {β : Type} (r : Except Err β) (e : Err) : Bool :=
  match r with
  | .ok _ => false
  | .error e' => e' == e

example : exSpec.wf 48000 3 = true := by decide +kernel
/-- 1.5 samples round to 1 (not 2 as Python's `round` would), 0.375 to 0, 3 to 3, 0.5 to 0, 2.5 to 2 -/
example : delaySamples 48000 (1/32) = 1 ∧ delaySamples 48000 (1/128) = 0 ∧ delaySamples 48000 (1/16) = 3
    ∧ delaySamples 8000 (1/16) = 0 ∧ delaySamples 8000 (5/16) = 2 := by decide +kernel
/-- the model evaluates on it: blocks of 2, 0, 1 and 2 frames (same numbers as the real code, see the
harness): the unit gain, the single-input mix and the silent leaf are simplified away -/
example : isOk (runSpec 48000 3 exSpec [[[1, 2, 3], [4, 5, 6]], [], [[7, 8, 9]], [[1, 1, 1], [2, 2, 2]]])
    [[6, 33/2], [], [30], [63/2, 87/2]] = true := by decide +kernel
example : (match simplify exSpec with
    | .gain (.mix [.matrix (.direct 0) (some _) (some _), .matrix (.direct 1) none (some _),
                   .matrix (.direct 2) (some _) (some _)]) _ => true
    | _ => false) = true := by decide +kernel
/-- a delay that rounds below zero is rejected at the first `process` call, even an empty one … -/
example : isErr (runSpec 48000 3 (.matrix (.direct 0) none (some (-1/64)) : Spec Rat) [[]]) .negDelay = true := by
  decide +kernel
/-- … but not if nothing is processed, not if simplification removes the node, and −0.375 samples round to 0 -/
example : isOk (runSpec 48000 3 (.matrix (.direct 0) none (some (-1/64)) : Spec Rat) []) [] = true := by
  decide +kernel
example : isOk (runSpec 48000 3 (.matrix .silent none (some (-1/64)) : Spec Rat) [[[1, 2, 3]]]) [[0]] = true := by
  decide +kernel
example : isOk (runSpec 48000 3 (.matrix (.direct 0) none (some (-1/128)) : Spec Rat) [[[1, 2, 3]]]) [[1]] = true := by
  decide +kernel
/-- index 3 of 3 channels raises `IndexError`; −1 is numpy's last column -/
example : isErr (runSpec 48000 3 (.direct 3 : Spec Rat) [[[1, 2, 3]]]) .index = true := by decide +kernel
example : isOk (runSpec 48000 3 (.direct (-1) : Spec Rat) [[[1, 2, 3]]]) [[3]] = true := by decide +kernel
/-- `_track_spec_processor` on an unsimplified empty mix trips the assertion -/
example : isErr (runBuilt 48000 3 (.gain (.mix []) 2 : Spec Rat) []) .notSimplified = true := by decide +kernel
/-- a sample-rate change after the delay exists is rejected -/
example : isErr (match trackProcessor (.matrix (.direct 0) none (some 0) : Spec Rat) with
    | .ok p => runR 3 p [(48000, [[1, 2, 3]]), (44100, [[1, 2, 3]])]
    | .error e => .error e) .sampleRate = true := by decide +kernel

/-! ## the strict literal meaning (independent of `step`'s helpers, undefined on ragged input) -/

section Strict
variable {α : Type} [Sample α]

/-- **meaning_eq_meaningStrict.**  For input of shape `(n, nch)` (every frame `nch` wide: `Rect`) and
a spec inside the quantifier, the independently defined, partial `meaningStrict` (no `chanIdx` /
`getD` / `zipWith` / `take`) is defined and equals the totalised `meaning`; on ragged input or
outside the quantifier it is undefined, so an agreement "for the wrong reason" is impossible. -/
theorem meaning_eq_meaningStrict (fs : Int) (nch : Nat) (s : Spec α) (x : List (List α)) :
    (Rect nch x → s.wf fs nch = true → meaningStrict fs nch s x = some (meaning fs nch s x)) ∧
    (¬ Rect nch x → meaningStrict fs nch s x = none) ∧
    (s.wf fs nch = false → meaningStrict fs nch s x = none) :=
  ⟨fun hx hw => meaningStrict_eq fs nch x hx s hw, fun hx => meaningStrict_ragged fs nch x hx s,
   fun hw => meaningStrict_not_wf fs nch x s hw⟩

omit [Sample α] in
theorem rect_flatten {nch : Nat} {parts : List (List (List α))} (h : ∀ b ∈ parts, Rect nch b) :
    Rect nch parts.flatten := by
  intro fr hfr
  obtain ⟨b, hb, hfb⟩ := List.mem_flatten.mp hfr
  exact h b hb fr hfb

variable [DecidableEq α]

/-- **processor_eq_meaningStrict (C20, exact delay conversion).**  `TrackProcessor(spec)` fed any
partition of an `(n, nch)` input returns, block by block, the strict literal meaning of the spec on
the whole input (which is defined). -/
theorem processor_eq_meaningStrict (fs : Int) (nch : Nat) (s : Spec α) (hwf : s.wf fs nch = true)
    (parts : List (List (List α))) (hrect : ∀ b ∈ parts, Rect nch b) :
    ∃ v, meaningStrict fs nch s parts.flatten = some v ∧
      runSpec fs nch s parts = .ok (chunks (parts.map List.length) v) ∧
      (chunks (parts.map List.length) v).flatten = v := by
  refine ⟨meaning fs nch s parts.flatten, meaningStrict_eq fs nch _ (rect_flatten hrect) s hwf, ?_⟩
  exact processor_eq_meaning fs nch s hwf parts

/-- **processorF_eq_meaningStrict (C20, the code's binary64 delay conversion).**  The processors as the
code runs them — `init_delay` evaluated in binary64 (`delaySamplesF`) — return the strict literal
meaning (delay = nearest sample in exact arithmetic) for every spec inside the quantifier whose
coefficient delays convert to the same number of samples in binary64 as exactly
(`Spec.floatExact`, decidable; sufficient condition: `delaySamplesF_eq_of_margin` /
`floatExact_of_margin` in `Proofs/C20FloatMargin.lean`, which needs Mathlib and is kept out of this file
because `Props/C02.lean` and `Props/C06.lean` import it).  Without that
hypothesis the statement is false: `float_delay_counterexample`. -/
theorem processorF_eq_meaningStrict (fs : Int) (nch : Nat) (s : Spec α) (hwf : s.wf fs nch = true)
    (hfe : s.floatExact fs = true) (parts : List (List (List α))) (hrect : ∀ b ∈ parts, Rect nch b) :
    ∃ v, meaningStrict fs nch s parts.flatten = some v ∧
      runSpecF fs nch s parts = .ok (chunks (parts.map List.length) v) ∧
      (chunks (parts.map List.length) v).flatten = v := by
  obtain ⟨v, h1, h2, h3⟩ := processor_eq_meaningStrict fs nch s hwf parts hrect
  exact ⟨v, h1, by rw [runSpecF_eq fs nch s hfe parts]; exact h2, h3⟩

/-- `MultiTrackProcessor` as the code runs it -/
theorem multi_processorF_eq_meaning (fs : Int) (nch : Nat) (ss : List (Spec α)) (hne : ss ≠ [])
    (hwf : Spec.wfList fs nch ss = true) (hfe : Spec.floatExactList fs ss = true)
    (parts : List (List (List α))) :
    runMultiSpecF fs nch ss parts =
      .ok (stackRuns (parts.map List.length) (ss.map fun s =>
        chunks (parts.map List.length) (meaning fs nch s parts.flatten))) := by
  rw [runMultiSpecF_eq fs nch ss hfe parts]
  exact multi_processor_eq_meaning fs nch ss hne hwf parts

end Strict

/-- the exact value of the binary64 number `0.052083333333333336` (the double nearest to 2.5/48 ms,
i.e. to two and a half samples at 48 kHz; it lies above 2.5/48 by 3.5e-18) -/
def tieDelay : Rat := mkRat 7505999378950827 144115188075855872

/-- **float_delay_counterexample.**  Sample rate 48000, coefficient delay 0.052083333333333336 ms:
`48000·delay/1000 = 2.5000000000000001…` samples, whose nearest sample is 3, but in binary64
`48000*delay` rounds to exactly 2500.0, so the code's `ceil(2.5 - 0.5)` gives 2.  The processors as
the code runs them delay an impulse by 2 samples, the literal meaning by 3.  (Run on the real code
by `harness/c20.py`, tag `float-delay-near-tie`.) -/
theorem float_delay_counterexample :
    delaySamplesF 48000 tieDelay = 2 ∧ delaySamples 48000 tieDelay = 3 ∧
    Ieee.rn53 tieDelay = tieDelay ∧
    (.matrix (.direct 0) none (some tieDelay) : Spec Rat).wf 48000 1 = true ∧
    isOk (runSpecF 48000 1 (.matrix (.direct 0) none (some tieDelay) : Spec Rat) [[[1], [0]], [[0], [0]]])
      [[0, 0], [1, 0]] = true ∧
    meaningStrict 48000 1 (.matrix (.direct 0) none (some tieDelay) : Spec Rat) [[1], [0], [0], [0]]
      = some [0, 0, 0, 1] := by decide +kernel

/-- ragged input: a frame of the wrong width makes the strict meaning undefined, whereas the
totalised `meaning` (and `step`) silently read 0 for the missing sample -/
example : meaningStrict 48000 2 (.direct 1 : Spec Rat) [[1, 2], [3]] = none ∧
    meaning 48000 2 (.direct 1 : Spec Rat) [[1, 2], [3]] = [2, 0] := by decide +kernel
/-- non-vacuity: `exSpec` is float-exact at 48 kHz, its strict meaning is defined -/
example : exSpec.floatExact 48000 = true ∧
    meaningStrict 48000 3 exSpec [[1, 2, 3], [4, 5, 6], [7, 8, 9], [1, 1, 1], [2, 2, 2]]
      = some [6, 33/2, 30, 63/2, 87/2] := by decide +kernel
example : Rect 3 ([[1, 2, 3], [4, 5, 6]] : List (List Rat)) := by
  intro fr h; simp at h; rcases h with rfl | rfl <;> rfl

end Examples

end Earverif.TrackSpec
