"""C08 — ADM serialisation (AXML + CHNA) round-trips; generation is a fixed point; generated IDs are unique,
well-formed and never the reserved silent-track UID.

Lean side: models of time_format (parse/unparse), generate_ids, the CHNA entry codec and the float leaf
(FloatType / SecondsType: harness/c08_float.py, Earverif/Model/FloatText.lean), with theorems in
Earverif/Props/C08.lean.  This module ties those models to the real code (leaf correspondence) and evaluates the
property itself on generated documents with the real code only (harness/c08_docs.py).
"""
import io
import multiprocessing
import os
import struct
import warnings
from fractions import Fraction

from . import c08_docs as docs
from . import c08_codec as codec
from . import c08_classes as classes
from . import c08_directed as directed
from . import c08_refs as refs
from . import c08_float as flt
from .common import Spec, Driver, GEN, write_if_changed

# ---------------------------------------------------------------------------------------------
# real-code leaves, canonicalised like the driver's answers


def cps(s):
    return " ".join("%x" % ord(c) for c in s)


def py_parse(s, v1=False):
    from ear.fileio.adm.time_format import parse_time, parse_time_v1, FractionalTime

    try:
        t = (parse_time_v1 if v1 else parse_time)(s)
    except ValueError:
        return "E"
    except Exception as e:  # anything else escaping is a difference worth seeing
        return "X:" + type(e).__name__
    if isinstance(t, FractionalTime):
        return "F %d %d" % (t.format_numerator, t.format_denominator)
    return "D %d/%d" % (t.numerator, t.denominator)


def py_unparse(t, af):
    from ear.fileio.adm.time_format import unparse_time

    with warnings.catch_warnings(record=True) as w:
        warnings.simplefilter("always")
        try:
            s = unparse_time(t, allow_fractional=af)
        except AssertionError:
            return "negative"
        except Exception as e:
            return "X:" + type(e).__name__
    if any("loss of accuracy" in str(x.message) for x in w):
        return "lossy"
    return "ok " + s


def time_line(t, af):
    from ear.fileio.adm.time_format import FractionalTime

    if isinstance(t, FractionalTime):
        return "tu %d F %d %d" % (af, t.format_numerator, t.format_denominator)
    return "tu %d D %d %d" % (af, t.numerator, t.denominator)


def gen_time_strings(rng, n):
    """valid shapes and near-misses of _TIME_RE"""
    out = ["00:00:00.0", "0:0:0.0", "59.99999", "00:00:59.99999", "99:59:59.99999", "99:99:99.9", "00:00:00.1S3",
           "00:00:00.0S1", "00:00:00.2S4", "00:00:00.4S4", "00:00:00.5S4", "00:00:00.0S0", "01:02:03.004S0005",
           "100:00:00.0", "00:00:00", "00:00:00.", "00:00:.5", "00:00:00.5S", "00:00:00.5S3S", "00:00:00.5s3",
           "00:00:00.5S3 ", " 00:00:00.5", "00:00:00.5\n", "00:00:00,5", "00:00:000.5", "000:00:00.5", "00:000:00.5",
           "-1:00:00.5", "00:00:00.-5", "00:00:00.5e3", "00:00:00.1_0", "", ":", "1:2:3.4", "1:2:3.4S5", "01:02:03.9S10",
           "12:34:56.0000000000000000000000000000000000000001", "23:59:59.999999999999999999999999999999"]
    digs = "0123456789"
    for _ in range(n):
        k = rng.random()
        h = "".join(rng.choice(digs) for _ in range(rng.choice([1, 2, 2, 2, 3, 0])))
        m = "".join(rng.choice(digs) for _ in range(rng.choice([1, 2, 2, 2, 3, 0])))
        s = "".join(rng.choice(digs) for _ in range(rng.choice([1, 2, 2, 2, 3, 0])))
        f = "".join(rng.choice(digs) for _ in range(rng.choice([0, 1, 1, 2, 3, 5, 5, 9, 17, 30])))
        t = "%s:%s:%s.%s" % (h, m, s, f)
        if k < 0.35:
            t += "S" + "".join(rng.choice(digs) for _ in range(rng.choice([0, 1, 1, 2, 3, 5, 6])))
        if k > 0.9:
            # one random edit
            i = rng.randrange(len(t) + 1)
            t = t[:i] + rng.choice(["", ":", ".", "S", " ", "x", "5", "-", "+"]) + t[i + (rng.random() < 0.5):]
        out.append(t)
    return out


def gen_times(rng, n):
    """times for unparse: (time, allow_fractional)"""
    from ear.fileio.adm.time_format import FractionalTime

    H = 360000
    out = [(Fraction(0), 0), (Fraction(0), 1), (Fraction(5999999, 100000), 0), (Fraction(1, 3), 1), (Fraction(1, 3), 0),
           (FractionalTime(0, 1), 1), (FractionalTime(2, 4), 1), (FractionalTime(2, 4), 0), (FractionalTime(1, 3), 0),
           (FractionalTime(5), 1), (Fraction(H), 1), (Fraction(H) - Fraction(1, 10 ** 5), 0), (Fraction(-1, 2), 0),
           (Fraction(-3), 1), (Fraction(1, 10 ** 40), 0), (Fraction(10 ** 27 + 1, 10 ** 27), 0),
           (Fraction(10 ** 28 + 1, 10 ** 28), 0), (Fraction(10 ** 28 + 1, 10 ** 28), 1),
           (Fraction(359999 * 10 ** 22 + 1, 10 ** 22), 0), (Fraction(359999 * 10 ** 23 + 1, 10 ** 23), 0),
           (Fraction(1, 2 ** 40), 0), (Fraction(1, 5 ** 30), 1), (Fraction(7, 2 ** 70), 0)]
    for _ in range(n):
        k = rng.random()
        af = rng.randint(0, 1)
        if k < 0.3:
            p = rng.choice([0, 1, 2, 3, 5, 5, 8, 12, 20, 26, 30])
            t = Fraction(rng.randint(0, H * 10 ** min(p, 6)) * 10 ** max(0, p - 6) + rng.randint(0, 10 ** max(0, p - 6)),
                         10 ** p)
        elif k < 0.45:
            t = Fraction(rng.randint(0, 10 ** 6), 2 ** rng.randint(0, 40) * 5 ** rng.randint(0, 20))
        elif k < 0.6:
            d = rng.choice([3, 7, 9, 48000 * 3, rng.randint(2, 10 ** 9)])
            t = Fraction(rng.randint(0, H * d), d)
        elif k < 0.9:
            d = rng.choice([1, 2, 4, 25, 48000, 44100, 96000, rng.randint(1, 10 ** 7)])
            t = FractionalTime(rng.randint(0, (H + 10) * d), d)
        elif k < 0.95:
            t = Fraction(rng.randint(H - 2, H + 100)) + Fraction(rng.randint(0, 99999), 100000)
        else:
            t = -Fraction(rng.randint(1, 10 ** 6), 10 ** rng.randint(0, 6))  # exact negative decimals: AssertionError
        out.append((t, af))
    return out


# ---- ids


def real_ids(inp):
    """run the real generate_ids on a document with the given element counts.
    inp = (nProg, nCont, nATU, unlinked, avs[], packTypes[], [(type, blocks)], [(type, tracks)])"""
    from ear.fileio.adm.adm import ADM
    from ear.fileio.adm.elements import (AlternativeValueSet, AudioBlockFormatObjects, AudioBlockFormatBinaural,
                                         AudioBlockFormatDirectSpeakers, AudioBlockFormatHoa, AudioBlockFormatMatrix,
                                         AudioChannelFormat, AudioContent, AudioObject, AudioPackFormat,
                                         AudioProgramme, AudioStreamFormat, AudioTrackFormat, AudioTrackUID,
                                         FormatDefinition, TypeDefinition)
    from ear.fileio.adm.generate_ids import generate_ids

    np_, nc, nu, unl, avs, packs, chans, streams = inp
    import copy
    from ear.fileio.adm.elements import BoundCoordinate, DirectSpeakerPolarPosition, ObjectPolarPosition
    templ = {1: AudioBlockFormatDirectSpeakers(position=DirectSpeakerPolarPosition(BoundCoordinate(0.0), BoundCoordinate(0.0))),
             2: AudioBlockFormatMatrix(), 3: AudioBlockFormatObjects(position=ObjectPolarPosition(0.0, 0.0, 1.0)),
             4: AudioBlockFormatHoa(), 5: AudioBlockFormatBinaural()}
    adm = ADM()
    for i in range(np_): adm.addAudioProgramme(AudioProgramme(audioProgrammeName="p"))
    for i in range(nc): adm.addAudioContent(AudioContent(audioContentName="c"))
    for a in avs:
        adm.addAudioObject(AudioObject(audioObjectName="o", alternativeValueSets=[AlternativeValueSet() for _ in range(a)]))
    for t in packs:
        adm.addAudioPackFormat(AudioPackFormat(audioPackFormatName="p", type=TypeDefinition(t)))
    for t, nb in chans:
        c = AudioChannelFormat(audioChannelFormatName="c", type=TypeDefinition(t))
        # (block formats are only enumerated by generate_ids; bypass the list validator for speed)
        c.audioBlockFormats = [copy.copy(templ[t]) for _ in range(nb)]
        adm.addAudioChannelFormat(c)
    tracks_of = []
    for t, nt in streams:
        cf = AudioChannelFormat(audioChannelFormatName="x", type=TypeDefinition(t), is_common_definition=True)
        s = AudioStreamFormat(audioStreamFormatName="s", format=FormatDefinition.PCM, audioChannelFormat=cf)
        adm.addAudioStreamFormat(s)
        tracks_of.append([AudioTrackFormat(audioTrackFormatName="t", format=FormatDefinition.PCM, audioStreamFormat=s)
                          for _ in range(nt)])
    # interleave the track formats of different streams (the real code filters by stream identity)
    mx = max(map(len, tracks_of), default=0)
    order = [g[i] for i in range(mx) for g in tracks_of if i < len(g)]
    for tf in order: adm.addAudioTrackFormat(tf)
    for i in range(unl):
        adm.addAudioTrackFormat(AudioTrackFormat(audioTrackFormatName="u", format=FormatDefinition.PCM))
    for i in range(nu): adm.addAudioTrackUID(AudioTrackUID())
    try:
        generate_ids(adm)
    except AssertionError:
        return "E", adm
    groups = [
        " ".join(e.id for e in adm.audioProgrammes), " ".join(e.id for e in adm.audioContents),
        " ".join(e.id for e in adm.audioObjects),
        " ; ".join(" ".join(a.id for a in o.alternativeValueSets) for o in adm.audioObjects),
        " ".join(e.id for e in adm.audioPackFormats), " ".join(e.id for e in adm.audioChannelFormats),
        " ; ".join(" ".join(b.id for b in c.audioBlockFormats) for c in adm.audioChannelFormats),
        " ".join(e.id for e in adm.audioStreamFormats),
        " ; ".join(" ".join(t.id for t in g) for g in tracks_of),
        " ".join(e.id for e in adm.audioTrackUIDs),
    ]
    return " | ".join(groups), adm


def ids_line(inp):
    np_, nc, nu, unl, avs, packs, chans, streams = inp
    return "gi %d %d %d %d ; %s ; %s ; %s ; %s" % (
        np_, nc, nu, unl, " ".join(map(str, avs)), " ".join(map(str, packs)),
        " ".join("%d:%d" % p for p in chans), " ".join("%d:%d" % p for p in streams))


def norm_groups(s):
    """normalise blanks of the `|`/`;` separated answer"""
    if s == "E":
        return s
    return [[" ".join(x.split()) for x in g.split(";")] for g in s.split("|")]


# ---- chna


def hexs(b):
    return b.hex().upper() if b else "-"


def py_chna_encode(idx, uid, ref, pack):
    from ear.fileio.bw64.chunks import AudioID

    try:
        return AudioID(idx, uid, ref, pack).asByteArray().hex().upper()
    except (AssertionError, struct.error):
        return "E"
    except Exception as e:
        return "X:" + type(e).__name__


def chna_file(entry_bytes, ntracks=1):
    """a minimal RIFF/WAVE file whose chna chunk holds the given rows"""
    rows = b"".join(entry_bytes)
    chna = struct.pack("<HH", ntracks, len(entry_bytes)) + rows
    fmt = struct.pack("<HHIIHH", 1, 1, 48000, 96000, 2, 16)
    body = b"WAVE" + b"fmt " + struct.pack("<I", len(fmt)) + fmt + b"chna" + struct.pack("<I", len(chna)) + chna \
        + b"data" + struct.pack("<I", 0)
    return b"RIFF" + struct.pack("<I", len(body)) + body


def py_chna_decode(raw):
    from ear.fileio.bw64 import Bw64Reader

    with warnings.catch_warnings():
        warnings.simplefilter("ignore")
        try:
            rd = Bw64Reader(io.BytesIO(chna_file([raw])))
        except Exception as e:
            return "X:" + type(e).__name__
    a = rd.chna.audioIDs[0]
    enc = lambda s: hexs(s.encode("utf-8"))
    return "%d %s %s %s" % (a.trackIndex, enc(a.audioTrackUID), enc(a.audioTrackFormatIDRef),
                            "-" if a.audioPackFormatIDRef is None else enc(a.audioPackFormatIDRef))


def gen_chna_entries(rng, n):
    hexd = "0123456789ABCDEF"
    rh = lambda k: "".join(rng.choice(hexd) for _ in range(k))
    out = [(1, "ATU_00000001", "AT_00031001_01", "AP_00031001"), (1, "ATU_00000001", "AC_00031001", None),
           (65535, "ATU_FFFFFFFF", "AC_00010001", "AP_00010002"), (0, "ATU_00000000", "AT_00010001_01", None),
           (65536, "ATU_00000001", "AT_00010001_01", None), (1, "ATU_1", "AT_00010001_01", None),
           (1, "ATU_0000000001", "AT_00010001_01", "AP_0001000200"), (1, "ATU_00000001", "AT_0001000", None),
           (1, "ATU_00000001", "AC_00031001_00", None), (1, "ATU_00000001", "AT_00031001_01", ""),
           (1, "ATU_00000001", "AT_00031001_01", "AP_1"), (1, "", "AC_00000000", None),
           (1, "ATU_00000001", "ac_00031001_01", None)]
    for _ in range(n):
        idx = rng.choice([1, 2, 255, 256, 257, 65535, rng.randint(0, 65535)])
        uid = "ATU_" + rh(8)
        ref = ("AT_" + rh(8) + "_" + rh(2)) if rng.random() < 0.5 else ("AC_" + rh(8))
        pack = None if rng.random() < 0.3 else "AP_" + rh(8)
        k = rng.random()
        if k < 0.08:
            uid = uid[:rng.randint(0, 11)]
        elif k < 0.12:
            uid += rh(rng.randint(1, 3))
        elif k < 0.18:
            ref = ref[:rng.randint(0, len(ref) - 1)] if rng.random() < 0.5 else ref + rh(rng.randint(1, 3))
        elif k < 0.24 and pack is not None:
            pack = pack[:rng.randint(0, 10)] if rng.random() < 0.5 else pack + rh(rng.randint(1, 3))
        elif k < 0.3:
            # arbitrary printable ASCII of the right lengths
            pr = lambda m: "".join(chr(rng.randint(32, 126)) for _ in range(m))
            uid, ref, pack = pr(12), rng.choice(["AC_" + pr(8), pr(14)]), rng.choice([None, pr(11)])
        out.append((idx, uid, ref, pack))
    return out


def gen_chna_raw(rng, n):
    """raw 40-byte rows for the decoder: 7-bit bytes, incl. NULs, AC_ rows without the _00 padding"""
    out = []
    for _ in range(n):
        k = rng.random()
        if k < 0.5:
            ref = rng.choice([b"AC_", b"AT_", b"ac_", b"AC", b"\0\0\0"]) + bytes(rng.randint(0, 127) for _ in range(11))
            ref = ref[:14].ljust(14, b"0")
            pk = rng.choice([b"\0" * 11, bytes(rng.randint(0, 127) for _ in range(11)), b"\0" * 10 + b"A", b"A" + b"\0" * 10])
            raw = struct.pack("<H", rng.randint(0, 65535)) + bytes(rng.randint(0, 127) for _ in range(12)) + ref + pk \
                + bytes([rng.choice([0, 0, 1, 255])])
        else:
            raw = bytes(rng.randint(0, 127) for _ in range(40))
        out.append(raw)
    return out


def copy_tracks(adm):
    """an ADM with private (shallow) copies of the audioTrackUIDs of adm, sharing the referenced elements"""
    import copy
    from ear.fileio.adm.adm import ADM

    a = ADM()
    for t in adm.audioTrackUIDs:
        a.addAudioTrackUID(copy.copy(t))
    return a


# ---------------------------------------------------------------------------------------------


def _pool_run(jobs):
    warnings.simplefilter("ignore")
    return docs.run_docs(jobs)


class C08(Spec):
    pid = "C08"
    lean_targets = ("Earverif.Props.C08", "c08driver")
    props_module = "Earverif.Props.C08"
    theorems = tuple(
        "Earverif.C08." + t
        for t in ("time_roundtrip_decimal", "time_roundtrip_fractional", "time_v1_rejects_fractional",
                  "time_unparse_parse", "ids_injective", "ids_wellformed", "ids_wellformed_bound_sharp",
                  "ids_not_reserved", "ids_disjoint_from_common", "above_common_ne", "chna_entry_roundtrip",
                  "chna_excluded_points", "handlers_wellformed", "handlers_table_nontrivial",
                  "common_ids_in_reserved_range", "handlers_codec_roundtrip", "handlers_roundtrip_values",
                  "handlers_codec_roundtrip_pure", "handlers_pure_count", "timeCodec_roundtrip_dec", "timeCodec_roundtrip_frac", "C08_partial")
    ) + ("Earverif.TimeFormat.dvd_pow_placesBound",) + tuple(
        "Earverif.XmlCodec." + t
        for t in ("stages_roundtrip", "codec_roundtrip", "codec_roundtrip_full", "codec_roundtrip_pure",
                  "toXml_decl_congr",
                  "keysOK_ofRows", "fieldOK_ofRow", "intCodec_roundtrip", "boolCodec_roundtrip", "floatCodec_roundtrip",
                  "stringCodec_roundtrip", "trackUIDRefCodec_roundtrip_str", "enumCodecs_roundtrip")) + tuple(
        "Earverif.XmlCustom." + t
        for t in ("frequency_roundtrip", "jumpPosition_roundtrip", "jumpPosition_excluded",
                  "speakerPosition_roundtrip", "speakerPosition_bad_lock", "dumpBound_steps",
                  "objectPosition_roundtrip", "objectPosition_out_of_range", "gainElement_roundtrip",
                  "optionalGain_roundtrip", "gainAttribute_roundtrip", "gain_dB_versions", "channelLock_roundtrip",
                  "divergence_roundtrip", "zoneExclusion_roundtrip")) + tuple(
        "Earverif.XmlBlocks." + t
        for t in ("objectsRows_eq", "objectsProps_eq", "objPs_keys", "objPs_fields", "xpath_position",
                  "objectsBlock_roundtrip",
                  # round 4: generic handler shapes, nested classes, the other block formats
                  "xpath_own", "run_single", "run_list", "run_xpath", "run_gain'", "run_frequency",
                  "loudness_roundtrip", "screen_roundtrip", "interaction_roundtrip", "avs_roundtrip",
                  "gainAttribute_roundtrip'", "coeff_roundtrip", "matrix_read", "binauralBlock_roundtrip",
                  "hoaBlock_roundtrip", "directSpeakersBlock_roundtrip", "matrixBlock_roundtrip", "objects_ofObj",
                  "ds_ofObj", "hoa_ofObj", "binaural_ofObj", "matrix_ofObj", "coeff_ofObj", "avs_ofObj",
                  "interaction_ofObj", "screen_ofObj", "loudness_ofObj")) + tuple(
        "Earverif.XmlCustom." + t
        for t in ("positionOffset_roundtrip", "positionOffset_zero_excluded", "centrePosition_roundtrip",
                  "centrePosition_out_of_range", "screenWidth_roundtrip", "screen_kind_mismatch", "gainRange_roundtrip",
                  "gainRange_empty_excluded", "posRange_roundtrip", "posRange_empty_excluded", "dumpIRange_steps")) + tuple(
        "Earverif.XmlElements." + t
        for t in ("packFormat_roundtrip", "streamFormat_roundtrip", "trackFormat_roundtrip", "trackUID_roundtrip",
                  "content_roundtrip", "programme_roundtrip", "object_roundtrip", "parseBlock_roundtrip",
                  "channelFormat_roundtrip",
                  # regenerated-table obligations (decide +kernel) and the link to the concrete parsers
                  "dsRows_eq", "hoaRows_eq", "binauralRows_eq", "matrixRows_eq", "objectsXRows_eq", "coeffRows_eq",
                  "loudnessRows_eq", "interactionRows_eq", "avsRows_eq", "programmeRows_eq", "contentRows_eq",
                  "objectRows_eq", "packRows_eq", "channelRows_eq", "streamRows_eq", "trackRows_eq", "trackUIDRows_eq",
                  "screenRows_eq",
                  "dsProps_eq", "hoaProps_eq", "binauralProps_eq", "matrixProps_eq", "objectsXProps_eq", "coeffProps_eq",
                  "loudnessProps_eq", "interactionProps_eq", "avsProps_eq", "programmeProps_eq", "contentProps_eq",
                  "objectProps_eq", "packProps_eq", "channelProps_eq", "streamProps_eq", "trackProps_eq",
                  "trackUIDProps_eq", "screenProps_eq")) + (
        "Earverif.C08.C08_roundtrip_model", "Earverif.C08.C08_nested_roundtrip") + tuple(
        # round 5: CHNA <-> audioTrackUID transfer, id map and reference resolution
        "Earverif.C08." + t
        for t in ("chna_transfer_roundtrip", "chna_rows_in_document_order", "chna_conflict_rejected",
                  "chna_only_document", "chna_absent_uid_untouched", "chna_validate_trackIndex", "chna_chunk_roundtrip",
                  "chna_transfer_through_bytes", "chna_excluded_points_transfer", "lookup_unique",
                  "duplicate_id_rejected", "duplicate_across_classes_not_rejected", "resolve_total_on_closed",
                  "resolve_dangling_rejected", "resolve_then_ids_roundtrip", "parsed_reference_fields")) + tuple(
        "Earverif.ChnaTransfer." + t
        for t in ("up_idem", "transfer_roundtrip", "chna_only", "populate_chna_only", "load_first_row_error",
                  "loadInto_conflicts", "chunk_roundtrip", "validateTrackIndex_ok_iff")) + tuple(
        "Earverif.AdmRefs." + t
        for t in ("lookup_eq_some_iff", "withoutDuplicates_cases", "dedupAll_dup", "withoutDuplicates_of_distinct",
                  "step_cases", "run_tasks", "avsPass_spec", "resolveChain_closed", "resolveChain_dangling",
                  "rebuild_elements")) + tuple(
        # round 7: the float leaf (FloatType / SecondsType) over exact binary64 values
        "Earverif.C08." + t
        for t in ("fmt5_parse_fmt5", "parse_fmt5_close", "parse_fmt5_exact_of_5dec", "parse_fmt5_idempotent",
                  "fmt07_5_fin", "seconds_roundtrip", "seconds_exact_of_5dec", "floatCodec_refines",
                  "secondsCodec_refines", "grid_model_excluded_points", "float_leaf_excluded_points")) + tuple(
        "Earverif.FloatText." + t
        for t in ("rhe_nearest", "rhe_tie_even", "rhe_of_le_half", "rn53_nearest", "rn53_idem_pos", "core", "core_range",
                  "roundtrip_master", "grid_core", "parseFloat_text", "parseFraction_numText")) + (
        # round 9: the float leaf composed with the document model (generic handler-table path, gain handlers,
        # jumpPosition): Proofs/C08FloatDoc.lean
        "Earverif.C08.C08_roundtrip_model_floats_partial", "Earverif.C08.C08_table_floatTexts_real") + tuple(
        "Earverif.FloatDoc." + t
        for t in ("realFloatText_dumpsNum", "realSecondsText_dumpsNum", "floatTexts_in_toXml", "floatRow_texts",
                  "obj_floatTexts_real", "gainRow_texts", "jumpRow_texts", "obj_numTexts_real", "no_float_handleText",
                  "float_rows_count", "siteRow_texts", "obj_siteTexts_real", "custom_rows_classified"))
    trusted_base = (
        "models Earverif/Model/TimeFormat.lean, GenIds.lean, Chna.lean are hand transliterations of "
        "time_format.parse_time/unparse_time, generate_ids.generate_ids, AudioID.asByteArray and the row decoding in "
        "Bw64Reader._read_chna_chunk; Python int/Fraction/Decimal(28 digits)/str.format/struct semantics as modelled",
        "models Earverif/Model/XmlCodec.lean (Attribute, AttrElement, ListElement, HandleText, TypeAttribute, "
        "ElementParser.__init__/parse/to_xml over an abstract XML tree with (namespace, local name) tags), "
        "XmlLeaf.lean (StringType/RefType/TrackUIDRefType/BoolType/IntType/TimeType/TimeTypeV1/FloatType-on-the-1e-5-"
        "grid/TypeAttribute enum codecs; table row -> model property), XmlCustom.lean (every hand-written handler "
        "pair of xml.py: frequency, jumpPosition, DirectSpeakers / Objects position, gain element / attribute, "
        "channelLock, objectDivergence, zoneExclusion, positionOffset, screenCentrePosition / screenWidth, "
        "gain / position interaction ranges), XmlBlocks.lean (as_handler / as_list_handler / matrix / block-format "
        "dispatch closures, the nested element classes and their constructors) and XmlElements.lean (the eight main "
        "elements, both versions; implX: handler chosen by the name recorded in the table row) are hand "
        "transliterations of xml.py and elements/*.py, tied by the combinator / handler / class-level correspondence "
        "on every run; the extractor of the property tables (harness/c08.py parser_rows) is trusted; "
        "Proofs/C08Frozen.lean is a frozen copy of the tables compared with the regenerated ones by decide +kernel",
        "models Earverif/Model/ChnaTransfer.lean (chna.py: populate_chna_chunk/_get_chna_entries, load_chna_chunk, "
        "_load_track_or_channel_ref, _load_pack_ref, guess_track_indices, validate_trackIndex; ChnaChunk.numTracks/"
        "numUIDs/asByteArray and the table loop of _read_chna_chunk; ids as 7-bit bytes, str.upper() as ASCII "
        "upper-casing, a resolved reference = the id stored in the element found, ADM.lookup_element as a parameter "
        "instantiated with the chain of ids of the document), Earverif/Model/AdmRefs.lean (adm.py: ADM lists, "
        "addAudio*, elements, lookup_element/__getitem__, _without_duplicates, lazy_lookup_references, "
        "_lazy_lookup_alternativeValueSets; lazy_lookup_references of every element class of main_elements.py / "
        "block_formats.py incl. _link_track_stream_format and add_encodePackFormat; generic in the id type and in "
        "str.upper; Python object identity as an explicit oid) and Earverif/Model/AdmRefsDoc.lean (the ADM that "
        "parse_adm_elements leaves: IDRef arguments pending) are hand transliterations, tied on every run by the "
        "round-5 correspondence (real ADM objects described at id level by harness/c08_refs.py: the attribute table "
        "FIELDS there is trusted)",
        "model Earverif/Model/FloatText.lean (FloatType = TypeConvert(float, '{:.5f}'.format), the bare float(text) of "
        "the hand-written handlers, SecondsType = TypeConvert(Fraction, '{:07.5f}'.format(float(t)))): a finite double is "
        "a sign bit and an exact rational magnitude; '{:.5f}' = the exact binary value times 10^5 rounded half-even "
        "(CPython dtoa mode 3), sign printed also for -0.0 and for negative values that round to zero, inf / nan; "
        "'{:07.5f}' = zero padding after the sign; float(str) = PyFloat_FromString (ASCII blanks stripped, underscores "
        "between digits, sign, inf / infinity / nan in any case, decimal with optional point and exponent, correctly "
        "rounded to binary64 incl. subnormals and overflow to inf) on ASCII strings; float(Fraction) = correctly rounded "
        "quotient (OverflowError modelled); Fraction(str) = fractions._RATIONAL_FORMAT without '_' separators; binary64 "
        "rounding = Earverif.Ieee.rn53 inside the normal range — tied on every run by the float-leaf correspondence "
        "through the real xml.FloatType / xml.SecondsType objects, bit-for-bit (doubles as 64-bit patterns)",
        "NOT modelled (outside every theorem, searched only): int() on spellings other than optionally signed ASCII "
        "digits, non-ASCII digits / blanks in float() and Fraction(), '_' separators in Fraction() (a gain read with "
        "gainUnit=dB is kept symbolic and not written), lxml parsing/serialisation, "
        "namespace prefixes and bytes <-> str (the tree is abstract, no byte level; CHNA strings are 7-bit), "
        "attrs validators other than the ones stated (position / PolarPosition ranges, screen class vs centre "
        "position; they do not run on attribute assignment, so load_chna_chunk stores what it finds), "
        "AudioStreamFormatWrapper bookkeeping, _set_default_rtimes / _sort_block_formats",
    )
    assumptions = (
        "times: 0 <= t < 100 h (hours are printed with a minimum of two digits, the parser accepts at most two); "
        "decimal form requires a terminating decimal with at most 28 significant digits (Decimal default context); "
        "ASCII digits only (Python's \\d also accepts other Unicode digits)",
        "ids well-formed only up to 0xEFFF elements of a top-level kind, 0xFFFF alternativeValueSets per object, "
        "0xFF track formats per stream, 0xFFFFFFFF block formats / track UIDs (excluded points are run on the real code)",
        "documents: values on the printable grid (floats multiples of 1e-5, interpolationLength multiple of 1e-5 s), "
        "block formats sorted by (rtime, duration) with rtime and duration both present or both absent, references "
        "without duplicates in encodePackFormats, no composite value that equals 'nothing' (all-zero positionOffset, "
        "empty interaction range, jumpPosition flag false with an interpolationLength, referenceScreen None, "
        "ADM.version None with AXML) — these degenerate points are evaluated once per run and recorded, not asserted",
        "CHNA strings are 7-bit",
        "float leaf: fmt5_parse_fmt5 / parse_fmt5_close / parse_fmt5_idempotent hold for every finite binary64 number "
        "(IsDouble: the magnitude is its own correctly rounded binary64 value; both signs, -0.0, subnormals, the largest "
        "double) with no magnitude bound; parse_fmt5_exact_of_5dec / seconds_exact_of_5dec / floatCodec_refines need the "
        "decimal below 2^36 ~ 6.9e10 (k = 2^36*10^5 itself still satisfies the conclusion; first failing point "
        "k = 2^36*10^5 + 1, float_leaf_excluded_points: roundHalfEven(x*10^5) of the nearest double is ...00002); "
        "floatCodec_refines / secondsCodec_refines are ONE-LEAF bridges between the printable-grid model (Leaf.num k, "
        "dumpsNum / loadsNum) and the real text / doubles / Fractions; C08_roundtrip_model_floats_partial composes them "
        "with the document model under the decidable hypothesis NumsBounded (every Leaf.num k under a declarative "
        "FloatType row of the element's regenerated parser table, every linear gain written by the five gain handlers: "
        "|k| < 2^36*10^5 or the unwritten handler default; jumpPosition interpolationLength additionally 0 <= k) for the "
        "generic handler-table path, the gain handlers and jumpPosition, and (ObjSitesBounded: every Int held by the "
        "stored value bounded) for the other hand-written handlers (positions with bounds, channelLock, divergence, zones, "
        "positionOffset, frequency, screen centre / width, interaction ranges; which texts are number texts is specified "
        "per handler in siteSpecs); the class / document round-trip theorems themselves stay "
        "over Leaf.num (k : Int) with no bound on k and with loadsNum = inverse of "
        "dumpsNum on its image only (not float(): 0.5, 1, 1e0 are outside; -0.00000 is read as 0): "
        "grid_model_excluded_points; -0.0 and gain = -1e-7 (written -0.00000) have no grid leaf and are recorded "
        "from the real code as excluded points; "
        "seconds_roundtrip needs 0 <= t and float(t) finite (excluded point, kernel-checked and run on the real code: "
        "a negative interpolationLength that rounds to zero is written -0.00000, read as Fraction(0), written 0.00000); "
        "inf / nan are printed as inf / nan and read back, but are not finite numbers (outside the theorems); strings "
        "are ASCII",
        "combinator model: handler keys pairwise distinct (checked on the extracted tables by handlers_wellformed); "
        "integer strings are optionally signed ASCII digit strings, floats are printed with exactly five decimals; "
        "DirectSpeakers / Objects screenEdgeLock values valid for their coordinate; Objects polar position and a "
        "polar screenCentrePosition inside the ranges PolarPosition accepts; jumpPosition round-trips only with the "
        "flag set or without interpolationLength (jumpPosition_excluded)",
        "class-level theorems (explicit Valid predicates): time attributes in the domain of the version's time codec; "
        "positionOffset not all-zero, interaction ranges with at least one bound and gains on the grid, "
        "referenceScreen not None (excluded points: nothing is written, the value comes back as None / the default "
        "screen); audioChannelFormat with at least one block format, every block of the class of the channel's type; "
        "a Matrix coefficient has an inputChannelFormat (to_xml raises otherwise); audioTrackUID references never carry "
        "the reserved id ATU_00000000; BS.2076-1 elements do not use BS.2076-2 features (block gain / importance outside "
        "Objects, audioObject gain / mute / positionOffset / alternativeValueSets, alternativeValueSetIDRef, "
        "audioTrackUID audioChannelFormatIDRef: to_xml raises) — each of these points is run on the real code and "
        "recorded in the evidence (excluded-point:*), never asserted",
        "CHNA transfer (WFDoc / WFChunk): distinct audioTrackUID ids compared upper-cased; every track UID with a "
        "track index and exactly one of audioTrackFormat / audioChannelFormat whose id is of the announced kind "
        "(audioChannelFormat ids start with 'AC_', audioTrackFormat ids do not) and is found again by lookup_element; "
        "ids are strings (generate_ids has run) and 7-bit; fewer than 65536 rows. Excluded points (theorem "
        "chna_excluded_points_transfer + run on the real code): a track UID without index makes populate raise; "
        "'ac_' lower-case prefix in CHNA is stored as audioTrackFormat; two rows for one known UID: last reference "
        "wins; trackIndex 0 passes load + validate_trackIndex; a CHNA reference to an element of another class is "
        "stored silently",
        "reference resolution (Static / AvsOK / Closed / CommonsDistinct): every list of the ADM holds elements of "
        "its own class; None only inside audioTrackUIDRef; decodePackFormatIDRef names audioPackFormats; stream <-> "
        "track links consistent with one stream per audioTrackFormat; alternativeValueSet ids distinct; no two "
        "common definitions with the same id (AssertionError in the code). Excluded points recorded from the real "
        "code: the same id in two classes is NOT rejected (lookup answers the first in class order: theorem "
        "duplicate_across_classes_not_rejected); a reference to an element of another class resolves silently; a "
        "non-common element overrides a common definition with the same id (warning); ids with non-ASCII cased "
        "characters are outside the generators (str.upper is modelled on ASCII)",
    )
    rule = (
        "float leaf: structured doubles (random bit patterns of ADM size and of any exponent, values within a few ulps "
        "of k*1e-5 and of the ties (k+1/2)*1e-5, exact ties (odd multiples of 1/64), +-0.0, tiny negatives, subnormals, "
        "neighbours of 2^33..2^37 / 2^44 / 2^53, short decimals, inf, nan) through the real xml.FloatType.dumps and "
        "'{:07.5f}'.format vs Earverif.FloatText.fmt5 / fmt07_5 (exact text); numerals (printer output, repr and "
        "exponent forms, exact decimal expansions of doubles and of midpoints between adjacent doubles, underscores, "
        "blanks, inf / nan spellings, overflow / underflow / subnormal thresholds, mutated near-misses) through the real "
        "xml.FloatType.loads vs parseFloat (64-bit pattern or rejection); Fractions through xml.SecondsType.dumps vs "
        "secondsDumps and strings through xml.SecondsType.loads vs parseFraction; direct predicates on the real "
        "converters only: the printed text is the five-decimal numeral nearest to the exact binary value (ties to even, "
        "checked with Fraction), reading it back is within 0.5e-5 (1 + 1e-4) for |x| < 2^20 and 1e-5 always, printing "
        "again gives the same text, a further parse gives the same bits, grid values k*1e-5 print as that decimal and "
        "come back bit-identical, SecondsType likewise on non-negative Fractions; "
        "leaf correspondence: generated time strings (valid shapes + near-misses), times (decimal/fractional/"
        "non-terminating/over-precision/negative), element-count vectors around every hex-width boundary, CHNA rows "
        "(well-formed, wrong lengths, raw bytes), values and synthetic trees for every hand-written handler pair, and "
        "class level: every element of generated documents and randomly edited copies of its tree through the real "
        "parse + constructor + to_xml of its class vs the model's concrete parser — real code vs Lean driver, exact "
        "comparison (dB gains up to rounding); round 5: real ADM objects as xml.py leaves them (IDRef pending, subset of "
        "private copies of the common definitions) with injected id-level faults (duplicate id same class / across "
        "classes / shadowing or repeating a common definition, dangling, wrong-class, None, case-changed references, "
        "alternativeValueSet faults, link conflicts, decode / encode pack references, already resolved documents) "
        "through the real lazy_lookup_references / lookup_element vs Earverif.AdmRefs (resolved oid graphs or error "
        "kind); real populate_chna_chunk / load_chna_chunk / validate_trackIndex / guess_track_indices / "
        "ChnaChunk.asByteArray / _read_chna_chunk on generated documents (v1 AT_ and v2 AC_ references, CHNA-only, "
        "stripped / preset track information, edited rows) vs Earverif.ChnaTransfer; search: seeded random "
        "documents over all element classes for BS.2076-1 and -2, one case = one document through the real "
        "write/read pipeline; plus the direct predicates CHNA transfer round trip (populate -> fresh parsed copy, "
        "references kept or stripped -> load restores index and references; CHNA-only), a main element repeated in "
        "the AXML is always rejected with AdmIDError by parse_string, a reference to an unknown id is always rejected "
        "with KeyError; distinct by (kind, doc seed, version, size)"
    )

    def extract(self, ctx):
        src, nparsers, nrows = extract_tables()
        write_if_changed(os.path.join(GEN, "C08_Handlers.lean"), src)
        ctx.count("extract:element-parsers", nparsers)
        ctx.count("extract:handler-property-rows", nrows)

    def _hit_capped(self, ctx, what, inp, detail, tags, cap=3):
        """report at most `cap` failing inputs per tag from the handler / element streams (the rest is counted), so
        that the failing documents of the search are part of the replay file as well"""
        seen = self.__dict__.setdefault("_hits_by_tag", {})
        seen[tags[0]] = seen.get(tags[0], 0) + 1
        if seen[tags[0]] <= cap:
            ctx.hit(what, inp, detail, tags)
        else:
            ctx.count("further-failing-inputs:" + tags[0])

    def _raises(self, ctx, stage, inp, e, extra=None):
        """an exception escaping from the real code on a generated input: a concrete failing input, not an
        infrastructure problem"""
        det = {"stage": stage, "exc": "%s: %s" % (type(e).__name__, str(e)[:400])}
        det.update(extra or {})
        self._hit_capped(ctx, "real code raises on a generated document (%s)" % stage, inp, det,
                         ["c08-raises-" + stage.split(":")[0]], cap=4)

    def _guarded_doc(self, ctx, seed, version, size, need_axml=True):
        """make_doc + adm_to_xml + a plain parse of what was written, each guarded: (adm, axml) or None after the
        concrete document has been reported"""
        inp = {"generator": "harness.c08_docs.make_doc", "doc_seed": seed, "version": version, "size": size}
        try:
            adm, _ = docs.make_doc(seed, version, size)
        except Exception as e:
            self._raises(ctx, "make_doc/generate_ids", inp, e)
            return None
        if not need_axml:
            return adm, None
        try:
            axml = refs.axml_of(adm)
        except Exception as e:
            self._raises(ctx, "adm_to_xml", inp, e)
            return None
        try:
            from ear.fileio.adm.adm import ADM
            from ear.fileio.adm.xml import load_axml_string
            load_axml_string(ADM(), axml, lookup_references=False)
        except Exception as e:
            self._raises(ctx, "load_axml_string", inp, e, {"axml_written": axml.decode()[:3000]})
            return None
        return adm, axml

    # ---- leaf correspondence ------------------------------------------------------------------
    def correspond(self, ctx):
        self._hits_by_tag = {}
        drv = Driver("c08driver", "Earverif.Driver.C08")
        rng = ctx.rng
        q = ctx.quick
        import time
        t0 = time.time()
        self._corr_floats(ctx, drv, rng, 1500 if q else 40000)
        ctx.notes.append("correspondence seconds: float leaf %.1f" % (time.time() - t0))
        t0 = time.time()
        self._corr_times(ctx, drv, rng, 1500 if q else 20000)
        t1 = time.time()
        self._corr_ids(ctx, drv, rng, 40 if q else 300)
        t2 = time.time()
        self._corr_chna(ctx, drv, rng, 800 if q else 10000)
        t3 = time.time()
        self._corr_codec(ctx, drv, rng, 40 if q else 600, 12 if q else 150)
        self._corr_handlers(ctx, drv, rng, 300 if q else 6000)
        self._corr_handlers2(ctx, drv, rng, 150 if q else 3000)
        t4 = time.time()
        self._corr_handlers4(ctx, drv, rng, 40 if q else 1500)
        self._corr_classes(ctx, drv, rng, 8 if q else 150, 2 if q else 4)
        ctx.notes.append("correspondence seconds: round-4 handlers + class level %.1f" % (time.time() - t4))
        t4 = time.time()
        self._corr_float_doc(ctx, drv, rng, 10 if q else 120)
        ctx.notes.append("correspondence seconds: float texts of adm_to_xml(document) %.1f" % (time.time() - t4))
        t5 = time.time()
        self._corr_refs(ctx, drv, rng, 45 if q else 1200)
        self._corr_transfer(ctx, drv, rng, 45 if q else 1200)
        self._corr_chunk(ctx, drv, rng, 120 if q else 3000)
        ctx.notes.append("correspondence seconds: round-5 id map / reference resolution / CHNA transfer %.1f" % (time.time() - t5))
        ctx.notes.append("correspondence seconds: times %.1f, ids %.1f, chna %.1f, combinators %.1f (started %.1f s "
                         "after check start)" % (t1 - t0, t2 - t1, t3 - t2, time.time() - t3, t0 - ctx.t0))

    # ---- float leaf: FloatType / SecondsType ---------------------------------------------------
    def _float_predicates(self, ctx, ft, st, doubles, grid, fractions):
        """the property on the real converters only (no Lean): see harness/c08_float.py"""
        for kind, x in doubles:
            if x != x or x in (float("inf"), float("-inf")):
                continue
            try:
                r = flt.float_predicate(ft, x)
            except Exception as e:
                r = ("float-converter-raises", {"exc": "%s: %s" % (type(e).__name__, e)})
            ctx.count("predicate:float-leaf:" + kind)
            if r is not None:
                self._hit_capped(ctx, "float leaf: " + r[0], {"double": repr(x), "bits": flt.bits(x), "kind": kind},
                                 r[1], ["c08-" + r[0]])
        for k in grid:
            try:
                r = flt.grid_predicate(ft, k)
            except Exception as e:
                r = ("float-converter-raises", {"exc": "%s: %s" % (type(e).__name__, e)})
            ctx.count("predicate:float-grid")
            if r is not None:
                self._hit_capped(ctx, "float leaf on the printable grid: " + r[0], {"k": k, "double": repr(k / 100000.0)},
                                 r[1], ["c08-" + r[0]])
        for kind, t in fractions:
            if t < 0:
                continue
            try:
                float(t)
            except OverflowError:
                continue
            try:
                r = flt.seconds_predicate(st, t)
            except Exception as e:
                r = ("seconds-converter-raises", {"exc": "%s: %s" % (type(e).__name__, e)})
            ctx.count("predicate:seconds-leaf:" + kind)
            if r is not None:
                self._hit_capped(ctx, "SecondsType: " + r[0], {"fraction": "%d/%d" % (t.numerator, t.denominator)},
                                 r[1], ["c08-" + r[0]])

    def _grid_ints(self, rng, n):
        out = [0, 1, -1, 5, 99999, 100000, 100001, -18000000, 18000000, 2 ** 36 * 10 ** 5 - 1, -(2 ** 36 * 10 ** 5 - 1)]
        for _ in range(n):
            k = rng.choice([rng.randint(-100, 100), rng.randint(-36000000, 36000000), rng.randint(-10 ** 10, 10 ** 10),
                            rng.randint(-(2 ** 36 * 10 ** 5 - 1), 2 ** 36 * 10 ** 5 - 1)])
            out.append(k)
        return out

    def _corr_floats(self, ctx, drv, rng, n):
        """real xml.FloatType / xml.SecondsType (and the format strings they are built from) vs Earverif.FloatText"""
        ft, st = flt.real_converters()
        doubles = flt.gen_doubles(rng, n)
        outs = drv.run(["ff " + flt.bits(x) for _, x in doubles] + ["f7 " + flt.bits(x) for _, x in doubles])
        printed = []
        for i, (kind, x) in enumerate(doubles):
            p = flt.real_dumps(ft, x)
            p7 = "{:07.5f}".format(x)
            if not p.startswith("E:"):
                printed.append(p)
            ctx.count("corr:float-print:" + kind)
            ctx.case(("ff", flt.bits(x)), x == x, sample={"FloatType.dumps": repr(x), "bits": flt.bits(x), "text": p})
            if outs[i] != p:
                ctx.disagree("xml.FloatType.dumps vs Earverif.FloatText.fmt5", {"double": repr(x), "bits": flt.bits(x)}, outs[i], p)
            else:
                ctx.validated()
            if outs[i + len(doubles)] != p7:
                ctx.disagree("'{:07.5f}'.format vs Earverif.FloatText.fmt07_5", {"double": repr(x), "bits": flt.bits(x)},
                             outs[i + len(doubles)], p7)
            else:
                ctx.validated()
        numerals = [(k, s) for k, s in flt.gen_numerals(rng, n, printed) if all(ord(c) < 128 for c in s)]
        outs = drv.run(["fp " + flt.cps(s) for _, s in numerals])
        for (kind, s), m in zip(numerals, outs):
            p = flt.real_float_loads(ft, s)
            ctx.count("corr:float-parse:%s:%s" % (kind, "rejected" if p == "E" else
                                                   ("nan" if p == flt.NAN_BITS else "inf" if p[1:] == "ff0000000000000" else "finite")))
            ctx.case(("fp", s), p != "E", sample={"FloatType.loads": s[:60], "bits": p} if p != "E" and len(s) < 60 else None)
            if m != p:
                ctx.disagree("xml.FloatType.loads vs Earverif.FloatText.parseFloat", {"string": s}, m, p)
            else:
                ctx.validated()
        fracs = flt.gen_fractions(rng, n // 2)
        outs = drv.run(["sd %d %d" % (t.numerator, t.denominator) for _, t in fracs])
        sprinted = []
        for (kind, t), m in zip(fracs, outs):
            p = flt.real_dumps(st, t)
            if p == "E:OverflowError":
                p = "E"
            elif not p.startswith("E:"):
                sprinted.append(p)
            ctx.count("corr:seconds-print:%s:%s" % (kind, "overflow" if p == "E" else "text"))
            ctx.case(("sd", t.numerator, t.denominator), p != "E",
                     sample={"SecondsType.dumps": "%d/%d" % (t.numerator, t.denominator) if t.denominator < 10 ** 20 else "...", "text": p})
            if m != p:
                ctx.disagree("xml.SecondsType.dumps vs Earverif.FloatText.secondsDumps",
                             {"fraction": "%d/%d" % (t.numerator, t.denominator)}, m, p)
            else:
                ctx.validated()
        fstrs = [(k, s) for k, s in flt.gen_fraction_strings(rng, n // 2, sprinted) if all(ord(c) < 128 for c in s)]
        outs = drv.run(["sl " + flt.cps(s) for _, s in fstrs])
        for (kind, s), m in zip(fstrs, outs):
            p = flt.real_seconds_loads(st, s)
            ctx.count("corr:seconds-parse:%s:%s" % (kind, "rejected" if p == "E" else "fraction"))
            ctx.case(("sl", s), p != "E", sample={"SecondsType.loads": s[:60], "fraction": p} if p != "E" and len(s) < 60 else None)
            if m != p:
                ctx.disagree("xml.SecondsType.loads vs Earverif.FloatText.parseFraction", {"string": s}, m, p)
            else:
                ctx.validated()
        # a small budget of the direct predicates on the same inputs
        self._float_predicates(ctx, ft, st, doubles, self._grid_ints(rng, n // 3), fracs)

    def _search_floats(self, ctx, n):
        ft, st = flt.real_converters()
        rng = ctx.rng
        self._float_predicates(ctx, ft, st, flt.gen_doubles(rng, n), self._grid_ints(rng, n // 2), flt.gen_fractions(rng, n // 3))
        # excluded point of seconds_roundtrip (theorem float_leaf_excluded_points), recorded from the real code
        try:
            s1 = st.dumps_func(Fraction(-1, 10 ** 9))
            s2 = st.dumps_func(st.loads_func(s1))
            ctx.count("excluded-point:SecondsType-negative-rounding-to-zero=%s->%s" % (s1, s2))
        except Exception as e:
            ctx.count("excluded-point:SecondsType-negative-rounding-to-zero=raises-" + type(e).__name__)
        # excluded points of the printable-grid model (theorem grid_model_excluded_points): -0.0 and -1e-7 are
        # written -0.00000 and read back as -0.0 by the real FloatType (the model reads the integer 0)
        for name, x in (("negative-zero", -0.0), ("minus-1e-7", -1e-7)):
            try:
                s1 = ft.dumps_func(x)
                y = ft.loads_func(s1)
                ctx.count("excluded-point:FloatType-%s=%s->%r->%s" % (name, s1, y, ft.dumps_func(y)))
            except Exception as e:
                ctx.count("excluded-point:FloatType-%s=raises-%s" % (name, type(e).__name__))

    # ---- leaf correspondence: times ------------------------------------------------------------
    def _corr_times(self, ctx, drv, rng, n):
        from ear.fileio.adm.time_format import FractionalTime, parse_time, unparse_time

        strs = gen_time_strings(rng, n)
        strs = [s for s in strs if all(ord(c) < 128 for c in s)]
        lines = ["tp " + cps(s) for s in strs] + ["tp1 " + cps(s) for s in strs]
        outs = drv.run(lines)
        for i, s in enumerate(strs):
            for v1 in (False, True):
                m = outs[i + (len(strs) if v1 else 0)]
                p = py_parse(s, v1)
                shape = "E" if p == "E" else p[0]
                ctx.count("corr:parse_time%s:%s" % ("_v1" if v1 else "", {"E": "rejected", "D": "decimal", "F": "fractional"}.get(shape, shape)))
                ctx.case(("tp", v1, s), p != "E", sample={"parse_time_v1" if v1 else "parse_time": s, "result": p} if p != "E" else None)
                if m != p:
                    ctx.disagree("parse_time vs Earverif.TimeFormat.parseTime", {"string": s, "v1": v1}, m, p)
                else:
                    ctx.validated()
        times = gen_times(rng, n)
        outs = drv.run([time_line(t, af) for t, af in times])
        for (t, af), m in zip(times, outs):
            p = py_unparse(t, bool(af))
            kind = ("FractionalTime" if isinstance(t, FractionalTime) else "Fraction") + "/af=%d" % af
            ctx.count("corr:unparse_time:%s:%s" % (kind, p.split()[0]))
            ctx.case(("tu", af, repr(t)), p.startswith("ok"), sample={"unparse_time": repr(t), "allow_fractional": af, "result": p})
            if m != p:
                ctx.disagree("unparse_time vs Earverif.TimeFormat.unparseTime", {"time": repr(t), "allow_fractional": af}, m, p)
            else:
                ctx.validated()
            # direct predicate on the real code (property text: times exactly, both notations)
            if p.startswith("ok ") and 0 <= t < 360000:
                s = p[3:]
                try:
                    back = parse_time(s)
                    ok = back == t
                    if isinstance(t, FractionalTime) and af:
                        ok = ok and isinstance(back, FractionalTime) and \
                            (back.format_numerator, back.format_denominator) == (t.format_numerator, t.format_denominator)
                    again = unparse_time(back, allow_fractional=bool(af))
                except Exception as e:
                    ok, again, back = False, None, "raises %s: %s" % (type(e).__name__, e)
                if not ok:
                    self._hit_capped(ctx, "time does not round-trip", {"time": repr(t), "allow_fractional": af},
                            {"printed": s, "parsed": repr(back)}, ["c08-time-roundtrip"])
                elif again != s:
                    self._hit_capped(ctx, "time string is not a fixed point", {"time": repr(t), "allow_fractional": af},
                            {"printed": s, "printed_again": again}, ["c08-time-fixed-point"])

    def _ids_inputs(self, ctx, rng, n):
        T = lambda: rng.randint(1, 5)
        ins = [
            (0, 0, 0, 0, [], [], [], []),
            (2, 1, 3, 0, [0, 2], [3, 1], [(3, 2), (1, 1)], [(3, 1), (1, 2)]),
            (1, 1, 1, 1, [0], [1], [(1, 1)], [(1, 1)]),  # unlinked track format -> AssertionError
            (0, 0, 0xFFF + 2, 0, [], [], [], [(2, 0xFF), (4, 0x100), (5, 0x101)]),  # track-format width boundary
            (0, 0, 0x10001, 0, [0xFFF, 0x1000], [], [(3, 0xFFFF), (1, 0x10001)], []),
        ]
        if not ctx.quick:
            # (generate_ids scans all track formats once per stream: keep the many-streams case free of tracks)
            ins.append((0xEFFF, 0xF000, 0, 0, [0] * 0xF001, [T() for _ in range(0xF000)], [(T(), 1)] * 0xF000,
                        [(T(), 0)] * 0xF001))
            ins.append((0, 0, 0, 0, [0xFFFF, 0x10000], [], [], []))
        else:
            # width boundary of the 4-digit counters: 0xEFFF elements fit, the 0xF000th gets five digits
            which = rng.randrange(4)
            big = [0xEFFF + rng.randint(0, 2) if i == which else rng.randint(0, 3) for i in range(4)]
            ins.append((big[0], big[1], 0, 0, [0] * big[2], [T() for _ in range(big[3])], [], []))
        for _ in range(n):
            ins.append((rng.randint(0, 20), rng.randint(0, 20), rng.choice([0, 1, 15, 16, 17, 255, 256, 257, 4095, 4096]),
                        0 if rng.random() < 0.9 else rng.randint(1, 2),
                        [rng.choice([0, 0, 1, 15, 16, 17, 255, 256]) for _ in range(rng.randint(0, 20))],
                        [T() for _ in range(rng.randint(0, 20))],
                        [(T(), rng.choice([0, 1, 2, 15, 16, 17, 255, 256, 257])) for _ in range(rng.randint(0, 20))],
                        [(T(), rng.choice([0, 1, 2, 15, 16, 17, 254, 255, 256])) for _ in range(rng.randint(0, 20))]))
        return ins

    def _corr_ids(self, ctx, drv, rng, n):
        ins = self._ids_inputs(ctx, rng, n)
        outs = drv.run([ids_line(i) for i in ins])
        for inp, m in zip(ins, outs):
            p, adm = real_ids(inp)
            total = inp[0] + inp[1] + inp[2] + len(inp[4]) + sum(inp[4]) + len(inp[5]) + len(inp[6]) + \
                sum(b for _, b in inp[6]) + len(inp[7]) + sum(t for _, t in inp[7])
            ctx.count("corr:generate_ids:documents")
            ctx.count("corr:generate_ids:ids", total)
            ctx.case(("gi", ids_line(inp)[:200], total), total > 0,
                     sample={"generate_ids": ids_line(inp)[:200], "first_ids": p[:120]} if total < 60 else None)
            if norm_groups(m) != norm_groups(p):
                ctx.disagree("generate_ids vs Earverif.GenIds.generateIds", ids_line(inp)[:300], m[:300], p[:300])
            else:
                ctx.validated()
            if p != "E":
                self._ids_predicate(ctx, inp, adm)

    def _ids_predicate(self, ctx, inp, adm):
        """(d) on the real ids, for any counts: unique / never reserved always; well-formed inside the bounds;
        outside the bounds the malformed ids are the recorded excluded points"""
        np_, nc, nu, unl, avs, packs, chans, streams = inp
        inside = (np_ <= 0xEFFF and nc <= 0xEFFF and len(avs) <= 0xEFFF and all(a <= 0xFFFF for a in avs)
                  and len(packs) <= 0xEFFF and len(chans) <= 0xEFFF and len(streams) <= 0xEFFF
                  and all(t <= 0xFF for _, t in streams))
        bad = docs.check_ids(adm)
        for what, det in bad:
            if what == "id-malformed" and not inside:
                ctx.count("excluded-point:id-wider-than-format(beyond-stated-bound)")
                continue
            if what == "id-parent-field" and not inside:
                continue
            ctx.hit("generated ids: " + what, {"generate_ids_counts": ids_line(inp)[:300]}, det, ["c08-" + what])
        if not inside:
            ctx.count("excluded-point:documents-beyond-id-bounds")
            if not any(w == "id-malformed" for w, _ in bad):
                ctx.hit("ids beyond the stated bound are well-formed after all (bound in the theorem is not sharp)",
                        {"generate_ids_counts": ids_line(inp)[:300]}, {}, ["c08-id-bound-not-sharp"])

    def _corr_chna(self, ctx, drv, rng, n):
        ents = gen_chna_entries(rng, n)
        ok_ascii = lambda s: s is None or all(ord(c) < 128 for c in s)
        lines = []
        for idx, uid, ref, pack in ents:
            lines.append("ce %d %s %s %s" % (idx, hexs(uid.encode()), hexs(ref.encode()),
                                             "-" if pack is None else ("+" if pack == "" else hexs(pack.encode()))))
        outs = drv.run(lines)
        dec_in = []
        for e, m in zip(ents, outs):
            p = py_chna_encode(*e)
            wf = (0 <= e[0] < 65536 and len(e[1]) == 12 and len(e[2]) == (11 if e[2].startswith("AC_") else 14)
                  and (e[3] is None or (len(e[3]) == 11 and e[3] != "\0" * 11)))
            ctx.count("corr:chna-encode:%s:%s" % ("well-formed" if wf else "ill-formed", "E" if p == "E" else "bytes"))
            if wf:
                ctx.count("corr:chna-encode:ref-style:" + ("AC(v2)" if e[2].startswith("AC_") else "AT(v1)"))
                ctx.count("corr:chna-encode:pack:" + ("absent" if e[3] is None else "present"))
            ctx.case(("ce", e), wf, sample={"AudioID": e, "bytes": p} if wf else None)
            if m != p:
                ctx.disagree("AudioID.asByteArray vs Earverif.Chna.encode", e, m, p)
            else:
                ctx.validated()
            if p not in ("E",) and not p.startswith("X"):
                dec_in.append((bytes.fromhex(p), e, wf))
        raws = [(r, None, False) for r in gen_chna_raw(rng, n // 2)]
        outs = drv.run(["cd " + r.hex() for r, _, _ in dec_in + raws])
        for (raw, e, wf), m in zip(dec_in + raws, outs):
            p = py_chna_decode(raw)
            ctx.count("corr:chna-decode:" + ("from-encoder" if e is not None else "raw-bytes"))
            ctx.case(("cd", raw), True)
            if m != p:
                ctx.disagree("_read_chna_chunk row vs Earverif.Chna.decode", raw.hex(), m, p)
            else:
                ctx.validated()
            # direct predicate: well-formed rows survive write + read
            if wf:
                want = "%d %s %s %s" % (e[0], hexs(e[1].encode()), hexs(e[2].encode()),
                                        "-" if e[3] is None else hexs(e[3].encode()))
                if p != want:
                    ctx.hit("CHNA row does not round-trip", {"AudioID": e}, {"read_back": p, "expected": want},
                            ["c08-chna-row-roundtrip"])

    def _corr_codec(self, ctx, drv, rng, n_synth, n_docs):
        """combinator layer: real ElementParser.parse / to_xml vs Earverif.XmlCodec on the same abstract trees"""
        import lxml.etree as ET
        from ear.fileio.adm import xml as X
        from ear.fileio.adm.elements.version import BS2076Version

        parsers = real_parsers()
        table = {nm: (p, parser_rows(p)) for nm, p in parsers}
        customs = sorted({r[11] for _, (p, rows) in table.items() for r in rows if r[0] in ("CustomElement", "GenericElement")})
        ctx.notes.append("hand-written handlers kept as parameters of handlers_codec_roundtrip (%d): %s"
                         % (len(customs), "; ".join(customs)))
        ctx.count("corr:combinators:hand-written-handlers(parameters)", len(customs))
        tstrs = [t for t in gen_time_strings(rng, 25) if all(ord(c) < 128 for c in t) and "\n" not in t]
        tstrs += [u[3:] for u in (py_unparse(t, bool(af)) for t, af in gen_times(rng, 120)) if u.startswith("ok ")]

        def head(rows):
            return " ; ".join(codec.row_line(r) for r in rows)

        cases = []  # (mode, parser name, payload, tree or object values)
        # (1) synthetic trees
        usable = [nm for nm, (p, rows) in table.items() if codec.usable_for_synthetic(rows)]
        for nm in usable:
            p, rows = table[nm]
            for _ in range(n_synth):
                cases.append(("xp-synthetic", nm, codec.synthetic_tree(rng, p.adm_name, rows, tstrs)))
        # (2) real objects from generated documents: to_xml, then parse of what the real to_xml wrote
        for i in range(n_docs):
            version = 1 + (i % 2)
            adm, _ = docs.make_doc(rng.randrange(10 ** 9), version, rng.choice([1, 2, 3]))
            h = X.MainElementHandler(BS2076Version(version))
            objs = []
            for me in h.main_elements:
                for el in me.get_func(adm):
                    if not el.is_common_definition:
                        objs.append(("v%d/%s" % (version, me.name), el))
            for cf in adm.audioChannelFormats:
                if not cf.is_common_definition:
                    for bf in cf.audioBlockFormats:
                        objs.append(("v%d/audioBlockFormat:%s" % (version, cf.type.name), bf))
                        for co in getattr(bf, "matrix", []):
                            objs.append(("v%d/coefficient" % version, co))
            for el in list(adm.audioProgrammes) + list(adm.audioContents):
                for lm in el.loudnessMetadata:
                    objs.append(("v%d/loudnessMetadata" % version, lm))
            for pr in adm.audioProgrammes:
                if pr.referenceScreen is not X.default_screen and pr.referenceScreen is not None:
                    objs.append(("audioProgrammeReferenceScreen", pr.referenceScreen))
            for ob in adm.audioObjects:
                its = [ob.audioObjectInteraction]
                for avs in ob.alternativeValueSets:
                    objs.append(("v%d/alternativeValueSet" % version, avs))
                    its.append(avs.audioObjectInteraction)
                for it in its:
                    if it is not None:
                        objs.append(("v%d/audioObjectInteraction" % version, it))
            for nm, ob in objs:
                cases.append(("xt-real", nm, ob))
        lines, meta = [], []
        for mode, nm, payload in cases:
            p, rows = table[nm]
            if mode == "xp-synthetic":
                lines.append("xp ; %s ; %s" % (head(rows), " ".join(codec.tree_tokens(payload))))
                meta.append((mode, nm, payload, None))
            else:
                parent = ET.Element("parent")
                with warnings.catch_warnings():
                    warnings.simplefilter("ignore")
                    el = p.to_xml(parent, payload)
                real_tree = codec.from_lxml(el)
                vals = codec.obj_values(rows, payload)
                lines.append("xt ; %s ; %s %d %s" % (head(rows), codec.enc(p.adm_name), len(vals),
                                                     " ".join("%s %s" % (codec.enc(a), codec.val_tokens(v)) for a, v in vals)))
                meta.append(("xt-real", nm, payload, real_tree))
                lines.append("xp ; %s ; %s" % (head(rows), " ".join(codec.tree_tokens(real_tree))))
                meta.append(("xp-real", nm, real_tree, None))
        outs = drv.run(lines)
        caps = {}
        for (mode, nm, payload, real_tree), m in zip(meta, outs):
            p, rows = table[nm]
            ctx.count("corr:combinators:%s:%s" % (mode, nm.split("/")[-1]))
            if mode == "xt-real":
                want = codec.filter_declarative(real_tree, rows)
                try:
                    got, _ = codec.parse_tree_tokens(m.split())
                except Exception:
                    got = m
                ctx.case(("xt", nm, repr(want)), True,
                         sample={"to_xml": nm, "declarative_part": repr(want)[:300]} if len(want[2]) > 2 else None)
                if got != want:
                    ctx.disagree("ElementParser.to_xml (declarative part) vs Earverif.XmlCodec.toXml",
                                 {"parser": nm, "object": repr(payload)[:400]}, repr(got)[:600], repr(want)[:600])
                else:
                    ctx.validated()
            else:
                cap = caps.get(nm) or caps.setdefault(nm, codec.capture_parser(p))
                want = codec.py_parse_kwargs(cap, rows, payload)
                got = codec.model_kwargs(m, rows)
                ctx.count("corr:combinators:%s-result:%s" % (mode, "rejected" if want == "E" else "kwargs"))
                ctx.case(("xp", nm, repr(payload)), want != "E")
                if got != want:
                    ctx.disagree("ElementParser.parse (declarative kwargs) vs Earverif.XmlCodec.parseKw",
                                 {"parser": nm, "tree": repr(payload)[:600]}, repr(got)[:600], repr(want)[:600])
                else:
                    ctx.validated()

    def _corr_handlers(self, ctx, drv, rng, n):
        """the three exactly modelled hand-written handler pairs: real functions vs Earverif.XmlCustom"""
        dvals = directed.values1()  # directed family first: defaults / one step off x every auxiliary attribute
        ctx.count("corr:handler:directed-values(round 1-2)", len(dvals))
        vals = dvals + codec.gen_handler_values(rng, n)
        outs = drv.run([codec.handler_value_line(w, v) for w, v in vals])
        written = []
        for (which, value), m in zip(vals, outs):
            want = codec.py_handler_to_xml(which, value)
            written.append((which, want))
            try:
                got, _ = codec.parse_tree_tokens(m.split())
            except Exception:
                got = m
            ctx.count("corr:handler:%s:to_xml" % which)
            ctx.case(("hx", which, repr(value)), True, sample={"handler": which, "value": repr(value), "xml": repr(want)[:300]})
            if got != want:
                ctx.disagree("%s to_xml vs Earverif.XmlCustom" % which, repr(value), repr(got)[:500], repr(want)[:500])
            else:
                ctx.validated()
            # direct predicate on the real code: the value comes back from what was written (inside the stated
            # domain: valid locks; jumpPosition flag set or no interpolationLength)
            back = codec.py_handler_parse(which, want)
            if which == "freq":
                expect = "%s %s" % (codec.opt(value[0]), codec.opt(value[1]))
                inside = True
            elif which == "jump":
                expect = "%d %s" % (1 if value[0] else 0, codec.opt(value[1]))
                inside = value[0] or value[1] is None
                if not inside:
                    ctx.count("excluded-point:handler:jumpPosition-flag-false-with-interpolationLength="
                              + ("lost" if back == "0 ~" else back))
            else:
                kind, bs, h, v = value
                expect = "%s %s %s %s" % (kind, " ".join("%d %s %s" % (a, codec.opt(mn), codec.opt(mx)) for a, mn, mx in bs),
                                          "~" if h is None else codec.enc(h), "~" if v is None else codec.enc(v))
                inside = h in (None, "left", "right") and v in (None, "top", "bottom")
                if not inside:
                    ctx.count("excluded-point:handler:invalid-screenEdgeLock=" + ("refused" if back == "E" else "accepted"))
            if inside and back != expect:
                self._hit_capped(ctx, "hand-written handler does not round-trip", {"handler": which, "value": repr(value)},
                        {"written": repr(want)[:600], "read_back": back, "expected": expect}, ["c08-handler-roundtrip-" + which])
        # the trees the real writer produced (directed values first), then synthetic ones: real parse vs model parse
        trees = written[:len(dvals) + n // 3] + codec.gen_handler_trees(rng, n)
        lines = []
        for which, t in trees:
            ns, name, attrs, text, kids = t
            t2 = (None, name, attrs, text, codec.visiting_order(kids) if which == "ds" else kids)
            lines.append("hp %s %s" % (which, " ".join(codec.tree_tokens(t2))))
        outs = drv.run(lines)
        for (which, t), m in zip(trees, outs):
            ns, name, attrs, text, kids = t
            want = codec.py_handler_parse(which, (None, name, attrs, text, kids))
            ctx.count("corr:handler:%s:parse:%s" % (which, "rejected" if want == "E" else "value"))
            ctx.case(("hp", which, repr(kids)), want != "E")
            if m != want:
                ctx.disagree("%s parse vs Earverif.XmlCustom" % which, repr(kids)[:600], m, want)
            else:
                ctx.validated()

    def _corr_handlers2(self, ctx, drv, rng, n):
        """round 3: Objects position, gain element / attribute, channelLock, objectDivergence, zoneExclusion"""
        dvals = directed.values2()
        ctx.count("corr:handler:directed-values(round 3)", len(dvals))
        vals = dvals + codec.gen_values2(rng, n)
        outs = drv.run([codec.value2_line(w, v) for w, v in vals])
        written = []
        pmode = {"opos": "opos", "gain": "gain2", "ogain": "gain2", "gattr": "gattr2", "clock": "clock", "div": "div",
                 "zones": "zones"}
        for (which, value), m in zip(vals, outs):
            try:
                want = codec.py2_to_xml(which, value)
                written.append((pmode[which], want))
                if which in ("gain", "gattr"):
                    written.append((pmode[which][:-1] + "1", want))
            except Exception as e:
                want = "raises %s" % type(e).__name__
            try:
                got, _ = codec.parse_tree_tokens(m.split())
            except Exception:
                got = m
            ctx.count("corr:handler:%s:to_xml" % which)
            ctx.case(("hx", which, repr(value)), True, sample={"handler": which, "value": repr(value), "xml": repr(want)[:300]})
            if got != want:
                ctx.disagree("%s to_xml vs Earverif.XmlCustom" % which, repr(value), repr(got)[:500], repr(want)[:500])
                continue
            ctx.validated()
            exp = codec.expected2(which, value)
            if exp is None:
                back = codec.py2_parse("opos", want)
                ctx.count("excluded-point:handler:objects-invalid-screenEdgeLock=" + ("refused" if back == "E" else "accepted"))
                continue
            back = codec.py2_parse(exp[0], want)
            if back != exp[1]:
                self._hit_capped(ctx, "hand-written handler does not round-trip", {"handler": which, "value": repr(value)},
                        {"written": repr(want)[:600], "read_back": repr(back), "expected": repr(exp[1])},
                        ["c08-handler-roundtrip-" + which])
        trees = written[:2 * len(dvals) + n // 3] + codec.gen_trees2(rng, n)
        lines = []
        for which, t in trees:
            ns, name, attrs, text, kids = t
            t2 = (None, name, attrs, text, codec.visiting_order(kids) if which == "opos" else kids)
            lines.append("hp %s %s" % (which, " ".join(codec.tree_tokens(t2))))
        outs = drv.run(lines)
        for (which, t), m in zip(trees, outs):
            want = codec.py2_parse(which, t)
            ok = codec.gain_matches(m, want) if which.startswith("g") else (m == want)
            ctx.count("corr:handler:%s:parse:%s" % (which, "rejected" if want == "E" else "value"))
            if which.startswith("gain") and m.startswith("D "):
                ctx.count("corr:handler:gain:dB-unit")
            ctx.case(("hp", which, repr(t[4]) + repr(t[2])), want != "E")
            if not ok:
                ctx.disagree("%s parse vs Earverif.XmlCustom" % which, repr(t)[:600], m, repr(want))
            else:
                ctx.validated()

    def _corr_handlers4(self, ctx, drv, rng, n):
        """round 4: positionOffset, reference screen, gain / position interaction ranges, Matrix coefficient and the
        matrix element — real functions vs Earverif.XmlCustom / XmlBlocks, both directions, plus the direct predicate
        (the value comes back from what was written) on the real code inside the stated domain"""
        K = classes
        dvals = directed.values4()
        ctx.count("corr:handler:directed-values(round 4)", len(dvals))
        vals = dvals + K.gen_values4(rng, n)
        outs = drv.run([K.value4_line(w, v) for w, v in vals])
        written = []
        pmode = {"poff": ["poff"], "grange": ["grange1", "grange2"], "prange": ["prange"], "matrix1": ["matrix1"],
                 "matrix2": ["matrix2"]}
        for (which, value), m in zip(vals, outs):
            try:
                want = K.py4_to_xml(which, value)
                written += [(pm, want) for pm in pmode.get(which, [])]
            except Exception as e:
                want = "raises %s" % type(e).__name__
            try:
                got, _ = codec.parse_tree_tokens(m.split())
            except Exception:
                got = m
            ctx.count("corr:handler:%s:to_xml" % which)
            ctx.case(("hx", which, repr(value)), True, sample={"handler": which, "value": repr(value), "xml": repr(want)[:300]})
            if got != want:
                ctx.disagree("%s to_xml vs Earverif.XmlCustom / XmlBlocks" % which, repr(value), repr(got)[:600], repr(want)[:600])
                continue
            ctx.validated()
            exp = K.expected4(which, value)
            if exp is None:
                if which in ("poff", "grange", "prange"):
                    back = K.py4_parse({"poff": "poff", "grange": "grange2", "prange": "prange"}[which], want)
                    ctx.count("excluded-point:handler:%s-writes-nothing=%s" % (
                        {"poff": "all-zero-positionOffset", "grange": "empty-gainInteractionRange",
                         "prange": "empty-positionInteractionRange"}[which], "lost" if back == "~" else repr(back)))
                continue
            back = K.py4_parse(exp[0], want)
            if back != exp[1]:
                self._hit_capped(ctx, "hand-written handler does not round-trip", {"handler": which, "value": repr(value)},
                        {"written": repr(want)[:600], "read_back": repr(back), "expected": repr(exp[1])},
                        ["c08-handler-roundtrip-" + which])
        trees = written[:2 * len(dvals) + n // 3] + K.gen_trees4(rng, n)
        outs = drv.run(["hp %s %s" % (which, " ".join(codec.tree_tokens(t))) for which, t in trees])
        for (which, t), m in zip(trees, outs):
            want = K.py4_parse(which, t)
            ctx.count("corr:handler:%s:parse:%s" % (which, "rejected" if want == "E" else "value"))
            ctx.case(("hp", which, repr(t[4])), want != "E")
            if not K.matches4(which, m, want):
                ctx.disagree("%s parse vs Earverif.XmlCustom / XmlBlocks" % which, repr(t)[:800], m, repr(want))
            else:
                ctx.validated()

    def _corr_classes(self, ctx, drv, rng, n_docs, n_mut):
        """class level (`rt`): for every element of generated documents (main elements, and their block formats /
        loudnessMetadata / interaction / alternativeValueSet / reference screen on their own), and for randomly
        edited copies of those trees, the real `parse` + constructor + `to_xml` of the element's class vs the model's
        concrete parser with every hand-written handler concrete, on the same abstract tree.  References are
        replaced by stand-ins carrying the id (reference resolution is outside the model)."""
        import lxml.etree as ET
        from ear.fileio.adm import xml as X
        from ear.fileio.adm.elements.version import BS2076Version

        K = classes
        table = {nm: (p, parser_rows(p)) for nm, p in real_parsers()}
        cases = []
        doc_list = [("directed", k, v) for v in (1, 2) for k in range(directed.N_DOCS)]
        doc_list += [("random", rng.randrange(10 ** 9), 1 + (i % 2)) for i in range(n_docs)]
        n_directed_cases = 0
        for dkind, dseed, version in doc_list:
            dsize = 0 if dkind == "directed" else rng.choice([1, 2, 3])
            dinp = {"generator": "harness.c08_directed.make_directed_doc" if dkind == "directed" else "harness.c08_docs.make_doc",
                    "doc_seed": dseed, "version": version, "size": dsize}
            try:
                if dkind == "directed":
                    adm, _ = directed.make_directed_doc(dseed, version)
                else:
                    adm, _ = docs.make_doc(dseed, version, dsize)
            except Exception as e:
                self._raises(ctx, "make_doc/generate_ids", dinp, e)
                continue
            if dkind == "random" and n_directed_cases == 0:
                n_directed_cases = len(cases)
            h = X.MainElementHandler(BS2076Version(version))
            for me in h.main_elements:
                for el in me.get_func(adm):
                    if el.is_common_definition:
                        continue
                    nm = "v%d/%s" % (version, me.name)
                    with warnings.catch_warnings():
                        warnings.simplefilter("ignore")
                        try:
                            tree = codec.from_lxml(table[nm][0].to_xml(ET.Element("parent"), el))
                        except Exception as e:
                            self._raises(ctx, "to_xml:" + me.name, dinp, e, {"element": getattr(el, "id", None)})
                            continue
                    cases.append((nm, tree, "written"))
                    for c in tree[4]:
                        sub = {"loudnessMetadata": "v%d/loudnessMetadata" % version,
                               "audioObjectInteraction": "v%d/audioObjectInteraction" % version,
                               "alternativeValueSet": "v%d/alternativeValueSet" % version,
                               "audioProgrammeReferenceScreen": "audioProgrammeReferenceScreen"}.get(c[1])
                        if c[1] == "audioBlockFormat":
                            sub = "v%d/audioBlockFormat:%s" % (version, el.type.name)
                        if sub is not None:
                            cases.append((sub, c, "written"))
        n_directed_cases = n_directed_cases or len(cases)
        base = list(cases)
        # directed edits: every attribute / every kind of child of a directed element absent, one at a time
        # (typeDefinition without typeLabel and vice versa, a position without its coordinate, a bound without …)
        seen_shapes = set()
        for nm, tree, _ in base[:n_directed_cases]:
            for t in directed.deletions(tree):
                key = (nm, repr(t))
                if key not in seen_shapes:
                    seen_shapes.add(key)
                    cases.append((nm, t, "one-deletion"))
        ctx.count("corr:class:directed-elements", n_directed_cases)
        for nm, tree, _ in base[n_directed_cases:]:
            for _ in range(n_mut):
                t = tree
                for _ in range(rng.choice([1, 1, 2, 3])):
                    t = K.mutate(rng, t)
                cases.append((nm, t, "edited"))
        outs = drv.run([K.rt_line(nm, t) for nm, t, _ in cases])
        for (nm, t, kind), m in zip(cases, outs):
            want = K.py_rt(table, nm, t)
            try:
                got, _ = codec.parse_tree_tokens(m.split())
            except Exception:
                got = m
            cls = nm.split("/")[-1]
            ctx.count("corr:class:%s:%s:%s" % (kind, cls, "rejected" if want == "E" else
                                              ("raises" if isinstance(want, str) else "regenerated")))
            ctx.case(("rt", nm, repr(t)), not isinstance(want, str),
                     sample={"class": nm, "tree": repr(t)[:300]} if kind == "written" and len(t[4]) > 3 else None)
            if got != want:
                if K.has_db(t):
                    ctx.count("outside-model:gainUnit-dB(off-grid-gain)")
                    continue
                ctx.disagree("%s: parse + to_xml of the element vs the model's concrete parser" % nm,
                             {"class": nm, "kind": kind, "tree": repr(t)[:1500]}, repr(got)[:1500], repr(want)[:1500])
                continue
            ctx.validated()
            # direct predicate on the real code (property (b) at element level): what the element's own to_xml wrote is a
            # fixed point of parse + to_xml
            if kind == "written" and want != t:
                self._hit_capped(ctx, "element is not a fixed point of its own parser / generator", {"class": nm, "tree": repr(t)[:3000]},
                        {"regenerated": repr(want)[:3000]}, ["c08-element-fixed-point-" + cls])

    def _corr_float_doc(self, ctx, drv, rng, n_docs):
        """document level tie of C08_roundtrip_model_floats_partial: in the REAL `adm_to_xml` output of generated
        documents, every text written by a declarative FloatType row of the regenerated parser tables, by a hand-written
        gain handler or as jumpPosition/interpolationLength is (a) the text the grid model writes (`dumpsNum k`) for the
        grid value k of the real object's value, (b) `"{:.5f}".format(k / 100000.0)` (resp. `"{:07.5f}"` of the Fraction),
        and (c) what the Lean float-text model prints for that double / reads back as that double (`ff` / `fp` / `sd` /
        `sl` of the driver).  Values outside NumsBounded (off the 1e-5 grid, |k| >= 2^36*10^5, -0.0) are counted and
        skipped: the theorem says nothing about them."""
        import lxml.etree as ET
        from ear.fileio.adm import xml as X
        from ear.fileio.adm.elements.version import BS2076Version

        ft, st = flt.real_converters()
        table = {nm: (p, parser_rows(p)) for nm, p in real_parsers()}
        doc_list = [("directed", k, v) for v in (1, 2) for k in range(directed.N_DOCS)]
        doc_list += [("random", rng.randrange(10 ** 9), 1 + (i % 2)) for i in range(n_docs)]
        sites = []
        for dkind, dseed, version in doc_list:
            dsize = 0 if dkind == "directed" else rng.choice([1, 2, 3])
            dinp = {"generator": "harness.c08_directed.make_directed_doc" if dkind == "directed" else "harness.c08_docs.make_doc",
                    "doc_seed": dseed, "version": version, "size": dsize}
            try:
                if dkind == "directed":
                    adm, _ = directed.make_directed_doc(dseed, version)
                else:
                    adm, _ = docs.make_doc(dseed, version, dsize)
            except Exception as e:
                self._raises(ctx, "make_doc/generate_ids", dinp, e)
                continue
            with warnings.catch_warnings():
                warnings.simplefilter("ignore")
                try:
                    root = ET.fromstring(refs.axml_of(adm))
                except Exception as e:
                    self._raises(ctx, "adm_to_xml", dinp, e)
                    continue
            h = X.MainElementHandler(BS2076Version(version))
            for me in h.main_elements:
                nm = "v%d/%s" % (version, me.name)
                idattr = [r[1] for r in table[nm][1] if r[0] == "Attribute" and r[2] == "id"]
                if not idattr:
                    continue
                by_id = {el.id: el for el in me.get_func(adm) if not el.is_common_definition}
                for xe in root.iter():
                    if flt._local(xe) != me.name or xe.get(idattr[0]) not in by_id:
                        continue
                    out = []
                    try:
                        ok = flt.float_sites(xe, by_id[xe.get(idattr[0])], nm, table, version, out)
                    except Exception as e:
                        ok = False
                        ctx.count("corr:float-doc:walk-raises:" + type(e).__name__)
                    if not ok:
                        ctx.count("corr:float-doc:xml-and-object-do-not-line-up")
                    for path, kind, vals, texts in out:
                        sites.append((dinp, xe.get(idattr[0]), path, kind, vals, texts))
        lines, checks = [], []
        for dinp, eid, path, kind, vals, texts in sites:
            cls = path.split("/")[-1]
            if len(texts) > len(vals):
                ctx.disagree("float text in adm_to_xml output without a value in the object",
                             dict(dinp, element=eid, site=path), repr(vals), repr(texts))
                continue
            if len(texts) < len(vals):
                # elided: the handler default / gain 1.0 / no jumpPosition flag (nothing written, nothing to compare)
                ctx.count("corr:float-doc:elided:" + cls, len(vals) - len(texts))
                if texts:
                    continue
            for x, t in zip(vals, texts):
                exp = flt.site_expectation(kind, x)
                if exp is None:
                    ctx.count("corr:float-doc:outside-NumsBounded:" + cls)
                    continue
                k, model_text, fmt_text = exp
                ctx.count("corr:float-doc:%s:%s%s" % (kind, cls, ":negative" if k < 0 else ""))
                ctx.case(("fdoc", path, k), True, sample={"site": path, "value": repr(x), "k": k, "text": t})
                if not (t == model_text == fmt_text):
                    ctx.disagree("float text of adm_to_xml(document) vs dumpsNum of the grid value / the format string",
                                 dict(dinp, element=eid, site=path, value=repr(x), k=k),
                                 {"dumpsNum": model_text, "format": fmt_text}, t)
                    continue
                ctx.validated()
                if kind == "seconds":
                    lines += ["sd %d 100000" % k, "sl " + flt.cps(t)]
                    checks += [("secondsDumps", t, t), ("parseFraction", t, flt.real_seconds_loads(st, t))]
                else:
                    lines += ["ff " + flt.bits(k / 100000.0), "fp " + flt.cps(t)]
                    checks += [("fmt5", t, t), ("parseFloat", t, flt.real_float_loads(ft, t))]
        for (what, t, want), m in zip(checks, drv.run(lines) if lines else []):
            if m != want:
                ctx.disagree("Earverif.FloatText.%s on a float text of adm_to_xml(document)" % what, {"text": t}, m, want)
            else:
                ctx.validated()

    # ---- round 5: id map, reference resolution, CHNA <-> audioTrackUID transfer --------------------
    def _corr_refs(self, ctx, drv, rng, n):
        """real `ADM` (addAudio… of the elements xml.py parsed, IDRef attributes pending, a subset of private copies of
        the common definitions in front) + injected id-level faults: real `lazy_lookup_references` / `lookup_element`
        vs Earverif.AdmRefs — resolved structure as oid graphs, or the error kind"""
        R = refs
        lines, reals, meta = [], [], []
        for i in range(n):
            seed, version, size = rng.randrange(10 ** 9), 1 + (i % 2), rng.choice([1, 2, 3])
            with warnings.catch_warnings():
                warnings.simplefilter("ignore")
                g = self._guarded_doc(ctx, seed, version, size)
                if g is None:
                    continue
                adm0, axml = g
                fault = R.FAULTS[i % len(R.FAULTS)] if i < 2 * len(R.FAULTS) else rng.choice(R.FAULTS)
                adm = R.resolved_doc(rng, axml) if fault == "already-resolved" else R.unresolved_doc(rng, axml)
                applied = R.inject(rng, adm, fault)
                if rng.random() < 0.25:
                    applied += "+" + R.inject(rng, adm, rng.choice(R.FAULTS[2:-1]))
            if not R.ascii_ids(adm):
                ctx.count("corr:refs:skipped(non-ascii-id)")
                continue
            oids = R.Oids()
            # lookup_element on the document as it is (before the duplicate pass): existing, unknown and case-changed keys
            ids = [e.id for e in adm.elements if e.id is not None]
            for key in [rng.choice(ids), rng.choice(ids).lower(), "AP_0001FFFF"] if ids else []:
                lines.append(R.lookup_line(adm, key, oids))
                try:
                    reals.append(str(oids(adm.lookup_element(key))))
                except KeyError:
                    reals.append("E keyError")
                meta.append(("al", seed, version, size, applied, key))
            lines.append(R.describe(adm, oids))
            reals.append(R.real_outcome(adm, oids))
            meta.append(("ar", seed, version, size, applied, None))
        outs = drv.run(lines)
        for m, r, me in zip(outs, reals, meta):
            op, seed, version, size, applied, key = me
            inp = {"generator": "harness.c08_docs.make_doc + harness.c08_refs.unresolved_doc/inject", "doc_seed": seed,
                   "version": version, "size": size, "fault": applied}
            if op == "al":
                ctx.count("corr:lookup_element:" + ("found" if r[0] != "E" else "KeyError"))
                ctx.case(("al", seed, version, size, applied, key), True)
                if m != r:
                    ctx.disagree("ADM.lookup_element vs Earverif.AdmRefs.lookup", dict(inp, key=key), m, r)
                else:
                    ctx.validated()
                continue
            pm = R.parse_model_outcome(m)
            outcome = "resolved" if r[0] == "ok" else r[1]
            ctx.count("corr:refs:%s=%s" % (applied, outcome))
            ctx.case(("ar", seed, version, size, applied), True,
                     sample={"lazy_lookup_references": inp, "outcome": outcome} if applied != "none" else None)
            if pm != r:
                ctx.disagree("ADM.lazy_lookup_references vs Earverif.AdmRefs.lazyLookupReferences", inp,
                             repr(pm)[:600], repr(r)[:600])
            else:
                ctx.validated()
            # direct predicates at ADM level: same-class duplicate / dangling reference alone in a document
            if applied in ("dup-same-class", "dup-same-class-case") and outcome != "admIDError":
                ctx.hit("a repeated id within one class is not rejected with AdmIDError", inp, {"outcome": outcome},
                        ["c08-duplicate-id-accepted"])
            if applied == "dangling" and outcome != "keyError":
                ctx.hit("a dangling reference is not rejected with KeyError", inp, {"outcome": outcome},
                        ["c08-dangling-ref-accepted"])
            if applied == "dup-cross-class":
                ctx.count("excluded-point:same-id-in-two-classes=" + ("not-rejected" if outcome != "admIDError" else "rejected"))
            if applied == "wrong-class" and outcome == "resolved":
                ctx.count("excluded-point:reference-to-element-of-another-class=resolved-silently")
            if applied == "dup-shadow-common" and outcome != "admIDError":
                ctx.count("excluded-point:non-common-element-with-the-id-of-a-common-definition=overrides(warning)")

    def _corr_transfer(self, ctx, drv, rng, n):
        """real populate_chna_chunk / load_chna_chunk (both directions, CHNA-only documents, v1 AT_ and v2 AC_
        references, track UIDs with / without index and references, edited rows) vs Earverif.ChnaTransfer: rows,
        resulting audioTrackUID records, error kinds"""
        R = refs
        lines, reals, meta = [], [], []
        for i in range(n):
            seed, version, size = rng.randrange(10 ** 9), 1 + (i % 2), rng.choice([1, 2, 3])
            with warnings.catch_warnings():
                warnings.simplefilter("ignore")
                if i % 6 == 5:
                    adm0, _ = docs.make_chna_only_doc(seed)
                    axml, kind = None, "chna-only"
                else:
                    g = self._guarded_doc(ctx, seed, version, size)
                    if g is None:
                        continue
                    (adm0, axml), kind = g, "doc"
                if not all(t.id.isascii() for t in adm0.audioTrackUIDs):
                    continue
                pm, rows = R.real_populate(adm0)
                inp = {"generator": "harness.c08_docs." + ("make_chna_only_doc" if axml is None else "make_doc"),
                       "doc_seed": seed, "version": version, "size": size}
                lines.append("cp " + R.tracks_str(adm0.audioTrackUIDs)); reals.append(pm)
                meta.append(("populate_chna_chunk", inp, "as-generated"))
                if rows is None:
                    continue
                # populate on a damaged copy: index missing / no reference / both references
                dmg = copy_tracks(adm0)
                how = rng.choice(["no-index", "no-format", "both-formats"])
                if dmg.audioTrackUIDs:
                    t = rng.choice(dmg.audioTrackUIDs)
                    if how == "no-index":
                        t.trackIndex = None
                    elif how == "no-format":
                        t.audioTrackFormat = t.audioChannelFormat = None
                    elif adm0.audioTrackFormats and adm0.audioChannelFormats:
                        t.audioTrackFormat, t.audioChannelFormat = adm0.audioTrackFormats[0], adm0.audioChannelFormats[0]
                    lines.append("cp " + R.tracks_str(dmg.audioTrackUIDs)); reals.append(R.real_populate(dmg)[0])
                    meta.append(("populate_chna_chunk", inp, how))
                extra = [r[2] for r in rows] + [r[3] for r in rows if r[3]]
                fresh = R.resolved_doc(rng, axml, extra)
                te = R.edit_tracks(rng, fresh, R.TRACK_EDITS[i % len(R.TRACK_EDITS)] if i < 2 * len(R.TRACK_EDITS)
                                   else rng.choice(R.TRACK_EDITS))
                rows2, re_ = R.edit_rows(rng, fresh, rows, R.ROW_EDITS[(i // 2) % len(R.ROW_EDITS)]
                                         if i < 2 * len(R.ROW_EDITS) else rng.choice(R.ROW_EDITS))
                if te in ("preset-index", "preset-other-index"):
                    byuid = {r[1].upper(): r[0] for r in rows2}
                    for t in fresh.audioTrackUIDs:
                        if t.id.upper() in byuid and rng.random() < 0.7:
                            t.trackIndex = max(1, byuid[t.id.upper()] + (1 if te == "preset-other-index" and rng.random() < 0.4 else 0))
                line = "cl %s %s %s" % (R.others_str(fresh), R.tracks_str(fresh.audioTrackUIDs), R.rows_str(rows2))
                lines.append(line); reals.append(R.real_load(fresh, rows2))
                meta.append(("load_chna_chunk", inp, "%s/tracks:%s/rows:%s" % (kind, te, re_)))
                # validate_trackIndex on the loaded document
                if reals[-1].startswith("ok"):
                    nch = rng.choice([0, 1, 2, 8, 65535, max([t.trackIndex or 0 for t in fresh.audioTrackUIDs] + [0])])
                    lines.append("cv %d %s" % (nch, R.tracks_str(fresh.audioTrackUIDs)))
                    reals.append(R.real_validate(fresh, nch))
                    meta.append(("validate_trackIndex", inp, "channels=%d" % nch))
        # guess_track_indices on id-only documents
        from ear.fileio.adm.adm import ADM
        from ear.fileio.adm.elements import AudioTrackUID
        hexd = "0123456789abcdefABCDEF"
        for i in range(max(12, n // 3)):
            a = ADM()
            ids = []
            for _ in range(rng.randint(1, 4)):
                k = rng.random()
                u = "ATU_" + "".join(rng.choice(hexd) for _ in range(8))
                if k < 0.1: u = u[:rng.randint(0, 11)]
                elif k < 0.2: u += rng.choice(["\n", "0", "\n\n", " "])
                elif k < 0.3: u = rng.choice(["atu_00000001", "ATU_0000000g", "XATU_00000001", "ATU_00000000", "ATU-00000001"])
                ids.append(u)
                a.addAudioTrackUID(AudioTrackUID(id=u, trackIndex=rng.choice([None] * 9 + [3])))
            lines.append("cg " + R.tracks_str(a.audioTrackUIDs)); reals.append(R.real_guess(a))
            meta.append(("guess_track_indices", {"audioTrackUID_ids": ids}, "ids"))
        outs = drv.run(lines)
        for m, r, (fn, inp, what) in zip(outs, reals, meta):
            res = r.split()[0] if r.startswith("ok") else r[2:]
            ctx.count("corr:%s:%s=%s" % (fn, what if fn in ("populate_chna_chunk",) else what.split("/")[0], res))
            if fn == "load_chna_chunk":
                for part in what.split("/")[1:]:
                    ctx.count("corr:load_chna_chunk:%s" % part)
            ctx.case((fn, repr(inp), what), True,
                     sample={fn: inp, "scenario": what, "outcome": res} if fn == "load_chna_chunk" and "none" not in what else None)
            if m != r:
                ctx.disagree("%s vs Earverif.ChnaTransfer" % fn, dict(inp, scenario=what), m[:500], r[:500])
            else:
                ctx.validated()

    def _corr_chunk(self, ctx, drv, rng, n):
        """the table part of the chunk: ChnaChunk.asByteArray (numTracks / numUIDs) and Bw64Reader._read_chna_chunk"""
        R = refs
        lines, reals, meta = [], [], []
        hexd = "0123456789ABCDEF"
        rh = lambda k: "".join(rng.choice(hexd) for _ in range(k))
        for i in range(n):
            rows = []
            for _ in range(rng.choice([0, 1, 1, 2, 3, 5, 8])):
                idx = rng.choice([1, 1, 2, 2, 3, 255, 256, 65535, rng.randint(0, 65535)])
                ref = ("AT_" + rh(8) + "_" + rh(2)) if rng.random() < 0.5 else ("AC_" + rh(8))
                if rng.random() < 0.05: ref = ref[:-1]
                rows.append((idx, "ATU_" + rh(8), ref, None if rng.random() < 0.3 else "AP_" + rh(8)))
            real = R.real_chunk_bytes(rows)
            lines.append("cc " + R.rows_str(rows)); reals.append(real); meta.append(("ChnaChunk.asByteArray", rows))
            if real not in ("E", "-") and not real.startswith("X"):
                data = bytes.fromhex(real)
                k = rng.random()
                if k < 0.15:   # wrong numTracks
                    data = struct.pack("<H", (struct.unpack("<H", data[:2])[0] + rng.choice([1, 65535])) % 65536) + data[2:]
                elif k < 0.3:  # announced table longer than the chunk
                    data = data[:2] + struct.pack("<H", len(rows) + rng.randint(1, 3)) + data[4:]
                elif k < 0.4 and rows:  # announced table shorter
                    data = data[:2] + struct.pack("<H", len(rows) - 1) + data[4:]
                elif k < 0.5:  # truncated
                    data = data[:2 * rng.randint(0, len(data) // 2)]  # (even: no RIFF pad byte after the chunk)
                lines.append("cx " + (data.hex() or "-")); reals.append(R.real_read_chunk(data))
                meta.append(("_read_chna_chunk", data.hex()))
        outs = drv.run(lines)
        for m, r, (fn, inp) in zip(outs, reals, meta):
            ctx.count("corr:%s:%s" % (fn, "table" if not r.startswith("E") else r.replace(" ", "-")))
            ctx.case((fn, repr(inp)), True)
            if r.startswith("X:UnicodeDecodeError"):
                continue
            if m != r:
                ctx.disagree("%s vs Earverif.ChnaTransfer" % fn, repr(inp)[:400], m[:300], r[:300])
            else:
                ctx.validated()

    def _search_refs(self, ctx, n_transfer, n_dup, n_dangling):
        """direct predicates (real code only): CHNA transfer round trip, duplicate ids always rejected, dangling
        references always rejected with KeyError"""
        rng = ctx.rng
        for i in range(n_transfer):
            job = (rng.randrange(10 ** 9), 1 + (i % 2), rng.choice([1, 2, 3]))
            inp = {"generator": "harness.c08_docs.make_doc", "doc_seed": job[0], "version": job[1], "size": job[2]}
            ctx.case(("transfer",) + job, True)
            ctx.count("search:chna-transfer-roundtrip:documents")
            try:
                res = refs.predicate_transfer(*job)
            except Exception as e:
                self._raises(ctx, "chna-transfer", inp, e)
                continue
            for tag, det in res:
                self._hit_capped(ctx, "CHNA <-> audioTrackUID transfer: " + tag, inp, det, ["c08-" + tag])
        for i in range(max(4, n_transfer // 4)):
            seed = rng.randrange(10 ** 9)
            ctx.case(("chna-only-transfer", seed), True)
            ctx.count("search:chna-only-transfer:documents")
            inp = {"generator": "harness.c08_docs.make_chna_only_doc", "doc_seed": seed}
            try:
                res = refs.predicate_chna_only(seed)
            except Exception as e:
                self._raises(ctx, "chna-only-transfer", inp, e)
                continue
            for tag, det in res:
                self._hit_capped(ctx, "CHNA-only document: " + tag, inp, det, ["c08-" + tag])
        for i in range(n_dup):
            job = (rng.randrange(10 ** 9), 1 + (i % 2), rng.choice([1, 2]))
            inp = {"generator": "harness.c08_refs.predicate_duplicate", "doc_seed": job[0], "version": job[1], "size": job[2]}
            try:
                fails, how = refs.predicate_duplicate(*job)
            except Exception as e:
                self._raises(ctx, "duplicate-id-predicate", inp, e)
                continue
            ctx.case(("dup",) + job, True)
            ctx.count("search:duplicate-id(%s):documents" % how)
            for tag, det in fails:
                self._hit_capped(ctx, "repeated id: " + tag, inp, det, ["c08-" + tag])
        for i in range(n_dangling):
            job = (rng.randrange(10 ** 9), 1 + (i % 2), rng.choice([1, 2]))
            inp = {"generator": "harness.c08_refs.predicate_dangling", "doc_seed": job[0], "version": job[1], "size": job[2]}
            try:
                fails, kind = refs.predicate_dangling(*job)
            except Exception as e:
                self._raises(ctx, "dangling-reference-predicate", inp, e)
                continue
            ctx.case(("dangling",) + job, True)
            ctx.count("search:dangling-reference(%s):documents" % kind)
            for tag, det in fails:
                self._hit_capped(ctx, "dangling reference: " + tag, inp, det, ["c08-" + tag])

    # ---- search: documents through the real pipeline -------------------------------------------
    def search(self, ctx, deep):
        rng = ctx.rng
        thorough = not ctx.quick
        n_docs = 2600 if thorough else (320 if deep else 120)
        # directed documents first (defaults-plus-extras for every element class, both versions; no randomness)
        jobs = [("directed", k, v, 0) for v in (1, 2) for k in range(directed.N_DOCS)]
        for i in range(n_docs):
            version = 1 + (i % 2)
            size = rng.choice([1, 2, 2, 3]) if not thorough else rng.choice([1, 2, 2, 3, 4])
            jobs.append(("doc", rng.randrange(10 ** 9), version, size))
        for i in range(max(10, n_docs // 12)):
            jobs.append(("chna-only", rng.randrange(10 ** 9), 2, 0))
        if thorough:
            nproc = min(16, os.cpu_count() or 1)
            chunks = [jobs[i::nproc * 4] for i in range(nproc * 4)]
            with multiprocessing.get_context("fork").Pool(nproc) as pool:
                results = pool.map(_pool_run, chunks)
        else:
            with warnings.catch_warnings():
                warnings.simplefilter("ignore")
                results = [docs.run_docs(jobs)]
        for feats, fails, n in results:
            for k, v in feats.items():
                ctx.count("search:" + k, v)
            for job, tag, det in fails:
                det = dict(det)
                inp = {"generator": {"doc": "harness.c08_docs.make_doc", "directed": "harness.c08_directed.make_directed_doc",
                                     "chna-only": "harness.c08_docs.make_chna_only_doc"}[job[0]],
                       "doc_seed": job[1], "version": job[2], "size": job[3]}
                if job[0] == "directed":
                    inp["document"] = directed.DOC_NAMES[job[1]]
                if "axml" in det:
                    det["axml_written"] = det.pop("axml")  # last, so that the differences are printed first
                ctx.hit("generated ADM document: " + tag, inp, det, ["c08-" + tag])
        import time
        ctx.notes.append("document search: %d documents, finished %.1f s after check start" % (len(jobs), time.time() - ctx.t0))
        for job in jobs:
            ctx.case(job, True)
        for job in jobs[:3]:
            ctx.case(("sample",) + job, False, sample={"document": {"kind": job[0], "doc_seed": job[1], "version": job[2], "size": job[3]}})
        if thorough:
            self._search_refs(ctx, 400, 250, 250)
        else:
            self._search_refs(ctx, 36 if deep else 18, 30 if deep else 14, 30 if deep else 14)
        ctx.notes.append("id / reference / CHNA-transfer predicates finished %.1f s after check start" % (time.time() - ctx.t0))
        self._search_floats(ctx, 200000 if thorough else (60000 if deep else 12000))
        ctx.notes.append("float-leaf predicates finished %.1f s after check start" % (time.time() - ctx.t0))
        self._excluded_points(ctx)
        self._excluded_points_refs(ctx)

    def _excluded_points_refs(self, ctx):
        """points outside the hypotheses of the round-5 theorems, evaluated on the real code and recorded"""
        from ear.fileio.adm.adm import ADM
        from ear.fileio.adm.chna import load_chna_chunk, validate_trackIndex
        from ear.fileio.adm.elements import AudioChannelFormat, AudioPackFormat, AudioTrackUID, TypeDefinition
        from ear.fileio.bw64.chunks import AudioID, ChnaChunk

        def outcome(fn):
            try:
                with warnings.catch_warnings():
                    warnings.simplefilter("ignore")
                    return fn()
            except Exception as e:
                return "raises-" + type(e).__name__

        def base():
            a = ADM()
            a.addAudioChannelFormat(AudioChannelFormat(id="AC_00031001", audioChannelFormatName="c", type=TypeDefinition.Objects))
            a.addAudioPackFormat(AudioPackFormat(id="AP_00031001", audioPackFormatName="p", type=TypeDefinition.Objects))
            return a

        def lower_prefix():
            a = base(); load_chna_chunk(a, ChnaChunk([AudioID(1, "ATU_00000001", "ac_00031001", None)]))
            t = a.audioTrackUIDs[0]
            return "channel-format-stored-as-audioTrackFormat" if t.audioTrackFormat is not None else "as-channel"

        def index_zero():
            a = base(); load_chna_chunk(a, ChnaChunk([AudioID(0, "ATU_00000001", "AC_00031001", None)]))
            validate_trackIndex(a, 1)
            return "accepted(trackIndex=%r)" % a.audioTrackUIDs[0].trackIndex

        def same_uid_two_rows():
            a = base()
            a.addAudioChannelFormat(AudioChannelFormat(id="AC_00031002", audioChannelFormatName="c", type=TypeDefinition.Objects))
            a.addAudioTrackUID(AudioTrackUID(id="ATU_00000001"))
            load_chna_chunk(a, ChnaChunk([AudioID(1, "ATU_00000001", "AC_00031001", None),
                                          AudioID(1, "ATU_00000001", "AC_00031002", None)]))
            return "last-row-wins(%s)" % a.audioTrackUIDs[0].audioChannelFormat.id

        def ref_wrong_class():
            a = base(); load_chna_chunk(a, ChnaChunk([AudioID(1, "ATU_00000001", "AP_00031001", None)]))
            return "pack-stored-as-" + ("audioTrackFormat" if a.audioTrackUIDs[0].audioTrackFormat is not None else "?")

        def cross_class_dup():
            a = base()
            a.addAudioPackFormat(AudioPackFormat(id="AC_00031001", audioPackFormatName="p", type=TypeDefinition.Objects))
            a.lazy_lookup_references()
            return "accepted;lookup->" + type(a["AC_00031001"]).__name__

        def lookup_before_dedup():
            a = base()
            a.addAudioChannelFormat(AudioChannelFormat(id="ac_00031001", audioChannelFormatName="second", type=TypeDefinition.Objects))
            return "first-of-two(%s)" % a["AC_00031001"].audioChannelFormatName

        for name, fn in [("chna-ref-with-lower-case-ac-prefix", lower_prefix), ("chna-trackIndex-0", index_zero),
                         ("chna-two-rows-same-known-uid-different-refs", same_uid_two_rows),
                         ("chna-ref-to-element-of-another-class", ref_wrong_class),
                         ("same-id-in-two-classes(lazy_lookup_references)", cross_class_dup),
                         ("lookup_element-before-duplicate-pass", lookup_before_dedup)]:
            ctx.count("excluded-point:%s=%s" % (name, outcome(fn)))

    def _excluded_points(self, ctx):
        """degenerate values that are outside the generator (see `assumptions`): evaluated on the real code once
        per run and recorded in the evidence, never asserted"""
        from ear.fileio.adm.elements import (AudioBlockFormatObjects, JumpPosition, ObjectPolarPosition,
                                             PolarPositionOffset, InteractionRange, AudioObjectInteraction)

        def run(name, mutate, version=2):
            try:
                adm, _ = docs.make_doc(12345, version, 1)
                mutate(adm)
                with warnings.catch_warnings():
                    warnings.simplefilter("ignore")
                    fails = docs.predicate(adm, version)
                outcome = "round-trips" if not fails else ",".join(sorted({t for t, _ in fails}))
            except Exception as e:
                outcome = "raises-" + type(e).__name__
            ctx.count("excluded-point:%s=%s" % (name, outcome))

        def jp(adm):
            cf = adm.audioChannelFormats[-1]
            cf.audioBlockFormats[:] = [AudioBlockFormatObjects(
                position=ObjectPolarPosition(0.0, 0.0, 1.0),
                jumpPosition=JumpPosition(flag=False, interpolationLength=Fraction(1, 2)))]
            cf.type = type(cf.type).Objects
            from ear.fileio.adm.generate_ids import generate_ids
            generate_ids(adm)

        def objects_block(**kw):
            def fn(adm):
                cf = adm.audioChannelFormats[-1]
                cf.audioBlockFormats[:] = [AudioBlockFormatObjects(position=ObjectPolarPosition(0.0, 0.0, 1.0), **kw)]
                cf.type = type(cf.type).Objects
                from ear.fileio.adm.generate_ids import generate_ids
                generate_ids(adm)
            return fn

        def zero_offset(adm):
            adm.audioObjects[0].positionOffset = PolarPositionOffset()

        def empty_range(adm):
            adm.audioObjects[0].audioObjectInteraction = AudioObjectInteraction(
                onOffInteract=True, gainInteractionRange=InteractionRange())

        def no_screen(adm):
            adm.audioProgrammes[0].referenceScreen = None

        def dup_encode(adm):
            p = adm.audioPackFormats[-1]
            q = [x for x in adm.audioPackFormats if not x.is_common_definition][0]
            p.encodePackFormats = [q, q]

        def duration_only(adm):
            cf = [c for c in adm.audioChannelFormats if not c.is_common_definition][0]
            cf.audioBlockFormats[0].rtime = None
            cf.audioBlockFormats[0].duration = Fraction(1)

        def empty_pos_range(adm):
            from ear.fileio.adm.elements import CartesianPositionInteractionRange
            adm.audioObjects[0].audioObjectInteraction = AudioObjectInteraction(
                onOffInteract=True, positionInteractionRange=CartesianPositionInteractionRange())

        def no_blocks(adm):
            cf = [c for c in adm.audioChannelFormats if not c.is_common_definition][0]
            cf.audioBlockFormats[:] = []

        def coeff_without_input(adm):
            from ear.fileio.adm.elements import AudioBlockFormatMatrix, MatrixCoefficient, TypeDefinition
            cf = [c for c in adm.audioChannelFormats if not c.is_common_definition][0]
            cf.type = TypeDefinition.Matrix
            cf.audioBlockFormats[:] = [AudioBlockFormatMatrix(matrix=[MatrixCoefficient(gain=0.5)])]
            from ear.fileio.adm.generate_ids import generate_ids
            generate_ids(adm)

        def v1_object_gain(adm):
            adm.audioObjects[0].gain = 0.5

        def v1_block_importance(adm):
            from ear.fileio.adm.elements import AudioBlockFormatBinaural, TypeDefinition
            cf = [c for c in adm.audioChannelFormats if not c.is_common_definition][0]
            cf.type = TypeDefinition.Binaural
            cf.audioBlockFormats[:] = [AudioBlockFormatBinaural(importance=5)]
            from ear.fileio.adm.generate_ids import generate_ids
            generate_ids(adm)

        def v1_trackuid_channel(adm):
            adm.audioTrackUIDs[0].audioChannelFormat = adm.audioChannelFormats[0]

        for name, fn in [("jumpPosition-flag-false-with-interpolationLength", jp), ("all-zero-positionOffset", zero_offset),
                         # floats off the printable grid (the text is a fixed point by fmt5_parse_fmt5; the value is only
                         # equal "as printed"; a value that prints like the default is elided by the second generation)
                         ("off-grid-float-gain-0.123456789", objects_block(gain=0.123456789)),
                         ("off-grid-float-printing-like-default-width-1e-7", objects_block(width=1e-7)),
                         # the text -0.00000 has no counterpart Leaf.num k (theorem grid_model_excluded_points)
                         ("negative-zero-gain--0.0", objects_block(gain=-0.0)),
                         ("negative-float-rounding-to-zero-gain--1e-7", objects_block(gain=-1e-7)),
                         ("negative-interpolationLength-rounding-to-zero",
                          objects_block(jumpPosition=JumpPosition(flag=True, interpolationLength=Fraction(-1, 10 ** 9)))),
                         ("empty-gainInteractionRange", empty_range), ("empty-positionInteractionRange", empty_pos_range),
                         ("referenceScreen-None", no_screen),
                         ("duplicate-encodePackFormats", dup_encode), ("duration-without-rtime", duration_only),
                         ("channelFormat-without-blockFormats", no_blocks),
                         ("matrix-coefficient-without-inputChannelFormat", coeff_without_input)]:
            run(name, fn)
        for name, fn in [("v1-audioObject-gain", v1_object_gain), ("v1-block-importance", v1_block_importance),
                         ("v1-audioTrackUID-audioChannelFormat", v1_trackuid_channel)]:
            run(name, fn, 1)


SPEC = C08()

REGISTRY = dict(
    text="PARTIAL: Lean theorems prove, for all inputs, on hand-written models tied to the code on every run: "
    "(1) ADM time strings (Earverif.C08.time_roundtrip_decimal — every 0 <= t < 100 h that is a terminating decimal "
    "within Decimal's 28 significant digits is printed and parsed back exactly, both versions; "
    "time_roundtrip_fractional — FractionalTime numerator/denominator preserved incl. non-normalised 2S4; "
    "time_unparse_parse — string fixed point on the image of unparse_time); (2) ID generation (ids_injective for all "
    "element counts; ids_wellformed under explicit bounds with ids_wellformed_bound_sharp: the 61 440th object gets "
    "AO_10000; ids_not_reserved; ids_disjoint_from_common) and the 40-byte CHNA row (chna_entry_roundtrip); "
    "(3) the XML layer on an abstract tree: Earverif.XmlCodec.codec_roundtrip / codec_roundtrip_full for the "
    "declarative combinators (Attribute/AttrElement/ListElement/HandleText/TypeAttribute + hand-written handlers as "
    "specified parameters), instantiated with the handler tables REGENERATED from the real MainElementHandler on "
    "every run (handlers_wellformed by decide); every hand-written handler pair of xml.py modelled exactly with its own "
    "round-trip theorem and its excluded points as theorems (frequency, jumpPosition, DirectSpeakers and Objects "
    "position, gain element / optional gain / gain attribute, channelLock, objectDivergence, zoneExclusion, "
    "positionOffset, screenCentrePosition / screenWidth, gain and position interaction ranges, Matrix coefficient and "
    "matrix element); class-level theorems parse(to_xml(e)) = e and second generation = same tree, under explicit "
    "Valid predicates with non-vacuity examples, for BS.2076-1 and -2: objectsBlock_roundtrip, "
    "directSpeakersBlock_roundtrip, hoaBlock_roundtrip, binauralBlock_roundtrip, matrixBlock_roundtrip, "
    "coeff_roundtrip, loudness_roundtrip, screen_roundtrip, interaction_roundtrip, avs_roundtrip, programme_roundtrip, "
    "content_roundtrip, object_roundtrip, packFormat_roundtrip, channelFormat_roundtrip (block formats dispatched by "
    "typeDefinition), streamFormat_roundtrip, trackFormat_roundtrip, trackUID_roundtrip — each tied to the regenerated "
    "table by a *Rows_eq obligation (decide +kernel) and a *Props_eq theorem; Earverif.C08.C08_roundtrip_model: every "
    "main element of a DocValid document round-trips through the parser the regenerated table declares for its "
    "class; (4) the CHNA <-> audioTrackUID transfer of chna.py (Earverif.C08.chna_transfer_roundtrip: for a WFDoc "
    "document populate_chna_chunk then load_chna_chunk into any copy without track information restores every track "
    "UID, and populate(load(chunk)) = chunk for a well-formed chunk; chna_only_document; chna_rows_in_document_order; "
    "chna_conflict_rejected with the error kinds of the code; chna_chunk_roundtrip / chna_transfer_through_bytes "
    "composing with the 40-byte row; chna_excluded_points_transfer); (5) the id map and reference resolution of "
    "adm.py and the element classes (lookup_unique; duplicate_id_rejected: a repeated id within a class is always "
    "AdmIDError; resolve_total_on_closed: on a closed document nothing is raised and every plain reference attribute "
    "holds the element lookup_element finds for the id written; resolve_dangling_rejected: KeyError; "
    "resolve_then_ids_roundtrip: write -> parse gives back the same ids in every IDRef argument, composed with "
    "C08_roundtrip_model, hence reference structure is preserved by write -> parse -> resolve; "
    "duplicate_across_classes_not_rejected records that the same id in two classes is accepted). C08_partial is the "
    "conjunction of (1)-(5). (6) the float leaf (Model/FloatText.lean: '{:.5f}'.format / float() of FloatType and of "
    "the hand-written handlers, '{:07.5f}'.format(float(t)) / Fraction() of SecondsType, over exact binary64 values "
    "with IEEE round-to-nearest-even, proved from the nearest-value property of the rounding, no enumeration): "
    "Earverif.C08.fmt5_parse_fmt5 — for EVERY finite double (both signs, -0.0, subnormals, up to the largest double; no "
    "magnitude bound is needed) print(parse(print x)) = print x, which is what 'generating XML again reproduces the "
    "same bytes' needs of a float leaf; parse_fmt5_close — |parse(print x) - x| <= 0.5e-5 + (|x| + 0.5e-5) 2^-53 and "
    "<= 1e-5 ('numbers as printed to five decimals'; the rounding term is needed: 2^35 + 2^-16 comes back 2^-17 away); "
    "parse_fmt5_exact_of_5dec — the double nearest to a decimal k/10^5 < 2^36 is printed as exactly that decimal and "
    "read back bit-identical (k = 2^36*10^5 itself still satisfies it; the first failing point is k + 1, whose nearest "
    "double has roundHalfEven(x*10^5) = ...00002); parse_fmt5_idempotent — the value read back "
    "is reproduced by every further print / parse, unconditionally; fmt07_5_fin ('{:07.5f}' never pads a finite "
    "number); seconds_roundtrip / seconds_exact_of_5dec for non-negative Fractions (a negative value rounding to zero "
    "is a kernel-checked excluded point: -0.00000 -> Fraction(0) -> 0.00000); floatCodec_refines — ONE LEAF: the "
    "printable-grid float codec of the handler-table model (Leaf.num k, used by handlers_codec_roundtrip and every "
    "class theorem) emits exactly the text of the real FloatType for the double nearest to k/10^5 and the real loads "
    "maps it back to that double (|k|/10^5 < 2^36); secondsCodec_refines — ONE LEAF: jumpPosition "
    "interpolationLength is modelled with dumpsNum / loadsNum while the real code is SecondsType: for 0 <= k, "
    "k/10^5 < 2^36, '{:07.5f}'.format(float(Fraction(k, 10^5))) is exactly dumpsNum k and Fraction() of that text is "
    "exactly k/10^5. C08_roundtrip_model_floats_partial (Proofs/C08FloatDoc.lean) COMPOSES the two bridges with the "
    "document model along the generic handler-table path: for a DocValid document satisfying the decidable NumsBounded "
    "(docElems = every main element, loudnessMetadata, reference screen, audioObjectInteraction, alternativeValueSet, "
    "block format of the five types and Matrix coefficient, each with the rows of its REGENERATED parser table; every "
    "Leaf.num k under a declarative FloatType row and every linear gain written by the five hand-written gain handlers "
    "has |k| < 2^36*10^5 or is the unwritten handler default; every jumpPosition interpolationLength also 0 <= k): "
    "(1) every text written by a declarative FloatType row (Attribute / AttrElement / ListElement; these texts are "
    "attribute values / child texts of toXml: floatTexts_in_toXml; no HandleText row is a FloatType: "
    "no_float_handleText, kernel-decided on the regenerated table; >= 30 such rows: float_rows_count) is fmt5 of the "
    "double nearest to a grid number stored in the object = the real FloatType.dumps text, parseFloat of it is that "
    "double and printing again gives the same text (RealFloatText); (2) the same for every gain text of the gain "
    "element / optional gain / gain attribute handlers; (3) every interpolationLength text is secondsDumps of the "
    "stored Fraction, parseFraction reads it back exactly and writing again gives the same text (RealSecondsText); and "
    "the conclusion of C08_roundtrip_model. C08_table_floatTexts_real is the class-level form for ANY parser of the "
    "regenerated table, any hand-written implementations and any object. (4) The other hand-written handlers hold their "
    "numbers as Int fields written with dumpsNum directly; they are traversed through siteSpecs / siteRow_texts / "
    "obj_siteTexts_real (NumsBounded also asks |k| < 2^36*10^5 for every Int held by the stored value): Objects position "
    "and DirectSpeakers position with bounds, channelLock maxDistance, objectDivergence, zoneExclusion, positionOffset, "
    "frequency, reference-screen centre position / width, gain / position interaction ranges — every number text they "
    "write (element text / named attributes, specified per handler) is RealFloatText of a held grid number; "
    "custom_rows_classified (kernel-decided on the regenerated table): every hand-written handler pair in the tables is "
    "a gain handler, jumpPosition, a siteSpecs handler, the BS.2076-2-only refusal or a pure delegation to a nested "
    "parser, so no number-writing handler is left out. Left outside: a dB gain is symbolic (never written); which texts "
    "are number texts is specified per handler, not derived from a schema; "
    "that a nested element's XML is a descendant of its main element's XML is by definition of the list / single "
    "handlers and not restated. Tie: _corr_float_doc walks the REAL adm_to_xml output of generated and directed "
    "documents together with the real objects along the regenerated parser tables and asserts that every such text "
    "equals dumpsNum k = '{:.5f}'.format(k/100000.0) (resp. '{:07.5f}') for the grid value k of the object's value, and "
    "that the Lean fmt5 / parseFloat / secondsDumps / parseFraction agree with the real converters on these texts. "
    "The class / document round-trip theorems themselves remain "
    "statements over Leaf.num (k : Int) with NO bound on k in Valid / DocValid and with "
    "loadsNum, the inverse of dumpsNum on its image only (not float()); grid_model_excluded_points (kernel-checked) "
    "lists what the grid model cannot express or gets differently: the text -0.00000 (written for -0.0 and for "
    "gain = -1e-7; float() keeps -0.0, the model reads 0, and no Leaf.num k prints it), the spellings 0.5 / 1 / 1e0 "
    "(none for loadsNum), and the leaf 2^36*10^5 + 1, which the class theorems cover although '{:.5f}' of the nearest "
    "double prints something else. NOT proved, only searched: the composition 'every float text of to_xml(document) "
    "is fmt5 of a double and is read back as that double' as a statement about lxml text (proved on the abstract tree "
    "for the declarative FloatType rows, the gain handlers, jumpPosition and the siteSpecs handlers; the document-level "
    "harness tie _corr_float_doc covers the FloatType rows, gain and interpolationLength, the siteSpecs handlers are tied "
    "by the handler-level and class-level correspondence), lxml and the byte level of AXML (the tree is abstract), "
    "attrs validators, documents with floats OFF the 1e-5 grid as a whole (leaf text is a fixed point, but a value "
    "that prints like a default, e.g. width 1e-7, is written once and elided by the second generation: recorded as "
    "excluded point) — covered by generated documents over every element class and optional attribute for both "
    "versions run through the real write/read pipeline (equivalence, byte fixed point, CHNA transfer, ID checks, "
    "duplicate / dangling rejection).",
    note="Trusted: Lean kernel; hand transliterations of time_format / generate_ids / CHNA row codec / xml.py "
    "(combinators, all handler pairs, element classes) / chna.py / adm.py id map and lazy_lookup_references of every "
    "element class / CPython's '{:.5f}' (dtoa mode 3), float(str) (strtod grammar + correct rounding) and "
    "Fraction(str) as modelled in Model/FloatText.lean with the IEEE rounding model Model/Ieee.lean + correspondence harness (real ElementParser.parse/to_xml, real "
    "handler functions and whole-element parse+to_xml vs the Lean driver on synthetic trees, on trees written for "
    "generated documents and on randomly edited copies); the table extractor; Python "
    "Fraction/Decimal/str.format/struct semantics. Quantifier limits: t < 100 h, ASCII digits, <= 0xEFFF elements per "
    "top-level kind, <= 0xFF track formats per stream, printable-grid values at document level (the float leaf "
    "theorems hold for all finite doubles; grid statements below 2^36); degenerate composite values (all-zero "
    "positionOffset, empty interaction ranges, jumpPosition flag false with interpolationLength, referenceScreen "
    "None, channel format without block formats, coefficient without input channel, BS.2076-2 features in a "
    "BS.2076-1 document) are stated as hypotheses / excluded-point theorems and recorded from the real code on "
    "every run, not asserted.",
    technique="Lean 4 proofs about codec models (binary64 rounding on exact rationals: nearest-value and "
    "ties-to-even argument for the five-decimal printer, long-division decimal expansion, injective min-width hex formatter, "
    "byte layout, dictionary-of-handlers parser with loop invariants, generic handler shapes (single / list / xpath) "
    "with framed specifications, nested parsers composed through class constructors, regenerated tables decided by "
    "the kernel) + differential correspondence with the real functions + generated-document search on the real "
    "AXML/CHNA pipeline",
    design_ref="DESIGN.md section 4, C08",
)


# ---------------------------------------------------------------------------------------------
# table extraction (used by C08.extract and by the combinator correspondence)


def _lean_str(s):
    return '"' + s.replace("\\", "\\\\").replace('"', '\\"') + '"'


def real_parsers():
    """every ElementParser reachable from MainElementHandler for BS.2076-1 and -2: [(name, parser)]"""
    from ear.fileio.adm import xml as X
    from ear.fileio.adm.elements.version import BS2076Version

    parsers = []
    for v in (1, 2):
        h = X.MainElementHandler(BS2076Version(v))
        for me in h.main_elements:
            parsers.append(("v%d/%s" % (v, me.name), me.handler))
        for t, bh in h.make_block_format_handlers().items():
            parsers.append(("v%d/audioBlockFormat:%s" % (v, t.name), bh))
        parsers.append(("v%d/loudnessMetadata" % v, h.loudness_handler))
        parsers.append(("v%d/audioObjectInteraction" % v, h.make_audioObjectInteraction_handler()))
        parsers.append(("v%d/alternativeValueSet" % v, h.make_alternativeValueSet_handler()))
        parsers.append(("v%d/coefficient" % v, h.make_matrix_coefficient_handler()))
    parsers.append(("audioProgrammeReferenceScreen", X.screen_handler))
    parsers.append(("zoneExclusion", X.zone_exclusion_handler))
    return parsers


def parser_rows(parser):
    """(kind, adm, arg, attr, type, handler default, class default, required, parse_only, label, enum, handler)"""
    import attr
    from ear.fileio.adm import xml as X

    type_names = {id(getattr(X, n)): n for n in ("StringType", "IntType", "FloatType", "SecondsType", "BoolType",
                                                 "TimeTypeV1", "TimeType", "RefType", "VersionType", "TrackUIDRefType")}

    def class_default(cls, name):
        if not (isinstance(cls, type) and attr.has(cls)):
            return "<no-class>"
        fd = attr.fields_dict(cls)
        if name not in fd:
            return "<no-field>"
        d = fd[name].default
        if d is attr.NOTHING:
            return "<required>"
        if isinstance(d, attr.Factory):
            try:
                return repr(d.factory())
            except Exception:
                return "<factory>"
        return repr(d)

    def fname(f):
        return "None" if f is None else getattr(f, "__qualname__", type(f).__name__)

    out = []
    cls = parser.cls
    if getattr(cls, "__name__", "") == "make_audio_programme":
        from ear.fileio.adm.elements import AudioProgramme as cls  # the factory only fills in the default screen
    for p in parser.properties:
        kind = type(p).__name__
        adm = getattr(p, "adm_name", None)
        arg = getattr(p, "arg_name", None)
        att = getattr(p, "attr_name", arg)
        ty = type_names.get(id(getattr(p, "type", None)), "-")
        declarative = kind in ("Attribute", "AttrElement")
        hdef = repr(p.default) if declarative else "-"
        cdef = class_default(cls, att) if declarative else "-"
        label, enum, handler = "", [], "-"
        if kind == "TypeAttribute":
            adm, label = p.definition_name, p.label_name
            enum = [(m.name, m.value) for m in p.enum]
        if kind in ("CustomElement", "GenericElement"):
            handler = fname(p.handler) + " / " + fname(p.to_xml)
        out.append((kind, adm or "-", arg or "-", att or "-", ty, hdef, cdef, bool(getattr(p, "required", False)),
                    bool(getattr(p, "parse_only", False)), label, enum, handler))
    return out


def extract_tables():
    """property lists of every ElementParser reachable from MainElementHandler for BS.2076-1 and -2, and the id
    ranges of the shipped common definitions. Returns (Lean source, number of parsers, number of rows)."""
    parsers = real_parsers()
    L = ["/- GENERATED by harness/c08.py (extract) from ear.fileio.adm.xml — do not edit. -/",
         "import Earverif.Model.XmlLeaf", "", "namespace Earverif.Gen.C08", "open Earverif.XmlCodec (Row)", ""]
    names = []
    nrows = 0
    for i, (nm, parser) in enumerate(parsers):
        rs = parser_rows(parser)
        nrows += len(rs)
        dn = "p%d" % i
        names.append((nm, dn))
        L.append("/-- %s (class %s) -/" % (nm, getattr(parser.cls, "__name__", "?")))
        L.append("def %s : List Row := [" % dn)
        L.append(",\n".join("  ⟨%s, %s, %s, %s, %s, %s, %s, %s, %s, %s, [%s], %s⟩" % (
            _lean_str(r[0]), _lean_str(r[1]), _lean_str(r[2]), _lean_str(r[3]), _lean_str(r[4]), _lean_str(r[5]),
            _lean_str(r[6]), "true" if r[7] else "false", "true" if r[8] else "false", _lean_str(r[9]),
            ", ".join("(%s, %d)" % (_lean_str(n), v) for n, v in r[10]), _lean_str(r[11])) for r in rs))
        L.append("]")
        L.append("")
    L.append("def parsers : List (String × List Row) := [")
    L.append(",\n".join("  (%s, %s)" % (_lean_str(nm), dn) for nm, dn in names))
    L.append("]")
    L.append("")
    # common definitions: (prefix, count, min counter, max counter)
    cm = docs.common()
    kinds = [("AP", cm.audioPackFormats), ("AC", cm.audioChannelFormats), ("AS", cm.audioStreamFormats),
             ("AT", cm.audioTrackFormats), ("APR", cm.audioProgrammes), ("ACO", cm.audioContents),
             ("AO", cm.audioObjects), ("ATU", cm.audioTrackUIDs)]
    L.append("/-- ids of the shipped common definitions: (prefix, number of elements, least and greatest counter field) -/")
    L.append("def commonIdRanges : List (String × Nat × Nat × Nat) := [")
    ent = []
    for pre, els in kinds:
        cs = [int(e.id.split("_")[1][-4:], 16) for e in els]
        ent.append("  (%s, %d, %d, %d)" % (_lean_str(pre), len(cs), min(cs) if cs else 0, max(cs) if cs else 0))
    L.append(",\n".join(ent))
    L.append("]")
    L.append("")
    L.append("end Earverif.Gen.C08")
    return "\n".join(L) + "\n", len(parsers), nrows
