/- C12, the topological half: pasting the region handlers along the first-accept loop.

   `PointSourcePanner.handle` (and `VirtualNgon.handle`) return the value of the FIRST region whose handler is not
   `None` (`firstAccept` in Model/PointSource.lean).  Here:

   * `firstAccept_eq_of_agree` — if the accepting handlers agree at a point, the first-accept value there is the value
     of ANY accepting region (the key lemma);
   * `firstAccept_continuousOn` — finitely many regions, acceptance sets closed in `S`, handlers continuous on their
     acceptance sets, pairwise agreement on intersections ⟹ the first-accept function is continuous on the union;
   * `firstAccept_jump_bound_aux` — the quantitative version: handlers agreeing only up to `η` on the overlaps ⟹ the
     first-accept function varies by at most `η + δ` near every point (jumps bounded by `η`);
   * `Triplet.acceptsE` / `handleE`: the triplet handler with the acceptance slack as a parameter (`tripletEps`, the
     code's −1e-11, gives back `Triplet.handle` by `rfl`; `0` is the idealisation "exact acceptance");
     `triplet_accept_isClosed`: the acceptance set is closed for every slack and every (even singular) matrix;
   * linear algebra of two triplets sharing an edge with the third loudspeakers on opposite sides of it, and the
     Lipschitz estimate for normalise-and-clip, used for the quantitative sliver bound in Props/C12.lean. -/
import Earverif.Proofs.PointSourceReal
import Mathlib.Topology.ContinuousOn
import Mathlib.Topology.MetricSpace.Pseudo.Basic
import Mathlib.Topology.Algebra.Order.Field
import Mathlib.Topology.Order.OrderClosed
import Mathlib.Tactic.FunProp
import Mathlib.Tactic.FinCases
import Mathlib.Algebra.Order.Group.MinMax

namespace Earverif.PointSource

open Set Filter Topology

/-! ### the first-accept loop over regions given as (acceptance set, handler) -/

section Paste
variable {X Y : Type}

open Classical in
/-- the list of candidate answers at `p`: region `r` answers `some (r.2 p)` on its acceptance set `r.1`, else `None` -/
noncomputable def candidates (rs : List (Set X × (X → Y))) (p : X) : List (Option Y) :=
  rs.map fun r => if p ∈ r.1 then some (r.2 p) else none

/-- union of the acceptance sets -/
def accUnion (rs : List (Set X × (X → Y))) : Set X := {p | ∃ r ∈ rs, p ∈ r.1}

theorem firstAccept_candidates_none (rs : List (Set X × (X → Y))) (p : X) (h : p ∉ accUnion rs) :
    firstAccept (candidates rs p) = none := by
  rw [firstAccept_eq_none]
  intro x hx
  obtain ⟨r, hr, rfl⟩ := List.mem_map.mp hx
  have : p ∉ r.1 := fun hp => h ⟨r, hr, hp⟩
  simp [this]

/-- KEY LEMMA.  If every region accepting `p` gives the value `y` there, the first-accept loop returns `y` as soon
    as some region accepts: with pairwise agreement the loop's answer is ANY accepting region's answer. -/
theorem firstAccept_eq_of_agree : ∀ (rs : List (Set X × (X → Y))) (p : X) (y : Y),
    (∃ r ∈ rs, p ∈ r.1) → (∀ r ∈ rs, p ∈ r.1 → r.2 p = y) → firstAccept (candidates rs p) = some y
  | [], _, _, h, _ => by obtain ⟨r, hr, _⟩ := h; simp at hr
  | a :: rest, p, y, h, hy => by
    by_cases ha : p ∈ a.1
    · have := hy a (by simp) ha
      simp [candidates, ha, firstAccept, this]
    · obtain ⟨r, hr, hp⟩ := h
      have hr' : r ∈ rest := by
        rcases List.mem_cons.mp hr with rfl | h'
        · exact absurd hp ha
        · exact h'
      have ih := firstAccept_eq_of_agree rest p y ⟨r, hr', hp⟩ (fun r' h' => hy r' (List.mem_cons_of_mem _ h'))
      simpa [candidates, ha, firstAccept] using ih

variable [TopologicalSpace X] [TopologicalSpace Y]

theorem continuousWithinAt_accUnion {G : X → Y} {S : Set X} {x : X} (hx : x ∈ S) :
    ∀ (rs : List (Set X × (X → Y))), (∀ r ∈ rs, ∃ C, IsClosed C ∧ r.1 = C ∩ S) → (∀ r ∈ rs, ContinuousOn G r.1) →
      ContinuousWithinAt G (accUnion rs) x
  | [], _, _ => by
    have : accUnion ([] : List (Set X × (X → Y))) = ∅ := by ext p; simp [accUnion]
    rw [this]; exact continuousWithinAt_of_notMem_closure (by simp)
  | a :: rest, hcl, hc => by
    have hU : accUnion (a :: rest) = a.1 ∪ accUnion rest := by
      ext p; simp [accUnion]
    rw [hU]
    refine ContinuousWithinAt.union ?_ ?_
    · by_cases hxa : x ∈ a.1
      · exact hc a (by simp) x hxa
      · obtain ⟨C, hC, hCe⟩ := hcl a (by simp)
        apply continuousWithinAt_of_notMem_closure
        intro hmem
        have h1 : closure a.1 ⊆ C := by
          rw [hCe]; exact closure_minimal inter_subset_left hC
        exact hxa (by rw [hCe]; exact ⟨h1 hmem, hx⟩)
    · exact continuousWithinAt_accUnion hx rest (fun r hr => hcl r (List.mem_cons_of_mem _ hr))
        (fun r hr => hc r (List.mem_cons_of_mem _ hr))

/-- PASTING along the first-accept loop.  Finitely many regions `(A_i, g_i)`; every `A_i` is closed in `S`
    (`A_i = C_i ∩ S`, `C_i` closed); `g_i` is continuous on `A_i`; `g_i = g_j` on `A_i ∩ A_j`.  Then the function
    "value of the first region whose acceptance set contains `p`" is continuous on `⋃ A_i`, it is `some _` exactly
    on `⋃ A_i`, and on each `A_i` it IS `g_i`.  (`d` is only the value outside the union.) -/
theorem firstAccept_continuousOn_aux (S : Set X) (rs : List (Set X × (X → Y))) (d : Y)
    (hcl : ∀ r ∈ rs, ∃ C, IsClosed C ∧ r.1 = C ∩ S)
    (hc : ∀ r ∈ rs, ContinuousOn r.2 r.1)
    (hag : ∀ r ∈ rs, ∀ r' ∈ rs, ∀ p, p ∈ r.1 → p ∈ r'.1 → r.2 p = r'.2 p) :
    ContinuousOn (fun p => (firstAccept (candidates rs p)).getD d) (accUnion rs) ∧
      (∀ r ∈ rs, ∀ p ∈ r.1, firstAccept (candidates rs p) = some (r.2 p)) ∧
      (∀ p, p ∉ accUnion rs → firstAccept (candidates rs p) = none) := by
  have hval : ∀ r ∈ rs, ∀ p ∈ r.1, firstAccept (candidates rs p) = some (r.2 p) := fun r hr p hp =>
    firstAccept_eq_of_agree rs p (r.2 p) ⟨r, hr, hp⟩ (fun r' hr' hp' => hag r' hr' r hr p hp' hp)
  refine ⟨?_, hval, firstAccept_candidates_none rs⟩
  intro x hx
  obtain ⟨r0, hr0, hx0⟩ := hx
  have hxS : x ∈ S := by
    obtain ⟨C, _, hCe⟩ := hcl r0 hr0
    rw [hCe] at hx0; exact hx0.2
  refine continuousWithinAt_accUnion hxS rs hcl (fun r hr => ?_)
  refine (hc r hr).congr (fun p hp => ?_)
  simp [hval r hr p hp]

end Paste

/-! ### quantitative pasting: agreement up to η gives jumps bounded by η -/

section Jump
variable {X Y : Type}

/-- the first-accept loop returns the value of SOME accepting region -/
theorem firstAccept_candidates_some (rs : List (Set X × (X → Y))) (p : X) (h : p ∈ accUnion rs) :
    ∃ r ∈ rs, p ∈ r.1 ∧ firstAccept (candidates rs p) = some (r.2 p) := by
  cases hf : firstAccept (candidates rs p) with
  | none =>
    rw [firstAccept_eq_none] at hf
    obtain ⟨r, hr, hp⟩ := h
    have := hf _ (List.mem_map.mpr ⟨r, hr, rfl⟩)
    simp [hp] at this
  | some y =>
    obtain ⟨r, hr, he⟩ := List.mem_map.mp (firstAccept_mem hf)
    by_cases hp : p ∈ r.1
    · simp only [hp, if_true, Option.some.injEq] at he
      exact ⟨r, hr, hp, by rw [he]⟩
    · simp [hp] at he

theorem eventually_forall_mem_list {ι : Type} {f : Filter X} {P : ι → X → Prop} :
    ∀ l : List ι, (∀ r ∈ l, ∀ᶠ y in f, P r y) → ∀ᶠ y in f, ∀ r ∈ l, P r y
  | [], _ => by simp
  | a :: rest, h => by
    have h1 := h a (by simp)
    have h2 := eventually_forall_mem_list rest (fun r hr => h r (List.mem_cons_of_mem _ hr))
    filter_upwards [h1, h2] with y hy1 hy2 r hr
    rcases List.mem_cons.mp hr with rfl | hr'
    · exact hy1
    · exact hy2 r hr'

variable [TopologicalSpace X] [PseudoMetricSpace Y]

/-- QUANTITATIVE PASTING ("continuous up to jumps of η").  As `firstAccept_continuousOn`, but the handlers only agree
    up to `η` on the overlaps: `dist (g_i p) (g_j p) ≤ η` on `A_i ∩ A_j`.  Then around every point `x` of the union the
    first-accept function varies by at most `η + δ` for every `δ > 0`: its jumps are bounded by `η`.  (`η = 0` is
    continuity.) -/
theorem firstAccept_jump_bound_aux (S : Set X) (rs : List (Set X × (X → Y))) (d : Y) (η : ℝ)
    (hcl : ∀ r ∈ rs, ∃ C, IsClosed C ∧ r.1 = C ∩ S)
    (hc : ∀ r ∈ rs, ContinuousOn r.2 r.1)
    (hη : ∀ r ∈ rs, ∀ r' ∈ rs, ∀ p, p ∈ r.1 → p ∈ r'.1 → dist (r.2 p) (r'.2 p) ≤ η) :
    ∀ x ∈ accUnion rs, ∀ δ > 0, ∀ᶠ y in 𝓝[accUnion rs] x,
      dist ((firstAccept (candidates rs y)).getD d) ((firstAccept (candidates rs x)).getD d) ≤ η + δ := by
  intro x hx δ hδ
  obtain ⟨r0, hr0, hx0, hFx⟩ := firstAccept_candidates_some rs x hx
  have hxS : x ∈ S := by
    obtain ⟨C, _, hCe⟩ := hcl r0 hr0
    rw [hCe] at hx0; exact hx0.2
  have hev : ∀ r ∈ rs, ∀ᶠ y in 𝓝[accUnion rs] x, y ∈ r.1 → (x ∈ r.1 ∧ dist (r.2 y) (r.2 x) < δ) := by
    intro r hr
    by_cases hxr : x ∈ r.1
    · have hcont := hc r hr x hxr
      have h1 : ∀ᶠ y in 𝓝[r.1] x, dist (r.2 y) (r.2 x) < δ := hcont (Metric.ball_mem_nhds _ hδ)
      rw [eventually_nhdsWithin_iff] at h1
      refine nhdsWithin_le_nhds ?_
      filter_upwards [h1] with y hy hyr
      exact ⟨hxr, hy hyr⟩
    · obtain ⟨C, hC, hCe⟩ := hcl r hr
      have hxC : x ∉ C := fun h => hxr (by rw [hCe]; exact ⟨h, hxS⟩)
      refine nhdsWithin_le_nhds ?_
      filter_upwards [hC.isOpen_compl.mem_nhds hxC] with y hy hyr
      rw [hCe] at hyr
      exact absurd hyr.1 hy
  have hall := eventually_forall_mem_list rs hev
  filter_upwards [hall, self_mem_nhdsWithin] with y hy hyU
  obtain ⟨r, hr, hyr, hFy⟩ := firstAccept_candidates_some rs y hyU
  obtain ⟨hxr, hd⟩ := hy r hr hyr
  rw [hFy, hFx]
  simp only [Option.getD_some]
  calc dist (r.2 y) (r0.2 x) ≤ dist (r.2 y) (r.2 x) + dist (r.2 x) (r0.2 x) := dist_triangle _ _ _
    _ ≤ δ + η := add_le_add hd.le (hη r hr r0 hr0 x hxr hx0)
    _ = η + δ := add_comm _ _

end Jump
/-! ### list plumbing: `results`, `remap`, `scatter` -/

theorem zipWith_eq_map_of_forall {α β γ : Type} (F : α → β → γ) (f : β → γ) :
    ∀ (ks : List α) (l : List β), l.length ≤ ks.length → (∀ k, ∀ r ∈ l, F k r = f r) → List.zipWith F ks l = l.map f
  | _, [], _, _ => by simp
  | [], _ :: _, h, _ => by simp at h
  | k :: ks, x :: xs, h, hF => by
    simp only [List.zipWith_cons_cons, List.map_cons, hF k x (by simp), List.cons.injEq, true_and]
    exact zipWith_eq_map_of_forall F f ks xs (by simpa using h) (fun k r hr => hF k r (List.mem_cons_of_mem _ hr))

theorem firstAccept_map {γ δ : Type} (f : γ → δ) : ∀ rs : List (Option γ),
    (firstAccept rs).map f = firstAccept (rs.map (Option.map f))
  | [] => rfl
  | some _ :: _ => rfl
  | none :: rest => by simpa [firstAccept] using firstAccept_map f rest

theorem getD_set_real (l : List ℝ) (i c : Nat) (a : ℝ) :
    (l.set i a).getD c 0 = if c = i ∧ i < l.length then a else l.getD c 0 := by
  simp only [List.getD_eq_getElem?_getD, List.getElem?_set]
  by_cases h : i = c
  · subst h
    by_cases h2 : i < l.length
    · simp [h2]
    · simp [h2]
  · have : ¬ c = i := fun e => h e.symm
    simp [h, this]

theorem getD_zeros (n c : Nat) : (zeros n : List ℝ).getD c 0 = 0 := by
  simp only [zeros, zero_real, List.getD_eq_getElem?_getD, List.getElem?_replicate]
  split <;> simp

theorem scatter_length : ∀ (is : List Nat) (vs out : List ℝ), (scatter out is vs).length = out.length
  | [], _, _ => by simp [scatter]
  | _ :: _, [], _ => by simp [scatter]
  | i :: is, v :: vs, out => by simp [scatter, scatter_length is vs]

/-- every coordinate of `out[idx] = vals` depends continuously on the values (the indices are fixed) -/
theorem continuous_scatter_getD {Z : Type} [TopologicalSpace Z] :
    ∀ (is : List Nat) (fs : List (Z → ℝ)) (out : Z → List ℝ) (m : Nat),
      (∀ z, (out z).length = m) → (∀ c, Continuous fun z => (out z).getD c 0) → (∀ f ∈ fs, Continuous f) →
      ∀ c, Continuous fun z => (scatter (out z) is (fs.map (· z))).getD c 0
  | [], _, _, _, _, ho, _ => by simpa [scatter] using ho
  | _ :: _, [], _, _, _, ho, _ => by simpa [scatter] using ho
  | i :: is, f :: fs, out, m, hm, ho, hf => by
    intro c
    simp only [List.map_cons, scatter]
    refine continuous_scatter_getD is fs (fun z => (out z).set i (f z)) m (by simp [hm]) ?_
      (fun g hg => hf g (List.mem_cons_of_mem _ hg)) c
    intro c'
    by_cases h : c' = i ∧ i < m
    · have : (fun z => ((out z).set i (f z)).getD c' 0) = f := by
        funext z; rw [getD_set_real, hm z, if_pos h]
      rw [this]; exact hf f (by simp)
    · have : (fun z => ((out z).set i (f z)).getD c' 0) = fun z => (out z).getD c' 0 := by
        funext z; rw [getD_set_real, hm z, if_neg h]
      rw [this]; exact ho c'

/-- one coordinate of a remapped triple of gains as a continuous function of the triple -/
theorem continuous_remap3 (ch : List Nat) (n c : Nat) :
    Continuous fun v : Vec3 ℝ => (scatter (zeros n) ch (vecList v)).getD c 0 := by
  have := continuous_scatter_getD (Z := Vec3 ℝ) ch [fun v => v.1, fun v => v.2.1, fun v => v.2.2]
    (fun _ => zeros n) n (by simp [zeros]) (fun c => by simp only [getD_zeros]; exact continuous_const)
    (by
      intro f hf
      simp only [List.mem_cons, List.mem_nil_iff, or_false] at hf
      rcases hf with rfl | rfl | rfl <;> fun_prop) c
  simpa [vecList] using this

/-- `out = zeros(n); out[[c0, c1, c2]] = [v0, v1, v2]` read at channel `c` -/
theorem scatter3_getD (n c0 c1 c2 c : Nat) (v0 v1 v2 : ℝ) :
    (scatter (zeros n) [c0, c1, c2] [v0, v1, v2]).getD c 0 =
      if c = c2 ∧ c2 < n then v2 else if c = c1 ∧ c1 < n then v1 else if c = c0 ∧ c0 < n then v0 else 0 := by
  simp only [scatter, getD_set_real, getD_zeros, List.length_set]
  simp [zeros]

/-! ### the triplet handler with the acceptance slack as a parameter -/

/-- `Triplet.accepts` with the threshold `ε` in place of `-1e-11` -/
def Triplet.acceptsE (ε : ℝ) (P : Mat3 ℝ) (p : Vec3 ℝ) : Prop :=
  ε ≤ (Triplet.pv P p).1 ∧ ε ≤ (Triplet.pv P p).2.1 ∧ ε ≤ (Triplet.pv P p).2.2

theorem acceptsE_eps (P : Mat3 ℝ) (p : Vec3 ℝ) : Triplet.acceptsE tripletEps P p ↔ Triplet.accepts P p := Iff.rfl

open Classical in
/-- `Triplet.handle` with the threshold `ε` in place of `-1e-11` -/
noncomputable def Triplet.handleE (ε : ℝ) (P : Mat3 ℝ) (p : Vec3 ℝ) : Option (Vec3 ℝ) :=
  if Triplet.acceptsE ε P p then some (Triplet.gains P p) else none

/-- with the code's threshold this IS the model's `Triplet.handle` -/
theorem handleE_eps (P : Mat3 ℝ) (p : Vec3 ℝ) : Triplet.handleE tripletEps P p = Triplet.handle P p := by
  unfold Triplet.handleE Triplet.handle
  by_cases h : Triplet.accepts P p
  · rw [if_pos ((acceptsE_eps P p).mpr h), if_pos h]
  · rw [if_neg (fun h' => h ((acceptsE_eps P p).mp h')), if_neg h]

/-- a panner all of whose regions are triplets `(output channels, positions)`, threshold `ε` -/
noncomputable def tripletPannerE (ε : ℝ) (regions : List (List Nat × Mat3 ℝ)) (n : Nat) (p : Vec3 ℝ) :
    Option (List ℝ) :=
  firstAccept (regions.map fun r => remap r.1 n ((Triplet.handleE ε r.2 p).map vecList))

/-- with the code's threshold this IS the model's `PointSourcePanner.handle` on the triplet regions (the quad roots
    are irrelevant) -/
theorem tripletPannerE_eps (regions : List (List Nat × Mat3 ℝ)) (n : Nat) (roots : Nat → Option ℝ × Option ℝ)
    (p : Vec3 ℝ) :
    tripletPannerE tripletEps regions n p =
      PointSourcePanner.handle (regions.map fun r => Region.triplet r.1 r.2) n roots p := by
  unfold tripletPannerE PointSourcePanner.handle PointSourcePanner.results
  rw [zipWith_eq_map_of_forall _ (fun r : Region ℝ => remap r.channels n (r.handle (none, none) p))]
  · rw [List.map_map]
    congr 1
    apply List.map_congr_left
    intro r _
    simp [Region.channels, Region.handle, handleE_eps]
  · simp
  · intro k r hr
    obtain ⟨r', _, rfl⟩ := List.mem_map.mp hr
    simp [Region.handle]

/-! ### `pv · P = p` -/

/-- for an invertible position matrix the un-normalised gains reproduce the direction: `pv · P = p` -/
theorem comb3_pv (P : Mat3 ℝ) (hd : det3 P ≠ 0) (p : Vec3 ℝ) :
    comb3 (Triplet.pv P p).1 (Triplet.pv P p).2.1 (Triplet.pv P p).2.2 P = p := by
  obtain ⟨⟨a0, a1, a2⟩, ⟨b0, b1, b2⟩, ⟨c0, c1, c2⟩⟩ := P
  obtain ⟨p0, p1, p2⟩ := p
  simp only [det3] at hd
  simp only [Triplet.pv, vecMat, inv3, det3, comb3, add3, smul3]
  generalize hdef : (a0 * (b1 * c2 - b2 * c1) - a1 * (b0 * c2 - b2 * c0) + a2 * (b0 * c1 - b1 * c0)) = d at hd ⊢
  refine Prod.ext ?_ (Prod.ext ?_ ?_) <;> simp only <;> field_simp <;> rw [← hdef] <;> ring

theorem pv_ne_zero (P : Mat3 ℝ) (hd : det3 P ≠ 0) (p : Vec3 ℝ) (hp : p ≠ (0, 0, 0)) : Triplet.pv P p ≠ (0, 0, 0) := by
  intro h
  apply hp
  have := comb3_pv P hd p
  rw [h] at this
  rw [← this]
  simp [comb3, add3, smul3]

theorem list_ext_getD {a b : List ℝ} (hl : a.length = b.length) (h : ∀ c, a.getD c 0 = b.getD c 0) : a = b := by
  apply List.ext_getElem hl
  intro i h1 h2
  have := h i
  simpa [List.getD_eq_getElem?_getD, List.getElem?_eq_getElem h1, List.getElem?_eq_getElem h2] using this

/-! ### Lipschitz estimates for normalise-and-clip -/

/-- `clip(0, 1)` is 1-Lipschitz -/
theorem clip01_lipschitz (u v : ℝ) : |clip01 u - clip01 v| ≤ |u - v| := by
  simp only [clip01, min_real, max_real, zero_real, one_real]
  calc |min (max u 0) 1 - min (max v 0) 1| ≤ max |max u 0 - max v 0| |(1 : ℝ) - 1| := abs_min_sub_min_le_max _ _ _ _
    _ = |max u 0 - max v 0| := by simp
    _ ≤ |u - v| := abs_max_sub_max_le_abs _ _ _

theorem clip01_le_abs (u : ℝ) : clip01 u ≤ |u| := by
  have := clip01_lipschitz u 0
  have h0 : clip01 (0 : ℝ) = 0 := by simp [clip01]
  rw [h0, sub_zero, sub_zero] at this
  exact le_trans (le_abs_self _) this

/-- Cauchy–Schwarz for triples, in the form used below -/
theorem dot_le_mul_norm (x0 x1 x2 y0 y1 y2 a b : ℝ) (ha : 0 ≤ a) (hb : 0 ≤ b)
    (haa : a * a = x0 * x0 + x1 * x1 + x2 * x2) (hbb : b * b = y0 * y0 + y1 * y1 + y2 * y2) :
    x0 * y0 + x1 * y1 + x2 * y2 ≤ a * b := by
  by_contra h
  rw [not_le] at h
  have hab : 0 ≤ a * b := mul_nonneg ha hb
  have : (a * b) * (a * b) < (x0 * y0 + x1 * y1 + x2 * y2) * (x0 * y0 + x1 * y1 + x2 * y2) := by nlinarith
  have e : (a * b) * (a * b) = (x0 * x0 + x1 * x1 + x2 * x2) * (y0 * y0 + y1 * y1 + y2 * y2) := by
    rw [← haa, ← hbb]; ring
  nlinarith [mul_self_nonneg (x0 * y1 - x1 * y0), mul_self_nonneg (x0 * y2 - x2 * y0), mul_self_nonneg (x1 * y2 - x2 * y1)]

/-- normalisation is Lipschitz away from 0: if two triples differ by at most `δ` in every coordinate, their
    normalised coordinates differ by at most `3δ/‖x‖`. (`a = ‖x‖`, `b = ‖y‖`.) -/
theorem normalise_lipschitz (x0 x1 x2 y0 y1 y2 a b δ : ℝ) (ha : 0 < a) (hb : 0 < b)
    (haa : a * a = x0 * x0 + x1 * x1 + x2 * x2) (hbb : b * b = y0 * y0 + y1 * y1 + y2 * y2)
    (h0 : |x0 - y0| ≤ δ) (h1 : |x1 - y1| ≤ δ) (h2 : |x2 - y2| ≤ δ) :
    |x0 / a - y0 / b| ≤ 3 * δ / a ∧ |x1 / a - y1 / b| ≤ 3 * δ / a ∧ |x2 / a - y2 / b| ≤ 3 * δ / a := by
  have hδ : 0 ≤ δ := le_trans (abs_nonneg _) h0
  have cs := dot_le_mul_norm x0 x1 x2 y0 y1 y2 a b ha.le hb.le haa hbb
  have sq : ∀ d : ℝ, |d| ≤ δ → d * d ≤ δ * δ := fun d hd => by
    rw [← abs_mul_abs_self d]; exact mul_self_le_mul_self (abs_nonneg d) hd
  have q0 := sq _ h0
  have q1 := sq _ h1
  have q2 := sq _ h2
  have hsq : (a - b) ^ 2 ≤ (2 * δ) ^ 2 := by
    have e1 : (a - b) ^ 2 = a * a + b * b - 2 * (a * b) := by ring
    have e2 : (x0 - y0) * (x0 - y0) + (x1 - y1) * (x1 - y1) + (x2 - y2) * (x2 - y2) =
        (x0 * x0 + x1 * x1 + x2 * x2) + (y0 * y0 + y1 * y1 + y2 * y2) - 2 * (x0 * y0 + x1 * y1 + x2 * y2) := by ring
    have e3 : (2 * δ) ^ 2 = 4 * (δ * δ) := by ring
    have : 0 ≤ δ * δ := mul_self_nonneg δ
    rw [e1, e3]; linarith
  have hab : |a - b| ≤ 2 * δ := abs_le_of_sq_le_sq hsq (by linarith)
  have hy : ∀ y : ℝ, y * y ≤ b * b → |y| ≤ b := fun y hy =>
    abs_le_of_sq_le_sq (by rw [pow_two, pow_two]; exact hy) hb.le
  have key : ∀ x y : ℝ, |x - y| ≤ δ → |y| ≤ b → |x / a - y / b| ≤ 3 * δ / a := by
    intro x y hxy hyb
    have e : x / a - y / b = ((x - y) * b + y * (b - a)) / (a * b) := by field_simp; ring
    rw [e, abs_div, abs_of_pos (mul_pos ha hb), div_le_div_iff₀ (mul_pos ha hb) ha]
    have t1 : |(x - y) * b| ≤ δ * b := by rw [abs_mul, abs_of_pos hb]; exact mul_le_mul_of_nonneg_right hxy hb.le
    have t2 : |y * (b - a)| ≤ b * (2 * δ) := by
      rw [abs_mul]
      have : |b - a| ≤ 2 * δ := by rw [abs_sub_comm]; exact hab
      exact mul_le_mul hyb this (abs_nonneg _) hb.le
    have t3 := abs_add_le ((x - y) * b) (y * (b - a))
    calc |(x - y) * b + y * (b - a)| * a ≤ (3 * δ * b) * a := mul_le_mul_of_nonneg_right (by linarith) ha.le
      _ = 3 * δ * (a * b) := by ring
  have n0 := mul_self_nonneg y0
  have n1 := mul_self_nonneg y1
  have n2 := mul_self_nonneg y2
  exact ⟨key x0 y0 h0 (hy y0 (by linarith)), key x1 y1 h1 (hy y1 (by linarith)), key x2 y2 h2 (hy y2 (by linarith))⟩

/-! ### two triplets sharing an edge, third loudspeakers on opposite sides -/

/-- the neighbour of `P = (u, v, w)` across the edge `u v`: `(u, v, w')` with `w' = α·u + β·v − γ·w` -/
noncomputable def oppositeTriplet (P : Mat3 ℝ) (α β γ : ℝ) : Mat3 ℝ := (P.1, P.2.1, comb3 α β (-γ) P)

theorem det3_opposite (P : Mat3 ℝ) (α β γ : ℝ) : det3 (oppositeTriplet P α β γ) = -γ * det3 P := by
  obtain ⟨⟨a0, a1, a2⟩, ⟨b0, b1, b2⟩, ⟨c0, c1, c2⟩⟩ := P
  simp only [oppositeTriplet, det3, comb3, add3, smul3]
  ring

theorem comb3_opposite (P : Mat3 ℝ) (α β γ t0 t1 t2 : ℝ) :
    comb3 t0 t1 t2 (oppositeTriplet P α β γ) = comb3 (t0 + α * t2) (t1 + β * t2) (-γ * t2) P := by
  obtain ⟨⟨a0, a1, a2⟩, ⟨b0, b1, b2⟩, ⟨c0, c1, c2⟩⟩ := P
  simp only [oppositeTriplet, comb3, add3, smul3]
  refine Prod.ext ?_ (Prod.ext ?_ ?_) <;> simp only <;> ring

/-- the un-normalised gains of `P` in terms of those of its neighbour `Q` across the shared edge:
    `s = (t₀ + α t₂, t₁ + β t₂, −γ t₂)` -/
theorem pv_opposite (P : Mat3 ℝ) (hd : det3 P ≠ 0) (α β γ : ℝ) (hγ : γ ≠ 0) (p : Vec3 ℝ) :
    let t := Triplet.pv (oppositeTriplet P α β γ) p
    Triplet.pv P p = (t.1 + α * t.2.2, t.2.1 + β * t.2.2, -γ * t.2.2) := by
  intro t
  have hdQ : det3 (oppositeTriplet P α β γ) ≠ 0 := by
    rw [det3_opposite]; exact mul_ne_zero (neg_ne_zero.mpr hγ) hd
  have hp := comb3_pv (oppositeTriplet P α β γ) hdQ p
  rw [comb3_opposite] at hp
  conv_lhs => rw [← hp]
  exact pv_comb3 P hd _ _ _

/-- on the sliver (both triplets accept with slack `e`) the coefficient of the far loudspeaker is `O(e)` -/
theorem sliver_coeff (γ e t2 : ℝ) (hγ : 0 < γ) (he : 0 ≤ e) (h1 : -e ≤ t2) (h2 : -e ≤ -γ * t2) :
    |t2| ≤ max 1 (1 / γ) * e := by
  rw [abs_le]
  constructor
  · have : e ≤ max 1 (1 / γ) * e := le_mul_of_one_le_left he (le_max_left _ _)
    linarith
  · have h3 : t2 ≤ 1 / γ * e := by
      rw [one_div, inv_mul_eq_div, le_div_iff₀ hγ]; linarith
    have : 1 / γ * e ≤ max 1 (1 / γ) * e := mul_le_mul_of_nonneg_right (le_max_right _ _) he
    linarith

/-- squared Euclidean norm of a triple -/
def nsq (v : Vec3 ℝ) : ℝ := v.1 * v.1 + v.2.1 * v.2.1 + v.2.2 * v.2.2

theorem gains_eq (P : Mat3 ℝ) (p : Vec3 ℝ) :
    Triplet.gains P p = (clip01 ((Triplet.pv P p).1 / Real.sqrt (nsq (Triplet.pv P p))),
      clip01 ((Triplet.pv P p).2.1 / Real.sqrt (nsq (Triplet.pv P p))),
      clip01 ((Triplet.pv P p).2.2 / Real.sqrt (nsq (Triplet.pv P p)))) := rfl

/-- THE SLIVER BOUND (general slack `e ≥ 0`, i.e. threshold `−e`).  `P = (u, v, w)` invertible, its neighbour
    `Q = (u, v, w')` across the edge `u v` with `w' = α·u + β·v − γ·w`, `γ > 0` (third loudspeakers on opposite sides
    of the plane of the edge).  At a direction `p` that BOTH accept, with `‖pv‖ ≥ m > 0` for both, the two answers
    differ by at most `C·e` on each of the four loudspeakers `u, v, w, w'`:
    `C = 3 · max(|α|, |β|, γ + 1) · max(1, 1/γ) / m`. -/
theorem triplet_sliver_bound_general (P : Mat3 ℝ) (hd : det3 P ≠ 0) (α β γ e m : ℝ) (hγ : 0 < γ) (he : 0 ≤ e) (hm : 0 < m)
    (p : Vec3 ℝ) (hacc : Triplet.acceptsE (-e) P p) (hacc' : Triplet.acceptsE (-e) (oppositeTriplet P α β γ) p)
    (hmP : m * m ≤ nsq (Triplet.pv P p)) (hmQ : m * m ≤ nsq (Triplet.pv (oppositeTriplet P α β γ) p)) :
    let C := 3 * (max (max |α| |β|) (γ + 1) * max 1 (1 / γ)) / m
    let gP := Triplet.gains P p
    let gQ := Triplet.gains (oppositeTriplet P α β γ) p
    |gP.1 - gQ.1| ≤ C * e ∧ |gP.2.1 - gQ.2.1| ≤ C * e ∧ gP.2.2 ≤ C * e ∧ gQ.2.2 ≤ C * e := by
  intro C gP gQ
  have hs := pv_opposite P hd α β γ hγ.ne' p
  simp only at hs
  simp only [gP, gQ, gains_eq]
  simp only [Triplet.acceptsE] at hacc hacc'
  revert hacc hacc' hmP hmQ
  rw [hs]
  generalize Triplet.pv (oppositeTriplet P α β γ) p = t
  obtain ⟨t0, t1, t2⟩ := t
  intro hacc hacc' hmP hmQ
  simp only at hacc hacc' hmP hmQ ⊢
  set s0 := t0 + α * t2 with hs0
  set s1 := t1 + β * t2 with hs1
  set s2 := -γ * t2 with hs2
  set K := max 1 (1 / γ) with hK
  set M := max (max |α| |β|) (γ + 1) with hM
  have hK1 : 1 ≤ K := le_max_left _ _
  have hM1 : 1 ≤ M := le_trans (by linarith) (le_max_right _ _)
  have hMα : |α| ≤ M := le_trans (le_max_left _ _) (le_max_left _ _)
  have hMβ : |β| ≤ M := le_trans (le_max_right _ _) (le_max_left _ _)
  have hMγ : γ + 1 ≤ M := le_max_right _ _
  have hτ : |t2| ≤ K * e := sliver_coeff γ e t2 hγ he hacc'.2.2 hacc.2.2
  have hτ0 : 0 ≤ |t2| := abs_nonneg _
  have hKe : 0 ≤ K * e := mul_nonneg (by linarith) he
  set δ := M * (K * e) with hδ
  have hδ0 : 0 ≤ δ := mul_nonneg (by linarith) hKe
  have hmul : ∀ k : ℝ, |k| ≤ M → |k * t2| ≤ δ := by
    intro k hk
    rw [abs_mul]
    exact mul_le_mul hk hτ hτ0 (by linarith)
  have d0 : |s0 - t0| ≤ δ := by
    have : s0 - t0 = α * t2 := by rw [hs0]; ring
    rw [this]; exact hmul α hMα
  have d1 : |s1 - t1| ≤ δ := by
    have : s1 - t1 = β * t2 := by rw [hs1]; ring
    rw [this]; exact hmul β hMβ
  have d2 : |s2 - t2| ≤ δ := by
    have : s2 - t2 = (-(γ + 1)) * t2 := by rw [hs2]; ring
    rw [this]; apply hmul
    rw [abs_neg, abs_of_pos (by linarith)]; exact hMγ
  -- the two norms
  have hnP : 0 ≤ nsq (s0, s1, s2) := by simp only [nsq]; nlinarith [mul_self_nonneg s0, mul_self_nonneg s1, mul_self_nonneg s2]
  have hnQ : 0 ≤ nsq (t0, t1, t2) := by simp only [nsq]; nlinarith [mul_self_nonneg t0, mul_self_nonneg t1, mul_self_nonneg t2]
  set a := Real.sqrt (nsq (s0, s1, s2)) with ha
  set b := Real.sqrt (nsq (t0, t1, t2)) with hb
  have hma : m ≤ a := Real.le_sqrt_of_sq_le (by rw [pow_two]; exact hmP)
  have hmb : m ≤ b := Real.le_sqrt_of_sq_le (by rw [pow_two]; exact hmQ)
  have hapos : 0 < a := lt_of_lt_of_le hm hma
  have hbpos : 0 < b := lt_of_lt_of_le hm hmb
  have haa : a * a = s0 * s0 + s1 * s1 + s2 * s2 := Real.mul_self_sqrt hnP
  have hbb : b * b = t0 * t0 + t1 * t1 + t2 * t2 := Real.mul_self_sqrt hnQ
  obtain ⟨l0, l1, _⟩ := normalise_lipschitz s0 s1 s2 t0 t1 t2 a b δ hapos hbpos haa hbb d0 d1 d2
  have hCe : C * e = 3 * δ / m := by simp only [C, hδ]; ring
  have h3 : 3 * δ / a ≤ C * e := by
    rw [hCe]; exact div_le_div_of_nonneg_left (by linarith) hm hma
  have hδm : δ / m ≤ C * e := by
    rw [hCe]; exact div_le_div_of_nonneg_right (by linarith) hm.le
  refine ⟨?_, ?_, ?_, ?_⟩
  · exact le_trans (clip01_lipschitz _ _) (le_trans l0 h3)
  · exact le_trans (clip01_lipschitz _ _) (le_trans l1 h3)
  · refine le_trans (clip01_le_abs _) ?_
    rw [abs_div, abs_of_pos hapos]
    have : |s2| ≤ δ := by
      rw [hs2]; apply hmul
      rw [abs_neg, abs_of_pos hγ]; linarith
    calc |s2| / a ≤ δ / a := div_le_div_of_nonneg_right this hapos.le
      _ ≤ δ / m := div_le_div_of_nonneg_left hδ0 hm hma
      _ ≤ C * e := hδm
  · refine le_trans (clip01_le_abs _) ?_
    rw [abs_div, abs_of_pos hbpos]
    have : |t2| ≤ δ := by
      have := hmul 1 (by rw [abs_one]; exact hM1)
      rwa [one_mul] at this
    calc |t2| / b ≤ δ / b := div_le_div_of_nonneg_right this hbpos.le
      _ ≤ δ / m := div_le_div_of_nonneg_left hδ0 hm hmb
      _ ≤ C * e := hδm

/-- `‖p‖² ≤ (‖u‖² + ‖v‖² + ‖w‖²) · ‖pv‖²` for an invertible triplet (Cauchy–Schwarz on `p = pv · P`) -/
theorem pv_norm_lower (P : Mat3 ℝ) (hd : det3 P ≠ 0) (p : Vec3 ℝ) :
    nsq p ≤ (nsq P.1 + nsq P.2.1 + nsq P.2.2) * nsq (Triplet.pv P p) := by
  have hp := comb3_pv P hd p
  generalize Triplet.pv P p = s at hp ⊢
  obtain ⟨s0, s1, s2⟩ := s
  obtain ⟨⟨a0, a1, a2⟩, ⟨b0, b1, b2⟩, ⟨c0, c1, c2⟩⟩ := P
  simp only [comb3, add3, smul3] at hp
  rw [← hp]
  simp only [nsq]
  nlinarith [mul_self_nonneg (s0 * b0 - s1 * a0), mul_self_nonneg (s0 * c0 - s2 * a0), mul_self_nonneg (s1 * c0 - s2 * b0),
    mul_self_nonneg (s0 * b1 - s1 * a1), mul_self_nonneg (s0 * c1 - s2 * a1), mul_self_nonneg (s1 * c1 - s2 * b1),
    mul_self_nonneg (s0 * b2 - s1 * a2), mul_self_nonneg (s0 * c2 - s2 * a2), mul_self_nonneg (s1 * c2 - s2 * b2)]

theorem handle_some_iff {P : Mat3 ℝ} {p g : Vec3 ℝ} (h : Triplet.handle P p = some g) :
    Triplet.acceptsE (-(1 / 100000000000)) P p ∧ g = Triplet.gains P p := by
  unfold Triplet.handle at h
  split at h
  · rename_i hacc
    refine ⟨?_, (Option.some.inj h).symm⟩
    have := (acceptsE_eps P p).mpr hacc
    rwa [tripletEps_real] at this
  · simp at h

/-- THE SLIVER BOUND for the code's threshold −1e-11.  Loudspeaker positions of norm about 1 (`‖u‖² + ‖v‖² + ‖w‖² ≤ 4`
    for both triplets) and a direction of norm about 1 (`‖p‖² ≥ 3/4`).  If `Triplet.handle` of BOTH neighbours
    `P = (u, v, w)` and `Q = (u, v, w')`, `w' = α·u + β·v − γ·w`, `γ > 0`, returns a result at `p`, the two results differ
    on each of the four loudspeakers by at most `C · 1e-11`, `C = 15/2 · max(|α|, |β|, γ + 1) · max(1, 1/γ)`:
    whichever of the two regions the first-accept loop picks on the overlap, the gains change by at most that. -/
theorem triplet_sliver_bound (P : Mat3 ℝ) (hd : det3 P ≠ 0) (α β γ : ℝ) (hγ : 0 < γ) (p g g' : Vec3 ℝ)
    (hrows : nsq P.1 + nsq P.2.1 + nsq P.2.2 ≤ 4)
    (hrows' : nsq P.1 + nsq P.2.1 + nsq (comb3 α β (-γ) P) ≤ 4) (hp : 3 / 4 ≤ nsq p)
    (hg : Triplet.handle P p = some g) (hg' : Triplet.handle (oppositeTriplet P α β γ) p = some g') :
    let C := 15 / 2 * (max (max |α| |β|) (γ + 1) * max 1 (1 / γ))
    |g.1 - g'.1| ≤ C * (1 / 100000000000) ∧ |g.2.1 - g'.2.1| ≤ C * (1 / 100000000000) ∧
      |g.2.2 - 0| ≤ C * (1 / 100000000000) ∧ |0 - g'.2.2| ≤ C * (1 / 100000000000) := by
  intro C
  obtain ⟨hacc, rfl⟩ := handle_some_iff hg
  obtain ⟨hacc', rfl⟩ := handle_some_iff hg'
  have hdQ : det3 (oppositeTriplet P α β γ) ≠ 0 := by
    rw [det3_opposite]; exact mul_ne_zero (neg_ne_zero.mpr hγ.ne') hd
  have lower : ∀ R : Mat3 ℝ, det3 R ≠ 0 → nsq R.1 + nsq R.2.1 + nsq R.2.2 ≤ 4 → (2 / 5 : ℝ) * (2 / 5) ≤ nsq (Triplet.pv R p) := by
    intro R hR h4
    have h1 := pv_norm_lower R hR p
    have hn : 0 ≤ nsq (Triplet.pv R p) := by
      simp only [nsq]
      nlinarith [mul_self_nonneg (Triplet.pv R p).1, mul_self_nonneg (Triplet.pv R p).2.1, mul_self_nonneg (Triplet.pv R p).2.2]
    nlinarith
  have main := triplet_sliver_bound_general P hd α β γ (1 / 100000000000) (2 / 5) hγ (by norm_num) (by norm_num) p hacc hacc'
    (lower P hd hrows) (lower _ hdQ hrows')
  simp only at main
  have hC : 3 * (max (max |α| |β|) (γ + 1) * max 1 (1 / γ)) / (2 / 5) = C := by simp only [C]; ring
  rw [hC] at main
  obtain ⟨m0, m1, m2, m3⟩ := main
  have n2 : 0 ≤ (Triplet.gains P p).2.2 := clip01_nonneg _
  have n3 : 0 ≤ (Triplet.gains (oppositeTriplet P α β γ) p).2.2 := clip01_nonneg _
  refine ⟨m0, m1, ?_, ?_⟩
  · rw [sub_zero, abs_of_nonneg n2]; exact m2
  · rw [zero_sub, abs_neg, abs_of_nonneg n3]; exact m3


end Earverif.PointSource
