/-
C06 — Item selection returns exactly the items implied by the document structure.

Model: `Earverif/Model/Adm.lean`, `Earverif/Model/SelectItems.lean` (transliteration of
`select_rendering_items`).  This file: the declarative comprehension (`specStates`,
`specItem`, `specSelect`) and the property theorems.  Helper lemmas: `Proofs/C06.lean`.
-/
import Earverif.Proofs.C06

namespace Earverif.Adm

/-! ## The specification: a comprehension over the document structure -/

/-- no ignored (non-selected complementary) object on the path. -/
def notIgnored (ign : List Nat) (p : List Nat) : Bool := !p.any (ign.contains ·)

/-- the object paths from `r` that avoid ignored objects. -/
def specPaths (a : Adm) (ign : List Nat) (r : Nat) : List (List Nat) :=
  (objectPathsFrom a r).filter (notIgnored ign)

/-- `[ (prog, content, path) | content ∈ prog.contents, root ∈ content.objects, path ∈ paths(root),
no ignored object on path ]`; all root objects when there is no programme; the single
CHNA-only state when there are neither programmes nor objects. -/
def specStates (a : Adm) (prog : Option Nat) (ign : List Nat) : List State :=
  if a.programmes = [] ∧ a.objects = [] then [⟨none, none, none⟩]
  else
    match prog with
    | some p =>
      (a.prog p).contents.flatMap fun c => (a.cont c).objects.flatMap fun r =>
        (specPaths a ign r).map fun path => ⟨some p, some c, some path⟩
    | none =>
      (rootObjects a).flatMap fun r => (specPaths a ign r).map fun path => ⟨none, none, some path⟩

/-- the item of one channel: every field is a function of the item's own state
(programme, content, object path), pack path `pp`, channel/track `ct` and the
absoluteDistance `ad` found along `pp`. -/
def specItem (a : Adm) (st : State) (ty : Nat) (pp : List Nat) (ct : Nat × Option Nat)
    (ad : Option Rat) : Item :=
  { kind := ty, tracks := [trackSpec a.fmt ct.2], channels := [ct.1],
    programme := st.programme, content := st.content, objPath := st.objPath,
    packPaths := [pp], extra := extraOf a st (some ct.1) ad,
    importances := [getImportance a st pp], blocks := (a.fmt.chan ct.1).blocks, hoa := none }

/-- `items adm = [ item(path, pack, ch) | state ∈ specStates, (pack, alloc) ∈ theAllocation(path.last), ch ∈ alloc ]`
(in `Except`: the first error in iteration order is the result, as in Python). -/
def specSelect (a : Adm) (given : Option Nat) (sel : List Nat) : Except Err (List Item) :=
  if a.fmt.packs.any (·.type == 2) then .error .unsupported
  else
    match selectComplementary a sel with
    | .error e => .error e
    | .ok ign =>
      flatMapE (fun st =>
        match selectPackMapping a st with
        | .error e => .error e
        | .ok packs => flatMapE (itemsOfPack a st) packs)
        (specStates a (selectProgramme a given) ign)

/-! ## select_eq_spec -/

theorem flatMap_onlySelected_map (ign : List Nat) (mk : List Nat → State)
    (hmk : ∀ p, (mk p).objPath = some p) (l : List (List Nat)) :
    (l.map mk).flatMap (onlySelected ign) = (l.filter (notIgnored ign)).map mk := by
  induction l with
  | nil => rfl
  | cons p ps ih =>
    have hq : notIgnored ign p = !(p.any fun x => ign.contains x) := rfl
    simp only [List.map_cons, List.flatMap_cons, ih, List.filter_cons, onlySelected, hmk]
    cases h : (p.any fun x => ign.contains x) with
    | false =>
      have hq' : notIgnored ign p = true := by rw [hq, h]; rfl
      simp [hq']
    | true =>
      have hq' : notIgnored ign p = false := by rw [hq, h]; rfl
      simp [hq']

/-- the generator pipeline `_select_programme_content_objects` + `_select_only_selected_complementary`
yields exactly the comprehension. -/
theorem selectStates_eq_spec (a : Adm) (given : Option Nat) (ign : List Nat) :
    selectStates a given ign = specStates a (selectProgramme a given) ign := by
  unfold selectStates selectPCO specStates
  by_cases h : a.programmes = [] ∧ a.objects = []
  · have : ¬ (a.programmes ≠ [] ∨ a.objects ≠ []) := by simp [h.1, h.2]
    simp [h, onlySelected]
  · have h' : a.programmes ≠ [] ∨ a.objects ≠ [] := by
      by_cases hp : a.programmes = []
      · right; intro ho; exact h ⟨hp, ho⟩
      · left; exact hp
    simp only [h', h, if_true, if_false]
    cases selectProgramme a given with
    | none =>
      simp only [selectContent, List.flatMap_cons, List.flatMap_nil, List.append_nil,
        selectObjectPaths, selectRootObjects, List.flatMap_assoc, specPaths]
      congr 1; funext r
      exact flatMap_onlySelected_map ign (fun p => ⟨none, none, some p⟩) (fun _ => rfl) _
    | some p =>
      simp only [selectContent, List.flatMap_map, selectObjectPaths, selectRootObjects,
        List.flatMap_assoc, specPaths]
      congr 1; funext c
      congr 1; funext r
      have := flatMap_onlySelected_map ign (fun q => ⟨some p, some c, some q⟩) (fun _ => rfl)
        (objectPathsFrom a r)
      rw [List.flatMap_map] at this
      exact this

/-- **select_eq_spec**: the transliterated, generator-style selection equals the comprehension
(as values of `Except`, i.e. including which documents are rejected). -/
theorem select_eq_spec (a : Adm) (given : Option Nat) (sel : List Nat) :
    selectRenderingItems a given sel = specSelect a given sel := by
  unfold selectRenderingItems specSelect
  split
  · rfl
  · cases selectComplementary a sel with
    | error e => rfl
    | ok ign =>
      simp only [selectStates_eq_spec]
      rfl

/-- the items of an Objects/DirectSpeakers channel are the declarative `specItem`. -/
theorem singleItem_spec {a : Adm} {st : State} {ty p : Nat} {ct : Nat × Option Nat} {it : Item}
    (h : singleItem a st ty p ct = .ok it) :
    ∃ pp ad, getPackFormatPath a.fmt p ct.1 = .ok pp ∧
      getPathParam (pp.map fun q => (a.fmt.pack q).absDist) = .ok ad ∧
      it = specItem a st ty pp ct ad := by
  unfold singleItem at h
  cases hpp : getPackFormatPath a.fmt p ct.1 with
  | error e => simp [hpp] at h
  | ok pp =>
    simp only [hpp, getExtraData, getSingleParam, checkPairs] at h
    cases had : getPathParam (pp.map fun q => (a.fmt.pack q).absDist) with
    | error e => simp [had] at h
    | ok ad =>
      simp only [had] at h
      exact ⟨pp, ad, rfl, had, (Except.ok.inj h).symm⟩

/-! ## items carry their own state; extra data / importance from the item's own paths -/

/-- the item was generated from state `st` (its own programme, content and object path). -/
def Item.fromState (it : Item) (st : State) : Prop :=
  it.programme = st.programme ∧ it.content = st.content ∧ it.objPath = st.objPath

/-- the state an item names. -/
def Item.state (it : Item) : State := ⟨it.programme, it.content, it.objPath⟩

theorem Item.fromState_iff (it : Item) (st : State) : it.fromState st ↔ it.state = st := by
  cases st; simp [Item.fromState, Item.state]

/-- the channel whose frequency an item carries (none for HOA items). -/
def Item.freqChannel (it : Item) : Option Nat := if it.kind = 4 then none else it.channels.head?

/-- what every item satisfies w.r.t. the state it was generated from: extra data is
`_get_extra_data` of its own (state, pack paths, channel), importances are those of its own
object path and pack paths. -/
def Item.OwnData (a : Adm) (it : Item) (st : State) : Prop :=
  it.fromState st ∧
  getExtraData a st (it.packPaths.zip it.channels) it.freqChannel = .ok it.extra ∧
  it.importances = it.packPaths.map (getImportance a st)

theorem zip_map_fst_snd {α β : Type} (l : List (α × β)) : (l.map (·.1)).zip (l.map (·.2)) = l := by
  induction l with
  | nil => rfl
  | cons x xs ih => simp [ih]

theorem singleItem_own {a : Adm} {st : State} {ty p : Nat} {ct : Nat × Option Nat} {it : Item}
    (hty : ty ≠ 4) (h : singleItem a st ty p ct = .ok it) : it.OwnData a st := by
  obtain ⟨pp, ad, _, had, rfl⟩ := singleItem_spec h
  refine ⟨⟨rfl, rfl, rfl⟩, ?_, rfl⟩
  simp [specItem, Item.freqChannel, hty, getExtraData, getSingleParam, checkPairs, had]

theorem hoaItem_own {a : Adm} {st : State} {ap : AllocPack} {it : Item}
    (h : hoaItem a st ap = .ok it) : it.OwnData a st ∧ it.kind = 4 := by
  unfold hoaItem at h
  dsimp only at h
  split at h
  · cases h
  · rename_i ppc _
    split at h
    · cases h
    · split at h
      · cases h
      · split at h
        · cases h
        · split at h
          · cases h
          · split at h
            · cases h
            · split at h
              · cases h
              · rename_i ex hex
                cases h
                refine ⟨⟨⟨rfl, rfl, rfl⟩, ?_, ?_⟩, rfl⟩
                · simp only [zip_map_fst_snd, Item.freqChannel, if_true]
                  exact hex
                · simp [List.map_map]

theorem itemsOfPack_own {a : Adm} {st : State} {ap : AllocPack} {its : List Item}
    (h : itemsOfPack a st ap = .ok its) : ∀ it ∈ its, it.OwnData a st := by
  unfold itemsOfPack at h
  dsimp only at h
  intro it hit
  split at h
  · rename_i hty
    obtain ⟨ct, _, hct⟩ := mapE_mem h hit
    refine singleItem_own ?_ hct
    rcases hty with h3 | h1 <;> omega
  · split at h
    · cases hh : hoaItem a st ap with
      | error e => simp [hh] at h
      | ok it' =>
        simp only [hh, Except.ok.injEq] at h
        subst h
        simp only [List.mem_singleton] at hit
        subst hit
        exact (hoaItem_own hh).1
    · cases h

theorem itemsOfState_own {a : Adm} {st : State} {its : List Item}
    (h : itemsOfState a st = .ok its) : ∀ it ∈ its, it.OwnData a st := by
  unfold itemsOfState at h
  split at h
  · cases h
  · intro it hit
    obtain ⟨ap, _, zs, hzs, hmem⟩ := flatMapE_mem h hit
    exact itemsOfPack_own hzs it hmem

/-- every selected item comes from one of the states of the comprehension. -/
theorem items_from_states {a : Adm} {given : Option Nat} {sel : List Nat} {items : List Item}
    (h : selectRenderingItems a given sel = .ok items) :
    ∃ ign, selectComplementary a sel = .ok ign ∧
      ∀ it ∈ items, ∃ st ∈ specStates a (selectProgramme a given) ign, it.OwnData a st := by
  unfold selectRenderingItems at h
  split at h
  · cases h
  · cases hc : selectComplementary a sel with
    | error e => simp [hc] at h
    | ok ign =>
      simp only [hc] at h
      refine ⟨ign, rfl, fun it hit => ?_⟩
      obtain ⟨st, hst, zs, hzs, hmem⟩ := flatMapE_mem h hit
      rw [selectStates_eq_spec] at hst
      exact ⟨st, hst, itemsOfState_own hzs it hmem⟩

/-! ## select_excludes_ignored -/

theorem specStates_objPath {a : Adm} {prog : Option Nat} {ign : List Nat} {st : State}
    (h : st ∈ specStates a prog ign) {p : List Nat} (hp : st.objPath = some p) :
    notIgnored ign p = true ∧ ∃ r, p ∈ objectPathsFrom a r := by
  unfold specStates at h
  split at h
  · simp only [List.mem_singleton] at h; subst h; cases hp
  · cases prog with
    | none =>
      simp only [List.mem_flatMap, List.mem_map, specPaths, List.mem_filter] at h
      obtain ⟨r, _, q, ⟨hq, hn⟩, rfl⟩ := h
      cases hp
      exact ⟨hn, r, hq⟩
    | some pr =>
      simp only [List.mem_flatMap, List.mem_map, specPaths, List.mem_filter] at h
      obtain ⟨c, _, r, _, q, ⟨hq, hn⟩, rfl⟩ := h
      cases hp
      exact ⟨hn, r, hq⟩

/-- the ignored objects are exactly the non-selected members of complementary groups. -/
theorem mem_ignored_iff {a : Adm} {sel ign : List Nat} (h : selectComplementary a sel = .ok ign) (o : Nat) :
    o ∈ ign ↔ ∃ r ∈ compRoots a, o ∈ compGroup a r ∧ o ∉ compAllSelected a sel := by
  unfold selectComplementary at h
  dsimp only at h
  split at h
  · cases h
  · split at h
    · cases h
    · cases h
      simp [List.mem_flatMap, List.mem_filter]

/-- when selection succeeds, at most one member of each complementary group is selected
(two explicitly selected members are rejected with `multipleSelected`). -/
theorem comp_at_most_one_selected {a : Adm} {sel ign : List Nat} (h : selectComplementary a sel = .ok ign) :
    ∀ r ∈ compRoots a, ((compGroup a r).filter ((compAllSelected a sel).contains ·)).length ≤ 1 := by
  unfold selectComplementary at h
  dsimp only at h
  split at h
  · cases h
  · split at h
    · cases h
    · rename_i hm
      intro r hr
      simp only [List.any_eq_true, not_exists, not_and] at hm
      have := hm r hr
      simpa using this

/-- **select_excludes_ignored**: no selected item lies on an object path through a
non-selected member of a complementary group. -/
theorem select_excludes_ignored {a : Adm} {given : Option Nat} {sel : List Nat} {items : List Item}
    (h : selectRenderingItems a given sel = .ok items) :
    ∃ ign, selectComplementary a sel = .ok ign ∧
      ∀ it ∈ items, ∀ p, it.objPath = some p → ∀ o ∈ p, o ∉ ign := by
  obtain ⟨ign, hign, hall⟩ := items_from_states h
  refine ⟨ign, hign, fun it hit p hp o ho hoi => ?_⟩
  obtain ⟨st, hst, hown, _⟩ := hall it hit
  have := (specStates_objPath hst (hown.2.2 ▸ hp)).1
  simp only [notIgnored, Bool.not_eq_true', List.any_eq_false, List.contains_iff_mem] at this
  exact this o ho (by simpa using hoi)

/-! ## select_once_per_path -/

/-- reference lists contain no duplicates (BS.2076 documents reference an element once). -/
structure NoDupRefs (a : Adm) : Prop where
  contents : ∀ p, (a.prog p).contents.Nodup
  objects : ∀ c, (a.cont c).objects.Nodup
  subs : ∀ o, (a.subs o).Nodup

/-- no loops in the audioObject nesting (`_validate_object_loops`), stated with a rank that
decreases along sub-object references. -/
def Acyclic (a : Adm) : Prop :=
  ∃ rank : Nat → Nat, (∀ o c, c ∈ a.subs o → rank c < rank o) ∧
    ∀ o, o < a.objects.length → rank o < a.objects.length

/-- with fuel = number of objects, `object_paths_from` enumerates exactly the chains of
sub-object references. -/
theorem mem_objectPathsFrom_iff {a : Adm} (hac : Acyclic a) {r : Nat} (hr : r < a.objects.length)
    (p : List Nat) : p ∈ objectPathsFrom a r ↔ Chain a.subs r p := by
  obtain ⟨rank, hdec, hbound⟩ := hac
  constructor
  · exact chain_of_mem_pathsFrom _ _ _
  · intro h
    have := h.length_le hdec
    have := hbound r hr
    exact mem_pathsFrom_of_chain h _ (by omega)

theorem objectPathsFrom_nodup {a : Adm} (hnd : NoDupRefs a) (r : Nat) : (objectPathsFrom a r).Nodup :=
  pathsFrom_nodup hnd.subs _ _

theorem objectPathsFrom_head {a : Adm} {r : Nat} {p : List Nat} (h : p ∈ objectPathsFrom a r) :
    p.head? = some r := (chain_of_mem_pathsFrom _ _ _ h).head

theorem rootObjects_nodup (a : Adm) : (rootObjects a).Nodup := nodup_filter _ List.nodup_range

theorem rootPaths_nodup {a : Adm} (hnd : NoDupRefs a) (ign : List Nat) (mk : List Nat → State)
    (hmk : ∀ x y, mk x = mk y → x = y) {l : List Nat} (hl : l.Nodup) :
    (l.flatMap fun r => (specPaths a ign r).map mk).Nodup := by
  refine nodup_flatMap_of hl (fun r _ => nodup_map_of_inj (nodup_filter _ (objectPathsFrom_nodup hnd r)) hmk) ?_
  intro r _ r' _ hne b hb hb'
  simp only [List.mem_map, specPaths, List.mem_filter] at hb hb'
  obtain ⟨q, ⟨hq, _⟩, rfl⟩ := hb
  obtain ⟨q', ⟨hq', _⟩, he⟩ := hb'
  have := hmk _ _ he
  subst this
  have h1 := objectPathsFrom_head hq
  rw [objectPathsFrom_head hq'] at h1
  exact hne (Option.some.inj h1).symm

/-- the states of the comprehension are pairwise distinct: each (content, object path) occurs once. -/
theorem specStates_nodup {a : Adm} (hnd : NoDupRefs a) (prog : Option Nat) (ign : List Nat) :
    (specStates a prog ign).Nodup := by
  unfold specStates
  split
  · simp
  · cases prog with
    | none =>
      exact rootPaths_nodup hnd ign _ (fun x y h => by simpa using h) (rootObjects_nodup a)
    | some p =>
      refine nodup_flatMap_of (hnd.contents p) (fun c _ => ?_) ?_
      · exact rootPaths_nodup hnd ign _ (fun x y h => by simpa using h) (hnd.objects c)
      · intro c _ c' _ hne b hb hb'
        simp only [List.mem_flatMap, List.mem_map] at hb hb'
        obtain ⟨_, _, _, _, rfl⟩ := hb
        obtain ⟨_, _, _, _, he⟩ := hb'
        simp only [State.mk.injEq, Option.some.injEq, true_and] at he
        exact hne he.1.symm

/-- which states there are (programme case): one per content of the programme, root object of the
content and chain of sub-objects from that root that avoids ignored objects. -/
theorem mem_specStates_iff {a : Adm} (hac : Acyclic a) (hrange : a.refsInRange = true)
    (hne : ¬ (a.programmes = [] ∧ a.objects = [])) (q : Nat) (ign : List Nat) (st : State) :
    st ∈ specStates a (some q) ign ↔
      ∃ c ∈ (a.prog q).contents, ∃ r ∈ (a.cont c).objects, ∃ path, Chain a.subs r path ∧
        notIgnored ign path = true ∧ st = ⟨some q, some c, some path⟩ := by
  have hr : ∀ c, ∀ r ∈ (a.cont c).objects, r < a.objects.length := by
    intro c r hrc
    unfold Adm.refsInRange at hrange
    simp only [Bool.and_eq_true, List.all_eq_true, decide_eq_true_eq] at hrange
    have h2 := hrange.1.1.1.1.1.2
    unfold Adm.cont at hrc
    by_cases hc : c < a.contents.length
    · have hm : a.contents.getD c default ∈ a.contents := by
        simp [List.getD_eq_getElem?_getD, List.getElem?_eq_getElem hc]
      exact h2 _ hm r hrc
    · have : a.contents.getD c default = default := by
        simp [List.getD_eq_getElem?_getD, List.getElem?_eq_none (Nat.le_of_not_lt hc)]
      rw [this] at hrc
      cases hrc
  unfold specStates
  simp only [hne, if_false, List.mem_flatMap, List.mem_map, specPaths, List.mem_filter]
  constructor
  · rintro ⟨c, hc, r, hrc, path, ⟨hp, hn⟩, rfl⟩
    exact ⟨c, hc, r, hrc, path, (mem_objectPathsFrom_iff hac (hr c r hrc) path).1 hp, hn, rfl⟩
  · rintro ⟨c, hc, r, hrc, path, hp, hn, rfl⟩
    exact ⟨c, hc, r, hrc, path, ⟨(mem_objectPathsFrom_iff hac (hr c r hrc) path).2 hp, hn⟩, rfl⟩

/-- **select_once_per_path**: the selected items that name a given (programme, content, object
path) are exactly the items of that one state, once — and nothing when the state is not in the
comprehension.  Together with `specStates_nodup` / `mem_specStates_iff`: the multiplicity of an
item is the number of distinct object paths reaching it. -/
theorem select_once_per_path {a : Adm} (hnd : NoDupRefs a) {given : Option Nat} {sel : List Nat}
    {items : List Item} (h : selectRenderingItems a given sel = .ok items) :
    ∃ ign, selectComplementary a sel = .ok ign ∧ ∀ st : State,
      items.filter (fun it => decide (it.state = st)) =
        if st ∈ specStates a (selectProgramme a given) ign then okVal (itemsOfState a) st else [] := by
  unfold selectRenderingItems at h
  split at h
  · cases h
  · cases hc : selectComplementary a sel with
    | error e => simp [hc] at h
    | ok ign =>
      simp only [hc, selectStates_eq_spec] at h
      refine ⟨ign, rfl, fun st => ?_⟩
      obtain ⟨hall, rfl⟩ := (flatMapE_ok_iff _ _ _).1 h
      refine filter_flatMap_key (specStates_nodup hnd _ ign) _ Item.state ?_ st
      intro s hs it hit
      obtain ⟨zs, hzs⟩ := hall s hs
      have hmem : it ∈ zs := by simpa [okVal, hzs] using hit
      exact (Item.fromState_iff it s).1 (itemsOfState_own hzs it hmem).1

/-! ## extra_data_from_own_path -/

/-- **extra_data_from_own_path**: the extra data of every selected item is `_get_extra_data`
evaluated on the item's *own* programme/content/object path, pack paths and channel — nothing
else of the document enters. -/
theorem extra_data_from_own_path {a : Adm} {given : Option Nat} {sel : List Nat} {items : List Item}
    (h : selectRenderingItems a given sel = .ok items) :
    ∀ it ∈ items,
      getExtraData a it.state (it.packPaths.zip it.channels) it.freqChannel = .ok it.extra := by
  obtain ⟨ign, _, hall⟩ := items_from_states h
  intro it hit
  obtain ⟨st, _, hown⟩ := hall it hit
  rw [(Item.fromState_iff it st).1 hown.1]
  exact hown.2.1

/-- **importance_from_own_path**: (object importance, pack importance) of every channel of an item
is the minimum along the item's own object path and that channel's pack path. -/
theorem importance_from_own_path {a : Adm} {given : Option Nat} {sel : List Nat} {items : List Item}
    (h : selectRenderingItems a given sel = .ok items) :
    ∀ it ∈ items, it.importances = it.packPaths.map (getImportance a it.state) := by
  obtain ⟨ign, _, hall⟩ := items_from_states h
  intro it hit
  obtain ⟨st, _, hown⟩ := hall it hit
  rw [(Item.fromState_iff it st).1 hown.1]
  exact hown.2.2

/-- `_get_extra_data` only fails or returns `extraOf` with the absoluteDistance found on the pack paths. -/
theorem getExtraData_eq {a : Adm} {st : State} {ppc : List (List Nat × Nat)} {ch : Option Nat} {e : Extra}
    (h : getExtraData a st ppc ch = .ok e) : ∃ ad, e = extraOf a st ch ad := by
  unfold getExtraData at h
  split at h
  · cases h
  · rename_i ad _
    exact ⟨ad, (Except.ok.inj h).symm⟩

/-! one lemma per field of `extraOf` (how the code combines the values along the path: the
leaf object's own values, overridden by the referenced alternativeValueSet; object parameters
of non-leaf objects are rejected by validation, so nothing is accumulated along the path). -/

theorem extraOf_objectStart (a : Adm) (st : State) (ch : Option Nat) (ad : Option Rat) :
    (extraOf a st ch ad).objectStart = (st.leaf a).bind (·.start) := by
  unfold extraOf
  dsimp only
  repeat' split
  all_goals simp_all

theorem extraOf_objectDuration (a : Adm) (st : State) (ch : Option Nat) (ad : Option Rat) :
    (extraOf a st ch ad).objectDuration = (st.leaf a).bind (·.duration) := by
  unfold extraOf
  dsimp only
  repeat' split
  all_goals simp_all

/-- reference screen: the item's own programme's, `default_screen` without a programme. -/
theorem extraOf_screen (a : Adm) (st : State) (ch : Option Nat) (ad : Option Rat) :
    (extraOf a st ch ad).screen =
      match st.programme with
      | some p => (a.prog p).screen
      | none => some 0 := by
  unfold extraOf
  dsimp only
  repeat' split
  all_goals simp_all

theorem extraOf_frequency (a : Adm) (st : State) (ch : Option Nat) (ad : Option Rat) :
    (extraOf a st ch ad).lowPass = ch.bind (fun c => (a.fmt.chan c).lowPass) ∧
    (extraOf a st ch ad).highPass = ch.bind (fun c => (a.fmt.chan c).highPass) := by
  unfold extraOf
  dsimp only
  repeat' split
  all_goals simp_all

theorem extraOf_absDist (a : Adm) (st : State) (ch : Option Nat) (ad : Option Rat) :
    (extraOf a st ch ad).absDist = ad := by
  unfold extraOf
  dsimp only
  repeat' split
  all_goals simp_all

/-- gain: the referenced alternativeValueSet's gain if it has one, else the leaf object's gain
(1 in CHNA-only mode). -/
theorem extraOf_gain (a : Adm) (st : State) (ch : Option Nat) (ad : Option Rat) :
    (extraOf a st ch ad).gain =
      match (getAvs a st).bind (·.gain), st.leaf a with
      | some g, _ => g
      | none, some o => o.gain
      | none, none => 1 := by
  unfold extraOf
  dsimp only
  repeat' split
  all_goals simp_all

theorem extraOf_mute (a : Adm) (st : State) (ch : Option Nat) (ad : Option Rat) :
    (extraOf a st ch ad).mute =
      match (getAvs a st).bind (·.mute), st.leaf a with
      | some m, _ => m
      | none, some o => o.mute
      | none, none => false := by
  unfold extraOf
  dsimp only
  repeat' split
  all_goals simp_all

theorem extraOf_posOff (a : Adm) (st : State) (ch : Option Nat) (ad : Option Rat) :
    (extraOf a st ch ad).posOff =
      match (getAvs a st).bind (·.posOff), st.leaf a with
      | some o, _ => some o
      | none, some o => o.posOff
      | none, none => none := by
  unfold extraOf
  dsimp only
  repeat' split
  all_goals simp_all

/-! ## chna_only_all_tracks, no_programme_all_roots -/

theorem flatMapE_singleton {α β : Type} (f : α → Except Err (List β)) (x : α) :
    flatMapE f [x] = f x := by
  unfold flatMapE mapE mapE
  cases f x <;> simp

theorem selectComplementary_no_objects {a : Adm} (ho : a.objects = []) :
    selectComplementary a [] = .ok [] := by
  simp [selectComplementary, compRoots, ho, compAllSelected]

/-- **chna_only_all_tracks**: without programmes and objects, selection allocates *all*
audioTrackUIDs of the document (no pack references, no silent tracks) and renders every
allocated pack; no programme/content/object is attached to the items. -/
theorem chna_only_all_tracks {a : Adm} (hp : a.programmes = []) (ho : a.objects = [])
    (hm : a.fmt.packs.any (·.type == 2) = false) (given : Option Nat) :
    selectRenderingItems a given [] =
      match allocateChna a.fmt (List.range a.fmt.trackUIDs.length) with
      | .error e => .error e
      | .ok packs => flatMapE (itemsOfPack a ⟨none, none, none⟩) packs := by
  rw [select_eq_spec]
  unfold specSelect
  simp only [hm, Bool.false_eq_true, if_false, selectComplementary_no_objects ho, specStates, hp, ho,
    and_self, if_true, flatMapE_singleton, selectPackMapping]

theorem selectProgramme_none (a : Adm) : selectProgramme a none = minById a.programmes := by
  unfold selectProgramme
  match a.programmes with
  | [] => rfl
  | [_] => rfl
  | _ :: _ :: _ => rfl

/-- **no_programme_all_roots**: without programmes (but with objects) the selected states are all
object paths from all root objects (objects that are nobody's sub-object), minus ignored ones. -/
theorem no_programme_all_roots {a : Adm} (hp : a.programmes = []) (ho : a.objects ≠ []) (ign : List Nat) :
    selectStates a none ign =
      (rootObjects a).flatMap fun r => (specPaths a ign r).map fun path => ⟨none, none, some path⟩ := by
  rw [selectStates_eq_spec, selectProgramme_none, hp]
  unfold specStates
  simp [hp, ho, minById, minByIdGo]

theorem mem_rootObjects (a : Adm) (r : Nat) :
    r ∈ rootObjects a ↔ r < a.objects.length ∧ ∀ o ∈ a.objects, r ∉ o.subObjects := by
  simp [rootObjects, List.mem_filter, List.mem_range, List.mem_flatMap]

/-! ## select_perm (declaration order of reference lists) -/

/-- the document with every child reference list of the content part emptied: what the
per-state item functions can see besides the state itself. -/
def Adm.strip (a : Adm) : Adm :=
  { programmes := a.programmes.map fun p => { p with contents := [] },
    contents := a.contents.map fun c => { c with objects := [] },
    objects := a.objects.map fun o => { o with subObjects := [], complementary := [] },
    fmt := a.fmt }

theorem getD_map_default {α β : Type} (f : α → β) (l : List α) (i : Nat) (d : α) :
    (l.map f).getD i (f d) = f (l.getD i d) := by
  simp only [List.getD_eq_getElem?_getD, List.getElem?_map]
  cases l[i]? <;> rfl

theorem strip_obj (a : Adm) (i : Nat) :
    a.strip.obj i = { a.obj i with subObjects := [], complementary := [] } := by
  unfold Adm.obj Adm.strip
  exact getD_map_default (fun o : Obj => { o with subObjects := [], complementary := [] }) a.objects i default

theorem strip_prog (a : Adm) (i : Nat) : a.strip.prog i = { a.prog i with contents := [] } := by
  unfold Adm.prog Adm.strip
  exact getD_map_default (fun p : Programme => { p with contents := [] }) a.programmes i default

theorem strip_cont (a : Adm) (i : Nat) : a.strip.cont i = { a.cont i with objects := [] } := by
  unfold Adm.cont Adm.strip
  exact getD_map_default (fun c : Content => { c with objects := [] }) a.contents i default

theorem strip_fmt (a : Adm) : a.strip.fmt = a.fmt := rfl

/-- the items of a state do not depend on any child reference list of the content part. -/
theorem itemsOfState_strip (a : Adm) (st : State) : itemsOfState a.strip st = itemsOfState a st := by
  have hleaf : ∀ st : State, st.leaf a.strip =
      (st.leaf a).map fun o => { o with subObjects := [], complementary := [] } := by
    intro st; unfold State.leaf; cases st.objPath <;> simp [strip_obj]
  have havs : ∀ st, getAvs a.strip st = getAvs a st := by
    intro st
    unfold getAvs
    rw [hleaf]
    cases st.leaf a <;> cases st.programme <;> cases st.content <;> simp [strip_prog, strip_cont]
  have hextra : ∀ st ch ad, extraOf a.strip st ch ad = extraOf a st ch ad := by
    intro st ch ad
    unfold extraOf
    rw [havs, hleaf]
    cases st.leaf a <;> cases st.programme <;> simp [strip_prog, strip_fmt]
  have hged : ∀ st ppc ch, getExtraData a.strip st ppc ch = getExtraData a st ppc ch := by
    intro st ppc ch; unfold getExtraData; simp only [strip_fmt, hextra]
  have himp : ∀ st pp, getImportance a.strip st pp = getImportance a st pp := by
    intro st pp; unfold getImportance; cases st.objPath <;> simp [strip_obj, strip_fmt]
  have hsingle : ∀ st ty p ct, singleItem a.strip st ty p ct = singleItem a st ty p ct := by
    intro st ty p ct; unfold singleItem; simp only [strip_fmt, hged, himp]
  have hhoa : ∀ st ap, hoaItem a.strip st ap = hoaItem a st ap := by
    intro st ap; unfold hoaItem; simp only [strip_fmt, hged, himp]
  have hpack : ∀ st ap, itemsOfPack a.strip st ap = itemsOfPack a st ap := by
    intro st ap; unfold itemsOfPack
    simp only [strip_fmt, hhoa,
      show ∀ ty p, singleItem a.strip st ty p = singleItem a st ty p from fun ty p => funext (hsingle st ty p)]
  have hmap : selectPackMapping a.strip st = selectPackMapping a st := by
    unfold selectPackMapping; cases st.objPath <;> simp [strip_obj, strip_fmt]
  unfold itemsOfState
  rw [hmap]
  cases selectPackMapping a st with
  | error e => rfl
  | ok packs =>
    simp only
    congr 1
    funext ap
    exact hpack st ap

theorem minByIdGo_congr : ∀ (ps qs : List Programme) (i : Nat) (b : Option (Nat × Nat)),
    ps.map (·.idKey) = qs.map (·.idKey) → minByIdGo ps i b = minByIdGo qs i b
  | [], [], _, _, _ => rfl
  | [], _ :: _, _, _, h => by simp at h
  | _ :: _, [], _, _, h => by simp at h
  | p :: ps, q :: qs, i, b, h => by
    simp only [List.map_cons, List.cons.injEq] at h
    cases b with
    | none => simp only [minByIdGo, h.1]; exact minByIdGo_congr ps qs _ _ h.2
    | some bb =>
      obtain ⟨bi, bk⟩ := bb
      simp only [minByIdGo, h.1]
      split <;> exact minByIdGo_congr ps qs _ _ h.2

/-- the chosen programme only depends on the ids, in declaration order. -/
theorem selectProgramme_congr {a a' : Adm} (h : a'.programmes.map (·.idKey) = a.programmes.map (·.idKey))
    (given : Option Nat) : selectProgramme a' given = selectProgramme a given := by
  cases given with
  | some p => rfl
  | none =>
    rw [selectProgramme_none, selectProgramme_none]
    unfold minById
    rw [minByIdGo_congr _ _ _ _ h]

theorem pathsFrom_perm {ch ch' : Nat → List Nat} (h : ∀ o, (ch' o).Perm (ch o)) :
    ∀ fuel r, (pathsFrom ch' fuel r).Perm (pathsFrom ch fuel r)
  | 0, _ => .refl _
  | fuel + 1, r => by
    simp only [pathsFrom]
    refine List.Perm.cons _ (perm_flatMap_congr (h r) fun s _ => ?_)
    exact (pathsFrom_perm h fuel s).map _

/-- `a'` is `a` with the reference lists programme→contents, content→objects and
object→sub-objects re-ordered (everything else, including complementary references, unchanged). -/
structure ChildPerm (a a' : Adm) : Prop where
  strip : a'.strip = a.strip
  contents : ∀ p, (a'.prog p).contents.Perm (a.prog p).contents
  objects : ∀ c, (a'.cont c).objects.Perm (a.cont c).objects
  subs : ∀ o, (a'.subs o).Perm (a.subs o)
  comps : ∀ o, (a'.obj o).complementary = (a.obj o).complementary

theorem ChildPerm.nobj {a a' : Adm} (h : ChildPerm a a') : a'.objects.length = a.objects.length := by
  have := congrArg (fun x => x.objects.length) h.strip
  simpa [Adm.strip] using this

theorem ChildPerm.keys {a a' : Adm} (h : ChildPerm a a') :
    a'.programmes.map (·.idKey) = a.programmes.map (·.idKey) := by
  have := congrArg (fun x => x.programmes.map (·.idKey)) h.strip
  simpa [Adm.strip, List.map_map, Function.comp_def] using this

theorem ChildPerm.nprog {a a' : Adm} (h : ChildPerm a a') : a'.programmes = [] ↔ a.programmes = [] := by
  have := congrArg List.length h.keys
  simp only [List.length_map] at this
  rw [← List.length_eq_zero_iff, ← List.length_eq_zero_iff, this]

theorem mem_nonRoot (a : Adm) (x : Nat) :
    x ∈ a.objects.flatMap (·.subObjects) ↔ ∃ o, o < a.objects.length ∧ x ∈ a.subs o := by
  simp only [List.mem_flatMap, Adm.subs, Adm.obj]
  constructor
  · rintro ⟨ob, hob, hx⟩
    obtain ⟨i, hi, rfl⟩ := List.mem_iff_getElem.1 hob
    exact ⟨i, hi, by simpa [List.getD_eq_getElem?_getD, List.getElem?_eq_getElem hi] using hx⟩
  · rintro ⟨o, ho, hx⟩
    refine ⟨a.objects[o], List.getElem_mem ho, ?_⟩
    simpa [List.getD_eq_getElem?_getD, List.getElem?_eq_getElem ho] using hx

theorem ChildPerm.rootObjects {a a' : Adm} (h : ChildPerm a a') : rootObjects a' = rootObjects a := by
  unfold Earverif.Adm.rootObjects
  simp only [h.nobj]
  apply List.filter_congr
  intro i _
  congr 1
  rw [Bool.eq_iff_iff]
  simp only [List.contains_iff_mem, mem_nonRoot, h.nobj]
  exact ⟨fun ⟨o, ho, hx⟩ => ⟨o, ho, (h.subs o).mem_iff.1 hx⟩, fun ⟨o, ho, hx⟩ => ⟨o, ho, (h.subs o).mem_iff.2 hx⟩⟩

theorem ChildPerm.specPaths {a a' : Adm} (h : ChildPerm a a') (ign : List Nat) (r : Nat) :
    (specPaths a' ign r).Perm (specPaths a ign r) := by
  unfold Earverif.Adm.specPaths objectPathsFrom
  rw [h.nobj]
  exact (pathsFrom_perm h.subs _ _).filter _

theorem ChildPerm.specStates {a a' : Adm} (h : ChildPerm a a') (prog : Option Nat) (ign : List Nat) :
    (specStates a' prog ign).Perm (specStates a prog ign) := by
  unfold Earverif.Adm.specStates
  have hno : a'.objects = [] ↔ a.objects = [] := by
    rw [← List.length_eq_zero_iff, ← List.length_eq_zero_iff, h.nobj]
  simp only [h.nprog, hno]
  split
  · exact .refl _
  · cases prog with
    | none =>
      rw [h.rootObjects]
      exact perm_flatMap_congr (.refl _) fun r _ => (h.specPaths ign r).map _
    | some p =>
      exact perm_flatMap_congr (h.contents p) fun c _ =>
        perm_flatMap_congr (h.objects c) fun r _ => (h.specPaths ign r).map _

theorem ChildPerm.selectComplementary {a a' : Adm} (h : ChildPerm a a') (sel : List Nat) :
    selectComplementary a' sel = selectComplementary a sel := by
  have hroots : compRoots a' = compRoots a := by
    unfold compRoots; simp only [h.nobj, h.comps]
  have hgroup : ∀ r, compGroup a' r = compGroup a r := by
    intro r; unfold compGroup; rw [h.comps]
  have hg : compGroup a' = compGroup a := funext hgroup
  unfold Earverif.Adm.selectComplementary compAllSelected
  simp only [hroots, hg]

/-- **select_perm_partial** (reference-list order): re-ordering the contents of programmes, the
objects of contents and the sub-objects of objects permutes the selected items (and does not
change whether selection succeeds).
PARTIAL: not covered by this theorem — re-numbering (declaration order) of the element lists
themselves (audioObjects/audioPackFormats/audioChannelFormats/audioTrackUIDs with references
remapped) and re-ordering of an object's pack/track reference lists; those are tied to the code
only by the correspondence and searched by the direct predicate. -/
theorem select_perm_partial {a a' : Adm} (h : ChildPerm a a') (given : Option Nat) (sel : List Nat)
    {items : List Item} (hs : selectRenderingItems a given sel = .ok items) :
    ∃ items', selectRenderingItems a' given sel = .ok items' ∧ items.Perm items' := by
  rw [select_eq_spec] at hs ⊢
  unfold specSelect at hs ⊢
  have hfmt : a'.fmt = a.fmt := by
    have := congrArg Adm.fmt h.strip
    exact this
  rw [hfmt, h.selectComplementary, selectProgramme_congr h.keys]
  split at hs
  · cases hs
  · rename_i hm
    simp only [hm]
    cases hc : Earverif.Adm.selectComplementary a sel with
    | error e => simp [hc] at hs
    | ok ign =>
      simp only [hc] at hs ⊢
      have hfun : (fun st => match selectPackMapping a' st with
            | .error e => .error e
            | .ok packs => flatMapE (itemsOfPack a' st) packs) = itemsOfState a := by
        funext st
        have := itemsOfState_strip a' st
        rw [h.strip, itemsOfState_strip] at this
        show itemsOfState a' st = itemsOfState a st
        exact this.symm
      rw [hfun]
      exact flatMapE_perm (itemsOfState a) (h.specStates _ ign).symm hs

/-! ## the programme chosen: lowest id, independent of declaration order -/

theorem minByIdGo_spec : ∀ (ps : List Programme) (i : Nat) (b : Option (Nat × Nat)) (ri rk : Nat),
    minByIdGo ps i b = some (ri, rk) →
      (∀ p ∈ ps, rk ≤ p.idKey) ∧ (∀ bi bk, b = some (bi, bk) → rk ≤ bk) ∧
      (b = some (ri, rk) ∨ ∃ j, j < ps.length ∧ ri = i + j ∧ (ps[j]?).map (·.idKey) = some rk)
  | [], i, b, ri, rk, h => by
    simp only [minByIdGo] at h
    subst h
    refine ⟨by simp, ?_, Or.inl rfl⟩
    intro bi bk hb; cases hb; exact Nat.le_refl _
  | p :: rest, i, none, ri, rk, h => by
    simp only [minByIdGo] at h
    obtain ⟨h1, h2, h3⟩ := minByIdGo_spec rest (i + 1) _ ri rk h
    have hp := h2 i p.idKey rfl
    refine ⟨?_, ?_, Or.inr ?_⟩
    · intro q hq
      rcases List.mem_cons.1 hq with rfl | hq
      · exact hp
      · exact h1 q hq
    · intro _ _ hb; cases hb
    · rcases h3 with h3 | ⟨j, hj, hri, hk⟩
      · cases h3; exact ⟨0, by simp, rfl, rfl⟩
      · exact ⟨j + 1, by simpa using hj, by omega, by simpa using hk⟩
  | p :: rest, i, some (bi, bk), ri, rk, h => by
    simp only [minByIdGo] at h
    split at h
    · rename_i hlt
      obtain ⟨h1, h2, h3⟩ := minByIdGo_spec rest (i + 1) _ ri rk h
      have hp := h2 i p.idKey rfl
      refine ⟨?_, ?_, Or.inr ?_⟩
      · intro q hq
        rcases List.mem_cons.1 hq with rfl | hq
        · exact hp
        · exact h1 q hq
      · intro bi' bk' hb; cases hb; omega
      · rcases h3 with h3 | ⟨j, hj, hri, hk⟩
        · cases h3; exact ⟨0, by simp, rfl, rfl⟩
        · exact ⟨j + 1, by simpa using hj, by omega, by simpa using hk⟩
    · rename_i hge
      obtain ⟨h1, h2, h3⟩ := minByIdGo_spec rest (i + 1) _ ri rk h
      have hb := h2 bi bk rfl
      refine ⟨?_, ?_, ?_⟩
      · intro q hq
        rcases List.mem_cons.1 hq with rfl | hq
        · omega
        · exact h1 q hq
      · intro bi' bk' hb'; cases hb'; exact hb
      · rcases h3 with h3 | ⟨j, hj, hri, hk⟩
        · exact Or.inl h3
        · exact Or.inr ⟨j + 1, by simpa using hj, by omega, by simpa using hk⟩

/-- **select_programme_lowest_id**: without a given programme, the chosen programme exists and
no programme has a lower id. -/
theorem select_programme_lowest_id {a : Adm} {i : Nat} (h : selectProgramme a none = some i) :
    i < a.programmes.length ∧ ∀ p ∈ a.programmes, (a.prog i).idKey ≤ p.idKey := by
  rw [selectProgramme_none] at h
  unfold minById at h
  cases hm : minByIdGo a.programmes 0 none with
  | none => simp [hm] at h
  | some r =>
    obtain ⟨ri, rk⟩ := r
    simp only [hm, Option.map_some, Option.some.injEq] at h
    subst h
    obtain ⟨h1, _, h3⟩ := minByIdGo_spec _ _ _ _ _ hm
    rcases h3 with h3 | ⟨j, hj, hri, hk⟩
    · cases h3
    · have : ri = j := by omega
      subst this
      refine ⟨hj, ?_⟩
      have hk' : (a.prog ri).idKey = rk := by
        unfold Adm.prog
        simp only [List.getD_eq_getElem?_getD, List.getElem?_eq_getElem hj, Option.getD_some]
        simpa [List.getElem?_eq_getElem hj] using hk
      rw [hk']
      exact h1

theorem eq_of_nodup_map {α β : Type} {f : α → β} : ∀ {l : List α}, (l.map f).Nodup →
    ∀ {x y}, x ∈ l → y ∈ l → f x = f y → x = y
  | [], _, _, _, hx, _, _ => by cases hx
  | a :: l, h, x, y, hx, hy, hxy => by
    simp only [List.map_cons, List.nodup_cons, List.mem_map, not_exists, not_and] at h
    rcases List.mem_cons.1 hx with hxa | hxl <;> rcases List.mem_cons.1 hy with hya | hyl
    · rw [hxa, hya]
    · rw [hxa] at hxy; exact absurd hxy.symm (h.1 y hyl)
    · rw [hya] at hxy; exact absurd hxy (h.1 x hxl)
    · exact eq_of_nodup_map h.2 hxl hyl hxy

theorem prog_mem {a : Adm} {i : Nat} (h : i < a.programmes.length) : a.prog i ∈ a.programmes := by
  unfold Adm.prog
  simp [List.getD_eq_getElem?_getD, List.getElem?_eq_getElem h]

/-- **select_programme_order_independent**: with distinct ids, re-declaring the audioProgrammes in
another order selects the same programme (the one with the lowest id, not the first declared). -/
theorem select_programme_order_independent {a a' : Adm} (hp : a'.programmes.Perm a.programmes)
    (hnd : (a.programmes.map (·.idKey)).Nodup) {i i' : Nat}
    (h : selectProgramme a none = some i) (h' : selectProgramme a' none = some i') :
    a'.prog i' = a.prog i := by
  obtain ⟨hi, hmin⟩ := select_programme_lowest_id h
  obtain ⟨hi', hmin'⟩ := select_programme_lowest_id h'
  have m1 : a.prog i ∈ a.programmes := prog_mem hi
  have m2 : a'.prog i' ∈ a.programmes := hp.mem_iff.1 (prog_mem hi')
  have k1 := hmin _ m2
  have k2 := hmin' _ (hp.mem_iff.2 m1)
  exact eq_of_nodup_map hnd m2 m1 (by omega)

/-! ## Non-vacuity: a concrete document satisfying the hypotheses -/

/-- One programme, one content `[o0, o4, o5]`; `o0 → {o1, o2}`, `o1 → o3`, `o2 → o3` (the shared
sub-object `o3` is reached by two object paths); `o3` plays a stereo DirectSpeakers pack with one
real and one *silent* track; `o4`/`o5` form a complementary group (root `o4`). -/
def exDoc : Adm :=
  let mkObj (packs : List Nat) (tracks : List (Option Nat)) (subs comps : List Nat) : Obj :=
    { packs := packs, tracks := tracks, subObjects := subs, complementary := comps, start := none,
      duration := none, gain := 1, mute := false, posOff := none, importance := none, avs := [] }
  { programmes := [⟨0x1001, [0], some 0, []⟩],
    contents := [⟨[0, 4, 5], []⟩],
    objects := [mkObj [] [] [1, 2] [], mkObj [] [] [3] [], mkObj [] [] [3] [],
                mkObj [1] [some 1, none] [] [], mkObj [0] [some 0] [] [5], mkObj [0] [some 0] [] []],
    fmt := {
      packs := [⟨3, [0], [], none, none, none, none, none⟩, ⟨1, [1, 2], [], none, none, none, none, none⟩],
      channels := [⟨3, none, none, [0], default⟩, ⟨1, none, none, [1], default⟩, ⟨1, none, none, [2], default⟩],
      streamFormats := [], trackFormats := [],
      trackUIDs := [⟨1, .channel 0, 0⟩, ⟨2, .channel 1, 1⟩] } }

/-- canonical view of an item for the examples: (object path, channel, track or silence). -/
def Item.brief (it : Item) : Option (List Nat) × List Nat × List (Option Nat) := (it.objPath, it.channels, it.tracks)

def briefs : Except Err (List Item) → Option (List (Option (List Nat) × List Nat × List (Option Nat)))
  | .ok l => some (l.map Item.brief)
  | .error _ => none

/-- the shared sub-object `o3` is rendered once per path (`[0,1,3]` and `[0,2,3]`), its second
channel from a silent track; the non-selected complementary member `o5` is excluded. -/
example : briefs (selectRenderingItems exDoc none []) =
    some [(some [0, 1, 3], [1], [some 1]), (some [0, 1, 3], [2], [none]),
          (some [0, 2, 3], [1], [some 1]), (some [0, 2, 3], [2], [none]),
          (some [4], [0], [some 0])] := by decide

/-- selecting the other member of the complementary group. -/
example : briefs (selectRenderingItems exDoc none [5]) =
    some [(some [0, 1, 3], [1], [some 1]), (some [0, 1, 3], [2], [none]),
          (some [0, 2, 3], [1], [some 1]), (some [0, 2, 3], [2], [none]),
          (some [5], [0], [some 0])] := by decide

/-- the error cases of `_select_complementary_objects` are not totalised away. -/
def errOf {α : Type} : Except Err α → Option Err
  | .ok _ => none
  | .error e => some e

example : errOf (selectRenderingItems exDoc none [4, 5]) = some .multipleSelected := by decide
example : errOf (selectRenderingItems exDoc none [3]) = some .notComplementary := by decide

example : NoDupRefs exDoc := by
  refine ⟨fun p => ?_, fun c => ?_, fun o => ?_⟩
  · match p with
    | 0 => decide
    | _ + 1 => exact List.nodup_nil
  · match c with
    | 0 => decide
    | _ + 1 => exact List.nodup_nil
  · match o with
    | 0 => decide
    | 1 => decide
    | 2 => decide
    | 3 => exact List.nodup_nil
    | 4 => exact List.nodup_nil
    | 5 => exact List.nodup_nil
    | _ + 6 => exact List.nodup_nil

example : Acyclic exDoc := by
  refine ⟨fun o => if o = 0 then 2 else if o = 1 ∨ o = 2 then 1 else 0, ?_, ?_⟩
  · intro o c hc
    match o with
    | 0 => simp [Adm.subs, Adm.obj, exDoc] at hc; rcases hc with rfl | rfl <;> decide
    | 1 => simp [Adm.subs, Adm.obj, exDoc] at hc; subst hc; decide
    | 2 => simp [Adm.subs, Adm.obj, exDoc] at hc; subst hc; decide
    | 3 => simp [Adm.subs, Adm.obj, exDoc] at hc
    | 4 => simp [Adm.subs, Adm.obj, exDoc] at hc
    | 5 => simp [Adm.subs, Adm.obj, exDoc] at hc
    | _ + 6 => simp [Adm.subs, Adm.obj, exDoc] at hc; cases hc
  · intro o ho
    have : exDoc.objects.length = 6 := rfl
    rw [this] at ho ⊢
    dsimp only
    split
    · omega
    · split <;> omega

/-- two programmes declared in the other order than their ids: the lowest id is chosen. -/
example : selectProgramme { exDoc with programmes := [⟨0x1005, [0], some 0, []⟩, ⟨0x1002, [], none, []⟩] } none
    = some 1 := by decide

/-- `exDoc` with the sub-objects of `o0` and the objects of the content re-ordered. -/
def exDoc' : Adm :=
  { exDoc with
    contents := [⟨[5, 0, 4], []⟩],
    objects := exDoc.objects.set 0 { exDoc.obj 0 with subObjects := [2, 1] } }

example : briefs (selectRenderingItems exDoc' none []) =
    some [(some [0, 2, 3], [1], [some 1]), (some [0, 2, 3], [2], [none]),
          (some [0, 1, 3], [1], [some 1]), (some [0, 1, 3], [2], [none]),
          (some [4], [0], [some 0])] := by decide

end Earverif.Adm
