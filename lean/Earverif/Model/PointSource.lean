/- Model of `ear/core/point_source.py` (point-source panner), core Lean only.

   Scalar-polymorphic: the same definitions are run over `Float` by the driver (correspondence with
   numpy) and reasoned about over `ℝ` in `Props/C05.lean`, `Props/C12.lean`.

   What is a parameter (black box in the real code, not modelled):
   * `np.linalg.inv` is modelled by the explicit adjugate/determinant inverse `inv3`
     (same value over ℝ, differs from LAPACK by rounding over Float);
   * `geom.ngon_vertex_order` (arctan2 + argsort): its result `order` is a field of `VirtualNgon` / `QuadRegion`;
   * `np.roots` + root selection in `QuadRegion.pan_axis`: the selected (clipped) roots `x`, `y` are arguments
     of `QuadRegion.handle` (`none` = "no root in range"); the polynomial itself is modelled (`panPoly`);
   * Qhull (`_convex_hull_facets`): the region list of a configured panner is data (see `Gen/C05_Tables.lean`).
   Gain vectors (numpy 1-d arrays) are `List α`; `None` results are `Option.none`. -/
namespace Earverif.PointSource

/-- Scalars the numeric kernels are written over. -/
class Scalar (α : Type) extends Add α, Sub α, Mul α, Div α, Neg α, LT α, LE α where
  ofRat : Rat → α
  sqrt : α → α
  max : α → α → α
  min : α → α → α
  /-- `0.5 ** x` -/
  powHalf : α → α
  decLt : ∀ a b : α, Decidable (a < b)
  decLe : ∀ a b : α, Decidable (a ≤ b)

instance {α} [Scalar α] (a b : α) : Decidable (a < b) := Scalar.decLt a b
instance {α} [Scalar α] (a b : α) : Decidable (a ≤ b) := Scalar.decLe a b

/-- Exact conversion for rationals whose numerator and denominator are exactly representable
    (all table entries are binary64 values: `m / 2^k`, `|m| < 2^53`). -/
def ratToFloat (q : Rat) : Float := Float.ofInt q.num / Float.ofNat q.den

instance : Scalar Float where
  ofRat := ratToFloat
  sqrt := Float.sqrt
  max a b := if a < b then b else a
  min a b := if b < a then b else a
  powHalf x := Float.pow 0.5 x
  decLt _ _ := inferInstance
  decLe _ _ := inferInstance

open Scalar

section
variable {α : Type} [Scalar α]

abbrev Vec3 (α : Type) := α × α × α
/-- Rows are loudspeaker positions (index order: speaker, axis), as `Triplet.positions`. -/
abbrev Mat3 (α : Type) := Vec3 α × Vec3 α × Vec3 α

def zero : α := ofRat 0
def one : α := ofRat 1

def dot3 (a b : Vec3 α) : α := a.1 * b.1 + a.2.1 * b.2.1 + a.2.2 * b.2.2
def cross3 (a b : Vec3 α) : Vec3 α :=
  (a.2.1 * b.2.2 - a.2.2 * b.2.1, a.2.2 * b.1 - a.1 * b.2.2, a.1 * b.2.1 - a.2.1 * b.1)
def sub3 (a b : Vec3 α) : Vec3 α := (a.1 - b.1, a.2.1 - b.2.1, a.2.2 - b.2.2)
def add3 (a b : Vec3 α) : Vec3 α := (a.1 + b.1, a.2.1 + b.2.1, a.2.2 + b.2.2)
def smul3 (k : α) (a : Vec3 α) : Vec3 α := (k * a.1, k * a.2.1, k * a.2.2)
def zero3 : Vec3 α := (zero, zero, zero)

/-- Determinant of the matrix with rows `a b c` (cofactor expansion along the first row). -/
def det3 (P : Mat3 α) : α :=
  let (a, b, c) := P
  a.1 * (b.2.1 * c.2.2 - b.2.2 * c.2.1) - a.2.1 * (b.1 * c.2.2 - b.2.2 * c.1)
    + a.2.2 * (b.1 * c.2.1 - b.2.1 * c.1)

/-- `np.linalg.inv(positions)` modelled as adjugate / determinant. Row `i`, column `j` of the result. -/
def inv3 (P : Mat3 α) : Mat3 α :=
  let (a, b, c) := P
  let d := det3 P
  (((b.2.1 * c.2.2 - b.2.2 * c.2.1) / d, (a.2.2 * c.2.1 - a.2.1 * c.2.2) / d, (a.2.1 * b.2.2 - a.2.2 * b.2.1) / d),
   ((b.2.2 * c.1 - b.1 * c.2.2) / d, (a.1 * c.2.2 - a.2.2 * c.1) / d, (a.2.2 * b.1 - a.1 * b.2.2) / d),
   ((b.1 * c.2.1 - b.2.1 * c.1) / d, (a.2.1 * c.1 - a.1 * c.2.1) / d, (a.1 * b.2.1 - a.2.1 * b.1) / d))

/-- `np.dot(position, basis)`: row vector times matrix. -/
def vecMat (p : Vec3 α) (B : Mat3 α) : Vec3 α :=
  let (r0, r1, r2) := B
  (p.1 * r0.1 + p.2.1 * r1.1 + p.2.2 * r2.1,
   p.1 * r0.2.1 + p.2.1 * r1.2.1 + p.2.2 * r2.2.1,
   p.1 * r0.2.2 + p.2.1 * r1.2.2 + p.2.2 * r2.2.2)

/-- `x.clip(0, 1)` = `minimum(maximum(x, 0), 1)`. -/
def clip01 (x : α) : α := Scalar.min (Scalar.max x zero) one

/-- `epsilon = -1e-11` in `Triplet.handle`. -/
def tripletEps : α := ofRat (-1 / 100000000000)

/-- `pv = np.dot(position, self._basis)`. -/
def Triplet.pv (P : Mat3 α) (p : Vec3 α) : Vec3 α := vecMat p (inv3 P)

/-- The acceptance test of `Triplet.handle`. -/
def Triplet.accepts (P : Mat3 α) (p : Vec3 α) : Prop :=
  let v := Triplet.pv P p
  tripletEps ≤ v.1 ∧ tripletEps ≤ v.2.1 ∧ tripletEps ≤ v.2.2

instance (P : Mat3 α) (p : Vec3 α) : Decidable (Triplet.accepts P p) := by
  unfold Triplet.accepts; exact inferInstance

/-- `pv /= np.linalg.norm(pv); pv.clip(0, 1, out=pv)`. -/
def Triplet.gains (P : Mat3 α) (p : Vec3 α) : Vec3 α :=
  let v := Triplet.pv P p
  let n := sqrt (v.1 * v.1 + v.2.1 * v.2.1 + v.2.2 * v.2.2)
  (clip01 (v.1 / n), clip01 (v.2.1 / n), clip01 (v.2.2 / n))

/-- `Triplet.handle(position)`: `none` models the implicit `return None`. -/
def Triplet.handle (P : Mat3 α) (p : Vec3 α) : Option (Vec3 α) :=
  if Triplet.accepts P p then some (Triplet.gains P p) else none

/-! ### vectors of gains -/

def zeros (n : Nat) : List α := List.replicate n zero

/-- numpy fancy assignment `out[idx] = vals` (later entries win). -/
def scatter (out : List α) : List Nat → List α → List α
  | i :: is, v :: vs => scatter (out.set i v) is vs
  | _, _ => out

def sumsq : List α → α
  | [] => zero
  | x :: xs => x * x + sumsq xs

def dot : List α → List α → α
  | x :: xs, y :: ys => x * y + dot xs ys
  | _, _ => zero

/-- `np.linalg.norm(v)`. -/
def norm (v : List α) : α := sqrt (sumsq v)

/-- `v /= np.linalg.norm(v)`. -/
def normalise (v : List α) : List α := v.map (· / norm v)

/-- `RegionHandler.handle_remap`: `out = zeros(nchannels); out[output_channels] = pv`. -/
def remap (ch : List Nat) (n : Nat) (pv : Option (List α)) : Option (List α) :=
  pv.map (scatter (zeros n) ch)

def vecList (v : Vec3 α) : List α := [v.1, v.2.1, v.2.2]

/-- The first result that is not `None` (`for region in regions: ... if pv is not None: return pv`). -/
def firstAccept {γ : Type} : List (Option γ) → Option γ
  | [] => none
  | some g :: _ => some g
  | none :: rest => firstAccept rest

/-! ### VirtualNgon -/

structure VirtualNgon (α : Type) where
  positions : List (Vec3 α)
  centre : Vec3 α
  centreDownmix : List α
  /-- result of `ngon_vertex_order(positions)` (parameter). -/
  order : List Nat

/-- `__attrs_post_init__`: the inner triplets `(tri_channels, tri_positions)`. -/
def VirtualNgon.regions (g : VirtualNgon α) : List (List Nat × Mat3 α) :=
  let n := g.positions.length
  (List.range n).map fun i =>
    let j := (i + 1) % n
    let oi := g.order.getD i 0
    let oj := g.order.getD j 0
    ([oi, oj, n], (g.positions.getD oi zero3, g.positions.getD oj zero3, g.centre))

/-- Body of the `if pv is not None` in `VirtualNgon.handle`:
    `pv[:-1] += pv[-1] * centre_downmix; pv = pv[:-1]; pv /= norm(pv)`. -/
def VirtualNgon.mix (cd : List α) (pv : List α) : List α :=
  let n := cd.length
  let last := pv.getD n zero
  normalise ((pv.take n).zipWith (fun x d => x + last * d) cd)

def VirtualNgon.handle (g : VirtualNgon α) (p : Vec3 α) : Option (List α) :=
  let n := g.centreDownmix.length
  firstAccept (g.regions.map fun r =>
    (remap r.1 (n + 1) ((Triplet.handle r.2 p).map vecList)).map (VirtualNgon.mix g.centreDownmix))

/-! ### QuadRegion -/

structure QuadRegion (α : Type) where
  positions : List (Vec3 α)
  /-- `ngon_vertex_order(positions)` (parameter). -/
  order : List Nat

/-- `np.dot(poly, position)` in `pan_axis` for ordered corners `a b c d`: coefficients
    (highest degree first) of the quadratic whose root is the pan value. -/
def QuadRegion.panPoly (a b c d : Vec3 α) (p : Vec3 α) : α × α × α :=
  (dot3 (cross3 (sub3 b a) (sub3 c d)) p,
   dot3 (add3 (cross3 a (sub3 c d)) (cross3 (sub3 b a) d)) p,
   dot3 (cross3 a d) p)

/-- Polynomials of `pan_x` (corners in `order`) and `pan_y` (rotated by one). -/
def QuadRegion.polys (q : QuadRegion α) (p : Vec3 α) : (α × α × α) × (α × α × α) :=
  let c := fun k => q.positions.getD (q.order.getD k 0) zero3
  (QuadRegion.panPoly (c 0) (c 1) (c 2) (c 3) p, QuadRegion.panPoly (c 1) (c 2) (c 3) (c 0) p)

/-- The four bilinear gains before re-ordering. -/
def QuadRegion.weights (x y : α) : List α :=
  [(one - x) * (one - y), x * (one - y), x * y, (one - x) * y]

/-- `pvs.dot(self.positions)` : Σ pvs[k] · positions[k]. -/
def comb : List α → List (Vec3 α) → Vec3 α
  | w :: ws, v :: vs => add3 (smul3 w v) (comb ws vs)
  | _, _ => zero3

/-- `QuadRegion.handle` given the selected roots `x = pan_x(position)`, `y = pan_y(position)`. -/
def QuadRegion.handle (q : QuadRegion α) (x y : Option α) (p : Vec3 α) : Option (List α) :=
  match x, y with
  | some x, some y =>
    let pvs := scatter (zeros 4) q.order (QuadRegion.weights x y)
    if dot3 (comb pvs q.positions) p ≤ zero then none else some (normalise pvs)
  | _, _ => none

/-! ### PointSourcePanner, PointSourcePannerDownmix, StereoPanDownmix -/

inductive Region (α : Type) where
  | triplet (ch : List Nat) (P : Mat3 α)
  | ngon (ch : List Nat) (g : VirtualNgon α)
  | quad (ch : List Nat) (q : QuadRegion α)

def Region.channels : Region α → List Nat
  | .triplet ch _ | .ngon ch _ | .quad ch _ => ch

/-- `region.handle(position)`; `roots` only matters for quads. -/
def Region.handle (r : Region α) (roots : Option α × Option α) (p : Vec3 α) : Option (List α) :=
  match r with
  | .triplet _ P => (Triplet.handle P p).map vecList
  | .ngon _ g => g.handle p
  | .quad _ q => q.handle roots.1 roots.2 p

/-- `PointSourcePanner.handle`: the first region whose `handle_remap` is not `None`.
    `roots k` = the roots handed to region number `k`. -/
def PointSourcePanner.results (regions : List (Region α)) (n : Nat)
    (roots : Nat → Option α × Option α) (p : Vec3 α) : List (Option (List α)) :=
  (List.range regions.length).zipWith (fun k r => remap r.channels n (r.handle (roots k) p)) regions

def PointSourcePanner.handle (regions : List (Region α)) (n : Nat)
    (roots : Nat → Option α × Option α) (p : Vec3 α) : Option (List α) :=
  firstAccept (PointSourcePanner.results regions n roots p)

/-- `np.dot(downmix, pv)` for a matrix given by rows. -/
def matVec (D : List (List α)) (v : List α) : List α := D.map (fun row => dot row v)

/-- `PointSourcePannerDownmix.handle` given the inner panner's result. -/
def PointSourcePannerDownmix.handle (D : List (List α)) (inner : Option (List α)) : Option (List α) :=
  inner.map fun pv => normalise (matVec D pv)

/-- The downmix of `StereoPanDownmix.handle` (inputs M+030 M-030 M+000 M+110 M-110). -/
def stereoDownmix : List (List α) :=
  let c := sqrt (ofRat 3) / ofRat 3
  let s := sqrt (ofRat (1 / 2))
  [[one, zero, c, s, zero], [zero, one, c, zero, s]]

/-- `StereoPanDownmix.handle` given the five gains of the inner 0+5+0 panner. The Python code has no
    `None` check (an inner `None` raises `TypeError`): modelled as `none`, as is a wrong length. -/
def StereoPanDownmix.handle (inner : Option (List α)) : Option (List α) :=
  match inner with
  | some [g0, g1, g2, g3, g4] =>
    let pv := [g0, g1, g2, g3, g4]
    let dm := normalise (matVec stereoDownmix pv)
    let front := Scalar.max (Scalar.max g0 g1) g2
    let back := Scalar.max g3 g4
    let level := powHalf (ofRat (1 / 2) * back / (front + back))
    some (dm.map (· * level))
  | _ => none

/-! ### `extra_pos_vertical_nominal` decision logic

    For one of the two layers `(layer_nominal_el, lb, ub) ∈ {(-30,-70,-10), (30,10,70)}`: which mid-layer
    channels get an extra virtual loudspeaker. Input: nominal (azimuth, elevation) of every channel. -/

def absS (x : α) : α := Scalar.max x (zero - x)

def maxList : List α → α
  | [] => zero
  | [x] => x
  | x :: xs => Scalar.max x (maxList xs)

/-- Indices of the mid-layer channels that get an extra loudspeaker in the layer `[lb, ub]`. -/
def extraChannels (nominal : List (α × α)) (lb ub : α) : List Nat :=
  let inLayer := nominal.filter fun (_, el) => lb ≤ el ∧ el ≤ ub
  let azLimit : α :=
    if inLayer.isEmpty then zero else maxList (inLayer.map fun (az, _) => absS az) + ofRat 40
  let eps : α := ofRat (1 / 100000)
  (List.range nominal.length).filter fun k =>
    match nominal[k]? with
    | some (az, el) => ofRat (-10) ≤ el ∧ el ≤ ofRat 10 ∧ azLimit - eps ≤ absS az
    | none => false

end

/-! ### raw tables (filled in by `harness/c05.py` → `Gen/C05_Tables.lean`)

    A binary64 value is written as `(m, e)` meaning `m · 2^e`. -/

abbrev F2 := Int × Int
abbrev P3 := F2 × F2 × F2

structure RawRegion where
  /-- 0 = Triplet, 1 = VirtualNgon, 2 = QuadRegion -/
  kind : Nat
  ch : List Nat
  pos : List P3
  centre : P3 := ((0, 0), (0, 0), (0, 0))
  cdm : List F2 := []
  order : List Nat := []

structure RawLayout where
  name : String
  /-- channels of the layout (rows of the downmix) -/
  nReal : Nat
  /-- channels of the inner PointSourcePanner (columns of the downmix) -/
  nInner : Nat
  regions : List RawRegion
  /-- non-zero entries (row, column, value) of the PointSourcePannerDownmix matrix -/
  downmix : List (Nat × Nat × F2)
  /-- `some (left, right)` for 0+2+0: a StereoPanDownmix around the inner (0+5+0) panner -/
  stereo : Option (Nat × Nat) := none

def f2Rat (x : F2) : Rat := if x.2 ≥ 0 then (x.1 * (2 : Int) ^ x.2.toNat : Int) else mkRat x.1 (2 ^ (-x.2).toNat)

def f2Float (x : F2) : Float := Float.scaleB (Float.ofInt x.1) x.2

/-- Conversion of a raw binary64 literal into the scalar type. -/
class OfF2 (α : Type) where
  ofF2 : F2 → α
instance : OfF2 Float := ⟨f2Float⟩

section
variable {α : Type} [Scalar α] [OfF2 α]
open OfF2

def p3 (v : P3) : Vec3 α := (ofF2 v.1, ofF2 v.2.1, ofF2 v.2.2)

def RawRegion.toRegion (r : RawRegion) : Option (Region α) :=
  match r.kind, r.pos with
  | 0, [a, b, c] => some (.triplet r.ch (p3 a, p3 b, p3 c))
  | 1, _ => some (.ngon r.ch ⟨r.pos.map p3, p3 r.centre, r.cdm.map ofF2, r.order⟩)
  | 2, _ => some (.quad r.ch ⟨r.pos.map p3, r.order⟩)
  | _, _ => none

def RawLayout.downmixRows (l : RawLayout) : List (List α) :=
  (List.range l.nReal).map fun i => (List.range l.nInner).map fun j =>
    match l.downmix.find? (fun e => e.1 == i && e.2.1 == j) with
    | some e => ofF2 e.2.2
    | none => Scalar.ofRat 0

/-- `configure(layout).handle(position)` walked over the extracted table. -/
def RawLayout.handle (l : RawLayout) (roots : Nat → Option α × Option α) (p : Vec3 α) : Option (List α) :=
  match l.regions.mapM (RawRegion.toRegion (α := α)) with
  | none => none
  | some regions =>
    let inner := PointSourcePannerDownmix.handle l.downmixRows
      (PointSourcePanner.handle regions l.nInner roots p)
    match l.stereo with
    | none => inner
    | some (left, right) => remap [left, right] 2 (StereoPanDownmix.handle inner)
end

/-! ### decidable well-formedness of a table (the table obligations of C05) -/

def allDistinct : List Nat → Bool
  | [] => true
  | x :: xs => !xs.contains x && allDistinct xs

def isPermOfRange (l : List Nat) (n : Nat) : Bool :=
  l.length == n && l.all (· < n) && allDistinct l

def RawRegion.wellFormed (n : Nat) (r : RawRegion) : Bool :=
  r.ch.all (· < n) && allDistinct r.ch && r.pos.length == r.ch.length &&
  (match r.kind with
   | 0 => r.ch.length == 3
   | 1 => r.ch.length ≥ 3 && r.cdm.length == r.ch.length && isPermOfRange r.order r.ch.length
            && r.cdm.all (fun x => x.1 > 0)
   | 2 => r.ch.length == 4 && isPermOfRange r.order 4
   | _ => false)

/-- every inner channel is a vertex of some region -/
def RawLayout.covered (l : RawLayout) : Bool :=
  (List.range l.nInner).all fun c => l.regions.any fun r => r.ch.contains c

/-- downmix: entries in range and non-negative, identity on the real channels, and every extra (virtual)
    column is mapped onto some real channel with a positive coefficient -/
def RawLayout.downmixOk (l : RawLayout) : Bool :=
  l.nReal ≤ l.nInner &&
  l.downmix.all (fun e => e.1 < l.nReal && e.2.1 < l.nInner && e.2.2.1 > 0) &&
  (List.range l.nReal).all (fun i =>
    l.downmix.any (fun e => e.1 == i && e.2.1 == i && e.2.2 == (1, 0)) &&
    l.downmix.all (fun e => e.2.1 != i || e.1 == i)) &&
  (List.range l.nInner).all (fun j => j < l.nReal || l.downmix.any (fun e => e.2.1 == j))

def RawLayout.wellFormed (l : RawLayout) : Bool :=
  l.regions.all (RawRegion.wellFormed l.nInner) && l.covered && l.downmixOk &&
  (match l.stereo with
   | none => true
   | some (a, b) => a < 2 && b < 2 && a != b && l.nReal == 5)

end Earverif.PointSource
