"""C07 — allocate_packs / select_pack_mapping vs the Lean model (same yield order), the Lean brute-force
enumerator of `Valid`, and an independent Python brute force written from the allocate_packs docstring.

Abstract problem = (packs, tracks, refs, nsilent)
  packs  : tuple of (root, ((cf, (pf, ...)), ...))     pack id = position
  tracks : tuple of (cf, pf)                            track id = position
  refs   : None or tuple of roots
Identifiers are small ints; on the real side every identifier is a distinct Python object compared by identity.
Canonical text of a solution: `packid:slot,slot;...`, slot = track id | `s`; see Driver/C07.lean.
"""
import itertools
import multiprocessing
import os
import random
from collections import Counter

from .common import Spec, Driver

# --------------------------------------------------------------------------------------
# real side


class _Obj(object):
    """stand-in for an audioPackFormat / audioChannelFormat: identity only"""

    __slots__ = ("name",)

    def __init__(self, name):
        self.name = name

    def __repr__(self):
        return self.name


def build_real(prob):
    from ear.core.select_items.pack_allocation import AllocationPack, AllocationChannel, AllocationTrack

    packs, tracks, refs, ns = prob
    pf, cf = {}, {}

    def PF(i):
        return pf.setdefault(i, _Obj("pf%d" % i))

    def CF(i):
        return cf.setdefault(i, _Obj("cf%d" % i))

    rpacks = [
        AllocationPack(root_pack=PF(r), channels=[AllocationChannel(channel_format=CF(c), pack_formats=[PF(p) for p in pfs])
                                                  for c, pfs in chans])
        for r, chans in packs
    ]
    rtracks = [AllocationTrack(channel_format=CF(c), pack_format=PF(p)) for c, p in tracks]
    rrefs = None if refs is None else [PF(r) for r in refs]
    return rpacks, rtracks, rrefs, ns


def _idx(x, xs):
    for i, y in enumerate(xs):
        if y is x:
            return i
    return None


def show_real_solution(sol, rpacks, rtracks, positional):
    """canonical text of one real solution. positional=True: entries in the order of `allocation` (an entry whose
    channel is not pack.channels[position] is printed as X<..>); False: by channel index, packs sorted."""
    from ear.core.select_items.pack_allocation import _EMPTY

    out = []
    for ap in sol:
        pi = _idx(ap.pack, rpacks)
        slots = []
        entries = list(ap.allocation)
        if not positional:
            entries = sorted(entries, key=lambda e: (_idx(e[0], ap.pack.channels) is None, _idx(e[0], ap.pack.channels) or 0))
        for pos, (ch, tr) in enumerate(entries):
            if tr is None:
                s = "s"
            elif tr is _EMPTY:
                s = "E"
            else:
                ti = _idx(tr, rtracks)
                s = "?" if ti is None else str(ti)
            if positional and (pi is None or pos >= len(ap.pack.channels) or ap.pack.channels[pos] is not ch):
                s = "X" + s
            slots.append(s)
        out.append("%s:%s" % ("?" if pi is None else pi, ",".join(slots)))
    if not positional:
        out.sort()
    return ";".join(out)


def run_real(prob, limit=20000):
    """(solutions as returned (capped), real objects)"""
    from ear.core.select_items.pack_allocation import allocate_packs

    rp, rt, rr, ns = build_real(prob)
    sols = list(itertools.islice(allocate_packs(rp, rt, rr, ns), limit))
    return sols, (rp, rt, rr, ns)


# --------------------------------------------------------------------------------------
# independent specification: written from the bullet points of the allocate_packs docstring


def docstring_violations(sol, robjs):
    """list of requirement names that the real solution `sol` fails (identity comparisons, as the docstring says)"""
    from ear.core.select_items.pack_allocation import _EMPTY

    rp, rt, rr, ns = robjs
    bad = []
    seen_tracks, silent = [], 0
    for ap in sol:
        if _idx(ap.pack, rp) is None:
            bad.append("pack-not-from-packs")
            continue
        # each channel in the AllocationPack occurs exactly once in allocation
        chans = [c for c, _t in ap.allocation]
        if len(chans) != len(ap.pack.channels) or any(sum(1 for c in chans if c is pc) != 1 for pc in ap.pack.channels):
            bad.append("channel-not-exactly-once")
        for ch, tr in ap.allocation:
            if tr is _EMPTY:
                bad.append("empty-sentinel-escaped")
            elif tr is None:
                silent += 1
            else:
                seen_tracks.append(tr)
                # track.channel_format is channel.channel_format, track.pack_format in channel.pack_formats
                if not (tr.channel_format is ch.channel_format and any(tr.pack_format is p for p in ch.pack_formats)):
                    bad.append("incompatible-track")
    # each track in tracks occurs exactly once
    if len(seen_tracks) != len(rt) or any(sum(1 for s in seen_tracks if s is t) != 1 for t in rt):
        bad.append("track-not-exactly-once")
    if silent != ns:
        bad.append("silent-count")
    if rr is not None:
        # one-to-one correspondence between pack_refs and the root packs
        if Counter(id(ap.pack.root_pack) for ap in sol) != Counter(id(r) for r in rr):
            bad.append("pack-refs-not-one-to-one")
    return bad


def py_brute(prob, cap=2500):
    """All valid solutions up to reordering of the AllocatedPacks (silent tracks indistinguishable), as a set of
    canonical texts; None if more than `cap` search nodes would be needed (such problems are skipped by the
    generators: the number of solutions explodes). Packs without channels are not used (excluded point)."""
    packs, tracks, refs, ns = prob
    N = len(tracks) + ns
    sizes = [len(ch) for _r, ch in packs]
    results = set()
    budget = [cap]

    need = None if refs is None else Counter(refs)

    def multisets(start, left, chosen):
        # multisets of packs whose channel counts add up to the number of tracks; with pack_refs only packs whose
        # root still has an unmatched reference
        if left == 0:
            if need is None or not +need:
                yield list(chosen)
            return
        for i in range(start, len(packs)):
            if 0 < sizes[i] <= left and (need is None or need[packs[i][0]] > 0):
                chosen.append(i)
                if need is not None:
                    need[packs[i][0]] -= 1
                for m in multisets(i, left - sizes[i], chosen):
                    yield m
                if need is not None:
                    need[packs[i][0]] += 1
                chosen.pop()

    for chosen in multisets(0, N, []):
        budget[0] -= 1
        if budget[0] <= 0:
            return None
        slots = [(k, ci) for k, i in enumerate(chosen) for ci in range(sizes[i])]
        assign = {}

        def place(ti):
            budget[0] -= 1
            if budget[0] <= 0:
                raise OverflowError
            if ti == len(tracks):
                per = []
                for k, i in enumerate(chosen):
                    per.append("%d:%s" % (i, ",".join(str(assign[(k, ci)]) if (k, ci) in assign else "s"
                                                      for ci in range(sizes[i]))))
                results.add(";".join(sorted(per)))
                return
            tcf, tpf = tracks[ti]
            for (k, ci) in slots:
                if (k, ci) in assign:
                    continue
                ccf, cpfs = packs[chosen[k]][1][ci]
                if ccf == tcf and tpf in cpfs:
                    assign[(k, ci)] = ti
                    place(ti + 1)
                    del assign[(k, ci)]

        try:
            place(0)
        except OverflowError:
            return None
    return results


def is_wf(prob):
    packs = prob[0]
    return all(len(ch) > 0 and len({c for c, _ in ch}) == len(ch) for _r, ch in packs)


# --------------------------------------------------------------------------------------
# encoding for the Lean driver


def encode(prob):
    packs, tracks, refs, ns = prob
    ps = ";".join("%d:%s" % (r, "/".join(",".join(str(x) for x in (c,) + tuple(pfs)) for c, pfs in ch)) for r, ch in packs) or "-"
    ts = ";".join("%d,%d" % t for t in tracks) or "-"
    rs = "N" if refs is None else (",".join(str(r) for r in refs) or "-")
    return "%s|%s|%s|%d" % (ps, ts, rs, ns)


def parse_sols(ans):
    n, _, body = ans.partition("#")
    n = int(n)
    if n == 0:
        return []
    sols = body.split("|")
    assert len(sols) == n, ans
    return sols


def canon_text(s):
    return ";".join(sorted(s.split(";"))) if s else s


# --------------------------------------------------------------------------------------
# problem generators


def pack_patterns(cfs, pfs, max_ch):
    """all WF pack patterns: root r, 1..max_ch channels with distinct channel formats (increasing and, for two
    channels, also decreasing order), each channel on the path [r] or [r, s] (s != r: nested-pack alternative)"""
    out = []
    for r in pfs:
        subs = [s for s in pfs if s != r]
        path_opts = [(r,)] + [(r, s) for s in subs]
        for k in range(1, max_ch + 1):
            for combo in itertools.combinations(cfs, k):
                orders = [combo] if k != 2 else [combo, combo[::-1]]
                for order in orders:
                    for paths in itertools.product(path_opts, repeat=k):
                        out.append((r, tuple(zip(order, paths))))
    return out


def relabel(prob, cmap, pmap):
    packs, tracks, refs, ns = prob
    return (
        tuple((pmap[r], tuple((cmap[c], tuple(pmap[p] for p in pfs)) for c, pfs in ch)) for r, ch in packs),
        tuple((cmap[c], pmap[p]) for c, p in tracks),
        None if refs is None else tuple(pmap[r] for r in refs),
        ns,
    )


def small_universe(ncf, npf, max_packs, max_ch, max_tracks, max_silent, max_refs):
    """Exhaustive stream over a bounded universe, symmetric duplicates pruned: pack lists as sorted multisets of
    patterns... (order of packs matters to the code, so ordered lists are kept), tracks as sorted multisets,
    refs as sorted multisets, and only the lexicographically least relabelling of channel-format / pack-format
    identifiers is kept."""
    cfs, pfs = list(range(ncf)), list(range(npf))
    pats = pack_patterns(cfs, pfs, max_ch)
    ttypes = [(c, p) for c in cfs for p in pfs]
    cperms = [dict(zip(cfs, p)) for p in itertools.permutations(cfs)]
    pperms = [dict(zip(pfs, p)) for p in itertools.permutations(pfs)]
    track_sets = [t for k in range(max_tracks + 1) for t in itertools.combinations_with_replacement(ttypes, k)]
    ref_sets = [None] + [r for k in range(max_refs + 1) for r in itertools.combinations_with_replacement(pfs, k)]
    for np_ in range(0, max_packs + 1):
        for plist in itertools.product(pats, repeat=np_):
            # symmetry pruning on the pack list alone first (cheap): must be least among relabellings
            key = plist
            least = True
            stab = []
            for cm in cperms:
                for pm in pperms:
                    img = tuple((pm[r], tuple((cm[c], tuple(pm[p] for p in pf)) for c, pf in ch)) for r, ch in plist)
                    if img < key:
                        least = False
                        break
                    if img == key:
                        stab.append((cm, pm))
                if not least:
                    break
            if not least:
                continue
            for tr in track_sets:
                for refs in ref_sets:
                    # among relabellings fixing the pack list keep the least (tracks, refs)
                    ok = True
                    for cm, pm in stab[1:]:
                        img_t = tuple(sorted((cm[c], pm[p]) for c, p in tr))
                        img_r = None if refs is None else tuple(sorted(pm[r] for r in refs))
                        if (img_t, (img_r is not None, img_r or ())) < (tr, (refs is not None, refs or ())):
                            ok = False
                            break
                    if not ok:
                        continue
                    for ns in range(max_silent + 1):
                        yield (plist, tr, refs, ns)


def random_small(rng, ncf=3, npf=3, max_packs=3, max_ch=3, max_tracks=4, max_silent=2):
    """uniformly sampled problem from the larger bound (<= 3 packs x <= 3 channels x <= 4 tracks x <= 2 silent)"""
    cfs, pfs = list(range(ncf)), list(range(npf))
    packs = []
    for _ in range(rng.randint(0, max_packs)):
        r = rng.choice(pfs)
        k = rng.randint(1, max_ch)
        chs = rng.sample(cfs, min(k, ncf))
        packs.append((r, tuple((c, (r,) if rng.random() < 0.5 else (r, rng.choice([s for s in pfs if s != r]))) for c in chs)))
    tracks = tuple((rng.choice(cfs), rng.choice(pfs)) for _ in range(rng.randint(0, max_tracks)))
    if rng.random() < 0.4:
        refs = None
    else:
        refs = tuple(rng.choice(pfs) for _ in range(rng.randint(0, 3)))
    return (tuple(packs), tracks, refs, rng.randint(0, max_silent))


def random_pattern(rng, ncf, npf):
    r = rng.randrange(npf)
    k = rng.randint(1, min(4, ncf))
    chs = rng.sample(range(ncf), k)
    subs = [s for s in range(npf) if s != r]
    chans = []
    for c in chs:
        u = rng.random()
        if u < 0.45 or not subs:
            path = (r,)
        elif u < 0.85 or len(subs) < 2:
            path = (r, rng.choice(subs))
        else:
            path = (r,) + tuple(rng.sample(subs, 2))
        chans.append((c, path))
    return (r, tuple(chans))


def seeded_problem(rng, max_tracks=8):
    """construct a solution, forget it: pick patterns, instantiate some of them (repeats allowed), make some channels
    silent, derive the tracks (pack reference anywhere on the channel's path), shuffle; refs = the chosen roots or
    None; then optionally perturb (extra/duplicated patterns, one track edited/dropped/added, ref edited)."""
    ncf, npf = rng.randint(1, 4), rng.randint(1, 4)
    pats = [random_pattern(rng, ncf, npf) for _ in range(rng.randint(1, 4))]
    if rng.random() < 0.3:
        # repeated root: same root, other channel set (matrix-style) or sub-pack as its own root
        r, ch = rng.choice(pats)
        pats.append((r, random_pattern(rng, ncf, npf)[1]) if rng.random() < 0.5 else random_pattern(rng, ncf, npf))
        pats[-1] = (r, tuple((c, (r,) + tuple(p for p in path[1:] if p != r)) for c, path in pats[-1][1]))
    chosen, total = [], 0
    while True:
        p = rng.choice(pats)
        if total + len(p[1]) > max_tracks + 2 or (chosen and rng.random() < 0.35):
            break
        chosen.append(p)
        total += len(p[1])
    slots = [(c, path) for _r, ch in chosen for c, path in ch]
    nsil = min(len(slots), rng.choice([0, 0, 0, 1, 1, 2, 3]))
    while len(slots) - nsil > max_tracks:
        nsil += 1
    sil = set(rng.sample(range(len(slots)), nsil))
    tracks = [(c, rng.choice(path)) for i, (c, path) in enumerate(slots) if i not in sil]
    rng.shuffle(tracks)
    refs = None if rng.random() < 0.4 else [r for r, _ in chosen]
    if refs is not None:
        rng.shuffle(refs)
    u = rng.random()
    if u < 0.15 and tracks:
        i = rng.randrange(len(tracks))
        tracks[i] = (rng.randrange(ncf), rng.randrange(npf))
    elif u < 0.22 and tracks:
        tracks.pop(rng.randrange(len(tracks)))
    elif u < 0.28 and len(tracks) < max_tracks:
        tracks.append((rng.randrange(ncf), rng.randrange(npf)))
    elif u < 0.34 and refs:
        refs[rng.randrange(len(refs))] = rng.randrange(npf)
    elif u < 0.38 and refs:
        refs.pop()
    rng.shuffle(pats)
    return (tuple(pats), tuple(tracks), None if refs is None else tuple(refs), nsil)


def separable(prob):
    """every track is compatible (same channel format, pack reference on the channel's path) with at most one channel
    of every pack, and no pack lists the same (channel format, path) twice"""
    packs, tracks = prob[0], prob[1]
    for _r, ch in packs:
        if len(ch) == 0 or len(set(ch)) != len(ch):
            return False
        for c, p in tracks:
            if sum(1 for cc, path in ch if cc == c and p in path) > 1:
                return False
    return True


def separable_dup_problem(rng):
    """OUTSIDE WF but inside the property: a root pack 0 nesting sub-packs 1 and 2 that share a channel format, so the
    AllocationPack lists that channel format twice on different nested paths; every track references its sub-pack, so
    each track fits exactly one channel (`separable`); no silent tracks. Every track order is a different problem."""
    ncf = rng.choice((2, 3, 3, 4))
    chans = []
    shared = rng.randrange(ncf)
    for sub in (1, 2):
        own = [c for c in range(ncf) if c != shared and (c % 2 == sub % 2 or rng.random() < 0.3)]
        cs = [shared] + rng.sample(own, rng.randrange(0, len(own) + 1))
        rng.shuffle(cs)
        chans += [(c, (0, sub)) for c in cs]
    if rng.random() < 0.5:
        rng.shuffle(chans)
    packs = [(0, tuple(chans))]
    tracks = [(c, path[1]) for c, path in chans]
    if rng.random() < 0.3:
        packs.append((3, ((rng.randrange(ncf), (3,)),)))
        if rng.random() < 0.6:
            tracks.append((packs[1][1][0][0], 3))
    u = rng.random()
    if u < 0.15 and len(tracks) > 1:
        tracks.pop(rng.randrange(len(tracks)))
    elif u < 0.3:
        tracks = tracks + tracks[:]          # two instances of the root pack
    rng.shuffle(tracks)
    refs = None if rng.random() < 0.5 else tuple([0] * (2 if u >= 0.15 and u < 0.3 else 1) + ([3] if len(packs) > 1 and len(tracks) > len(chans) and not (0.15 <= u < 0.3) else []))
    return (tuple(packs), tuple(tracks), refs, 0)


def separable_directed():
    """the smallest instances, every track order"""
    out = []
    for chans in ([(0, (0, 1)), (1, (0, 1)), (1, (0, 2)), (2, (0, 2))],
                  [(1, (0, 1)), (1, (0, 2))],
                  [(1, (0, 2)), (0, (0, 1)), (1, (0, 1))]):
        base = [(c, path[1]) for c, path in chans]
        for perm in itertools.permutations(base):
            for refs in (None, (0,)):
                out.append((((0, tuple(chans)),), tuple(perm), refs, 0))
    return out


def excluded_problem(rng):
    """problems outside WF: a pack listing a channel format twice, or a pack without channels"""
    prob = seeded_problem(rng, max_tracks=5)
    packs = list(prob[0])
    i = rng.randrange(len(packs))
    r, ch = packs[i]
    if rng.random() < 0.7:
        ch = ch + (rng.choice(ch),)
        tracks = prob[1] + ((ch[-1][0], rng.choice(ch[-1][1])),) if rng.random() < 0.7 else prob[1]
        packs[i] = (r, ch)
        return (tuple(packs), tracks, prob[2], prob[3]), "dup-channel"
    packs.insert(i, (r, ()))
    return (tuple(packs), prob[1], prob[2], prob[3]), "empty-pack"


# --------------------------------------------------------------------------------------
# select_pack_mapping level (real ADM objects)


def build_adm(desc):
    """desc = (npacks, pack_children {i: [j..]}, pack_channels {i: [c..]}, ncf, tracks [(cf, pack) | None], refs
    [pack..] or None (None = CHNA-only mode))"""
    from ear.fileio.adm.adm import ADM
    from ear.fileio.adm.elements import AudioPackFormat, AudioChannelFormat, AudioTrackUID, AudioObject, TypeDefinition

    npacks, children, pchans, ncf, tracks, refs = desc
    adm = ADM()
    cfs = [AudioChannelFormat(id="AC_0001%04x" % (0x1000 + i), audioChannelFormatName="c%d" % i,
                              type=TypeDefinition.DirectSpeakers) for i in range(ncf)]
    for c in cfs:
        adm.addAudioChannelFormat(c)
    pks = [None] * npacks
    for i in reversed(range(npacks)):  # children have larger indices
        pks[i] = AudioPackFormat(id="AP_0001%04x" % (0x1000 + i), audioPackFormatName="p%d" % i,
                                 type=TypeDefinition.DirectSpeakers,
                                 audioChannelFormats=[cfs[c] for c in pchans[i]],
                                 audioPackFormats=[pks[j] for j in children[i]])
    for p in pks:
        adm.addAudioPackFormat(p)
    tuids = []
    for k, t in enumerate(tracks):
        if t is None:
            tuids.append(None)
        else:
            tu = AudioTrackUID(id="ATU_%08x" % (k + 1), trackIndex=k + 1, audioChannelFormat=cfs[t[0]], audioPackFormat=pks[t[1]])
            adm.addAudioTrackUID(tu)
            tuids.append(tu)
    obj = None
    if refs is not None:
        obj = AudioObject(id="AO_1001", audioObjectName="o", audioPackFormats=[pks[r] for r in refs], audioTrackUIDs=tuids)
        adm.addAudioObject(obj)
    return adm, cfs, pks, tuids, obj


def random_adm_desc(rng):
    npacks = rng.randint(1, 3)
    ncf = rng.randint(1, 3)
    children = {i: [j for j in range(i + 1, npacks) if rng.random() < 0.5] for i in range(npacks)}
    pchans = {i: rng.sample(range(ncf), rng.randint(0 if children[i] else 1, ncf)) for i in range(npacks)}
    chna = rng.random() < 0.25
    ntr = rng.randint(0, 4)
    tracks = [(rng.randrange(ncf), rng.randrange(npacks)) for _ in range(ntr)]
    if rng.random() < 0.6:
        # seed from a real pattern: all channels of one pack, track refs along the path
        root = rng.randrange(npacks)
        tracks = []

        def walk(i, path):
            for c in pchans[i]:
                tracks.append((c, rng.choice(path + [i])))
            for j in children[i]:
                walk(j, path + [i])

        walk(root, [])
        refs = [root]
        if rng.random() < 0.35:
            # a second referenced pack (possibly a sub-pack of the first: nested alternative)
            root2 = rng.randrange(npacks)
            walk(root2, [])
            refs.append(root2)
        rng.shuffle(tracks)
        tracks = tracks[:6]
        if rng.random() < 0.2 and tracks:
            tracks[rng.randrange(len(tracks))] = (rng.randrange(ncf), rng.randrange(npacks))
    else:
        refs = [rng.randrange(npacks) for _ in range(rng.randint(0, 2))]
    if chna:
        refs = None
    else:
        for _ in range(rng.choice([0, 0, 0, 1, 2])):
            if tracks and rng.random() < 0.7:
                tracks[rng.randrange(len(tracks))] = None
            else:
                tracks.append(None)
    return (npacks, children, pchans, ncf, tracks, refs)


def select_case(desc):
    """run the real select_pack_mapping; return (abstract problem extracted from the real allocator, outcome text)"""
    from ear.core.select_items.select_items import _PackAllocator, _ItemSelectionState
    from ear.fileio.adm.exceptions import AdmFormatRefError
    from ear.core.metadata_input import DirectTrackSpec, SilentTrackSpec

    adm, cfs, pks, tuids, obj = build_adm(desc)
    pa = _PackAllocator(adm)
    real_tracks = [t for t in tuids if t is not None]
    prob = (
        tuple((_idx(p.root_pack, pks), tuple((_idx(c.channel_format, cfs), tuple(_idx(x, pks) for x in c.pack_formats))
                                            for c in p.channels)) for p in pa.packs),
        tuple((_idx(t.audioChannelFormat, cfs), _idx(t.audioPackFormat, pks)) for t in real_tracks),
        None if obj is None else tuple(_idx(p, pks) for p in obj.audioPackFormats),
        len(tuids) - len(real_tracks),
    )
    state = _ItemSelectionState(adm=adm, audioObjects=None if obj is None else [obj])
    try:
        states = list(pa.select_pack_mapping(state))
    except AdmFormatRefError as e:
        msg = str(e)
        out = "Conflicting" if msg.startswith("Conflicting") else "Ambiguous" if msg.startswith("Ambiguous") else "other:" + msg[:60]
        return prob, out
    # accepted: per yielded state (root pack, [(channel format, track index or silent)])
    idx_of_track = {t.trackIndex - 1: k for k, t in enumerate(real_tracks)}
    parts = []
    for s in states:
        slots = []
        for cf_, spec in s.channel_allocation:
            if isinstance(spec, SilentTrackSpec):
                slots.append("s")
            elif isinstance(spec, DirectTrackSpec):
                slots.append(str(idx_of_track[spec.track_index]))
            else:
                slots.append("?")
        parts.append("%d[%s]:%s" % (_idx(s.audioPackFormat, pks), ",".join(str(_idx(c, cfs)) for c, _ in s.channel_allocation),
                                    ",".join(slots)))
    return prob, "accepted " + ";".join(parts)


def model_select_text(prob, ans):
    """rewrite the driver's `accepted packid:slots;...` into the `root[cfs]:slots` form of select_case"""
    if not ans.startswith("accepted"):
        return ans
    body = ans[len("accepted "):]
    parts = []
    for ap in (body.split(";") if body else []):
        pid, _, slots = ap.partition(":")
        r, ch = prob[0][int(pid)]
        parts.append("%d[%s]:%s" % (r, ",".join(str(c) for c, _ in ch), slots))
    return "accepted " + ";".join(parts)


# --------------------------------------------------------------------------------------
# the checks on one batch of problems (runs in worker processes in the thorough tier)


def shape_keys(prob, nsol):
    packs, tracks, refs, ns = prob
    nested = any(len(pfs) > 1 for _r, ch in packs for _c, pfs in ch)
    roots = [r for r, _ in packs]
    sols = "0" if nsol == 0 else "1" if nsol == 1 else "2+"
    return [
        "packs=%d" % len(packs), "tracks=%d" % len(tracks), "silent=%d" % ns,
        "max-channels-per-pack=%d" % max([len(ch) for _r, ch in packs] or [0]),
        "solutions=%s" % (nsol if nsol < 5 else "5+"),
        "shape: sols=%s refs=%s silent=%s nested-alternatives=%d repeated-root=%d" % (
            sols, "none" if refs is None else "given", "0" if ns == 0 else "1+", int(nested),
            int(len(set(roots)) < len(roots))),
    ]


def predicate(prob, sols, robjs, brute):
    """The property on the real output alone. Returns list of (what, detail, tags)."""
    hits = []
    rp, rt, _rr, _ns = robjs
    for k, s in enumerate(sols):
        bad = docstring_violations(s, robjs)
        if bad:
            hits.append(("unsound: returned allocation breaks a docstring requirement",
                         {"solution_index": k, "solution": show_real_solution(s, rp, rt, True), "broken": bad}, ["c07-unsound"]))
            break
    if not is_wf(prob):
        return hits
    canon = [show_real_solution(s, rp, rt, False) for s in sols]
    dup = [c for c, n in Counter(canon).items() if n > 1]
    if dup:
        hits.append(("duplicate: the same assignment is reported more than once", {"solution": dup[0], "times": Counter(canon)[dup[0]],
                                                                                "n_returned": len(canon)}, ["c07-duplicate"]))
    if brute is not None:
        missing = sorted(brute - set(canon))
        if missing:
            hits.append(("incomplete: a permitted assignment is not returned", {"missing": missing[0], "n_missing": len(missing),
                                                                              "returned": canon[:6]}, ["c07-incomplete"]))
    return hits


def run_batch(args):
    """args = (problems, with_lean, lean_dir_unused). Returns dict(counts, disagreements, hits, samples, n)."""
    probs, with_lean = args
    counts, dis, hits, cases = Counter(), [], [], []
    brutes = [py_brute(p) for p in probs]
    counts["skipped: solution count explodes (brute-force budget)"] += sum(1 for b in brutes if b is None)
    probs = [p for p, b in zip(probs, brutes) if b is not None]
    brutes = [b for b in brutes if b is not None]
    lean_alloc = lean_brute = None
    if with_lean:
        drv = Driver("c07driver", "Earverif.Driver.C07")
        lines = ["alloc|" + encode(p) for p in probs] + ["brute|" + encode(p) for p in probs if is_wf(p)]
        outs = drv.run(lines)
        lean_alloc = outs[: len(probs)]
        it = iter(outs[len(probs):])
        lean_brute = [next(it) if is_wf(p) else None for p in probs]
    for k, prob in enumerate(probs):
        try:
            sols, robjs = run_real(prob)
            err = None
        except Exception as e:  # an exception escaping allocate_packs is observable behaviour
            sols, robjs, err = [], build_real(prob), "%s: %s" % (type(e).__name__, e)
        rp, rt = robjs[0], robjs[1]
        wf = is_wf(prob)
        brute = brutes[k] if wf else None
        real_pos = [show_real_solution(s, rp, rt, True) for s in sols]
        for key in shape_keys(prob, len(sols)):
            counts[key] += 1
        counts["wf" if wf else "not-wf(excluded point)"] += 1
        ok = True
        if err is not None:
            hits.append(("allocate_packs raised", prob, {"error": err}, ["c07-exception"]))
        if with_lean:
            m = parse_sols(lean_alloc[k])
            if m != real_pos:
                ok = False
                dis.append(("allocate_packs vs Earverif.PackAlloc.allocatePacks (yield order)", prob, m[:8], real_pos[:8]))
            if wf:
                mb = parse_sols(lean_brute[k])
                rc = sorted(canon_text(s) for s in real_pos)
                if mb != rc:
                    ok = False
                    dis.append(("allocate_packs vs Lean brute-force enumerator of Valid (as multisets up to ≈)", prob, mb[:8], rc[:8]))
                if brute is not None and sorted(brute) != mb:
                    ok = False
                    dis.append(("Lean brute-force enumerator vs Python brute force (spec cross-check)", prob, mb[:8], sorted(brute)[:8]))
        for what, detail, tags in predicate(prob, sols, robjs, brute):
            hits.append((what, prob, detail, tags))
        cases.append((prob, len(sols), ok))
    return {"counts": counts, "dis": dis, "hits": hits, "cases": cases}


def prob_json(prob):
    packs, tracks, refs, ns = prob
    return {"packs": [{"root_pack": r, "channels": [{"channel_format": c, "pack_formats": list(pfs)} for c, pfs in ch]} for r, ch in packs],
            "tracks": [{"channel_format": c, "pack_format": p} for c, p in tracks],
            "pack_refs": None if refs is None else list(refs), "num_silent_tracks": ns, "driver_line": encode(prob)}


class C07(Spec):
    pid = "C07"
    lean_targets = ("Earverif.Props.C07", "c07driver")
    props_module = "Earverif.Props.C07"
    theorems = tuple("Earverif.PackAlloc." + t for t in (
        "alloc_sound", "alloc_complete", "alloc_incomplete_without_WF",
        "allocImpl_fuel_sufficient", "allocImpl_cons_eq",
        "select_accepted_valid", "select_conflicting_iff", "select_ambiguous_iff",
        "select_conflicting_iff_none_valid", "select_accepted_unique", "accept_iff_unique_partial",
        "alloc_nodup", "alloc_dup_same_pack_twice", "alloc_dup_same_track_twice",
        "select_ambiguous_iff_two_valid", "select_accepted_iff_unique_valid", "accept_iff_unique",
    ))
    trusted_base = (
        "model Earverif/Model/PackAlloc.lean is a hand transliteration of pack_allocation.allocate_packs, "
        "_allocate_packs_impl, _allocate_packs_impl_obvious, _is_compatible and of the two-solution probe in "
        "_PackAllocator.select_pack_mapping; Python object identity is modelled as equality of Nat identifiers",
        "the Lean predicate Valid is a hand rendering of the docstring bullet points; it is cross-checked on every run "
        "against an independent Python brute force written from the same docstring",
    )
    assumptions = (
        "completeness / no-duplicates are compared only on well-formed problems: every AllocationPack has at least one "
        "channel and the channel formats within one pack are distinct (distinctness follows from "
        "_validate_pack_channel_multitree: C06 allocWF0_of_multitree / C14 allocProblem_wf; '>= 1 channel' is not "
        "validated, such packs are never allocated: selectPackMapping_dropEmpty); the real "
        "code is also run at the excluded points and what happens is recorded in the distribution (not a failure)",
        "all AllocationPack / AllocationTrack objects in the input lists are distinct objects (WF.packs_nodup, "
        "WF.tracks_nodup: hypotheses of alloc_nodup; the real code is run with a repeated object and the duplicates it "
        "then reports are recorded)",
    )
    rule = (
        "allocation problems (pack patterns with nested-pack alternatives and repeated roots, tracks, pack refs or None, "
        "silent count): exhaustive over a small universe (2 channel formats x 2 pack formats, <=2 packs, <=2 channels, "
        "<=3 tracks, <=2 silent, refs None or any multiset of <=2 roots; symmetric relabellings pruned), uniform "
        "samples from the larger bound (<=3 packs x <=3 channels x <=4 tracks x <=2 silent), solution-seeded random "
        "problems up to 8 tracks, excluded-point probes, and ADM-level select_pack_mapping cases; a case is one problem; "
        "non-trivial = at least one pack and one track or silent track; distinct by the canonical problem text"
    )

    # ---- plumbing
    def _absorb(self, ctx, res, stream):
        for key, n in res["counts"].items():
            ctx.count(key, n)
        ctx.count("stream:" + stream, len(res["cases"]))
        for prob, nsol, ok in res["cases"]:
            nontriv = bool(prob[0]) and (bool(prob[1]) or prob[3] > 0)
            ctx.case(encode(prob), nontriv, sample={"problem": encode(prob), "solutions": nsol} if nontriv and nsol else None)
            if ok:
                ctx.validated()
        for what, prob, m, r in res["dis"]:
            ctx.disagree(what, prob_json(prob), m, r)
        for what, prob, detail, tags in res["hits"]:
            ctx.hit(what, prob_json(prob), detail, tags)

    def _run(self, ctx, probs, stream, with_lean=True, chunk=2000):
        import time
        t0 = time.time()
        try:
            return self._run1(ctx, probs, stream, with_lean, chunk)
        finally:
            ctx.notes.append("stream %s: %d problems in %.1fs" % (stream, len(probs), time.time() - t0))

    def _run1(self, ctx, probs, stream, with_lean, chunk):
        chunks = [probs[i:i + chunk] for i in range(0, len(probs), chunk)]
        if ctx.quick or len(chunks) < 2:
            for c in chunks:
                self._absorb(ctx, run_batch((c, with_lean)), stream)
        else:
            with multiprocessing.get_context("fork").Pool(min(16, os.cpu_count() or 1)) as pool:
                for res in pool.imap_unordered(run_batch, [(c, with_lean) for c in chunks]):
                    self._absorb(ctx, res, stream)

    # ---- correspondence
    def correspond(self, ctx):
        rng = ctx.rng
        if ctx.quick:
            exh = list(small_universe(2, 2, 2, 2, 2, 2, 2))
        else:
            exh = list(small_universe(2, 2, 2, 2, 3, 2, 2))
        self._run(ctx, exh, "exhaustive-small-universe")
        n_small = 4000 if ctx.quick else 80000
        self._run(ctx, [random_small(rng) for _ in range(n_small)], "uniform-larger-bound")
        n_seed = 3000 if ctx.quick else 60000
        self._run(ctx, [seeded_problem(rng) for _ in range(n_seed)], "solution-seeded")
        n_exc = 500 if ctx.quick else 5000
        exc = [excluded_problem(rng) for _ in range(n_exc)]
        for _p, kind in exc:
            ctx.count("excluded-kind:" + kind)
        self._run(ctx, [p for p, _ in exc], "excluded-points")
        self._excluded_record(ctx, [p for p, _ in exc])
        self._excluded_identity(ctx)
        self._valid_crosscheck(ctx, [p for p, _ in exc][:300] + [seeded_problem(rng) for _ in range(300)])
        self._select(ctx, 1500 if ctx.quick else 12000)

    def _excluded_identity(self, ctx):
        """excluded points of alloc_nodup (WF.packs_nodup / WF.tracks_nodup): the same AllocationPack object or the
        same AllocationTrack object listed twice. The real code is run there and what it does is recorded (never a
        failure); the Lean theorems alloc_dup_same_pack_twice / alloc_dup_same_track_twice show the same for the model."""
        from ear.core.select_items.pack_allocation import allocate_packs

        def canon(sols, rp, rt):
            return [show_real_solution(s, rp, rt, False) for s in sols]

        # the two fixed instances of the theorems
        rp, rt, _rr, _ns = build_real((((10, ((1, (10,)),)),), (), None, 1))
        c = canon(list(allocate_packs([rp[0], rp[0]], [], None, 1)), rp, rt)
        ctx.count("excluded: same pack object twice, 1 silent -> %d solutions, %d distinct" % (len(c), len(set(c))))
        rp, rt, _rr, _ns = build_real((((10, ((1, (10,)),)), (10, ((1, (10,)),))), ((1, 10),), None, 0))
        c = canon(list(allocate_packs(rp, [rt[0], rt[0]], None, 0)), rp, rt)
        ctx.count("excluded: same track object twice, two 1-channel packs -> %d solutions, %d distinct" % (len(c), len(set(c))))
        # random: duplicate one pack object / one track object of a solvable problem
        n = dup_p = dup_t = 0
        for _ in range(150 if ctx.quick else 3000):
            prob = seeded_problem(ctx.rng, max_tracks=5)
            if py_brute(prob) is None or not is_wf(prob):
                continue
            rp, rt, rr, ns = build_real(prob)
            n += 1
            i = ctx.rng.randrange(len(rp))
            c = canon(list(itertools.islice(allocate_packs(rp + [rp[i]], rt, rr, ns), 5000)), rp, rt)
            dup_p += len(set(c)) < len(c)
            if rt:
                j = ctx.rng.randrange(len(rt))
                c = canon(list(itertools.islice(allocate_packs(rp, rt + [rt[j]], rr, ns), 5000)), rp, rt)
                dup_t += len(set(c)) < len(c)
        ctx.count("excluded: pack object repeated (random): runs", n)
        ctx.count("excluded: pack object repeated (random): duplicates reported", dup_p)
        ctx.count("excluded: track object repeated (random): duplicates reported", dup_t)

    def _valid_crosscheck(self, ctx, probs):
        """Lean `decide (Valid prob sol)` on every model solution and Lean `decide (WF prob)` vs the harness's own
        docstring check / is_wf (ties the Lean predicates to the Python ones)"""
        probs = [p for p in probs if py_brute(p) is not None]
        outs = Driver("c07driver", "Earverif.Driver.C07").run(["valid|" + encode(p) for p in probs])
        for prob, ans in zip(probs, outs):
            sols, robjs = run_real(prob)
            want = "".join("0" if docstring_violations(s, robjs) else "1" for s in sols) + (" wf=1" if is_wf(prob) else " wf=0")
            ctx.count("valid/WF predicate cross-check")
            if ans != want:
                ctx.disagree("Lean Valid/WF vs Python docstring check/is_wf", prob_json(prob), ans, want)
            else:
                ctx.validated()

    def _excluded_record(self, ctx, probs):
        """what the real code does outside WF, recorded (never a failure): compare with the docstring brute force"""
        for prob in probs:
            if is_wf(prob):
                continue
            brute = py_brute(prob)
            if brute is None:
                continue
            sols, robjs = run_real(prob, limit=2000)
            canon = [show_real_solution(s, robjs[0], robjs[1], False) for s in sols]
            if set(canon) == brute and len(set(canon)) == len(canon):
                ctx.count("excluded: real output = docstring solutions")
            elif brute - set(canon):
                k = "excluded: real output misses docstring solutions"
                if len(set(canon)) == 1 and len(brute) >= 2:
                    k += " (ambiguity reported as unique)"
                ctx.count(k)
            else:
                ctx.count("excluded: real output repeats solutions")

    def _separable(self, ctx, probs):
        """duplicate channel formats on different nested paths, tracks that fit one channel each: outside the theorems'
        WF but inside the property's quantifier; decided by the independent docstring brute force"""
        for prob in probs:
            if is_wf(prob) or not separable(prob):
                ctx.count("separable-dup: skipped (WF or not separable)")
                continue
            brute = py_brute(prob)
            if brute is None:
                continue
            sols, robjs = run_real(prob, limit=2000)
            canon = [show_real_solution(s, robjs[0], robjs[1], False) for s in sols]
            ctx.case(("separable-dup", encode(prob)), True)
            ctx.count("separable-dup: %d permitted" % min(len(brute), 3))
            for k, sol in enumerate(sols):
                bad = docstring_violations(sol, robjs)
                if bad:
                    ctx.hit("unsound: returned allocation breaks a docstring requirement", prob_json(prob),
                            {"solution_index": k, "broken": bad}, ["c07-unsound"])
                    break
            missing = sorted(brute - set(canon))
            if missing:
                ctx.hit("incomplete: a permitted assignment is not returned (duplicate channel format on different nested paths)",
                        prob_json(prob), {"missing": missing[0], "n_missing": len(missing), "returned": canon[:6]},
                        ["c07-incomplete"])
            elif len(set(canon)) != len(canon):
                ctx.hit("duplicate: the same assignment is reported more than once", prob_json(prob),
                        {"returned": canon[:6]}, ["c07-duplicate"])
            elif set(canon) - brute:
                ctx.hit("unsound: an assignment that is not permitted is returned", prob_json(prob),
                        {"extra": sorted(set(canon) - brute)[0]}, ["c07-unsound"])
            else:
                ctx.count("separable-dup: real output = docstring solutions")

    def _select(self, ctx, n):
        import time
        t0 = time.time()
        try:
            return self._select1(ctx, n)
        finally:
            ctx.notes.append("select_pack_mapping cases: %d in %.1fs" % (n, time.time() - t0))

    def _select1(self, ctx, n):
        drv = Driver("c07driver", "Earverif.Driver.C07")
        descs = [random_adm_desc(ctx.rng) for _ in range(n)]
        real = [select_case(d) for d in descs]
        outs = drv.run(["select|" + encode(p) for p, _o in real])
        brutes = {}
        for (prob, out), ans in zip(real, outs):
            m = model_select_text(prob, ans)
            ctx.count("select:" + out.split(" ")[0] + (":chna" if prob[2] is None else ""))
            ctx.case(("select", encode(prob)), True)
            if m != out:
                ctx.disagree("select_pack_mapping vs Earverif.PackAlloc.selectPackMapping", prob_json(prob), m, out)
            else:
                ctx.validated()
            # property at this level: accepted iff exactly one permitted assignment, Conflicting iff none
            if is_wf(prob):
                b = py_brute(prob)
                if b is not None:
                    want = "Conflicting" if len(b) == 0 else "accepted" if len(b) == 1 else "Ambiguous"
                    if out.split(" ")[0] != want:
                        ctx.hit("select_pack_mapping outcome differs from the number of permitted assignments",
                                prob_json(prob), {"outcome": out, "permitted": sorted(b)[:4], "n_permitted": len(b)},
                                ["c07-select-outcome"])

    # ---- direct predicate search (real code + Python brute force only)
    def search(self, ctx, deep):
        rng = random.Random("C07-search/%s/%d" % (ctx.tier, ctx.seed))
        n = 2000 if not deep else (12000 if ctx.quick else 80000)
        probs = [seeded_problem(rng) if i % 3 else random_small(rng) for i in range(n)]
        self._run(ctx, probs, "search", with_lean=False)
        self._separable(ctx, separable_directed() + [separable_dup_problem(rng) for _ in range(1500 if not deep else 6000)])


SPEC = C07()

REGISTRY = dict(
    text="FULL: Lean theorems about the model of allocate_packs / select_pack_mapping (Earverif.PackAlloc), for every "
    "allocation problem: alloc_sound - every yielded allocation satisfies every bullet point of the docstring (no "
    "hypothesis); alloc_complete - every allocation satisfying the docstring is yielded up to the order of the "
    "AllocatedPacks (the pruning tests, the 'obvious' step and the silent-track rules lose nothing); alloc_nodup - no "
    "two yielded allocations are equivalent (the branches are disjoint; silent-track canonicalisation keeps one "
    "representative); accept_iff_unique - select_pack_mapping accepts exactly when one equivalence class of permitted "
    "allocations exists, says Conflicting exactly when none and Ambiguous exactly when at least two inequivalent ones; "
    "allocImpl_fuel_sufficient - the recursion bound of the model is enough (termination). Hypothesis WF of "
    "complete/nodup/accept_iff_unique: every AllocationPack has >= 1 channel with pairwise distinct channel formats "
    "(needed for completeness), AllocationPack objects and AllocationTrack objects are distinct (needed for nodup); "
    "each excluded point is shown to be necessary by a theorem (alloc_incomplete_without_WF, "
    "alloc_dup_same_pack_twice, alloc_dup_same_track_twice) and the real code is run there and recorded. The model is "
    "tied to the code on every run: same solutions in the same yield order as list(allocate_packs(...)), the real "
    "output equals (as a multiset) a Lean brute-force enumerator of Valid and an independent Python brute force "
    "written from the docstring, and the ADM-level accepted/Conflicting/Ambiguous outcome of select_pack_mapping "
    "equals the model's (exhaustive small universe + uniform + solution-seeded problems up to 8 tracks).",
    note="Trusted: Lean kernel, hand transliteration + correspondence harness, rendering of the docstring as Valid "
    "(cross-checked against the Python brute force). Quantifier limits (WF): packs with >= 1 channel and distinct "
    "channel formats per pack, distinct pack/track objects. Where WF comes from for the problems item selection "
    "builds is derived in C06 (Earverif.Adm.allocWF_of_multitree / allocWF0_of_multitree, Props/C06.lean): distinct "
    "channel formats per AllocationPack from the success condition of _validate_pack_channel_multitree "
    "(multitreeOK, compared with the real validation on every C06 run; C14 proves the same from its model of the "
    "dfs: Validate.allocProblem_wf), distinct pack/track objects by construction in _PackAllocator; '>= 1 channel' is "
    "NOT guaranteed by validate_structure (an audioPackFormat without channels passes it) - allocate_packs never "
    "allocates such a pack (PackAlloc.selectPackMapping_dropEmpty), so C06/C14 apply the theorems to the problem "
    "without them and uniqueness is among allocations that use no channel-less pack; "
    "at the excluded points the real code reports an ambiguity as unique / reports duplicates (recorded, not alarmed). "
    "Outside WF but inside the property's quantifier, the 'separable duplicate' family (a channel format listed twice in "
    "one pack on different nested paths, every track fitting exactly one channel, every track order) is searched on "
    "every run and decided by the independent docstring brute force (not by a theorem). "
    "'Each channel exactly once' is read as 'in pack.channels order', which is what the code returns.",
    technique="Lean 4 invariant proofs over the recursive search (soundness: accounting invariant; completeness: "
    "target-following invariant; no-duplicates: in-place extension + disjoint branches) + differential "
    "correspondence with allocate_packs / select_pack_mapping + brute-force spec enumerators",
    design_ref="DESIGN.md section 4, C07",
)
