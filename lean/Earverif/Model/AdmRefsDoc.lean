/-
The `ADM` that `MainElementHandler.parse_adm_elements` leaves for a parsed document, before
`lazy_lookup_references`: every main element as constructed from the keyword arguments of its parser
(`Model/XmlElements.lean`: an object seen through the constructor-argument names), added with `addAudio…` after the
common definitions that were loaded first.  The `…IDRef` arguments are the pending references; nothing is resolved yet.
Core Lean only.

Identities (`oid`) are chosen by the model: element number `pos` of class number `c` gets `2 * (8 * pos + c)`,
alternativeValueSet number `j` of the audioObject at `pos` gets `2 * (65536 * pos + j) + 1`.
-/
import Earverif.Model.AdmRefs
import Earverif.Model.XmlElements

namespace Earverif.AdmRefsDoc
open Earverif.XmlCodec Earverif.XmlBlocks Earverif.XmlElements Earverif.AdmRefs

/-- a `RefType` / `TrackUIDRefType` value as parsed: the id string, `None` for the silent track -/
def refOfXV : XV → Option String
  | .leaf (.str s) => some s
  | _ => none

/-- the value of an `…IDRef` argument: a `RefList` argument is a list of ids; a `RefElement` argument is one id or
`None` -/
def pendOfVal : Val XV → Pend String
  | .many vs => some (vs.map refOfXV)
  | .one (.leaf (.str s)) => some [some s]
  | .one _ => none

/-- the constructor argument that holds the pending references of each reference attribute -/
def idrefArg : Cls → String → Option String
  | .programme, "audioContents" => some "audioContentIDRef"
  | .programme, "alternativeValueSets" => some "alternativeValueSetIDRef"
  | .content, "audioObjects" => some "audioObjectIDRef"
  | .content, "alternativeValueSets" => some "alternativeValueSetIDRef"
  | .object, "audioPackFormats" => some "audioPackFormatIDRef"
  | .object, "audioTrackUIDs" => some "audioTrackUIDRef"
  | .object, "audioObjects" => some "audioObjectIDRef"
  | .object, "audioComplementaryObjects" => some "audioComplementaryObjectIDRef"
  | .pack, "audioChannelFormats" => some "audioChannelFormatIDRef"
  | .pack, "audioPackFormats" => some "audioPackFormatIDRef"
  | .pack, "decodePackFormats" => some "decodePackFormatIDRef"
  | .pack, "encodePackFormats" => some "encodePackFormatIDRef"
  | .pack, "inputPackFormat" => some "inputPackFormatIDRef"
  | .pack, "outputPackFormat" => some "outputPackFormatIDRef"
  | .stream, "audioChannelFormat" => some "audioChannelFormatIDRef"
  | .stream, "audioPackFormat" => some "audioPackFormatIDRef"
  | .stream, "audioTrackFormats" => some "audioTrackFormatIDRef"
  | .track, "audioStreamFormat" => some "audioStreamFormatIDRef"
  | .trackUID, "audioTrackFormat" => some "audioTrackFormatIDRef"
  | .trackUID, "audioChannelFormat" => some "audioChannelFormatIDRef"
  | .trackUID, "audioPackFormat" => some "audioPackFormatIDRef"
  | _, _ => none

/-- the references of one parsed audioBlockFormat -/
def blockRefs : XV → BlockRefs String
  | .block (.matrix b) =>
    { output := some (b.outputChannelFormat.map fun s => [some s], []),
      inputs := b.matrix.map fun c => (some [some c.inputChannelFormat], []) }
  | _ => { output := none, inputs := [] }

def clsNum : Cls → Nat
  | .programme => 0 | .content => 1 | .object => 2 | .pack => 3 | .channel => 4 | .stream => 5 | .track => 6
  | .trackUID => 7

/-- the element constructed from the parsed arguments `o`, number `pos` of its class -/
def elemOfObj (c : Cls) (pos : Nat) (o : Obj XV) : Elem String :=
  { oid := 2 * (8 * pos + clsNum c)
    cls := c
    id := match o "id" with
      | .one (.leaf (.str s)) => some s
      | _ => none
    common := false
    fields := if c = .channel then
        channelFields (match o "audioBlockFormats" with
          | .many vs => vs.map blockRefs
          | .one _ => [])
      else fieldsOf c fun nm => (idrefArg c nm).map fun a => (pendOfVal (o a), [])
    streamLink := none
    encodePacks := []
    avs := if c = .object then
        (match o "alternativeValueSets" with
          | .many vs => vs.zipIdx.map fun (v, j) =>
              (2 * (65536 * pos + j) + 1, match v with | .avs a => some a.id | _ => none)
          | .one _ => [])
      else [] }

/-- `addAudio…` of the elements of one class after the common definitions of that class -/
def addAll (c : Cls) (common : List (Elem String)) (objs : List (Obj XV)) : List (Elem String) :=
  common ++ objs.zipIdx.map fun (o, i) => elemOfObj c (common.length + i) o

/-- the document after `load_common_definitions` (the already resolved `cd`) and `parse_adm_elements` -/
def admOfObjs (cd : ADM String) (ps cs os pks chs ss ts us : List (Obj XV)) : ADM String :=
  ⟨addAll .programme cd.programmes ps, addAll .content cd.contents cs, addAll .object cd.objects os,
    addAll .pack cd.packFormats pks, addAll .channel cd.channelFormats chs, addAll .stream cd.streamFormats ss,
    addAll .track cd.trackFormats ts, addAll .trackUID cd.trackUIDs us⟩

/-- … for the elements of a document of the XML model -/
def admOfDoc (cd : ADM String) (d : Document) : ADM String :=
  admOfObjs cd (d.programmes.map (·.toObj)) (d.contents.map (·.toObj)) (d.objects.map (·.toObj))
    (d.packFormats.map (·.toObj)) (d.channelFormats.map (·.toObj)) (d.streamFormats.map (·.toObj))
    (d.trackFormats.map (·.toObj)) (d.trackUIDs.map (·.toObj))

end Earverif.AdmRefsDoc
