/- C12 — "regions meet only in shared faces": certificate and Bool checker.  Core Lean only.

   `harness/c12.py` builds, from the real `point_source.configure(layout)` object, for every pair of TRIPLET CELLS of the
   configured panner (a Triplet region, or one inner triplet `(o_f, o_{f+1}, centre)` of a VirtualNgon region) the list of
   loudspeaker positions they share and a plane through the shared positions that separates the other vertices strictly
   (see `Gen/C12_Faces.lean`).  `facesCertOk` re-checks this in exact integer arithmetic (every binary64 coordinate `m·2^e`
   of `Gen/C05_Tables.lean` times `2^K`), together with what `Proofs/C12Faces.lean` needs of the cells (independent rows,
   distinct channels, positive centre downmix) and, for pairs of Triplet regions, the two constants `alpha`, `kappa` of the
   quantitative sliver bound:
     * with `n` the separating normal, `a_k = n·x_k ≥ 0` (rows of the first cell), `b_j = n·y_j ≤ 0` (rows of the second):
       `Σ a_k + Σ |b_j| ≤ kappa·|b_j|` for every non-shared row `j` of the second cell;
     * `|det(first cell with row i replaced by y_j)| ≤ alpha·|det(first cell)|` for every non-shared `j` and every `i`
       (Cramer: the coordinates of `y_j` in the basis of the first cell are at most `alpha`). -/
import Earverif.Model.PointSourceCover

namespace Earverif.PointSource.Faces
open Earverif.PointSource Earverif.PointSource.Cover

/-- a cell: a Triplet region (`fan` = 0), or inner triplet number `fan` of a VirtualNgon region.  The certificate carries
    the cell's data as LITERALS (so that the kernel computes with normal forms); `cellMatches` checks them against the table. -/
structure RCell where
  region : Nat
  fan : Nat
  /-- 0 = Triplet region, 1 = inner triplet of a VirtualNgon -/
  kind : Nat
  /-- the three positions scaled to integers (`m·2^e·2^K`) -/
  rows : List IV
  /-- channels inside the region: the output channels of a Triplet; `[o_f, o_{f+1}, n]` for an inner triplet -/
  lch : List Nat
  /-- output channels of the panner; `none` for the virtual centre -/
  gch : List (Option Nat)
  deriving DecidableEq

/-- the cell `(region, fan)` computed from the table -/
def deriveCell (K : Nat) (l : RawLayout) (region fan : Nat) : Option RCell :=
  match l.regions[region]? with
  | none => none
  | some r =>
    if r.kind == 0 then
      match r.pos, r.pos.mapM (scaleP3 K) with
      | [_, _, _], some rows =>
        if fan == 0 then
          some { region := region, fan := 0, kind := 0, rows := rows, lch := r.ch, gch := r.ch.map some }
        else none
      | _, _ => none
    else if r.kind == 1 then
      let n := r.pos.length
      let oi := r.order.getD fan 0
      let oj := r.order.getD ((fan + 1) % n) 0
      if fan < n then
        match r.pos[oi]?, r.pos[oj]? with
        | some a, some b =>
          match [a, b, r.centre].mapM (scaleP3 K) with
          | some rows =>
            some { region := region, fan := fan, kind := 1, rows := rows, lch := [oi, oj, n],
                   gch := [r.ch[oi]?, r.ch[oj]?, none] }
          | none => none
        | _, _ => none
      else none
    else none

/-- the literal cell of the certificate is the cell of the table -/
def cellMatches (K : Nat) (l : RawLayout) (c : RCell) : Bool := decide (deriveCell K l c.region c.fan = some c)

def rowAt (c : RCell) (i : Nat) : IV := c.rows.getD i (0, 0, 0)

/-- the cell itself: three independent rows of norm at most 2 (squared norms add up to at most 4), three distinct local
    channels, rows 0 and 1 are real loudspeakers -/
def cellOk (K : Nat) (c : RCell) : Bool :=
  c.rows.length == 3 && c.lch.length == 3 && c.gch.length == 3 && allDistinct c.lch &&
  (c.gch.getD 0 none).isSome && (c.gch.getD 1 none).isSome && (c.kind != 0 || c.gch == c.lch.map some) &&
  idet (rowAt c 0) (rowAt c 1) (rowAt c 2) != 0 &&
  decide (idot (rowAt c 0) (rowAt c 0) + idot (rowAt c 1) (rowAt c 1) + idot (rowAt c 2) (rowAt c 2) ≤ 4 * 2 ^ (2 * K))

/-- a VirtualNgon region: as many channels and downmix coefficients as vertices, distinct channels, positive downmix,
    every fan triangle is a cell of the certificate, with two distinct real vertices -/
def ngonRegionOk (K : Nat) (cells : List RCell) (k : Nat) (r : RawRegion) : Bool :=
  r.kind != 1 ||
  (r.ch.length == r.pos.length && r.cdm.length == r.pos.length && allDistinct r.ch &&
   r.cdm.all (fun x => match scaleF2 K x with | some z => decide (0 < z) | none => false) &&
   (List.range r.pos.length).all (fun f =>
     cells.any (fun c => c.region == k && c.fan == f) &&
     r.order.getD f 0 != r.order.getD ((f + 1) % r.pos.length) 0 &&
     decide (r.order.getD f 0 < r.pos.length) && decide (r.order.getD ((f + 1) % r.pos.length) 0 < r.pos.length)))

/-- a Triplet region is a cell of the certificate -/
def tripletRegionOk (cells : List RCell) (k : Nat) (r : RawRegion) : Bool :=
  r.kind != 0 || cells.any (fun c => c.region == k)

/-- one pair of cells: the shared rows and the separating plane -/
structure PairCert where
  x : Nat
  y : Nat
  /-- (row of `x`, row of `y`) with the same position, at most two -/
  shared : List (Nat × Nat)
  /-- row `j` of `y` is matched with row `perm[j]` of `x` (a permutation extending `shared`) -/
  perm : List Nat
  flip : Bool
  w : IV

/-- the separating normal: `w` (no shared row), `a × w` (one shared row `a`), `± a × b` (two shared rows) -/
def normalOf (X : RCell) (pc : PairCert) : IV :=
  match pc.shared with
  | [] => pc.w
  | [s] => icross (rowAt X s.1) pc.w
  | s :: s' :: _ => let n := icross (rowAt X s.1) (rowAt X s'.1); if pc.flip then ineg n else n

def sharedOk (X Y : RCell) (s : Nat × Nat) : Bool :=
  decide (s.1 < 3) && decide (s.2 < 3) && rowAt X s.1 == rowAt Y s.2 &&
  (if X.region == Y.region then X.lch.getD s.1 0 == Y.lch.getD s.2 0
   else
     match X.gch.getD s.1 none, Y.gch.getD s.2 none with
     | some a, some b => a == b
     | _, _ => false)

def iabs (x : Int) : Int := if x < 0 then -x else x

/-- row `i` of `X` replaced by `v` -/
def replaceRow (X : RCell) (i : Nat) (v : IV) : IV × IV × IV :=
  match i with
  | 0 => (v, rowAt X 1, rowAt X 2)
  | 1 => (rowAt X 0, v, rowAt X 2)
  | _ => (rowAt X 0, rowAt X 1, v)

/-- the constant `kappa` of the quantitative bound, for a pair of Triplet regions -/
def kappaOk (kappa : Nat) (X Y : RCell) (n : IV) (sy : List Nat) : Bool :=
  let A := idot n (rowAt X 0) + idot n (rowAt X 1) + idot n (rowAt X 2)
  let B := -(idot n (rowAt Y 0) + idot n (rowAt Y 1) + idot n (rowAt Y 2))
  (List.range 3).all fun j => sy.contains j || decide (A + B ≤ (kappa : Int) * -(idot n (rowAt Y j)))

/-- the constant `alpha` of the quantitative bound, for a pair of Triplet regions -/
def alphaOk (alpha : Nat) (X Y : RCell) (sy : List Nat) : Bool :=
  let D := idet (rowAt X 0) (rowAt X 1) (rowAt X 2)
  (List.range 3).all fun j =>
    sy.contains j ||
    (List.range 3).all fun i =>
      let R := replaceRow X i (rowAt Y j)
      decide (iabs (idet R.1 R.2.1 R.2.2) ≤ (alpha : Int) * iabs D)

def pairOk (alpha kappa : Nat) (cells : List RCell) (pc : PairCert) : Bool :=
  match cells[pc.x]?, cells[pc.y]? with
  | some X, some Y =>
    let n := normalOf X pc
    let sx := pc.shared.map (·.1)
    let sy := pc.shared.map (·.2)
    decide (pc.shared.length ≤ 2) && allDistinct sx && allDistinct sy && pc.shared.all (sharedOk X Y) &&
    isPermOfRange pc.perm 3 && pc.shared.all (fun s => pc.perm.getD s.2 3 == s.1) &&
    (List.range 3).all (fun k => if sx.contains k then idot n (rowAt X k) == 0 else decide (0 < idot n (rowAt X k))) &&
    (List.range 3).all (fun k => if sy.contains k then idot n (rowAt Y k) == 0 else decide (idot n (rowAt Y k) < 0)) &&
    (!(X.kind == 0 && Y.kind == 0) || (kappaOk kappa X Y n sy && alphaOk alpha X Y sy))
  | _, _ => false

structure FacesCert where
  cells : List RCell
  pairs : List PairCert
  alpha : Nat
  kappa : Nat

/-- the pairs `(i, j)`, `i < j < n`, in lexicographic order -/
def allPairs (n : Nat) : List (Nat × Nat) :=
  (List.range n).flatMap fun i => (List.range n).filterMap fun j => if i < j then some (i, j) else none

/-- every unordered pair of distinct cells has a certificate: the list of pairs is in the canonical order -/
def pairsCover (ncells : Nat) (pairs : List PairCert) : Bool :=
  pairs.map (fun pc => (pc.x, pc.y)) == allPairs ncells

/-- **The certificate check** for one layout table. -/
def facesCertOk (K : Nat) (l : RawLayout) (cert : FacesCert) : Bool :=
  decide (1 ≤ cert.kappa) && cert.cells.all (cellMatches K l) &&
  cert.cells.all (cellOk K) && cert.pairs.all (pairOk cert.alpha cert.kappa cert.cells) &&
  pairsCover cert.cells.length cert.pairs &&
  (List.range l.regions.length).all (fun k =>
    match l.regions[k]? with
    | some r => ngonRegionOk K cert.cells k r && tripletRegionOk cert.cells k r
    | none => false)

def facesTablesOk (K : Nat) (ls : List RawLayout) (cs : List FacesCert) : Bool :=
  ls.length == cs.length && (ls.zip cs).all fun lc => facesCertOk K lc.1 lc.2

end Earverif.PointSource.Faces
