/- C10, concrete model: WHICH calls `handleC` rejects (helper lemmas for `Props/C10.lean`).
     * `‖cart az el d‖ = |d|`: the unit-distance panning position is never the zero vector (`cart_eq_zero_iff`)
     * length of the C05 panner's answer                                               (`pspHandle_length`)
     * the polar fallback answers for every non-zero position on a table of C05        (`fallbackC_polar_total`,
       from `PointSource.pspHandle_total_layouts`, Props/C05.lean)
     * `np.interp` on three / four points stays between its ordinates; `compensate_position` keeps the azimuth in
       [-180, 180]                                                                     (`interp3_range`, `interp4_range`,
                                                                                        `compensate_az_range`)
     * the Cartesian screen edge lock never asserts on the C19 table                   (`handleVectorCart_total`, from
       `Conv.pointCartToPolar_total`, `Conv.polar_range_partial`, `Conv.pointPolarToCart_total`, Proofs/C19*.lean)
     * where an error of `lateExitC` / `earlyExit` comes from                          (`lateExitC_error`, `earlyExit_error`)
   The C01 / C05 / C13 / C19 models and proofs are imported, not edited. -/
import Earverif.Proofs.C10Concrete
import Earverif.Proofs.C01Glue
import Earverif.Proofs.C19Extent
import Earverif.Props.C05

namespace Earverif.DS
open Earverif.GainCalc (V3 k Nonneg)
open Earverif.PointSource (RawLayout RawRegion Region)

/-! ### the zero vector -/

/-- `cart(az, el, d)` is the zero vector exactly for `d = 0` (`‖cart az el d‖ = |d|`, C01 `norm3_cart`) -/
theorem cart_eq_zero_iff (az el d : ℝ) : GainCalc.cart az el d = (0, 0, 0) ↔ d = 0 := by
  constructor
  · intro h
    have hn := GainCalc.norm3_cart az el d
    rw [h] at hn
    simp [GainCalc.norm3] at hn
    exact abs_eq_zero.mp hn.symm
  · rintro rfl
    simp [GainCalc.cart]

/-! ### length of the C05 panner's answer -/

theorem scatter2_length (a b : Nat) (out : List ℝ) :
    (PointSource.scatter (PointSource.zeros 2) [a, b] out).length = 2 := by
  match out with
  | [] => simp [PointSource.scatter, PointSource.zeros]
  | [x] => simp [PointSource.scatter, PointSource.zeros]
  | x :: y :: _ => simp [PointSource.scatter, PointSource.zeros]

/-- `configure(layout).handle` answers with one gain per real loudspeaker (two behind the stereo wrapper). -/
theorem pspHandle_length (L : RawLayout) (pos : V3 ℝ) (p : List ℝ) (h : GainCalc.pspHandle L pos = some p) :
    p.length = if L.stereo.isSome then 2 else L.nReal := by
  unfold GainCalc.pspHandle at h
  split at h
  · exact absurd h (by simp)
  · rename_i regions hmap
    simp only [RawLayout.handle, hmap] at h
    cases hs : L.stereo with
    | none =>
      rw [hs] at h
      simp only [PointSource.PointSourcePannerDownmix.handle, Option.map_eq_some_iff] at h
      obtain ⟨v, _, rfl⟩ := h
      simp [PointSource.normalise, PointSource.matVec, RawLayout.downmixRows]
    | some lr =>
      obtain ⟨a, b⟩ := lr
      rw [hs] at h
      simp only [PointSource.remap, Option.map_eq_some_iff] at h
      obtain ⟨out, _, rfl⟩ := h
      simp [scatter2_length]

/-! ### the polar fallback answers for every non-zero position -/

/-- On a table of C05 (`Gen.C05.layouts`: totality `pspHandle_total_layouts`) the polar fallback answers for every
    panning position that is not the zero vector, with one gain per non-LFE slot. -/
theorem fallbackC_polar_total (E : CEnv) (hpsp : E.psp ∈ Earverif.Gen.C05.layouts)
    (hcount : (if E.psp.stereo.isSome then 2 else E.psp.nReal) = (E.L.isLfe.filter (!·)).length)
    (s : Shifted ℝ) (hs : s.polar = true) (hnz : s.pan ≠ (0, 0, 0)) :
    ∃ g, fallbackC E s = .ok g ∧ g.length = (E.L.isLfe.filter (!·)).length := by
  have ht := PointSource.pspHandle_total_layouts E.psp hpsp s.pan hnz
  cases hg : GainCalc.pspHandle E.psp s.pan with
  | none => exact absurd hg ht
  | some g =>
    refine ⟨g, ?_, by rw [pspHandle_length _ _ _ hg, hcount]⟩
    unfold fallbackC
    simp only [hs, if_true, hg]

/-! ### `np.interp` stays between its ordinates; `compensate_position` keeps the azimuth range -/

section interp
open Earverif.Zone Earverif.C13

/-- one segment of `np.interp`: a convex combination of its two ordinates -/
theorem seg_range (x xa xb ya yb lo hi : ℝ) (hab : xa < xb) (h1 : xa ≤ x) (h2 : x ≤ xb)
    (hya : lo ≤ ya ∧ ya ≤ hi) (hyb : lo ≤ yb ∧ yb ≤ hi) :
    lo ≤ (yb - ya) / (xb - xa) * (x - xa) + ya ∧ (yb - ya) / (xb - xa) * (x - xa) + ya ≤ hi := by
  have hd : 0 < xb - xa := by linarith
  set t := (x - xa) / (xb - xa) with ht
  have ht0 : 0 ≤ t := div_nonneg (by linarith) hd.le
  have ht1 : t ≤ 1 := by rw [ht, div_le_one hd]; linarith
  have e : (yb - ya) / (xb - xa) * (x - xa) + ya = ya + t * (yb - ya) := by
    rw [ht]; field_simp; ring
  rw [e]
  constructor <;> nlinarith

theorem interp4_seg_range (x xa xb ya yb lo hi : ℝ) (hab : xa < xb) (h1 : xa ≤ x) (h2 : x ≤ xb)
    (hya : lo ≤ ya ∧ ya ≤ hi) (hyb : lo ≤ yb ∧ yb ≤ hi) :
    lo ≤ Lock.interp4.seg x xa xb ya yb ∧ Lock.interp4.seg x xa xb ya yb ≤ hi := by
  unfold Lock.interp4.seg
  simp only [real_eq, real_add, real_mul, real_div, real_sub]
  split
  · exact hya
  · exact seg_range x xa xb ya yb lo hi hab h1 h2 hya hyb

/-- `np.interp(x, [x0,x1,x2,x3], [y0,y1,y2,y3])` lies between the smallest and the largest ordinate, for every `x` -/
theorem interp4_range (x0 x1 x2 x3 y0 y1 y2 y3 lo hi x : ℝ) (h01 : x0 < x1) (h12 : x1 < x2) (h23 : x2 < x3)
    (hy0 : lo ≤ y0 ∧ y0 ≤ hi) (hy1 : lo ≤ y1 ∧ y1 ≤ hi) (hy2 : lo ≤ y2 ∧ y2 ≤ hi) (hy3 : lo ≤ y3 ∧ y3 ≤ hi) :
    lo ≤ Lock.interp4 x0 x1 x2 x3 y0 y1 y2 y3 x ∧ Lock.interp4 x0 x1 x2 x3 y0 y1 y2 y3 x ≤ hi := by
  unfold Lock.interp4
  simp only [real_lt, real_le, decide_eq_true_eq, Bool.not_eq_true', decide_eq_false_iff_not, not_le]
  split_ifs with a b c d e
  · exact hy3
  · exact hy0
  · exact interp4_seg_range x x0 x1 y0 y1 lo hi h01 (not_lt.mp b) c.le hy0 hy1
  · exact interp4_seg_range x x1 x2 y1 y2 lo hi h12 (not_lt.mp c) d.le hy1 hy2
  · exact interp4_seg_range x x2 x3 y2 y3 lo hi h23 (not_lt.mp d) e.le hy2 hy3
  · exact hy3

theorem interp3_range (x0 x1 x2 y0 y1 y2 lo hi x : ℝ) (h01 : x0 < x1) (h12 : x1 < x2)
    (hy0 : lo ≤ y0 ∧ y0 ≤ hi) (hy1 : lo ≤ y1 ∧ y1 ≤ hi) (hy2 : lo ≤ y2 ∧ y2 ≤ hi) :
    lo ≤ CartLock.interp3 x0 x1 x2 y0 y1 y2 x ∧ CartLock.interp3 x0 x1 x2 y0 y1 y2 x ≤ hi := by
  unfold CartLock.interp3
  simp only [real_lt, real_le, decide_eq_true_eq, Bool.not_eq_true', decide_eq_false_iff_not, not_le]
  split_ifs with a b c d
  · exact hy2
  · exact hy0
  · exact interp4_seg_range x x0 x1 y0 y1 lo hi h01 (not_lt.mp b) c.le hy0 hy1
  · exact interp4_seg_range x x1 x2 y1 y2 lo hi h12 (not_lt.mp c) d.le hy1 hy2
  · exact hy2

/-- `compensate_position` keeps an azimuth of [-180, 180] in [-180, 180] (with U+045 in the layout it maps EVERY
    azimuth into that range: `np.interp` clamps). -/
theorem compensate_az_range (hasU045 : Bool) (az el : ℝ) (h1 : -180 ≤ az) (h2 : az ≤ 180) :
    -180 ≤ (CartLock.compensatePosition hasU045 az el).1 ∧ (CartLock.compensatePosition hasU045 az el).1 ≤ 180 := by
  unfold CartLock.compensatePosition
  cases hasU045 with
  | false => exact ⟨h1, h2⟩
  | true =>
    simp only [if_true, real_ofNat, real_sub, real_zero, real_mul, real_div]
    have hr := interp3_range ((0 : ℕ) : ℝ) ((30 : ℕ) : ℝ) ((90 : ℕ) : ℝ) ((30 : ℕ) : ℝ)
      (((30 : ℕ) : ℝ) * (((30 : ℕ) : ℝ) / ((45 : ℕ) : ℝ))) ((30 : ℕ) : ℝ) 20 30 el
      (by norm_num) (by norm_num) (by norm_num) (by norm_num) (by norm_num)
    set r := CartLock.interp3 ((0 : ℕ) : ℝ) ((30 : ℕ) : ℝ) ((90 : ℕ) : ℝ) ((30 : ℕ) : ℝ)
      (((30 : ℕ) : ℝ) * (((30 : ℕ) : ℝ) / ((45 : ℕ) : ℝ))) ((30 : ℕ) : ℝ) el
    exact interp4_range _ _ _ _ _ _ _ _ (-180) 180 az (by norm_num) (by norm_num) (by norm_num)
      (by norm_num) (by constructor <;> linarith [hr.1, hr.2]) (by constructor <;> linarith [hr.1, hr.2]) (by norm_num)

end interp

/-! ### the Cartesian screen edge lock never asserts -/

/-- the table's screen edges are azimuths of [-180, 180] (decidable; discharged for the ten layouts in Props/C10) -/
def edgesOkB (E : CEnv) : Bool :=
  match E.G.edges with
  | none => true
  | some e => decide (-180 ≤ e.left) && decide (e.left ≤ 180) && decide (-180 ≤ e.right) && decide (e.right ≤ 180)

theorem lockEdgeC_az_cases (e : ScreenEdges) (az el : ℝ) (sel : ScreenEdgeLock) :
    (lockEdgeC e az el sel).1 = ((e.left : Rat) : ℝ) ∨ (lockEdgeC e az el sel).1 = ((e.right : Rat) : ℝ) ∨
      (lockEdgeC e az el sel).1 = az := by
  unfold lockEdgeC
  simp only [GainCalc.k_real]
  split_ifs <;> simp

/-- **`ScreenEdgeLockHandler.handle_vector(…, cartesian=True)` never asserts** on the C19 table (`Conv.RP`, any fuel
    ≥ 1): `point_cart_to_polar` finds a sector for every point, its azimuth is in [-180, 180), the locked azimuth is a
    table edge or that azimuth, `compensate_position` keeps the range, so `point_polar_to_cart` finds a sector. -/
theorem handleVectorCart_total (E : CEnv) (hE : edgesOkB E = true) (m : Nat) (p : V3 ℝ) (sel : ScreenEdgeLock) :
    ∃ q, handleVectorCart E (Conv.RP (m + 1)) p sel = some q := by
  unfold handleVectorCart
  unfold edgesOkB at hE
  cases he : E.G.edges with
  | none => exact ⟨p, rfl⟩
  | some e =>
    rw [he] at hE
    simp only [Bool.and_eq_true, decide_eq_true_eq] at hE
    obtain ⟨⟨⟨hl1, hl2⟩, hr1⟩, hr2⟩ := hE
    simp only
    split
    · obtain ⟨⟨⟨az, el, d⟩, i⟩, hr⟩ := Conv.pointCartToPolar_total m p.1 p.2.1 p.2.2
      rw [hr]
      simp only
      have hrange := Conv.polar_range_partial (Conv.RP (m + 1)) (by rw [(Conv.RP_consts (m + 1)).2.2.1]; omega)
        (Conv.RP_consts (m + 1)).2.2.2 (Conv.RP_el (m + 1)).1 (Conv.RP_el (m + 1)).2.1 (Conv.RP_el (m + 1)).2.2.1
        (Conv.RP_el (m + 1)).2.2.2 p.1 p.2.1 p.2.2 az el d i hr
      have hlaz : -180 ≤ (lockEdgeC e az el sel).1 ∧ (lockEdgeC e az el sel).1 ≤ 180 := by
        rcases lockEdgeC_az_cases e az el sel with h | h | h <;> rw [h]
        · exact ⟨by exact_mod_cast hl1, by exact_mod_cast hl2⟩
        · exact ⟨by exact_mod_cast hr1, by exact_mod_cast hr2⟩
        · exact ⟨hrange.1.1, hrange.1.2.le⟩
      have hc := compensate_az_range E.hasU045 (lockEdgeC e az el sel).1 (lockEdgeC e az el sel).2 hlaz.1 hlaz.2
      obtain ⟨r, hr'⟩ := Conv.pointPolarToCart_total m
        (CartLock.compensatePosition E.hasU045 (lockEdgeC e az el sel).1 (lockEdgeC e az el sel).2).1
        (CartLock.compensatePosition E.hasU045 (lockEdgeC e az el sel).1 (lockEdgeC e az el sel).2).2 d hc.1 hc.2
      exact ⟨r.1, by rw [hr']; rfl⟩
    · exact ⟨p, rfl⟩

/-! ### where an error comes from -/

/-- an error of the exits after the label match: the block is not an LFE channel, and either the fallback panner
    failed with that error or it answered with the wrong number of gains -/
theorem lateExitC_error {L : Layout} {lfe : Bool} {wb : List Bool} {cl : Option Nat}
    {fb : Unit → Except CError (List ℝ)} {err : CError} (h : lateExitC L lfe wb cl fb = .error err) :
    lfe = false ∧ (fb () = .error err ∨ ∃ g, fb () = .ok g ∧ scatterC L.isLfe g = none ∧ err = .ds .pspShape) := by
  unfold lateExitC at h
  simp only at h
  split at h
  · cases h
  · split at h
    · split at h <;> cases h
    · rename_i hlfe
      refine ⟨by simpa using hlfe, ?_⟩
      split at h
      · rename_i e he
        injection h with h; subst h
        exact Or.inl he
      · rename_i g hg
        split at h
        · cases h
        · rename_i hsc
          injection h with h; subst h
          exact Or.inr ⟨g, hg, hsc, rfl⟩

/-- an error of the early exits: `audioPackFormats` is the empty list, or the block sits in an ITU common-definition
    pack and has no speakerLabel -/
theorem earlyExit_error {R : List MappingRule} {P : List (String × String)} {L : Layout} {b : Block} {e : DsError}
    (h : earlyExit R P L b = .error e) :
    (e = .emptyPackList ∧ b.packs = some []) ∨
    (e = .noLabelInItuPack ∧ b.labels = [] ∧ ∃ il, ituLayoutOf P b = .ok (some il)) := by
  unfold earlyExit at h
  split at h
  · rename_i e' hrs
    injection h with h; subst h
    unfold ruleStage at hrs
    split at hrs
    · rename_i e'' hitu
      injection hrs with hrs; subst hrs
      left
      unfold ituLayoutOf at hitu
      split at hitu
      · cases hitu
      · rename_i ps hps
        split at hitu
        · rename_i hlast
          injection hitu with hitu; subst hitu
          rw [List.getLast?_eq_none_iff] at hlast
          exact ⟨rfl, by rw [hps, hlast]⟩
        · cases hitu
    · cases hrs
    · rename_i il hil
      split at hrs
      · rename_i hnil
        injection hrs with hrs; subst hrs
        exact Or.inr ⟨rfl, hnil, il, hil⟩
      · split at hrs <;> cases hrs
  · cases h
  · split at h <;> cases h

end Earverif.DS
