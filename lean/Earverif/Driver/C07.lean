/- Line protocol for the C07 pack-allocation model.
   in : `<mode>|<packs>|<tracks>|<refs>|<nsilent>`
        mode   = alloc | brute | select | valid
        packs  = pack;pack;...            pack  = root:chan/chan/...   chan = cf,pf,pf,...
                 (pack id = position in the list; `-` = no packs)
        tracks = cf,pf;cf,pf;...          (track id = position; `-` = no tracks)
        refs   = `N` (pack_refs is None) | `-` (empty list) | r,r,...
   out: alloc : `<n>#sol|sol|...` in yield order; sol = apack;apack;..., apack = packid:slot,slot,...
                slot = track id | `s` (silent) | `E` (_EMPTY)
        brute : same, every solution canonicalised (apacks sorted), de-duplicated, sorted
        select: `accepted <sol>` | `Conflicting` | `Ambiguous`
        valid : for each solution returned by alloc, `1`/`0` = decide (Valid prob sol); then `wf=1/0`
        `bad-op` for a malformed line. -/
import Earverif.Model.PackAlloc
import Earverif.Driver.Util
open Earverif.PackAlloc Earverif.Driver

def parseNats? (s : String) (sep : String) : Option (List Nat) :=
  (s.splitOn sep).mapM (fun w => w.toNat?)

def parseChannel (s : String) : Option Channel :=
  match parseNats? s "," with
  | some (cf :: pfs) => some ⟨cf, pfs⟩
  | _ => none

def parsePack (i : Nat) (s : String) : Option Pack :=
  match s.splitOn ":" with
  | [r, chans] => do
    let root ← r.toNat?
    let cs ← if chans = "" then some [] else (chans.splitOn "/").mapM parseChannel
    some ⟨i, root, cs⟩
  | _ => none

def mapIdxM? {α β : Type} (f : Nat → α → Option β) : Nat → List α → Option (List β)
  | _, [] => some []
  | i, x :: xs => do
    let y ← f i x
    let ys ← mapIdxM? f (i + 1) xs
    some (y :: ys)

def parsePacks (s : String) : Option (List Pack) :=
  if s = "-" then some [] else mapIdxM? parsePack 0 (s.splitOn ";")

def parseTrack (i : Nat) (s : String) : Option Track :=
  match parseNats? s "," with
  | some [cf, pf] => some ⟨i, cf, pf⟩
  | _ => none

def parseTracks (s : String) : Option (List Track) :=
  if s = "-" then some [] else mapIdxM? parseTrack 0 (s.splitOn ";")

def parseRefs (s : String) : Option (Option (List Nat)) :=
  if s = "N" then some none
  else if s = "-" then some (some [])
  else (parseNats? s ",").map some

def parseProblem (ws : List String) : Option Problem :=
  match ws with
  | [p, t, r, n] => do
    some ⟨← parsePacks p, ← parseTracks t, ← parseRefs r, ← n.toNat?⟩
  | _ => none

def showSlot : Slot → String
  | none => "E"
  | some none => "s"
  | some (some t) => toString t.id

def showAllocated (a : Allocated) : String :=
  s!"{a.pack.id}:" ++ String.intercalate "," (a.allocation.map fun cs => showSlot cs.2)

def showSol (sol : Sol) : String := String.intercalate ";" (sol.map showAllocated)

def sortStrings (l : List String) : List String :=
  l.mergeSort (fun a b => compare a b != .gt)

def showSolCanon (sol : Sol) : String :=
  String.intercalate ";" (sortStrings (sol.map showAllocated))

def showSols (ss : List String) : String :=
  s!"{ss.length}#" ++ String.intercalate "|" ss

def answer (line : String) : String :=
  match line.splitOn "|" with
  | mode :: rest =>
    match parseProblem rest with
    | none => "bad-op"
    | some prob =>
      if mode = "alloc" then showSols ((allocatePacks prob).map showSol)
      else if mode = "brute" then
        showSols (sortStrings ((bruteForce prob).map showSolCanon)).eraseDups
      else if mode = "select" then
        match selectPackMapping prob with
        | .accepted s => "accepted " ++ showSol s
        | .conflicting => "Conflicting"
        | .ambiguous => "Ambiguous"
      else if mode = "valid" then
        String.join ((allocatePacks prob).map fun s => if decide (Valid prob s) then "1" else "0")
          ++ (if decide (WF prob) then " wf=1" else " wf=0")
      else "bad-op"
  | [] => "bad-op"

def main : IO Unit := lineLoop answer
